(* C06: on a well-formed text the byte slice parse never rejects where the str
   parse does not. StrSliceProofs shows the two agree unless the slice parse
   answers InvalidUnicodeCodePoint; here the input is a well-formed UTF-8 text
   W, and the reader-state logic of Utf8StrProofs (the str reader stands inside
   W, at a character boundary where it matters) shows that every symbol and
   string the scanners hand to the validation is well-formed - so the
   validation the slice reader performs and the str reader skips always
   passes, and the two parses return exactly the same result. *)
From Coq Require Import SpecFloat Lia ZifyBool ZifyNat ZifyN.
Require Import Base Value Float PrintOptions ParseOptions Utf8 Reader Scan Num NumberOps Parser.
Require Import RelFramework PositionProofs SpanProofs StrSliceProofs Utf8Proofs Utf8PrintProofs Utf8ParseProofs Utf8StrProofs DatumProofs.

(* ---- the steps that do not look at the kind: same result, still related ---- *)
Definition sx0 {A} (m : M A) : Prop :=
  forall r1 r2, srel r1 r2 -> fst (m r1) = fst (m r2) /\ srel (snd (m r1)) (snd (m r2)).
Lemma sx0_alike {A} (m : M A) : alike m -> sx0 m.
Proof.
  intros H r1 r2 Hr. pose proof Hr as (K1 & K2 & _). rewrite (srel_eq r1 r2 Hr).
  destruct (H r2 K2) as [E Hk]. rewrite E. cbn [fst snd]. split; [reflexivity|apply srel_as; exact Hk].
Qed.
Lemma sx0_bind {A B} (m : M A) (f : A -> M B) : sx0 m -> (forall a, sx0 (f a)) -> sx0 (bind m f).
Proof.
  intros Hm Hf r1 r2 H. unfold bind. destruct (Hm r1 r2 H) as [E Hr].
  destruct (m r1) as [[a1|e1] r1']; destruct (m r2) as [[a2|e2] r2']; cbn [fst snd] in *; try discriminate.
  - inversion E; subst a2. apply Hf. exact Hr.
  - split; [inversion E; reflexivity|exact Hr].
Qed.
Lemma sx0_ext {A} (m m' : M A) : (forall r, m r = m' r) -> sx0 m' -> sx0 m.
Proof. intros E H r1 r2 Hr. rewrite !E. apply H. exact Hr. Qed.

Create HintDb s0db.
Ltac sx0_step :=
  first
    [ apply sx0_alike; first [apply alike_ret | apply alike_fuel | apply alike_peek | apply alike_next | apply alike_eat
                            | apply alike_error | apply alike_peek_error | apply alike_error_consume | apply alike_position
                            | apply alike_take_run | apply alike_take_symbol ]
    | solve [eauto 3 with s0db]
    | apply sx0_bind; [|intros ?]
    | match goal with
      | |- sx0 (match ?x with _ => _ end) => destruct x
      | |- sx0 (if ?x then _ else _) => destruct x
      | |- sx0 (let '(_, _) := ?x in _) => destruct x
      end ].
Ltac sx0_auto := repeat sx0_step.

Lemma sx0_peek_or_null : sx0 peek_or_null.
Proof. unfold peek_or_null. sx0_auto. Qed.
Lemma sx0_next_or_eof : sx0 next_or_eof.
Proof. unfold next_or_eof. sx0_auto. Qed.
Lemma sx0_next_or_eof_char : sx0 next_or_eof_char.
Proof. unfold next_or_eof_char. sx0_auto. Qed.
Lemma sx0_as_str b : sx0 (Scan.as_str b).
Proof. unfold Scan.as_str. sx0_auto. Qed.
#[export] Hint Resolve sx0_peek_or_null sx0_next_or_eof sx0_next_or_eof_char sx0_as_str : s0db.



Lemma sx0_scan_symbol_slice scratch : sx0 (scan_symbol_slice scratch).
Proof. eapply sx0_ext; [intros r; apply scan_symbol_slice_eq|]. cbv zeta. sx0_auto. Qed.


Lemma sx0_hex_escape_loop fuel : forall x, sx0 (hex_escape_loop fuel x).
Proof. induction fuel as [|f IH]; intros x; cbn [hex_escape_loop]; sx0_auto. Qed.
Lemma sx0_parse_r6rs_escape fuel : sx0 (parse_r6rs_escape fuel).
Proof. pose proof sx0_hex_escape_loop. unfold parse_r6rs_escape, decode_r6rs_hex_escape. sx0_auto. Qed.
#[export] Hint Resolve sx0_parse_r6rs_escape : s0db.
Lemma sx0_r6rs_str_slice fuel : forall scratch, sx0 (r6rs_str_slice fuel scratch).
Proof.
  induction fuel as [|f IH]; intros scratch; [cbn [r6rs_str_slice]; sx0_auto|].
  eapply sx0_ext; [intros r; apply r6rs_str_slice_eq|]. sx0_auto.
Qed.


Lemma sx0_elisp_hex_loop fuel : forall x, sx0 (elisp_hex_loop fuel x).
Proof. induction fuel as [|f IH]; intros x; cbn [elisp_hex_loop]; sx0_auto. Qed.
Lemma sx0_decode_elisp_uni_escape k : forall x, sx0 (decode_elisp_uni_escape k x).
Proof. induction k as [|k IH]; intros x; cbn [decode_elisp_uni_escape]; sx0_auto. Qed.
Lemma sx0_elisp_octal_loop fuel : forall x, sx0 (elisp_octal_loop fuel x).
Proof. induction fuel as [|f IH]; intros x; cbn [elisp_octal_loop]; sx0_auto. Qed.
Lemma sx0_elisp_char_escape_of x : sx0 (elisp_char_escape_of x).
Proof. unfold elisp_char_escape_of. sx0_auto. Qed.
Lemma sx0_elisp_uni_escape_of x : sx0 (elisp_uni_escape_of x).
Proof. unfold elisp_uni_escape_of. sx0_auto. Qed.
#[export] Hint Resolve sx0_elisp_hex_loop sx0_decode_elisp_uni_escape sx0_elisp_octal_loop sx0_elisp_char_escape_of sx0_elisp_uni_escape_of : s0db.
Lemma sx0_parse_elisp_escape fuel : sx0 (parse_elisp_escape fuel).
Proof. unfold parse_elisp_escape, decode_elisp_hex_escape, decode_elisp_octal_escape. sx0_auto. Qed.
#[export] Hint Resolve sx0_parse_elisp_escape : s0db.
Lemma sx0_elisp_finish fl scratch : sx0 (elisp_finish fl scratch).
Proof. unfold elisp_finish. sx0_auto. Qed.
#[export] Hint Resolve sx0_elisp_finish : s0db.
Lemma sx0_elisp_str_slice fuel : forall fl scratch, sx0 (elisp_str_slice fuel fl scratch).
Proof.
  induction fuel as [|f IH]; intros fl scratch; [cbn [elisp_str_slice]; sx0_auto|].
  eapply sx0_ext; [intros r; apply elisp_str_slice_eq|]. cbv zeta. sx0_auto.
Qed.


Lemma sx0_parse_elisp_str_rd fuel : sx0 (parse_elisp_str_rd fuel).
Proof.
  intros r1 r2 H. pose proof H as (K1 & K2 & _). unfold parse_elisp_str_rd. cbv zeta. rewrite K1, K2.
  apply sx0_elisp_str_slice. exact H.
Qed.
#[export] Hint Resolve sx0_parse_elisp_str_rd : s0db.
Lemma sx0_take_bytes k : forall acc, sx0 (take_bytes k acc).
Proof. induction k as [|k IH]; intros acc; cbn [take_bytes]; sx0_auto. Qed.
#[export] Hint Resolve sx0_take_bytes : s0db.
Lemma sx0_decode_utf8_sequence_b c : sx0 (decode_utf8_sequence_b c).
Proof. unfold decode_utf8_sequence_b. sx0_auto. Qed.
#[export] Hint Resolve sx0_decode_utf8_sequence_b : s0db.
Lemma sx0_decode_utf8_sequence c : sx0 (decode_utf8_sequence c).
Proof. unfold decode_utf8_sequence. sx0_auto. Qed.
#[export] Hint Resolve sx0_decode_utf8_sequence : s0db.
Lemma sx0_r6rs_char_hex_loop fuel : forall x first, sx0 (r6rs_char_hex_loop fuel x first).
Proof. induction fuel as [|f IH]; intros x first; cbn [r6rs_char_hex_loop]; sx0_auto. Qed.
Lemma sx0_char_name_loop fuel : forall scratch, sx0 (char_name_loop fuel scratch).
Proof. induction fuel as [|f IH]; intros scratch; cbn [char_name_loop]; sx0_auto. Qed.
Lemma sx0_open_ended_char x : sx0 (open_ended_char x).
Proof. unfold open_ended_char. sx0_auto. Qed.
#[export] Hint Resolve sx0_r6rs_char_hex_loop sx0_char_name_loop sx0_open_ended_char : s0db.
Lemma sx0_parse_r6rs_char fuel : sx0 (parse_r6rs_char fuel).
Proof. unfold parse_r6rs_char. sx0_auto. Qed.
#[export] Hint Resolve sx0_parse_r6rs_char : s0db.
Lemma sx0_as_char x : sx0 (Scan.as_char x).
Proof. unfold Scan.as_char. sx0_auto. Qed.
#[export] Hint Resolve sx0_as_char : s0db.
Lemma sx0_decode_elisp_char_escape fuel : sx0 (decode_elisp_char_escape fuel).
Proof. unfold decode_elisp_char_escape, decode_elisp_hex_escape, decode_elisp_octal_escape. sx0_auto. Qed.
#[export] Hint Resolve sx0_decode_elisp_char_escape : s0db.
Lemma sx0_parse_elisp_char fuel : sx0 (parse_elisp_char fuel).
Proof. unfold parse_elisp_char. sx0_auto. Qed.
#[export] Hint Resolve sx0_parse_elisp_char : s0db.

(* ---- numbers: neither reader looks at its kind ---- *)
Section NumStr0.
  Variable fast : bool.
  Variable std_parse : N -> Z -> f64.

  Lemma sx0_fast_loop fuel : forall f e, sx0 (f64_from_parts_fast_loop fuel f e).
  Proof. induction fuel as [|k IH]; intros f e; cbn [f64_from_parts_fast_loop]; sx0_auto. Qed.
  Lemma sx0_f64_from_parts pos sig e : sx0 (f64_from_parts fast std_parse pos sig e).
  Proof. pose proof sx0_fast_loop. unfold f64_from_parts. cbv zeta. sx0_auto. Qed.
  Hint Resolve sx0_f64_from_parts : s0db.
  Lemma sx0_skip_digits fuel : sx0 (skip_digits fuel).
  Proof. induction fuel as [|f IH]; cbn [skip_digits]; sx0_auto. Qed.
  Hint Resolve sx0_skip_digits : s0db.
  Lemma sx0_parse_exponent_overflow fuel p s pe : sx0 (parse_exponent_overflow fuel p s pe).
  Proof. unfold parse_exponent_overflow. sx0_auto. Qed.
  Hint Resolve sx0_parse_exponent_overflow : s0db.
  Lemma sx0_exponent_digits fuel : forall p s pe se e, sx0 (exponent_digits fast std_parse fuel p s pe se e).
  Proof. induction fuel as [|f IH]; intros p s pe se e; cbn [exponent_digits]; cbv zeta; sx0_auto. Qed.
  Hint Resolve sx0_exponent_digits : s0db.
  Lemma sx0_parse_exponent fuel p s se : sx0 (parse_exponent fast std_parse fuel p s se).
  Proof. unfold parse_exponent. sx0_auto. Qed.
  Hint Resolve sx0_parse_exponent : s0db.
  Lemma sx0_decimal_digits fuel : forall s e o, sx0 (decimal_digits fuel s e o).
  Proof. induction fuel as [|f IH]; intros s e o; cbn [decimal_digits]; cbv zeta; sx0_auto. Qed.
  Hint Resolve sx0_decimal_digits : s0db.
  Lemma sx0_parse_decimal fuel p s e : sx0 (parse_decimal fast std_parse fuel p s e).
  Proof. unfold parse_decimal. sx0_auto. Qed.
  Hint Resolve sx0_parse_decimal : s0db.
  Lemma sx0_parse_long_integer fuel : forall radix p s e, sx0 (parse_long_integer fast std_parse fuel radix p s e).
  Proof. induction fuel as [|f IH]; intros radix p s e; cbn [parse_long_integer]; cbv zeta; sx0_auto. Qed.
  Hint Resolve sx0_parse_long_integer : s0db.
  Lemma sx0_parse_num_tail fuel radix p s : sx0 (parse_num_tail fast std_parse fuel radix p s).
  Proof. unfold parse_num_tail. sx0_auto. Qed.
  Hint Resolve sx0_parse_num_tail : s0db.
  Lemma sx0_num_literal_loop fuel : forall radix p s, sx0 (num_literal_loop fast std_parse fuel radix p s).
  Proof. induction fuel as [|f IH]; intros radix p s; cbn [num_literal_loop]; sx0_auto. Qed.
  Hint Resolve sx0_num_literal_loop : s0db.
  Lemma sx0_parse_num_literal fuel radix p : sx0 (parse_num_literal fast std_parse fuel radix p).
  Proof. unfold parse_num_literal. sx0_auto. Qed.
End NumStr0.
#[export] Hint Resolve sx0_f64_from_parts sx0_skip_digits sx0_parse_exponent_overflow sx0_exponent_digits sx0_parse_exponent
  sx0_decimal_digits sx0_parse_decimal sx0_parse_long_integer sx0_parse_num_tail sx0_num_literal_loop sx0_parse_num_literal : s0db.

(* ---- tokens ---- *)
Section TokenStr0.
  Variable ro : parse_options.
  Variable alpha : N -> bool.
  Variable fast : bool.
  Variable std_parse : N -> Z -> f64.

  Lemma sx0_parse_num_token fuel radix p : sx0 (parse_num_token fast std_parse fuel radix p).
  Proof. unfold parse_num_token. sx0_auto. Qed.
  Hint Resolve sx0_parse_num_token : s0db.
  Lemma sx0_parse_radix_literal fuel radix : sx0 (parse_radix_literal fast std_parse fuel radix).
  Proof. unfold parse_radix_literal. sx0_auto. Qed.
  Hint Resolve sx0_parse_radix_literal : s0db.
  Lemma sx0_parse_number fuel : sx0 (parse_number fast std_parse fuel).
  Proof. unfold parse_number. sx0_auto. Qed.
  Hint Resolve sx0_parse_number : s0db.
  Lemma sx0_skip_comment fuel : sx0 (skip_comment fuel).
  Proof. induction fuel as [|f IH]; cbn [skip_comment]; sx0_auto. Qed.
  Hint Resolve sx0_skip_comment : s0db.
  Lemma sx0_parse_whitespace fuel : sx0 (parse_whitespace fuel).
  Proof. induction fuel as [|f IH]; cbn [parse_whitespace]; sx0_auto. Qed.
  Hint Resolve sx0_parse_whitespace : s0db.
  
  
  Lemma sx0_expect_ident ident : sx0 (expect_ident ident).
  Proof. induction ident as [|c ident IH]; cbn [expect_ident]; sx0_auto. Qed.
  Hint Resolve sx0_expect_ident : s0db.
  
  Lemma sx0_end_seq fuel close : sx0 (end_seq fuel close).
  Proof. unfold end_seq. sx0_auto. Qed.
  Lemma sx0_expect_end fuel : sx0 (expect_end fuel).
  Proof. unfold expect_end. sx0_auto. Qed.
  Lemma sx0_byte_list_loop fuel : forall close acc, sx0 (byte_list_loop fast std_parse fuel close acc).
  Proof. induction fuel as [|f IH]; intros close acc; cbn [byte_list_loop]; sx0_auto. Qed.
  Lemma sx0_parse_byte_list fuel close : sx0 (parse_byte_list fast std_parse fuel close).
  Proof. pose proof sx0_byte_list_loop. unfold parse_byte_list. sx0_auto. Qed.
End TokenStr0.
#[export] Hint Resolve sx0_parse_num_token sx0_parse_radix_literal sx0_parse_number sx0_skip_comment sx0_parse_whitespace
  sx0_expect_ident sx0_end_seq sx0_expect_end sx0_byte_list_loop sx0_parse_byte_list : s0db.


(* ---- parser-level steps that do not look at the kind ---- *)
Definition psx0 {A} (m : PM A) : Prop :=
  forall s1 s2, sprel s1 s2 -> fst (m s1) = fst (m s2) /\ sprel (snd (m s1)) (snd (m s2)).
Lemma psx0_pret {A} (a : A) : psx0 (pret a).
Proof. intros s1 s2 H. split; [reflexivity|exact H]. Qed.
Lemma psx0_pfail {A} e : psx0 (@pfail A e).
Proof. intros s1 s2 H. split; [reflexivity|exact H]. Qed.
Lemma psx0_liftR {A} (m : M A) : sx0 m -> psx0 (liftR m).
Proof.
  intros Hm s1 s2 [Hr Hd]. unfold liftR. destruct (Hm (rd s1) (rd s2) Hr) as [E Hr'].
  destruct (m (rd s1)) as [[a1|e1] r1']; destruct (m (rd s2)) as [[a2|e2] r2']; cbn [fst snd rd depth] in *; try discriminate;
    inversion E; subst; (split; [reflexivity|split; [exact Hr'|exact Hd]]).
Qed.
Lemma psx0_bind {A B} (m : PM A) (f : A -> PM B) : psx0 m -> (forall a, psx0 (f a)) -> psx0 (pbind m f).
Proof.
  intros Hm Hf s1 s2 H. rewrite !pbind_unfold. destruct (Hm s1 s2 H) as [E Hr].
  destruct (m s1) as [[a1|x1] s1']; destruct (m s2) as [[a2|x2] s2']; cbn [fst snd] in *; try discriminate.
  - inversion E; subst a2. apply Hf. exact Hr.
  - inversion E; subst x2. split; [reflexivity|exact Hr].
Qed.
Lemma psx0_get_depth : psx0 get_depth.
Proof. intros s1 s2 [Hr Hd]. unfold get_depth. cbn [fst snd]. rewrite Hd. split; [reflexivity|split; [exact Hr|exact Hd]]. Qed.
Lemma psx0_set_depth d : psx0 (set_depth d).
Proof. intros s1 s2 [Hr Hd]. unfold set_depth. cbn [fst snd rd depth]. split; [reflexivity|split; [exact Hr|reflexivity]]. Qed.
Lemma psx0_dec_depth : psx0 dec_depth.
Proof. unfold dec_depth. apply psx0_bind; [apply psx0_get_depth|]. intros d. destruct (d =? 0); [apply psx0_pfail|apply psx0_set_depth]. Qed.
Lemma psx0_inc_depth : psx0 inc_depth.
Proof. unfold inc_depth. apply psx0_bind; [apply psx0_get_depth|]. intros d. destruct (255 <=? d); [apply psx0_pfail|apply psx0_set_depth]. Qed.
Lemma psx0_err {A} c : psx0 (liftR (@peek_error A c)).
Proof. apply psx0_liftR. apply sx0_alike. apply alike_peek_error. Qed.
Lemma psx0_enter_nesting : psx0 enter_nesting.
Proof.
  unfold enter_nesting. apply psx0_bind; [apply psx0_dec_depth|]. intros _. apply psx0_bind; [apply psx0_get_depth|]. intros d.
  destruct (d =? 0); [|apply psx0_pret]. apply psx0_bind; [apply psx0_inc_depth|]. intros _. apply psx0_err.
Qed.
Lemma psx0_attempt {A} (m : PM A) : psx0 m -> psx0 (attempt m).
Proof.
  intros Hm s1 s2 H. rewrite !attempt_unfold. destruct (Hm s1 s2 H) as [E Hr].
  destruct (m s1) as [[a1|x1] s1']; destruct (m s2) as [[a2|x2] s2']; cbn [fst snd] in *; try discriminate.
  - inversion E; subst a2. split; [reflexivity|exact Hr].
  - inversion E; subst x2. destruct x1 as [[c l cl|io|]|k]; cbn [fst snd]; (split; [reflexivity|exact Hr]).
Qed.
Lemma psx0_both {A} (r : res A) (e : res unit) : psx0 (both r e).
Proof. destruct r; destruct e; cbn [both]; first [apply psx0_pret|apply psx0_pfail]. Qed.
Lemma psx0_lift {A} (r : res A) : psx0 (lift r).
Proof. destruct r; cbn [lift]; [apply psx0_pret|apply psx0_pfail]. Qed.
Lemma psx0_seq_cont {A B} (endm : M unit) (k : A -> PM B) r : sx0 endm -> (forall a, psx0 (k a)) ->
  psx0 (pbind inc_depth (fun _ => pbind (attempt (liftR endm)) (fun e => pbind (both r e) k))).
Proof.
  intros He Hk. apply psx0_bind; [apply psx0_inc_depth|]. intros _.
  apply psx0_bind; [apply psx0_attempt; apply psx0_liftR; exact He|]. intros e. apply psx0_bind; [apply psx0_both|exact Hk].
Qed.
Lemma psx0_quote_cont {A B} (k : A -> PM B) r : (forall a, psx0 (k a)) ->
  psx0 (pbind inc_depth (fun _ => pbind (lift r) k)).
Proof. intros Hk. apply psx0_bind; [apply psx0_inc_depth|]. intros _. apply psx0_bind; [apply psx0_lift|exact Hk]. Qed.

(* ---- a str reader inside a well-formed text, and the slice reader beside it ---- *)
Section ValidText.
  Variable W : bytes.
  Hypothesis HW : utf8_valid W = true.

  Definition tw {A} (pre : reader -> Prop) (m : M A) : Prop :=
    forall r1 r2, srel r1 r2 -> okr W r1 -> pre r1 ->
    fst (m r1) = fst (m r2) /\ srel (snd (m r1)) (snd (m r2)).

  Lemma tw_sx0 {A} pre (m : M A) : sx0 m -> tw pre m.
  Proof. intros H r1 r2 Hr _ _. apply H. exact Hr. Qed.
  Lemma tw_bind {A B} pre (m : M A) (f : A -> M B) mid :
    tw pre m -> hs W pre m mid -> (forall a, tw (mid a) (f a)) -> tw pre (bind m f).
  Proof.
    intros Hm Hh Hf r1 r2 Hr Ho Hp. unfold bind. destruct (Hm r1 r2 Hr Ho Hp) as [E Hr']. specialize (Hh r1 Ho Hp).
    destruct (m r1) as [[a1|e1] r1']; destruct (m r2) as [[a2|e2] r2']; cbn [fst snd] in *; try discriminate.
    - inversion E; subst a2. destruct Hh as [Ho' Hmid]. apply Hf; assumption.
    - split; [inversion E; reflexivity|exact Hr'].
  Qed.
  Lemma tw_weaken {A} (pre pre' : reader -> Prop) (m : M A) : (forall r, pre' r -> pre r) -> tw pre m -> tw pre' m.
  Proof. intros H Hm r1 r2 Hr Ho Hp. apply Hm; auto. Qed.
  Lemma tw_pure_pre {A} (P : Prop) pre (m : M A) : (P -> tw pre m) -> tw (fun r => P /\ pre r) m.
  Proof. intros H r1 r2 Hr Ho [HP Hp]. apply (H HP); assumption. Qed.

  (* the validation passes on both sides once the bytes are well-formed *)
  Lemma finish_str_valid b r : utf8_valid b = true -> rk r <> SrcIo -> finish_str b r = (Ok b, r).
  Proof.
    intros Hv Hk. unfold finish_str. destruct (rk r); try reflexivity; [|exfalso; apply Hk; reflexivity].
    unfold Scan.as_str. rewrite Hv. reflexivity.
  Qed.

  Lemma tw_parse_symbol_rd fuel scratch : utf8_valid scratch = true -> tw bnd (parse_symbol_rd fuel scratch).
  Proof.
    intros Hs r1 r2 Hr Ho Hb. pose proof Hr as (K1 & K2 & _). unfold parse_symbol_rd. rewrite K1, K2. unfold bind.
    destruct (sx0_scan_symbol_slice scratch r1 r2 Hr) as [E Hr'].
    pose proof (hs_scan_symbol_slice W HW scratch r1 Ho Hb) as Hh.
    destruct (scan_symbol_slice scratch r1) as [[n1|e1] r1']; destruct (scan_symbol_slice scratch r2) as [[n2|e2] r2']; cbn [fst snd] in *; try discriminate.
    - inversion E; subst n2. destruct Hh as [Ho' [Hv _]]. pose proof Hr' as (K1' & K2' & _).
      rewrite !finish_str_valid; auto; try congruence.
    - split; [inversion E; reflexivity|exact Hr'].
  Qed.
  Lemma tw_parse_r6rs_str_rd fuel : tw bnd (parse_r6rs_str_rd fuel).
  Proof.
    intros r1 r2 Hr Ho Hb. pose proof Hr as (K1 & K2 & _). unfold parse_r6rs_str_rd. rewrite K1, K2. unfold bind.
    destruct (sx0_r6rs_str_slice fuel [] r1 r2 Hr) as [E Hr'].
    pose proof (hs_r6rs_str_slice W HW fuel [] r1 Ho Hb) as Hh.
    destruct (r6rs_str_slice fuel [] r1) as [[n1|e1] r1']; destruct (r6rs_str_slice fuel [] r2) as [[n2|e2] r2']; cbn [fst snd] in *; try discriminate.
    - inversion E; subst n2. destruct Hh as [Ho' Hv]. pose proof Hr' as (K1' & K2' & _).
      rewrite !finish_str_valid; auto; try congruence.
    - split; [inversion E; reflexivity|exact Hr'].
  Qed.

  (* a symbol from a character boundary, then anything that does not look at the kind *)
  Lemma tw_symbol_then {B} fuel scratch (k : bytes -> M B) : utf8_valid scratch = true ->
    (forall name, sx0 (k name)) -> tw bnd (name <- parse_symbol_rd fuel scratch ;; k name).
  Proof.
    intros Hs Hk. eapply tw_bind; [apply tw_parse_symbol_rd; exact Hs|apply (hs_parse_symbol_rd W HW)|].
    intros name. apply tw_sx0. apply Hk.
  Qed.

  Ltac free := apply tw_sx0; sx0_auto.

  Section Token.
    Variable ro : parse_options.
    Variable alpha : N -> bool.
    Variable fast : bool.
    Variable std_parse : N -> Z -> f64.

    Lemma ascii_valid1 c : c < 128 -> utf8_valid [c] = true.
    Proof. intros H. apply ascii_valid. repeat constructor. exact H. Qed.

    Theorem tw_parse_token fuel b : tw (at_byte b) (parse_token ro alpha fast std_parse fuel b).
    Proof.
      unfold parse_token.
      destruct (b =? 35) eqn:E35.
      { eapply tw_bind; [free|apply (hs_eat_ascii W HW b); lia|]. intros ?u.
        eapply tw_bind; [free|apply (hs_next_ascii W HW)|]. intros o. destruct o as [c|]; [|free]. cbv beta.
        destruct (c =? 116); [free|]. destruct (c =? 102); [free|].
        destruct (c =? 110); [free|]. destruct (c =? 40); [free|].
        destruct ((c =? 58) && ro_kw_octo ro) eqn:Ek.
        { eapply tw_weaken; [|apply (tw_symbol_then fuel [] (fun s => ret (TKeyword s)) eq_refl)]; [|intros; sx0_auto].
          intros r H. apply H. apply andb_prop in Ek. destruct Ek as [Ek _]. lia. }
        destruct (c =? 118); [free|]. destruct (c =? 117); [free|].
        destruct (c =? 98); [free|]. destruct (c =? 111); [free|].
        destruct (c =? 100); [free|]. destruct (c =? 120); [free|].
        destruct (c =? 92); [free|].
        destruct ((c =? 37) && ro_racket ro) eqn:Er; [|free].
        eapply tw_weaken; [|apply (tw_symbol_then fuel (s2b "#%") (fun s => ret (TSymbol s)) eq_refl)]; [|intros; sx0_auto].
        intros r H. apply H. apply andb_prop in Er. destruct Er as [Er _]. lia. }
      destruct ((b =? 45) || (b =? 43)) eqn:Esg.
      { assert (Hb : b < 128) by lia.
        eapply tw_bind; [free|apply (hs_eat_ascii W HW b Hb)|]. intros ?u.
        eapply tw_bind; [free|apply (hs_peek_or_null_keep W boundary_head)|]. intros nx. cbv beta.
        match goal with |- tw _ (if ?c then _ else _) => destruct c end; [|free].
        apply (tw_symbol_then fuel [b] (fun name => ret (symbol_token ro name))); [apply ascii_valid1; exact Hb|intros; sx0_auto]. }
      destruct (is_digit b) eqn:Ed.
      { assert (Hb : b < 128) by (unfold is_digit, in_range in Ed; lia).
        destruct (ro_digit ro); [|free].
        eapply tw_weaken; [|apply (tw_symbol_then fuel [] _ eq_refl)]; [intros r H; exact (at_ascii_bnd r b H Hb)|].
        intros name. sx0_auto. }
      destruct (b =? 34) eqn:E34.
      { eapply tw_bind; [free|apply (hs_eat_ascii W HW b); lia|]. intros ?u. destruct (ro_string ro).
        - eapply tw_bind; [apply tw_parse_r6rs_str_rd|apply (hs_parse_r6rs_str_rd W HW)|]. intros s0. free.
        - free. }
      destruct (b =? 40); [free|].
      destruct (b =? 91); [free|].
      destruct (b =? 58) eqn:E58.
      { destruct (ro_kw_prefix ro).
        - eapply tw_bind; [free|apply (hs_eat_ascii W HW b); lia|]. intros ?u.
          apply (tw_symbol_then fuel [] (fun s => ret (TKeyword s)) eq_refl). intros; sx0_auto.
        - eapply tw_weaken; [|apply (tw_symbol_then fuel [] (fun s => ret (TSymbol s)) eq_refl)]; [|intros; sx0_auto].
          intros r H. apply (at_ascii_bnd r b H). lia. }
      destruct (is_ascii_alpha b) eqn:Ea.
      { eapply tw_weaken; [|apply (tw_symbol_then fuel [] (fun name => ret (symbol_token ro name)) eq_refl)]; [|intros; sx0_auto].
        intros r H. apply (at_ascii_bnd r b H). unfold is_ascii_alpha, is_ascii_lower, is_ascii_upper, in_range in Ea. lia. }
      destruct ((b =? 63) && _); [free|].
      destruct (b =? 39); [free|].
      destruct (b =? 96); [free|].
      destruct (b =? 44); [free|].
      destruct (127 <? b) eqn:Ehi.
      { eapply tw_bind; [free|apply (hs_eat_prev W)|]. intros ?u.
        eapply tw_bind; [free|apply (hs_decode_utf8_sequence_b W HW)|]. intros res. cbv beta.
        destruct (negb (alpha (snd res))); [free|].
        apply tw_pure_pre. intros Hv. apply (tw_symbol_then fuel (fst res) (fun name => ret (symbol_token ro name)) Hv). intros; sx0_auto. }
      destruct (memb b SYMBOL_EXTENDED) eqn:Ex.
      { eapply tw_weaken; [|apply (tw_symbol_then fuel [] (fun name => ret (symbol_token ro name)) eq_refl)]; [|intros; sx0_auto].
        intros r H. apply (at_ascii_bnd r b H). lia. }
      free.
    Qed.
  End Token.

  (* ---- the parser proper ---- *)
  Definition ptw {A} (pre : reader -> Prop) (m : PM A) : Prop :=
    forall s1 s2, sprel s1 s2 -> okr W (rd s1) -> pre (rd s1) ->
    fst (m s1) = fst (m s2) /\ sprel (snd (m s1)) (snd (m s2)).
  (* what a successful step establishes about the str reader *)
  Definition pmid {A} (pre : reader -> Prop) (m : PM A) (mid : A -> reader -> Prop) : Prop :=
    forall s, okr W (rd s) -> pre (rd s) ->
    match m s with (POk a, s') => okr W (rd s') /\ mid a (rd s') | (PErr _, _) => True end.

  Lemma ptw_free {A} pre (m : PM A) : psx0 m -> ptw pre m.
  Proof. intros H s1 s2 Hs _ _. apply H. exact Hs. Qed.
  Lemma ptw_any {A} pre (m : PM A) : ptw anyr m -> ptw pre m.
  Proof. intros H s1 s2 Hs Ho _. apply H; [exact Hs|exact Ho|exact I]. Qed.
  Lemma ptw_bind {A B} pre (m : PM A) (f : A -> PM B) mid :
    ptw pre m -> pmid pre m mid -> (forall a, ptw (mid a) (f a)) -> ptw pre (pbind m f).
  Proof.
    intros Hm Hh Hf s1 s2 Hs Ho Hp. rewrite !pbind_unfold. destruct (Hm s1 s2 Hs Ho Hp) as [E Hr]. specialize (Hh s1 Ho Hp).
    destruct (m s1) as [[a1|x1] s1']; destruct (m s2) as [[a2|x2] s2']; cbn [fst snd] in *; try discriminate.
    - inversion E; subst a2. destruct Hh as [Ho' Hmid]. apply Hf; assumption.
    - inversion E; subst x2. split; [reflexivity|exact Hr].
  Qed.
  Lemma ptw_then_free {A B} pre (m : PM A) (f : A -> PM B) : ptw pre m -> (forall a, psx0 (f a)) -> ptw pre (pbind m f).
  Proof.
    intros Hm Hf s1 s2 Hs Ho Hp. rewrite !pbind_unfold. destruct (Hm s1 s2 Hs Ho Hp) as [E Hr].
    destruct (m s1) as [[a1|x1] s1']; destruct (m s2) as [[a2|x2] s2']; cbn [fst snd] in *; try discriminate.
    - inversion E; subst a2. apply Hf. exact Hr.
    - inversion E; subst x2. split; [reflexivity|exact Hr].
  Qed.
  Lemma ptw_attempt {A} pre (m : PM A) : ptw pre m -> ptw pre (attempt m).
  Proof.
    intros Hm s1 s2 Hs Ho Hp. rewrite !attempt_unfold. destruct (Hm s1 s2 Hs Ho Hp) as [E Hr].
    destruct (m s1) as [[a1|x1] s1']; destruct (m s2) as [[a2|x2] s2']; cbn [fst snd] in *; try discriminate.
    - inversion E; subst a2. split; [reflexivity|exact Hr].
    - inversion E; subst x2. destruct x1 as [[c l cl|io|]|k]; cbn [fst snd]; (split; [reflexivity|exact Hr]).
  Qed.
  Lemma ptw_liftR {A} pre (m : M A) : tw pre m -> ptw pre (liftR m).
  Proof.
    intros Hm s1 s2 [Hr Hd] Ho Hp. unfold liftR. destruct (Hm (rd s1) (rd s2) Hr Ho Hp) as [E Hr'].
    destruct (m (rd s1)) as [[a1|e1] r1']; destruct (m (rd s2)) as [[a2|e2] r2']; cbn [fst snd rd depth] in *; try discriminate;
      inversion E; subst; (split; [reflexivity|split; [exact Hr'|exact Hd]]).
  Qed.

  Lemma pmid_liftR_hs {A} pre (m : M A) post : hs W pre m post -> pmid pre (liftR m) post.
  Proof.
    intros Hm s Ho Hp. unfold liftR. specialize (Hm (rd s) Ho Hp). destruct (m (rd s)) as [[a|e] r1]; [|exact I]. cbn [rd]. exact Hm.
  Qed.
  Lemma pmid_liftR_cov {A} pre (m : M A) : covered W m -> pmid pre (liftR m) (fun _ _ => True).
  Proof.
    intros Hc s Ho _. unfold liftR. pose proof (okr_step W m (rd s) Hc Ho) as Ho'.
    destruct (m (rd s)) as [[a|e] r1]; [|exact I]. cbn [rd snd] in *. auto.
  Qed.
  Lemma pmid_psp {A} pre (m : PM A) q : psp W pre m q -> pmid pre m (fun _ _ => True).
  Proof. intros H s Ho Hp. specialize (H s Ho Hp). destruct (m s) as [[a|e] s1]; [|exact I]. destruct H. auto. Qed.
  Lemma pmid_ws f : pmid anyr (liftR (parse_whitespace f)) (fun o r => match o with Some b => at_byte b r | None => True end).
  Proof.
    intros s Ho _. unfold liftR. pose proof (okr_step W _ (rd s) (cov_ws W f) Ho) as Ho1. pose proof (ws_at_byte f (rd s)) as Hat.
    destruct (parse_whitespace f (rd s)) as [[o|e] r1]; [|exact I]. cbn [snd rd] in *. split; [exact Ho1|]. destruct o; [exact Hat|exact I].
  Qed.
  Lemma pmid_enter pre : pmid pre enter_nesting (fun _ _ => True).
  Proof. apply (pmid_psp pre _ (fun _ => True)). apply psp_any. apply pcov_enter. Qed.

  Section Values.
    Variable ro : parse_options.
    Variable alpha : N -> bool.
    Variable fast : bool.
    Variable std_parse : N -> Z -> f64.
    Local Notation next_value := (next_value ro alpha fast std_parse).
    Local Notation parse_list := (parse_list ro alpha fast std_parse).
    Local Notation parse_vector := (parse_vector ro alpha fast std_parse).
    Local Notation next_datum := (next_datum ro alpha fast std_parse).
    Local Notation parse_list_meta := (parse_list_meta ro alpha fast std_parse).
    Local Notation parse_vector_meta := (parse_vector_meta ro alpha fast std_parse).
    Local Notation parse_token := (parse_token ro alpha fast std_parse).

    Lemma ptw_ws {A} f (k : option N -> PM A) :
      ptw anyr (k None) -> (forall b, ptw (at_byte b) (k (Some b))) -> ptw anyr (pbind (liftR (parse_whitespace f)) k).
    Proof.
      intros Hn Hs. eapply ptw_bind; [apply ptw_free, psx0_liftR, sx0_parse_whitespace|apply pmid_ws|].
      intros [b|]; [apply Hs|apply ptw_any, Hn].
    Qed.
    Lemma ptw_token {A} f b (k : token -> PM A) : (forall tok, ptw anyr (k tok)) -> ptw (at_byte b) (pbind (liftR (parse_token f b)) k).
    Proof.
      intros Hk. eapply ptw_bind; [apply ptw_liftR, tw_parse_token|apply pmid_liftR_cov, cov_token|]. intros tok. apply Hk.
    Qed.
    Lemma pmid_next_value pre fuel : pmid pre (next_value fuel) (fun _ _ => True).
    Proof.
      intros s Ho _. pose proof (proj1 (values_valid_str W HW ro alpha fast std_parse fuel) s Ho I) as H.
      destruct (next_value fuel s) as [[a|e] s1]; [|exact I]. destruct H. auto.
    Qed.
    Lemma pmid_next_datum pre fuel : pmid pre (next_datum fuel) (fun _ _ => True).
    Proof.
      intros s Ho Hp. pose proof (pmid_next_value pre fuel s Ho Hp) as H.
      rewrite (proj1 (DatumProofs.agreement ro alpha fast std_parse fuel) s) in H. unfold DatumProofs.pmap in H.
      destruct (next_datum fuel s) as [[a|e] s1]; cbn [fst snd] in H; [exact H|exact I].
    Qed.
    Lemma ptw_position_then {A} pre (k : N * N -> PM A) : (forall p, ptw pre (k p)) -> ptw pre (pbind (liftR position) k).
    Proof.
      intros Hk s1 s2 Hs Ho Hp. rewrite !pbind_unfold. unfold liftR, position.
      pose proof Hs as [(K1 & K2 & Hl & Hc & Hpd & Hi) Hd]. unfold r_position. rewrite Hl, Hc. cbn [fst snd].
      destruct s1 as [r1 d1], s2 as [r2 d2]. cbn [rd depth] in *. apply Hk; assumption.
    Qed.

    Theorem twin_values fuel :
      ptw anyr (next_value fuel) /\ (forall t acc, ptw anyr (parse_list fuel t acc)) /\ (forall t acc, ptw anyr (parse_vector fuel t acc)).
    Proof.
      induction fuel as [|f (IHv & IHl & IHvec)]; [split; [|split]; intros; apply ptw_free, psx0_pfail|].
      split; [|split].
      - cbn [Parser.next_value]. apply ptw_ws; [apply ptw_free, psx0_pret|]. intros b. apply ptw_token. intros tok.
        destruct tok; try apply ptw_free, psx0_pret.
        + eapply ptw_bind; [apply ptw_free, psx0_enter_nesting|apply pmid_enter|]. intros ?u. cbv beta.
          apply ptw_then_free; [apply ptw_attempt, ptw_any, IHl|]. intros r. apply psx0_seq_cont; [apply sx0_end_seq|intros; apply psx0_pret].
        + eapply ptw_bind; [apply ptw_free, psx0_enter_nesting|apply pmid_enter|]. intros ?u. cbv beta.
          apply ptw_then_free; [apply ptw_attempt, ptw_any, IHv|]. intros r. apply psx0_quote_cont.
          intros o. destruct o; [apply psx0_pret|apply psx0_err].
        + eapply ptw_bind; [apply ptw_free, psx0_enter_nesting|apply pmid_enter|]. intros ?u. cbv beta.
          apply ptw_then_free; [apply ptw_attempt, ptw_any, IHvec|]. intros r. apply psx0_seq_cont; [apply sx0_end_seq|intros; apply psx0_pret].
        + apply ptw_free. apply psx0_bind; [apply psx0_liftR, sx0_parse_byte_list|intros; apply psx0_pret].
      - intros t acc. cbn [Parser.parse_list]. apply ptw_ws; [apply ptw_free, psx0_err|]. intros c.
        destruct (is_closer c). { destruct (negb (c =? t)); apply ptw_free; [apply psx0_err|apply psx0_pret]. }
        destruct (c =? 46) eqn:E46.
        + eapply ptw_bind; [apply ptw_free, psx0_liftR; sx0_auto|apply pmid_liftR_hs, (hs_eat_peek_bnd W HW c); lia|].
          intros nx. destruct (lone_dot nx).
          * destruct acc as [|a0 acc'].
            -- apply ptw_free. apply psx0_bind; [apply psx0_liftR; sx0_auto|]. intros o3. destruct o3; apply psx0_err.
            -- eapply ptw_bind; [apply ptw_any, IHv|apply pmid_next_value|]. intros ov. destruct ov as [cdr|]; [|apply ptw_free, psx0_err].
               apply ptw_free. apply psx0_bind; [apply psx0_liftR, sx0_parse_whitespace|]. intros o2.
               destruct o2 as [c2|]; [destruct (c2 =? t); [apply psx0_pret|apply psx0_err]|apply psx0_err].
          * eapply ptw_bind; [apply ptw_liftR; unfold parse_symbol_suffix; apply tw_parse_symbol_rd; reflexivity
                             |apply pmid_liftR_hs; unfold parse_symbol_suffix; apply (hs_parse_symbol_rd W HW)|].
            intros name. apply ptw_any, IHl.
        + apply ptw_any. eapply ptw_bind; [apply IHv|apply pmid_next_value|]. intros ov. destruct ov; [apply ptw_any, IHl|apply ptw_free, psx0_err].
      - intros t acc. cbn [Parser.parse_vector]. apply ptw_ws; [apply ptw_free, psx0_err|]. intros c.
        destruct (is_closer c). { destruct (negb (c =? t)); apply ptw_free; [apply psx0_err|apply psx0_pret]. }
        apply ptw_any. eapply ptw_bind; [apply IHv|apply pmid_next_value|]. intros ov. destruct ov; [apply ptw_any, IHvec|apply ptw_free, psx0_err].
    Qed.

    Theorem twin_datums fuel :
      ptw anyr (next_datum fuel) /\ (forall t acc, ptw anyr (parse_list_meta fuel t acc)) /\ (forall t acc, ptw anyr (parse_vector_meta fuel t acc)).
    Proof.
      induction fuel as [|f (IHv & IHl & IHvec)]; [split; [|split]; intros; apply ptw_free, psx0_pfail|].
      assert (Hpos : forall A (k : N * N -> PM A), (forall p, psx0 (k p)) -> psx0 (pbind (liftR position) k)).
      { intros A k Hk. apply psx0_bind; [apply psx0_liftR; sx0_auto|exact Hk]. }
      split; [|split].
      - cbn [Parser.next_datum]. apply ptw_ws; [apply ptw_free, psx0_pret|]. intros b.
        apply ptw_position_then. intros start. apply ptw_token. intros tok. cbv zeta.
        destruct tok; try (apply ptw_free, Hpos; intros; apply psx0_pret).
        + eapply ptw_bind; [apply ptw_free, psx0_enter_nesting|apply pmid_enter|]. intros ?u. cbv beta.
          apply ptw_then_free; [apply ptw_attempt, ptw_any, IHl|]. intros r. apply psx0_seq_cont; [apply sx0_end_seq|].
          intros l. apply Hpos. intros; apply psx0_pret.
        + apply ptw_position_then. intros token_end.
          eapply ptw_bind; [apply ptw_free, psx0_enter_nesting|apply pmid_enter|]. intros ?u. cbv beta.
          apply ptw_then_free; [apply ptw_attempt, ptw_any, IHv|]. intros r. apply psx0_quote_cont.
          intros o. destruct o; [apply psx0_pret|apply psx0_err].
        + eapply ptw_bind; [apply ptw_free, psx0_enter_nesting|apply pmid_enter|]. intros ?u. cbv beta.
          apply ptw_then_free; [apply ptw_attempt, ptw_any, IHvec|]. intros r. apply psx0_seq_cont; [apply sx0_end_seq|].
          intros l. apply Hpos. intros; apply psx0_pret.
        + apply ptw_free. apply psx0_bind; [apply psx0_liftR, sx0_parse_byte_list|]. intros. apply Hpos. intros; apply psx0_pret.
      - intros t acc. cbn [Parser.parse_list_meta]. apply ptw_ws; [apply ptw_free, psx0_err|]. intros c.
        destruct (is_closer c). { destruct (negb (c =? t)); apply ptw_free; [apply psx0_err|apply psx0_pret]. }
        destruct (c =? 46) eqn:E46.
        + apply ptw_position_then. intros start.
          eapply ptw_bind; [apply ptw_free, psx0_liftR; sx0_auto|apply pmid_liftR_hs, (hs_eat_peek_bnd W HW c); lia|].
          intros nx. destruct (lone_dot nx).
          * destruct acc as [|a0 acc'].
            -- apply ptw_free. apply psx0_bind; [apply psx0_liftR; sx0_auto|]. intros o3. destruct o3; apply psx0_err.
            -- eapply ptw_bind; [apply ptw_any, IHv|apply pmid_next_datum|]. intros ov. destruct ov as [cdr|]; [|apply ptw_free, psx0_err].
               apply ptw_free. apply psx0_bind; [apply psx0_liftR, sx0_parse_whitespace|]. intros o2.
               destruct o2 as [c2|]; [destruct (c2 =? t); [apply psx0_pret|apply psx0_err]|apply psx0_err].
          * eapply ptw_bind; [apply ptw_liftR; unfold parse_symbol_suffix; apply tw_parse_symbol_rd; reflexivity
                             |apply pmid_liftR_hs; unfold parse_symbol_suffix; apply (hs_parse_symbol_rd W HW)|].
            intros name. cbv beta. apply ptw_any. apply ptw_position_then. intros e. apply IHl.
        + apply ptw_any. eapply ptw_bind; [apply IHv|apply pmid_next_datum|]. intros ov. destruct ov; [apply ptw_any, IHl|apply ptw_free, psx0_err].
      - intros t acc. cbn [Parser.parse_vector_meta]. apply ptw_ws; [apply ptw_free, psx0_err|]. intros c.
        destruct (is_closer c). { destruct (negb (c =? t)); apply ptw_free; [apply psx0_err|apply psx0_pret]. }
        apply ptw_any. eapply ptw_bind; [apply IHv|apply pmid_next_datum|]. intros ov. destruct ov; [apply ptw_any, IHvec|apply ptw_free, psx0_err].
    Qed.

    Lemma init_okr : okr W (rd (init_state SrcStr (bytes_events W))).
    Proof.
      split; [apply inv_init; rewrite bytes_in_bytes_events; reflexivity|]. split; [reflexivity|apply all_bytes_events].
    Qed.

    Theorem valid_text_agree :
      from_trait ro alpha fast std_parse SrcStr (bytes_events W) = from_trait ro alpha fast std_parse SrcSlice (bytes_events W) /\
      datum_from_trait ro alpha fast std_parse SrcStr (bytes_events W) = datum_from_trait ro alpha fast std_parse SrcSlice (bytes_events W).
    Proof.
      unfold from_trait, datum_from_trait. cbv zeta. set (inp := bytes_events W). set (fuel := fuel_for inp).
      assert (He : forall A (v : A), psx0 (pbind (expect_end_p fuel) (fun _ => pret v))).
      { intros A v. apply psx0_bind; [unfold expect_end_p; apply psx0_liftR, sx0_expect_end|intros; apply psx0_pret]. }
      split.
      - assert (H : ptw anyr (pbind (expect_value ro alpha fast std_parse fuel) (fun v => pbind (expect_end_p fuel) (fun _ => pret v)))).
        { apply ptw_then_free; [|intros v; apply He]. unfold expect_value.
          apply ptw_then_free; [apply twin_values|]. intros o. destruct o; [apply psx0_pret|apply psx0_err]. }
        apply (H _ _ (init_sprel inp) init_okr I).
      - assert (H : ptw anyr (pbind (expect_datum ro alpha fast std_parse fuel) (fun v => pbind (expect_end_p fuel) (fun _ => pret v)))).
        { apply ptw_then_free; [|intros v; apply He]. unfold expect_datum.
          apply ptw_then_free; [apply twin_datums|]. intros o. destruct o; [apply psx0_pret|apply psx0_err]. }
        apply (H _ _ (init_sprel inp) init_okr I).
    Qed.

    (* whatever a call returns, the str reader is still inside W *)
    Lemma okr_after_call fuel s : okr W (rd s) ->
      okr W (rd (snd (next_value fuel s))) /\ okr W (rd (snd (next_datum fuel s))).
    Proof.
      intros (Hi & Hk & Ha).
      pose proof (proj1 (pos_values W ro alpha fast std_parse fuel) s) as P1.
      pose proof (proj1 (pos_datums W ro alpha fast std_parse fuel) s) as P2.
      pose proof (proj1 (psat_values Rrk Rrk_ret Rrk_seq Rrk_fuel rk_peek rk_next rk_eat rk_error rk_peek_error rk_error_consume
                     rk_take_run rk_take_symbol fast std_parse ro alpha Rrk_rec1 Rrk_rec2 fuel) s) as K1.
      pose proof (proj1 (psat_datums Rrk Rrk_ret Rrk_seq Rrk_fuel rk_peek rk_next rk_eat rk_error rk_peek_error rk_error_consume
                     rk_take_run rk_take_symbol fast std_parse ro alpha Rrk_rec1 Rrk_rec2 fuel) s) as K2.
      pose proof (proj1 (psat_values Rab Rab_ret Rab_seq Rab_fuel ab_peek ab_next ab_eat ab_error ab_peek_error ab_error_consume
                     ab_take_run ab_take_symbol fast std_parse ro alpha Rab_rec1 Rab_rec2 fuel) s) as A1.
      pose proof (proj1 (psat_datums Rab Rab_ret Rab_seq Rab_fuel ab_peek ab_next ab_eat ab_error ab_peek_error ab_error_consume
                     ab_take_run ab_take_symbol fast std_parse ro alpha Rab_rec1 Rab_rec2 fuel) s) as A2.
      unfold Rpos, Rrk, Rab in *. split; (split; [|split]).
      - apply (P1 Hi).
      - rewrite K1. exact Hk.
      - apply A1. exact Ha.
      - apply (P2 Hi).
      - rewrite K2. exact Hk.
      - apply A2. exact Ha.
    Qed.

    (* iterating: the items read from a str and from the slice of the same text *)
    Theorem twin_iterate fuel n : forall s1 s2, sprel s1 s2 -> okr W (rd s1) ->
      iterate_values ro alpha fast std_parse fuel n s1 = iterate_values ro alpha fast std_parse fuel n s2 /\
      iterate_datums ro alpha fast std_parse fuel n s1 = iterate_datums ro alpha fast std_parse fuel n s2.
    Proof.
      induction n as [|n IH]; intros s1 s2 Hs Ho; [split; reflexivity|].
      cbn [iterate_values iterate_datums].
      destruct (proj1 (twin_values fuel) s1 s2 Hs Ho I) as [Ev Hv]. destruct (proj1 (twin_datums fuel) s1 s2 Hs Ho I) as [Ed Hd].
      destruct (okr_after_call fuel s1 Ho) as [Ov Od].
      split.
      - destruct (next_value fuel s1) as [[[v1|]|e1] s1']; destruct (next_value fuel s2) as [[[v2|]|e2] s2']; cbn [fst snd] in *; try discriminate;
          try reflexivity; inversion Ev; subst; f_equal; apply (IH s1' s2' Hv Ov).
      - destruct (next_datum fuel s1) as [[[v1|]|e1] s1']; destruct (next_datum fuel s2) as [[[v2|]|e2] s2']; cbn [fst snd] in *; try discriminate;
          try reflexivity; inversion Ed; subst; f_equal; apply (IH s1' s2' Hd Od).
    Qed.
    Theorem valid_text_iterate n :
      iterate_values ro alpha fast std_parse (fuel_for (bytes_events W)) n (init_state SrcStr (bytes_events W)) =
      iterate_values ro alpha fast std_parse (fuel_for (bytes_events W)) n (init_state SrcSlice (bytes_events W)) /\
      iterate_datums ro alpha fast std_parse (fuel_for (bytes_events W)) n (init_state SrcStr (bytes_events W)) =
      iterate_datums ro alpha fast std_parse (fuel_for (bytes_events W)) n (init_state SrcSlice (bytes_events W)).
    Proof. apply twin_iterate; [apply init_sprel|apply init_okr]. Qed.
  End Values.
End ValidText.
