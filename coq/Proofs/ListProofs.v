Require Import Base Value NumberOps ListOps.
From Coq Require Import ZifyBool ZifyNat ZifyN.

(* reference: element sequence xs (non-empty for a chain) and tail t, t not a cons *)

Lemma build_app xs ys t : build xs (build ys t) = build (xs ++ ys) t.
Proof. induction xs as [|x xs IH]; cbn; [reflexivity|now rewrite IH]. Qed.

Lemma cons_to_vec_build x xs t : is_cons t = false -> cons_to_vec x (build xs t) = (x :: xs, t).
Proof.
  revert x; induction xs as [|y ys IH]; intros x Ht; cbn [build].
  - destruct t; try discriminate; reflexivity.
  - cbn [cons_to_vec]. now rewrite IH.
Qed.

Lemma into_iter_build pre l t : is_cons t = false -> forall x xs, x :: xs = pre ++ [l] ->
  into_iter_items x (build xs t) = map (fun e => (e, None)) pre ++ [(l, Some t)].
Proof.
  intros Ht. induction pre as [|p pre IH]; intros x xs E; cbn [app] in E.
  - inversion E; subst. cbn [build map app]. destruct t; try discriminate; reflexivity.
  - inversion E; subst. destruct pre as [|q pre']; cbn [app] in *.
    + pose proof (IH l [] eq_refl) as H. cbn [build] in H.
      cbn [build into_iter_items map app]. now rewrite H.
    + pose proof (IH q (pre' ++ [l]) eq_refl) as H.
      cbn [build into_iter_items map app]. now rewrite H.
Qed.

Lemma into_vec_loop_spec items acc pre lastx t :
  items = map (fun e => (e, None)) pre ++ [(lastx, Some t)] ->
  into_vec_loop items acc = Some (acc ++ pre ++ [lastx], t).
Proof.
  revert items acc; induction pre as [|p pre IH]; intros items acc ->; cbn.
  - reflexivity.
  - rewrite (IH _ _ eq_refl). now rewrite <- app_assoc.
Qed.

Lemma cons_into_vec_build x xs t : is_cons t = false ->
  cons_into_vec x (build xs t) = Some (x :: xs, t).
Proof.
  intros Ht. unfold cons_into_vec.
  destruct (exists_last (l := x :: xs) ltac:(discriminate)) as (pre & l & E).
  rewrite (into_iter_build pre l t Ht x xs E).
  rewrite (into_vec_loop_spec _ [] _ _ _ eq_refl). cbn [app]. now rewrite E.
Qed.

Lemma iter_cells_length x xs t : is_cons t = false ->
  length (iter_cells x (build xs t)) = S (length xs).
Proof.
  revert x; induction xs as [|y ys IH]; intros x Ht; cbn [build iter_cells length].
  - destruct t; try discriminate; reflexivity.
  - now rewrite IH.
Qed.

Lemma value_to_vec_build xs t : is_cons t = false ->
  value_to_vec (build xs t) =
  match xs with
  | [] => match t with Null => Some [] | _ => None end
  | _ => if is_null t then Some xs else None
  end.
Proof.
  intros Ht. destruct xs as [|x xs]; cbn [build value_to_vec].
  - destruct t; try discriminate; reflexivity.
  - now rewrite cons_to_vec_build.
Qed.

(* element iterator: xs, then for a non-null tail None, t, None; for null: None *)
Lemma drain_exhausted k : drain k LExhausted = repeat None k.
Proof. induction k; cbn; [reflexivity|now rewrite IHk]. Qed.

Definition after_tail (t : value) : list_cursor :=
  match t with Null => LExhausted | _ => LDot t end.

Lemma list_iter_prefix x xs t k : is_cons t = false ->
  drain (S (length xs) + k) (LCons x (build xs t)) = map Some (x :: xs) ++ drain k (after_tail t).
Proof.
  revert x; induction xs as [|y ys IH]; intros x Ht.
  - cbn [length Nat.add build drain list_iter_next map app].
    destruct t; try discriminate; reflexivity.
  - cbn [length build]. change (S (S (length ys)) + k)%nat with (S (S (length ys) + k)).
    cbn [drain list_iter_next]. rewrite IH by assumption. reflexivity.
Qed.

Lemma list_iter_build x xs t k : is_cons t = false ->
  drain (S (length xs) + (3 + k)) (LCons x (build xs t)) =
  map Some (x :: xs) ++
    (if is_null t then repeat None (3 + k) else [None; Some t; None] ++ repeat None k).
Proof.
  intros Ht. rewrite list_iter_prefix by assumption. f_equal.
  destruct t; try discriminate; cbn [after_tail is_null];
    first [ now rewrite drain_exhausted
          | cbn [Nat.add drain list_iter_next app]; now rewrite drain_exhausted ].
Qed.

Lemma nth_N_spec {A} (l : list A) i : nth_N l i = nth_error l (N.to_nat i).
Proof.
  revert i; induction l as [|x l IH]; intros i; cbn.
  - now destruct (N.to_nat i).
  - destruct (i =? 0) eqn:E.
    + assert (i = 0) by lia; subst; reflexivity.
    + rewrite IH. replace (N.to_nat i) with (S (N.to_nat (i - 1))) by lia. reflexivity.
Qed.

Lemma cons_get_unfold a d i :
  cons_get a d i = if i =? 0 then Some a
                   else match d with Cons a' d' => cons_get a' d' (i - 1) | _ => None end.
Proof. destruct d; reflexivity. Qed.

Lemma cons_get_build x xs t i : is_cons t = false ->
  cons_get x (build xs t) i = nth_error (x :: xs) (N.to_nat i).
Proof.
  revert x i; induction xs as [|y ys IH]; intros x i Ht; cbn [build]; rewrite cons_get_unfold.
  - destruct (i =? 0) eqn:E.
    + assert (i = 0) by lia; subst; reflexivity.
    + replace (N.to_nat i) with (S (N.to_nat (i - 1))) by lia. cbn [nth_error].
      destruct t; try discriminate; now destruct (N.to_nat (i - 1)).
  - destruct (i =? 0) eqn:E.
    + assert (i = 0) by lia; subst; reflexivity.
    + rewrite IH by assumption.
      replace (N.to_nat i) with (S (N.to_nat (i - 1))) by lia. reflexivity.
Qed.

Lemma get_usize_build xs t i : is_cons t = false -> (xs <> [] \/ is_vector t = false) ->
  get_usize (build xs t) i = nth_error xs (N.to_nat i).
Proof.
  intros Ht Hv. destruct xs as [|x xs]; cbn [build get_usize].
  - destruct Hv as [Hv|Hv]; [congruence|].
    destruct t; try discriminate; now destruct (N.to_nat i).
  - now apply cons_get_build.
Qed.

Lemma get_usize_vector l i : get_usize (Vector l) i = nth_error l (N.to_nat i).
Proof. apply nth_N_spec. Qed.

Lemma predicates_complementary v : is_list v = negb (is_dotted_list v).
Proof.
  destruct v; try reflexivity. cbn [is_list is_dotted_list].
  clear v1. induction v2; try reflexivity.
  cbn [all_cells is_null negb andb]. exact IHv2_2.
Qed.

Lemma is_list_build xs t : is_cons t = false -> is_list (build xs t) = is_null t.
Proof.
  intros Ht. destruct xs as [|x xs]; cbn [build].
  - destruct t; try discriminate; reflexivity.
  - cbn [is_list]. induction xs as [|y ys IH]; cbn [build all_cells].
    + destruct t; try discriminate; reflexivity.
    + exact IH.
Qed.

(* association lists *)
Fixpoint first_match (f : value -> option value) (l : list value) : option value :=
  match l with
  | [] => None
  | e :: l' => match f e with Some r => Some r | None => first_match f l' end
  end.

Lemma find_map_unfold f a d :
  find_map_cells f a d = match f a with
                         | Some r => Some r
                         | None => match d with Cons a' d' => find_map_cells f a' d' | _ => None end
                         end.
Proof. destruct d; reflexivity. Qed.

Lemma find_map_build f x xs t : is_cons t = false ->
  find_map_cells f x (build xs t) = first_match f (x :: xs).
Proof.
  revert x; induction xs as [|y ys IH]; intros x Ht; cbn [build first_match]; rewrite find_map_unfold.
  - destruct (f x); [reflexivity|]. destruct t; try discriminate; reflexivity.
  - destruct (f x); [reflexivity|]. now rewrite IH.
Qed.

Lemma get_str_build xs t name : is_cons t = false ->
  get_str (build xs t) name = match xs with [] => None | _ => first_match (match_pair_name name) xs end.
Proof.
  intros Ht. destruct xs as [|x xs]; cbn [build get_str].
  - destruct t; try discriminate; reflexivity.
  - now apply find_map_build.
Qed.

Lemma get_value_build xs t key : is_cons t = false ->
  get_value (build xs t) key = match xs with [] => None | _ => first_match (match_pair_key key) xs end.
Proof.
  intros Ht. destruct xs as [|x xs]; cbn [build get_value].
  - destruct t; try discriminate; reflexivity.
  - now apply find_map_build.
Qed.
