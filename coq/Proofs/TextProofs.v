(* The text the default printer emits, as a plain recursive function. *)
Require Import Base Value PrintOptions Printer PrinterProofs.

Section Text.
  Variable ryu : f64 -> bytes.

  (* format_escaped_str_contents, flattened *)
  Definition esc_bytes (b : N) : bytes :=
    match escape_of b with
    | None => [b]
    | Some e => flatten (write_r6rs_char_escape e)
    end.
  Definition str_text (s : bytes) : bytes := [34] ++ flat_map esc_bytes s ++ [34].

  Definition char_text (c : N) : bytes :=
    if (32 <=? c) && (c <? 127) then [35; 92; c] else [35; 92; 120] ++ hex_of_N c.

  Fixpoint octets_text (first : bool) (l : bytes) : bytes :=
    match l with
    | [] => []
    | o :: l' => (if first then [] else [32]) ++ dec_of_N o ++ octets_text false l'
    end.

  Definition number_text (n : number) : bytes :=
    match n with
    | PosInt u => dec_of_N u
    | NegInt i => dec_of_Z i
    | Float f => ryu f
    end.

  Definition atom_text (v : value) : bytes :=
    match v with
    | Nil => s2b "#nil"
    | Null => s2b "()"
    | Bool b => if b then s2b "#t" else s2b "#f"
    | Number n => number_text n
    | Char c => char_text c
    | Symbol s => s
    | Keyword s => s2b "#:" ++ s
    | String s => str_text s
    | Bytes b => s2b "#u8(" ++ octets_text true b ++ [41]
    | Cons _ _ | Vector _ => []
    end.

  Fixpoint txt (v : value) : bytes :=
    match v with
    | Cons a d => [40] ++ txt a ++ txt_tail d ++ [41]
    | Vector l =>
        s2b "#(" ++ (fix elems (first : bool) (l : list value) : bytes :=
                       match l with
                       | [] => []
                       | x :: l' => (if first then [] else [32]) ++ txt x ++ elems false l'
                       end) true l ++ [41]
    | _ => atom_text v
    end
  with txt_tail (d : value) : bytes :=
    match d with
    | Null => []
    | Cons a d' => [32] ++ txt a ++ txt_tail d'
    | Vector l =>
        [32; 46; 32] ++ (s2b "#(" ++ (fix elems (first : bool) (l : list value) : bytes :=
                                        match l with
                                        | [] => []
                                        | x :: l' => (if first then [] else [32]) ++ txt x ++ elems false l'
                                        end) true l ++ [41])
    | _ => [32; 46; 32] ++ atom_text d
    end.

  Definition vec_elems : bool -> list value -> bytes :=
    fix elems (first : bool) (l : list value) : bytes :=
      match l with
      | [] => []
      | x :: l' => (if first then [] else [32]) ++ txt x ++ elems false l'
      end.

  Lemma txt_vector l : txt (Vector l) = s2b "#(" ++ vec_elems true l ++ [41].
  Proof. reflexivity. Qed.
  Lemma txt_tail_noncons d : is_cons d = false -> is_null d = false -> txt_tail d = [32; 46; 32] ++ txt d.
  Proof. destruct d; try discriminate; reflexivity. Qed.

  Lemma print_cons F a d :
    print F (Cons a d) = begin_list F ++ begin_seq_element F true ++ print F a ++ end_seq_element F
                           ++ print_tail F d ++ end_list F.
  Proof. reflexivity. Qed.
  Lemma print_tail_cons F a d :
    print_tail F (Cons a d) = begin_seq_element F false ++ print F a ++ end_seq_element F ++ print_tail F d.
  Proof. reflexivity. Qed.
  Lemma txt_cons a d : txt (Cons a d) = [40] ++ txt a ++ txt_tail d ++ [41].
  Proof. reflexivity. Qed.
  Lemma txt_tail_cons a d : txt_tail (Cons a d) = [32] ++ txt a ++ txt_tail d.
  Proof. reflexivity. Qed.

  (* ---- print0 = txt ---- *)
  Lemma flatten_esc frag s :
    flatten (esc_contents (default_fmt ryu) frag s) = rev frag ++ flat_map esc_bytes s.
  Proof.
    revert frag; induction s as [|b s IH]; intros frag; cbn [esc_contents flat_map].
    - destruct frag; [reflexivity|]. cbn [default_fmt write_string_fragment]. rewrite flatten_wall. now rewrite app_nil_r.
    - unfold esc_bytes at 1. destruct (escape_of b) as [e|] eqn:E.
      + rewrite !flatten_app, IH. cbn [rev app]. cbn [default_fmt write_char_escape].
        destruct frag; [reflexivity|]. cbn [default_fmt write_string_fragment]. rewrite flatten_wall.
        rewrite <- ?app_assoc. reflexivity.
      + rewrite IH. cbn [rev]. rewrite <- ?app_assoc. reflexivity.
  Qed.

  Lemma flatten_octets first l :
    flatten (octets d_begin_seq_element [] first l) = octets_text first l.
  Proof.
    revert first; induction l as [|o l IH]; intros first; cbn [octets octets_text]; [reflexivity|].
    rewrite !flatten_app, flatten_wall, IH. destruct first; reflexivity.
  Qed.

  Lemma flatten_atom v : is_cons v = false -> (forall l, v <> Vector l) ->
    flatten (print_atom (default_fmt ryu) v) = atom_text v.
  Proof.
    intros Hc Hv.
    destruct v as [| |b|n|c|s|s|s|bs|a d|l]; try discriminate;
      cbn [print_atom default_fmt write_nil write_null write_bool write_number write_char write_symbol
           write_keyword write_bytes atom_text].
    - now rewrite flatten_wall.
    - now rewrite flatten_wall.
    - destruct b; now rewrite flatten_wall.
    - destruct n; cbn [d_write_number number_text]; now rewrite flatten_wall.
    - unfold write_scheme_char, char_text. destruct (_ && _); rewrite ?flatten_app, ?flatten_wall; reflexivity.
    - unfold format_escaped_str, str_text. cbn [default_fmt begin_string end_string].
      rewrite !flatten_app, !flatten_wall, flatten_esc. reflexivity.
    - now rewrite flatten_wall.
    - rewrite flatten_app, !flatten_wall. reflexivity.
    - rewrite !flatten_app, flatten_octets. unfold d_begin_vector. rewrite !flatten_wall. reflexivity.
    - exfalso. eapply Hv. reflexivity.
  Qed.

  Lemma print0_txt_both v :
    flatten (print (default_fmt ryu) v) = txt v /\ flatten (print_tail (default_fmt ryu) v) = txt_tail v.
  Proof.
    assert (Htail : forall d, is_cons d = false -> is_null d = false -> (forall l, d <> Vector l) ->
              flatten (print_tail (default_fmt ryu) d) = [32; 46; 32] ++ atom_text d).
    { intros d Hc Hn Hv. rewrite <- (flatten_atom d Hc Hv).
      destruct d; try discriminate; try (exfalso; eapply Hv; reflexivity);
        cbn [print_tail]; unfold dot_seq;
        cbn [default_fmt begin_seq_element write_dot end_seq_element d_begin_seq_element];
        rewrite ?flatten_app, ?flatten_wall, ?flatten_nil, ?app_nil_r; reflexivity. }
    induction v as [| |b|n|c|s|s|s|b|a d [IHa _] [IHd1 IHd2]|l H] using value_ind';
      try (split; [apply flatten_atom; [reflexivity|intros; discriminate]
                  |first [reflexivity | apply Htail; [reflexivity|reflexivity|intros; discriminate]]]).
    - (* Cons *)
      split; rewrite ?print_cons, ?print_tail_cons, ?txt_cons, ?txt_tail_cons;
        cbn [default_fmt begin_list end_list begin_seq_element end_seq_element d_begin_seq_element];
        rewrite !flatten_app, !flatten_wall, ?flatten_nil, IHa, IHd2; cbn [app]; reflexivity.
    - (* Vector *)
      assert (He : forall first,
                 flatten ((fix elems (first : bool) (l : list value) : trace :=
                             match l with
                             | [] => []
                             | x :: l' => begin_seq_element (default_fmt ryu) first ++ print (default_fmt ryu) x
                                            ++ end_seq_element (default_fmt ryu) ++ elems false l'
                             end) first l) = vec_elems first l).
      { induction H as [|x l [Hx _] _ IH]; intros first; [reflexivity|].
        cbn [vec_elems]. rewrite !flatten_app, Hx, IH.
        cbn [default_fmt begin_seq_element end_seq_element d_begin_seq_element]. destruct first; rewrite ?flatten_wall, ?flatten_nil; reflexivity. }
      split.
      + cbn [print]. rewrite txt_vector, !flatten_app, He. cbn [default_fmt begin_vector end_vector d_begin_vector].
        now rewrite !flatten_wall.
      + cbn [print_tail]. change (txt_tail (Vector l)) with ([32; 46; 32] ++ txt (Vector l)). rewrite txt_vector.
        unfold dot_seq. rewrite !flatten_app, He.
        cbn [default_fmt begin_seq_element write_dot end_seq_element begin_vector end_vector d_begin_vector d_begin_seq_element].
        rewrite !flatten_wall, ?flatten_nil, ?app_nil_r. reflexivity.
  Qed.

  Theorem print0_is_txt v : print0 ryu v = txt v.
  Proof. unfold print0, trace0. apply print0_txt_both. Qed.
End Text.
