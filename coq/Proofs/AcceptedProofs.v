(* C13: every value the default parser returns from byte-slice or stream input
   lies, once it is free of floats, in the class of values that C01 proves to
   round-trip. Postconditions are carried through scanners, numbers,
   characters, tokens and the list / vector loops. *)
From Coq Require Import SpecFloat Lia ZifyBool ZifyNat ZifyN.
Require Import Base Value Float PrintOptions Printer ParseOptions Utf8 Reader Scan Num NumberOps Parser Depth.
Require Import ReaderProofs ScanProofs TokenProofs NumTokenProofs CharStrProofs DepthProofs RoundtripProofs.
Require Import RelFramework Utf8Proofs Utf8PrintProofs Utf8ParseProofs.
Ltac Zify.zify_post_hook ::= Z.div_mod_to_equations.

(* ---- symbols: what the scanners return ---- *)
Definition scan_post (scratch name : bytes) : Prop :=
  exists scanned, name = scratch ++ scanned /\ no_terminator scanned /\ beq_bytes name [46] = false.

Lemma ens_scan_symbol_io k fuel : forall scratch, ens k (scan_symbol_io fuel scratch) (scan_post scratch).
Proof.
  induction fuel as [|f IH]; intros scratch; cbn [scan_symbol_io]; [intros r _; exact I|].
  apply ens_bind_any; [rk_solve|]. intros o. destruct o as [ch|].
  - destruct (is_symbol_terminator ch) eqn:Et.
    + destruct (beq_bytes scratch [46]) eqn:Ed; [apply ens_err|]. apply ens_ret.
      exists []. rewrite app_nil_r. repeat split; [constructor|exact Ed].
    + apply ens_bind_any; [rk_solve|]. intros _. intros r Hr. specialize (IH (scratch ++ [ch]) r Hr).
      destruct (fst (scan_symbol_io f (scratch ++ [ch]) r)) as [name|]; [|exact I].
      destruct IH as (scanned & E & Hn & Hd). exists (ch :: scanned). rewrite <- app_assoc in E. cbn [app] in E.
      split; [exact E|]. split; [constructor; assumption|exact Hd].
  - destruct (is_truncated_symbol scratch); [apply ens_err|]. destruct (beq_bytes scratch [46]) eqn:Ed; [apply ens_err|].
    apply ens_ret. exists []. rewrite app_nil_r. repeat split; [constructor|exact Ed].
Qed.

Lemma span_symbol_noterm l : forall acc, exists run, fst (span_symbol l acc) = acc ++ run /\ no_terminator run.
Proof.
  induction l as [|[b| |e] l IH]; intros acc; cbn [span_symbol]; try (exists []; rewrite app_nil_r; split; [reflexivity|constructor]).
  destruct (is_symbol_terminator b) eqn:Et; [exists []; rewrite app_nil_r; split; [reflexivity|constructor]|].
  destruct (IH (acc ++ [b])) as (run & E & Hn). exists (b :: run). rewrite E, <- app_assoc. split; [reflexivity|].
  constructor; assumption.
Qed.

Lemma ens_take_symbol_run k : ens k take_symbol_run (fun p => no_terminator (fst p)).
Proof.
  intros r _. unfold take_symbol_run. destruct (span_symbol_noterm (rinput r) []) as (run & E & Hn).
  destruct (span_symbol (rinput r) []) as [scanned rest]. cbn [fst snd app] in *. subst scanned. exact Hn.
Qed.

Lemma ens_scan_symbol_slice k scratch : ens k (scan_symbol_slice scratch) (scan_post scratch).
Proof.
  eapply ens_ext; [intros r; apply scan_symbol_slice_eq|]. cbv zeta.
  apply (ens_bind k _ _ (fun p => no_terminator (fst p)) (scan_post scratch)); [rk_solve|apply ens_take_symbol_run|].
  intros p Hp. destruct (snd p && is_truncated_symbol (scratch ++ fst p))%bool; [apply ens_err|].
  destruct (beq_bytes (scratch ++ fst p) [46]) eqn:Ed; [apply ens_err|]. apply ens_ret.
  exists (fst p). auto.
Qed.

Definition sym_post (scratch name : bytes) : Prop := scan_post scratch name /\ valid name.

Lemma ens_and {A} k (m : M A) (p q : A -> Prop) : ens k m p -> ens k m q -> ens k m (fun a => p a /\ q a).
Proof. intros Hp Hq r Hr. specialize (Hp r Hr). specialize (Hq r Hr). destruct (fst (m r)); auto. Qed.

Lemma ens_str_same k b (p : bytes -> Prop) : p b -> ens k (Scan.as_str b) p /\ ens k (finish_str b) p.
Proof.
  intros Hp. split; intros r _.
  - unfold Scan.as_str. destruct (utf8_valid b); cbn; [exact Hp|]. unfold error. destruct (r_position r). exact I.
  - unfold finish_str. destruct (rk r); cbn; try exact Hp;
      unfold Scan.as_str; destruct (utf8_valid b); cbn; try exact Hp; unfold error; destruct (r_position r); exact I.
Qed.

Lemma ens_parse_symbol_rd_post k fuel scratch : k <> SrcStr -> ens k (parse_symbol_rd fuel scratch) (sym_post scratch).
Proof.
  intros Hk. apply ens_and; [|apply ens_parse_symbol_rd; exact Hk].
  intros r Hr. unfold parse_symbol_rd. rewrite Hr. destruct k; [contradiction| |].
  - refine (ens_bind SrcSlice _ _ (scan_post scratch) (scan_post scratch) _ (ens_scan_symbol_slice _ scratch) _ r Hr); [rk_solve|].
    intros b Hb. apply (ens_str_same SrcSlice b _ Hb).
  - refine (ens_bind SrcIo _ _ (scan_post scratch) (scan_post scratch) _ (ens_scan_symbol_io _ fuel scratch) _ r Hr); [rk_solve|].
    intros b Hb. apply (ens_str_same SrcIo b _ Hb).
Qed.

(* ---- numbers ---- *)
Definition num_ok (n : number) : Prop :=
  match n with PosInt u => u <= u64_MAX | NegInt i => (i64_min <= i < 0)%Z | Float _ => True end.
Definition radix_ok (radix : N) : Prop := radix = 2 \/ radix = 8 \/ radix = 10 \/ radix = 16.

Lemma overflow_N_false_inv a radix b c : radix_ok radix -> b < radix -> overflow_N a radix b c = false -> a * radix + b <= c.
Proof. intros [->|[->|[->| ->]]]; unfold overflow_N; intros Hb H; lia. Qed.

Section NumPosts.
  Variable fast : bool.
  Variable std_parse : N -> Z -> f64.
  Variable k : src_kind.

  Lemma ens_float (m : M f64) : sat Rrk m -> ens k (f <- m ;; ret (Float f)) num_ok.
  Proof. intros Hs. apply ens_bind_any; [exact Hs|]. intros f. apply ens_ret. exact I. Qed.

  Lemma ens_parse_num_tail fuel radix pos res : res <= u64_MAX ->
    ens k (parse_num_tail fast std_parse fuel radix pos res) num_ok.
  Proof.
    intros Hres. unfold parse_num_tail. apply ens_bind_any; [rk_solve|]. intros c.
    destruct (c =? 46). { destruct (negb (radix =? 10)); [apply ens_err|]. apply ens_float. apply (sat_parse_decimal Rrk); rk_prim. }
    destruct ((c =? 101) || (c =? 69))%bool.
    { destruct (negb (radix =? 10)); [apply ens_err|]. apply ens_float. apply (sat_parse_exponent Rrk); rk_prim. }
    destruct pos; [apply ens_ret; exact Hres|].
    destruct (9223372036854775808 <? res) eqn:E; apply ens_ret; [exact I|].
    unfold num_from_signed. destruct (0 <=? - Z.of_N res)%Z eqn:E0; cbn [num_ok]; unfold u64_MAX, i64_min in *; lia.
  Qed.

  Lemma ens_num_literal_loop fuel : forall radix pos res, radix_ok radix -> res <= u64_MAX ->
    ens k (num_literal_loop fast std_parse fuel radix pos res) num_ok.
  Proof.
    induction fuel as [|f IH]; intros radix pos res Hr Hres; cbn [num_literal_loop]; [intros r _; exact I|].
    apply ens_bind_any; [rk_solve|]. intros c. destruct (digit_val (10 <? radix) c) as [digit|]; [|apply ens_parse_num_tail; exact Hres].
    destruct (radix <=? digit) eqn:Ed; [apply ens_err|]. apply ens_bind_any; [rk_solve|]. intros _.
    destruct (overflow_N res radix digit u64_MAX) eqn:Eo.
    - apply ens_float. apply (sat_parse_long_integer Rrk); rk_prim.
    - apply IH; [exact Hr|]. apply (overflow_N_false_inv res radix digit u64_MAX Hr ltac:(lia) Eo).
  Qed.

  Lemma digit_val_small c d : digit_val true c = Some d -> d < 16.
  Proof.
    unfold digit_val, in_range. destruct ((48 <=? c) && (c <=? 57))%bool eqn:E1; [intros H; inversion H; lia|].
    cbn [andb]. destruct ((97 <=? c) && (c <=? 102))%bool eqn:E2; [intros H; inversion H; lia|].
    destruct ((65 <=? c) && (c <=? 70))%bool eqn:E3; [intros H; inversion H; lia|discriminate].
  Qed.

  Lemma ens_parse_num_literal fuel radix pos : radix_ok radix ->
    ens k (parse_num_literal fast std_parse fuel radix pos) num_ok.
  Proof.
    intros Hr. unfold parse_num_literal. apply ens_bind_any; [rk_solve|]. intros o. destruct o as [c|]; [|apply ens_err].
    destruct (digit_val true c) as [d|] eqn:Ed; [|apply ens_err]. destruct (radix <=? d); [apply ens_err|].
    apply ens_num_literal_loop; [exact Hr|]. pose proof (digit_val_small c d Ed). unfold u64_MAX. lia.
  Qed.

  Lemma ens_parse_num_token fuel radix pos : radix_ok radix ->
    ens k (parse_num_token fast std_parse fuel radix pos) num_ok.
  Proof.
    intros Hr. unfold parse_num_token.
    apply (ens_bind k _ _ num_ok num_ok); [apply (sat_parse_num_literal Rrk); rk_prim|apply ens_parse_num_literal; exact Hr|].
    intros n Hn. apply ens_bind_any; [rk_solve|]. intros o. destruct o as [c|]; [destruct (is_delimiter c); [|apply ens_err]|]; apply ens_ret; exact Hn.
  Qed.

  Lemma ens_parse_radix_literal fuel radix : radix_ok radix ->
    ens k (parse_radix_literal fast std_parse fuel radix) num_ok.
  Proof.
    intros Hr. unfold parse_radix_literal. apply ens_bind_any; [rk_solve|]. intros c.
    destruct (c =? 45); [apply ens_bind_any; [rk_solve|]; intros _; apply ens_parse_num_token; exact Hr|].
    destruct (c =? 43); [apply ens_bind_any; [rk_solve|]; intros _; apply ens_parse_num_token; exact Hr|].
    apply ens_parse_num_token; exact Hr.
  Qed.

  Lemma ens_parse_number fuel : ens k (parse_number fast std_parse fuel) num_ok.
  Proof.
    unfold parse_number. apply ens_bind_any; [rk_solve|]. intros c. destruct (c =? 35).
    - apply ens_bind_any; [rk_solve|]. intros _. apply ens_bind_any; [rk_solve|]. intros o. destruct o as [x|]; [|apply ens_err].
      repeat match goal with |- ens _ (if ?c then _ else _) _ => destruct c end; try apply ens_err;
        apply ens_parse_radix_literal; unfold radix_ok; auto.
    - apply ens_parse_radix_literal. unfold radix_ok; auto.
  Qed.

  (* byte vectors *)
  Lemma ens_byte_list_loop fuel : forall close acc, octets_ok acc ->
    ens k (byte_list_loop fast std_parse fuel close acc) octets_ok.
  Proof.
    induction fuel as [|f IH]; intros close acc Hacc; cbn [byte_list_loop]; [intros r _; exact I|].
    apply ens_bind_any; [rk_solve|]. intros o. destruct o as [c|]; [|apply ens_err].
    destruct (c =? close). { apply ens_bind_any; [rk_solve|]. intros _. apply ens_ret. exact Hacc. }
    apply ens_bind_any; [apply (sat_parse_number Rrk); rk_prim|]. intros n.
    destruct (num_as_u64 n) as [u|]; [|apply ens_err]. destruct (255 <? u) eqn:E; [apply ens_err|].
    apply IH. apply Forall_app. split; [exact Hacc|]. repeat constructor. lia.
  Qed.

  Lemma ens_parse_byte_list fuel close : ens k (parse_byte_list fast std_parse fuel close) octets_ok.
  Proof.
    unfold parse_byte_list. apply ens_bind_any; [rk_solve|]. intros o. destruct o as [c|]; [|apply ens_err].
    destruct (c =? 40); [|apply ens_err]. apply ens_bind_any; [rk_solve|]. intros _. apply ens_byte_list_loop. constructor.
  Qed.
End NumPosts.

(* ---- characters ---- *)
Ltac inj_lists :=
  repeat match goal with
         | H : _ :: _ = _ :: _ |- _ => inversion H; subst; clear H
         | H : [] = _ :: _ |- _ => discriminate H
         | H : _ :: _ = [] |- _ => discriminate H
         end.

Ltac scalar_case Hv :=
  unfold utf8_valid in Hv; cbn [length utf8_valid_fuel utf8_head_len] in Hv;
  unfold is_cont, in_range in *; cbn [utf8_decode_head]; unfold is_scalar;
  split_ifs; cbn [skipn utf8_valid_fuel utf8_head_len] in *; unfold is_cont, in_range in *; split_ifs;
  try discriminate; inj_lists; lia.

Lemma scalar2 b0 b1 : 192 <= b0 <= 223 -> utf8_valid [b0; b1] = true -> is_scalar (utf8_decode_head [b0; b1]) = true.
Proof. intros Hr Hv. scalar_case Hv. Qed.
Lemma scalar3 b0 b1 b2 : 224 <= b0 <= 239 -> utf8_valid [b0; b1; b2] = true -> is_scalar (utf8_decode_head [b0; b1; b2]) = true.
Proof. intros Hr Hv. scalar_case Hv. Qed.
Lemma scalar4 b0 b1 b2 b3 : 240 <= b0 <= 247 -> utf8_valid [b0; b1; b2; b3] = true ->
  is_scalar (utf8_decode_head [b0; b1; b2; b3]) = true.
Proof. intros Hr Hv. scalar_case Hv. Qed.

Lemma decode_scalar b0 conts : lead_ok b0 = true -> length conts = cont_len b0 -> utf8_valid (b0 :: conts) = true ->
  is_scalar (utf8_decode_head (b0 :: conts)) = true.
Proof.
  unfold lead_ok, cont_len, in_range. intros Hl Hlen Hv.
  destruct ((192 <=? b0) && (b0 <=? 223))%bool eqn:E1.
  - destruct conts as [|b1 [|b2 conts]]; try discriminate. apply scalar2; [lia|exact Hv].
  - cbn [orb] in Hl. assert (Hq : (b0 - 192) / 16 = 2 \/ (b0 - 192) / 16 = 3) by lia.
    destruct Hq as [Hq|Hq]; rewrite Hq in Hlen.
    + destruct conts as [|b1 [|b2 [|b3 conts]]]; try discriminate. apply scalar3; [lia|exact Hv].
    + destruct conts as [|b1 [|b2 [|b3 [|b4 conts]]]]; try discriminate. apply scalar4; [lia|exact Hv].
Qed.

Lemma ens_take_bytes k n : forall acc, ens k (take_bytes n acc) (fun b => exists l, b = acc ++ l /\ length l = n).
Proof.
  induction n as [|n IH]; intros acc; cbn [take_bytes].
  - apply ens_ret. exists []. rewrite app_nil_r. auto.
  - apply ens_bind_any; [rk_solve|]. intros o. destruct o as [c|]; [|apply ens_err].
    intros r Hr. specialize (IH (acc ++ [c]) r Hr). destruct (fst (take_bytes n (acc ++ [c]) r)) as [b|]; [|exact I].
    destruct IH as (l & E & Hl). exists (c :: l). rewrite E, <- app_assoc. cbn [length]. auto.
Qed.

Definition decode_post (b0 : N) (p : bytes * N) : Prop :=
  exists conts, fst p = b0 :: conts /\ length conts = cont_len b0 /\ lead_ok b0 = true /\
                utf8_valid (fst p) = true /\ snd p = utf8_decode_head (fst p).

Lemma ens_decode_utf8_sequence_b k b0 : ens k (decode_utf8_sequence_b b0) (decode_post b0).
Proof.
  unfold decode_utf8_sequence_b. destruct (in_range 192 223 b0 || in_range 224 247 b0)%bool eqn:El; [|apply ens_err].
  cbv zeta. fold (cont_len b0).
  apply (ens_bind k _ _ (fun b => exists l, b = [b0] ++ l /\ length l = cont_len b0) (decode_post b0));
    [apply (sat_take_bytes Rrk); rk_prim|apply ens_take_bytes|].
  intros b (l & E & Hl). destruct (utf8_valid b) eqn:Ev; [|apply ens_err]. apply ens_ret.
  exists l. cbn [fst snd]. subst b. repeat split; auto.
Qed.

Lemma char_names_scalar name c : lookup_name name CHAR_NAMES = Some c -> is_scalar c = true.
Proof.
  unfold CHAR_NAMES. cbn [lookup_name].
  repeat (destruct (beq_bytes _ name); [intros H; inversion H; reflexivity|]). discriminate.
Qed.

Definition scalar (c : N) : Prop := is_scalar c = true.

Lemma ens_parse_r6rs_char k fuel : ens k (parse_r6rs_char fuel) scalar.
Proof.
  unfold parse_r6rs_char. apply ens_bind_any; [rk_solve|]. intros initial.
  destruct (initial =? 120).
  { apply ens_bind_any; [apply (sat_r6rs_char_hex_loop Rrk); rk_prim|]. intros o. destruct o as [n|].
    - unfold open_ended_char. destruct (is_scalar n) eqn:E; [apply ens_ret; exact E|].
      destruct (is_surrogate n); [|apply ens_err]. apply ens_bind_any; [rk_solve|]. intros o2. destruct o2; apply ens_err.
    - apply ens_ret. reflexivity. }
  destruct (127 <? initial) eqn:Ehi.
  { unfold decode_utf8_sequence.
    apply (ens_bind k _ _ (decode_post initial) scalar); [rk_solve|apply ens_decode_utf8_sequence_b|].
    intros p (conts & E1 & Hlen & Hlead & Hv & E2). apply ens_ret. unfold scalar. rewrite E2, E1.
    rewrite E1 in Hv. apply decode_scalar; assumption. }
  assert (Hsc : scalar initial) by (unfold scalar, is_scalar; lia).
  apply ens_bind_any; [rk_solve|]. intros o. destruct o as [nx|]; [|apply ens_ret; exact Hsc].
  destruct (is_delimiter_chr nx); [apply ens_ret; exact Hsc|].
  apply ens_bind_any; [rk_solve|]. intros _.
  apply ens_bind_any; [apply (sat_char_name_loop Rrk); rk_prim|]. intros name.
  destruct (lookup_name name CHAR_NAMES) as [c|] eqn:El.
  - apply ens_ret. exact (char_names_scalar name c El).
  - apply ens_bind_any; [rk_solve|]. intros o2. destruct o2; [apply ens_err|].
    destruct (existsb _ CHAR_NAMES); apply ens_err.
Qed.

(* ---- tokens ---- *)
Section TokPosts.
  Variable alpha : N -> bool.
  Variable fast : bool.
  Variable std_parse : N -> Z -> f64.
  Variable k : src_kind.
  Hypothesis Hk : k <> SrcStr.
  Local Notation ro := default_ro.

  Definition kw_ok (s : bytes) : Prop := no_terminator s /\ symbol_ok s.

  Definition tok_ok (t : token) : Prop :=
    match t with
    | TSymbol s => plain_symbol alpha s
    | TKeyword s => kw_ok s
    | TString s => valid s
    | TChar c => scalar c
    | TNumber n => num_ok n
    | TQuotation s => plain_symbol alpha s
    | TByteVecOpen c | TVecOpen c | TListOpen c => c = 41
    | TBytes _ => False     (* only the Emacs Lisp string syntax produces it *)
    | TNull => False        (* only a non-default nil setting *)
    | TNil | TBool _ => True
    end.

  Lemma sym_post_ok scratch name : sym_post scratch name -> symbol_ok name.
  Proof. intros [(scanned & E & Hn & Hd) Hv]. split; assumption. Qed.

  (* a scanned name that starts with one of the direct first bytes *)
  Lemma plain_direct c name : (is_ascii_alpha c = true \/ In c ext_initial \/ c = 58) ->
    is_symbol_terminator c = false ->
    sym_post [] name -> (exists t, name = c :: t) -> plain_symbol alpha name.
  Proof.
    intros Hc Hct Hp (t & ->). pose proof (sym_post_ok _ _ Hp) as Hok.
    destruct Hp as [(scanned & E & Hn & Hd) Hv]. cbn [app] in E. subst scanned.
    split; [exact Hn|]. split; [exact Hok|]. left. exact Hc.
  Qed.
End TokPosts.

(* ---- a Hoare logic with reader pre/postconditions, for the places where
   what is scanned must be tied to the byte that was peeked ---- *)
Definition hoare {A} (k : src_kind) (pre : reader -> Prop) (m : M A) (post : A -> reader -> Prop) : Prop :=
  forall r, rk r = k -> pre r -> match m r with (Ok a, r') => post a r' | _ => True end.

Lemma hoare_bind {A B} k pre (m : M A) (f : A -> M B) mid post :
  sat Rrk m -> hoare k pre m mid -> (forall a, hoare k (mid a) (f a) post) -> hoare k pre (bind m f) post.
Proof.
  intros Hs Hm Hf r Hr Hp. unfold bind. specialize (Hs r). specialize (Hm r Hr Hp). unfold R, Rrk in Hs.
  destruct (m r) as [[a|e] r1]; cbn [fst snd] in *; [|exact I]. apply (Hf a r1); [congruence|exact Hm].
Qed.
Lemma hoare_ret {A} k (pre : reader -> Prop) (a : A) (post : A -> reader -> Prop) :
  (forall r, pre r -> post a r) -> hoare k pre (ret a) post.
Proof. intros H r _ Hp. apply H. exact Hp. Qed.
Lemma hoare_err {A} k pre c (post : A -> reader -> Prop) : hoare k pre (error c) post /\ hoare k pre (peek_error c) post.
Proof. split; intros r _ _; [unfold error; destruct (r_position r)|unfold peek_error; destruct (r_peek_position r)]; exact I. Qed.
Lemma hoare_of_ens {A} k pre (m : M A) (q : A -> Prop) : ens k m q -> hoare k pre m (fun a _ => q a).
Proof. intros H r Hr _. specialize (H r Hr). destruct (m r) as [[a|e] r']; cbn [fst] in H; [exact H|exact I]. Qed.
Lemma hoare_weaken {A} k (pre pre' : reader -> Prop) (m : M A) (post post' : A -> reader -> Prop) :
  (forall r, pre' r -> pre r) -> (forall a r, post a r -> post' a r) -> hoare k pre m post -> hoare k pre' m post'.
Proof. intros H1 H2 H r Hr Hp. specialize (H r Hr (H1 r Hp)). destruct (m r) as [[a|e] r']; [apply H2; exact H|exact I]. Qed.
Lemma hoare_and {A} k pre (m : M A) p q : hoare k pre m p -> hoare k pre m q -> hoare k pre m (fun a r => p a r /\ q a r).
Proof. intros Hp Hq r Hr Hpre. specialize (Hp r Hr Hpre). specialize (Hq r Hr Hpre). destruct (m r) as [[a|e] r']; auto. Qed.

(* the reader's next byte has been peeked and is b / there is no next byte *)
Definition headed (b : N) (r : reader) : Prop := rpending r = true /\ exists l, rinput r = EByte b :: l.
Definition ended (r : reader) : Prop :=
  (rpending r = true /\ match rinput r with EByte _ :: _ => False | _ => True end) \/ (rpending r = false /\ rinput r = []).

Lemma skip_intr_head l : match skip_intr l with EInterrupted :: _ => False | _ => True end.
Proof. induction l as [|[b| |e] l IH]; cbn [skip_intr]; auto. Qed.

Lemma hoare_peek k : hoare k (fun _ => True) peek
  (fun o r' => match o with Some b => headed b r' | None => ended r' end).
Proof.
  intros r _ _. unfold peek, r_peek. destruct (rpending r) eqn:Ep.
  - destruct (rinput r) as [|[b| |e] l] eqn:Ei.
    + left. rewrite Ei. auto.
    + split; [exact Ep|]. exists l. exact Ei.
    + left. rewrite Ei. auto.
    + left. rewrite Ei. auto.
  - pose proof (skip_intr_head (rinput r)) as Hh.
    destruct (skip_intr (rinput r)) as [|[b| |e] l] eqn:Es; try exact I.
    + right. cbn. auto.
    + split; [reflexivity|]. exists l. reflexivity.
    + contradiction.
Qed.

Lemma peek_headed b r : headed b r -> r_peek r = (Ok (Some b), r).
Proof. intros [Hp (l & El)]. unfold r_peek. rewrite Hp, El. reflexivity. Qed.
Lemma peek_ended r : ended r -> exists r', r_peek r = (Ok None, r') /\ ended r'.
Proof.
  intros [[Hp Hh]|[Hp Hi]]; unfold r_peek; rewrite Hp.
  - destruct (rinput r) as [|[b| |e] l] eqn:Ei; try contradiction; exists r; (split; [reflexivity|]); left; rewrite Ei; auto.
  - rewrite Hi. cbn. eexists. split; [reflexivity|]. right. cbn. auto.
Qed.

(* the symbol scanners, from a reader whose next byte is known *)
Definition starts_with (b : N) (scanned : bytes) : Prop :=
  if is_symbol_terminator b then scanned = [] else exists t, scanned = b :: t.

Lemma scan_io_headed k fuel scratch b :
  hoare k (headed b) (scan_symbol_io fuel scratch) (fun name _ => exists scanned, name = scratch ++ scanned /\ starts_with b scanned).
Proof.
  intros r Hr Hh. destruct fuel as [|f]; [exact I|]. cbn [scan_symbol_io]. unfold bind, peek.
  rewrite (peek_headed b r Hh). unfold starts_with. destruct (is_symbol_terminator b) eqn:Et.
  - destruct (beq_bytes scratch [46]); [unfold error; destruct (r_position r); exact I|].
    cbn. exists []. rewrite app_nil_r. auto.
  - cbn [eat_char]. pose proof (ens_scan_symbol_io k f (scratch ++ [b]) (r_discard r)) as H.
    rewrite discard_rk in H. specialize (H Hr).
    destruct (scan_symbol_io f (scratch ++ [b]) (r_discard r)) as [[name|e] r']; cbn [fst] in H; [|exact I].
    destruct H as (scanned & E & _). exists (b :: scanned). rewrite <- app_assoc in E. split; [exact E|]. eexists; reflexivity.
Qed.

Lemma scan_io_ended k fuel scratch :
  hoare k ended (scan_symbol_io fuel scratch) (fun name _ => name = scratch).
Proof.
  intros r Hr He. destruct fuel as [|f]; [exact I|]. cbn [scan_symbol_io]. unfold bind, peek.
  destruct (peek_ended r He) as (r' & E & _). rewrite E.
  destruct (is_truncated_symbol scratch); [unfold error; destruct (r_position r'); exact I|].
  destruct (beq_bytes scratch [46]); [unfold error; destruct (r_position r'); exact I|]. reflexivity.
Qed.

Lemma span_symbol_head b l acc : fst (span_symbol (EByte b :: l) acc) = acc \/ exists t, fst (span_symbol (EByte b :: l) acc) = acc ++ b :: t.
Proof.
  cbn [span_symbol]. destruct (is_symbol_terminator b); [left; reflexivity|].
  destruct (span_symbol_noterm l (acc ++ [b])) as (run & E & _). right. exists run. rewrite E, <- app_assoc. reflexivity.
Qed.

Lemma scan_slice_headed k scratch b :
  hoare k (headed b) (scan_symbol_slice scratch) (fun name _ => exists scanned, name = scratch ++ scanned /\ starts_with b scanned).
Proof.
  intros r Hr [Hp (l & El)]. unfold scan_symbol_slice. rewrite El. unfold starts_with.
  cbn [span_symbol]. destruct (is_symbol_terminator b) eqn:Et.
  - cbn [fst snd]. rewrite app_nil_r. destruct (_ && _)%bool; [unfold error; destruct (r_position _); exact I|].
    destruct (beq_bytes scratch [46]); [unfold error; destruct (r_position _); exact I|]. cbn. exists []. rewrite app_nil_r. auto.
  - destruct (span_symbol_noterm l ([] ++ [b])) as (run & E & _).
    destruct (span_symbol l ([] ++ [b])) as [scanned rest]. cbn [fst snd app] in *. subst scanned.
    destruct (_ && _)%bool; [unfold error; destruct (r_position _); exact I|].
    destruct (beq_bytes _ [46]); [unfold error; destruct (r_position _); exact I|]. cbn. exists (b :: run). split; [reflexivity|eexists; reflexivity].
Qed.

Lemma scan_slice_ended k scratch :
  hoare k (fun r => ended r /\ rk r <> SrcIo) (scan_symbol_slice scratch) (fun name _ => name = scratch).
Proof.
  intros r Hr [He _]. unfold scan_symbol_slice.
  assert (Hs : fst (span_symbol (rinput r) []) = []).
  { destruct He as [[_ Hh]|[_ Hi]]; [|rewrite Hi; reflexivity]. destruct (rinput r) as [|[b| |e] l]; try contradiction; reflexivity. }
  destruct (span_symbol (rinput r) []) as [scanned rest]. cbn [fst] in Hs. subst scanned. rewrite app_nil_r.
  destruct (_ && _)%bool; [unfold error; destruct (r_position _); exact I|].
  destruct (beq_bytes scratch [46]); [unfold error; destruct (r_position _); exact I|]. reflexivity.
Qed.

Lemma hoare_str_same k b : hoare k (fun _ => True) (Scan.as_str b) (fun s _ => s = b) /\
                           hoare k (fun _ => True) (finish_str b) (fun s _ => s = b).
Proof.
  split; intros r _ _.
  - unfold Scan.as_str. destruct (utf8_valid b); cbn; [reflexivity|]. unfold error. destruct (r_position r). exact I.
  - unfold finish_str. destruct (rk r); cbn; try reflexivity;
      unfold Scan.as_str; destruct (utf8_valid b); cbn; try reflexivity; unfold error; destruct (r_position r); exact I.
Qed.

Definition scanned_from (scratch : bytes) (b : N) (name : bytes) : Prop :=
  exists scanned, name = scratch ++ scanned /\ starts_with b scanned.

Lemma sym_headed k fuel scratch b : k <> SrcStr ->
  hoare k (headed b) (parse_symbol_rd fuel scratch) (fun name _ => sym_post scratch name /\ scanned_from scratch b name).
Proof.
  intros Hk. apply hoare_and; [apply hoare_of_ens, ens_parse_symbol_rd_post; exact Hk|].
  intros r Hr Hh. unfold parse_symbol_rd. rewrite Hr. destruct k; [contradiction| |].
  - refine (hoare_bind SrcSlice (headed b) _ _ (fun name _ => scanned_from scratch b name) _ _ (scan_slice_headed _ scratch b) _ r Hr Hh); [rk_solve|].
    intros name. intros r1 Hr1 Hsc. pose proof (proj2 (hoare_str_same SrcSlice name) r1 Hr1 I) as H.
    destruct (finish_str name r1) as [[s|e] r2]; [subst s; exact Hsc|exact I].
  - refine (hoare_bind SrcIo (headed b) _ _ (fun name _ => scanned_from scratch b name) _ _ (scan_io_headed _ fuel scratch b) _ r Hr Hh); [rk_solve|].
    intros name. intros r1 Hr1 Hsc. pose proof (proj1 (hoare_str_same SrcIo name) r1 Hr1 I) as H.
    destruct (Scan.as_str name r1) as [[s|e] r2]; [subst s; exact Hsc|exact I].
Qed.

Lemma sym_ended k fuel scratch : k <> SrcStr ->
  hoare k ended (parse_symbol_rd fuel scratch) (fun name _ => name = scratch).
Proof.
  intros Hk r Hr He. unfold parse_symbol_rd. rewrite Hr. destruct k; [contradiction| |].
  - refine (hoare_bind SrcSlice (fun r => ended r /\ rk r <> SrcIo) _ _ (fun name _ => name = scratch) _ _ (scan_slice_ended _ scratch) _ r Hr _); [rk_solve| |split; [exact He|rewrite Hr; discriminate]].
    intros name r1 Hr1 ->. pose proof (proj2 (hoare_str_same SrcSlice scratch) r1 Hr1 I) as H.
    destruct (finish_str scratch r1) as [[s|e] r2]; [exact H|exact I].
  - refine (hoare_bind SrcIo ended _ _ (fun name _ => name = scratch) _ _ (scan_io_ended _ fuel scratch) _ r Hr He); [rk_solve|].
    intros name r1 Hr1 ->. pose proof (proj1 (hoare_str_same SrcIo scratch) r1 Hr1 I) as H.
    destruct (Scan.as_str scratch r1) as [[s|e] r2]; [exact H|exact I].
Qed.

(* parse_whitespace stops on a peeked byte *)
Lemma ws_headed k fuel : hoare k (fun _ => True) (parse_whitespace fuel)
  (fun o r' => match o with Some b => headed b r' | None => True end).
Proof.
  induction fuel as [|f IH]; [intros r _ _; exact I|]. cbn [parse_whitespace].
  apply (hoare_bind k _ _ _ (fun o r' => match o with Some b => headed b r' | None => ended r' end)); [rk_solve|apply hoare_peek|].
  intros o. destruct o as [c|]; [|apply hoare_ret; auto].
  destruct (c =? 59).
  - apply (hoare_bind k _ _ _ (fun _ _ => True)); [apply (sat_skip_comment Rrk); rk_prim| |].
    + intros r _ _. destruct (skip_comment f r) as [[a|e] r']; exact I.
    + intros more. destruct more; [eapply hoare_weaken; [| |exact IH]; auto|apply hoare_ret; auto].
  - destruct (memb c [32; 10; 9; 13; 12]).
    + apply (hoare_bind k _ _ _ (fun _ _ => True)); [rk_solve| |].
      * intros r _ _. exact I.
      * intros _. eapply hoare_weaken; [| |exact IH]; auto.
    + apply hoare_ret. auto.
Qed.

Ltac high_case Hv :=
  unfold utf8_valid in Hv; cbn [length utf8_valid_fuel utf8_head_len] in Hv;
  unfold is_cont, in_range in *;
  split_ifs; cbn [skipn utf8_valid_fuel utf8_head_len] in *; unfold is_cont, in_range in *; split_ifs;
  try discriminate; inj_lists; repeat constructor; lia.

Lemma high2 b0 b1 : 192 <= b0 <= 223 -> utf8_valid [b0; b1] = true -> Forall (fun c => 128 <= c) [b1].
Proof. intros Hr Hv. high_case Hv. Qed.
Lemma high3 b0 b1 b2 : 224 <= b0 <= 239 -> utf8_valid [b0; b1; b2] = true -> Forall (fun c => 128 <= c) [b1; b2].
Proof. intros Hr Hv. high_case Hv. Qed.
Lemma high4 b0 b1 b2 b3 : 240 <= b0 <= 247 -> utf8_valid [b0; b1; b2; b3] = true -> Forall (fun c => 128 <= c) [b1; b2; b3].
Proof. intros Hr Hv. high_case Hv. Qed.

Lemma conts_high b0 conts : lead_ok b0 = true -> length conts = cont_len b0 -> utf8_valid (b0 :: conts) = true ->
  Forall (fun c => 128 <= c) conts.
Proof.
  unfold lead_ok, cont_len, in_range. intros Hl Hlen Hv.
  destruct ((192 <=? b0) && (b0 <=? 223))%bool eqn:E1.
  - destruct conts as [|b1 [|b2 conts]]; try discriminate. apply (high2 b0); [lia|exact Hv].
  - cbn [orb] in Hl. assert (Hq : (b0 - 192) / 16 = 2 \/ (b0 - 192) / 16 = 3) by lia.
    destruct Hq as [Hq|Hq]; rewrite Hq in Hlen.
    + destruct conts as [|b1 [|b2 [|b3 conts]]]; try discriminate. apply (high3 b0); [lia|exact Hv].
    + destruct conts as [|b1 [|b2 [|b3 [|b4 conts]]]]; try discriminate. apply (high4 b0); [lia|exact Hv].
Qed.

Lemma high_not_terminator c : 128 <= c -> is_symbol_terminator c = false.
Proof. intros H. unfold is_symbol_terminator, memb. cbn [existsb]. lia. Qed.

Section TokenOk.
  Variable alpha : N -> bool.
  Variable fast : bool.
  Variable std_parse : N -> Z -> f64.
  Variable k : src_kind.
  Hypothesis Hk : k <> SrcStr.
  Local Notation ro := default_ro.

  Definition tok_ok' (t : token) : Prop :=
    match t with
    | TSymbol s => plain_symbol alpha s
    | TKeyword s => kw_ok s
    | TString s => valid s
    | TChar c => scalar c
    | TNumber n => num_ok n
    | TQuotation s => plain_symbol alpha s
    | TBytes _ | TNull => False
    | _ => True
    end.

  Lemma quote_names_plain :
    plain_symbol alpha (s2b "quote") /\ plain_symbol alpha (s2b "quasiquote") /\
    plain_symbol alpha (s2b "unquote") /\ plain_symbol alpha (s2b "unquote-splicing").
  Proof.
    unfold plain_symbol, symbol_ok, no_terminator.
    repeat split; try reflexivity; try (repeat constructor); left; left; reflexivity.
  Qed.

  Lemma direct_symbol fuel b : (is_ascii_alpha b = true \/ In b ext_initial \/ b = 58) ->
    hoare k (headed b) (parse_symbol fuel) (fun name _ => plain_symbol alpha name).
  Proof.
    intros Hc. assert (Ht : is_symbol_terminator b = false).
    { destruct Hc as [Ha|[Hi| ->]]; [| |reflexivity].
      - unfold is_ascii_alpha, is_ascii_lower, is_ascii_upper, in_range in Ha. unfold is_symbol_terminator, memb. cbn [existsb]. lia.
      - unfold ext_initial in Hi. cbn in Hi. repeat (destruct Hi as [<-|Hi]; [reflexivity|]). contradiction. }
    unfold parse_symbol. eapply hoare_weaken; [intros r H; exact H| |apply (sym_headed k fuel [] b Hk)].
    intros name r [Hp (scanned & E & Hs)]. unfold starts_with in Hs. rewrite Ht in Hs. destruct Hs as (t & ->). cbn [app] in E.
    pose proof (sym_post_ok _ _ Hp) as Hok. destruct Hp as [(scanned' & E' & Hn & Hd) Hv]. cbn [app] in E'. subst scanned'.
    subst name. split; [exact Hn|]. split; [exact Hok|]. left. exact Hc.
  Qed.

  Lemma ext_is_direct b : memb b SYMBOL_EXTENDED = true -> In b ext_initial \/ b = 58.
  Proof.
    change SYMBOL_EXTENDED with [33; 36; 37; 38; 42; 46; 47; 58; 60; 61; 62; 63; 64; 94; 95; 126].
    change ext_initial with [33; 36; 37; 38; 42; 46; 47; 60; 61; 62; 63; 64; 94; 95; 126].
    unfold memb. cbn [existsb]. intros H.
    assert (Hb : b = 33 \/ b = 36 \/ b = 37 \/ b = 38 \/ b = 42 \/ b = 46 \/ b = 47 \/ b = 58 \/ b = 60 \/ b = 61 \/
                 b = 62 \/ b = 63 \/ b = 64 \/ b = 94 \/ b = 95 \/ b = 126) by lia.
    repeat (destruct Hb as [->|Hb]; [cbn; tauto|]). subst b. cbn; tauto.
  Qed.

  Lemma ens_kw_arm fuel : ens k (s <- parse_symbol fuel ;; ret (TKeyword s)) tok_ok'.
  Proof.
    apply (ens_bind k _ _ (sym_post []) tok_ok'); [rk_solve|apply ens_parse_symbol_rd_post; exact Hk|].
    intros s Hs. apply ens_ret. pose proof (sym_post_ok _ _ Hs) as Hok. destruct Hs as [(scanned & E & Hn & _) _].
    cbn [app] in E. subst scanned. split; assumption.
  Qed.
  Lemma ens_radix_arm fuel radix : radix_ok radix ->
    ens k (n <- parse_radix_literal fast std_parse fuel radix ;; ret (TNumber n)) tok_ok'.
  Proof.
    intros Hr. apply (ens_bind k _ _ num_ok tok_ok'); [rk_solve|apply ens_parse_radix_literal; exact Hr|].
    intros n Hn. apply ens_ret. exact Hn.
  Qed.
  Lemma ens_char_arm fuel : ens k (ch <- parse_r6rs_char fuel ;; ret (TChar ch)) tok_ok'.
  Proof. apply (ens_bind k _ _ scalar tok_ok'); [rk_solve|apply ens_parse_r6rs_char|]. intros c0 Hc0. apply ens_ret. exact Hc0. Qed.

  Theorem parse_token_ok fuel b :
    hoare k (headed b) (parse_token ro alpha fast std_parse fuel b) (fun tok _ => tok_ok' tok).
  Proof.
    destruct quote_names_plain as (Hq1 & Hq2 & Hq3 & Hq4).
    unfold parse_token.
    destruct (b =? 35).
    { apply hoare_of_ens.
      apply ens_bind_any; [rk_solve|]. intros _. apply ens_bind_any; [rk_solve|]. intros o. destruct o as [c|]; [|apply ens_err].
      cbn [ro_kw_octo ro_racket default_ro]. rewrite ?Bool.andb_false_r, ?Bool.andb_true_r.
      repeat match goal with
             | |- ens _ (if ?c then _ else _) _ => destruct c
             end;
        first [ apply ens_ret; exact I | apply ens_err
              | apply ens_bind_any; [rk_solve|]; intros _; apply ens_ret; exact I
              | apply ens_kw_arm | apply ens_char_arm
              | apply ens_radix_arm; unfold radix_ok; auto ]. }
    destruct ((b =? 45) || (b =? 43))%bool eqn:Esign.
    { apply (hoare_bind k _ _ _ (fun _ _ => True)); [rk_solve|intros r _ _; exact I|]. intros _.
      apply (hoare_bind k _ _ _ (fun nx r' => (headed nx r') \/ (nx = 0 /\ ended r'))); [rk_solve| |].
      - unfold peek_or_null. apply (hoare_bind k _ _ _ (fun o r' => match o with Some c => headed c r' | None => ended r' end)); [rk_solve|apply hoare_peek|].
        intros o. apply hoare_ret. intros r H. destruct o; auto.
      - intros nx. destruct ((nx =? 0) || is_delimiter nx || is_sign_subsequent nx || (nx =? 46) || (127 <? nx))%bool eqn:Ec.
        + unfold parse_symbol_suffix.
          apply (hoare_bind k _ _ _ (fun name _ => plain_symbol alpha name)); [rk_solve| |intros name; apply hoare_ret; intros r H; exact H].
          intros r Hr [Hh|[-> He]].
          * pose proof (sym_headed k fuel [b] nx Hk r Hr Hh) as H.
            destruct (parse_symbol_rd fuel [b] r) as [[name|e] r']; [|exact I].
            destruct H as [Hp (scanned & E & Hs)]. pose proof (sym_post_ok _ _ Hp) as Hok.
            destruct Hp as [(scanned' & E' & Hn & _) _]. assert (scanned' = scanned) by (rewrite E in E'; apply app_inv_head in E'; auto). subst scanned'.
            subst name. cbn [app]. split; [constructor; [destruct (N.eqb_spec b 45) as [->|]; [reflexivity|]; destruct (N.eqb_spec b 43) as [->|]; [reflexivity|discriminate]|exact Hn]|].
            split; [exact Hok|]. right. left. split; [lia|].
            unfold starts_with in Hs. destruct (is_symbol_terminator nx); [subst scanned; exact I|].
            destruct Hs as (t & ->). exact Ec.
          * pose proof (sym_ended k fuel [b] Hk r Hr He) as H.
            destruct (parse_symbol_rd fuel [b] r) as [[name|e] r']; [|exact I]. subst name.
            assert (Hb : b = 43 \/ b = 45) by lia.
            split; [destruct Hb as [->| ->]; repeat constructor|]. split; [destruct Hb as [->| ->]; split; reflexivity|].
            right. left. split; [exact Hb|exact I].
        + apply hoare_of_ens. apply (ens_bind k _ _ num_ok tok_ok'); [rk_solve|apply ens_parse_num_token; unfold radix_ok; auto|].
          intros n Hn. apply ens_ret. exact Hn. }
    destruct (is_digit b).
    { cbn [ro_digit default_ro]. apply hoare_of_ens.
      apply (ens_bind k _ _ num_ok tok_ok'); [rk_solve|apply ens_parse_num_token; unfold radix_ok; auto|]. intros n Hn. apply ens_ret. exact Hn. }
    destruct (b =? 34).
    { apply hoare_of_ens. apply ens_bind_any; [rk_solve|]. intros _. cbn [ro_string default_ro].
      apply (ens_bind k _ _ valid tok_ok'); [rk_solve|apply ens_parse_r6rs_str_rd; exact Hk|]. intros s Hs. apply ens_ret. exact Hs. }
    destruct (b =? 40). { apply hoare_of_ens. apply ens_bind_any; [rk_solve|]. intros _. apply ens_ret. exact I. }
    destruct (b =? 91). { apply hoare_of_ens. apply ens_bind_any; [rk_solve|]. intros _. apply ens_ret. exact I. }
    destruct (N.eqb_spec b 58) as [->|Hn58].
    { cbn [ro_kw_prefix default_ro].
      apply (hoare_bind k _ _ _ (fun name _ => plain_symbol alpha name)); [rk_solve|apply direct_symbol; auto|].
      intros s. apply hoare_ret. intros r H. exact H. }
    destruct (is_ascii_alpha b) eqn:Ea.
    { apply (hoare_bind k _ _ _ (fun name _ => plain_symbol alpha name)); [rk_solve|apply direct_symbol; auto|].
      intros s. apply hoare_ret. intros r H. exact H. }
    replace ((b =? 63) && match ro_char ro with ChrR6RS => false | ChrElisp => true end)%bool with false by (cbn; now rewrite Bool.andb_false_r).
    destruct (b =? 39). { apply hoare_of_ens. apply ens_bind_any; [rk_solve|]. intros _. apply ens_ret. exact Hq1. }
    destruct (b =? 96). { apply hoare_of_ens. apply ens_bind_any; [rk_solve|]. intros _. apply ens_ret. exact Hq2. }
    destruct (b =? 44).
    { apply hoare_of_ens. apply ens_bind_any; [rk_solve|]. intros _. apply ens_bind_any; [rk_solve|]. intros nx.
      destruct (nx =? 64); [apply ens_bind_any; [rk_solve|]; intros _; apply ens_ret; exact Hq4|apply ens_ret; exact Hq3]. }
    destruct (127 <? b) eqn:Ehi.
    { apply hoare_of_ens. apply ens_bind_any; [rk_solve|]. intros _.
      apply (ens_bind k _ _ (decode_post b) tok_ok'); [rk_solve|apply ens_decode_utf8_sequence_b|].
      intros p (conts & E1 & Hlen & Hlead & Hv & E2). destruct (negb (alpha (snd p))) eqn:Eal; [apply ens_err|].
      unfold parse_symbol_suffix.
      apply (ens_bind k _ _ (sym_post (fst p)) tok_ok'); [rk_solve|apply ens_parse_symbol_rd_post; exact Hk|].
      intros name Hp. apply ens_ret. pose proof (sym_post_ok _ _ Hp) as Hok. destruct Hp as [(scanned & E & Hn & _) _].
      rewrite E1 in *. subst name. cbn [app symbol_token tok_ok'].
      pose proof (conts_high b conts Hlead Hlen Hv) as Hhigh.
      split; [|split; [exact Hok|]].
      - constructor; [apply high_not_terminator; lia|]. apply Forall_app. split; [|exact Hn].
        eapply Forall_impl; [|exact Hhigh]. intros c Hc. apply high_not_terminator. exact Hc.
      - right. right. split; [lia|]. split; [exact Hlead|]. exists conts, scanned. repeat split; auto.
        rewrite <- E2. destruct (alpha (snd p)); [reflexivity|discriminate]. }
    destruct (memb b SYMBOL_EXTENDED) eqn:Eext.
    { apply (hoare_bind k _ _ _ (fun name _ => plain_symbol alpha name)); [rk_solve| |intros s; apply hoare_ret; intros r H; exact H].
      destruct (ext_is_direct b Eext) as [Hi| ->]; [apply direct_symbol; auto|contradiction]. }
    intros r _ _. unfold peek_error. destruct (r_peek_position r). exact I.
  Qed.
End TokenOk.

(* ---- values ---- *)
Section ValuesOk.
  Variable alpha : N -> bool.
  Variable fast : bool.
  Variable std_parse : N -> Z -> f64.
  Variable k : src_kind.
  Hypothesis Hk : k <> SrcStr.
  Local Notation ro := default_ro.
  Local Notation next_value := (next_value ro alpha fast std_parse).
  Local Notation parse_list := (parse_list ro alpha fast std_parse).
  Local Notation parse_vector := (parse_vector ro alpha fast std_parse).

  (* the C01 class with floats still allowed *)
  Fixpoint rt_okf (v : value) : Prop :=
    match v with
    | Nil | Null | Bool _ => True
    | Number n => num_ok n
    | Char c => is_scalar c = true
    | String s => utf8_valid s = true
    | Symbol s => plain_symbol alpha s
    | Keyword s => no_terminator s /\ symbol_ok s
    | Bytes b => octets_ok b
    | Cons a d => rt_okf a /\ rt_okf d
    | Vector l => (fix all (l : list value) : Prop := match l with [] => True | x :: l' => rt_okf x /\ all l' end) l
    end.
  Fixpoint float_free (v : value) : Prop :=
    match v with
    | Number (Float _) => False
    | Cons a d => float_free a /\ float_free d
    | Vector l => (fix all (l : list value) : Prop := match l with [] => True | x :: l' => float_free x /\ all l' end) l
    | _ => True
    end.

  Lemma rt_okf_float_free v : rt_okf v -> float_free v -> rt_ok alpha v.
  Proof.
    induction v as [| |b|n|c|s|s|s|bs|a d IHa IHd|l H] using value_ind'; cbn [rt_okf float_free rt_ok]; intros H1 H2;
      try exact I; try assumption.
    - destruct n as [u|i|f]; cbn [num_ok] in *; auto.
    - destruct H1, H2. split; auto.
    - revert H1 H2. induction H as [|x l Hx _ IH]; [auto|]. intros [Hx1 Hl1] [Hx2 Hl2]. split; [auto|]. apply IH; assumption.
  Qed.

  Definition vok (D : N) (v : value) : Prop := rt_okf v /\ N.of_nat (rdepth v) < D.

  (* the judgement: from a state with this source kind and nesting budget D,
     a successful result satisfies post and hands the budget back *)
  Definition J {A} (D : N) (m : PM A) (post : A -> Prop) : Prop :=
    forall s, rk (rd s) = k -> depth s = D -> 1 <= D <= 128 ->
      match m s with (POk a, s') => post a /\ depth s' = D /\ rk (rd s') = k | (PErr _, _) => True end.

  Lemma J_bind {A B} D (m : PM A) (f : A -> PM B) p q : J D m p -> (forall a, p a -> J D (f a) q) -> J D (pbind m f) q.
  Proof.
    intros Hm Hf s Hr Hd HD. rewrite pbind_unfold. specialize (Hm s Hr Hd HD).
    destruct (m s) as [[a|e] s1]; [|exact I]. destruct Hm as (Hp & Hd1 & Hr1). apply (Hf a Hp s1 Hr1 Hd1 HD).
  Qed.
  Lemma J_ret {A} D (a : A) (q : A -> Prop) : q a -> J D (pret a) q.
  Proof. intros H s Hr Hd _. cbn. auto. Qed.
  Lemma J_assume {A} D (m : PM A) (q : A -> Prop) : (1 <= D <= 128 -> J D m q) -> J D m q.
  Proof. intros H s Hr Hd HD. apply (H HD s Hr Hd HD). Qed.
  Lemma J_fail {A} D e (q : A -> Prop) : J D (pfail e) q.
  Proof. intros s _ _ _. exact I. Qed.
  Lemma J_liftR {A} D (m : M A) (q : A -> Prop) : sat Rrk m -> ens k m q -> J D (liftR m) q.
  Proof.
    intros Hs He s Hr Hd _. unfold liftR. specialize (Hs (rd s)). specialize (He (rd s) Hr). unfold R, Rrk in Hs.
    destruct (m (rd s)) as [[a|e] r']; cbn [fst snd] in *; [|exact I]. cbn [depth rd]. repeat split; auto. congruence.
  Qed.
  Lemma J_liftR_any {A} D (m : M A) : sat Rrk m -> J D (liftR m) (fun _ => True).
  Proof. intros Hs. apply J_liftR; [exact Hs|apply ens_any]. Qed.
  Lemma J_err {A} D c (q : A -> Prop) : J D (liftR (peek_error (A := A) c)) q.
  Proof. intros s _ _ _. unfold liftR, peek_error. destruct (r_peek_position (rd s)). exact I. Qed.
  Lemma J_weaken {A} D (m : PM A) (p q : A -> Prop) : (forall a, p a -> q a) -> J D m p -> J D m q.
  Proof. intros H Hm s Hr Hd HD. specialize (Hm s Hr Hd HD). destruct (m s) as [[a|e] s1]; [|exact I]. destruct Hm as (Hp & H1 & H2). auto. Qed.

  (* whitespace then a token *)
  Lemma J_ws_token D f (kk : token -> PM (option value)) q :
    (forall tok, tok_ok' alpha tok -> J D (kk tok) q) ->
    (J D (pret None) q) ->
    J D (pbind (liftR (parse_whitespace f)) (fun o => match o with
                                                      | None => pret None
                                                      | Some b => pbind (liftR (parse_token ro alpha fast std_parse f b)) kk
                                                      end)) q.
  Proof.
    intros Hkk Hnone s Hr Hd HD. rewrite pbind_unfold. unfold liftR at 1.
    pose proof (ws_headed k f (rd s) Hr I) as Hw.
    pose proof (sat_parse_whitespace Rrk Rrk_ret Rrk_seq Rrk_fuel rk_peek rk_next rk_eat f (rd s)) as Hrk. unfold R, Rrk in Hrk.
    destruct (parse_whitespace f (rd s)) as [[o|e] r1]; cbn [fst snd] in *; [|exact I].
    destruct o as [b|].
    - rewrite pbind_unfold. unfold liftR at 1. cbn [rd depth].
      pose proof (parse_token_ok alpha fast std_parse k Hk f b r1 ltac:(congruence) Hw) as Ht.
      pose proof (sat_parse_token Rrk Rrk_ret Rrk_seq Rrk_fuel rk_peek rk_next rk_eat rk_error rk_peek_error rk_error_consume
                    rk_take_run rk_take_symbol fast std_parse ro alpha f b r1) as Hrk2. unfold R, Rrk in Hrk2.
      destruct (parse_token ro alpha fast std_parse f b r1) as [[tok|e] r2]; cbn [fst snd] in *; [|exact I].
      apply (Hkk tok Ht); cbn [rd depth]; auto; congruence.
    - apply Hnone; cbn [rd depth]; auto; congruence.
  Qed.

  Lemma enter_at s D : depth s = D -> 1 <= D <= 128 ->
    (D = 1 /\ exists e, fst (enter_nesting s) = PErr e) \/
    (1 < D /\ enter_nesting s = (POk tt, {| rd := rd s; depth := D - 1 |})).
  Proof.
    intros Hd HD. destruct (enter_nesting_spec s ltac:(unfold depth_ok; lia)) as [[H1 (l & cl & E)]|[H1 E]].
    - left. split; [lia|]. rewrite E. eexists; reflexivity.
    - right. split; [lia|]. rewrite E, Hd. reflexivity.
  Qed.

  (* enter; attempt body; inc_depth; attempt end_seq; both; kk *)
  Lemma J_nest {A B} D (body : PM A) (endm : M unit) (kk : A -> PM B) p q :
    J (D - 1) body p -> sat Rrk endm -> (forall a, p a -> 1 < D -> J D (kk a) q) ->
    J D (pbind enter_nesting (fun _ => pbind (attempt body) (fun r => pbind inc_depth (fun _ =>
           pbind (attempt (liftR endm)) (fun e => pbind (both r e) kk))))) q.
  Proof.
    intros Hbody Hend Hkk s Hr Hd HD. rewrite pbind_unfold.
    destruct (enter_at s D Hd HD) as [[_ (e & E)]|[HD1 E]].
    - destruct (enter_nesting s) as [[u|e'] s1]; cbn [fst] in E; [discriminate|exact I].
    - rewrite E. set (s1 := {| rd := rd s; depth := D - 1 |}).
      rewrite pbind_unfold, attempt_unfold.
      specialize (Hbody s1 Hr eq_refl ltac:(lia)).
      destruct (body s1) as [[a|[e|pk]] s2]; try exact I.
      + destruct Hbody as (Hp & Hd2 & Hr2). rewrite pbind_unfold.
        rewrite (inc_depth_spec s2 ltac:(lia)). set (s3 := {| rd := rd s2; depth := depth s2 + 1 |}).
        rewrite pbind_unfold, attempt_unfold. unfold liftR at 1.
        pose proof (Hend (rd s3)) as Hrk. unfold R, Rrk in Hrk.
        destruct (endm (rd s3)) as [[u|e] r4]; cbn [fst snd] in *.
        * cbn [both]. rewrite pbind_unfold. cbn [pret]. subst s3 s1. cbn [rd depth] in *. apply (Hkk a Hp HD1); cbn [rd depth]; try lia; congruence.
        * destruct e; rewrite ?pbind_unfold; cbn [both pfail]; exact I.
      + destruct e; try exact I; rewrite pbind_unfold; destruct (inc_depth s2) as [[u|e'] s3]; try exact I;
          rewrite pbind_unfold, attempt_unfold; destruct (liftR endm s3) as [[u'|[e'|pk]] s4]; try exact I;
          try (destruct e'; rewrite ?pbind_unfold; cbn [both pfail]; exact I); rewrite pbind_unfold; cbn [both pfail]; exact I.
  Qed.

  Lemma J_nest_quote {A B} D (body : PM A) (kk : A -> PM B) p q :
    J (D - 1) body p -> (forall a, p a -> 1 < D -> J D (kk a) q) ->
    J D (pbind enter_nesting (fun _ => pbind (attempt body) (fun r => pbind inc_depth (fun _ => pbind (lift r) kk)))) q.
  Proof.
    intros Hbody Hkk s Hr Hd HD. rewrite pbind_unfold.
    destruct (enter_at s D Hd HD) as [[_ (e & E)]|[HD1 E]].
    - destruct (enter_nesting s) as [[u|e'] s1]; cbn [fst] in E; [discriminate|exact I].
    - rewrite E. set (s1 := {| rd := rd s; depth := D - 1 |}).
      rewrite pbind_unfold, attempt_unfold.
      specialize (Hbody s1 Hr eq_refl ltac:(lia)).
      destruct (body s1) as [[a|[e|pk]] s2]; try exact I.
      + destruct Hbody as (Hp & Hd2 & Hr2). rewrite pbind_unfold.
        rewrite (inc_depth_spec s2 ltac:(lia)). cbn [lift]. rewrite pbind_unfold. cbn [pret]. subst s1. cbn [rd depth] in *.
        apply (Hkk a Hp HD1); cbn [rd depth]; try lia; congruence.
      + destruct e; try exact I; rewrite pbind_unfold; destruct (inc_depth s2) as [[u|e'] s3]; try exact I;
          rewrite pbind_unfold; cbn [lift pfail]; exact I.
  Qed.

  Lemma rdepth_rest_le d : (rdepth_rest d <= rdepth d)%nat.
  Proof. destruct d; cbn [rdepth rdepth_rest]; lia. Qed.
  Lemma rdepth_le_rest d : (rdepth d <= S (rdepth_rest d))%nat.
  Proof. destruct d; cbn [rdepth rdepth_rest]; lia. Qed.

  Lemma build_ok D acc tail : Forall (vok D) acc -> rt_okf tail -> N.of_nat (rdepth_rest tail) < D ->
    rt_okf (build acc tail) /\ N.of_nat (rdepth_rest (build acc tail)) < D.
  Proof.
    induction 1 as [|x acc [Hx1 Hx2] Hacc IH]; intros Ht Hd; cbn [build]; [auto|].
    destruct (IH Ht Hd) as [H1 H2]. cbn [rt_okf rdepth_rest]. split; [auto|lia].
  Qed.

  Lemma vector_ok D els : 1 < D -> Forall (vok (D - 1)) els -> vok D (Vector els).
  Proof.
    intros HD H. split.
    - cbn [rt_okf]. induction H as [|x l [Hx _] _ IH]; auto.
    - cbn [rdepth]. assert (N.of_nat (list_max (map rdepth els)) < D - 1 \/ els = []).
      { induction H as [|x l [_ Hx] Hl IH]; [right; reflexivity|]. left. cbn [map list_max].
        destruct IH as [IH| ->]; cbn [map list_max]; lia. }
      destruct H0 as [H0| ->]; cbn [map list_max]; lia.
  Qed.

  Definition opt_vok (D : N) (o : option value) : Prop := match o with Some v => vok D v | None => True end.
  Definition list_post (D : N) (l : value) : Prop := rt_okf l /\ N.of_nat (rdepth_rest l) < D.

  Lemma atom_vok D v : 1 <= D -> rt_okf v -> rdepth v = 0%nat -> vok D v.
  Proof. intros HD H1 H2. split; [exact H1|]. rewrite H2. lia. Qed.

  Lemma dot_symbol_plain name : sym_post [46] name -> plain_symbol alpha name.
  Proof.
    intros Hp. pose proof (sym_post_ok _ _ Hp) as Hok. destruct Hp as [(scanned & E & Hn & _) _]. subst name. cbn [app].
    split; [constructor; [reflexivity|exact Hn]|]. split; [exact Hok|]. left. right. left. cbn. tauto.
  Qed.

  Theorem values_ok fuel :
    (forall D, J D (next_value fuel) (opt_vok D)) /\
    (forall D t acc, Forall (vok D) acc -> J D (parse_list fuel t acc) (list_post D)) /\
    (forall D t acc, Forall (vok D) acc -> J D (parse_vector fuel t acc) (Forall (vok D))).
  Proof.
    induction fuel as [|f (IHv & IHl & IHvec)].
    - split; [|split]; intros; cbn [Parser.next_value Parser.parse_list Parser.parse_vector]; apply J_fail.
    - split; [|split]; intros; cbn [Parser.next_value Parser.parse_list Parser.parse_vector].
      + apply J_assume; intros HD0. apply J_ws_token; [|apply J_ret; exact I]. intros tok Ht.
        destruct tok; cbn [tok_ok'] in Ht; try contradiction;
          try (apply J_ret; apply atom_vok; cbn [rt_okf rdepth]; auto; lia).
        * (* list *)
          apply (J_nest D _ _ _ (list_post (D - 1)) (opt_vok D)); [apply IHl; constructor|apply (sat_end_seq Rrk); rk_prim|].
          intros l [Hl1 Hl2] HD. apply J_ret. split; [exact Hl1|]. pose proof (rdepth_le_rest l). lia.
        * (* quotation *)
          apply (J_nest_quote D _ _ (opt_vok (D - 1)) (opt_vok D)); [apply IHv|].
          intros o Ho HD. destruct o as [d|]; [|apply J_err]. apply J_ret. destruct Ho as [Ho1 Ho2].
          split; [cbn [vlist build rt_okf]; auto|]. cbn [vlist build rdepth rdepth_rest]. lia.
        * (* vector *)
          apply (J_nest D _ _ _ (Forall (vok (D - 1))) (opt_vok D)); [apply IHvec; constructor|apply (sat_end_seq Rrk); rk_prim|].
          intros els Hels HD. apply J_ret. apply vector_ok; assumption.
        * (* byte vector *)
          apply (J_bind D _ _ octets_ok (opt_vok D)); [apply J_liftR; [apply (sat_parse_byte_list Rrk); rk_prim|apply ens_parse_byte_list]|].
          intros bs Hbs. apply J_ret. apply atom_vok; cbn [rt_okf rdepth]; auto; lia.
      + apply J_assume; intros HD0.
        apply (J_bind D _ _ (fun _ => True) (list_post D)); [apply J_liftR_any; apply (sat_parse_whitespace Rrk); rk_prim|].
        intros o _. destruct o as [c|]; [|apply J_err].
        destruct (is_closer c).
        { destruct (negb (c =? t)); [apply J_err|]. apply J_ret. apply (build_ok D acc Null H I); cbn [rdepth_rest]; lia. }
        destruct (c =? 46).
        { apply (J_bind D _ _ (fun _ => True) (list_post D));
            [apply J_liftR_any; apply (sat_bind Rrk Rrk_seq); [exact rk_eat|intros _; exact rk_peek]|].
          intros nx _. destruct (lone_dot nx).
          - destruct acc as [|x acc'].
            + apply (J_bind D _ _ (fun _ => True) (list_post D)); [apply J_liftR_any; exact rk_peek|]. intros o3 _. destruct o3; apply J_err.
            + apply (J_bind D _ _ (opt_vok D) (list_post D)); [apply IHv|]. intros ov Hov.
              destruct ov as [cdr|]; [|apply J_err].
              apply (J_bind D _ _ (fun _ => True) (list_post D)); [apply J_liftR_any; apply (sat_parse_whitespace Rrk); rk_prim|].
              intros o2 _. destruct o2 as [c2|]; [|apply J_err]. destruct (c2 =? t); [|apply J_err].
              destruct Hov as [Hc1 Hc2]. apply J_ret.
              apply (build_ok D (x :: acc') cdr H Hc1); pose proof (rdepth_rest_le cdr); lia.
          - apply (J_bind D _ _ (sym_post [46]) (list_post D));
              [apply J_liftR; [apply (sat_parse_symbol_suffix Rrk); rk_prim|apply ens_parse_symbol_rd_post; exact Hk]|].
            intros name Hn. apply IHl. apply Forall_snoc; [exact H|]. rewrite symbol_value_default.
            split; [cbn [rt_okf]; apply dot_symbol_plain; exact Hn|]. cbn [rdepth]. lia. }
        apply (J_bind D _ _ (opt_vok D) (list_post D)); [apply IHv|]. intros ov Hov.
        destruct ov as [v|]; [|apply J_err]. apply IHl. apply Forall_snoc; assumption.
      + apply (J_bind D _ _ (fun _ => True) (Forall (vok D))); [apply J_liftR_any; apply (sat_parse_whitespace Rrk); rk_prim|].
        intros o _. destruct o as [c|]; [|apply J_err].
        destruct (is_closer c). { destruct (negb (c =? t)); [apply J_err|]. apply J_ret. assumption. }
        apply (J_bind D _ _ (opt_vok D) (Forall (vok D))); [apply IHv|]. intros ov Hov.
        destruct ov as [v|]; [|apply J_err]. apply IHvec. apply Forall_snoc; assumption.
  Qed.
End ValuesOk.

Section AcceptedEntry.
  Variable alpha : N -> bool.
  Variable fast : bool.
  Variable std_parse : N -> Z -> f64.

  (* everything the default parser returns from byte-slice or stream input *)
  Theorem accepted_in_class k inp v : k <> SrcStr ->
    from_trait default_ro alpha fast std_parse k inp = POk v ->
    rt_okf alpha v /\ (rdepth v <= 127)%nat.
  Proof.
    intros Hk E. unfold from_trait in E. set (fuel := fuel_for inp) in *.
    assert (Hj : J k 128 (pbind (expect_value default_ro alpha fast std_parse fuel)
                               (fun v => pbind (expect_end_p fuel) (fun _ => pret v))) (vok alpha 128)).
    { apply (J_bind k 128 _ _ (vok alpha 128) (vok alpha 128)).
      - unfold expect_value. apply (J_bind k 128 _ _ (opt_vok alpha 128) (vok alpha 128)).
        + apply (proj1 (values_ok alpha fast std_parse k Hk fuel)).
        + intros o Ho. destruct o; [apply J_ret; exact Ho|apply J_err].
      - intros v0 Hv0. apply (J_bind k 128 _ _ (fun _ => True) (vok alpha 128)).
        + unfold expect_end_p. apply J_liftR_any. apply (sat_expect_end Rrk); rk_prim.
        + intros _ _. apply J_ret. exact Hv0. }
    specialize (Hj (init_state k inp) eq_refl eq_refl ltac:(lia)).
    destruct (pbind _ _ (init_state k inp)) as [[a|e] s']; cbn [fst] in E; [|discriminate].
    inversion E; subst a. destruct Hj as [[H1 H2] _]. split; [exact H1|lia].
  Qed.

  (* C13, default dialect: accepted, printed, read again: the same value, and the
     same text when printed again *)
  Theorem accepted_roundtrip ryu k k' inp v : k <> SrcStr ->
    from_trait default_ro alpha fast std_parse k inp = POk v -> float_free v ->
    from_trait default_ro alpha fast std_parse k' (bytes_events (print0 ryu v)) = POk v.
  Proof.
    intros Hk E Hf. destruct (accepted_in_class k inp v Hk E) as [H1 H2].
    rewrite TextProofs.print0_is_txt. apply roundtrip_from_trait; [|exact H2].
    apply (rt_okf_float_free alpha); assumption.
  Qed.
End AcceptedEntry.
