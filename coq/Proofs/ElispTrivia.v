(* C12 / C02, the Emacs Lisp dialect: whitespace and line comments at token
   boundaries do not change what is read (the layouts of TriviaProofs, with
   brackets for vectors and the documented folding at the leaves). *)
From Coq Require Import SpecFloat ZifyBool ZifyNat ZifyN.
Require Import Base Value Float PrintOptions Printer ParseOptions Utf8 Reader Scan Num NumberOps Parser Depth.
Require Import ReaderProofs ScanProofs TextProofs TokenProofs NumTokenProofs CharStrProofs DepthProofs RoundtripProofs TriviaProofs.
Require Import ElispText ElispTokens ElispStrings ElispRoundtrip.

(* the value a layout denotes under the Emacs Lisp options: leaves are folded *)
Fixpoint elval (l : lay) : value :=
  match l with
  | LAtom v => efold v
  | LSeq vec b => if vec then Vector (ebitems b) else build (ebitems b) (ebtail b)
  | LBytes _ os _ => Bytes (map snd os)
  end
with ebitems (b : body) : list value :=
  match b with BItem _ e b' => elval e :: ebitems b' | _ => [] end
with ebtail (b : body) : value :=
  match b with BEnd _ => Null | BDot _ _ t _ => elval t | BItem _ _ b' => ebtail b' end.

Section ElispTrivia.
  Variable ryu : f64 -> bytes.
  Variable alpha : N -> bool.
  Variable fast : bool.
  Variable std_parse : N -> Z -> f64.
  Local Notation ro := elisp_ro.
  Local Notation next_value := (next_value ro alpha fast std_parse).
  Local Notation parse_list := (parse_list ro alpha fast std_parse).
  Local Notation parse_vector := (parse_vector ro alpha fast std_parse).
  Local Notation txt := (etxt ryu).
  Local Notation rt_ok := ert_ok.
  Local Notation P := (ElispRoundtrip.P ryu alpha fast std_parse).
  Local Notation K := ElispRoundtrip.K.

  Definition closer (vec : bool) : N := if vec then 93 else 41.

  Fixpoint eltxt (l : lay) : bytes :=
    match l with
    | LAtom v => txt v
    | LSeq vec b => (if vec then [91] else [40]) ++ ebtxt b ++ [closer vec]
    | LBytes _ _ _ => []           (* the Emacs Lisp printer writes bytes as a unibyte string: no octet tokens *)
    end
  with ebtxt (b : body) : bytes :=
    match b with
    | BEnd cp => cp
    | BDot p1 p2 t cp => p1 ++ 46 :: p2 ++ eltxt t ++ cp
    | BItem p e b' => p ++ eltxt e ++ ebtxt b'
    end.

  (* well-formed layouts: trivia is trivia; an element that is not the first
     is separated from its predecessor (non-empty trivia, or it starts with an
     opening parenthesis); the dot stands alone; only lists have a dotted tail *)
  Fixpoint elok (l : lay) : Prop :=
    match l with
    | LAtom v => rt_ok v
    | LSeq vec b => ebok vec true b
    | LBytes _ _ _ => False
    end
  with ebok (vec first : bool) (b : body) {struct b} : Prop :=
    match b with
    | BEnd cp => trivia cp
    | BDot p1 p2 t cp => vec = false /\ first = false /\ trivia p1 /\ p1 <> [] /\ trivia p2 /\
                         delim_ok (p2 ++ eltxt t) /\ elok t /\ trivia cp
    | BItem p e b' => trivia p /\ (first = true \/ delim_ok (p ++ eltxt e)) /\ elok e /\ ebok vec false b'
    end.

  Definition EPL (l : lay) : Prop :=
    forall fuel r D pre rest, trivia pre -> elok l -> N.of_nat (ldepth l) < D -> D <= 128 ->
      (length pre + length (eltxt l) + K <= fuel)%nat -> at_bytes r (pre ++ eltxt l ++ rest) -> delim_ok rest ->
      exists r', next_value fuel (mkp r D) = (POk (Some (elval l)), mkp r' D) /\ at_bytes r' rest /\ rk r' = rk r.

  Definition EPB (b : body) : Prop :=
    forall vec first fuel r D acc rest, ebok vec first b -> N.of_nat (bdepth b) < D -> D <= 128 ->
      (length (ebtxt b) + 1 + K <= fuel)%nat -> at_bytes r (ebtxt b ++ closer vec :: rest) ->
      (first = false -> acc <> []) ->
      exists r', (if vec then parse_vector fuel 93 acc (mkp r D) = (POk (acc ++ ebitems b), mkp r' D)
                  else parse_list fuel 41 acc (mkp r D) = (POk (build (acc ++ ebitems b) (ebtail b)), mkp r' D)) /\
                 at_bytes r' (closer vec :: rest) /\ rk r' = rk r.

  Lemma closer_cases vec : closer vec = 41 \/ closer vec = 93.
  Proof. destruct vec; [right|left]; reflexivity. Qed.
  Lemma closer_starts vec : starts_datum (closer vec).
  Proof. destruct vec; split; try reflexivity; discriminate. Qed.
  Lemma closer_delim vec rest : delim_ok (closer vec :: rest).
  Proof. destruct vec; reflexivity. Qed.

  Lemma eltxt_head l : elok l ->
    exists b t, eltxt l = b :: t /\ starts_datum b /\ is_closer b = false /\ (b = 46 -> exists v, l = LAtom v).
  Proof.
    destruct l as [v|vec b|p0 os cp]; intros Hok; [| |contradiction].
    - destruct (ElispRoundtrip.txt_head ryu alpha std_parse v Hok) as (b & t & E & Hs & Hc & _).
      exists b, t. repeat split; auto; try apply Hs. intros _. eexists; reflexivity.
    - destruct vec; cbn [eltxt app].
      + exists 91, (ebtxt b ++ [closer true]). repeat split; try reflexivity; discriminate.
      + exists 40, (ebtxt b ++ [closer false]). repeat split; try reflexivity; discriminate.
  Qed.

  Lemma eltxt_nonempty l : elok l -> (1 <= length (eltxt l))%nat.
  Proof. intros H. destruct (eltxt_head l H) as (b & t & E & _). rewrite E. cbn [length]. lia. Qed.

  Lemma EPL_atom v : EPL (LAtom v).
  Proof.
    intros fuel r D pre rest Hpre Hok HD HD' Hf Ha Hr. cbn [elok ldepth eltxt elval] in *.
    exact (proj1 (ElispRoundtrip.next_value_reads_text ryu alpha fast std_parse v) fuel r D pre rest Hpre Hok HD HD' Hf Ha Hr).
  Qed.

  (* one element of a list body *)
  Lemma lelem_step e : EPL e -> forall f r D acc pre more, trivia pre -> elok e -> N.of_nat (ldepth e) < D -> D <= 128 ->
    (length pre + length (eltxt e) + K <= f)%nat -> at_bytes r (pre ++ eltxt e ++ more) -> delim_ok more ->
    exists r1, parse_list (S f) 41 acc (mkp r D) = parse_list f 41 (acc ++ [elval e]) (mkp r1 D) /\
               at_bytes r1 more /\ rk r1 = rk r.
  Proof.
    intros HP f r D acc pre more Hpre Hok HD HD' Hf Ha Hm.
    destruct e as [v|vec b|p0 os cp]; [| |contradiction].
    - exact (ElispRoundtrip.elem_step ryu alpha fast std_parse v
               (proj1 (ElispRoundtrip.next_value_reads_text ryu alpha fast std_parse v))
               f r D acc pre more Hpre Hok HD HD' Hf Ha Hm).
    - unfold ElispRoundtrip.K in Hf. destruct (eltxt_head (LSeq vec b) Hok) as (c & t & E & Hst & Hcl & H46).
      assert (E46 : (c =? 46) = false).
      { destruct (c =? 46) eqn:E46; [|reflexivity]. apply N.eqb_eq in E46. destruct (H46 E46) as [v Hv]. discriminate Hv. }
      pose proof Ha as Ha'. rewrite E in Ha'. cbn [app] in Ha'.
      rewrite ElispRoundtrip.parse_list_S.
      destruct (ElispRoundtrip.ws_pre alpha std_parse f r pre c (t ++ more) ltac:(lia) Hpre Ha' Hst) as (r0 & E0 & Ha0 & Hp0 & Hk0).
      rewrite (pbind_eq _ _ _ _ _ (liftR_ok _ r D _ _ E0)). rewrite Hcl, E46.
      change (c :: t ++ more) with ((c :: t) ++ more) in Ha0. rewrite <- E in Ha0.
      destruct (HP f r0 D [] more tv_nil Hok HD HD' ltac:(unfold ElispRoundtrip.K; cbn [length]; lia) Ha0 Hm) as (r1 & E1 & Ha1 & Hk1).
      rewrite (pbind_eq _ _ _ _ _ E1).
      exists r1. split; [reflexivity|]. split; [assumption|congruence].
  Qed.

  (* one element of a vector body *)
  Lemma lelem_step_vec e : EPL e -> forall f r D acc pre more, trivia pre -> elok e -> N.of_nat (ldepth e) < D -> D <= 128 ->
    (length pre + length (eltxt e) + K <= f)%nat -> at_bytes r (pre ++ eltxt e ++ more) -> delim_ok more ->
    exists r1, parse_vector (S f) 93 acc (mkp r D) = parse_vector f 93 (acc ++ [elval e]) (mkp r1 D) /\
               at_bytes r1 more /\ rk r1 = rk r.
  Proof.
    intros HP f r D acc pre more Hpre Hok HD HD' Hf Ha Hm. unfold ElispRoundtrip.K in Hf.
    destruct (eltxt_head e Hok) as (c & t & E & Hst & Hcl & _).
    pose proof Ha as Ha'. rewrite E in Ha'. cbn [app] in Ha'.
    rewrite ElispRoundtrip.parse_vector_S.
    destruct (ElispRoundtrip.ws_pre alpha std_parse f r pre c (t ++ more) ltac:(lia) Hpre Ha' Hst) as (r0 & E0 & Ha0 & Hp0 & Hk0).
    rewrite (pbind_eq _ _ _ _ _ (liftR_ok _ r D _ _ E0)). rewrite Hcl.
    change (c :: t ++ more) with ((c :: t) ++ more) in Ha0. rewrite <- E in Ha0.
    destruct (HP f r0 D [] more tv_nil Hok HD HD' ltac:(unfold ElispRoundtrip.K; cbn [length]; lia) Ha0 Hm) as (r1 & E1 & Ha1 & Hk1).
    rewrite (pbind_eq _ _ _ _ _ E1).
    exists r1. split; [reflexivity|]. split; [assumption|congruence].
  Qed.

  Lemma ebtxt_delim vec b rest : ebok vec false b -> delim_ok (ebtxt b ++ closer vec :: rest).
  Proof.
    destruct b as [cp|p1 p2 t cp|p e b']; cbn [ebok ebtxt].
    - intros Hcp. apply trivia_delim; [exact Hcp|apply closer_delim].
    - intros (_ & _ & Hp1 & Hne & _). rewrite <- app_assoc. apply delim_ok_app; [exact Hne|].
      destruct p1 as [|c p1']; [contradiction|].
      exact (trivia_delim (c :: p1') 41 [] Hp1 eq_refl).
    - intros (Hp & [Hf|Hd] & Hok & _); [discriminate|]. rewrite app_assoc, <- app_assoc.
      apply delim_ok_app; [|exact Hd].
      intros E. apply app_eq_nil in E. destruct E as [_ E]. pose proof (eltxt_nonempty e Hok) as Hl. rewrite E in Hl. cbn in Hl. lia.
  Qed.

  Lemma EPB_end cp : EPB (BEnd cp).
  Proof.
    intros vec first fuel r D acc rest Hok _ _ Hf Ha _. destruct fuel as [|f]; [unfold ElispRoundtrip.K in Hf; lia|].
    unfold ElispRoundtrip.K in Hf. cbn [ebok ebtxt ebitems ebtail] in *. rewrite app_nil_r.
    destruct (ws_trivia cp Hok f r (closer vec) rest ltac:(lia) Ha (closer_starts vec)) as (r0 & E0 & Ha0 & Hp0 & Hk0).
    destruct vec; cbn [closer] in *.
    - rewrite ElispRoundtrip.parse_vector_S. rewrite (pbind_eq _ _ _ _ _ (liftR_ok _ r D _ _ E0)).
      change (is_closer 93) with true. change (negb (93 =? 93)) with false. cbv iota.
      exists r0. split; [reflexivity|]. auto.
    - rewrite ElispRoundtrip.parse_list_S. rewrite (pbind_eq _ _ _ _ _ (liftR_ok _ r D _ _ E0)).
      change (is_closer 41) with true. change (negb (41 =? 41)) with false. cbv iota.
      exists r0. split; [reflexivity|]. auto.
  Qed.

  Lemma EPB_item p e b : EPL e -> EPB b -> EPB (BItem p e b).
  Proof.
    intros HPe HPb vec first fuel r D acc rest Hok HD HD' Hf Ha _.
    destruct fuel as [|f]; [unfold ElispRoundtrip.K in Hf; lia|]. unfold ElispRoundtrip.K in Hf.
    cbn [ebok ebtxt ebitems ebtail bdepth] in *. destruct Hok as (Hp & _ & Hoke & Hokb).
    rewrite <- !app_assoc in Ha. rewrite !app_length in Hf.
    pose proof (eltxt_nonempty e Hoke) as Hlen.
    assert (Hacc : false = false -> acc ++ [elval e] <> []) by (intros _; destruct acc; discriminate).
    destruct vec.
    - destruct (lelem_step_vec e HPe f r D acc p (ebtxt b ++ closer true :: rest) Hp Hoke ltac:(lia) HD'
                  ltac:(unfold ElispRoundtrip.K; lia) Ha (ebtxt_delim true b rest Hokb)) as (r1 & E1 & Ha1 & Hk1).
      rewrite E1.
      destruct (HPb true false f r1 D (acc ++ [elval e]) rest Hokb ltac:(lia) HD' ltac:(unfold ElispRoundtrip.K; lia) Ha1 Hacc)
        as (r2 & E2 & Ha2 & Hk2).
      exists r2. rewrite E2, <- app_assoc. split; [reflexivity|]. split; [assumption|congruence].
    - destruct (lelem_step e HPe f r D acc p (ebtxt b ++ closer false :: rest) Hp Hoke ltac:(lia) HD'
                  ltac:(unfold ElispRoundtrip.K; lia) Ha (ebtxt_delim false b rest Hokb)) as (r1 & E1 & Ha1 & Hk1).
      rewrite E1.
      destruct (HPb false false f r1 D (acc ++ [elval e]) rest Hokb ltac:(lia) HD' ltac:(unfold ElispRoundtrip.K; lia) Ha1 Hacc)
        as (r2 & E2 & Ha2 & Hk2).
      exists r2. rewrite E2, <- app_assoc. split; [reflexivity|]. split; [assumption|congruence].
  Qed.

  Lemma EPB_dot p1 p2 t cp : EPL t -> EPB (BDot p1 p2 t cp).
  Proof.
    intros HPt vec first fuel r D acc rest Hok HD HD' Hf Ha Hacc.
    destruct fuel as [|f]; [unfold ElispRoundtrip.K in Hf; lia|]. unfold ElispRoundtrip.K in Hf.
    cbn [ebok ebtxt ebitems ebtail bdepth] in *.
    destruct Hok as (-> & -> & Hp1 & Hne & Hp2 & Hd2 & Hokt & Hcp). cbn [closer] in *.
    rewrite app_nil_r. rewrite !app_length in Hf. cbn [length] in Hf. rewrite !app_length in Hf.
    rewrite <- !app_assoc in Ha. cbn [app] in Ha. rewrite <- !app_assoc in Ha.
    rewrite ElispRoundtrip.parse_list_S.
    destruct (ws_trivia p1 Hp1 f r 46 _ ltac:(lia) Ha ltac:(split; [reflexivity|discriminate])) as (r0 & E0 & Ha0 & Hp0 & Hk0).
    rewrite (pbind_eq _ _ _ _ _ (liftR_ok _ r D _ _ E0)).
    change (is_closer 46) with false. change (46 =? 46) with true. cbv iota.
    destruct (m_eat r0 46 _ Ha0 Hp0) as (r1 & E1 & Ha1 & Hk1).
    pose proof (eltxt_nonempty t Hokt) as Hlt.
    assert (Hnx : exists nx l, p2 ++ eltxt t ++ cp ++ 41 :: rest = nx :: l /\ is_symbol_terminator nx = true).
    { destruct (p2 ++ eltxt t) as [|nx l] eqn:El.
      - apply app_eq_nil in El. destruct El as [_ El]. rewrite El in Hlt. cbn in Hlt. lia.
      - exists nx, (l ++ cp ++ 41 :: rest). split; [|exact Hd2].
        rewrite (app_assoc p2), El. reflexivity. }
    destruct Hnx as (nx & l & El & Hterm).
    pose proof Ha1 as Ha1'. rewrite El in Ha1'.
    destruct (m_peek_cons r1 nx _ Ha1') as (r2 & E2 & Ha2 & Hp2' & Hk2).
    assert (E12 : (eat_char ;;; peek) r0 = (Ok (Some nx), r2)) by (rewrite (bind_ok _ _ _ _ _ E1); exact E2).
    rewrite (pbind_eq _ _ _ _ _ (liftR_ok _ r0 D _ _ E12)).
    cbn [lone_dot]. rewrite Hterm.
    destruct acc as [|x acc]; [exfalso; apply (Hacc eq_refl); reflexivity|].
    rewrite <- El in Ha2.
    destruct (HPt f r2 D p2 (cp ++ 41 :: rest) Hp2 Hokt HD HD' ltac:(unfold ElispRoundtrip.K; lia) Ha2
                (trivia_delim cp 41 rest Hcp eq_refl)) as (r3 & E3 & Ha3 & Hk3).
    rewrite (pbind_eq _ _ _ _ _ E3).
    destruct (ws_trivia cp Hcp f r3 41 rest ltac:(lia) Ha3 close_starts_datum) as (r4 & E4 & Ha4 & Hp4 & Hk4).
    rewrite (pbind_eq _ _ _ _ _ (liftR_ok _ r3 D _ _ E4)). change (41 =? 41) with true. cbv iota.
    exists r4. split; [reflexivity|]. split; [assumption|congruence].
  Qed.

  Lemma EPL_seq vec b : EPB b -> EPL (LSeq vec b).
  Proof.
    intros HPb fuel r D pre rest Hpre Hok HD HD' Hf Ha Hr.
    destruct fuel as [|f]; [unfold ElispRoundtrip.K in Hf; lia|]. unfold ElispRoundtrip.K in Hf.
    cbn [elok ldepth eltxt elval] in *.
    destruct vec; cbn [app length closer] in Ha, Hf; rewrite app_length in Hf; cbn [length] in Hf.
    - destruct (ElispRoundtrip.next_value_at alpha fast std_parse f r D pre 91 _ ltac:(lia) Hpre Ha
                  ltac:(split; [reflexivity|discriminate])) as (r0 & Ha0 & Hp0 & Hk0 & Hnv).
      destruct (etok_vecopen alpha fast std_parse f r0 _ Ha0 Hp0) as (r1 & E1 & Ha1 & Hk1).
      rewrite (Hnv _ _ E1). cbn [ElispRoundtrip.after_token].
      rewrite (pbind_eq _ _ _ _ _ (enter_ok r1 D ltac:(lia))).
      rewrite <- app_assoc in Ha1. cbn [app] in Ha1.
      destruct (HPb true true f r1 (D - 1) [] rest Hok ltac:(lia) ltac:(lia) ltac:(unfold ElispRoundtrip.K; lia) Ha1 ltac:(discriminate))
        as (r2 & E2 & Ha2 & Hk2).
      rewrite (pbind_eq _ _ _ _ _ (attempt_ok _ _ _ _ E2)).
      rewrite (pbind_eq _ _ _ _ _ (inc_ok r2 (D - 1) ltac:(lia))).
      replace (D - 1 + 1) with D by lia.
      destruct (ElispRoundtrip.end_seq_closer f r2 93 rest ltac:(lia) (or_intror eq_refl) Ha2) as (r3 & E3 & Ha3 & Hk3).
      rewrite (pbind_eq _ _ _ _ _ (attempt_ok _ _ _ _ (liftR_ok _ r2 D _ _ E3))).
      cbn [both app]. unfold pbind, pret.
      exists r3. split; [reflexivity|]. split; [assumption|congruence].
    - destruct (ElispRoundtrip.next_value_at alpha fast std_parse f r D pre 40 _ ltac:(lia) Hpre Ha
                  ltac:(split; [reflexivity|discriminate])) as (r0 & Ha0 & Hp0 & Hk0 & Hnv).
      destruct (etok_listopen alpha fast std_parse f r0 _ Ha0 Hp0) as (r1 & E1 & Ha1 & Hk1).
      rewrite (Hnv _ _ E1). cbn [ElispRoundtrip.after_token].
      rewrite (pbind_eq _ _ _ _ _ (enter_ok r1 D ltac:(lia))).
      rewrite <- app_assoc in Ha1. cbn [app] in Ha1.
      destruct (HPb false true f r1 (D - 1) [] rest Hok ltac:(lia) ltac:(lia) ltac:(unfold ElispRoundtrip.K; lia) Ha1 ltac:(discriminate))
        as (r2 & E2 & Ha2 & Hk2).
      rewrite (pbind_eq _ _ _ _ _ (attempt_ok _ _ _ _ E2)).
      rewrite (pbind_eq _ _ _ _ _ (inc_ok r2 (D - 1) ltac:(lia))).
      replace (D - 1 + 1) with D by lia.
      destruct (ElispRoundtrip.end_seq_closer f r2 41 rest ltac:(lia) (or_introl eq_refl) Ha2) as (r3 & E3 & Ha3 & Hk3).
      rewrite (pbind_eq _ _ _ _ _ (attempt_ok _ _ _ _ (liftR_ok _ r2 D _ _ E3))).
      cbn [both build app]. unfold pbind, pret.
      exists r3. split; [reflexivity|]. split; [assumption|congruence].
  Qed.

  Theorem elisp_reads_layout : (forall l, EPL l) /\ (forall b, EPB b).
  Proof.
    apply lay_body_ind.
    - apply EPL_atom.
    - intros vec b Hb. apply EPL_seq. exact Hb.
    - intros p0 os cp fuel r D pre rest Hpre Hok. contradiction.
    - apply EPB_end.
    - intros p1 p2 t Ht cp. apply EPB_dot. exact Ht.
    - intros p e He b Hb. apply EPB_item; assumption.
  Qed.

  Lemma etrivia_eof_delim t : trivia_eof t -> delim_ok t.
  Proof.
    intros [t' Ht|t' body Ht Hb].
    - destruct t' as [|c t'']; [exact I|]. exact (trivia_delim (c :: t'') 41 [] Ht eq_refl).
    - exact (trivia_delim t' 59 body Ht eq_refl).
  Qed.

  (* the whole entry point on a layout with trivia before and after *)
  Theorem elisp_layout_from_trait k l pre post : trivia pre -> trivia_eof post -> elok l -> (ldepth l <= 127)%nat ->
    from_trait ro alpha fast std_parse k (bytes_events (pre ++ eltxt l ++ post)) = POk (elval l).
  Proof.
    intros Hpre Hpost Hok Hd. unfold from_trait. set (inp := bytes_events (pre ++ eltxt l ++ post)). set (fuel := fuel_for inp).
    assert (Hlen : length inp = (length pre + length (eltxt l) + length post)%nat).
    { unfold inp, bytes_events. rewrite map_length, !app_length. lia. }
    assert (Hfuel : (length pre + length (eltxt l) + K <= fuel)%nat) by (unfold fuel, fuel_for, ElispRoundtrip.K; lia).
    assert (Ha : at_bytes (mk_reader k inp) (pre ++ eltxt l ++ post)) by reflexivity.
    destruct (proj1 elisp_reads_layout l fuel (mk_reader k inp) initial_depth pre post Hpre Hok
                ltac:(unfold initial_depth; lia) ltac:(unfold initial_depth; lia) Hfuel Ha (etrivia_eof_delim post Hpost))
      as (r' & E & Ha' & Hk').
    change (init_state k inp) with (mkp (mk_reader k inp) initial_depth).
    unfold expect_value. rewrite (pbind_eq _ _ _ _ _ (pbind_eq _ _ _ _ _ E)).
    unfold pret at 1. unfold expect_end_p, expect_end.
    destruct (ws_trivia_end post Hpost fuel r' ltac:(unfold fuel, fuel_for; lia) Ha') as (r2 & E2 & Ha2 & _).
    assert (E3 : (o <- parse_whitespace fuel ;; match o with Some _ => peek_error TrailingCharacters | None => ret tt end) r' = (Ok tt, r2))
      by (rewrite (bind_ok _ _ _ _ _ E2); reflexivity).
    rewrite (pbind_eq _ _ _ _ _ (liftR_ok _ r' initial_depth _ _ E3)). reflexivity.
  Qed.

  (* ---- several layouts, each after its own trivia, then trailing trivia ---- *)
  Fixpoint seq_eltxt (ls : list (bytes * lay)) (post : bytes) : bytes :=
    match ls with [] => post | (p, l) :: ls' => p ++ eltxt l ++ seq_eltxt ls' post end.

  (* every item is well formed and, except possibly the first, set off from what precedes it *)
  Fixpoint eseq_ok (first : bool) (D : N) (ls : list (bytes * lay)) : Prop :=
    match ls with
    | [] => True
    | (p, l) :: ls' => trivia p /\ (first = true \/ delim_ok (p ++ eltxt l)) /\ elok l /\ N.of_nat (ldepth l) < D /\
                       eseq_ok false D ls'
    end.

  Lemma seq_eltxt_delim D ls post : eseq_ok false D ls -> trivia_eof post -> delim_ok (seq_eltxt ls post).
  Proof.
    destruct ls as [|[p l] ls']; cbn [seq_eltxt eseq_ok].
    - intros _ Hpost. apply etrivia_eof_delim. exact Hpost.
    - intros (_ & [Hf|Hd] & Hok & _) _; [discriminate|]. rewrite app_assoc. apply delim_ok_app; [|exact Hd].
      intros E. apply app_eq_nil in E. destruct E as [_ E]. pose proof (eltxt_nonempty l Hok) as Hl. rewrite E in Hl. cbn in Hl. lia.
  Qed.

  Theorem elisp_iterate_layouts ls : forall first post fuel n r D, eseq_ok first D ls -> trivia_eof post -> D <= 128 ->
    (length (seq_eltxt ls post) + K + 2 <= fuel)%nat -> (length ls < n)%nat -> at_bytes r (seq_eltxt ls post) ->
    iterate_values ro alpha fast std_parse fuel n (mkp r D) = map (fun pl => POk (elval (snd pl))) ls.
  Proof.
    induction ls as [|[p l] ls IH]; intros first post fuel n r D Hall Hpost HD Hf Hn Ha;
      (destruct n as [|n]; [cbn in Hn; lia|]); cbn [iterate_values seq_eltxt] in *.
    - destruct fuel as [|f]; [unfold ElispRoundtrip.K in Hf; lia|]. rewrite next_value_S.
      destruct (ws_trivia_end post Hpost f r ltac:(unfold ElispRoundtrip.K in Hf; lia) Ha) as (r1 & E1 & _).
      rewrite (pbind_eq _ _ _ _ _ (liftR_ok _ r D _ _ E1)). reflexivity.
    - cbn [eseq_ok] in Hall. destruct Hall as (Hp & _ & Hok & Hd & Hall'). rewrite !app_length in Hf.
      destruct (proj1 elisp_reads_layout l fuel r D p (seq_eltxt ls post) Hp Hok Hd HD ltac:(lia) Ha
                  (seq_eltxt_delim D ls post Hall' Hpost)) as (r1 & E1 & Ha1 & _).
      rewrite E1. cbn [map snd]. f_equal. apply (IH false post); auto; try lia. cbn [length] in Hn. lia.
  Qed.

  (* trivia carries no information: two layouts of the same value read alike *)
  Corollary elisp_same_value_same_result k l1 l2 pre1 post1 pre2 post2 :
    trivia pre1 -> trivia_eof post1 -> elok l1 -> (ldepth l1 <= 127)%nat ->
    trivia pre2 -> trivia_eof post2 -> elok l2 -> (ldepth l2 <= 127)%nat -> elval l1 = elval l2 ->
    from_trait ro alpha fast std_parse k (bytes_events (pre1 ++ eltxt l1 ++ post1)) =
    from_trait ro alpha fast std_parse k (bytes_events (pre2 ++ eltxt l2 ++ post2)).
  Proof.
    intros H1 H2 H3 H4 H5 H6 H7 H8 E. rewrite (elisp_layout_from_trait k l1 pre1 post1), (elisp_layout_from_trait k l2 pre2 post2); auto.
    now rewrite E.
  Qed.

End ElispTrivia.
