(* C11: for a quote shorthand the head's span covers just the shorthand
   characters. Whenever the datum parser finds, after trivia, one of ' ` , on
   the input, the datum it returns is the quotation built by Datum::quotation
   and the span of its head - the symbol quote / quasiquote / unquote /
   unquote-splicing - starts where the shorthand starts and ends right after
   its one or two characters (two for ,@), for every option set, source and
   whatever is quoted. *)
From Coq Require Import SpecFloat Lia ZifyBool ZifyNat ZifyN.
Require Import Base Value Float PrintOptions ParseOptions Utf8 Reader Scan Num NumberOps Parser.
Require Import RelFramework PositionProofs SpanProofs FuelProofs.

Definition qtext (name : bytes) : bytes :=
  if beq_bytes name (s2b "quote") then [39]
  else if beq_bytes name (s2b "quasiquote") then [96]
  else if beq_bytes name (s2b "unquote") then [44]
  else [44; 64].

Section QuoteSpan.
  Variable ro : parse_options.
  Variable alpha : N -> bool.
  Variable fast : bool.
  Variable std_parse : N -> Z -> f64.
  Local Notation ptok := (parse_token ro alpha fast std_parse).
  Local Notation nd := (next_datum ro alpha fast std_parse).

  Lemma discard_position b r : at_byte b r -> r_position (r_discard r) = advance (rline r) (rcol r) b.
  Proof.
    intros [Hp [l Hl]]. unfold r_discard. rewrite Hp, Hl. unfold r_position, consume.
    destruct (rk r); destruct (advance (rline r) (rcol r) b); reflexivity.
  Qed.

  Lemma peek_position_same r x r1 : r_peek r = (x, r1) -> r_position r1 = r_position r.
  Proof.
    unfold r_peek. destruct (rpending r).
    - destruct (rinput r) as [|[c| |y] l]; intros E; inversion E; reflexivity.
    - destruct (skip_intr (rinput r)) as [|[c| |y] l]; intros E; inversion E; reflexivity.
  Qed.

  (* the token a quote character starts, and where the reader stands afterwards *)
  Lemma quote_token f b r tok r' : at_byte b r -> b = 39 \/ b = 96 \/ b = 44 -> ptok f b r = (Ok tok, r') ->
    exists name, tok = TQuotation name /\ hd 0 (qtext name) = b /\ r_position r' = pos_from (r_position r) (qtext name).
  Proof.
    intros Hb Hq. pose proof (discard_position b r Hb) as Hd. destruct Hq as [->|[->| ->]].
    - intros E. change (ptok f 39 r) with (Ok (TQuotation (s2b "quote")), r_discard r) in E. inversion E; subst.
      exists (s2b "quote"). split; [reflexivity|]. split; [reflexivity|]. exact Hd.
    - intros E. change (ptok f 96 r) with (Ok (TQuotation (s2b "quasiquote")), r_discard r) in E. inversion E; subst.
      exists (s2b "quasiquote"). split; [reflexivity|]. split; [reflexivity|]. exact Hd.
    - unfold Parser.parse_token. cbn - [peek_or_null]. unfold bind at 1. unfold eat_char. cbn [fst snd]. unfold bind at 1.
      pose proof (peek_cases (r_discard r)) as Hc. unfold peek_or_null, bind, peek, ret.
      destruct (r_peek (r_discard r)) as [[[nx|]|e] r1] eqn:Ep; [| |discriminate].
      + pose proof (peek_position_same _ _ _ Ep) as Hpos. destruct (nx =? 64) eqn:E64.
        * apply N.eqb_eq in E64. subst nx. destruct Hc as [Hb1 _]. unfold bind, eat_char. cbn [fst snd]. intros E. inversion E; subst.
          exists (s2b "unquote-splicing"). split; [reflexivity|]. split; [reflexivity|].
          rewrite (discard_position 64 r1 Hb1). change (qtext (s2b "unquote-splicing")) with [44; 64].
          unfold pos_from, adv. cbn [fold_left]. change (fst (r_position r)) with (rline r). change (snd (r_position r)) with (rcol r).
          rewrite <- Hd, <- Hpos. unfold r_position. cbn [fst snd]. reflexivity.
        * intros E. inversion E; subst. exists (s2b "unquote"). split; [reflexivity|]. split; [reflexivity|]. rewrite Hpos. exact Hd.
      + pose proof (peek_position_same _ _ _ Ep) as Hpos. change (0 =? 64) with false. cbv iota. intros E. inversion E; subst.
        exists (s2b "unquote"). split; [reflexivity|]. split; [reflexivity|]. rewrite Hpos. exact Hd.
  Qed.

  (* the datum returned for a quote shorthand: Datum::quotation with the head's span over just the shorthand *)
  Theorem quote_head_span f s b r1 dd s' : parse_whitespace f (rd s) = (Ok (Some b), r1) -> b = 39 \/ b = 96 \/ b = 44 ->
    nd (S f) s = (POk (Some dd), s') ->
    exists name quoted, dd = quotation_datum name quoted (mk_span (r_position r1) (pos_from (r_position r1) (qtext name))) /\ hd 0 (qtext name) = b.
  Proof.
    intros Ew Hq. cbn [Parser.next_datum]. rewrite pbind_unfold. unfold liftR at 1. rewrite Ew.
    pose proof (ws_at_byte f (rd s)) as Hb. rewrite Ew in Hb.
    rewrite pbind_unfold. unfold liftR at 1, position. cbn [rd depth fst snd].
    rewrite pbind_unfold. unfold liftR at 1. cbn [rd depth].
    destruct (ptok f b r1) as [[tok|e] r2] eqn:Et; [|discriminate].
    destruct (quote_token f b r1 tok r2 Hb Hq Et) as (name & -> & Hh & Hpos). cbv zeta.
    rewrite pbind_unfold. unfold liftR at 1, position. cbn [rd depth fst snd]. rewrite Hpos.
    intros E. revert E. rewrite pbind_unfold.
    destruct (enter_nesting _) as [[u|e] s2]; [|discriminate]. rewrite pbind_unfold.
    destruct (attempt _ s2) as [[rr|e] s3]; [|discriminate]. rewrite pbind_unfold.
    destruct (inc_depth s3) as [[u2|e] s4]; [|discriminate]. rewrite pbind_unfold.
    destruct rr as [o|e]; cbn [lift pret pfail]; [|discriminate].
    destruct o as [quoted|]; [|unfold liftR, peek_error; destruct (r_peek_position (rd s4)); discriminate].
    unfold pret. intros E. inversion E; subst. exists name, quoted. split; [reflexivity|first [exact Hh|reflexivity]].
  Qed.
End QuoteSpan.
