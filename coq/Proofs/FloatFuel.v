(* The one loop of the model whose bound is a fact about binary64 arithmetic:
   f64_from_parts (feature fast-float-parsing) divides by 1e308 until the
   decimal exponent fits the POW10 table or the value has become zero. A
   significand is at most 2^64 - 1, so the second division already yields zero:
   at most three iterations, whatever the exponent. (The Rust loop has no fuel;
   this is its termination argument.) *)
From Coq Require Import ZArith Reals Lia Lra SpecFloat.
From Flocq Require Import Core BinarySingleNaN.
Require Import Base Value Float PrintOptions ParseOptions Reader Scan Num Parser ClingerProofs DepthProofs FuelProofs.

Local Open Scope Z_scope.
Local Existing Instance Hprec.
Local Existing Instance Hmax.
Local Notation bfloat := (binary_float p53 e1024).
Local Notation fexp64 := (SpecFloat.fexp p53 e1024).
Local Notation rnd64 := (round radix2 fexp64 ZnearestE).

Definition P308 : bfloat := bnorm (10 ^ 308).

Lemma valid64 : Valid_exp fexp64.
Proof. apply FLT_exp_valid. reflexivity. Qed.
Local Existing Instance valid64.

Lemma fmt_bpow k : -1074 <= k -> generic_format radix2 fexp64 (bpow radix2 k).
Proof. intros Hk. apply generic_format_bpow. rewrite fexp64_FLT. unfold FLT_exp. lia. Qed.

(* 1e308 as a double is at least 2^1023 *)
Lemma P308_big : (bpow radix2 1023 <= B2R P308)%R /\ is_finite P308 = true.
Proof.
  assert (E : B2SF P308 = f64_of_Z (10 ^ 308)) by (symmetry; apply f64_of_Z_B).
  assert (Ev : f64_of_Z (10 ^ 308) = S754_finite false 5010420900022432 971) by (vm_compute; reflexivity).
  rewrite Ev in E. split.
  - rewrite <- SF2R_B2SF, E. unfold SF2R, F2R. simpl Fnum. simpl Fexp. simpl cond_Zopp.
    change 1023 with (52 + 971). rewrite bpow_plus. apply Rmult_le_compat_r; [apply bpow_ge_0|].
    change (bpow radix2 52) with (IZR (2 ^ 52)). apply IZR_le. vm_compute. discriminate.
  - destruct P308; try discriminate E; reflexivity.
Qed.

(* a u64 as a double lies in [0, 2^64] *)
Lemma sig_bounds (sig : N) : (sig <= u64_MAX)%N ->
  (0 <= B2R (bnorm (Z.of_N sig)) <= bpow radix2 64)%R /\ is_finite (bnorm (Z.of_N sig)) = true.
Proof.
  intros Hs. unfold bnorm.
  pose proof (binary_normalize_correct p53 e1024 Hprec Hmax mode_NE (Z.of_N sig) 0 false) as H. cbv zeta in H.
  change (round_mode mode_NE) with ZnearestE in H.
  assert (Hx : F2R (Defs.Float radix2 (Z.of_N sig) 0) = IZR (Z.of_N sig)) by (unfold F2R; simpl; ring).
  rewrite Hx in H.
  assert (H0 : (0 <= IZR (Z.of_N sig))%R) by (apply IZR_le; lia).
  assert (H64 : (IZR (Z.of_N sig) <= bpow radix2 64)%R).
  { change (bpow radix2 64) with (IZR (2 ^ 64)). apply IZR_le. unfold u64_MAX in Hs. lia. }
  assert (Hr0 : (0 <= rnd64 (IZR (Z.of_N sig)))%R).
  { rewrite <- (round_0 radix2 fexp64 ZnearestE). apply round_le; [exact valid64|apply valid_rnd_N|exact H0]. }
  assert (Hr64 : (rnd64 (IZR (Z.of_N sig)) <= bpow radix2 64)%R).
  { apply round_le_generic; [exact valid64|apply valid_rnd_N|apply fmt_bpow; lia|exact H64]. }
  rewrite Rlt_bool_true in H.
  - destruct H as (H1 & H2 & _). rewrite H1. auto.
  - rewrite Rabs_pos_eq by exact Hr0. apply Rle_lt_trans with (bpow radix2 64); [exact Hr64|apply bpow_lt; reflexivity].
Qed.

(* dividing a finite double in [0, 2^k] by 1e308 gives one in [0, 2^(k-1023)], or zero *)
Lemma div_P308 (x : bfloat) k : is_finite x = true -> (0 <= B2R x <= bpow radix2 k)%R -> k < 2000 ->
  is_finite (Bdiv mode_NE x P308) = true /\
  (0 <= B2R (Bdiv mode_NE x P308) <= rnd64 (bpow radix2 (k - 1023)))%R.
Proof.
  intros Hf [Hx0 Hxk] Hk. destruct P308_big as [HP HPf].
  assert (HPpos : (0 < B2R P308)%R) by (apply Rlt_le_trans with (bpow radix2 1023); [apply bpow_gt_0|exact HP]).
  pose proof (Bdiv_correct p53 e1024 Hprec Hmax mode_NE x P308 ltac:(lra)) as H.
  change (round_mode mode_NE) with ZnearestE in H.
  assert (Hq0 : (0 <= B2R x / B2R P308)%R) by (apply Rmult_le_pos; [exact Hx0|apply Rlt_le, Rinv_0_lt_compat; exact HPpos]).
  assert (Hqk : (B2R x / B2R P308 <= bpow radix2 (k - 1023))%R).
  { unfold Zminus. rewrite bpow_plus, bpow_opp. unfold Rdiv. apply Rmult_le_compat; try lra.
    - apply Rlt_le, Rinv_0_lt_compat; exact HPpos.
    - apply Rinv_le; [apply bpow_gt_0|exact HP]. }
  assert (Hr0 : (0 <= rnd64 (B2R x / B2R P308))%R).
  { rewrite <- (round_0 radix2 fexp64 ZnearestE). apply round_le; [exact valid64|apply valid_rnd_N|exact Hq0]. }
  assert (Hrk : (rnd64 (B2R x / B2R P308) <= rnd64 (bpow radix2 (k - 1023)))%R).
  { apply round_le; [exact valid64|apply valid_rnd_N|exact Hqk]. }
  assert (Hrk' : (rnd64 (bpow radix2 (k - 1023)) <= bpow radix2 1000)%R).
  { apply round_le_generic; [exact valid64|apply valid_rnd_N|apply fmt_bpow; lia|apply bpow_le; lia]. }
  rewrite Rlt_bool_true in H.
  - destruct H as (H1 & H2 & _). rewrite H1, H2. auto.
  - rewrite Rabs_pos_eq by exact Hr0. apply Rle_lt_trans with (bpow radix2 1000); [lra|apply bpow_lt; reflexivity].
Qed.

Lemma round_tiny k : k < -1075 -> rnd64 (bpow radix2 k) = 0%R.
Proof.
  intros Hk. apply (round_N_small radix2 fexp64 (fun x => negb (Z.even x)) (bpow radix2 k) (k + 1)).
  - rewrite Rabs_pos_eq by apply bpow_ge_0. split; [apply bpow_le; lia|apply bpow_lt; lia].
  - rewrite fexp64_FLT. unfold FLT_exp. lia.
Qed.

Lemma finite_zero (x : bfloat) : is_finite x = true -> B2R x = 0%R -> exists s, B2SF x = S754_zero s.
Proof.
  destruct x as [s|s| |s m e Hb]; try discriminate; intros _ H.
  - exists s. reflexivity.
  - exfalso. simpl in H. unfold F2R in H. simpl in H.
    assert (Hm : (IZR (cond_Zopp s (Zpos m)) <> 0)%R) by (apply IZR_neq; destruct s; simpl; lia).
    pose proof (bpow_gt_0 radix2 e). apply Rmult_integral in H. destruct H; [contradiction|lra].
Qed.

(* two divisions by 1e308 turn any u64 into zero *)
Theorem two_divisions_zero (sig : N) : (sig <= u64_MAX)%N ->
  f64_eqb (f64_div (f64_div (f64_of_N sig) (pow10_f64 308)) (pow10_f64 308)) (S754_zero false) = true.
Proof.
  intros Hs. unfold f64_div, f64_of_N, pow10_f64. rewrite !f64_of_Z_B.
  change Value.prec with p53. change Value.emax with e1024. change (Z.of_N 308) with 308.
  fold P308. rewrite (SFdiv_B (bnorm (Z.of_N sig)) P308). rewrite SFdiv_B.
  destruct (sig_bounds sig Hs) as [Hb Hf].
  destruct (div_P308 _ 64 Hf Hb ltac:(lia)) as [Hf1 [H10 H1k]].
  assert (H1k' : (B2R (Bdiv mode_NE (bnorm (Z.of_N sig)) P308) <= bpow radix2 (-959))%R).
  { eapply Rle_trans; [exact H1k|]. apply round_le_generic; [exact valid64|apply valid_rnd_N|apply fmt_bpow; lia|apply Rle_refl]. }
  destruct (div_P308 _ (-959) Hf1 (conj H10 H1k') ltac:(lia)) as [Hf2 [H20 H2k]].
  rewrite round_tiny in H2k by lia.
  destruct (finite_zero _ Hf2 ltac:(lra)) as [s Es]. rewrite Es. destruct s; reflexivity.
Qed.

(* the scaling loop never needs more than three iterations *)
Lemma fast_loop_no_fuel (f : f64) (e : Z) k r :
  f64_eqb (f64_div (f64_div f (pow10_f64 308)) (pow10_f64 308)) (S754_zero false) = true ->
  fst (f64_from_parts_fast_loop (3 + k) f e r) <> Err EFuel.
Proof.
  intros Hz. cbn [plus f64_from_parts_fast_loop].
  repeat match goal with
         | |- fst ((if ?c then _ else _) _) <> _ => destruct c
         | |- fst (ret _ _) <> _ => discriminate
         | |- fst (error _ _) <> _ => unfold error; destruct (r_position r); discriminate
         end.
  discriminate Hz.
Qed.

Lemma fast_loop_reader k : forall f e r, snd (f64_from_parts_fast_loop k f e r) = r.
Proof.
  induction k as [|k IH]; intros f e r; cbn [f64_from_parts_fast_loop]; [reflexivity|].
  repeat match goal with
         | |- snd ((if ?c then _ else _) _) = _ => destruct c
         | |- snd (ret _ _) = _ => reflexivity
         | |- snd (error _ _) = _ => unfold error; destruct (r_position r); reflexivity
         end.
  apply IH.
Qed.

Theorem f64_from_parts_ok fast std_parse pos sig e n : (sig <= u64_MAX)%N ->
  ok n (f64_from_parts fast std_parse pos sig e).
Proof.
  intros Hs r _. unfold okc, f64_from_parts. destruct fast.
  - unfold bind. pose proof (fast_loop_no_fuel (f64_of_N sig) e 5 r (two_divisions_zero sig Hs)) as Hf.
    pose proof (fast_loop_reader 8 (f64_of_N sig) e r) as Hm.
    change (3 + 5)%nat with 8%nat in Hf.
    destruct (f64_from_parts_fast_loop 8 (f64_of_N sig) e r) as [[x|err] r1]; cbn [fst snd] in *.
    + subst r1. unfold ret. cbn [fst snd]. split; [discriminate|lia].
    + subst r1. split; [intros E; apply Hf; inversion E; reflexivity|lia].
  - destruct (is_infinite_f64 _); [unfold error; destruct (r_position r)|unfold ret]; cbn [fst snd]; split; try discriminate; lia.
Qed.

(* ---- totality: with fuel_for, no outcome of the model is its own fuel error ---- *)
Local Close Scope Z_scope.
Section Total.
  Variable ro : parse_options.
  Variable alpha : N -> bool.
  Variable fast : bool.
  Variable std_parse : N -> Z -> f64.
  Let Hfp := f64_from_parts_ok fast std_parse.

  Lemma init_rem k inp : (rem (rd (init_state k inp)) <= length inp)%nat.
  Proof. unfold init_state, mk_reader, rem. cbn [rd rinput]. lia. Qed.

  Theorem total_from_trait k inp :
    from_trait ro alpha fast std_parse k inp <> PErr (XErr EFuel) /\
    datum_from_trait ro alpha fast std_parse k inp <> PErr (XErr EFuel).
  Proof. split; [apply (from_trait_fuel ro alpha fast std_parse Hfp)|apply (datum_from_trait_fuel ro alpha fast std_parse Hfp)]. Qed.

  Theorem total_history k inp cs :
    Forall (fun r => ~ call_fuel r) (run_history ro alpha fast std_parse (fuel_for inp) cs (init_state k inp)).
  Proof.
    apply (history_fuel ro alpha fast std_parse Hfp (fuel_for inp) (length inp) cs (init_state k inp));
      [unfold fuel_for; lia|apply init_rem].
  Qed.

  Theorem total_iterate k inp n :
    Forall (fun r => r <> PErr (XErr EFuel)) (iterate_values ro alpha fast std_parse (fuel_for inp) n (init_state k inp)) /\
    Forall (fun r => r <> PErr (XErr EFuel)) (iterate_datums ro alpha fast std_parse (fuel_for inp) n (init_state k inp)) /\
    (length (filter is_okb (iterate_values ro alpha fast std_parse (fuel_for inp) n (init_state k inp))) <= length inp)%nat /\
    (length (filter is_okb (iterate_datums ro alpha fast std_parse (fuel_for inp) n (init_state k inp))) <= length inp)%nat.
  Proof.
    assert (Hf : (2 * length inp + 3 <= fuel_for inp)%nat) by (unfold fuel_for; lia). pose proof (init_rem k inp) as Hr.
    split; [apply (iterate_values_fuel ro alpha fast std_parse Hfp _ (length inp)); assumption|].
    split; [apply (iterate_datums_fuel ro alpha fast std_parse Hfp _ (length inp)); assumption|].
    split.
    - eapply Nat.le_trans; [apply (iterate_values_count ro alpha fast std_parse Hfp _ (length inp)); assumption|exact Hr].
    - eapply Nat.le_trans; [apply (iterate_datums_count ro alpha fast std_parse Hfp _ (length inp)); assumption|exact Hr].
  Qed.
End Total.
