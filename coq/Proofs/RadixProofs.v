(* C05: integer literals with a radix prefix  #b #o #d #x [+|-] digits  read as
   exactly the integer they denote in that radix. *)
From Coq Require Import SpecFloat ZifyBool ZifyNat ZifyN.
Require Import Base Value Float PrintOptions ParseOptions Utf8 Reader Scan Num NumberOps Parser.
Require Import Printer ReaderProofs ScanProofs TokenProofs NumTokenProofs DecimalProofs.
Ltac Zify.zify_post_hook ::= Z.div_mod_to_equations.

Definition radix_ok (R : N) : Prop := R = 2 \/ R = 8 \/ R = 10 \/ R = 16.
Ltac radix_cases H := destruct H as [->|[->|[->| ->]]].

(* the value of a digit byte in radix R: 0-9, and a-f / A-F above ten *)
Definition rdigit_ok (R c : N) : Prop := exists v, digit_val (10 <? R) c = Some v /\ v < R.
Definition all_rdigits (R : N) (ds : bytes) : Prop := Forall (rdigit_ok R) ds.
Definition rval (R c : N) : N := match digit_val (10 <? R) c with Some v => v | None => 0 end.
(* positional value of a digit string continuing an accumulator *)
Definition rfold (R acc : N) (ds : bytes) : N := fold_left (fun a c => a * R + rval R c) ds acc.

Lemma rfold_ge R ds : 1 <= R -> forall acc, acc <= rfold R acc ds.
Proof.
  intros HR. induction ds as [|d ds IH]; intros acc; cbn [rfold fold_left]; [lia|].
  specialize (IH (acc * R + rval R d)). unfold rfold in IH. nia.
Qed.

Lemma overflow_N_radix_false R a b c : radix_ok R -> a * R + b <= c -> overflow_N a R b c = false.
Proof. intros HR H. unfold overflow_N. radix_cases HR; lia. Qed.

Lemma digit_val_letters l c v : digit_val l c = Some v -> v < 10 \/ l = true.
Proof.
  unfold digit_val. destruct (in_range 48 57 c) eqn:E; [intros H; inversion H; unfold in_range in E; lia|].
  destruct l; [auto|]. cbn. discriminate.
Qed.
Lemma digit_val_true_of l c v : digit_val l c = Some v -> digit_val true c = Some v.
Proof.
  unfold digit_val. destruct (in_range 48 57 c); [auto|]. destruct l; [auto|cbn; discriminate].
Qed.

Lemma delim_not_rdigit R rest : radix_ok R -> delim_ok rest -> digit_val (10 <? R) (head0 rest) = None.
Proof.
  intros HR Hr. destruct rest as [|b rest]; cbn [head0].
  - radix_cases HR; reflexivity.
  - radix_cases HR; delim_cases Hr; reflexivity.
Qed.

Section Radix.
  Variable fast : bool.
  Variable std_parse : N -> Z -> f64.

  Lemma num_tail_delim_radix fuel r R pos n rest : delim_ok rest -> at_bytes r rest ->
    exists r', parse_num_tail fast std_parse fuel R pos n r = (Ok (int_result pos n), r') /\
               at_bytes r' rest /\ rk r' = rk r.
  Proof.
    intros Hd Ha. unfold parse_num_tail.
    destruct (peek0_at r rest Ha) as (r0 & E0 & Ha0 & Hk0 & _). rewrite (bind_ok _ _ _ _ _ E0).
    assert (E1 : (head0 rest =? 46) = false) by (destruct rest as [|d rest']; [reflexivity|]; cbn [head0]; delim_cases Hd; reflexivity).
    assert (E2 : ((head0 rest =? 101) || (head0 rest =? 69)) = false)
      by (destruct rest as [|d rest']; [reflexivity|]; cbn [head0]; delim_cases Hd; reflexivity).
    rewrite E1, E2. exists r0. unfold int_result, ret. destruct pos; [|destruct (9223372036854775808 <? n)]; repeat split; auto.
  Qed.

  Lemma num_loop_rdigits R ds : radix_ok R -> forall fuel r pos res rest, (length ds < fuel)%nat -> all_rdigits R ds ->
    delim_ok rest -> rfold R res ds <= u64_MAX -> at_bytes r (ds ++ rest) ->
    exists r', num_literal_loop fast std_parse fuel R pos res r = (Ok (int_result pos (rfold R res ds)), r') /\
               at_bytes r' rest /\ rk r' = rk r.
  Proof.
    intros HR. induction ds as [|d ds IH]; intros fuel r pos res rest Hf Hd Hr Hmax Ha;
      (destruct fuel as [|f]; [cbn in Hf; lia|]); cbn [num_literal_loop]; cbn [app] in Ha.
    - destruct (peek0_at r rest Ha) as (r0 & E0 & Ha0 & Hk0 & _). rewrite (bind_ok _ _ _ _ _ E0).
      rewrite (delim_not_rdigit R rest HR Hr).
      destruct (num_tail_delim_radix f r0 R pos res rest Hr Ha0) as (r1 & E & Ha1 & Hk1).
      exists r1. cbn [rfold fold_left]. repeat split; auto; congruence.
    - inversion Hd as [|? ? (v & Ev & Hv) Hd']; subst. step. rewrite Ev.
      assert (ER : (R <=? v) = false) by lia. rewrite ER. step.
      assert (Erv : rval R d = v) by (unfold rval; rewrite Ev; reflexivity).
      change (rfold R res (d :: ds)) with (rfold R (res * R + rval R d) ds) in *. rewrite Erv in *.
      pose proof (rfold_ge R ds ltac:(radix_cases HR; lia) (res * R + v)) as Hge.
      rewrite (overflow_N_radix_false R res v u64_MAX HR) by lia.
      destruct (IH f r1 pos (res * R + v) rest ltac:(cbn in Hf; lia) Hd' Hr Hmax Ha1) as (r2 & E & Ha2 & Hk2).
      exists r2. repeat split; auto; congruence.
  Qed.

  Lemma num_token_rdigits R fuel r pos d ds rest : radix_ok R -> (length (d :: ds) < fuel)%nat ->
    all_rdigits R (d :: ds) -> delim_ok rest -> rfold R 0 (d :: ds) <= u64_MAX -> at_bytes r ((d :: ds) ++ rest) ->
    exists r', parse_num_token fast std_parse fuel R pos r = (Ok (int_result pos (rfold R 0 (d :: ds))), r') /\
               at_bytes r' rest /\ rk r' = rk r.
  Proof.
    intros HR Hf Hd Hr Hmax Ha. unfold parse_num_token, parse_num_literal. cbn [app] in Ha.
    inversion Hd as [|? ? (v & Ev & Hv) Hd']; subst.
    assert (Erv : rval R d = v) by (unfold rval; rewrite Ev; reflexivity).
    change (rfold R 0 (d :: ds)) with (rfold R (0 * R + rval R d) ds) in *. rewrite Erv in *.
    replace (0 * R + v) with v in * by lia.
    assert (exists r1, (o <- next_char;;
      match o with
      | Some c => match digit_val true c with
          | Some first_digit => if R <=? first_digit then peek_error InvalidNumber
                                else num_literal_loop fast std_parse fuel R pos first_digit
          | None => peek_error InvalidNumber end
      | None => peek_error EofWhileParsingValue end) r = (Ok (int_result pos (rfold R v ds)), r1) /\
      at_bytes r1 rest /\ rk r1 = rk r) as (r1 & E1 & Ha1 & Hk1).
    { step. rewrite (digit_val_true_of _ d v Ev).
      assert (ER : (R <=? v) = false) by lia. rewrite ER.
      destruct (num_loop_rdigits R ds HR fuel r0 pos v rest ltac:(cbn in Hf; lia) Hd' Hr Hmax Ha0) as (r1 & E & Ha1 & Hk1).
      exists r1. repeat split; auto; congruence. }
    rewrite (bind_ok _ _ _ _ _ E1).
    destruct rest as [|b rest].
    - step. exists r0. unfold ret. repeat split; auto; congruence.
    - step. assert (Ed : is_delimiter b = true) by (delim_cases Hr; reflexivity). rewrite Ed.
      exists r0. unfold ret. repeat split; auto; congruence.
  Qed.

  (* after the prefix: an optional sign, then the digits *)
  Lemma radix_literal_run R fuel r sg d ds rest : radix_ok R -> (S (length (d :: ds)) < fuel)%nat ->
    all_rdigits R (d :: ds) -> delim_ok rest -> rfold R 0 (d :: ds) <= u64_MAX ->
    at_bytes r (sign_text sg ++ (d :: ds) ++ rest) ->
    exists r', parse_radix_literal fast std_parse fuel R r = (Ok (int_result (sign_pos sg) (rfold R 0 (d :: ds))), r') /\
               at_bytes r' rest /\ rk r' = rk r.
  Proof.
    intros HR Hf Hd Hr Hmax Ha. unfold parse_radix_literal.
    destruct sg as [[|]|]; cbn [sign_text sign_pos app] in *.
    - step. change (43 =? 45) with false. change (43 =? 43) with true. cbv iota. step.
      destruct (num_token_rdigits R fuel r1 true d ds rest HR ltac:(lia) Hd Hr Hmax Ha1) as (r2 & E & Ha2 & Hk2).
      exists r2. repeat split; auto; congruence.
    - step. change (45 =? 45) with true. cbv iota. step.
      destruct (num_token_rdigits R fuel r1 false d ds rest HR ltac:(lia) Hd Hr Hmax Ha1) as (r2 & E & Ha2 & Hk2).
      exists r2. repeat split; auto; congruence.
    - step. pose proof (Forall_inv Hd) as (v & Ev & Hv).
      assert (E45 : (d =? 45) = false) by (destruct (d =? 45) eqn:E; [apply N.eqb_eq in E; subst d; radix_cases HR; discriminate Ev|reflexivity]).
      assert (E43 : (d =? 43) = false) by (destruct (d =? 43) eqn:E; [apply N.eqb_eq in E; subst d; radix_cases HR; discriminate Ev|reflexivity]).
      rewrite E45, E43.
      destruct (num_token_rdigits R fuel r0 true d ds rest HR ltac:(lia) Hd Hr Hmax Ha0) as (r2 & E & Ha2 & Hk2).
      exists r2. repeat split; auto; congruence.
  Qed.
End Radix.

(* the prefix letter of each radix *)
Definition radix_letter (R : N) : N := if R =? 2 then 98 else if R =? 8 then 111 else if R =? 10 then 100 else 120.

Section RadixTokens.
  Variable alpha : N -> bool.
  Variable fast : bool.
  Variable std_parse : N -> Z -> f64.
  Local Notation parse_token := (parse_token default_ro alpha fast std_parse).

  Theorem tok_radix_int R fuel r sg d ds rest : radix_ok R -> (S (length (d :: ds)) < fuel)%nat ->
    all_rdigits R (d :: ds) -> delim_ok rest -> rfold R 0 (d :: ds) <= u64_MAX ->
    at_bytes r (35 :: radix_letter R :: sign_text sg ++ (d :: ds) ++ rest) -> peeked r ->
    exists r', parse_token fuel 35 r = (Ok (TNumber (int_result (sign_pos sg) (rfold R 0 (d :: ds)))), r') /\
               at_bytes r' rest /\ rk r' = rk r.
  Proof.
    intros HR Hf Hd Hr Hmax Ha Hp. rewrite token_hash. unfold hash_arm.
    step. step. cbv beta iota.
    destruct (radix_literal_run fast std_parse R fuel r1 sg d ds rest HR Hf Hd Hr Hmax Ha1) as (r2 & E & Ha2 & Hk2).
    radix_cases HR;
      [change (radix_letter 2) with 98|change (radix_letter 8) with 111|change (radix_letter 10) with 100|change (radix_letter 16) with 120];
      repeat match goal with
             | |- context [N.eqb ?a ?b] =>
                 let v := eval vm_compute in (N.eqb a b) in
                 match v with true => idtac | false => idtac end; change (N.eqb a b) with v
             end; cbn [andb]; cbv iota;
      rewrite (bind_ok _ _ _ _ _ E); exists r2; unfold ret; repeat split; auto; congruence.
  Qed.
End RadixTokens.
