Require Import Base Value Depth.
From Coq Require Import ZifyNat.
Local Open Scope nat_scope.

Lemma list_max_le_add f g c (l : list value) :
  Forall (fun v => f v <= g v + c) l -> list_max (map f l) <= list_max (map g l) + c.
Proof. induction 1; cbn; lia. Qed.

(* the loop shape needs one frame per nesting level, plus one ... *)
Lemma walk_bound v : walk_depth v <= nesting v + 1 /\ walk_rest v <= nesting_rest v + 1.
Proof.
  induction v as [| |b|n|c|s|s|s|b|a d [IHa1 IHa2] [IHd1 IHd2]|l H] using value_ind';
    cbn [walk_depth walk_rest nesting nesting_rest]; try lia.
  assert (Hm : list_max (map walk_depth l) <= list_max (map nesting l) + 1).
  { apply list_max_le_add. eapply Forall_impl; [|exact H]. intros a [Ha _]. exact Ha. }
  lia.
Qed.

(* ... whatever the number of elements: a flat list is walked at depth 2 *)
Lemma walk_flat xs t :
  Forall (fun x => nesting x = 0) xs -> nesting_rest t = 0 -> xs <> [] ->
  walk_depth (build xs t) <= 2.
Proof.
  intros Hxs Ht Hne.
  assert (Hrest : forall ys, Forall (fun x => nesting x = 0) ys -> nesting_rest (build ys t) = 0).
  { induction 1 as [|y ys Hy Hys IH]; cbn [build nesting_rest]; [exact Ht|]. rewrite Hy, IH. reflexivity. }
  destruct xs as [|x xs]; [congruence|]. inversion Hxs; subst.
  pose proof (proj1 (walk_bound (build (x :: xs) t))) as Hb.
  cbn [build nesting] in *. rewrite (Hrest xs H2) in Hb. lia.
Qed.

(* the derived shape uses one frame per element *)
Lemma derived_linear xs t : length xs <= derived_depth (build xs t).
Proof. induction xs as [|x xs IH]; cbn [build derived_depth length]; lia. Qed.
