(* C19: what a truncated input can fail with. Part 1: once a stream reader has
   reached the end of its input, every function of the parser returns a value
   or an error of the EOF category - with two exceptions, both checks on data
   read BEFORE the end: the range check of a finished numeric literal
   (NumberOutOfRange: the known finding of C19) and the UTF-8 validation of a
   scanned symbol or string (InvalidUnicodeCodePoint). *)
From Coq Require Import SpecFloat Lia ZifyBool ZifyNat ZifyN.
Require Import Base Value Float PrintOptions ParseOptions Utf8 Reader Scan Num NumberOps Parser.
Require Import RelFramework.

Definition ateof (r : reader) : Prop := rk r = SrcIo /\ rinput r = [] /\ rpending r = false.
Definition eofcode (c : errcode) : bool :=
  match classify_code c with CatEof => true | _ => match c with NumberOutOfRange | InvalidUnicodeCodePoint | ExpectedOctet | RecursionLimitExceeded => true | _ => false end end.
Definition eofish (e : perr) : Prop :=
  match e with EFuel => True | ESyntax c _ _ => eofcode c = true | EIo _ => False end.
Definition okres {A} (x : res A) : Prop := match x with Ok _ => True | Err e => eofish e end.
Definition ef {A} (m : M A) : Prop := forall r, ateof r -> ateof (snd (m r)) /\ okres (fst (m r)).

Lemma ef_ret {A} (a : A) : ef (ret a).
Proof. intros r H. split; [exact H|exact I]. Qed.
Lemma ef_fuel {A} : ef (@out_of_fuel A).
Proof. intros r H. split; [exact H|exact I]. Qed.
Lemma ef_bind {A B} (m : M A) (f : A -> M B) : ef m -> (forall a, ef (f a)) -> ef (bind m f).
Proof.
  intros Hm Hf r H. unfold bind. destruct (Hm r H) as [H1 H2]. destruct (m r) as [[a|e] r1]; cbn [fst snd] in *.
  - apply Hf. exact H1.
  - split; assumption.
Qed.
Lemma peek_eof r : ateof r -> peek r = (Ok None, r).
Proof. destruct r as [k ln cl p i]. intros (K & I & P). cbn in *. subst. reflexivity. Qed.
Lemma next_eof r : ateof r -> next_char r = (Ok None, r).
Proof. destruct r as [k ln cl p i]. intros (K & I & P). cbn in *. subst. reflexivity. Qed.
Lemma ef_bind_peek {A} (k : option N -> M A) : ef (k None) -> ef (bind peek k).
Proof. intros H r Hr. unfold bind. rewrite (peek_eof r Hr). apply H. exact Hr. Qed.
Lemma ef_bind_next {A} (k : option N -> M A) : ef (k None) -> ef (bind next_char k).
Proof. intros H r Hr. unfold bind. rewrite (next_eof r Hr). apply H. exact Hr. Qed.
Lemma ef_peek : ef peek.
Proof. intros r H. rewrite (peek_eof r H). split; [exact H|exact I]. Qed.
Lemma ef_next : ef next_char.
Proof. intros r H. rewrite (next_eof r H). split; [exact H|exact I]. Qed.
Lemma ef_eat : ef eat_char.
Proof.
  intros [k ln cl p i] (K & I & P). cbn in *. subst. unfold eat_char, r_discard. cbn. split; [repeat split|exact I].
Qed.
Lemma ef_error {A} c : eofcode c = true -> ef (@error A c).
Proof. intros Hc r H. unfold error. destruct (r_position r). cbn [fst snd]. split; [exact H|exact Hc]. Qed.
Lemma ef_peek_error {A} c : eofcode c = true -> ef (@peek_error A c).
Proof. intros Hc r H. unfold peek_error. destruct (r_peek_position r). cbn [fst snd]. split; [exact H|exact Hc]. Qed.
Lemma ef_position : ef position.
Proof. intros r H. split; [exact H|exact I]. Qed.
Lemma ef_ext {A} (m m' : M A) : (forall r, m r = m' r) -> ef m' -> ef m.
Proof. intros E H r Hr. rewrite E. apply H. exact Hr. Qed.

Lemma ef_bind_peek_or_null {A} (k : N -> M A) : ef (k 0) -> ef (bind peek_or_null k).
Proof. intros H r Hr. unfold peek_or_null, bind. rewrite (peek_eof r Hr). cbn [ret]. apply H. exact Hr. Qed.
Lemma ef_bind_next_or_eof {A} (k : N -> M A) : ef (bind next_or_eof k).
Proof.
  intros r Hr. unfold next_or_eof, bind. rewrite (next_eof r Hr). unfold error. destruct (r_position r). cbn [fst snd]. split; [exact Hr|reflexivity].
Qed.
Lemma ef_bind_next_or_eof_char {A} (k : N -> M A) : ef (bind next_or_eof_char k).
Proof.
  intros r Hr. unfold next_or_eof_char, bind. rewrite (next_eof r Hr). unfold error. destruct (r_position r). cbn [fst snd]. split; [exact Hr|reflexivity].
Qed.

(* a step that can only fail once the input has ended *)
Definition effail {A} (m : M A) : Prop := forall r, ateof r -> ateof (snd (m r)) /\ exists e, fst (m r) = Err e /\ eofish e.
Lemma ef_bind_fail {A B} (m : M A) (f : A -> M B) : effail m -> ef (bind m f).
Proof.
  intros Hm r H. unfold bind. destruct (Hm r H) as (Ha & e & E & He). destruct (m r) as [[a|e'] r1]; cbn [fst snd] in *; [discriminate|].
  inversion E; subst e'. split; assumption.
Qed.
Lemma effail_decode c : effail (decode_utf8_sequence_b c).
Proof.
  intros r H. unfold decode_utf8_sequence_b. destruct (in_range 192 223 c || in_range 224 247 c) eqn:Ec.
  2:{ unfold error. destruct (r_position r). cbn [fst snd]. split; [exact H|]. eexists. split; reflexivity. }
  assert (Hlen : exists k, (if in_range 192 223 c then 1%nat else N.to_nat ((c - 192) / 16)) = S k).
  { destruct (in_range 192 223 c) eqn:E1; [exists 0%nat; reflexivity|]. cbn [orb] in Ec.
    destruct (N.to_nat ((c - 192) / 16)) as [|k] eqn:En; [|exists k; reflexivity]. exfalso.
    assert (E0 : (c - 192) / 16 = 0) by lia. apply N.div_small_iff in E0; [|discriminate]. unfold in_range in Ec. lia. }
  destruct Hlen as [k ->]. cbn [take_bytes]. unfold bind. rewrite (next_eof r H).
  unfold error. destruct (r_position r). cbn [fst snd]. split; [exact H|]. eexists. split; reflexivity.
Qed.

Lemma is_digit_0 : is_digit 0 = false.  Proof. reflexivity. Qed.
Lemma digit_val_0 b : digit_val b 0 = None.  Proof. destruct b; reflexivity. Qed.
Ltac zero_simpl := cbv beta; rewrite ?is_digit_0, ?digit_val_0; cbn [N.eqb orb andb]; cbv iota.

Create HintDb efdb.
Ltac ef_step :=
  first
    [ apply ef_ret | apply ef_fuel | apply ef_position | apply ef_eat
    | apply ef_error; reflexivity | apply ef_peek_error; reflexivity
    | solve [eauto 3 with efdb]
    | apply ef_bind_peek | apply ef_bind_next | apply ef_bind_peek_or_null; zero_simpl | apply ef_bind_next_or_eof | apply ef_bind_next_or_eof_char
    | apply ef_peek | apply ef_next
    | apply ef_bind_fail; solve [apply effail_decode]
    | apply ef_bind; [|intros ?]
    | match goal with
      | |- ef (match ?x with _ => _ end) => destruct x
      | |- ef (if ?x then _ else _) => destruct x
      | |- ef (let '(_, _) := ?x in _) => destruct x
      end ].
Ltac ef_auto := repeat ef_step.

Lemma ef_peek_or_null : ef peek_or_null.
Proof. unfold peek_or_null. ef_auto. Qed.
Lemma ef_next_or_eof : ef next_or_eof.
Proof. unfold next_or_eof. ef_auto. Qed.
Lemma ef_next_or_eof_char : ef next_or_eof_char.
Proof. unfold next_or_eof_char. ef_auto. Qed.
Lemma ef_as_str b : ef (Scan.as_str b).
Proof. unfold Scan.as_str. ef_auto. Qed.
#[export] Hint Resolve ef_peek_or_null ef_next_or_eof ef_next_or_eof_char ef_as_str : efdb.

Lemma ef_symbol_end scratch :
  ef (if is_truncated_symbol scratch then error EofWhileParsingValue
      else if beq_bytes scratch [46] then error InvalidSymbol else ret scratch).
Proof.
  unfold is_truncated_symbol. destruct (beq_bytes scratch [46]); cbn [orb]; [apply ef_error; reflexivity|].
  destruct (utf8_truncated scratch); [apply ef_error; reflexivity|apply ef_ret].
Qed.
#[export] Hint Resolve ef_symbol_end : efdb.
Lemma ef_scan_symbol_io fuel : forall scratch, ef (scan_symbol_io fuel scratch).
Proof.
  induction fuel as [|f IH]; intros scratch; cbn [scan_symbol_io]; [apply ef_fuel|]. apply ef_bind_peek.
  unfold is_truncated_symbol. destruct (beq_bytes scratch [46]); cbn [orb]; [apply ef_error; reflexivity|].
  destruct (utf8_truncated scratch); [apply ef_error; reflexivity|apply ef_ret].
Qed.
#[export] Hint Resolve ef_scan_symbol_io : efdb.
Lemma ef_parse_symbol_rd fuel scratch : ef (parse_symbol_rd fuel scratch).
Proof.
  intros r H. pose proof H as (K & _). unfold parse_symbol_rd. rewrite K.
  pose proof ef_scan_symbol_io. assert (Hs : ef (b <- scan_symbol_io fuel scratch ;; Scan.as_str b)) by ef_auto. apply Hs. exact H.
Qed.
#[export] Hint Resolve ef_parse_symbol_rd : efdb.
Lemma ef_hex_escape_loop fuel : forall x, ef (hex_escape_loop fuel x).
Proof. induction fuel as [|f IH]; intros x; cbn [hex_escape_loop]; ef_auto. Qed.
#[export] Hint Resolve ef_hex_escape_loop : efdb.
Lemma ef_parse_r6rs_escape fuel : ef (parse_r6rs_escape fuel).
Proof. pose proof ef_hex_escape_loop. unfold parse_r6rs_escape, decode_r6rs_hex_escape. ef_auto. Qed.
#[export] Hint Resolve ef_parse_r6rs_escape : efdb.


Lemma ef_r6rs_str_io fuel : forall scratch, ef (r6rs_str_io fuel scratch).
Proof. induction fuel as [|f IH]; intros scratch; cbn [r6rs_str_io]; ef_auto. Qed.
#[export] Hint Resolve ef_r6rs_str_io : efdb.
Lemma ef_parse_r6rs_str_rd fuel : ef (parse_r6rs_str_rd fuel).
Proof.
  intros r H. pose proof H as (K & _). unfold parse_r6rs_str_rd. rewrite K.
  pose proof ef_r6rs_str_io. assert (Hs : ef (b <- r6rs_str_io fuel [] ;; Scan.as_str b)) by ef_auto. apply Hs. exact H.
Qed.
#[export] Hint Resolve ef_parse_r6rs_str_rd : efdb.

Lemma ef_elisp_hex_loop fuel : forall x, ef (elisp_hex_loop fuel x).
Proof. induction fuel as [|f IH]; intros x; cbn [elisp_hex_loop]; ef_auto. Qed.
#[export] Hint Resolve ef_elisp_hex_loop : efdb.
Lemma ef_decode_elisp_uni_escape k : forall x, ef (decode_elisp_uni_escape k x).
Proof. induction k as [|k IH]; intros x; cbn [decode_elisp_uni_escape]; ef_auto. Qed.
#[export] Hint Resolve ef_decode_elisp_uni_escape : efdb.
Lemma ef_elisp_octal_loop fuel : forall x, ef (elisp_octal_loop fuel x).
Proof. induction fuel as [|f IH]; intros x; cbn [elisp_octal_loop]; ef_auto. Qed.
#[export] Hint Resolve ef_elisp_octal_loop : efdb.
Lemma ef_elisp_char_escape_of x : ef (elisp_char_escape_of x).
Proof. unfold elisp_char_escape_of. ef_auto. Qed.
Lemma ef_elisp_uni_escape_of x : ef (elisp_uni_escape_of x).
Proof. unfold elisp_uni_escape_of. ef_auto. Qed.
#[export] Hint Resolve ef_elisp_hex_loop ef_decode_elisp_uni_escape ef_elisp_octal_loop ef_elisp_char_escape_of ef_elisp_uni_escape_of : efdb.
Lemma ef_parse_elisp_escape fuel : ef (parse_elisp_escape fuel).
Proof. unfold parse_elisp_escape, decode_elisp_hex_escape, decode_elisp_octal_escape. ef_auto. Qed.
#[export] Hint Resolve ef_parse_elisp_escape : efdb.
Lemma ef_elisp_finish fl scratch : ef (elisp_finish fl scratch).
Proof. unfold elisp_finish. ef_auto. Qed.
#[export] Hint Resolve ef_elisp_finish : efdb.


Lemma ef_elisp_str_io fuel : forall fl scratch, ef (elisp_str_io fuel fl scratch).
Proof. induction fuel as [|f IH]; intros fl scratch; cbn [elisp_str_io]; cbv zeta; ef_auto. Qed.
#[export] Hint Resolve ef_elisp_str_io : efdb.
Lemma ef_parse_elisp_str_rd fuel : ef (parse_elisp_str_rd fuel).
Proof.
  intros r H. pose proof H as (K & _). unfold parse_elisp_str_rd. cbv zeta. rewrite K.
  apply ef_elisp_str_io. exact H.
Qed.
#[export] Hint Resolve ef_parse_elisp_str_rd : efdb.

Lemma ef_take_bytes k : forall acc, ef (take_bytes k acc).
Proof. induction k as [|k IH]; intros acc; cbn [take_bytes]; ef_auto. Qed.
#[export] Hint Resolve ef_take_bytes : efdb.
#[export] Hint Resolve ef_take_bytes : efdb.
Lemma ef_decode_utf8_sequence_b c : ef (decode_utf8_sequence_b c).
Proof. unfold decode_utf8_sequence_b. ef_auto. Qed.
#[export] Hint Resolve ef_decode_utf8_sequence_b : efdb.
Lemma ef_decode_utf8_sequence c : ef (decode_utf8_sequence c).
Proof. unfold decode_utf8_sequence. ef_auto. Qed.
#[export] Hint Resolve ef_decode_utf8_sequence : efdb.
Lemma ef_r6rs_char_hex_loop fuel : forall x first, ef (r6rs_char_hex_loop fuel x first).
Proof. induction fuel as [|f IH]; intros x first; cbn [r6rs_char_hex_loop]; ef_auto. Qed.
#[export] Hint Resolve ef_r6rs_char_hex_loop : efdb.
Lemma ef_char_name_loop fuel : forall scratch, ef (char_name_loop fuel scratch).
Proof. induction fuel as [|f IH]; intros scratch; cbn [char_name_loop]; ef_auto. Qed.
#[export] Hint Resolve ef_char_name_loop : efdb.
Lemma ef_open_ended_char x : ef (open_ended_char x).
Proof. unfold open_ended_char. ef_auto. Qed.
#[export] Hint Resolve ef_r6rs_char_hex_loop ef_char_name_loop ef_open_ended_char : efdb.
Lemma ef_parse_r6rs_char fuel : ef (parse_r6rs_char fuel).
Proof. unfold parse_r6rs_char. ef_auto. Qed.
#[export] Hint Resolve ef_parse_r6rs_char : efdb.
Lemma ef_as_char x : ef (Scan.as_char x).
Proof. unfold Scan.as_char. ef_auto. Qed.
#[export] Hint Resolve ef_as_char : efdb.
Lemma ef_decode_elisp_char_escape fuel : ef (decode_elisp_char_escape fuel).
Proof. unfold decode_elisp_char_escape, decode_elisp_hex_escape, decode_elisp_octal_escape. ef_auto. Qed.
#[export] Hint Resolve ef_decode_elisp_char_escape : efdb.
Lemma ef_parse_elisp_char fuel : ef (parse_elisp_char fuel).
Proof. unfold parse_elisp_char. ef_auto. Qed.
#[export] Hint Resolve ef_parse_elisp_char : efdb.

(* ---- numbers: neither reader looks at its kind ---- *)
Section NumEof.
  Variable fast : bool.
  Variable std_parse : N -> Z -> f64.

  Lemma ef_fast_loop fuel : forall f e, ef (f64_from_parts_fast_loop fuel f e).
  Proof. induction fuel as [|k IH]; intros f e; cbn [f64_from_parts_fast_loop]; ef_auto. Qed.
  Hint Resolve ef_fast_loop : efdb.
  Lemma ef_f64_from_parts pos sig e : ef (f64_from_parts fast std_parse pos sig e).
  Proof. pose proof ef_fast_loop. unfold f64_from_parts. cbv zeta. ef_auto. Qed.
  Hint Resolve ef_f64_from_parts : efdb.
  Lemma ef_skip_digits fuel : ef (skip_digits fuel).
  Proof. induction fuel as [|f IH]; cbn [skip_digits]; ef_auto. Qed.
  Hint Resolve ef_skip_digits : efdb.
  Lemma ef_parse_exponent_overflow fuel p s pe : ef (parse_exponent_overflow fuel p s pe).
  Proof. unfold parse_exponent_overflow. ef_auto. Qed.
  Hint Resolve ef_parse_exponent_overflow : efdb.
  Lemma ef_exponent_digits fuel : forall p s pe se e, ef (exponent_digits fast std_parse fuel p s pe se e).
  Proof. induction fuel as [|f IH]; intros p s pe se e; cbn [exponent_digits]; cbv zeta; ef_auto. Qed.
  Hint Resolve ef_exponent_digits : efdb.
  Lemma ef_parse_exponent fuel p s se : ef (parse_exponent fast std_parse fuel p s se).
  Proof. unfold parse_exponent. ef_auto. Qed.
  Hint Resolve ef_parse_exponent : efdb.
  Lemma ef_decimal_digits fuel : forall s e o, ef (decimal_digits fuel s e o).
  Proof. induction fuel as [|f IH]; intros s e o; cbn [decimal_digits]; cbv zeta; ef_auto. Qed.
  Hint Resolve ef_decimal_digits : efdb.
  Lemma ef_parse_decimal fuel p s e : ef (parse_decimal fast std_parse fuel p s e).
  Proof. unfold parse_decimal. ef_auto. Qed.
  Hint Resolve ef_parse_decimal : efdb.
  Lemma ef_parse_long_integer fuel : forall radix p s e, ef (parse_long_integer fast std_parse fuel radix p s e).
  Proof. induction fuel as [|f IH]; intros radix p s e; cbn [parse_long_integer]; cbv zeta; ef_auto. Qed.
  Hint Resolve ef_parse_long_integer : efdb.
  Lemma ef_parse_num_tail fuel radix p s : ef (parse_num_tail fast std_parse fuel radix p s).
  Proof. unfold parse_num_tail. ef_auto. Qed.
  Hint Resolve ef_parse_num_tail : efdb.
  Lemma ef_num_literal_loop fuel : forall radix p s, ef (num_literal_loop fast std_parse fuel radix p s).
  Proof. induction fuel as [|f IH]; intros radix p s; cbn [num_literal_loop]; ef_auto. Qed.
  Hint Resolve ef_num_literal_loop : efdb.
  Lemma ef_parse_num_literal fuel radix p : ef (parse_num_literal fast std_parse fuel radix p).
  Proof. unfold parse_num_literal. ef_auto. Qed.
End NumEof.
#[export] Hint Resolve ef_f64_from_parts ef_skip_digits ef_parse_exponent_overflow ef_exponent_digits ef_parse_exponent
  ef_decimal_digits ef_parse_decimal ef_parse_long_integer ef_parse_num_tail ef_num_literal_loop ef_parse_num_literal : efdb.

(* ---- tokens ---- *)
Section TokenEof.
  Variable ro : parse_options.
  Variable alpha : N -> bool.
  Variable fast : bool.
  Variable std_parse : N -> Z -> f64.

  Lemma ef_parse_num_token fuel radix p : ef (parse_num_token fast std_parse fuel radix p).
  Proof. unfold parse_num_token. ef_auto. Qed.
  Hint Resolve ef_parse_num_token : efdb.
  Lemma ef_parse_radix_literal fuel radix : ef (parse_radix_literal fast std_parse fuel radix).
  Proof. unfold parse_radix_literal. ef_auto. Qed.
  Hint Resolve ef_parse_radix_literal : efdb.
  Lemma ef_parse_number fuel : ef (parse_number fast std_parse fuel).
  Proof. unfold parse_number. ef_auto. Qed.
  Hint Resolve ef_parse_number : efdb.
  Lemma ef_skip_comment fuel : ef (skip_comment fuel).
  Proof. induction fuel as [|f IH]; cbn [skip_comment]; ef_auto. Qed.
  Hint Resolve ef_skip_comment : efdb.
  Lemma ef_parse_whitespace fuel : ef (parse_whitespace fuel).
  Proof. induction fuel as [|f IH]; cbn [parse_whitespace]; ef_auto. Qed.
  Hint Resolve ef_parse_whitespace : efdb.
  Lemma ef_parse_symbol fuel : ef (parse_symbol fuel).
  Proof. unfold parse_symbol. ef_auto. Qed.
  Lemma ef_parse_symbol_suffix fuel p : ef (parse_symbol_suffix fuel p).
  Proof. unfold parse_symbol_suffix. ef_auto. Qed.
  Hint Resolve ef_parse_symbol ef_parse_symbol_suffix : efdb.
  Lemma ef_expect_ident ident : ef (expect_ident ident).
  Proof. induction ident as [|c ident IH]; cbn [expect_ident]; ef_auto. Qed.
  Hint Resolve ef_expect_ident : efdb.
  (* at the end of the input the whitespace skipper reports the end *)
  Lemma ws_eof fuel r : ateof r -> parse_whitespace fuel r = (Ok None, r) \/ parse_whitespace fuel r = (Err EFuel, r).
  Proof.
    intros H. destruct fuel as [|f]; [right; reflexivity|]. left. cbn [parse_whitespace]. unfold bind. rewrite (peek_eof r H). reflexivity.
  Qed.
  Lemma ef_bind_ws {A} fuel (k : option N -> M A) : ef (k None) -> ef (bind (parse_whitespace fuel) k).
  Proof.
    intros Hk r H. unfold bind. destruct (ws_eof fuel r H) as [E|E]; rewrite E; [apply Hk; exact H|].
    cbn [fst snd]. split; [exact H|exact I].
  Qed.
  Lemma ef_end_seq fuel close : ef (end_seq fuel close).
  Proof. unfold end_seq. apply ef_bind_ws. ef_auto. Qed.
  Lemma ef_expect_end fuel : ef (expect_end fuel).
  Proof. unfold expect_end. apply ef_bind_ws. ef_auto. Qed.
  Lemma ef_byte_list_loop fuel : forall close acc, ef (byte_list_loop fast std_parse fuel close acc).
  Proof. induction fuel as [|f IH]; intros close acc; cbn [byte_list_loop]; [apply ef_fuel|]. apply ef_bind_ws. ef_auto. Qed.
  Hint Resolve ef_byte_list_loop : efdb.
  Lemma ef_parse_byte_list fuel close : ef (parse_byte_list fast std_parse fuel close).
  Proof. unfold parse_byte_list. apply ef_bind_ws. ef_auto. Qed.
End TokenEof.
#[export] Hint Resolve ef_parse_num_token ef_parse_radix_literal ef_parse_number ef_skip_comment ef_parse_whitespace ef_parse_symbol
  ef_parse_symbol_suffix ef_expect_ident ef_end_seq ef_expect_end ef_byte_list_loop ef_parse_byte_list : efdb.


(* ---- Part 2: a stream and a proper prefix of it, side by side ---- *)
Lemma skip_split suf X :
  (skip_intr suf = [] /\ skip_intr (suf ++ X) = skip_intr X) \/
  (exists ev s', skip_intr suf = ev :: s' /\ ev <> EInterrupted /\ skip_intr (suf ++ X) = ev :: s' ++ X).
Proof.
  induction suf as [|[b| |e0] s IH]; cbn [skip_intr app].
  - left. split; reflexivity.
  - right. exists (EByte b), s. repeat split; try reflexivity. discriminate.
  - exact IH.
  - right. exists (EFail e0), s. repeat split; try reflexivity. discriminate.
Qed.

Create HintDb trdb.
Section Trunc.
  Variable rest : list event.

  (* r1 reads the prefix, r2 the whole; both are at the same place inside the prefix *)
  Definition trel (r1 r2 : reader) : Prop :=
    rk r1 = SrcIo /\ rk r2 = SrcIo /\ rline r1 = rline r2 /\ rcol r1 = rcol r2 /\ rpending r1 = rpending r2 /\
    exists suf, rinput r1 = suf /\ rinput r2 = suf ++ rest /\ (rpending r2 = true -> exists b s', suf = EByte b :: s').
  (* the whole fails (nothing to show) | same result, still side by side | the prefix
     ran out: its reader is at the end, its result a value or an EOF-like error *)
  Definition tc {A} (m : M A) (r1 r2 : reader) : Prop :=
    (exists e, fst (m r2) = Err e) \/
    (fst (m r1) = fst (m r2) /\ trel (snd (m r1)) (snd (m r2))) \/
    (ateof (snd (m r1)) /\ okres (fst (m r1))).
  Definition tr {A} (m : M A) : Prop := forall r1 r2, trel r1 r2 -> tc m r1 r2.

  Lemma mk_trel ln cl p suf : (p = true -> exists b s', suf = EByte b :: s') ->
    trel {| rk := SrcIo; rline := ln; rcol := cl; rpending := p; rinput := suf |}
         {| rk := SrcIo; rline := ln; rcol := cl; rpending := p; rinput := suf ++ rest |}.
  Proof.
    intros H. unfold trel. cbn [rk rline rcol rpending rinput]. repeat (split; [reflexivity|]).
    exists suf. split; [reflexivity|]. split; [reflexivity|exact H].
  Qed.
  Lemma has_head b s' : true = true -> exists b0 s0, EByte b :: s' = EByte b0 :: s0.
  Proof. intros _. exists b, s'. reflexivity. Qed.
  Lemma no_head (suf : list event) : false = true -> exists b0 s0, suf = EByte b0 :: s0.
  Proof. intros H; discriminate H. Qed.

  Lemma tr_ret {A} (a : A) : tr (ret a).
  Proof. intros r1 r2 H. right. left. split; [reflexivity|exact H]. Qed.
  Lemma tr_fuel {A} : tr (@out_of_fuel A).
  Proof. intros r1 r2 H. left. eexists; reflexivity. Qed.

  (* peek and next: the same on both, or the prefix is exhausted and reports the end *)
  Lemma peek_cases r1 r2 : trel r1 r2 ->
    (exists e, fst (peek r2) = Err e) \/ (fst (peek r1) = fst (peek r2) /\ trel (snd (peek r1)) (snd (peek r2))) \/
    (exists r', peek r1 = (Ok None, r') /\ ateof r').
  Proof.
    destruct r1 as [k1 ln1 cl1 p1 i1], r2 as [k2 ln2 cl2 p2 i2]. intros (K1 & K2 & L & C & P & suf & I1 & I2 & Hp).
    cbn [rk rline rcol rpending rinput] in *. subst. unfold peek, r_peek. cbn [rpending rinput rk rline rcol]. destruct p2.
    - destruct (Hp eq_refl) as (b & s' & ->). cbn [app fst snd]. right. left. split; [reflexivity|].
      apply (mk_trel ln2 cl2 true (EByte b :: s')). apply has_head.
    - destruct (skip_split suf rest) as [[Es E2]|(ev & s' & Es & Hne & E2)].
      + right. right. rewrite Es. eexists. split; [reflexivity|]. repeat split.
      + rewrite Es, E2. destruct ev as [b| |e0]; [| contradiction |]; cbn [fst snd].
        * right. left. split; [reflexivity|]. apply (mk_trel ln2 cl2 true (EByte b :: s')). apply has_head.
        * left. eexists; reflexivity.
  Qed.
  Lemma consume_trel ln cl b s' :
    trel (let '(ln', cl') := advance ln cl b in {| rk := SrcIo; rline := ln'; rcol := cl'; rpending := false; rinput := s' |})
         (let '(ln', cl') := advance ln cl b in {| rk := SrcIo; rline := ln'; rcol := cl'; rpending := false; rinput := s' ++ rest |}).
  Proof. destruct (advance ln cl b) as [l2 c2]. apply (mk_trel l2 c2 false s'). apply no_head. Qed.
  Lemma next_cases r1 r2 : trel r1 r2 ->
    (exists e, fst (next_char r2) = Err e) \/ (fst (next_char r1) = fst (next_char r2) /\ trel (snd (next_char r1)) (snd (next_char r2))) \/
    (exists r', next_char r1 = (Ok None, r') /\ ateof r').
  Proof.
    destruct r1 as [k1 ln1 cl1 p1 i1], r2 as [k2 ln2 cl2 p2 i2]. intros (K1 & K2 & L & C & P & suf & I1 & I2 & Hp).
    cbn [rk rline rcol rpending rinput] in *. subst. unfold next_char, r_next. cbn [rpending rinput rk rline rcol]. destruct p2.
    - destruct (Hp eq_refl) as (b & s' & ->). cbn [app fst snd]. right. left. split; [reflexivity|].
      unfold consume. cbn [rk rline rcol]. apply consume_trel.
    - destruct (skip_split suf rest) as [[Es E2]|(ev & s' & Es & Hne & E2)].
      + right. right. rewrite Es. eexists. split; [reflexivity|]. repeat split.
      + rewrite Es, E2. destruct ev as [b| |e0]; [| contradiction |]; cbn [fst snd].
        * right. left. split; [reflexivity|]. unfold consume. cbn [rk rline rcol]. apply consume_trel.
        * left. eexists; reflexivity.
  Qed.
  Lemma tr_peek : tr peek.
  Proof.
    intros r1 r2 H. destruct (peek_cases r1 r2 H) as [E|[E|(r' & E & He)]]; [left; exact E|right; left; exact E|].
    right. right. rewrite E. split; [exact He|exact I].
  Qed.
  Lemma tr_next : tr next_char.
  Proof.
    intros r1 r2 H. destruct (next_cases r1 r2 H) as [E|[E|(r' & E & He)]]; [left; exact E|right; left; exact E|].
    right. right. rewrite E. split; [exact He|exact I].
  Qed.
  Lemma discard_trel r1 r2 : trel r1 r2 -> trel (r_discard r1) (r_discard r2).
  Proof.
    destruct r1 as [k1 ln1 cl1 p1 i1], r2 as [k2 ln2 cl2 p2 i2]. intros (K1 & K2 & L & C & P & suf & I1 & I2 & Hp).
    cbn [rk rline rcol rpending rinput] in *. subst. unfold r_discard. cbn [rk rpending rinput]. destruct p2.
    - destruct (Hp eq_refl) as (b & s' & ->). cbn [app]. unfold consume. cbn [rk rline rcol]. apply consume_trel.
    - apply (mk_trel ln2 cl2 false suf). apply no_head.
  Qed.
  Lemma tr_eat : tr eat_char.
  Proof. intros r1 r2 H. right. left. unfold eat_char. cbn [fst snd]. split; [reflexivity|apply discard_trel; exact H]. Qed.
  Lemma tr_error {A} c : tr (@error A c).
  Proof. intros r1 r2 H. left. unfold error. destruct (r_position r2). eexists; reflexivity. Qed.
  Lemma tr_peek_error {A} c : tr (@peek_error A c).
  Proof. intros r1 r2 H. left. unfold peek_error. destruct (r_peek_position r2). eexists; reflexivity. Qed.
  Lemma tr_error_consume {A} c : tr (@error_consume A c).
  Proof. intros r1 r2 H. left. unfold error_consume, peek_error. destruct (r_peek_position r2). eexists; reflexivity. Qed.
  Lemma tr_position : tr position.
  Proof.
    intros r1 r2 H. right. left. pose proof H as (K1 & K2 & L & C & _). unfold position, r_position. rewrite L, C. cbn [fst snd]. split; [reflexivity|exact H].
  Qed.

  (* sequencing: what follows must also behave at the end of the input *)
  Lemma tr_bind {A B} (m : M A) (f : A -> M B) : tr m -> (forall a, tr (f a)) -> (forall a, ef (f a)) -> tr (bind m f).
  Proof.
    intros Hm Hf He r1 r2 H. unfold tc, bind. destruct (Hm r1 r2 H) as [(e & E)|[(E & Hr)|(Ha & Ho)]].
    - left. destruct (m r2) as [[a|e'] r2']; cbn [fst] in E; [discriminate|]. eexists; reflexivity.
    - destruct (m r1) as [[a1|e1] r1']; destruct (m r2) as [[a2|e2] r2']; cbn [fst snd] in *; try discriminate.
      + inversion E; subst a2. apply Hf. exact Hr.
      + left. eexists; reflexivity.
    - right. right. destruct (m r1) as [[a1|e1] r1']; cbn [fst snd] in *.
      + apply He. exact Ha.
      + split; assumption.
  Qed.
  (* after a step that reports the end when the prefix runs out, only the
     end-of-input branch of what follows is ever entered there *)
  Lemma tr_bind_opt {A} (m : M (option N)) (k : option N -> M A) :
    (forall r1 r2, trel r1 r2 -> (exists e, fst (m r2) = Err e) \/ (fst (m r1) = fst (m r2) /\ trel (snd (m r1)) (snd (m r2))) \/
                                 (exists r', m r1 = (Ok None, r') /\ ateof r')) ->
    (forall o, tr (k o)) -> ef (k None) -> tr (bind m k).
  Proof.
    intros Hm Hk He r1 r2 H. unfold tc, bind. destruct (Hm r1 r2 H) as [(e & E)|[(E & Hr)|(r' & E & Ha)]].
    - left. destruct (m r2) as [[a|e'] r2']; cbn [fst] in E; [discriminate|]. eexists; reflexivity.
    - destruct (m r1) as [[a1|e1] r1']; destruct (m r2) as [[a2|e2] r2']; cbn [fst snd] in *; try discriminate.
      + inversion E; subst a2. apply Hk. exact Hr.
      + left. eexists; reflexivity.
    - right. right. rewrite E. apply He. exact Ha.
  Qed.
  Lemma tr_bind_peek {A} (k : option N -> M A) : (forall o, tr (k o)) -> ef (k None) -> tr (bind peek k).
  Proof. apply tr_bind_opt. exact peek_cases. Qed.
  Lemma tr_bind_next {A} (k : option N -> M A) : (forall o, tr (k o)) -> ef (k None) -> tr (bind next_char k).
  Proof. apply tr_bind_opt. exact next_cases. Qed.
  Lemma tr_bind_peek_or_null {A} (k : N -> M A) : (forall c, tr (k c)) -> ef (k 0) -> tr (bind peek_or_null k).
  Proof.
    intros Hk He. unfold peek_or_null.
    assert (E : forall r, bind (bind peek (fun o => ret match o with Some b => b | None => 0 end)) k r =
                          bind peek (fun o => k match o with Some b => b | None => 0 end) r).
    { intros r. unfold bind, ret. destruct (peek r) as [[o|e] r']; reflexivity. }
    intros r1 r2 H. unfold tc. rewrite !E. apply (tr_bind_peek (fun o => k match o with Some b => b | None => 0 end)); [intros o; apply Hk|exact He|exact H].
  Qed.
  Lemma tr_bind_next_or_eof {A} (k : N -> M A) : (forall c, tr (k c)) -> tr (bind next_or_eof k).
  Proof.
    intros Hk. unfold next_or_eof.
    assert (E : forall r, bind (bind next_char (fun o => match o with Some b => ret b | None => error EofWhileParsingString end)) k r =
                          bind next_char (fun o => match o with Some b => k b | None => error EofWhileParsingString end) r).
    { intros r. unfold bind, ret. destruct (next_char r) as [[[b|]|e] r']; try reflexivity; unfold error; destruct (r_position r'); reflexivity. }
    intros r1 r2 H. unfold tc. rewrite !E. apply (tr_bind_next (fun o => match o with Some b => k b | None => error EofWhileParsingString end));
      [intros [b|]; [apply Hk|apply tr_error]|apply ef_error; reflexivity|exact H].
  Qed.
  Lemma tr_bind_next_or_eof_char {A} (k : N -> M A) : (forall c, tr (k c)) -> tr (bind next_or_eof_char k).
  Proof.
    intros Hk. unfold next_or_eof_char.
    assert (E : forall r, bind (bind next_char (fun o => match o with Some b => ret b | None => error EofWhileParsingCharacterConstant end)) k r =
                          bind next_char (fun o => match o with Some b => k b | None => error EofWhileParsingCharacterConstant end) r).
    { intros r. unfold bind, ret. destruct (next_char r) as [[[b|]|e] r']; try reflexivity; unfold error; destruct (r_position r'); reflexivity. }
    intros r1 r2 H. unfold tc. rewrite !E. apply (tr_bind_next (fun o => match o with Some b => k b | None => error EofWhileParsingCharacterConstant end));
      [intros [b|]; [apply Hk|apply tr_error]|apply ef_error; reflexivity|exact H].
  Qed.
  Lemma tr_ext {A} (m m' : M A) : (forall r, m r = m' r) -> tr m' -> tr m.
  Proof. intros E H r1 r2 Hr. unfold tc. rewrite !E. apply H. exact Hr. Qed.

  (* steps that cannot return a value once the prefix has run out *)
  Definition tcs {A} (m : M A) (r1 r2 : reader) : Prop :=
    (exists e, fst (m r2) = Err e) \/
    (fst (m r1) = fst (m r2) /\ trel (snd (m r1)) (snd (m r2))) \/
    (ateof (snd (m r1)) /\ exists e, fst (m r1) = Err e /\ eofish e).
  Definition trs {A} (m : M A) : Prop := forall r1 r2, trel r1 r2 -> tcs m r1 r2.
  Definition efs {A} (m : M A) : Prop := forall r, ateof r -> ateof (snd (m r)) /\ exists e, fst (m r) = Err e /\ eofish e.
  Lemma trs_tr {A} (m : M A) : trs m -> tr m.
  Proof.
    intros H r1 r2 Hr. destruct (H r1 r2 Hr) as [E|[E|(Ha & e & E & He)]]; [left; exact E|right; left; exact E|].
    right. right. split; [exact Ha|]. rewrite E. exact He.
  Qed.
  Lemma trs_ret {A} (a : A) : trs (ret a).
  Proof. intros r1 r2 H. right. left. split; [reflexivity|exact H]. Qed.
  Lemma trs_error {A} c : trs (@error A c).
  Proof. intros r1 r2 H. left. unfold error. destruct (r_position r2). eexists; reflexivity. Qed.
  Lemma efs_error {A} c : eofcode c = true -> efs (@error A c).
  Proof. intros Hc r H. unfold error. destruct (r_position r). cbn [fst snd]. split; [exact H|]. eexists. split; [reflexivity|exact Hc]. Qed.
  Lemma trs_bind {A B} (m : M A) (f : A -> M B) : trs m -> (forall a, trs (f a)) -> trs (bind m f).
  Proof.
    intros Hm Hf r1 r2 H. unfold tcs, bind. destruct (Hm r1 r2 H) as [(e & E)|[(E & Hr)|(Ha & e & E & He)]].
    - left. destruct (m r2) as [[a|e'] r2']; cbn [fst] in E; [discriminate|]. eexists; reflexivity.
    - destruct (m r1) as [[a1|e1] r1']; destruct (m r2) as [[a2|e2] r2']; cbn [fst snd] in *; try discriminate.
      + inversion E; subst a2. apply Hf. exact Hr.
      + left. eexists; reflexivity.
    - right. right. destruct (m r1) as [[a1|e1] r1']; cbn [fst snd] in *; [discriminate|]. inversion E; subst e1.
      split; [exact Ha|]. eexists. split; [reflexivity|exact He].
  Qed.
  Lemma trs_bind_next {A} (k : option N -> M A) : (forall o, trs (k o)) -> efs (k None) -> trs (bind next_char k).
  Proof.
    intros Hk He r1 r2 H. unfold tcs, bind. destruct (next_cases r1 r2 H) as [(e & E)|[(E & Hr)|(r' & E & Ha)]].
    - left. destruct (next_char r2) as [[a|e'] r2']; cbn [fst] in E; [discriminate|]. eexists; reflexivity.
    - destruct (next_char r1) as [[a1|e1] r1']; destruct (next_char r2) as [[a2|e2] r2']; cbn [fst snd] in *; try discriminate.
      + inversion E; subst a2. apply Hk. exact Hr.
      + left. eexists; reflexivity.
    - right. right. rewrite E. apply He. exact Ha.
  Qed.
  Lemma tr_bind_strict {A B} (m : M A) (f : A -> M B) : trs m -> (forall a, tr (f a)) -> tr (bind m f).
  Proof.
    intros Hm Hf r1 r2 H. unfold tc, bind. destruct (Hm r1 r2 H) as [(e & E)|[(E & Hr)|(Ha & e & E & He)]].
    - left. destruct (m r2) as [[a|e'] r2']; cbn [fst] in E; [discriminate|]. eexists; reflexivity.
    - destruct (m r1) as [[a1|e1] r1']; destruct (m r2) as [[a2|e2] r2']; cbn [fst snd] in *; try discriminate.
      + inversion E; subst a2. apply Hf. exact Hr.
      + left. eexists; reflexivity.
    - right. right. destruct (m r1) as [[a1|e1] r1']; cbn [fst snd] in *; [discriminate|]. inversion E; subst e1. split; assumption.
  Qed.
  Lemma trs_eat : trs eat_char.
  Proof. intros r1 r2 H. right. left. unfold eat_char. cbn [fst snd]. split; [reflexivity|apply discard_trel; exact H]. Qed.
  Lemma trs_take_bytes k : forall acc, trs (take_bytes k acc).
  Proof.
    induction k as [|k IH]; intros acc; cbn [take_bytes]; [apply trs_ret|].
    apply trs_bind_next; [intros [c|]; [apply IH|apply trs_error]|apply efs_error; reflexivity].
  Qed.
  Lemma trs_decode_utf8_sequence_b c : trs (decode_utf8_sequence_b c).
  Proof.
    unfold decode_utf8_sequence_b. destruct (in_range 192 223 c || in_range 224 247 c); [|apply trs_error].
    apply trs_bind; [apply trs_take_bytes|]. intros b. destruct (utf8_valid b); [apply trs_ret|apply trs_error].
  Qed.

  (* a step whose value, when the prefix runs out, is related to the value the whole stream yields *)
  Definition tcq {A} (Q : A -> A -> Prop) (m : M A) (r1 r2 : reader) : Prop :=
    (exists e, fst (m r2) = Err e) \/
    (fst (m r1) = fst (m r2) /\ trel (snd (m r1)) (snd (m r2))) \/
    (ateof (snd (m r1)) /\ match fst (m r1) with Err e => eofish e | Ok a1 => exists a2, fst (m r2) = Ok a2 /\ Q a1 a2 end).
  Lemma tr_bind_q {A B} (Q : A -> A -> Prop) (m : M A) (f : A -> M B) :
    (forall r1 r2, trel r1 r2 -> tcq Q m r1 r2) -> (forall a, tr (f a)) ->
    (forall a1 a2, Q a1 a2 -> (forall r, exists e, fst (f a2 r) = Err e) \/ ef (f a1)) -> tr (bind m f).
  Proof.
    intros Hm Hf Hq r1 r2 H. unfold tc, bind. destruct (Hm r1 r2 H) as [(e & E)|[(E & Hr)|(Ha & Ho)]].
    - left. destruct (m r2) as [[a|e'] r2']; cbn [fst] in E; [discriminate|]. eexists; reflexivity.
    - destruct (m r1) as [[a1|e1] r1']; destruct (m r2) as [[a2|e2] r2']; cbn [fst snd] in *; try discriminate.
      + inversion E; subst a2. apply Hf. exact Hr.
      + left. eexists; reflexivity.
    - destruct (m r1) as [[a1|e1] r1']; cbn [fst snd] in *.
      + destruct Ho as (a2 & E2 & HQ). destruct (m r2) as [[a2'|e2] r2']; cbn [fst] in E2; [|discriminate]. inversion E2; subst a2'.
        destruct (Hq a1 a2 HQ) as [Hall|He]; [left; apply Hall|right; right; apply He; exact Ha].
      + right. right. split; assumption.
  Qed.
  (* the character-name loop: what the prefix collected is the beginning of what the whole collects *)
  Lemma char_name_extends fuel : forall scratch r s r', char_name_loop fuel scratch r = (Ok s, r') -> exists ext, s = scratch ++ ext.
  Proof.
    induction fuel as [|f IH]; intros scratch r s r' E; cbn [char_name_loop] in E; [discriminate|].
    unfold bind in E. destruct (peek r) as [[[c|]|e] r1]; try discriminate.
    - destruct (is_delimiter_chr c); [inversion E; subst; exists []; rewrite app_nil_r; reflexivity|].
      unfold eat_char in E. cbn [fst snd] in E. destruct (IH _ _ _ _ E) as [ext ->]. exists (c :: ext). rewrite <- app_assoc. reflexivity.
    - inversion E; subst. exists []. rewrite app_nil_r. reflexivity.
  Qed.
  Lemma tcq_char_name_loop fuel : forall scratch r1 r2, trel r1 r2 ->
    tcq (fun s1 s2 => exists ext, s2 = s1 ++ ext) (char_name_loop fuel scratch) r1 r2.
  Proof.
    induction fuel as [|f IH]; intros scratch r1 r2 H; [left; eexists; reflexivity|].
    destruct (peek_cases r1 r2 H) as [(e & E)|[(E & Hr)|(r' & E & Ha)]].
    - left. cbn [char_name_loop]. unfold bind. destruct (peek r2) as [[a|e'] r2']; cbn [fst] in E; [discriminate|]. eexists; reflexivity.
    - unfold tcq. cbn [char_name_loop]. unfold bind.
      destruct (peek r1) as [[o1|e1] r1']; destruct (peek r2) as [[o2|e2] r2']; cbn [fst snd] in *; try discriminate.
      + inversion E; subst o2. destruct o1 as [c|].
        * destruct (is_delimiter_chr c); [right; left; split; [reflexivity|exact Hr]|].
          unfold eat_char. cbn [fst snd]. apply IH. apply discard_trel. exact Hr.
        * right. left. split; [reflexivity|exact Hr].
      + left. eexists; reflexivity.
    - assert (E1 : char_name_loop (S f) scratch r1 = (Ok scratch, r')) by (cbn [char_name_loop]; unfold bind; rewrite E; reflexivity).
      unfold tcq. rewrite E1. cbn [fst snd].
      destruct (char_name_loop (S f) scratch r2) as [[s2|e2] r2''] eqn:EL; cbn [fst]; [|left; eexists; reflexivity].
      right. right. split; [exact Ha|]. exists s2. split; [reflexivity|].
      exact (char_name_extends (S f) scratch r2 s2 r2'' EL).
  Qed.
  Lemma starts_with_prefix a ext : starts_with a (a ++ ext) = true.
  Proof. induction a as [|x a IH]; cbn [starts_with app]; [reflexivity|]. rewrite N.eqb_refl, IH. reflexivity. Qed.
  Lemma beq_bytes_eq a : forall b, beq_bytes a b = true -> a = b.
  Proof.
    induction a as [|x a IH]; intros [|y b] H; cbn [beq_bytes] in H; try discriminate; [reflexivity|].
    apply andb_prop in H. destruct H as [H1 H2]. apply N.eqb_eq in H1. subst y. f_equal. apply IH. exact H2.
  Qed.
  Lemma lookup_prefix a ext l c : lookup_name (a ++ ext) l = Some c -> existsb (fun kv : bytes * N => starts_with a (fst kv)) l = true.
  Proof.
    induction l as [|[k v] l IH]; cbn [lookup_name existsb fst]; [discriminate|].
    destruct (beq_bytes k (a ++ ext)) eqn:E.
    - intros _. apply beq_bytes_eq in E. subst k. rewrite starts_with_prefix. reflexivity.
    - intros H. rewrite (IH H). apply orb_true_r.
  Qed.

  (* the whitespace skipper: when the prefix runs out it reports the end *)
  Definition tco {A} (v : A) (m : M A) (r1 r2 : reader) : Prop :=
    (exists e, fst (m r2) = Err e) \/
    (fst (m r1) = fst (m r2) /\ trel (snd (m r1)) (snd (m r2))) \/
    (ateof (snd (m r1)) /\ (fst (m r1) = Ok v \/ exists e, fst (m r1) = Err e /\ eofish e)).
  Lemma tco_skip_comment fuel : forall r1 r2, trel r1 r2 -> tco false (skip_comment fuel) r1 r2.
  Proof.
    induction fuel as [|f IH]; intros r1 r2 H; [left; eexists; reflexivity|].
    unfold tco. cbn [skip_comment]. unfold bind. destruct (next_cases r1 r2 H) as [(e & E)|[(E & Hr)|(r' & E & Ha)]].
    - left. destruct (next_char r2) as [[a|e'] r2']; cbn [fst] in E; [discriminate|]. eexists; reflexivity.
    - destruct (next_char r1) as [[o1|e1] r1']; destruct (next_char r2) as [[o2|e2] r2']; cbn [fst snd] in *; try discriminate.
      + inversion E; subst o2. destruct o1 as [c|]; [|right; left; split; [reflexivity|exact Hr]].
        destruct (c =? 10); [right; left; split; [reflexivity|exact Hr]|]. apply IH. exact Hr.
      + left. eexists; reflexivity.
    - right. right. rewrite E. cbn [ret fst snd]. split; [exact Ha|left; reflexivity].
  Qed.
  Lemma ws_unfold f r : parse_whitespace (S f) r =
    match peek r with
    | (Ok (Some c), r') =>
        if c =? 59 then
          match skip_comment f r' with
          | (Ok more, r'') => if more then parse_whitespace f r'' else (Ok None, r'')
          | (Err e, r'') => (Err e, r'')
          end
        else if memb c [32; 10; 9; 13; 12] then parse_whitespace f (r_discard r')
        else (Ok (Some c), r')
    | (Ok None, r') => (Ok None, r')
    | (Err e, r') => (Err e, r')
    end.
  Proof.
    cbn [parse_whitespace]. unfold bind. destruct (peek r) as [[[c|]|e] r']; try reflexivity.
    destruct (c =? 59); [destruct (skip_comment f r') as [[[|]|e] r'']; reflexivity|].
    destruct (memb c [32; 10; 9; 13; 12]); reflexivity.
  Qed.
  Lemma tco_parse_whitespace fuel : forall r1 r2, trel r1 r2 -> tco None (parse_whitespace fuel) r1 r2.
  Proof.
    induction fuel as [|f IH]; intros r1 r2 H; [left; eexists; reflexivity|].
    unfold tco. rewrite !ws_unfold. destruct (peek_cases r1 r2 H) as [(e & E)|[(E & Hr)|(r' & E & Ha)]].
    - left. destruct (peek r2) as [[a|e'] r2']; cbn [fst] in E; [discriminate|]. eexists; reflexivity.
    - destruct (peek r1) as [[o1|e1] r1']; destruct (peek r2) as [[o2|e2] r2']; cbn [fst snd] in *; try discriminate.
      + inversion E; subst o2. destruct o1 as [c|]; [|right; left; split; [reflexivity|exact Hr]].
        destruct (c =? 59).
        * destruct (tco_skip_comment f r1' r2' Hr) as [(e & Ec)|[(Ec & Hrc)|(Hac & Hoc)]].
          -- left. destruct (skip_comment f r2') as [[a|e'] r2'']; cbn [fst] in Ec; [discriminate|]. eexists; reflexivity.
          -- destruct (skip_comment f r1') as [[m1|e1] r1'']; destruct (skip_comment f r2') as [[m2|e2] r2'']; cbn [fst snd] in *; try discriminate.
             ++ inversion Ec; subst m2. destruct m1; [apply IH; exact Hrc|right; left; split; [reflexivity|exact Hrc]].
             ++ left. eexists; reflexivity.
          -- right. right. destruct (skip_comment f r1') as [[m1|e1] r1'']; cbn [fst snd] in *.
             ++ destruct Hoc as [Eo|(e & Eo & _)]; [|discriminate]. inversion Eo; subst m1. cbn [fst snd]. split; [exact Hac|left; reflexivity].
             ++ destruct Hoc as [Eo|(e & Eo & He)]; [discriminate|]. inversion Eo; subst e1. cbn [fst snd]. split; [exact Hac|right; eexists; split; [reflexivity|exact He]].
        * destruct (memb c [32; 10; 9; 13; 12]).
          -- apply IH. apply discard_trel. exact Hr.
          -- right. left. split; [reflexivity|exact Hr].
      + left. eexists; reflexivity.
    - right. right. rewrite E. cbn [fst snd]. split; [exact Ha|left; reflexivity].
  Qed.
  Lemma tr_bind_ws {A} fuel (k : option N -> M A) : (forall o, tr (k o)) -> ef (k None) -> tr (bind (parse_whitespace fuel) k).
  Proof.
    intros Hk He r1 r2 H. unfold tc, bind. destruct (tco_parse_whitespace fuel r1 r2 H) as [(e & E)|[(E & Hr)|(Ha & Ho)]].
    - left. destruct (parse_whitespace fuel r2) as [[a|e'] r2']; cbn [fst] in E; [discriminate|]. eexists; reflexivity.
    - destruct (parse_whitespace fuel r1) as [[a1|e1] r1']; destruct (parse_whitespace fuel r2) as [[a2|e2] r2']; cbn [fst snd] in *; try discriminate.
      + inversion E; subst a2. apply Hk. exact Hr.
      + left. eexists; reflexivity.
    - right. right. destruct (parse_whitespace fuel r1) as [[a1|e1] r1']; cbn [fst snd] in *.
      + destruct Ho as [Eo|(e & Eo & _)]; [|discriminate]. inversion Eo; subst a1. apply He. exact Ha.
      + destruct Ho as [Eo|(e & Eo & Hee)]; [discriminate|]. inversion Eo; subst e1. split; assumption.
  Qed.

  Ltac tr_step :=
    first
      [ first [apply tr_ret | apply tr_fuel | apply tr_eat | apply tr_error | apply tr_peek_error | apply tr_error_consume
              | apply tr_position | apply tr_peek | apply tr_next ]
      | solve [eauto 3 with trdb]
      | apply tr_bind_peek; [intros ?|solve [ef_auto]]
      | apply tr_bind_next; [intros ?|solve [ef_auto]]
      | apply tr_bind_peek_or_null; [intros ?|zero_simpl; solve [ef_auto]]
      | apply tr_bind_next_or_eof; intros ?
      | apply tr_bind_next_or_eof_char; intros ?
      | apply tr_bind_ws; [intros ?|solve [ef_auto]]
      | apply tr_bind_strict; [solve [apply trs_eat | apply trs_decode_utf8_sequence_b | apply trs_take_bytes]|intros ?]
      | apply tr_bind; [|intros ?|intros ?; solve [ef_auto]]
      | match goal with
        | |- tr (match ?x with _ => _ end) => destruct x
        | |- tr (if ?x then _ else _) => destruct x
        | |- tr (let '(_, _) := ?x in _) => destruct x
        end ].
  Ltac tr_auto := repeat tr_step.

Lemma tr_peek_or_null : tr peek_or_null.
Proof. unfold peek_or_null. tr_auto. Qed.
Lemma tr_next_or_eof : tr next_or_eof.
Proof. unfold next_or_eof. tr_auto. Qed.
Lemma tr_next_or_eof_char : tr next_or_eof_char.
Proof. unfold next_or_eof_char. tr_auto. Qed.
Lemma tr_as_str b : tr (Scan.as_str b).
Proof. unfold Scan.as_str. tr_auto. Qed.
#[local] Hint Resolve tr_peek_or_null tr_next_or_eof tr_next_or_eof_char tr_as_str : trdb.





Lemma tr_scan_symbol_io fuel : forall scratch, tr (scan_symbol_io fuel scratch).
Proof. induction fuel as [|f IH]; intros scratch; cbn [scan_symbol_io]; tr_auto. Qed.
Lemma tr_parse_symbol_rd fuel scratch : tr (parse_symbol_rd fuel scratch).
Proof.
  intros r1 r2 H. pose proof H as (K1 & K2 & _). unfold tc, parse_symbol_rd. rewrite K1, K2.
  pose proof tr_scan_symbol_io. assert (Hs : tr (b <- scan_symbol_io fuel scratch ;; Scan.as_str b)) by tr_auto. apply Hs. exact H.
Qed.
#[local] Hint Resolve tr_parse_symbol_rd : trdb.

Lemma tr_hex_escape_loop fuel : forall x, tr (hex_escape_loop fuel x).
Proof. induction fuel as [|f IH]; intros x; cbn [hex_escape_loop]; tr_auto. Qed.
Lemma tr_parse_r6rs_escape fuel : tr (parse_r6rs_escape fuel).
Proof. pose proof tr_hex_escape_loop. unfold parse_r6rs_escape, decode_r6rs_hex_escape. tr_auto. Qed.
#[local] Hint Resolve tr_parse_r6rs_escape : trdb.


Lemma tr_r6rs_str_io fuel : forall scratch, tr (r6rs_str_io fuel scratch).
Proof. induction fuel as [|f IH]; intros scratch; cbn [r6rs_str_io]; tr_auto. Qed.
Lemma tr_parse_r6rs_str_rd fuel : tr (parse_r6rs_str_rd fuel).
Proof.
  intros r1 r2 H. pose proof H as (K1 & K2 & _). unfold tc, parse_r6rs_str_rd. rewrite K1, K2.
  pose proof tr_r6rs_str_io. assert (Hs : tr (b <- r6rs_str_io fuel [] ;; Scan.as_str b)) by tr_auto. apply Hs. exact H.
Qed.
#[local] Hint Resolve tr_parse_r6rs_str_rd : trdb.

Lemma tr_elisp_hex_loop fuel : forall x, tr (elisp_hex_loop fuel x).
Proof. induction fuel as [|f IH]; intros x; cbn [elisp_hex_loop]; tr_auto. Qed.
Lemma tr_decode_elisp_uni_escape k : forall x, tr (decode_elisp_uni_escape k x).
Proof. induction k as [|k IH]; intros x; cbn [decode_elisp_uni_escape]; tr_auto. Qed.
Lemma tr_elisp_octal_loop fuel : forall x, tr (elisp_octal_loop fuel x).
Proof. induction fuel as [|f IH]; intros x; cbn [elisp_octal_loop]; tr_auto. Qed.
Lemma tr_elisp_char_escape_of x : tr (elisp_char_escape_of x).
Proof. unfold elisp_char_escape_of. tr_auto. Qed.
Lemma tr_elisp_uni_escape_of x : tr (elisp_uni_escape_of x).
Proof. unfold elisp_uni_escape_of. tr_auto. Qed.
#[local] Hint Resolve tr_elisp_hex_loop tr_decode_elisp_uni_escape tr_elisp_octal_loop tr_elisp_char_escape_of tr_elisp_uni_escape_of : trdb.
Lemma tr_parse_elisp_escape fuel : tr (parse_elisp_escape fuel).
Proof. unfold parse_elisp_escape, decode_elisp_hex_escape, decode_elisp_octal_escape. tr_auto. Qed.
#[local] Hint Resolve tr_parse_elisp_escape : trdb.
Lemma tr_elisp_finish fl scratch : tr (elisp_finish fl scratch).
Proof. unfold elisp_finish. tr_auto. Qed.
#[local] Hint Resolve tr_elisp_finish : trdb.


Lemma tr_elisp_str_io fuel : forall fl scratch, tr (elisp_str_io fuel fl scratch).
Proof. induction fuel as [|f IH]; intros fl scratch; cbn [elisp_str_io]; cbv zeta; tr_auto. Qed.
Lemma tr_parse_elisp_str_rd fuel : tr (parse_elisp_str_rd fuel).
Proof.
  intros r1 r2 H. pose proof H as (K1 & K2 & _). unfold tc, parse_elisp_str_rd. cbv zeta. rewrite K1, K2.
  apply tr_elisp_str_io. exact H.
Qed.
#[local] Hint Resolve tr_parse_elisp_str_rd : trdb.

Lemma tr_take_bytes k : forall acc, tr (take_bytes k acc).
Proof. induction k as [|k IH]; intros acc; cbn [take_bytes]; tr_auto. Qed.
#[local] Hint Resolve tr_take_bytes : trdb.
Lemma tr_decode_utf8_sequence_b c : tr (decode_utf8_sequence_b c).
Proof. unfold decode_utf8_sequence_b. tr_auto. Qed.
#[local] Hint Resolve tr_decode_utf8_sequence_b : trdb.
Lemma tr_decode_utf8_sequence c : tr (decode_utf8_sequence c).
Proof. unfold decode_utf8_sequence. tr_auto. Qed.
#[local] Hint Resolve tr_decode_utf8_sequence : trdb.
Lemma tr_r6rs_char_hex_loop fuel : forall x first, tr (r6rs_char_hex_loop fuel x first).
Proof. induction fuel as [|f IH]; intros x first; cbn [r6rs_char_hex_loop]; tr_auto. Qed.
Lemma tr_char_name_loop fuel : forall scratch, tr (char_name_loop fuel scratch).
Proof. induction fuel as [|f IH]; intros scratch; cbn [char_name_loop]; tr_auto. Qed.
Lemma tr_open_ended_char x : tr (open_ended_char x).
Proof. unfold open_ended_char. tr_auto. Qed.
#[local] Hint Resolve tr_r6rs_char_hex_loop tr_char_name_loop tr_open_ended_char : trdb.
Lemma tr_char_name_tail fuel c n :
    tr (name <- char_name_loop fuel [c; n];;
        match lookup_name name CHAR_NAMES with
        | Some c0 => ret c0
        | None =>
            o2 <- peek;;
            match o2 with
            | Some _ => error InvalidCharacterConstant
            | None => if existsb (fun kv : bytes * N => starts_with name (fst kv)) CHAR_NAMES
                      then error EofWhileParsingCharacterConstant else error InvalidCharacterConstant
            end
        end).
  Proof.
    assert (Hfail : forall name r, exists e,
              fst ((o2 <- peek;;
                    match o2 with
                    | Some _ => error InvalidCharacterConstant
                    | None => if existsb (fun kv : bytes * N => starts_with name (fst kv)) CHAR_NAMES
                              then error EofWhileParsingCharacterConstant else error InvalidCharacterConstant
                    end) r) = @Err N e).
    { intros name r. unfold bind. destruct (peek r) as [[[x|]|e] r']; cbn [fst].
      - unfold error. destruct (r_position r'). eexists; reflexivity.
      - destruct (existsb _ CHAR_NAMES); unfold error; destruct (r_position r'); eexists; reflexivity.
      - eexists; reflexivity. }
    apply (tr_bind_q (fun s1 s2 => exists ext, s2 = s1 ++ ext)); [intros r1 r2 H; apply tcq_char_name_loop; exact H| |].
    - intros name. destruct (lookup_name name CHAR_NAMES); [apply tr_ret|]. intros r1 r2 _. left. apply Hfail.
    - intros a1 a2 [ext E2]. subst a2. destruct (lookup_name (a1 ++ ext) CHAR_NAMES) as [c0|] eqn:El.
      + right. destruct (lookup_name a1 CHAR_NAMES); [apply ef_ret|]. apply ef_bind_peek.
        rewrite (lookup_prefix a1 ext CHAR_NAMES c0 El). apply ef_error. reflexivity.
      + left. intros r. apply Hfail.
  Qed.
  Hint Resolve tr_char_name_tail : trdb.
Lemma tr_parse_r6rs_char fuel : tr (parse_r6rs_char fuel).
Proof. unfold parse_r6rs_char. tr_auto. Qed.
#[local] Hint Resolve tr_parse_r6rs_char : trdb.
Lemma tr_as_char x : tr (Scan.as_char x).
Proof. unfold Scan.as_char. tr_auto. Qed.
#[local] Hint Resolve tr_as_char : trdb.
Lemma tr_decode_elisp_char_escape fuel : tr (decode_elisp_char_escape fuel).
Proof. unfold decode_elisp_char_escape, decode_elisp_hex_escape, decode_elisp_octal_escape. tr_auto. Qed.
#[local] Hint Resolve tr_decode_elisp_char_escape : trdb.
Lemma tr_parse_elisp_char fuel : tr (parse_elisp_char fuel).
Proof. unfold parse_elisp_char. tr_auto. Qed.
#[local] Hint Resolve tr_parse_elisp_char : trdb.

(* ---- numbers: neither reader looks at its kind ---- *)
Section NumTr.
  Variable fast : bool.
  Variable std_parse : N -> Z -> f64.

  Lemma tr_fast_loop fuel : forall f e, tr (f64_from_parts_fast_loop fuel f e).
  Proof. induction fuel as [|k IH]; intros f e; cbn [f64_from_parts_fast_loop]; tr_auto. Qed.
  Lemma tr_f64_from_parts pos sig e : tr (f64_from_parts fast std_parse pos sig e).
  Proof. pose proof tr_fast_loop. unfold f64_from_parts. cbv zeta. tr_auto. Qed.
  Hint Resolve tr_f64_from_parts : trdb.
  Lemma tr_skip_digits fuel : tr (skip_digits fuel).
  Proof. induction fuel as [|f IH]; cbn [skip_digits]; tr_auto. Qed.
  Hint Resolve tr_skip_digits : trdb.
  Lemma tr_parse_exponent_overflow fuel p s pe : tr (parse_exponent_overflow fuel p s pe).
  Proof. unfold parse_exponent_overflow. tr_auto. Qed.
  Hint Resolve tr_parse_exponent_overflow : trdb.
  Lemma tr_exponent_digits fuel : forall p s pe se e, tr (exponent_digits fast std_parse fuel p s pe se e).
  Proof. induction fuel as [|f IH]; intros p s pe se e; cbn [exponent_digits]; cbv zeta; tr_auto. Qed.
  Hint Resolve tr_exponent_digits : trdb.
  Lemma tr_parse_exponent fuel p s se : tr (parse_exponent fast std_parse fuel p s se).
  Proof. unfold parse_exponent. tr_auto. Qed.
  Hint Resolve tr_parse_exponent : trdb.
  Lemma tr_decimal_digits fuel : forall s e o, tr (decimal_digits fuel s e o).
  Proof. induction fuel as [|f IH]; intros s e o; cbn [decimal_digits]; cbv zeta; tr_auto. Qed.
  Hint Resolve tr_decimal_digits : trdb.
  Lemma tr_parse_decimal fuel p s e : tr (parse_decimal fast std_parse fuel p s e).
  Proof. unfold parse_decimal. tr_auto. Qed.
  Hint Resolve tr_parse_decimal : trdb.
  Lemma tr_parse_long_integer fuel : forall radix p s e, tr (parse_long_integer fast std_parse fuel radix p s e).
  Proof. induction fuel as [|f IH]; intros radix p s e; cbn [parse_long_integer]; cbv zeta; tr_auto. Qed.
  Hint Resolve tr_parse_long_integer : trdb.
  Lemma tr_parse_num_tail fuel radix p s : tr (parse_num_tail fast std_parse fuel radix p s).
  Proof. unfold parse_num_tail. tr_auto. Qed.
  Hint Resolve tr_parse_num_tail : trdb.
  Lemma tr_num_literal_loop fuel : forall radix p s, tr (num_literal_loop fast std_parse fuel radix p s).
  Proof. induction fuel as [|f IH]; intros radix p s; cbn [num_literal_loop]; tr_auto. Qed.
  Hint Resolve tr_num_literal_loop : trdb.
  Lemma tr_parse_num_literal fuel radix p : tr (parse_num_literal fast std_parse fuel radix p).
  Proof. unfold parse_num_literal. tr_auto. Qed.
End NumTr.
#[local] Hint Resolve tr_f64_from_parts tr_skip_digits tr_parse_exponent_overflow tr_exponent_digits tr_parse_exponent
  tr_decimal_digits tr_parse_decimal tr_parse_long_integer tr_parse_num_tail tr_num_literal_loop tr_parse_num_literal : trdb.

(* ---- tokens ---- *)
Section TokenTr.
  Variable ro : parse_options.
  Variable alpha : N -> bool.
  Variable fast : bool.
  Variable std_parse : N -> Z -> f64.

  Lemma tr_parse_num_token fuel radix p : tr (parse_num_token fast std_parse fuel radix p).
  Proof. unfold parse_num_token. tr_auto. Qed.
  Hint Resolve tr_parse_num_token : trdb.
  Lemma tr_parse_radix_literal fuel radix : tr (parse_radix_literal fast std_parse fuel radix).
  Proof. unfold parse_radix_literal. tr_auto. Qed.
  Hint Resolve tr_parse_radix_literal : trdb.
  Lemma tr_parse_number fuel : tr (parse_number fast std_parse fuel).
  Proof. unfold parse_number. tr_auto. Qed.
  Hint Resolve tr_parse_number : trdb.
  Lemma tr_skip_comment fuel : tr (skip_comment fuel).
  Proof. induction fuel as [|f IH]; cbn [skip_comment]; tr_auto. Qed.
  Hint Resolve tr_skip_comment : trdb.
  Lemma tr_parse_whitespace fuel : tr (parse_whitespace fuel).
  Proof. induction fuel as [|f IH]; cbn [parse_whitespace]; tr_auto. Qed.
  Hint Resolve tr_parse_whitespace : trdb.
  Lemma tr_parse_symbol fuel : tr (parse_symbol fuel).
  Proof. unfold parse_symbol. tr_auto. Qed.
  Lemma tr_parse_symbol_suffix fuel p : tr (parse_symbol_suffix fuel p).
  Proof. unfold parse_symbol_suffix. tr_auto. Qed.
  Hint Resolve tr_parse_symbol tr_parse_symbol_suffix : trdb.
  Lemma tr_expect_ident ident : tr (expect_ident ident).
  Proof. induction ident as [|c ident IH]; cbn [expect_ident]; tr_auto. Qed.
  Hint Resolve tr_expect_ident : trdb.
  Lemma tr_parse_token fuel b : tr (parse_token ro alpha fast std_parse fuel b).
  Proof. unfold parse_token. fold (@error_consume token ExpectedSomeValue). tr_auto. Qed.
  Lemma tr_end_seq fuel close : tr (end_seq fuel close).
  Proof. unfold end_seq. tr_auto. Qed.
  Lemma tr_expect_end fuel : tr (expect_end fuel).
  Proof. unfold expect_end. tr_auto. Qed.
  Lemma tr_byte_list_loop fuel : forall close acc, tr (byte_list_loop fast std_parse fuel close acc).
  Proof. induction fuel as [|f IH]; intros close acc; cbn [byte_list_loop]; tr_auto. Qed.
  Lemma tr_parse_byte_list fuel close : tr (parse_byte_list fast std_parse fuel close).
  Proof. pose proof tr_byte_list_loop. unfold parse_byte_list. tr_auto. Qed.
End TokenTr.


  (* ---- the parser proper ---- *)
  Definition pokres {A} (x : pres A) : Prop :=
    match x with POk _ => True | PErr (XErr e) => eofish e | PErr (XPanic _) => True end.
  Definition pef {A} (m : PM A) : Prop := forall s, ateof (rd s) -> ateof (rd (snd (m s))) /\ pokres (fst (m s)).
  Definition tprel (s1 s2 : pstate) : Prop := trel (rd s1) (rd s2) /\ depth s1 = depth s2.
  Definition ptc {A} (m : PM A) (s1 s2 : pstate) : Prop :=
    (exists x, fst (m s2) = PErr x) \/
    (fst (m s1) = fst (m s2) /\ tprel (snd (m s1)) (snd (m s2))) \/
    (ateof (rd (snd (m s1))) /\ pokres (fst (m s1))).
  Definition ptr {A} (m : PM A) : Prop := forall s1 s2, tprel s1 s2 -> ptc m s1 s2.

  Lemma pef_pret {A} (a : A) : pef (pret a).
  Proof. intros s H. split; [exact H|exact I]. Qed.
  Lemma pef_panic {A} k : pef (@panic A k).
  Proof. intros s H. split; [exact H|exact I]. Qed.
  Lemma pef_fuel {A} : pef (@pfail A (XErr EFuel)).
  Proof. intros s H. split; [exact H|exact I]. Qed.
  Lemma pef_liftR {A} (m : M A) : ef m -> pef (liftR m).
  Proof.
    intros Hm s H. unfold liftR. destruct (Hm (rd s) H) as [Ha Ho]. destruct (m (rd s)) as [[a|e] r']; cbn [fst snd rd] in *; split; assumption.
  Qed.
  Lemma pef_bind {A B} (m : PM A) (f : A -> PM B) : pef m -> (forall a, pef (f a)) -> pef (pbind m f).
  Proof.
    intros Hm Hf s H. rewrite pbind_unfold. destruct (Hm s H) as [Ha Ho]. destruct (m s) as [[a|x] s1]; cbn [fst snd] in *.
    - apply Hf. exact Ha.
    - split; assumption.
  Qed.
  Lemma pef_bind_ws {A} fuel (k : option N -> PM A) : pef (k None) -> pef (pbind (liftR (parse_whitespace fuel)) k).
  Proof.
    intros Hk s H. rewrite pbind_unfold. unfold liftR. destruct (ws_eof fuel (rd s) H) as [E|E]; rewrite E.
    - apply Hk. exact H.
    - cbn [fst snd rd]. split; [exact H|exact I].
  Qed.
  Lemma pef_same_reader {A} (m : PM A) : (forall s, rd (snd (m s)) = rd s) -> (forall s, pokres (fst (m s))) -> pef m.
  Proof. intros H1 H2 s H. rewrite H1. split; [exact H|apply H2]. Qed.
  Lemma pef_inc_depth : pef inc_depth.
  Proof.
    apply pef_same_reader; intros s; unfold inc_depth; rewrite pbind_unfold; unfold get_depth; cbn [fst snd];
      destruct (255 <=? depth s); reflexivity || exact I.
  Qed.
  Lemma pef_enter_nesting : pef enter_nesting.
  Proof.
    intros s H. unfold enter_nesting, dec_depth. rewrite !pbind_unfold. unfold get_depth. cbn [fst snd].
    destruct (depth s =? 0); [split; [exact H|exact I]|]. cbn [set_depth fst snd]. rewrite !pbind_unfold. cbn [get_depth fst snd depth].
    destruct (depth s - 1 =? 0); [|split; [exact H|exact I]].
    rewrite pbind_unfold. unfold inc_depth. rewrite pbind_unfold. cbn [get_depth fst snd depth].
    destruct (255 <=? depth s - 1); [split; [exact H|exact I]|]. cbn [set_depth fst snd].
    apply (pef_liftR (peek_error RecursionLimitExceeded)); [apply ef_peek_error; reflexivity|exact H].
  Qed.
  Lemma pef_attempt {A} (m : PM A) : pef m -> pef (attempt m).
  Proof.
    intros Hm s H. rewrite attempt_unfold. destruct (Hm s H) as [Ha Ho]. destruct (m s) as [[a|[[c l cl|io|]|k]] s1]; cbn [fst snd] in *; split; auto; exact I.
  Qed.
  Lemma pef_err {A} c : eofcode c = true -> pef (liftR (@peek_error A c)).
  Proof. intros Hc. apply pef_liftR. apply ef_peek_error. exact Hc. Qed.

  (* ---- two runs at parser level ---- *)
  Lemma ptr_pret {A} (a : A) : ptr (pret a).
  Proof. intros s1 s2 H. right. left. split; [reflexivity|exact H]. Qed.
  Lemma ptr_pfail {A} x : ptr (@pfail A x).
  Proof. intros s1 s2 H. left. eexists; reflexivity. Qed.
  Lemma ptr_liftR {A} (m : M A) : tr m -> ptr (liftR m).
  Proof.
    intros Hm s1 s2 [Hr Hd]. unfold ptc, liftR. destruct (Hm (rd s1) (rd s2) Hr) as [(e & E)|[(E & Hr')|(Ha & Ho)]].
    - left. destruct (m (rd s2)) as [[a|e'] r2']; cbn [fst] in E; [discriminate|]. eexists; reflexivity.
    - destruct (m (rd s1)) as [[a1|e1] r1']; destruct (m (rd s2)) as [[a2|e2] r2']; cbn [fst snd rd depth] in *; try discriminate.
      + right. left. inversion E; subst. split; [reflexivity|split; [exact Hr'|exact Hd]].
      + left. eexists; reflexivity.
    - right. right. destruct (m (rd s1)) as [[a1|e1] r1']; cbn [fst snd rd] in *; split; assumption.
  Qed.
  Lemma ptr_err {A} c : ptr (liftR (@peek_error A c)).
  Proof. apply ptr_liftR. apply tr_peek_error. Qed.
  Lemma ptr_bind {A B} (m : PM A) (f : A -> PM B) : ptr m -> (forall a, ptr (f a)) -> (forall a, pef (f a)) -> ptr (pbind m f).
  Proof.
    intros Hm Hf He s1 s2 H. unfold ptc. rewrite !pbind_unfold. destruct (Hm s1 s2 H) as [(x & E)|[(E & Hr)|(Ha & Ho)]].
    - left. destruct (m s2) as [[a|x'] s2']; cbn [fst] in E; [discriminate|]. eexists; reflexivity.
    - destruct (m s1) as [[a1|x1] s1']; destruct (m s2) as [[a2|x2] s2']; cbn [fst snd] in *; try discriminate.
      + inversion E; subst a2. apply Hf. exact Hr.
      + left. eexists; reflexivity.
    - right. right. destruct (m s1) as [[a1|x1] s1']; cbn [fst snd] in *.
      + apply He. exact Ha.
      + split; assumption.
  Qed.
  (* steps that never run out: they do not read *)
  Definition psame {A} (m : PM A) : Prop :=
    forall s1 s2, tprel s1 s2 -> (exists x, fst (m s2) = PErr x) \/ (fst (m s1) = fst (m s2) /\ tprel (snd (m s1)) (snd (m s2))).
  Lemma ptr_bind_same {A B} (m : PM A) (f : A -> PM B) : psame m -> (forall a, ptr (f a)) -> ptr (pbind m f).
  Proof.
    intros Hm Hf s1 s2 H. unfold ptc. rewrite !pbind_unfold. destruct (Hm s1 s2 H) as [(x & E)|(E & Hr)].
    - left. destruct (m s2) as [[a|x'] s2']; cbn [fst] in E; [discriminate|]. eexists; reflexivity.
    - destruct (m s1) as [[a1|x1] s1']; destruct (m s2) as [[a2|x2] s2']; cbn [fst snd] in *; try discriminate.
      + inversion E; subst a2. apply Hf. exact Hr.
      + left. eexists; reflexivity.
  Qed.
  Lemma psame_get_depth : psame get_depth.
  Proof. intros s1 s2 [Hr Hd]. right. unfold get_depth. cbn [fst snd]. rewrite Hd. split; [reflexivity|split; [exact Hr|exact Hd]]. Qed.
  Lemma psame_set_depth d : psame (set_depth d).
  Proof. intros s1 s2 [Hr Hd]. right. unfold set_depth. cbn [fst snd rd depth]. split; [reflexivity|split; [exact Hr|reflexivity]]. Qed.
  Lemma psame_bind {A B} (m : PM A) (f : A -> PM B) : psame m -> (forall a, psame (f a)) -> psame (pbind m f).
  Proof.
    intros Hm Hf s1 s2 H. rewrite !pbind_unfold. destruct (Hm s1 s2 H) as [(x & E)|(E & Hr)].
    - left. destruct (m s2) as [[a|x'] s2']; cbn [fst] in E; [discriminate|]. eexists; reflexivity.
    - destruct (m s1) as [[a1|x1] s1']; destruct (m s2) as [[a2|x2] s2']; cbn [fst snd] in *; try discriminate.
      + inversion E; subst a2. apply Hf. exact Hr.
      + left. eexists; reflexivity.
  Qed.
  Lemma psame_fail {A} x : psame (@pfail A x).
  Proof. intros s1 s2 H. left. eexists; reflexivity. Qed.
  Lemma psame_pret {A} (a : A) : psame (pret a).
  Proof. intros s1 s2 H. right. split; [reflexivity|exact H]. Qed.
  Lemma psame_dec_depth : psame dec_depth.
  Proof. unfold dec_depth. apply psame_bind; [apply psame_get_depth|]. intros d. destruct (d =? 0); [apply psame_fail|apply psame_set_depth]. Qed.
  Lemma psame_inc_depth : psame inc_depth.
  Proof. unfold inc_depth. apply psame_bind; [apply psame_get_depth|]. intros d. destruct (255 <=? d); [apply psame_fail|apply psame_set_depth]. Qed.
  Lemma psame_peek_error {A} c : psame (liftR (@peek_error A c)).
  Proof. intros s1 s2 H. left. unfold liftR, peek_error. destruct (r_peek_position (rd s2)). eexists; reflexivity. Qed.
  Lemma psame_enter_nesting : psame enter_nesting.
  Proof.
    unfold enter_nesting. apply psame_bind; [apply psame_dec_depth|]. intros _. apply psame_bind; [apply psame_get_depth|]. intros d.
    destruct (d =? 0); [|apply psame_pret]. apply psame_bind; [apply psame_inc_depth|]. intros _. apply psame_peek_error.
  Qed.
  Lemma psame_position : psame (liftR position).
  Proof.
    intros s1 s2 [Hr Hd]. right. unfold liftR, position, r_position. pose proof Hr as (K1 & K2 & L & C & _). rewrite L, C. cbn [fst snd].
    split; [reflexivity|]. split; [cbn [rd]; exact Hr|cbn [depth]; exact Hd].
  Qed.
  Lemma ptr_bind_ws {A} fuel (k : option N -> PM A) : (forall o, ptr (k o)) -> pef (k None) -> ptr (pbind (liftR (parse_whitespace fuel)) k).
  Proof.
    intros Hk He s1 s2 [Hr Hd]. unfold ptc. rewrite !pbind_unfold. unfold liftR.
    destruct (tco_parse_whitespace fuel (rd s1) (rd s2) Hr) as [(e & E)|[(E & Hr')|(Ha & Ho)]].
    - left. destruct (parse_whitespace fuel (rd s2)) as [[a|e'] r2']; cbn [fst] in E; [discriminate|]. eexists; reflexivity.
    - destruct (parse_whitespace fuel (rd s1)) as [[a1|e1] r1']; destruct (parse_whitespace fuel (rd s2)) as [[a2|e2] r2']; cbn [fst snd] in *; try discriminate.
      + inversion E; subst a2. apply Hk. split; [exact Hr'|exact Hd].
      + left. eexists; reflexivity.
    - right. right. destruct (parse_whitespace fuel (rd s1)) as [[a1|e1] r1']; cbn [fst snd] in *.
      + destruct Ho as [Eo|(e & Eo & _)]; [|discriminate]. inversion Eo; subst a1. apply He. exact Ha.
      + destruct Ho as [Eo|(e & Eo & Hee)]; [discriminate|]. inversion Eo; subst e1. cbn [rd]. split; assumption.
  Qed.

  (* ---- the cleanup after a nested form ---- *)
  Definition seq_cont {A B} (endm : M unit) (k : A -> PM B) (r : res A) : PM B :=
    pbind inc_depth (fun _ => pbind (attempt (liftR endm)) (fun e => pbind (both r e) k)).
  Definition quote_cont {A B} (k : A -> PM B) (r : res A) : PM B :=
    pbind inc_depth (fun _ => pbind (lift r) k).

  Lemma seq_cont_fails {A B} (endm : M unit) (k : A -> PM B) e s : exists x, fst (seq_cont endm k (Err e) s) = PErr x.
  Proof.
    unfold seq_cont, inc_depth. rewrite !pbind_unfold. unfold get_depth. cbn [fst snd].
    destruct (255 <=? depth s); [eexists; reflexivity|]. cbn [set_depth]. rewrite !pbind_unfold, attempt_unfold. unfold liftR. cbn [rd depth].
    destruct (endm (rd s)) as [[u|e'] r']; cbn [fst snd].
    - rewrite pbind_unfold. cbn [both pfail fst]. eexists; reflexivity.
    - destruct e' as [c l cl|io|]; rewrite ?pbind_unfold; cbn [both pfail fst]; eexists; reflexivity.
  Qed.
  Lemma quote_cont_fails {A B} (k : A -> PM B) e s : exists x, fst (quote_cont k (Err e) s) = PErr x.
  Proof.
    unfold quote_cont, inc_depth. rewrite !pbind_unfold. unfold get_depth. cbn [fst snd].
    destruct (255 <=? depth s); [eexists; reflexivity|]. cbn [set_depth]. rewrite !pbind_unfold. cbn [lift pfail fst]. eexists; reflexivity.
  Qed.
  Lemma pef_seq_cont_err {A B} (endm : M unit) (k : A -> PM B) e : ef endm -> eofish e -> pef (seq_cont endm k (Err e)).
  Proof.
    intros He Hee s H. unfold seq_cont, inc_depth. rewrite !pbind_unfold. unfold get_depth. cbn [fst snd].
    destruct (255 <=? depth s); [split; [exact H|exact I]|]. cbn [set_depth]. rewrite !pbind_unfold, attempt_unfold. unfold liftR. cbn [rd depth].
    destruct (He (rd s) H) as [Ha Ho]. destruct (endm (rd s)) as [[u|e'] r']; cbn [fst snd] in *.
    - rewrite pbind_unfold. cbn [both pfail fst snd rd]. split; [exact Ha|exact Hee].
    - destruct e' as [c l cl|io|]; rewrite ?pbind_unfold; cbn [both pfail fst snd rd]; split; try exact Ha; try exact Hee; exact I.
  Qed.
  Lemma pef_quote_cont_err {A B} (k : A -> PM B) e : eofish e -> pef (quote_cont k (Err e)).
  Proof.
    intros Hee s H. unfold quote_cont, inc_depth. rewrite !pbind_unfold. unfold get_depth. cbn [fst snd].
    destruct (255 <=? depth s); [split; [exact H|exact I]|]. cbn [set_depth]. rewrite !pbind_unfold. cbn [lift pfail fst snd rd]. split; [exact H|exact Hee].
  Qed.
  Lemma pef_seq_cont_ok {A B} (endm : M unit) (k : A -> PM B) a : ef endm -> (forall a, pef (k a)) -> pef (seq_cont endm k (Ok a)).
  Proof.
    intros He Hk. unfold seq_cont. apply pef_bind; [apply pef_inc_depth|]. intros _.
    intros s H. rewrite pbind_unfold, attempt_unfold. unfold liftR. destruct (He (rd s) H) as [Ha Ho].
    destruct (endm (rd s)) as [[u|e'] r']; cbn [fst snd] in *.
    - rewrite pbind_unfold. cbn [both pret]. apply Hk. exact Ha.
    - destruct e' as [c l cl|io|]; rewrite ?pbind_unfold; cbn [both pfail fst snd rd]; split; try exact Ha; try exact Ho; exact I.
  Qed.
  Lemma pef_quote_cont_ok {A B} (k : A -> PM B) a : (forall a, pef (k a)) -> pef (quote_cont k (Ok a)).
  Proof. intros Hk. unfold quote_cont. apply pef_bind; [apply pef_inc_depth|]. intros _. apply pef_bind; [apply pef_pret|exact Hk]. Qed.
  Lemma ptr_seq_cont_ok {A B} (endm : M unit) (k : A -> PM B) a :
    tr endm -> (forall a, ptr (k a)) -> (forall a, pef (k a)) -> ptr (seq_cont endm k (Ok a)).
  Proof.
    intros Ht Hk Hke. unfold seq_cont. apply ptr_bind_same; [apply psame_inc_depth|]. intros _.
    intros s1 s2 H. unfold ptc. rewrite !pbind_unfold, !attempt_unfold.
    destruct (ptr_liftR endm Ht s1 s2 H) as [(x & E)|[(E & Hr)|(Ha & Ho)]].
    - left. destruct (liftR endm s2) as [[u|[[c l cl|io|]|kk]] s2']; cbn [fst] in E; try discriminate; cbn [fst snd]; rewrite ?pbind_unfold; cbn [both pfail fst]; eexists; reflexivity.
    - destruct (liftR endm s1) as [[u1|x1] s1']; destruct (liftR endm s2) as [[u2|x2] s2']; cbn [fst snd] in *; try discriminate.
      + rewrite !pbind_unfold. cbn [both pret]. apply Hk. exact Hr.
      + left. destruct x2 as [[c l cl|io|]|kk]; cbn [fst snd]; rewrite ?pbind_unfold; cbn [both pfail fst]; eexists; reflexivity.
    - right. right. destruct (liftR endm s1) as [[u1|[[c l cl|io|]|kk]] s1']; cbn [fst snd pokres] in *; rewrite ?pbind_unfold; cbn [both pret pfail fst snd].
      + apply Hke. exact Ha.
      + split; [exact Ha|exact Ho].
      + contradiction.
      + split; [exact Ha|exact I].
      + split; [exact Ha|exact I].
  Qed.
  Lemma ptr_quote_cont_ok {A B} (k : A -> PM B) a : (forall a, ptr (k a)) -> ptr (quote_cont k (Ok a)).
  Proof. intros Hk. unfold quote_cont. apply ptr_bind_same; [apply psame_inc_depth|]. intros _. apply ptr_bind_same; [apply psame_pret|exact Hk]. Qed.

  Lemma ptr_nest_gen {A B} (body : PM A) (cont : res A -> PM B) :
    ptr body -> (forall a, ptr (cont (Ok a))) -> (forall a, pef (cont (Ok a))) ->
    (forall e s, exists x, fst (cont (Err e) s) = PErr x) -> (forall e, eofish e -> pef (cont (Err e))) ->
    ptr (pbind (attempt body) cont).
  Proof.
    intros Hb Hok Hoke Hfail Herr s1 s2 H. unfold ptc. rewrite !pbind_unfold, !attempt_unfold.
    destruct (Hb s1 s2 H) as [(x & E)|[(E & Hr)|(Ha & Ho)]].
    - left. destruct (body s2) as [[a|[[c l cl|io|]|kk]] s2']; cbn [fst] in E; try discriminate; cbn [fst snd]; try (eexists; reflexivity); apply Hfail.
    - destruct (body s1) as [[a1|x1] s1']; destruct (body s2) as [[a2|x2] s2']; cbn [fst snd] in *; try discriminate.
      + inversion E; subst a2. apply Hok. exact Hr.
      + left. destruct x2 as [[c l cl|io|]|kk]; cbn [fst snd]; try (eexists; reflexivity); apply Hfail.
    - right. right. destruct (body s1) as [[a1|[[c l cl|io|]|kk]] s1']; cbn [fst snd pokres] in *.
      + apply Hoke. exact Ha.
      + apply (Herr (ESyntax c l cl)); assumption.
      + contradiction.
      + split; [exact Ha|exact I].
      + split; [exact Ha|exact I].
  Qed.
  Lemma ptr_nest_seq {A B} (body : PM A) (endm : M unit) (k : A -> PM B) :
    ptr body -> tr endm -> ef endm -> (forall a, ptr (k a)) -> (forall a, pef (k a)) ->
    ptr (pbind (attempt body) (fun r =>
         pbind inc_depth (fun _ =>
         pbind (attempt (liftR endm)) (fun e =>
         pbind (both r e) k)))).
  Proof.
    intros Hb Ht He Hk Hke. apply (ptr_nest_gen body (seq_cont endm k)); [exact Hb| | | |].
    - intros a. apply ptr_seq_cont_ok; assumption.
    - intros a. apply pef_seq_cont_ok; assumption.
    - intros e s. apply seq_cont_fails.
    - intros e Hee. apply pef_seq_cont_err; assumption.
  Qed.
  Lemma ptr_nest_quote {A B} (body : PM A) (k : A -> PM B) :
    ptr body -> (forall a, ptr (k a)) -> (forall a, pef (k a)) ->
    ptr (pbind (attempt body) (fun r => pbind inc_depth (fun _ => pbind (lift r) k))).
  Proof.
    intros Hb Hk Hke. apply (ptr_nest_gen body (quote_cont k)); [exact Hb| | | |].
    - intros a. apply ptr_quote_cont_ok; assumption.
    - intros a. apply pef_quote_cont_ok; assumption.
    - intros e s. apply quote_cont_fails.
    - intros e Hee. apply pef_quote_cont_err; assumption.
  Qed.
  Lemma pef_nest_seq {A B} (body : PM A) (endm : M unit) (k : A -> PM B) :
    pef body -> ef endm -> (forall a, pef (k a)) ->
    pef (pbind (attempt body) (fun r => pbind inc_depth (fun _ => pbind (attempt (liftR endm)) (fun e => pbind (both r e) k)))).
  Proof.
    intros Hb He Hk s H. rewrite pbind_unfold, attempt_unfold. destruct (Hb s H) as [Ha Ho].
    destruct (body s) as [[a|[[c l cl|io|]|kk]] s1]; cbn [fst snd pokres] in *.
    - apply (pef_seq_cont_ok endm k a He Hk). exact Ha.
    - apply (pef_seq_cont_err endm k (ESyntax c l cl) He Ho). exact Ha.
    - contradiction.
    - split; [exact Ha|exact I].
    - split; [exact Ha|exact I].
  Qed.
  Lemma pef_nest_quote {A B} (body : PM A) (k : A -> PM B) :
    pef body -> (forall a, pef (k a)) ->
    pef (pbind (attempt body) (fun r => pbind inc_depth (fun _ => pbind (lift r) k))).
  Proof.
    intros Hb Hk s H. rewrite pbind_unfold, attempt_unfold. destruct (Hb s H) as [Ha Ho].
    destruct (body s) as [[a|[[c l cl|io|]|kk]] s1]; cbn [fst snd pokres] in *.
    - apply (pef_quote_cont_ok k a Hk). exact Ha.
    - apply (pef_quote_cont_err k (ESyntax c l cl) Ho). exact Ha.
    - contradiction.
    - split; [exact Ha|exact I].
    - split; [exact Ha|exact I].
  Qed.

  (* a reader-level step whose value, when the prefix runs out, is "the end" *)
  Lemma ptr_bind_optR {A} (m : M (option N)) (k : option N -> PM A) :
    (forall r1 r2, trel r1 r2 -> (exists e, fst (m r2) = Err e) \/ (fst (m r1) = fst (m r2) /\ trel (snd (m r1)) (snd (m r2))) \/
                                 (exists r', m r1 = (Ok None, r') /\ ateof r')) ->
    (forall o, ptr (k o)) -> pef (k None) -> ptr (pbind (liftR m) k).
  Proof.
    intros Hm Hk He s1 s2 [Hr Hd]. unfold ptc. rewrite !pbind_unfold. unfold liftR.
    destruct (Hm (rd s1) (rd s2) Hr) as [(e & E)|[(E & Hr')|(r' & E & Ha)]].
    - left. destruct (m (rd s2)) as [[a|e'] r2']; cbn [fst] in E; [discriminate|]. eexists; reflexivity.
    - destruct (m (rd s1)) as [[a1|e1] r1']; destruct (m (rd s2)) as [[a2|e2] r2']; cbn [fst snd] in *; try discriminate.
      + inversion E; subst a2. apply Hk. split; [exact Hr'|exact Hd].
      + left. eexists; reflexivity.
    - right. right. rewrite E. apply He. exact Ha.
  Qed.
  Lemma eat_peek_cases r1 r2 : trel r1 r2 ->
    (exists e, fst ((eat_char ;;; peek) r2) = Err e) \/
    (fst ((eat_char ;;; peek) r1) = fst ((eat_char ;;; peek) r2) /\ trel (snd ((eat_char ;;; peek) r1)) (snd ((eat_char ;;; peek) r2))) \/
    (exists r', (eat_char ;;; peek) r1 = (Ok None, r') /\ ateof r').
  Proof. intros H. unfold bind, eat_char. cbn [fst snd]. apply peek_cases. apply discard_trel. exact H. Qed.
  Lemma pef_bind_peekR {A} (k : option N -> PM A) : pef (k None) -> pef (pbind (liftR peek) k).
  Proof. intros Hk s H. rewrite pbind_unfold. unfold liftR. rewrite (peek_eof (rd s) H). apply Hk. exact H. Qed.

  Section ParserTr.
    Variable ro : parse_options.
    Variable alpha : N -> bool.
    Variable fast : bool.
    Variable std_parse : N -> Z -> f64.
    Local Notation next_value := (next_value ro alpha fast std_parse).
    Local Notation parse_list := (parse_list ro alpha fast std_parse).
    Local Notation parse_vector := (parse_vector ro alpha fast std_parse).
    Local Notation next_datum := (next_datum ro alpha fast std_parse).
    Local Notation parse_list_meta := (parse_list_meta ro alpha fast std_parse).
    Local Notation parse_vector_meta := (parse_vector_meta ro alpha fast std_parse).
    Local Notation parse_token := (parse_token ro alpha fast std_parse).

    (* at the end of the input every parser function reports the end *)
    Lemma pef_values fuel :
      pef (next_value fuel) /\ (forall t acc, pef (parse_list fuel t acc)) /\ (forall t acc, pef (parse_vector fuel t acc)).
    Proof.
      destruct fuel as [|f]; [split; [|split]; intros; apply pef_fuel|].
      split; [|split]; intros; cbn [Parser.next_value Parser.parse_list Parser.parse_vector]; apply pef_bind_ws;
        [apply pef_pret|apply pef_err; reflexivity|apply pef_err; reflexivity].
    Qed.
    Lemma pef_datums fuel :
      pef (next_datum fuel) /\ (forall t acc, pef (parse_list_meta fuel t acc)) /\ (forall t acc, pef (parse_vector_meta fuel t acc)).
    Proof.
      destruct fuel as [|f]; [split; [|split]; intros; apply pef_fuel|].
      split; [|split]; intros; cbn [Parser.next_datum Parser.parse_list_meta Parser.parse_vector_meta]; apply pef_bind_ws;
        [apply pef_pret|apply pef_err; reflexivity|apply pef_err; reflexivity].
    Qed.

    Theorem trunc_values fuel :
      ptr (next_value fuel) /\ (forall t acc, ptr (parse_list fuel t acc)) /\ (forall t acc, ptr (parse_vector fuel t acc)).
    Proof.
      induction fuel as [|f (IHv & IHl & IHvec)]; [split; [|split]; intros; apply ptr_pfail|].
      destruct (pef_values f) as (Ev & El & Evec).
      split; [|split].
      - cbn [Parser.next_value]. apply ptr_bind_ws; [|apply pef_pret]. intros [b|]; [|apply ptr_pret].
        apply ptr_bind; [apply ptr_liftR, tr_parse_token| |].
        + intros tok. destruct tok; try apply ptr_pret.
          * apply ptr_bind_same; [apply psame_enter_nesting|intros _].
            apply ptr_nest_seq; [apply IHl|apply tr_end_seq|apply ef_end_seq|intros; apply ptr_pret|intros; apply pef_pret].
          * apply ptr_bind_same; [apply psame_enter_nesting|intros _].
            apply ptr_nest_quote; [exact IHv| |]; intros o; destruct o; first [apply ptr_pret|apply ptr_err|apply pef_pret|apply pef_err; reflexivity].
          * apply ptr_bind_same; [apply psame_enter_nesting|intros _].
            apply ptr_nest_seq; [apply IHvec|apply tr_end_seq|apply ef_end_seq|intros; apply ptr_pret|intros; apply pef_pret].
          * apply ptr_bind; [apply ptr_liftR, tr_parse_byte_list|intros; apply ptr_pret|intros; apply pef_pret].
        + intros tok. destruct tok; try apply pef_pret.
          * apply pef_bind; [apply pef_enter_nesting|intros _]. apply pef_nest_seq; [apply El|apply ef_end_seq|intros; apply pef_pret].
          * apply pef_bind; [apply pef_enter_nesting|intros _]. apply pef_nest_quote; [exact Ev|]. intros o; destruct o; [apply pef_pret|apply pef_err; reflexivity].
          * apply pef_bind; [apply pef_enter_nesting|intros _]. apply pef_nest_seq; [apply Evec|apply ef_end_seq|intros; apply pef_pret].
          * apply pef_bind; [apply pef_liftR, ef_parse_byte_list|intros; apply pef_pret].
      - intros t acc. cbn [Parser.parse_list]. apply ptr_bind_ws; [|apply pef_err; reflexivity]. intros [c|]; [|apply ptr_err].
        destruct (is_closer c). { destruct (negb (c =? t)); [apply ptr_err|apply ptr_pret]. }
        destruct (c =? 46).
        + apply (ptr_bind_optR (eat_char ;;; peek)); [exact eat_peek_cases| |].
          * intros nx. destruct (lone_dot nx).
            -- destruct acc as [|a0 acc'].
               ++ apply (ptr_bind_optR peek); [exact peek_cases| |apply pef_err; reflexivity]. intros o3. destruct o3; apply ptr_err.
               ++ apply ptr_bind; [exact IHv| |].
                  ** intros ov. destruct ov as [cdr|]; [|apply ptr_err].
                     apply ptr_bind_ws; [|apply pef_err; reflexivity]. intros o2.
                     destruct o2 as [c2|]; [destruct (c2 =? t); [apply ptr_pret|apply ptr_err]|apply ptr_err].
                  ** intros ov. destruct ov as [cdr|]; [|apply pef_err; reflexivity]. apply pef_bind_ws. apply pef_err; reflexivity.
            -- apply ptr_bind; [apply ptr_liftR, tr_parse_symbol_suffix|intros name; apply IHl|intros name; apply El].
          * cbn [lone_dot]. destruct acc as [|a0 acc'].
            -- apply pef_bind_peekR. apply pef_err; reflexivity.
            -- apply pef_bind; [exact Ev|]. intros ov. destruct ov as [cdr|]; [|apply pef_err; reflexivity]. apply pef_bind_ws. apply pef_err; reflexivity.
        + apply ptr_bind; [exact IHv| |]; intros ov; destruct ov; first [apply IHl|apply ptr_err|apply El|apply pef_err; reflexivity].
      - intros t acc. cbn [Parser.parse_vector]. apply ptr_bind_ws; [|apply pef_err; reflexivity]. intros [c|]; [|apply ptr_err].
        destruct (is_closer c). { destruct (negb (c =? t)); [apply ptr_err|apply ptr_pret]. }
        apply ptr_bind; [exact IHv| |]; intros ov; destruct ov; first [apply IHvec|apply ptr_err|apply Evec|apply pef_err; reflexivity].
    Qed.

    Lemma ptr_position_then {A} (k : N * N -> PM A) : (forall p, ptr (k p)) -> ptr (pbind (liftR position) k).
    Proof. intros Hk. apply ptr_bind_same; [apply psame_position|exact Hk]. Qed.
    Lemma pef_position_then {A} (k : N * N -> PM A) : (forall p, pef (k p)) -> pef (pbind (liftR position) k).
    Proof. intros Hk. apply pef_bind; [apply pef_liftR, ef_position|exact Hk]. Qed.

    Theorem trunc_datums fuel :
      ptr (next_datum fuel) /\ (forall t acc, ptr (parse_list_meta fuel t acc)) /\ (forall t acc, ptr (parse_vector_meta fuel t acc)).
    Proof.
      induction fuel as [|f (IHv & IHl & IHvec)]; [split; [|split]; intros; apply ptr_pfail|].
      destruct (pef_datums f) as (Ev & El & Evec).
      split; [|split].
      - cbn [Parser.next_datum]. apply ptr_bind_ws; [|apply pef_pret]. intros [b|]; [|apply ptr_pret].
        apply ptr_position_then. intros start.
        apply ptr_bind; [apply ptr_liftR, tr_parse_token| |].
        + intros tok. cbv zeta. destruct tok; try (apply ptr_position_then; intros; apply ptr_pret).
          * apply ptr_bind_same; [apply psame_enter_nesting|intros _].
            apply ptr_nest_seq; [apply IHl|apply tr_end_seq|apply ef_end_seq| |]; intros l;
              [apply ptr_position_then; intros; apply ptr_pret|apply pef_position_then; intros; apply pef_pret].
          * apply ptr_position_then. intros token_end. apply ptr_bind_same; [apply psame_enter_nesting|intros _].
            apply ptr_nest_quote; [exact IHv| |]; intros o; destruct o; first [apply ptr_pret|apply ptr_err|apply pef_pret|apply pef_err; reflexivity].
          * apply ptr_bind_same; [apply psame_enter_nesting|intros _].
            apply ptr_nest_seq; [apply IHvec|apply tr_end_seq|apply ef_end_seq| |]; intros l;
              [apply ptr_position_then; intros; apply ptr_pret|apply pef_position_then; intros; apply pef_pret].
          * apply ptr_bind; [apply ptr_liftR, tr_parse_byte_list| |]; intros;
              [apply ptr_position_then; intros; apply ptr_pret|apply pef_position_then; intros; apply pef_pret].
        + intros tok. cbv zeta. destruct tok; try (apply pef_position_then; intros; apply pef_pret).
          * apply pef_bind; [apply pef_enter_nesting|intros _]. apply pef_nest_seq; [apply El|apply ef_end_seq|]. intros l. apply pef_position_then; intros; apply pef_pret.
          * apply pef_position_then. intros token_end. apply pef_bind; [apply pef_enter_nesting|intros _].
            apply pef_nest_quote; [exact Ev|]. intros o; destruct o; [apply pef_pret|apply pef_err; reflexivity].
          * apply pef_bind; [apply pef_enter_nesting|intros _]. apply pef_nest_seq; [apply Evec|apply ef_end_seq|]. intros l. apply pef_position_then; intros; apply pef_pret.
          * apply pef_bind; [apply pef_liftR, ef_parse_byte_list|]. intros. apply pef_position_then; intros; apply pef_pret.
      - intros t acc. cbn [Parser.parse_list_meta]. apply ptr_bind_ws; [|apply pef_err; reflexivity]. intros [c|]; [|apply ptr_err].
        destruct (is_closer c). { destruct (negb (c =? t)); [apply ptr_err|apply ptr_pret]. }
        destruct (c =? 46).
        + apply ptr_position_then. intros start.
          apply (ptr_bind_optR (eat_char ;;; peek)); [exact eat_peek_cases| |].
          * intros nx. destruct (lone_dot nx).
            -- destruct acc as [|a0 acc'].
               ++ apply (ptr_bind_optR peek); [exact peek_cases| |apply pef_err; reflexivity]. intros o3. destruct o3; apply ptr_err.
               ++ apply ptr_bind; [exact IHv| |].
                  ** intros ov. destruct ov as [cdr|]; [|apply ptr_err].
                     apply ptr_bind_ws; [|apply pef_err; reflexivity]. intros o2.
                     destruct o2 as [c2|]; [destruct (c2 =? t); [apply ptr_pret|apply ptr_err]|apply ptr_err].
                  ** intros ov. destruct ov as [cdr|]; [|apply pef_err; reflexivity]. apply pef_bind_ws. apply pef_err; reflexivity.
            -- apply ptr_bind; [apply ptr_liftR, tr_parse_symbol_suffix| |]; intros name;
                 [apply ptr_position_then; intros; apply IHl|apply pef_position_then; intros; apply El].
          * cbn [lone_dot]. destruct acc as [|a0 acc'].
            -- apply pef_bind_peekR. apply pef_err; reflexivity.
            -- apply pef_bind; [exact Ev|]. intros ov. destruct ov as [cdr|]; [|apply pef_err; reflexivity]. apply pef_bind_ws. apply pef_err; reflexivity.
        + apply ptr_bind; [exact IHv| |]; intros ov; destruct ov; first [apply IHl|apply ptr_err|apply El|apply pef_err; reflexivity].
      - intros t acc. cbn [Parser.parse_vector_meta]. apply ptr_bind_ws; [|apply pef_err; reflexivity]. intros [c|]; [|apply ptr_err].
        destruct (is_closer c). { destruct (negb (c =? t)); [apply ptr_err|apply ptr_pret]. }
        apply ptr_bind; [exact IHv| |]; intros ov; destruct ov; first [apply IHvec|apply ptr_err|apply Evec|apply pef_err; reflexivity].
    Qed.

    Lemma init_tprel (pre : list event) : tprel (init_state SrcIo pre) (init_state SrcIo (pre ++ rest)).
    Proof. unfold tprel, init_state, mk_reader. cbn [rd depth]. split; [|reflexivity]. apply (mk_trel 1 0 false pre). apply no_head. Qed.

    Theorem trunc_from_trait fuel (pre : list event) :
      ptc (pbind (expect_value ro alpha fast std_parse fuel) (fun v => pbind (expect_end_p fuel) (fun _ => pret v)))
          (init_state SrcIo pre) (init_state SrcIo (pre ++ rest)) /\
      ptc (pbind (expect_datum ro alpha fast std_parse fuel) (fun v => pbind (expect_end_p fuel) (fun _ => pret v)))
          (init_state SrcIo pre) (init_state SrcIo (pre ++ rest)).
    Proof.
      assert (Hend : forall A (v : A), ptr (pbind (expect_end_p fuel) (fun _ => pret v)) /\ pef (pbind (expect_end_p fuel) (fun _ => pret v))).
      { intros A v. unfold expect_end_p. split.
        - apply ptr_bind; [apply ptr_liftR, tr_expect_end|intros; apply ptr_pret|intros; apply pef_pret].
        - apply pef_bind; [apply pef_liftR, ef_expect_end|intros; apply pef_pret]. }
      split.
      - assert (H : ptr (pbind (expect_value ro alpha fast std_parse fuel) (fun v => pbind (expect_end_p fuel) (fun _ => pret v)))).
        { apply ptr_bind; [|intros v; apply Hend|intros v; apply Hend]. unfold expect_value.
          apply ptr_bind; [apply trunc_values| |]; intros o; destruct o; first [apply ptr_pret|apply ptr_err|apply pef_pret|apply pef_err; reflexivity]. }
        apply H. apply init_tprel.
      - assert (H : ptr (pbind (expect_datum ro alpha fast std_parse fuel) (fun v => pbind (expect_end_p fuel) (fun _ => pret v)))).
        { apply ptr_bind; [|intros v; apply Hend|intros v; apply Hend]. unfold expect_datum.
          apply ptr_bind; [apply trunc_datums| |]; intros o; destruct o; first [apply ptr_pret|apply ptr_err|apply pef_pret|apply pef_err; reflexivity]. }
        apply H. apply init_tprel.
    Qed.
  End ParserTr.
End Trunc.
