(* C06 / C11: the single-shot entry points read a byte slice and a stream of the
   same bytes alike - the same value (for the datum API: the same datum, spans
   included) or an error with the same code. CrossProofs gives this "unless the
   stream run exhausts its fuel"; C03_total removes the exception and
   C03_from_trait_no_panic the panic case. *)
From Coq Require Import SpecFloat.
Require Import Base Value Float PrintOptions ParseOptions Utf8 Reader Scan Num NumberOps Parser.
Require Import DepthProofs FuelProofs FloatFuel CrossProofs.

Definition same_outcome {A} (x1 x2 : pres A) : Prop :=
  match x1, x2 with
  | POk a, POk b => a = b
  | PErr (XErr (ESyntax c1 _ _)), PErr (XErr (ESyntax c2 _ _)) => c1 = c2
  | PErr (XErr (EIo a)), PErr (XErr (EIo b)) => a = b
  | _, _ => False
  end.

Lemma rpres_same {A} (x1 x2 : pres A) : rpres eq x1 x2 -> no_panic x2 -> same_outcome x1 x2.
Proof.
  destruct x1 as [a|[e1|k1]]; destruct x2 as [b|[e2|k2]]; cbn [rpres same_outcome]; try contradiction; intros H Hn.
  - exact H.
  - destruct e1; destruct e2; cbn [rerr] in H; try contradiction; exact H.
  - exfalso. apply (Hn k2). reflexivity.
Qed.

Lemma from_trait_no_panic ro alpha fast std_parse k inp :
  no_panic (from_trait ro alpha fast std_parse k inp) /\
  no_panic (datum_from_trait ro alpha fast std_parse k inp).
Proof.
  unfold from_trait, datum_from_trait. split.
  - apply (good_bind _ _ (good_expect_value ro alpha fast std_parse _)); [|apply init_depth_ok].
    intros v. apply good_bind; [apply good_liftR|intros; apply good_pret].
  - apply (good_bind _ _ (good_expect_datum ro alpha fast std_parse _)); [|apply init_depth_ok].
    intros v. apply good_bind; [apply good_liftR|intros; apply good_pret].
Qed.

Section Agree.
  Variable ro : parse_options.
  Variable alpha : N -> bool.
  Variable fast : bool.
  Variable std_parse : N -> Z -> f64.

  Theorem slice_stream_agree (s : bytes) :
    same_outcome (from_trait ro alpha fast std_parse SrcSlice (bytes_events s)) (from_trait ro alpha fast std_parse SrcIo (bytes_events s)).
  Proof.
    destruct (from_trait_cross ro alpha fast std_parse s) as [E|H].
    - exfalso. exact (proj1 (total_from_trait ro alpha fast std_parse SrcIo (bytes_events s)) E).
    - apply rpres_same; [exact H|]. apply (proj1 (from_trait_no_panic ro alpha fast std_parse SrcIo (bytes_events s))).
  Qed.
  Theorem slice_stream_agree_datum (s : bytes) :
    same_outcome (datum_from_trait ro alpha fast std_parse SrcSlice (bytes_events s)) (datum_from_trait ro alpha fast std_parse SrcIo (bytes_events s)).
  Proof.
    destruct (datum_from_trait_cross ro alpha fast std_parse s) as [E|H].
    - exfalso. exact (proj2 (total_from_trait ro alpha fast std_parse SrcIo (bytes_events s)) E).
    - apply rpres_same; [exact H|]. apply (proj2 (from_trait_no_panic ro alpha fast std_parse SrcIo (bytes_events s))).
  Qed.
End Agree.
