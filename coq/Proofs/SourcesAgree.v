(* C06 / C11: the single-shot entry points read a byte slice and a stream of the
   same bytes alike - the same value (for the datum API: the same datum, spans
   included) or an error with the same code. CrossProofs gives this "unless the
   stream run exhausts its fuel"; C03_total removes the exception and
   C03_from_trait_no_panic the panic case. *)
From Coq Require Import SpecFloat Lia.
Require Import Base Value Float PrintOptions ParseOptions Utf8 Reader Scan Num NumberOps Parser.
Require Import DepthProofs FuelProofs FloatFuel CrossProofs.

Definition same_outcome {A} (x1 x2 : pres A) : Prop :=
  match x1, x2 with
  | POk a, POk b => a = b
  | PErr (XErr (ESyntax c1 _ _)), PErr (XErr (ESyntax c2 _ _)) => c1 = c2
  | PErr (XErr (EIo a)), PErr (XErr (EIo b)) => a = b
  | _, _ => False
  end.

Lemma rpres_same {A} (x1 x2 : pres A) : rpres eq x1 x2 -> no_panic x2 -> same_outcome x1 x2.
Proof.
  destruct x1 as [a|[e1|k1]]; destruct x2 as [b|[e2|k2]]; cbn [rpres same_outcome]; try contradiction; intros H Hn.
  - exact H.
  - destruct e1; destruct e2; cbn [rerr] in H; try contradiction; exact H.
  - exfalso. apply (Hn k2). reflexivity.
Qed.

Lemma from_trait_no_panic ro alpha fast std_parse k inp :
  no_panic (from_trait ro alpha fast std_parse k inp) /\
  no_panic (datum_from_trait ro alpha fast std_parse k inp).
Proof.
  unfold from_trait, datum_from_trait. split.
  - apply (good_bind _ _ (good_expect_value ro alpha fast std_parse _)); [|apply init_depth_ok].
    intros v. apply good_bind; [apply good_liftR|intros; apply good_pret].
  - apply (good_bind _ _ (good_expect_datum ro alpha fast std_parse _)); [|apply init_depth_ok].
    intros v. apply good_bind; [apply good_liftR|intros; apply good_pret].
Qed.

Section Agree.
  Variable ro : parse_options.
  Variable alpha : N -> bool.
  Variable fast : bool.
  Variable std_parse : N -> Z -> f64.

  Theorem slice_stream_agree (s : bytes) :
    same_outcome (from_trait ro alpha fast std_parse SrcSlice (bytes_events s)) (from_trait ro alpha fast std_parse SrcIo (bytes_events s)).
  Proof.
    destruct (from_trait_cross ro alpha fast std_parse s) as [E|H].
    - exfalso. exact (proj1 (total_from_trait ro alpha fast std_parse SrcIo (bytes_events s)) E).
    - apply rpres_same; [exact H|]. apply (proj1 (from_trait_no_panic ro alpha fast std_parse SrcIo (bytes_events s))).
  Qed.
  Theorem slice_stream_agree_datum (s : bytes) :
    same_outcome (datum_from_trait ro alpha fast std_parse SrcSlice (bytes_events s)) (datum_from_trait ro alpha fast std_parse SrcIo (bytes_events s)).
  Proof.
    destruct (datum_from_trait_cross ro alpha fast std_parse s) as [E|H].
    - exfalso. exact (proj2 (total_from_trait ro alpha fast std_parse SrcIo (bytes_events s)) E).
    - apply rpres_same; [exact H|]. apply (proj2 (from_trait_no_panic ro alpha fast std_parse SrcIo (bytes_events s))).
  Qed.
End Agree.

(* ---- the fuel is irrelevant once it suffices ---- *)
Require Import FuelMono.
Section Irrelevant.
  Variable ro : parse_options.
  Variable alpha : N -> bool.
  Variable fast : bool.
  Variable std_parse : N -> Z -> f64.
  Let Hfp := f64_from_parts_ok fast std_parse.

  (* from_trait / datum::from_trait with an explicit step budget *)
  Definition from_trait_fuel (fuel : nat) (k : src_kind) (inp : list event) : pres value :=
    fst (pbind (expect_value ro alpha fast std_parse fuel) (fun v => pbind (expect_end_p fuel) (fun _ => pret v)) (init_state k inp)).
  Definition datum_from_trait_fuel (fuel : nat) (k : src_kind) (inp : list event) : pres datum :=
    fst (pbind (expect_datum ro alpha fast std_parse fuel) (fun v => pbind (expect_end_p fuel) (fun _ => pret v)) (init_state k inp)).

  Lemma peq_expect_end n fi fs : (S n < fi)%nat -> (fi <= fs)%nat -> peq n (expect_end_p fi) (expect_end_p fs).
  Proof.
    intros Hn Hf. unfold expect_end_p. apply peq_liftR; [apply (ok_expect_end alpha fast std_parse Hfp); exact Hn|apply um_expect_end; exact Hf].
  Qed.

  Theorem every_call_fuel_irrelevant fi fs n s : (2 * n + 3 <= fi)%nat -> (fi <= fs)%nat -> (rem (rd s) <= n)%nat ->
    next_value ro alpha fast std_parse fi s = next_value ro alpha fast std_parse fs s /\
    next_datum ro alpha fast std_parse fi s = next_datum ro alpha fast std_parse fs s.
  Proof.
    intros Hn Hf Hs. split.
    - apply (proj1 (mono_values ro alpha fast std_parse Hfp fi fs Hf) n Hn s Hs).
    - apply (proj1 (mono_datums ro alpha fast std_parse Hfp fi fs Hf) n Hn s Hs).
  Qed.

  Theorem from_trait_fuel_irrelevant fuel k inp : (fuel_for inp <= fuel)%nat ->
    from_trait_fuel fuel k inp = from_trait ro alpha fast std_parse k inp /\
    datum_from_trait_fuel fuel k inp = datum_from_trait ro alpha fast std_parse k inp.
  Proof.
    intros Hf. unfold from_trait_fuel, datum_from_trait_fuel, from_trait, datum_from_trait. cbv zeta.
    assert (Hn : (2 * length inp + 3 <= fuel_for inp)%nat) by (unfold fuel_for; lia).
    assert (Hn2 : (S (length inp) < fuel_for inp)%nat) by (unfold fuel_for; lia).
    assert (Hr : (rem (rd (init_state k inp)) <= length inp)%nat) by (unfold init_state, mk_reader, rem; cbn [rd rinput]; lia).
    split; symmetry; f_equal.
    - refine (peq_bind (length inp) _ _ _ _ _ _ _ (init_state k inp) Hr).
      + apply pmono_pok. apply (pok_expect_value ro alpha fast std_parse Hfp); exact Hn.
      + unfold expect_value. apply peq_bind.
        * intros s Hs. apply (proj1 (proj1 (fuel_values ro alpha fast std_parse Hfp _) _ Hn s Hs)).
        * apply (proj1 (mono_values ro alpha fast std_parse Hfp _ _ Hf)). exact Hn.
        * intros o. apply peq_refl.
      + intros v. apply peq_bind; [apply pmono_pok; apply (pok_expect_end alpha fast std_parse Hfp); exact Hn2|apply peq_expect_end; assumption|intros; apply peq_refl].
    - refine (peq_bind (length inp) _ _ _ _ _ _ _ (init_state k inp) Hr).
      + apply pmono_pok. apply (pok_expect_datum ro alpha fast std_parse Hfp); exact Hn.
      + unfold expect_datum. apply peq_bind.
        * intros s Hs. apply (proj1 (proj1 (fuel_datums ro alpha fast std_parse Hfp _) _ Hn s Hs)).
        * apply (proj1 (mono_datums ro alpha fast std_parse Hfp _ _ Hf)). exact Hn.
        * intros o. apply peq_refl.
      + intros v. apply peq_bind; [apply pmono_pok; apply (pok_expect_end alpha fast std_parse Hfp); exact Hn2|apply peq_expect_end; assumption|intros; apply peq_refl].
  Qed.
End Irrelevant.

(* ---- a stream with Interrupted results anywhere against the slice of its bytes ---- *)
Require Import SimFramework InterruptProofs.
Lemma strip_length l : (length (strip l) <= length l)%nat.
Proof. induction l as [|[b| |e] l IH]; cbn [strip length]; lia. Qed.
Lemma strip_bytes (s : bytes) : strip (bytes_events s) = bytes_events s.
Proof. induction s as [|b s IH]; cbn [bytes_events map strip]; [reflexivity|]. unfold bytes_events in IH. rewrite IH. reflexivity. Qed.

Theorem slice_stream_interrupts_agree ro alpha fast std_parse (s : bytes) (inp : list event) :
  strip inp = bytes_events s ->
  same_outcome (from_trait ro alpha fast std_parse SrcSlice (bytes_events s)) (from_trait ro alpha fast std_parse SrcIo inp).
Proof.
  intros Hst.
  assert (E : from_trait ro alpha fast std_parse SrcIo inp = from_trait ro alpha fast std_parse SrcIo (bytes_events s)).
  { rewrite (from_trait_is ro alpha fast std_parse inp SrcIo).
    rewrite (from_trait_interrupts ro alpha fast std_parse (fuel_for inp) inp (bytes_events s) ltac:(rewrite strip_bytes; exact Hst)).
    change (from_trait_with ro alpha fast std_parse (fuel_for inp) SrcIo (bytes_events s))
      with (from_trait_fuel ro alpha fast std_parse (fuel_for inp) SrcIo (bytes_events s)).
    apply (proj1 (from_trait_fuel_irrelevant ro alpha fast std_parse (fuel_for inp) SrcIo (bytes_events s)
                    ltac:(unfold fuel_for; pose proof (strip_length inp) as H; rewrite Hst in H; lia))). }
  rewrite E. apply slice_stream_agree.
Qed.

(* ---- iterating: the items read from a slice and from a stream of the same bytes ---- *)
Section IterateAgree.
  Variable ro : parse_options.
  Variable alpha : N -> bool.
  Variable fast : bool.
  Variable std_parse : N -> Z -> f64.

  Lemma iterate_values_cross fuel n : forall s1 s2, CrossProofs.prel s1 s2 ->
    Exists (fun r => r = PErr (XErr EFuel)) (iterate_values ro alpha fast std_parse fuel n s2) \/
    Forall2 (rpres eq) (iterate_values ro alpha fast std_parse fuel n s1) (iterate_values ro alpha fast std_parse fuel n s2).
  Proof.
    induction n as [|n IH]; intros s1 s2 H; cbn [iterate_values]; [right; constructor|].
    destruct (proj1 (cross_values ro alpha fast std_parse fuel) s1 s2 H) as [E|[E Hr]].
    - left. destruct (next_value ro alpha fast std_parse fuel s2) as [[o|e] s2']; cbn [fst] in E; [discriminate|]. inversion E.
      constructor. reflexivity.
    - destruct (next_value ro alpha fast std_parse fuel s1) as [[[v1|]|[e1|k1]] s1']; destruct (next_value ro alpha fast std_parse fuel s2) as [[[v2|]|[e2|k2]] s2'];
        cbn [fst snd rpres] in *; try contradiction; try discriminate E.
      + inversion E; subst v2. destruct (IH s1' s2' Hr) as [Hx|Hf]; [left; constructor 2; exact Hx|right; constructor; [reflexivity|exact Hf]].
      + right. constructor.
      + destruct (IH s1' s2' Hr) as [Hx|Hf]; [left; constructor 2; exact Hx|right; constructor; [exact E|exact Hf]].
      + destruct (IH s1' s2' Hr) as [Hx|Hf]; [left; constructor 2; exact Hx|right; constructor; [exact E|exact Hf]].
  Qed.

  Theorem iterate_slice_stream (s : bytes) n :
    Forall2 (rpres eq) (iterate_values ro alpha fast std_parse (fuel_for (bytes_events s)) n (init_state SrcSlice (bytes_events s)))
                       (iterate_values ro alpha fast std_parse (fuel_for (bytes_events s)) n (init_state SrcIo (bytes_events s))).
  Proof.
    destruct (iterate_values_cross (fuel_for (bytes_events s)) n _ _ (init_prel s)) as [Hx|Hf]; [|exact Hf].
    exfalso. pose proof (proj1 (total_iterate ro alpha fast std_parse SrcIo (bytes_events s) n)) as Ht.
    apply Exists_exists in Hx. destruct Hx as (x & Hin & ->). rewrite Forall_forall in Ht. exact (Ht _ Hin eq_refl).
  Qed.
End IterateAgree.

(* ---- a &str against the byte slice of the same bytes ---- *)
Require Import StrSliceProofs.
Section StrAgree.
  Variable ro : parse_options.
  Variable alpha : N -> bool.
  Variable fast : bool.
  Variable std_parse : N -> Z -> f64.

  Definition utf8_rejected {A} (x : pres A) : Prop :=
    exists l c, x = PErr (XErr (ESyntax InvalidUnicodeCodePoint l c)).

  Lemma pesc_rejected {A} (x : pres A) : pesc x -> x <> PErr (XErr EFuel) -> no_panic x -> utf8_rejected x.
  Proof.
    destruct x as [a|[e|k]]; cbn [pesc]; intros H Hf Hp; try contradiction.
    - destruct e as [c l cl|io|]; cbn [pesc] in H; try contradiction.
      destruct c; cbn [pesc] in H; try contradiction. exists l, cl. reflexivity.
    - exfalso. apply (Hp k). reflexivity.
  Qed.

  (* whatever the bytes: either the slice parse rejects them as ill-formed
     UTF-8, or the str parse returns exactly what the slice parse returns *)
  Theorem str_slice_agree (inp : list event) :
    utf8_rejected (from_trait ro alpha fast std_parse SrcSlice inp) \/
    from_trait ro alpha fast std_parse SrcStr inp = from_trait ro alpha fast std_parse SrcSlice inp.
  Proof.
    destruct (from_trait_str_slice ro alpha fast std_parse inp) as [E|[E|E]].
    - left. apply pesc_rejected; [exact E| |].
      + apply (proj1 (total_from_trait ro alpha fast std_parse SrcSlice inp)).
      + apply (proj1 (from_trait_no_panic ro alpha fast std_parse SrcSlice inp)).
    - exfalso. exact (proj1 (total_from_trait ro alpha fast std_parse SrcStr inp) E).
    - right. exact E.
  Qed.
  Theorem str_slice_agree_datum (inp : list event) :
    utf8_rejected (datum_from_trait ro alpha fast std_parse SrcSlice inp) \/
    datum_from_trait ro alpha fast std_parse SrcStr inp = datum_from_trait ro alpha fast std_parse SrcSlice inp.
  Proof.
    destruct (datum_from_trait_str_slice ro alpha fast std_parse inp) as [E|[E|E]].
    - left. apply pesc_rejected; [exact E| |].
      + apply (proj2 (total_from_trait ro alpha fast std_parse SrcSlice inp)).
      + apply (proj2 (from_trait_no_panic ro alpha fast std_parse SrcSlice inp)).
    - exfalso. exact (proj2 (total_from_trait ro alpha fast std_parse SrcStr inp) E).
    - right. exact E.
  Qed.

  (* in particular: whenever the slice parse accepts, the str parse returns the same value *)
  Corollary slice_accepts_str_same (inp : list event) v :
    from_trait ro alpha fast std_parse SrcSlice inp = POk v -> from_trait ro alpha fast std_parse SrcStr inp = POk v.
  Proof.
    intros E. destruct (str_slice_agree inp) as [(l & c & R)|H]; [rewrite E in R; discriminate|]. rewrite H. exact E.
  Qed.

  (* and all three sources together, for plain bytes *)
  Corollary str_stream_agree (s : bytes) :
    utf8_rejected (from_trait ro alpha fast std_parse SrcSlice (bytes_events s)) \/
    same_outcome (from_trait ro alpha fast std_parse SrcStr (bytes_events s)) (from_trait ro alpha fast std_parse SrcIo (bytes_events s)).
  Proof.
    destruct (str_slice_agree (bytes_events s)) as [R|H]; [left; exact R|]. right. rewrite H. apply slice_stream_agree.
  Qed.
End StrAgree.

(* ---- the I/O error, unless the delivered prefix determines the outcome ---- *)
Require Import IoFailProofs.
Section IoBeforeDetermined.
  Variable ro : parse_options.
  Variable alpha : N -> bool.
  Variable fast : bool.
  Variable std_parse : N -> Z -> f64.

  Lemma io_pesc_cases {A} e (x : pres A) : IoFailProofs.pesc e x -> x <> PErr (XErr EFuel) -> no_panic x -> x = PErr (XErr (EIo e)).
  Proof.
    destruct x as [a|[er|k]]; cbn [IoFailProofs.pesc]; intros H Hf Hp; try contradiction.
    - destruct er as [c l cl|io|]; cbn [IoFailProofs.pesc] in H; try contradiction. subst io. reflexivity.
    - exfalso. apply (Hp k). reflexivity.
  Qed.

  (* a stream that fails with e after delivering pre: from_reader reports that
     I/O error, or it reports exactly what it reports on pre followed by
     anything else - the delivered prefix determines the result *)
  Theorem io_error_or_determined (pre post cont : list event) (e : N) :
    from_trait ro alpha fast std_parse SrcIo (pre ++ EFail e :: post) = PErr (XErr (EIo e)) \/
    from_trait ro alpha fast std_parse SrcIo (pre ++ cont) = from_trait ro alpha fast std_parse SrcIo (pre ++ EFail e :: post).
  Proof.
    set (i1 := pre ++ cont). set (i2 := pre ++ EFail e :: post).
    set (fuel := Nat.max (fuel_for i1) (fuel_for i2)).
    destruct (from_trait_fuel_irrelevant ro alpha fast std_parse fuel SrcIo i1 ltac:(unfold fuel; lia)) as [F1 _].
    destruct (from_trait_fuel_irrelevant ro alpha fast std_parse fuel SrcIo i2 ltac:(unfold fuel; lia)) as [F2 _].
    rewrite <- F1, <- F2.
    pose proof (proj1 (total_from_trait ro alpha fast std_parse SrcIo i1)) as T1.
    pose proof (proj1 (total_from_trait ro alpha fast std_parse SrcIo i2)) as T2.
    pose proof (proj1 (from_trait_no_panic ro alpha fast std_parse SrcIo i2)) as P2.
    rewrite <- F1 in T1. rewrite <- F2 in T2, P2.
    unfold from_trait_fuel in *.
    destruct (io_fail_values e post cont ro alpha fast std_parse fuel pre) as [E|[E|(E & _)]].
    - left. apply io_pesc_cases; assumption.
    - exfalso. exact (T1 E).
    - right. exact E.
  Qed.
  Theorem io_error_or_determined_datum (pre post cont : list event) (e : N) :
    datum_from_trait ro alpha fast std_parse SrcIo (pre ++ EFail e :: post) = PErr (XErr (EIo e)) \/
    datum_from_trait ro alpha fast std_parse SrcIo (pre ++ cont) = datum_from_trait ro alpha fast std_parse SrcIo (pre ++ EFail e :: post).
  Proof.
    set (i1 := pre ++ cont). set (i2 := pre ++ EFail e :: post).
    set (fuel := Nat.max (fuel_for i1) (fuel_for i2)).
    destruct (from_trait_fuel_irrelevant ro alpha fast std_parse fuel SrcIo i1 ltac:(unfold fuel; lia)) as [_ F1].
    destruct (from_trait_fuel_irrelevant ro alpha fast std_parse fuel SrcIo i2 ltac:(unfold fuel; lia)) as [_ F2].
    rewrite <- F1, <- F2.
    pose proof (proj2 (total_from_trait ro alpha fast std_parse SrcIo i1)) as T1.
    pose proof (proj2 (total_from_trait ro alpha fast std_parse SrcIo i2)) as T2.
    pose proof (proj2 (from_trait_no_panic ro alpha fast std_parse SrcIo i2)) as P2.
    rewrite <- F1 in T1. rewrite <- F2 in T2, P2.
    unfold datum_from_trait_fuel in *.
    destruct (io_fail_datums e post cont ro alpha fast std_parse fuel pre) as [E|[E|(E & _)]].
    - left. apply io_pesc_cases; assumption.
    - exfalso. exact (T1 E).
    - right. exact E.
  Qed.
End IoBeforeDetermined.

(* ---- what a truncated input can fail with ---- *)
Require Import TruncProofs.
Section Truncation.
  Variable ro : parse_options.
  Variable alpha : N -> bool.
  Variable fast : bool.
  Variable std_parse : N -> Z -> f64.

  (* the codes a proper prefix of an accepted text can fail with: the EOF
     category, and four checks made on data read before the end *)
  Definition trunc_code (c : errcode) : Prop :=
    classify_code c = CatEof \/ c = NumberOutOfRange \/ c = InvalidUnicodeCodePoint \/ c = ExpectedOctet \/ c = RecursionLimitExceeded.
  Lemma eofcode_trunc c : eofcode c = true -> trunc_code c.
  Proof. unfold eofcode, trunc_code. destruct c; cbn; intros H; try discriminate; tauto. Qed.

  Lemma trunc_pokres {A} (x : pres A) : pokres x -> x <> PErr (XErr EFuel) -> no_panic x ->
    (exists v, x = POk v) \/ (exists c l cl, x = PErr (XErr (ESyntax c l cl)) /\ trunc_code c).
  Proof.
    destruct x as [a|[e|k]]; cbn [pokres]; intros H Hf Hp.
    - left. eexists; reflexivity.
    - destruct e as [c l cl|io|]; cbn [eofish] in H; [|contradiction|exfalso; apply Hf; reflexivity].
      right. exists c, l, cl. split; [reflexivity|apply eofcode_trunc; exact H].
    - exfalso. apply (Hp k). reflexivity.
  Qed.

  Theorem truncation_partial (pre rest : list event) v :
    from_trait ro alpha fast std_parse SrcIo (pre ++ rest) = POk v ->
    (exists v', from_trait ro alpha fast std_parse SrcIo pre = POk v') \/
    (exists c l cl, from_trait ro alpha fast std_parse SrcIo pre = PErr (XErr (ESyntax c l cl)) /\ trunc_code c).
  Proof.
    intros EA. set (fuel := Nat.max (fuel_for pre) (fuel_for (pre ++ rest))).
    destruct (from_trait_fuel_irrelevant ro alpha fast std_parse fuel SrcIo pre ltac:(unfold fuel; lia)) as [F1 _].
    destruct (from_trait_fuel_irrelevant ro alpha fast std_parse fuel SrcIo (pre ++ rest) ltac:(unfold fuel; lia)) as [F2 _].
    pose proof (proj1 (total_from_trait ro alpha fast std_parse SrcIo pre)) as T1.
    pose proof (proj1 (from_trait_no_panic ro alpha fast std_parse SrcIo pre)) as P1.
    rewrite <- F2 in EA. rewrite <- F1 in T1, P1. rewrite <- F1. unfold from_trait_fuel in *.
    destruct (proj1 (trunc_from_trait rest ro alpha fast std_parse fuel pre)) as [(x & E)|[(E & _)|(_ & Ho)]].
    - rewrite EA in E. discriminate.
    - left. exists v. rewrite E. exact EA.
    - apply trunc_pokres; assumption.
  Qed.
  Theorem truncation_partial_datum (pre rest : list event) d :
    datum_from_trait ro alpha fast std_parse SrcIo (pre ++ rest) = POk d ->
    (exists d', datum_from_trait ro alpha fast std_parse SrcIo pre = POk d') \/
    (exists c l cl, datum_from_trait ro alpha fast std_parse SrcIo pre = PErr (XErr (ESyntax c l cl)) /\ trunc_code c).
  Proof.
    intros EA. set (fuel := Nat.max (fuel_for pre) (fuel_for (pre ++ rest))).
    destruct (from_trait_fuel_irrelevant ro alpha fast std_parse fuel SrcIo pre ltac:(unfold fuel; lia)) as [_ F1].
    destruct (from_trait_fuel_irrelevant ro alpha fast std_parse fuel SrcIo (pre ++ rest) ltac:(unfold fuel; lia)) as [_ F2].
    pose proof (proj2 (total_from_trait ro alpha fast std_parse SrcIo pre)) as T1.
    pose proof (proj2 (from_trait_no_panic ro alpha fast std_parse SrcIo pre)) as P1.
    rewrite <- F2 in EA. rewrite <- F1 in T1, P1. rewrite <- F1. unfold datum_from_trait_fuel in *.
    destruct (proj2 (trunc_from_trait rest ro alpha fast std_parse fuel pre)) as [(x & E)|[(E & _)|(_ & Ho)]].
    - rewrite EA in E. discriminate.
    - left. exists d. rewrite E. exact EA.
    - apply trunc_pokres; assumption.
  Qed.

  (* the same for a byte slice, through the slice / stream agreement *)
  Corollary truncation_partial_slice (p s : bytes) v :
    from_trait ro alpha fast std_parse SrcSlice (bytes_events (p ++ s)) = POk v ->
    (exists v', from_trait ro alpha fast std_parse SrcSlice (bytes_events p) = POk v') \/
    (exists c l cl, from_trait ro alpha fast std_parse SrcSlice (bytes_events p) = PErr (XErr (ESyntax c l cl)) /\ trunc_code c).
  Proof.
    intros EA. pose proof (slice_stream_agree ro alpha fast std_parse (p ++ s)) as HA. rewrite EA in HA.
    destruct (from_trait ro alpha fast std_parse SrcIo (bytes_events (p ++ s))) as [v2|x2] eqn:E2; [|destruct x2 as [[? ? ?|?|]|?]; contradiction].
    cbn [same_outcome] in HA. subst v2.
    assert (Eapp : bytes_events (p ++ s) = bytes_events p ++ bytes_events s) by (unfold bytes_events; apply map_app).
    rewrite Eapp in E2.
    pose proof (slice_stream_agree ro alpha fast std_parse p) as HB.
    destruct (truncation_partial (bytes_events p) (bytes_events s) v E2) as [(v' & E)|(c & l & cl & E & Hc)]; rewrite E in HB.
    - left. destruct (from_trait ro alpha fast std_parse SrcSlice (bytes_events p)) as [v1|x1]; [exists v1; reflexivity|destruct x1 as [[? ? ?|?|]|?]; contradiction].
    - right. destruct (from_trait ro alpha fast std_parse SrcSlice (bytes_events p)) as [v1|x1]; [contradiction|].
      destruct x1 as [[c1 l1 cl1|io|]|k]; try contradiction. cbn [same_outcome] in HB. subst c1. exists c, l1, cl1. split; [reflexivity|exact Hc].
  Qed.
End Truncation.
