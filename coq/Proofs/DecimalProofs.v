(* C05: decimal literals with a fraction and/or an exponent: the digit loops
   deliver exactly (significand, exponent) with significand * 10^exponent the
   value the literal denotes, and hand them to f64_from_parts. *)
From Coq Require Import SpecFloat ZifyBool ZifyNat ZifyN.
Require Import Base Value Float PrintOptions ParseOptions Utf8 Reader Scan Num NumberOps Parser.
Require Import Printer ReaderProofs ScanProofs TokenProofs NumTokenProofs.
Ltac Zify.zify_post_hook ::= Z.div_mod_to_equations.

Definition head0 (l : bytes) : N := match l with [] => 0 | b :: _ => b end.
(* what follows a run of digits is not a digit *)
Definition stops_digits (rest : bytes) : Prop := is_digit (head0 rest) = false.

Lemma peek0_at r rest : at_bytes r rest ->
  exists r', peek_or_null r = (Ok (head0 rest), r') /\ at_bytes r' rest /\ rk r' = rk r /\ (rest <> [] -> peeked r').
Proof.
  intros Ha. destruct rest as [|b l].
  - destruct (m_peek_or_null_nil r Ha) as (r' & E & Ha' & Hk). exists r'. repeat split; auto. intros H; contradiction.
  - destruct (m_peek_or_null_cons r b l Ha) as (r' & E & Ha' & Hp & Hk). exists r'. repeat split; auto.
Qed.

Lemma digit_val_nondigit c : is_digit c = false -> digit_val false c = None.
Proof. unfold digit_val, is_digit. intros ->. reflexivity. Qed.

Lemma overflow_Z_false a b c : (0 <= a)%Z -> (0 <= b)%Z -> (a * 10 + b <= c)%Z -> overflow_Z a 10 b c = false.
Proof. unfold overflow_Z. intros Ha Hb H. lia. Qed.

Lemma delim_stops rest : delim_ok rest -> stops_digits rest.
Proof. destruct rest as [|d rest]; [reflexivity|]. intros H. unfold stops_digits, head0. delim_cases H; reflexivity. Qed.

Section Decimal.
  Variable fast : bool.
  Variable std_parse : N -> Z -> f64.
  Local Notation f64_from_parts := (f64_from_parts fast std_parse).

  (* f64_from_parts does not touch the reader *)
  Lemma fast_loop_state fuel : forall f e r, snd (f64_from_parts_fast_loop fuel f e r) = r.
  Proof.
    induction fuel as [|k IH]; intros f e r; cbn [f64_from_parts_fast_loop]; [reflexivity|].
    repeat match goal with |- context [if ?c then _ else _] => destruct c end;
      try reflexivity; try (unfold error; destruct (r_position r); reflexivity); apply IH.
  Qed.
  Lemma from_parts_state pos sig e r : snd (f64_from_parts pos sig e r) = r.
  Proof.
    unfold Num.f64_from_parts. destruct fast.
    - unfold bind. pose proof (fast_loop_state 8 (f64_of_N sig) e r) as H.
      destruct (f64_from_parts_fast_loop 8 (f64_of_N sig) e r) as [[a|er] s]; cbn [snd] in *; subst; reflexivity.
    - destruct (is_infinite_f64 _); [unfold error; destruct (r_position r)|]; reflexivity.
  Qed.

  (* ---- the integer part: digits, then whatever parse_num_tail makes of the rest ---- *)
  Lemma num_loop_to_tail ds : forall fuel r pos res rest, (length ds < fuel)%nat -> all_digits ds -> stops_digits rest ->
    dfold res ds <= u64_MAX -> at_bytes r (ds ++ rest) ->
    exists r', num_literal_loop fast std_parse fuel 10 pos res r =
               parse_num_tail fast std_parse (fuel - 1 - length ds) 10 pos (dfold res ds) r' /\
               at_bytes r' rest /\ rk r' = rk r.
  Proof.
    induction ds as [|d ds IH]; intros fuel r pos res rest Hf Hd Hr Hmax Ha;
      (destruct fuel as [|f]; [cbn in Hf; lia|]); cbn [num_literal_loop]; change (10 <? 10) with false; cbn [app] in Ha.
    - destruct (peek0_at r rest Ha) as (r0 & E0 & Ha0 & Hk0 & _). rewrite (bind_ok _ _ _ _ _ E0).
      rewrite (digit_val_nondigit _ Hr). exists r0. cbn [length dfold fold_left].
      replace (S f - 1 - 0)%nat with f by lia. auto.
    - inversion Hd as [|? ? Hdig Hd']; subst. step. rewrite (digit_val_digit false d Hdig).
      assert (E10 : (10 <=? d - 48) = false) by (unfold is_digit, in_range in Hdig; lia). rewrite E10.
      step. change (dfold res (d :: ds)) with (dfold (res * 10 + (d - 48)) ds) in *.
      pose proof (dfold_ge ds (res * 10 + (d - 48))) as Hge.
      rewrite overflow_N_false by lia.
      destruct (IH f r1 pos (res * 10 + (d - 48)) rest ltac:(cbn in Hf; lia) Hd' Hr Hmax Ha1) as (r2 & E & Ha2 & Hk2).
      exists r2. rewrite E. cbn [length]. replace (S f - 1 - S (length ds))%nat with (f - 1 - length ds)%nat by lia.
      repeat split; auto; congruence.
  Qed.

  (* ---- the fraction digits ---- *)
  Lemma dec_digits_run fs : forall fuel r sig ex one rest, (length fs < fuel)%nat -> all_digits fs -> stops_digits rest ->
    dfold sig fs <= u64_MAX -> at_bytes r (fs ++ rest) ->
    exists r', decimal_digits fuel sig ex one r =
               (Ok (dfold sig fs, (ex - Z.of_nat (length fs))%Z, match fs with [] => one | _ => true end), r') /\
               at_bytes r' rest /\ rk r' = rk r /\ (rest <> [] -> peeked r').
  Proof.
    induction fs as [|d fs IH]; intros fuel r sig ex one rest Hf Hd Hr Hmax Ha;
      (destruct fuel as [|f]; [cbn in Hf; lia|]); cbn [decimal_digits]; cbn [app] in Ha.
    - destruct (peek0_at r rest Ha) as (r0 & E0 & Ha0 & Hk0 & Hp0). rewrite (bind_ok _ _ _ _ _ E0).
      unfold stops_digits in Hr. rewrite Hr. exists r0. unfold ret. cbn [length dfold fold_left].
      replace (ex - Z.of_nat 0)%Z with ex by lia. auto.
    - inversion Hd as [|? ? Hdig Hd']; subst. step. rewrite Hdig. step.
      change (dfold sig (d :: fs)) with (dfold (sig * 10 + (d - 48)) fs) in *.
      pose proof (dfold_ge fs (sig * 10 + (d - 48))) as Hge.
      rewrite overflow_N_false by lia.
      destruct (IH f r1 (sig * 10 + (d - 48)) (ex - 1)%Z true rest ltac:(cbn in Hf; lia) Hd' Hr Hmax Ha1)
        as (r2 & E & Ha2 & Hk2 & Hp2).
      exists r2. rewrite E. cbn [length]. replace (ex - 1 - Z.of_nat (length fs))%Z with (ex - Z.of_nat (S (length fs)))%Z by lia.
      split; [destruct fs; reflexivity|]. repeat split; auto; congruence.
  Qed.

  (* ---- the exponent digits ---- *)
  Lemma exp_digits_run es : forall fuel r pos sig pexp start e0 rest, (length es < fuel)%nat -> all_digits es ->
    stops_digits rest -> (Z.of_N (dfold e0 es) <= i32_MAX)%Z -> at_bytes r (es ++ rest) ->
    exists r', exponent_digits fast std_parse fuel pos sig pexp start (Z.of_N e0) r =
               f64_from_parts pos sig (if pexp then sat_i32 (start + Z.of_N (dfold e0 es))
                                       else sat_i32 (start - Z.of_N (dfold e0 es))) r' /\
               at_bytes r' rest /\ rk r' = rk r.
  Proof.
    induction es as [|d es IH]; intros fuel r pos sig pexp start e0 rest Hf Hd Hr Hmax Ha;
      (destruct fuel as [|f]; [cbn in Hf; lia|]); cbn [exponent_digits]; cbn [app] in Ha.
    - destruct (peek0_at r rest Ha) as (r0 & E0 & Ha0 & Hk0 & _). rewrite (bind_ok _ _ _ _ _ E0).
      unfold stops_digits in Hr. rewrite Hr. exists r0. cbn [dfold fold_left]. auto.
    - inversion Hd as [|? ? Hdig Hd']; subst. step. rewrite Hdig. step.
      change (dfold e0 (d :: es)) with (dfold (e0 * 10 + (d - 48)) es) in *.
      pose proof (dfold_ge es (e0 * 10 + (d - 48))) as Hge.
      assert (Hdr : 48 <= d <= 57) by (unfold is_digit, in_range in Hdig; lia).
      rewrite overflow_Z_false by lia.
      replace (Z.of_N e0 * 10 + Z.of_N (d - 48))%Z with (Z.of_N (e0 * 10 + (d - 48))) by lia.
      destruct (IH f r1 pos sig pexp start (e0 * 10 + (d - 48)) rest ltac:(cbn in Hf; lia) Hd' Hr Hmax Ha1)
        as (r2 & E & Ha2 & Hk2).
      exists r2. rewrite E. repeat split; auto; congruence.
  Qed.

  (* the exponent part: e or E, an optional sign, digits *)
  Definition sign_text (sg : option bool) : bytes :=
    match sg with None => [] | Some true => [43] | Some false => [45] end.
  Definition sign_pos (sg : option bool) : bool := match sg with Some false => false | _ => true end.

  Lemma parse_exponent_run fuel r pos sig start ec sg d es rest :
    ec = 101 \/ ec = 69 -> (length es < fuel)%nat -> all_digits (d :: es) -> stops_digits rest ->
    (Z.of_N (dfold 0 (d :: es)) <= i32_MAX)%Z -> at_bytes r (ec :: sign_text sg ++ (d :: es) ++ rest) -> peeked r ->
    exists r', parse_exponent fast std_parse fuel pos sig start r =
               f64_from_parts pos sig (if sign_pos sg then sat_i32 (start + Z.of_N (dfold 0 (d :: es)))
                                       else sat_i32 (start - Z.of_N (dfold 0 (d :: es)))) r' /\
               at_bytes r' rest /\ rk r' = rk r.
  Proof.
    intros Hec Hf Hd Hr Hmax Ha Hp. unfold parse_exponent. step.
    inversion Hd as [|? ? Hdig Hd']; subst.
    assert (Hdr : 48 <= d <= 57) by (unfold is_digit, in_range in Hdig; lia).
    change (dfold 0 (d :: es)) with (dfold (d - 48) es) in *.
    assert (Hsign : exists r1, at_bytes r1 ((d :: es) ++ rest) /\ rk r1 = rk r0 /\
      forall k : bool -> M f64,
        (c <- peek_or_null ;;
         pe <- (if c =? 43 then eat_char ;;; ret true else if c =? 45 then eat_char ;;; ret false else ret true) ;; k pe) r0
        = k (sign_pos sg) r1).
    { destruct sg as [[|]|]; cbn [sign_text app] in Ha0.
      - destruct (m_peek_or_null_cons r0 43 _ Ha0) as (r1 & E1 & Ha1 & Hp1 & Hk1).
        destruct (m_eat r1 43 _ Ha1 Hp1) as (r2 & E2 & Ha2 & Hk2).
        exists r2. repeat split; auto; try congruence. intros k.
        rewrite (bind_ok _ _ _ _ _ E1). change (43 =? 43) with true. cbv iota.
        unfold bind at 1. unfold bind at 1. rewrite E2. reflexivity.
      - destruct (m_peek_or_null_cons r0 45 _ Ha0) as (r1 & E1 & Ha1 & Hp1 & Hk1).
        destruct (m_eat r1 45 _ Ha1 Hp1) as (r2 & E2 & Ha2 & Hk2).
        exists r2. repeat split; auto; try congruence. intros k.
        rewrite (bind_ok _ _ _ _ _ E1). change (45 =? 43) with false. change (45 =? 45) with true. cbv iota.
        unfold bind at 1. unfold bind at 1. rewrite E2. reflexivity.
      - destruct (m_peek_or_null_cons r0 d _ Ha0) as (r1 & E1 & Ha1 & Hp1 & Hk1).
        exists r1. repeat split; auto. intros k.
        rewrite (bind_ok _ _ _ _ _ E1).
        replace (d =? 43) with false by lia. replace (d =? 45) with false by lia. reflexivity. }
    destruct Hsign as (r1 & Ha1 & Hk1 & Hs). rewrite Hs. cbn [app] in Ha1.
    step. rewrite Hdig. replace (Z.of_N (d - 48)) with (Z.of_N (d - 48)) by reflexivity.
    destruct (exp_digits_run es fuel r2 pos sig (sign_pos sg) start (d - 48) rest Hf Hd' Hr Hmax Ha2) as (r3 & E3 & Ha3 & Hk3).
    exists r3. rewrite E3. repeat split; auto; congruence.
  Qed.

  (* an optional exponent part after the significand *)
  Definition exp_text (ex : option (N * option bool * bytes)) : bytes :=
    match ex with None => [] | Some (ec, sg, es) => ec :: sign_text sg ++ es end.
  Definition exp_ok (ex : option (N * option bool * bytes)) : Prop :=
    match ex with
    | None => True
    | Some (ec, sg, es) => (ec = 101 \/ ec = 69) /\ es <> [] /\ all_digits es /\ (Z.of_N (dfold 0 es) <= i32_MAX)%Z
    end.
  (* the exponent the literal denotes, saturated to i32 as the code does *)
  Definition exp_value (start : Z) (ex : option (N * option bool * bytes)) : Z :=
    match ex with
    | None => start
    | Some (_, sg, es) => if sign_pos sg then sat_i32 (start + Z.of_N (dfold 0 es)) else sat_i32 (start - Z.of_N (dfold 0 es))
    end.

  (* after the significand: an exponent, or straight to f64_from_parts *)
  Lemma exponent_or_done fuel r pos sig start ex rest :
    exp_ok ex -> (length (exp_text ex) < fuel)%nat -> delim_ok rest -> at_bytes r (exp_text ex ++ rest) ->
    (exp_text ex ++ rest <> [] -> peeked r) ->
    exists r', (c <- peek_or_null ;;
                if (c =? 101) || (c =? 69) then parse_exponent fast std_parse fuel pos sig start
                else f64_from_parts pos sig start) r = f64_from_parts pos sig (exp_value start ex) r' /\
               at_bytes r' rest /\ rk r' = rk r.
  Proof.
    intros Hok Hf Hr Ha Hp. destruct ex as [[[ec sg] es]|]; cbn [exp_text exp_ok exp_value app] in *.
    - destruct Hok as (Hec & Hne & Hd & Hmax). destruct es as [|d es]; [contradiction|].
      rewrite <- app_assoc in Ha. cbn [app] in Ha.
      destruct (m_peek_or_null_cons r ec _ Ha) as (r0 & E0 & Ha0 & Hp0 & Hk0). rewrite (bind_ok _ _ _ _ _ E0).
      assert (Ee : ((ec =? 101) || (ec =? 69)) = true) by (destruct Hec as [->| ->]; reflexivity). rewrite Ee.
      change (sign_text sg ++ d :: es ++ rest) with (sign_text sg ++ (d :: es) ++ rest) in Ha0.
      destruct (parse_exponent_run fuel r0 pos sig start ec sg d es rest Hec) as (r1 & E1 & Ha1 & Hk1); auto.
      { cbn [length] in Hf. rewrite app_length in Hf. cbn [length] in Hf. lia. }
      { apply delim_stops. exact Hr. }
      exists r1. rewrite E1. repeat split; auto; congruence.
    - destruct (peek0_at r rest Ha) as (r0 & E0 & Ha0 & Hk0 & _). rewrite (bind_ok _ _ _ _ _ E0).
      assert (Ee : ((head0 rest =? 101) || (head0 rest =? 69)) = false).
      { destruct rest as [|b rest']; [reflexivity|]. cbn [head0]. delim_cases Hr; reflexivity. }
      rewrite Ee. exists r0. auto.
  Qed.

  Lemma exp_text_stops ex rest : exp_ok ex -> delim_ok rest -> stops_digits (exp_text ex ++ rest).
  Proof.
    destruct ex as [[[ec sg] es]|]; cbn [exp_text exp_ok app].
    - intros ([->| ->] & _) _; reflexivity.
    - intros _ H. apply delim_stops. exact H.
  Qed.

  (* ---- the fraction: '.', digits, optional exponent ---- *)
  Lemma parse_decimal_run fuel r pos sig start fs ex rest :
    fs <> [] -> all_digits fs -> dfold sig fs <= u64_MAX -> exp_ok ex ->
    (length fs + length (exp_text ex) < fuel)%nat -> delim_ok rest ->
    at_bytes r (46 :: fs ++ exp_text ex ++ rest) -> peeked r ->
    exists r', parse_decimal fast std_parse fuel pos sig start r =
               f64_from_parts pos (dfold sig fs) (exp_value (start - Z.of_nat (length fs)) ex) r' /\
               at_bytes r' rest /\ rk r' = rk r.
  Proof.
    intros Hne Hd Hmax Hex Hf Hr Ha Hp. unfold parse_decimal. step.
    destruct (dec_digits_run fs fuel r0 sig start false (exp_text ex ++ rest) ltac:(lia) Hd
                (exp_text_stops ex rest Hex Hr) Hmax Ha0) as (r1 & E1 & Ha1 & Hk1 & Hp1).
    rewrite (bind_ok _ _ _ _ _ E1). destruct fs as [|f0 fs']; [contradiction|]. cbv iota beta. cbn [negb].
    destruct (exponent_or_done fuel r1 pos (dfold sig (f0 :: fs')) (start - Z.of_nat (length (f0 :: fs')))%Z ex rest
                Hex ltac:(lia) Hr Ha1 Hp1) as (r2 & E2 & Ha2 & Hk2).
    exists r2. rewrite E2. repeat split; auto; congruence.
  Qed.

  (* ---- a whole unsigned decimal literal with a fraction and/or an exponent ---- *)
  Definition frac_text (fs : bytes) : bytes := match fs with [] => [] | _ => 46 :: fs end.
  Definition lit_text (ip fs : bytes) (ex : option (N * option bool * bytes)) : bytes :=
    ip ++ frac_text fs ++ exp_text ex.
  Definition lit_sig (ip fs : bytes) : N := dfold 0 (ip ++ fs).
  Definition lit_exp (fs : bytes) (ex : option (N * option bool * bytes)) : Z := exp_value (- Z.of_nat (length fs)) ex.
  (* a float literal: it has a fraction or an exponent *)
  Definition is_float_lit (fs : bytes) (ex : option (N * option bool * bytes)) : Prop := fs <> [] \/ ex <> None.

  Lemma num_tail_run fuel r pos ip_val fs ex rest :
    is_float_lit fs ex -> all_digits fs -> dfold ip_val fs <= u64_MAX -> exp_ok ex ->
    (length fs + length (exp_text ex) < fuel)%nat -> delim_ok rest ->
    at_bytes r (frac_text fs ++ exp_text ex ++ rest) ->
    exists r', parse_num_tail fast std_parse fuel 10 pos ip_val r =
               (x <- f64_from_parts pos (dfold ip_val fs) (lit_exp fs ex) ;; ret (Float x)) r' /\
               at_bytes r' rest /\ rk r' = rk r.
  Proof.
    intros Hfl Hd Hmax Hex Hf Hr Ha. unfold parse_num_tail, lit_exp.
    destruct fs as [|f0 fs'].
    - (* no fraction: an exponent *)
      destruct Hfl as [Hc|Hc]; [contradiction|]. destruct ex as [[[ec sg] es]|]; [|contradiction].
      cbn [frac_text app exp_text exp_ok exp_value length dfold fold_left] in *.
      destruct Hex as (Hec & Hne & Hde & Hme). destruct es as [|d es]; [contradiction|].
      rewrite <- app_assoc in Ha. cbn [app] in Ha.
      destruct (m_peek_or_null_cons r ec _ Ha) as (r0 & E0 & Ha0 & Hp0 & Hk0). rewrite (bind_ok _ _ _ _ _ E0).
      assert (E46 : (ec =? 46) = false) by (destruct Hec as [->| ->]; reflexivity). rewrite E46.
      assert (Ee : ((ec =? 101) || (ec =? 69)) = true) by (destruct Hec as [->| ->]; reflexivity). rewrite Ee.
      change (negb (10 =? 10)) with false. cbv iota.
      change (sign_text sg ++ d :: es ++ rest) with (sign_text sg ++ (d :: es) ++ rest) in Ha0.
      destruct (parse_exponent_run fuel r0 pos ip_val 0 ec sg d es rest Hec) as (r1 & E1 & Ha1 & Hk1); auto.
      { rewrite app_length in Hf. cbn [length] in Hf. lia. }
      { apply delim_stops. exact Hr. }
      exists r1. split; [|split; [assumption|congruence]].
      unfold bind at 1. rewrite E1. replace (- Z.of_nat 0)%Z with 0%Z by reflexivity. reflexivity.
    - cbn [frac_text app] in Ha.
      destruct (m_peek_or_null_cons r 46 _ Ha) as (r0 & E0 & Ha0 & Hp0 & Hk0). rewrite (bind_ok _ _ _ _ _ E0).
      change (46 =? 46) with true. change (negb (10 =? 10)) with false. cbv iota.
      destruct (parse_decimal_run fuel r0 pos ip_val 0 (f0 :: fs') ex rest ltac:(discriminate) Hd Hmax Hex Hf Hr Ha0 Hp0)
        as (r1 & E1 & Ha1 & Hk1).
      exists r1. split; [|split; [assumption|congruence]].
      unfold bind at 1. rewrite E1. reflexivity.
  Qed.

  Lemma lit_rest_stops fs ex rest : is_float_lit fs ex -> exp_ok ex -> stops_digits (frac_text fs ++ exp_text ex ++ rest).
  Proof.
    intros Hfl Hex. destruct fs as [|f0 fs']; [|reflexivity]. cbn [frac_text app].
    destruct Hfl as [Hc|Hc]; [contradiction|]. destruct ex as [[[ec sg] es]|]; [|contradiction].
    destruct Hex as ([->| ->] & _); reflexivity.
  Qed.

  Theorem num_literal_decimal fuel r pos d ip fs ex rest :
    all_digits (d :: ip) -> all_digits fs -> is_float_lit fs ex -> exp_ok ex -> lit_sig (d :: ip) fs <= u64_MAX ->
    (S (length (lit_text (d :: ip) fs ex)) < fuel)%nat -> delim_ok rest ->
    at_bytes r (lit_text (d :: ip) fs ex ++ rest) ->
    exists r', parse_num_literal fast std_parse fuel 10 pos r =
               (x <- f64_from_parts pos (lit_sig (d :: ip) fs) (lit_exp fs ex) ;; ret (Float x)) r' /\
               at_bytes r' rest /\ rk r' = rk r.
  Proof.
    intros Hdi Hdf Hfl Hex Hmax Hf Hr Ha. unfold parse_num_literal, lit_text, lit_sig in *.
    rewrite <- !app_assoc in Ha. cbn [app] in Ha. rewrite !app_length in Hf.
    inversion Hdi as [|? ? Hdig Hdi']; subst. step. rewrite (digit_val_digit true d Hdig).
    assert (E10 : (10 <=? d - 48) = false) by (unfold is_digit, in_range in Hdig; lia). rewrite E10.
    rewrite dfold_app in Hmax. change (dfold 0 (d :: ip)) with (dfold (d - 48) ip) in *.
    pose proof (dfold_ge fs (dfold (d - 48) ip)) as Hge.
    destruct (num_loop_to_tail ip fuel r0 pos (d - 48) (frac_text fs ++ exp_text ex ++ rest)
                ltac:(cbn [length] in Hf; lia) Hdi' (lit_rest_stops fs ex rest Hfl Hex) ltac:(lia) Ha0) as (r1 & E1 & Ha1 & Hk1).
    rewrite E1.
    destruct (num_tail_run (fuel - 1 - length ip) r1 pos (dfold (d - 48) ip) fs ex rest Hfl Hdf Hmax Hex
                ltac:(destruct fs; cbn [frac_text length] in Hf |- *; lia) Hr Ha1) as (r3 & E3 & Ha3 & Hk3).
    exists r3. rewrite E3, dfold_app. repeat split; auto; congruence.
  Qed.
End Decimal.
