(* A small theory of well-formed UTF-8 as the model defines it (Utf8.v):
   a valid string is a concatenation of well-formed sequences; validity is
   closed under concatenation, under the printer's escaping, and under
   removing a trailing ASCII byte. *)
From Coq Require Import Lia ZifyBool ZifyNat ZifyN.
Require Import Base Utf8.

(* a single well-formed sequence: recognised as such whatever follows *)
Definition wf_seq (s : bytes) : Prop := s <> [] /\ forall l, utf8_head_len (s ++ l) = length s.
Definition seq_shape (s : bytes) : Prop :=
  (exists b, s = [b] /\ b < 128) \/ ((2 <= length s)%nat /\ Forall (fun b => 128 <= b) s).

Inductive seqs : bytes -> Prop :=
| seqs_nil : seqs []
| seqs_cons s l : wf_seq s -> seq_shape s -> seqs l -> seqs (s ++ l).

Ltac split_ifs :=
  repeat match goal with
         | |- context [if ?c then _ else _] => let E := fresh "E" in destruct c eqn:E
         | H : context [if ?c then _ else _] |- _ => let E := fresh "E" in destruct c eqn:E
         end.

(* what utf8_head_len recognises *)
Lemma head_len_spec l n : utf8_head_len l = n -> n <> 0%nat ->
  exists s l', l = s ++ l' /\ length s = n /\ wf_seq s /\ seq_shape s.
Proof.
  intros H Hn. destruct l as [|b0 r]; [cbn in H; congruence|].
  unfold utf8_head_len in H.
  destruct (b0 <? 128) eqn:E0.
  { exists [b0], r. subst n. repeat split; try discriminate.
    - intros l. cbn [app utf8_head_len]. rewrite E0. reflexivity.
    - left. exists b0. split; [reflexivity|lia]. }
  assert (H128 : 128 <= b0) by lia.
  Ltac two_bytes b0 b1 r E0 :=
    exists [b0; b1], r; repeat split; try discriminate;
    [ intros l; cbn [app utf8_head_len]; rewrite E0; split_ifs; try reflexivity; try discriminate; try lia
    | right; split; [cbn; lia|repeat constructor; unfold is_cont, in_range in *; lia] ].
  Ltac three_bytes b0 b1 b2 r E0 :=
    exists [b0; b1; b2], r; repeat split; try discriminate;
    [ intros l; cbn [app utf8_head_len]; rewrite E0; split_ifs; try reflexivity; try discriminate; try lia
    | right; split; [cbn; lia|repeat constructor; unfold is_cont, in_range in *; lia] ].
  Ltac four_bytes b0 b1 b2 b3 r E0 :=
    exists [b0; b1; b2; b3], r; repeat split; try discriminate;
    [ intros l; cbn [app utf8_head_len]; rewrite E0; split_ifs; try reflexivity; try discriminate; try lia
    | right; split; [cbn; lia|repeat constructor; unfold is_cont, in_range in *; lia] ].
  destruct (in_range 194 223 b0) eqn:E1.
  { destruct r as [|b1 r]; [congruence|]. destruct (is_cont b1) eqn:Ec; [|congruence]. subst n. two_bytes b0 b1 r E0. }
  destruct (b0 =? 224) eqn:E2.
  { destruct r as [|b1 [|b2 r]]; try congruence. destruct (in_range 160 191 b1 && is_cont b2)%bool eqn:Ec; [|congruence].
    subst n. three_bytes b0 b1 b2 r E0. }
  destruct (in_range 225 236 b0 || in_range 238 239 b0)%bool eqn:E3.
  { destruct r as [|b1 [|b2 r]]; try congruence. destruct (is_cont b1 && is_cont b2)%bool eqn:Ec; [|congruence].
    subst n. three_bytes b0 b1 b2 r E0. }
  destruct (b0 =? 237) eqn:E4.
  { destruct r as [|b1 [|b2 r]]; try congruence. destruct (in_range 128 159 b1 && is_cont b2)%bool eqn:Ec; [|congruence].
    subst n. three_bytes b0 b1 b2 r E0. }
  destruct (b0 =? 240) eqn:E5.
  { destruct r as [|b1 [|b2 [|b3 r]]]; try congruence.
    destruct (in_range 144 191 b1 && is_cont b2 && is_cont b3)%bool eqn:Ec; [|congruence].
    subst n. four_bytes b0 b1 b2 b3 r E0. }
  destruct (in_range 241 243 b0) eqn:E6.
  { destruct r as [|b1 [|b2 [|b3 r]]]; try congruence.
    destruct (is_cont b1 && is_cont b2 && is_cont b3)%bool eqn:Ec; [|congruence].
    subst n. four_bytes b0 b1 b2 b3 r E0. }
  destruct (b0 =? 244) eqn:E7.
  { destruct r as [|b1 [|b2 [|b3 r]]]; try congruence.
    destruct (in_range 128 143 b1 && is_cont b2 && is_cont b3)%bool eqn:Ec; [|congruence].
    subst n. four_bytes b0 b1 b2 b3 r E0. }
  congruence.
Qed.

Lemma skipn_app_exact {A} (s l : list A) : skipn (length s) (s ++ l) = l.
Proof. induction s as [|x s IH]; cbn [length skipn app]; auto. Qed.

Lemma valid_fuel_seqs fuel : forall l, utf8_valid_fuel fuel l = true -> seqs l.
Proof.
  induction fuel as [|f IH]; intros l H; destruct l as [|b l]; try constructor; cbn [utf8_valid_fuel] in H; try discriminate.
  destruct (utf8_head_len (b :: l)) as [|n] eqn:En; [discriminate|].
  destruct (head_len_spec (b :: l) (S n) En ltac:(discriminate)) as (s & l' & El & Hlen & Hwf & Hsh).
  rewrite El in H |- *. rewrite <- Hlen, skipn_app_exact in H. constructor; auto.
Qed.

Lemma valid_fuel_mono fuel : forall l fuel', utf8_valid_fuel fuel l = true -> (fuel <= fuel')%nat ->
  utf8_valid_fuel fuel' l = true.
Proof.
  induction fuel as [|f IH]; intros l fuel' H Hle; destruct l as [|b l]; try (destruct fuel'; reflexivity);
    cbn [utf8_valid_fuel] in H; try discriminate.
  destruct fuel' as [|f']; [lia|]. cbn [utf8_valid_fuel].
  destruct (utf8_head_len (b :: l)) as [|n]; [discriminate|]. apply (IH _ f' H). lia.
Qed.

Lemma seqs_valid l : seqs l -> utf8_valid l = true.
Proof.
  unfold utf8_valid. induction 1 as [|s l [Hne Hhd] Hsh Hl IH]; [reflexivity|].
  destruct s as [|b s]; [contradiction|]. rewrite app_length. cbn [length plus app utf8_valid_fuel].
  change (b :: s ++ l) with ((b :: s) ++ l). rewrite (Hhd l). cbn [length].
  change (skipn (S (length s)) ((b :: s) ++ l)) with (skipn (length (b :: s)) ((b :: s) ++ l)).
  rewrite skipn_app_exact. apply (valid_fuel_mono _ _ _ IH). lia.
Qed.

Theorem valid_iff_seqs l : utf8_valid l = true <-> seqs l.
Proof. split; [apply valid_fuel_seqs|apply seqs_valid]. Qed.

Lemma seqs_app a b : seqs a -> seqs b -> seqs (a ++ b).
Proof. induction 1 as [|s l Hwf Hsh Hl IH]; intros Hb; [exact Hb|]. rewrite <- app_assoc. constructor; auto. Qed.

Theorem utf8_valid_app a b : utf8_valid a = true -> utf8_valid b = true -> utf8_valid (a ++ b) = true.
Proof. rewrite !valid_iff_seqs. apply seqs_app. Qed.

Definition all_ascii (l : bytes) : Prop := Forall (fun b => b < 128) l.

Lemma ascii_wf_seq b : b < 128 -> wf_seq [b] /\ seq_shape [b].
Proof.
  intros H. split; [split; [discriminate|]|left; exists b; auto].
  intros l. cbn [app utf8_head_len length]. replace (b <? 128) with true by lia. reflexivity.
Qed.

Lemma ascii_seqs l : all_ascii l -> seqs l.
Proof.
  induction 1 as [|b l Hb Hl IH]; [constructor|]. change (b :: l) with ([b] ++ l).
  destruct (ascii_wf_seq b Hb). constructor; auto.
Qed.
Theorem ascii_valid l : all_ascii l -> utf8_valid l = true.
Proof. intros H. apply valid_iff_seqs, ascii_seqs, H. Qed.

(* removing a trailing ASCII byte *)
Lemma seqs_drop_last_ascii l : seqs l -> forall a c, l = a ++ [c] -> c < 128 -> seqs a.
Proof.
  induction 1 as [|s l Hwf Hsh Hl IH]; intros a c E Hc.
  - destruct a; discriminate.
  - destruct l as [|x l0].
    + rewrite app_nil_r in E. subst s.
      destruct Hsh as [(b & Eb & _)|[_ Hall]].
      * destruct a as [|y a]; [constructor|]. destruct a; discriminate.
      * apply Forall_app in Hall. destruct Hall as [_ Hc']. inversion Hc'; subst. lia.
    + destruct (exists_last (l := x :: l0) ltac:(discriminate)) as (l1 & y & El). rewrite El in *.
      rewrite app_assoc in E. apply app_inj_tail in E. destruct E as [Ea Ey]. subst a y.
      constructor; auto. eapply IH; [reflexivity|exact Hc].
Qed.

Theorem utf8_valid_drop_last_ascii a c : c < 128 -> utf8_valid (a ++ [c]) = true -> utf8_valid a = true.
Proof. intros Hc H. apply valid_iff_seqs. eapply seqs_drop_last_ascii; [apply valid_iff_seqs; exact H|reflexivity|exact Hc]. Qed.

(* a byte-wise substitution that touches only ASCII bytes and yields ASCII *)
Lemma seqs_flat_map (f : N -> bytes) :
  (forall b, b < 128 -> all_ascii (f b)) -> (forall b, 128 <= b -> f b = [b]) ->
  forall l, seqs l -> seqs (flat_map f l).
Proof.
  intros Hlo Hhi l. induction 1 as [|s l Hwf Hsh Hl IH]; [constructor|].
  rewrite flat_map_app. destruct Hsh as [(b & -> & Hb)|[_ Hall]].
  - cbn [flat_map]. rewrite app_nil_r. apply seqs_app; [apply ascii_seqs, Hlo, Hb|exact IH].
  - assert (E : flat_map f s = s).
    { clear Hwf. induction Hall as [|b s Hb Hs IHs]; [reflexivity|]. cbn [flat_map]. rewrite (Hhi b Hb), IHs. reflexivity. }
    rewrite E. constructor; auto. right. split; [|exact Hall].
    destruct Hwf as [Hne Hhd]. destruct s as [|b0 [|b1 s']]; [contradiction| |cbn; lia].
    inversion Hall; subst. specialize (Hhd []). cbn [app utf8_head_len length] in Hhd.
    replace (b0 <? 128) with false in Hhd by lia. split_ifs; discriminate.
Qed.

(* ---- boundaries: where a valid string may be cut ---- *)
(* in a well-formed sequence the first byte is no continuation byte, all others are *)
Lemma wf_seq_bytes s : wf_seq s ->
  match s with [] => False | b0 :: t => is_cont b0 = false /\ Forall (fun b => is_cont b = true) t end.
Proof.
  intros [Hne Hhd]. destruct s as [|b0 r]; [contradiction|]. specialize (Hhd []). rewrite app_nil_r in Hhd.
  unfold utf8_head_len in Hhd.
  destruct r as [|b1 [|b2 [|b3 [|b4 r]]]]; cbn [length] in Hhd; split_ifs; try discriminate; try lia;
    (split; [unfold is_cont, in_range in *; lia|repeat constructor; unfold is_cont, in_range in *; lia]).
Qed.

Definition boundary_head (l : bytes) : Prop := match l with [] => True | b :: _ => is_cont b = false end.

Lemma seqs_boundary l : seqs l -> boundary_head l.
Proof.
  intros [|s l' Hwf _ _]; [exact I|]. pose proof (wf_seq_bytes s Hwf) as H. destruct s as [|b0 t]; [contradiction|]. apply H.
Qed.

(* a valid string cut where the second part does not start with a continuation byte: both parts are valid *)
Lemma seqs_split l : seqs l -> forall a b, l = a ++ b -> boundary_head b -> seqs a /\ seqs b.
Proof.
  induction 1 as [|s l Hwf Hsh Hl IH]; intros a b E Hb.
  - symmetry in E. apply app_eq_nil in E. destruct E as [-> ->]. split; constructor.
  - pose proof (wf_seq_bytes s Hwf) as Hs. destruct s as [|b0 t]; [contradiction|]. destruct Hs as [H0 Ht].
    destruct a as [|a0 a'].
    + cbn [app] in E. subst b. split; [constructor|]. change (b0 :: t ++ l) with ((b0 :: t) ++ l). constructor; auto.
    + cbn [app] in E. inversion E as [[E0 E1]]. subst a0.
      (* either a' covers t, or b starts inside t *)
      assert (Hcase : (exists a'', a' = t ++ a'' /\ l = a'' ++ b) \/ (exists t1 c t2, t = t1 ++ c :: t2 /\ a' = t1 /\ b = c :: t2 ++ l)).
      { clear -E1. revert a' E1. induction t as [|x t IHt]; intros a' E1; cbn [app] in *.
        - left. exists a'. auto.
        - destruct a' as [|y a'']; cbn [app] in E1.
          + right. exists [], x, t. subst b. auto.
          + inversion E1 as [[Ex Er]]. subst y. destruct (IHt a'' Er) as [(a3 & -> & El)|(t1 & c & t2 & -> & -> & ->)].
            * left. exists a3. auto.
            * right. exists (x :: t1), c, t2. auto. }
      destruct Hcase as [(a'' & -> & El)|(t1 & c & t2 & Et & _ & Eb)].
      * destruct (IH a'' b El Hb) as [Ha Hb']. split; [|exact Hb'].
        change (b0 :: t ++ a'') with ((b0 :: t) ++ a''). constructor; auto.
      * exfalso. subst b t. cbn [boundary_head] in Hb. apply Forall_app in Ht. destruct Ht as [_ Ht].
        inversion Ht; subst. congruence.
Qed.

Theorem utf8_valid_split a b : utf8_valid (a ++ b) = true -> boundary_head b -> utf8_valid a = true /\ utf8_valid b = true.
Proof.
  intros H Hb. apply valid_iff_seqs in H. destruct (seqs_split _ H a b eq_refl Hb) as [Ha Hb'].
  split; apply valid_iff_seqs; assumption.
Qed.

Lemma valid_boundary l : utf8_valid l = true -> boundary_head l.
Proof. intros H. apply seqs_boundary, valid_iff_seqs, H. Qed.

Lemma ascii_boundary b l : b < 128 -> boundary_head (b :: l).
Proof. intros H. cbn. unfold is_cont, in_range. lia. Qed.

(* the middle of a valid string between two boundaries *)
Theorem utf8_valid_slice a s b : utf8_valid (a ++ s ++ b) = true -> boundary_head (s ++ b) -> boundary_head b ->
  utf8_valid s = true.
Proof.
  intros H Hs Hb. destruct (utf8_valid_split a (s ++ b) H Hs) as [_ H1].
  destruct (utf8_valid_split s b H1 Hb) as [H2 _]. exact H2.
Qed.

(* after a valid prefix the rest of a valid string is valid *)
Theorem utf8_valid_after a b : utf8_valid (a ++ b) = true -> utf8_valid a = true -> utf8_valid b = true.
Proof.
  intros H Ha. apply valid_iff_seqs in H. apply valid_iff_seqs in Ha. apply valid_iff_seqs.
  revert b H. induction Ha as [|s l Hwf Hsh Hl IH]; intros b H; [exact H|].
  rewrite <- app_assoc in H. inversion H as [E|s' l' Hwf' Hsh' Hl' E].
  - destruct Hwf as [Hne _]. destruct s; [contradiction|discriminate].
  - (* both decompositions start with the same sequence *)
    assert (Es : s' = s /\ l' = l ++ b).
    { destruct Hwf as [_ Hh]. destruct Hwf' as [_ Hh']. pose proof (Hh (l ++ b)) as L1. pose proof (Hh' l') as L2.
      rewrite E in L2. rewrite L1 in L2.
      assert (Ef : firstn (length s) (s' ++ l') = firstn (length s) (s ++ l ++ b)) by (rewrite E; reflexivity).
      rewrite L2 in Ef at 1. rewrite !firstn_app, !Nat.sub_diag, !firstn_all in Ef. cbn [firstn] in Ef. rewrite !app_nil_r in Ef.
      split; [exact Ef|]. subst s'. apply app_inv_head in E. exact E. }
    destruct Es as [-> ->]. apply IH. exact Hl'.
Qed.

(* what follows an ASCII byte in a valid string does not start with a continuation byte *)
Lemma seqs_after_ascii l : seqs l -> forall a c b, l = a ++ c :: b -> c < 128 -> seqs b.
Proof.
  induction 1 as [|s l Hwf Hsh Hl IH]; intros a c b E Hc.
  - destruct a; discriminate.
  - pose proof (wf_seq_bytes s Hwf) as Hs. destruct s as [|b0 t]; [contradiction|]. destruct Hs as [H0 Ht].
    destruct a as [|a0 a'].
    + cbn [app] in E. inversion E as [[E0 E1]]. subst b0.
      (* an ASCII first byte is a whole sequence *)
      destruct Hsh as [(x & Ex & _)|[Hlen Hall]].
      * assert (Et : t = []) by (inversion Ex; reflexivity). subst b. rewrite Et. exact Hl.
      * inversion Hall; subst. lia.
    + cbn [app] in E. inversion E as [[E0 E1]]. subst a0.
      assert (Hcase : (exists a'', a' = t ++ a'' /\ l = a'' ++ c :: b) \/ In c t).
      { clear -E1. revert a' E1. induction t as [|x t IHt]; intros a' E1; cbn [app] in *.
        - left. exists a'. auto.
        - destruct a' as [|y a'']; cbn [app] in E1.
          + inversion E1; subst. right. left. reflexivity.
          + inversion E1 as [[Ex Er]]. subst y. destruct (IHt a'' Er) as [(a3 & -> & El)|Hin].
            * left. exists a3. auto.
            * right. right. exact Hin. }
      destruct Hcase as [(a'' & _ & El)|Hin].
      * exact (IH a'' c b El Hc).
      * rewrite Forall_forall in Ht. specialize (Ht c Hin). unfold is_cont, in_range in Ht. lia.
Qed.

Theorem utf8_valid_after_ascii a c b : utf8_valid (a ++ c :: b) = true -> c < 128 -> utf8_valid b = true.
Proof. intros H Hc. apply valid_iff_seqs. eapply seqs_after_ascii; [apply valid_iff_seqs; exact H|reflexivity|exact Hc]. Qed.
