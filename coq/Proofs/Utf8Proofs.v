(* A small theory of well-formed UTF-8 as the model defines it (Utf8.v):
   a valid string is a concatenation of well-formed sequences; validity is
   closed under concatenation, under the printer's escaping, and under
   removing a trailing ASCII byte. *)
From Coq Require Import Lia ZifyBool ZifyNat ZifyN.
Require Import Base Utf8.

(* a single well-formed sequence: recognised as such whatever follows *)
Definition wf_seq (s : bytes) : Prop := s <> [] /\ forall l, utf8_head_len (s ++ l) = length s.
Definition seq_shape (s : bytes) : Prop :=
  (exists b, s = [b] /\ b < 128) \/ ((2 <= length s)%nat /\ Forall (fun b => 128 <= b) s).

Inductive seqs : bytes -> Prop :=
| seqs_nil : seqs []
| seqs_cons s l : wf_seq s -> seq_shape s -> seqs l -> seqs (s ++ l).

Ltac split_ifs :=
  repeat match goal with
         | |- context [if ?c then _ else _] => let E := fresh "E" in destruct c eqn:E
         | H : context [if ?c then _ else _] |- _ => let E := fresh "E" in destruct c eqn:E
         end.

(* what utf8_head_len recognises *)
Lemma head_len_spec l n : utf8_head_len l = n -> n <> 0%nat ->
  exists s l', l = s ++ l' /\ length s = n /\ wf_seq s /\ seq_shape s.
Proof.
  intros H Hn. destruct l as [|b0 r]; [cbn in H; congruence|].
  unfold utf8_head_len in H.
  destruct (b0 <? 128) eqn:E0.
  { exists [b0], r. subst n. repeat split; try discriminate.
    - intros l. cbn [app utf8_head_len]. rewrite E0. reflexivity.
    - left. exists b0. split; [reflexivity|lia]. }
  assert (H128 : 128 <= b0) by lia.
  Ltac two_bytes b0 b1 r E0 :=
    exists [b0; b1], r; repeat split; try discriminate;
    [ intros l; cbn [app utf8_head_len]; rewrite E0; split_ifs; try reflexivity; try discriminate; try lia
    | right; split; [cbn; lia|repeat constructor; unfold is_cont, in_range in *; lia] ].
  Ltac three_bytes b0 b1 b2 r E0 :=
    exists [b0; b1; b2], r; repeat split; try discriminate;
    [ intros l; cbn [app utf8_head_len]; rewrite E0; split_ifs; try reflexivity; try discriminate; try lia
    | right; split; [cbn; lia|repeat constructor; unfold is_cont, in_range in *; lia] ].
  Ltac four_bytes b0 b1 b2 b3 r E0 :=
    exists [b0; b1; b2; b3], r; repeat split; try discriminate;
    [ intros l; cbn [app utf8_head_len]; rewrite E0; split_ifs; try reflexivity; try discriminate; try lia
    | right; split; [cbn; lia|repeat constructor; unfold is_cont, in_range in *; lia] ].
  destruct (in_range 194 223 b0) eqn:E1.
  { destruct r as [|b1 r]; [congruence|]. destruct (is_cont b1) eqn:Ec; [|congruence]. subst n. two_bytes b0 b1 r E0. }
  destruct (b0 =? 224) eqn:E2.
  { destruct r as [|b1 [|b2 r]]; try congruence. destruct (in_range 160 191 b1 && is_cont b2)%bool eqn:Ec; [|congruence].
    subst n. three_bytes b0 b1 b2 r E0. }
  destruct (in_range 225 236 b0 || in_range 238 239 b0)%bool eqn:E3.
  { destruct r as [|b1 [|b2 r]]; try congruence. destruct (is_cont b1 && is_cont b2)%bool eqn:Ec; [|congruence].
    subst n. three_bytes b0 b1 b2 r E0. }
  destruct (b0 =? 237) eqn:E4.
  { destruct r as [|b1 [|b2 r]]; try congruence. destruct (in_range 128 159 b1 && is_cont b2)%bool eqn:Ec; [|congruence].
    subst n. three_bytes b0 b1 b2 r E0. }
  destruct (b0 =? 240) eqn:E5.
  { destruct r as [|b1 [|b2 [|b3 r]]]; try congruence.
    destruct (in_range 144 191 b1 && is_cont b2 && is_cont b3)%bool eqn:Ec; [|congruence].
    subst n. four_bytes b0 b1 b2 b3 r E0. }
  destruct (in_range 241 243 b0) eqn:E6.
  { destruct r as [|b1 [|b2 [|b3 r]]]; try congruence.
    destruct (is_cont b1 && is_cont b2 && is_cont b3)%bool eqn:Ec; [|congruence].
    subst n. four_bytes b0 b1 b2 b3 r E0. }
  destruct (b0 =? 244) eqn:E7.
  { destruct r as [|b1 [|b2 [|b3 r]]]; try congruence.
    destruct (in_range 128 143 b1 && is_cont b2 && is_cont b3)%bool eqn:Ec; [|congruence].
    subst n. four_bytes b0 b1 b2 b3 r E0. }
  congruence.
Qed.

Lemma skipn_app_exact {A} (s l : list A) : skipn (length s) (s ++ l) = l.
Proof. induction s as [|x s IH]; cbn [length skipn app]; auto. Qed.

Lemma valid_fuel_seqs fuel : forall l, utf8_valid_fuel fuel l = true -> seqs l.
Proof.
  induction fuel as [|f IH]; intros l H; destruct l as [|b l]; try constructor; cbn [utf8_valid_fuel] in H; try discriminate.
  destruct (utf8_head_len (b :: l)) as [|n] eqn:En; [discriminate|].
  destruct (head_len_spec (b :: l) (S n) En ltac:(discriminate)) as (s & l' & El & Hlen & Hwf & Hsh).
  rewrite El in H |- *. rewrite <- Hlen, skipn_app_exact in H. constructor; auto.
Qed.

Lemma valid_fuel_mono fuel : forall l fuel', utf8_valid_fuel fuel l = true -> (fuel <= fuel')%nat ->
  utf8_valid_fuel fuel' l = true.
Proof.
  induction fuel as [|f IH]; intros l fuel' H Hle; destruct l as [|b l]; try (destruct fuel'; reflexivity);
    cbn [utf8_valid_fuel] in H; try discriminate.
  destruct fuel' as [|f']; [lia|]. cbn [utf8_valid_fuel].
  destruct (utf8_head_len (b :: l)) as [|n]; [discriminate|]. apply (IH _ f' H). lia.
Qed.

Lemma seqs_valid l : seqs l -> utf8_valid l = true.
Proof.
  unfold utf8_valid. induction 1 as [|s l [Hne Hhd] Hsh Hl IH]; [reflexivity|].
  destruct s as [|b s]; [contradiction|]. rewrite app_length. cbn [length plus app utf8_valid_fuel].
  change (b :: s ++ l) with ((b :: s) ++ l). rewrite (Hhd l). cbn [length].
  change (skipn (S (length s)) ((b :: s) ++ l)) with (skipn (length (b :: s)) ((b :: s) ++ l)).
  rewrite skipn_app_exact. apply (valid_fuel_mono _ _ _ IH). lia.
Qed.

Theorem valid_iff_seqs l : utf8_valid l = true <-> seqs l.
Proof. split; [apply valid_fuel_seqs|apply seqs_valid]. Qed.

Lemma seqs_app a b : seqs a -> seqs b -> seqs (a ++ b).
Proof. induction 1 as [|s l Hwf Hsh Hl IH]; intros Hb; [exact Hb|]. rewrite <- app_assoc. constructor; auto. Qed.

Theorem utf8_valid_app a b : utf8_valid a = true -> utf8_valid b = true -> utf8_valid (a ++ b) = true.
Proof. rewrite !valid_iff_seqs. apply seqs_app. Qed.

Definition all_ascii (l : bytes) : Prop := Forall (fun b => b < 128) l.

Lemma ascii_wf_seq b : b < 128 -> wf_seq [b] /\ seq_shape [b].
Proof.
  intros H. split; [split; [discriminate|]|left; exists b; auto].
  intros l. cbn [app utf8_head_len length]. replace (b <? 128) with true by lia. reflexivity.
Qed.

Lemma ascii_seqs l : all_ascii l -> seqs l.
Proof.
  induction 1 as [|b l Hb Hl IH]; [constructor|]. change (b :: l) with ([b] ++ l).
  destruct (ascii_wf_seq b Hb). constructor; auto.
Qed.
Theorem ascii_valid l : all_ascii l -> utf8_valid l = true.
Proof. intros H. apply valid_iff_seqs, ascii_seqs, H. Qed.

(* removing a trailing ASCII byte *)
Lemma seqs_drop_last_ascii l : seqs l -> forall a c, l = a ++ [c] -> c < 128 -> seqs a.
Proof.
  induction 1 as [|s l Hwf Hsh Hl IH]; intros a c E Hc.
  - destruct a; discriminate.
  - destruct l as [|x l0].
    + rewrite app_nil_r in E. subst s.
      destruct Hsh as [(b & Eb & _)|[_ Hall]].
      * destruct a as [|y a]; [constructor|]. destruct a; discriminate.
      * apply Forall_app in Hall. destruct Hall as [_ Hc']. inversion Hc'; subst. lia.
    + destruct (exists_last (l := x :: l0) ltac:(discriminate)) as (l1 & y & El). rewrite El in *.
      rewrite app_assoc in E. apply app_inj_tail in E. destruct E as [Ea Ey]. subst a y.
      constructor; auto. eapply IH; [reflexivity|exact Hc].
Qed.

Theorem utf8_valid_drop_last_ascii a c : c < 128 -> utf8_valid (a ++ [c]) = true -> utf8_valid a = true.
Proof. intros Hc H. apply valid_iff_seqs. eapply seqs_drop_last_ascii; [apply valid_iff_seqs; exact H|reflexivity|exact Hc]. Qed.

(* a byte-wise substitution that touches only ASCII bytes and yields ASCII *)
Lemma seqs_flat_map (f : N -> bytes) :
  (forall b, b < 128 -> all_ascii (f b)) -> (forall b, 128 <= b -> f b = [b]) ->
  forall l, seqs l -> seqs (flat_map f l).
Proof.
  intros Hlo Hhi l. induction 1 as [|s l Hwf Hsh Hl IH]; [constructor|].
  rewrite flat_map_app. destruct Hsh as [(b & -> & Hb)|[_ Hall]].
  - cbn [flat_map]. rewrite app_nil_r. apply seqs_app; [apply ascii_seqs, Hlo, Hb|exact IH].
  - assert (E : flat_map f s = s).
    { clear Hwf. induction Hall as [|b s Hb Hs IHs]; [reflexivity|]. cbn [flat_map]. rewrite (Hhi b Hb), IHs. reflexivity. }
    rewrite E. constructor; auto. right. split; [|exact Hall].
    destruct Hwf as [Hne Hhd]. destruct s as [|b0 [|b1 s']]; [contradiction| |cbn; lia].
    inversion Hall; subst. specialize (Hhd []). cbn [app utf8_head_len length] in Hhd.
    replace (b0 <? 128) with false in Hhd by lia. split_ifs; discriminate.
Qed.
