(* C11 (proved part): every span stored in a datum returned by next_datum is
   either the documented empty placeholder or a pair of positions, each the
   position after a prefix of the input (hence in bounds), with start <= end,
   and lies within the extent of the call that produced it. *)
From Coq Require Import SpecFloat Lia ZifyBool ZifyNat ZifyN.
Require Import Base Value Float PrintOptions ParseOptions Utf8 Reader Scan Num NumberOps Parser.
Require Import RelFramework PositionProofs DepthProofs.

Definition rpos (r : reader) : N * N := (rline r, rcol r).
Definition pos_le (p q : N * N) : Prop := fst p < fst q \/ (fst p = fst q /\ snd p <= snd q).

Lemma pos_le_refl p : pos_le p p.
Proof. right. split; [reflexivity|lia]. Qed.
Lemma pos_le_trans p q r : pos_le p q -> pos_le q r -> pos_le p r.
Proof. unfold pos_le. intros [H1|[H1 H2]] [H3|[H3 H4]]; [left; lia|left; lia|left; lia|right; lia]. Qed.

Lemma advance_le l c b : pos_le (l, c) (advance l c b).
Proof. unfold advance, pos_le. destruct (b =? 10); cbn [fst snd]; lia. Qed.

Lemma fold_advance_le bs : forall p, pos_le p (fold_left (fun q b => advance (fst q) (snd q) b) bs p).
Proof.
  induction bs as [|b bs IH]; intros p; cbn [fold_left]; [apply pos_le_refl|].
  eapply pos_le_trans; [|apply IH]. destruct p as [l c]. apply advance_le.
Qed.

(* ---- the reader position never decreases: instance of the generic traversal ---- *)
Definition Rmono (r : reader) (x : option perr) (r' : reader) : Prop := pos_le (rpos r) (rpos r').

Lemma Rmono_ret r : Rmono r None r.  Proof. apply pos_le_refl. Qed.
Lemma Rmono_seq r r1 x r2 : Rmono r None r1 -> Rmono r1 x r2 -> Rmono r x r2.
Proof. apply pos_le_trans. Qed.
Lemma Rmono_fuel r : Rmono r (Some EFuel) r.  Proof. apply pos_le_refl. Qed.
Lemma Rmono_rec1 r e r1 x r2 : Rmono r (Some e) r1 -> Rmono r1 x r2 -> Rmono r (Some e) r2.
Proof. apply pos_le_trans. Qed.
Lemma Rmono_rec2 r e r1 e' r2 : Rmono r (Some e) r1 -> Rmono r1 (Some e') r2 -> Rmono r (Some e') r2.
Proof. apply pos_le_trans. Qed.

Lemma consume_mono r b l : pos_le (rpos r) (rpos (consume r b l)).
Proof. unfold consume, rpos. pose proof (advance_le (rline r) (rcol r) b) as H. destruct (advance (rline r) (rcol r) b). exact H. Qed.
Lemma discard_mono r : pos_le (rpos r) (rpos (r_discard r)).
Proof.
  unfold r_discard. destruct (rk r); try destruct (rpending r); try apply pos_le_refl;
    destruct (rinput r) as [|[b| |e] l]; try apply pos_le_refl; apply consume_mono.
Qed.
Lemma advance_over_mono r bs rest : pos_le (rpos r) (rpos (advance_over r bs rest)).
Proof.
  unfold advance_over, rpos. pose proof (fold_advance_le bs (rline r, rcol r)) as H.
  destruct (fold_left _ bs (rline r, rcol r)). exact H.
Qed.

Lemma mono_peek : sat Rmono peek.
Proof.
  intros r. unfold peek, r_peek, R, Rmono. destruct (rpending r).
  - destruct (rinput r) as [|[b| |e] l]; apply pos_le_refl.
  - destruct (skip_intr (rinput r)) as [|[b| |e] l]; apply pos_le_refl.
Qed.
Lemma mono_next : sat Rmono next_char.
Proof.
  intros r. unfold next_char, r_next, R, Rmono.
  destruct (if rpending r then rinput r else skip_intr (rinput r)) as [|[b| |e] l]; cbn [fst snd]; try apply pos_le_refl.
  apply consume_mono.
Qed.
Lemma mono_eat : sat Rmono eat_char.
Proof. intros r. unfold eat_char, R, Rmono. cbn [fst snd]. apply discard_mono. Qed.
Lemma mono_error A c : sat Rmono (@error A c).
Proof. intros r. unfold error, R, Rmono. destruct (r_position r). apply pos_le_refl. Qed.
Lemma mono_peek_error A c : sat Rmono (@peek_error A c).
Proof. intros r. unfold peek_error, R, Rmono. destruct (r_peek_position r). apply pos_le_refl. Qed.
Lemma mono_error_consume A c : sat Rmono (@error_consume A c).
Proof. intros r. unfold error_consume, peek_error, R, Rmono. destruct (r_peek_position r). cbn [fst snd]. apply discard_mono. Qed.
Lemma mono_take_run : sat Rmono take_run.
Proof.
  intros r. unfold take_run, R, Rmono. destruct (span_plain (rinput r) []) as [run rest].
  destruct rest as [|[b| |e] rest']; cbn [fst snd]; try apply advance_over_mono.
  eapply pos_le_trans; [apply advance_over_mono|apply consume_mono].
Qed.
Lemma mono_take_symbol : sat Rmono take_symbol_run.
Proof.
  intros r. unfold take_symbol_run, R, Rmono. destruct (span_symbol (rinput r) []) as [run rest].
  cbn [fst snd]. apply advance_over_mono.
Qed.

(* ---- strict progress: a successful token moves the position strictly forward ---- *)
Definition pos_lt (p q : N * N) : Prop := fst p < fst q \/ (fst p = fst q /\ snd p < snd q).
Lemma pos_lt_le_trans p q r : pos_lt p q -> pos_le q r -> pos_lt p r.
Proof. unfold pos_lt, pos_le. intros [H1|[H1 H2]] [H3|[H3 H4]]; [left; lia|left; lia|left; lia|right; lia]. Qed.
Lemma pos_le_lt_trans p q r : pos_le p q -> pos_lt q r -> pos_lt p r.
Proof. unfold pos_lt, pos_le. intros [H1|[H1 H2]] [H3|[H3 H4]]; [left; lia|left; lia|left; lia|right; lia]. Qed.
Lemma pos_lt_le p q : pos_lt p q -> pos_le p q.
Proof. unfold pos_lt, pos_le. intros [H|[H1 H2]]; [left; exact H|right; lia]. Qed.
Lemma advance_lt l c b : pos_lt (l, c) (advance l c b).
Proof. unfold advance, pos_lt. destruct (b =? 10); cbn [fst snd]; lia. Qed.

Definition rlt (r r' : reader) : Prop := pos_lt (rpos r) (rpos r').

Lemma consume_lt r b l : rlt r (consume r b l).
Proof. unfold rlt, consume, rpos. pose proof (advance_lt (rline r) (rcol r) b) as H. destruct (advance (rline r) (rcol r) b). exact H. Qed.

Lemma rlt_then r r1 r2 : rlt r r1 -> Rmono r1 None r2 -> rlt r r2.
Proof. unfold rlt, Rmono. apply pos_lt_le_trans. Qed.

Lemma rlt_eat b : strict rlt b eat_char.
Proof.
  intros r [Hp [l Hl]]. unfold eat_char, r_discard. rewrite Hp, Hl. destruct (rk r); apply consume_lt.
Qed.
Lemma rlt_next b : strict rlt b next_char.
Proof. intros r [Hp [l Hl]]. unfold next_char, r_next. rewrite Hp, Hl. apply consume_lt. Qed.

Lemma fold_advance_lt bs b p : pos_lt p (fold_left (fun q c => advance (fst q) (snd q) c) (b :: bs) p).
Proof.
  cbn [fold_left]. eapply pos_lt_le_trans; [|apply fold_advance_le]. destruct p as [l c]. apply advance_lt.
Qed.

Lemma span_symbol_acc l : forall acc, exists more, fst (span_symbol l acc) = acc ++ more.
Proof.
  induction l as [|[b| |e] l IH]; intros acc; cbn [span_symbol]; try (exists []; rewrite app_nil_r; reflexivity).
  destruct (is_symbol_terminator b); [exists []; rewrite app_nil_r; reflexivity|].
  destruct (IH (acc ++ [b])) as [more E]. exists (b :: more). rewrite E, <- app_assoc. reflexivity.
Qed.

Lemma rlt_symbol_rd b fuel scratch : is_symbol_terminator b = false -> strict rlt b (parse_symbol_rd fuel scratch).
Proof.
  intros Hb r [Hp [l Hl]]. unfold parse_symbol_rd.
  assert (Hio : match (x <- scan_symbol_io fuel scratch ;; Scan.as_str x) r with (Ok _, r') => rlt r r' | (Err _, _) => True end).
  { destruct fuel as [|f]; [exact I|]. cbn [scan_symbol_io].
    unfold bind at 1. unfold bind at 1. unfold peek, r_peek. rewrite Hp, Hl. rewrite Hb.
    unfold bind at 1. unfold eat_char. cbn [fst snd].
    assert (Hd : rlt r (r_discard r)) by (pose proof (rlt_eat b r (conj Hp (ex_intro _ l Hl))) as H; unfold eat_char in H; exact H).
    pose proof (sat_scan_symbol_io Rmono Rmono_ret Rmono_seq Rmono_fuel mono_peek mono_eat mono_error f (scratch ++ [b]) (r_discard r)) as Hs.
    unfold R, Rmono in Hs. destruct (scan_symbol_io f (scratch ++ [b]) (r_discard r)) as [[x|e] r1]; cbn [fst snd] in *; [|exact I].
    pose proof (sat_as_str Rmono Rmono_ret mono_error x r1) as Ha. unfold R, Rmono in Ha.
    destruct (Scan.as_str x r1) as [[y|e] r2]; cbn [fst snd] in *; [|exact I].
    eapply pos_lt_le_trans; [|exact Ha]. eapply pos_lt_le_trans; [exact Hd|exact Hs]. }
  assert (Hsl : match (x <- scan_symbol_slice scratch ;; finish_str x) r with (Ok _, r') => rlt r r' | (Err _, _) => True end).
  { unfold bind at 1. unfold scan_symbol_slice. rewrite Hl. cbn [span_symbol]. rewrite Hb.
    destruct (span_symbol_acc l ([] ++ [b])) as [more Em].
    destruct (span_symbol l ([] ++ [b])) as [scanned rest] eqn:Es. cbn [fst] in Em. subst scanned. cbn [app].
    set (r1 := advance_over r (b :: more) rest).
    assert (Hd : rlt r r1).
    { unfold rlt, r1, advance_over, rpos. pose proof (fold_advance_lt more b (rline r, rcol r)) as H.
      destruct (fold_left _ (b :: more) (rline r, rcol r)). exact H. }
    destruct (_ && _); [unfold error; destruct (r_position r1); exact I|].
    destruct (beq_bytes _ _); [unfold error; destruct (r_position r1); exact I|]. unfold ret.
    pose proof (sat_finish_str Rmono Rmono_ret mono_error (scratch ++ b :: more) r1) as Ha. unfold R, Rmono in Ha.
    destruct (finish_str (scratch ++ b :: more) r1) as [[y|e] r2]; cbn [fst snd] in *; [|exact I].
    eapply pos_lt_le_trans; [exact Hd|exact Ha]. }
  destruct (rk r); [exact Hsl|exact Hsl|exact Hio].
Qed.

Theorem token_strict ro alpha fast std_parse fuel b r : at_byte b r ->
  match parse_token ro alpha fast std_parse fuel b r with
  | (Ok _, r') => pos_lt (rpos r) (rpos r')
  | (Err _, _) => True
  end.
Proof.
  exact (strict_parse_token Rmono Rmono_ret Rmono_seq Rmono_fuel mono_peek mono_next mono_eat mono_error mono_peek_error
           mono_take_run mono_take_symbol fast std_parse ro alpha rlt rlt_then rlt_eat rlt_next rlt_symbol_rd fuel b r).
Qed.

(* parse_whitespace stops on a pending byte *)
Lemma ws_at_byte fuel : forall r, match parse_whitespace fuel r with (Ok (Some b), r') => at_byte b r' | _ => True end.
Proof.
  induction fuel as [|f IH]; intros r; [exact I|]. cbn [parse_whitespace]. unfold bind at 1.
  unfold peek, r_peek. destruct (rpending r) eqn:Hp.
  - destruct (rinput r) as [|[c| |e] l] eqn:Hl; try exact I.
    destruct (c =? 59).
    + unfold bind. destruct (skip_comment f r) as [[[|]|e] r1]; try exact I. apply IH.
    + destruct (memb c [32; 10; 9; 13; 12]); [unfold bind, eat_char; apply IH|].
      unfold ret. split; [exact Hp|exists l; exact Hl].
  - destruct (skip_intr (rinput r)) as [|[c| |e] l] eqn:Hl; try exact I.
    set (r1 := {| rk := rk r; rline := rline r; rcol := rcol r; rpending := true; rinput := EByte c :: l |}).
    destruct (c =? 59).
    + unfold bind. destruct (skip_comment f r1) as [[[|]|e] r2]; try exact I. apply IH.
    + destruct (memb c [32; 10; 9; 13; 12]); [unfold bind, eat_char; apply IH|].
      unfold ret. split; [reflexivity|exists l; reflexivity].
Qed.

Section Spans.
  Variable W : bytes.

  (* a real span between lo and hi *)
  Definition real (lo hi : N * N) (sp : span) : Prop :=
    prefix_pos W (fst (sp_start sp)) (snd (sp_start sp)) /\ prefix_pos W (fst (sp_end sp)) (snd (sp_end sp)) /\
    pos_le lo (sp_start sp) /\ pos_le (sp_start sp) (sp_end sp) /\ pos_le (sp_end sp) hi.
  Definition sp_ok (lo hi : N * N) (sp : span) : Prop := sp = span_empty \/ real lo hi sp.

  Fixpoint all_spans (P : span -> Prop) (i : span_info) : Prop :=
    match i with
    | SPrim sp => P sp
    | SCons sp a d => P sp /\ all_spans P a /\ all_spans P d
    | SVec sp l => P sp /\ (fix all (l : list span_info) : Prop :=
                              match l with [] => True | x :: l' => all_spans P x /\ all l' end) l
    end.
  Definition all_infos (P : span -> Prop) : list span_info -> Prop :=
    fix all (l : list span_info) : Prop := match l with [] => True | x :: l' => all_spans P x /\ all l' end.

  Definition dok (lo hi : N * N) (d : datum) : Prop :=
    all_spans (sp_ok lo hi) (dinfo d) /\ real lo hi (info_span (dinfo d)).

  Lemma real_widen lo hi lo' hi' sp : pos_le lo' lo -> pos_le hi hi' -> real lo hi sp -> real lo' hi' sp.
  Proof. intros H1 H2 (A & B & C & D & E). repeat split; auto; eapply pos_le_trans; eauto. Qed.
  Lemma sp_ok_widen lo hi lo' hi' sp : pos_le lo' lo -> pos_le hi hi' -> sp_ok lo hi sp -> sp_ok lo' hi' sp.
  Proof. intros H1 H2 [H|H]; [left; exact H|right; eapply real_widen; eauto]. Qed.

  Lemma all_spans_impl (P Q : span -> Prop) i : (forall sp, P sp -> Q sp) -> all_spans P i -> all_spans Q i.
  Proof.
    intros HPQ. revert i. fix IH 1. intros [sp|sp a d|sp l]; cbn [all_spans].
    - apply HPQ.
    - intros (H1 & H2 & H3). repeat split; auto.
    - intros [H1 H2]. split; [auto|]. induction l as [|x l IHl]; [exact I|]. destruct H2 as [Hx Hl]. split; [apply IH; exact Hx|apply IHl; exact Hl].
  Qed.

  Lemma dok_widen lo hi lo' hi' d : pos_le lo' lo -> pos_le hi hi' -> dok lo hi d -> dok lo' hi' d.
  Proof.
    intros H1 H2 [Ha Hr]. split; [|eapply real_widen; eauto].
    eapply all_spans_impl; [|exact Ha]. intros sp. apply sp_ok_widen; assumption.
  Qed.

  (* ---- the judgement ---- *)
  Definition Jd {A} (m : PM A) (post : N * N -> A -> N * N -> Prop) : Prop :=
    forall s, inv W (rd s) ->
      match m s with
      | (POk a, s') => inv W (rd s') /\ pos_le (rpos (rd s)) (rpos (rd s')) /\ post (rpos (rd s)) a (rpos (rd s'))
      | (PErr _, _) => True
      end.

  Lemma Jd_bind {A B} (m : PM A) (f : A -> PM B) p q :
    Jd m p -> (forall a, Jd (f a) (q a)) ->
    Jd (pbind m f) (fun lo b hi => exists a mid, p lo a mid /\ q a mid b hi /\ pos_le lo mid /\ pos_le mid hi).
  Proof.
    intros Hm Hf s Hi. rewrite pbind_unfold. specialize (Hm s Hi). destruct (m s) as [[a|e] s1]; [|exact I].
    destruct Hm as (Hi1 & Hle1 & Hp). specialize (Hf a s1 Hi1). destruct (f a s1) as [[b|e] s2]; [|exact I].
    destruct Hf as (Hi2 & Hle2 & Hq). split; [exact Hi2|]. split; [eapply pos_le_trans; eauto|].
    exists a, (rpos (rd s1)). auto.
  Qed.
  Lemma Jd_weaken {A} (m : PM A) (p q : N * N -> A -> N * N -> Prop) :
    (forall lo a hi, pos_le lo hi -> p lo a hi -> q lo a hi) -> Jd m p -> Jd m q.
  Proof. intros H Hm s Hi. specialize (Hm s Hi). destruct (m s) as [[a|e] s1]; [|exact I]. destruct Hm as (A1 & A2 & A3). auto. Qed.
  Lemma Jd_ret {A} (a : A) (q : N * N -> A -> N * N -> Prop) : (forall lo, q lo a lo) -> Jd (pret a) q.
  Proof. intros H s Hi. cbn. split; [exact Hi|]. split; [apply pos_le_refl|apply H]. Qed.
  Lemma Jd_fail {A} e (q : N * N -> A -> N * N -> Prop) : Jd (pfail e) q.
  Proof. intros s _. exact I. Qed.
  Lemma Jd_err {A} c (q : N * N -> A -> N * N -> Prop) : Jd (liftR (peek_error (A := A) c)) q.
  Proof. intros s _. unfold liftR, peek_error. destruct (r_peek_position (rd s)). exact I. Qed.

  (* any reader-level step: keeps the invariant, never moves backwards *)
  Lemma Jd_liftR {A} (m : M A) : sat (Rpos W) m -> sat Rmono m -> Jd (liftR m) (fun _ _ _ => True).
  Proof.
    intros H1 H2 s Hi. unfold liftR. specialize (H1 (rd s) Hi). specialize (H2 (rd s)). unfold R, Rmono in *.
    destruct (m (rd s)) as [[a|e] r']; cbn [fst snd rd] in *; [|exact I]. destruct H1 as [H1 _]. auto.
  Qed.
  Lemma Jd_position : Jd (liftR position)
    (fun lo p hi => p = lo /\ hi = lo /\ prefix_pos W (fst lo) (snd lo)).
  Proof.
    intros s Hi. unfold liftR, position. cbn [fst snd rd]. split; [exact Hi|]. split; [apply pos_le_refl|].
    repeat split. apply position_prefix. exact Hi.
  Qed.

  Section Main.
    Variable ro : parse_options.
    Variable alpha : N -> bool.
    Variable fast : bool.
    Variable std_parse : N -> Z -> f64.
    Local Notation next_datum := (next_datum ro alpha fast std_parse).
    Local Notation parse_list_meta := (parse_list_meta ro alpha fast std_parse).
    Local Notation parse_vector_meta := (parse_vector_meta ro alpha fast std_parse).

    Lemma inc_depth_rd s : rd (snd (inc_depth s)) = rd s.
    Proof. unfold inc_depth, pbind, get_depth, set_depth, panic, pfail. cbn [fst snd]. destruct (255 <=? depth s); reflexivity. Qed.

    Definition T {A} (m : PM A) : Prop := Jd m (fun _ _ _ => True).

    Lemma T_liftR_pos {A} (m : M A) : sat (Rpos W) m -> sat Rmono m -> T (liftR m).
    Proof. apply Jd_liftR. Qed.

    Ltac both_sat lem := solve [ apply (lem (Rpos W)); first [exact (Rpos_ret W) | exact (Rpos_seq W) | exact (Rpos_fuel W)
        | exact (sat_peek_pos W) | exact (sat_next_pos W) | exact (sat_eat_pos W) | exact (sat_error_pos W) | exact (sat_peek_error_pos W)
        | exact (sat_error_consume_pos W) | exact (sat_take_run_pos W) | exact (sat_take_symbol_pos W) ] ].
    Ltac mono_sat lem := solve [ apply (lem Rmono); first [exact Rmono_ret | exact Rmono_seq | exact Rmono_fuel
        | exact mono_peek | exact mono_next | exact mono_eat | exact mono_error | exact mono_peek_error
        | exact mono_error_consume | exact mono_take_run | exact mono_take_symbol ] ].

    Lemma T_ws f : T (liftR (parse_whitespace f)).
    Proof. apply T_liftR_pos; [both_sat sat_parse_whitespace|mono_sat sat_parse_whitespace]. Qed.
    Lemma T_token f b : T (liftR (parse_token ro alpha fast std_parse f b)).
    Proof. apply T_liftR_pos; [both_sat sat_parse_token|mono_sat sat_parse_token]. Qed.
    Lemma T_byte_list f c : T (liftR (parse_byte_list fast std_parse f c)).
    Proof. apply T_liftR_pos; [both_sat sat_parse_byte_list|mono_sat sat_parse_byte_list]. Qed.
    Lemma T_end_seq f c : T (liftR (end_seq f c)).
    Proof. apply T_liftR_pos; [both_sat sat_end_seq|mono_sat sat_end_seq]. Qed.
    Lemma T_symbol_suffix f p : T (liftR (parse_symbol_suffix f p)).
    Proof. apply T_liftR_pos; [both_sat sat_parse_symbol_suffix|mono_sat sat_parse_symbol_suffix]. Qed.
    Lemma T_peek : T (liftR peek).
    Proof. apply T_liftR_pos; [exact (sat_peek_pos W)|exact mono_peek]. Qed.
    Lemma T_eat_peek : T (liftR (eat_char ;;; peek)).
    Proof.
      apply T_liftR_pos.
      - apply (sat_bind (Rpos W) (Rpos_seq W)); [exact (sat_eat_pos W)|intros _; exact (sat_peek_pos W)].
      - apply (sat_bind Rmono Rmono_seq); [exact mono_eat|intros _; exact mono_peek].
    Qed.

    Lemma T_psat {A} (m : PM A) : psat (Rpos W) m -> psat Rmono m -> T m.
    Proof.
      intros H1 H2 s Hi. specialize (H1 s Hi). specialize (H2 s). unfold Rmono in H2.
      destruct (m s) as [[a|e] s']; cbn [fst snd perase] in *; [|exact I]. destruct H1 as [H1 _]. auto.
    Qed.
    Lemma T_enter : T enter_nesting.
    Proof.
      apply T_psat; [apply (psat_enter_nesting (Rpos W) (Rpos_ret W) (Rpos_seq W) (Rpos_fuel W) (sat_peek_error_pos W))
                    |apply (psat_enter_nesting Rmono Rmono_ret Rmono_seq Rmono_fuel mono_peek_error)].
    Qed.
    Lemma T_inc : T inc_depth.
    Proof.
      apply T_psat; [apply (psat_inc_depth (Rpos W) (Rpos_ret W) (Rpos_seq W) (Rpos_fuel W))
                    |apply (psat_inc_depth Rmono Rmono_ret Rmono_seq Rmono_fuel)].
    Qed.

    (* ---- the datum constructors ---- *)
    Lemma real_mk lo hi a b : prefix_pos W (fst a) (snd a) -> prefix_pos W (fst b) (snd b) ->
      pos_le lo a -> pos_le a b -> pos_le b hi -> real lo hi (mk_span a b).
    Proof. intros. unfold real, mk_span. cbn [sp_start sp_end]. auto. Qed.

    Lemma prim_dok lo hi v a b : real lo hi (mk_span a b) -> dok lo hi (prim_datum v a b).
    Proof. intros H. split; cbn [prim_datum dinfo all_spans info_span]; [right|]; exact H. Qed.

    Lemma root_ok lo hi d : dok lo hi d -> sp_ok lo hi (info_span (dinfo d)).
    Proof. intros [_ H]. right. exact H. Qed.

    Lemma chain_ok lo hi ms tail_meta : Forall (all_spans (sp_ok lo hi)) ms -> all_spans (sp_ok lo hi) tail_meta ->
      all_spans (sp_ok lo hi) (chain_meta ms tail_meta).
    Proof.
      induction 1 as [|m ms Hm Hms IH]; intros Ht; cbn [chain_meta]; [exact Ht|].
      cbn [all_spans]. split; [left; reflexivity|]. split; [exact Hm|apply IH; exact Ht].
    Qed.

    Lemma list_datum_dok lo hi ds tail a b : Forall (dok lo hi) ds ->
      match tail with Some t => dok lo hi t | None => True end -> real lo hi (mk_span a b) ->
      dok lo hi (list_datum (ds, tail) a b).
    Proof.
      intros Hds Ht Hr. destruct ds as [|d1 ds]; [apply prim_dok; exact Hr|].
      unfold list_datum. cbn [list_meta]. inversion Hds as [|? ? Hd1 Hrest]; subst.
      split; cbn [dinfo all_spans info_span]; [|exact Hr].
      split; [right; exact Hr|]. split; [apply Hd1|].
      apply chain_ok.
      - clear -Hrest. induction Hrest as [|x l [Hx _] _ IH]; cbn [map]; constructor; auto.
      - destruct tail as [t|]; [apply Ht|cbn [null_meta all_spans]; left; reflexivity].
    Qed.

    Lemma vector_dok lo hi els a b : Forall (dok lo hi) els -> real lo hi (mk_span a b) ->
      dok lo hi {| dvalue := Vector (map dvalue els); dinfo := SVec (mk_span a b) (map dinfo els) |}.
    Proof.
      intros Hels Hr. split; cbn [dinfo all_spans info_span]; [|exact Hr]. split; [right; exact Hr|].
      induction Hels as [|x l [Hx _] _ IH]; cbn [map]; auto.
    Qed.

    Lemma all_spans_root P i : all_spans P i -> P (info_span i).
    Proof. destruct i; cbn [all_spans info_span]; tauto. Qed.

    Lemma quotation_dok lo hi name quoted s0 s1 : dok s1 hi quoted ->
      prefix_pos W (fst s0) (snd s0) -> prefix_pos W (fst s1) (snd s1) -> pos_le lo s0 -> pos_le s0 s1 -> pos_le s1 hi ->
      dok lo hi (quotation_datum name quoted (mk_span s0 s1)).
    Proof.
      intros [Hq (Q1 & Q2 & Q3 & Q4 & Q5)] P0 P1 L0 L1 L2. unfold quotation_datum. cbv zeta.
      set (qi := dinfo quoted) in *. set (qs := sp_start (info_span qi)) in *. set (qend := sp_end (info_span qi)) in *.
      assert (Hroot : real lo hi (mk_span s0 qend)).
      { apply real_mk; auto. eapply pos_le_trans; [exact L1|]. eapply pos_le_trans; [exact Q3|exact Q4]. }
      assert (Hqw : all_spans (sp_ok lo hi) qi).
      { eapply all_spans_impl; [|exact Hq]. intros sp. apply sp_ok_widen; [eapply pos_le_trans; eauto|apply pos_le_refl]. }
      split; cbn [dinfo all_spans info_span sp_start mk_span]; [|exact Hroot].
      split; [right; exact Hroot|]. split; [right; apply real_mk; auto; eapply pos_le_trans; eauto|].
      split; [apply (all_spans_root _ _ Hqw)|]. split; [exact Hqw|].
      right. apply real_mk; auto; try apply pos_le_refl.
      eapply pos_le_trans; [exact L0|]. eapply pos_le_trans; [exact L1|]. eapply pos_le_trans; [exact Q3|exact Q4].
    Qed.

    (* ---- rules for posts that may be widened at the lower end ---- *)
    Definition mono_lo {A} (q : N * N -> A -> N * N -> Prop) : Prop :=
      forall lo lo' a hi, pos_le lo' lo -> q lo a hi -> q lo' a hi.

    Lemma Jd_after {A B} (m : PM A) (f : A -> PM B) (q : N * N -> B -> N * N -> Prop) : T m -> mono_lo q -> (forall a, Jd (f a) q) -> Jd (pbind m f) q.
    Proof.
      intros Hm Hq Hf. eapply Jd_weaken; [|apply (Jd_bind m f _ (fun _ => q) Hm Hf)].
      intros lo b hi _ (a & mid & _ & Hqm & L1 & L2). eapply Hq; eauto.
    Qed.

    Lemma Jd_after_pos {B} (f : N * N -> PM B) (q : N * N -> B -> N * N -> Prop) :
      (forall p, Jd (f p) (fun lo b hi => p = lo -> prefix_pos W (fst p) (snd p) -> q lo b hi)) ->
      Jd (pbind (liftR position) f) q.
    Proof.
      intros Hf. eapply Jd_weaken; [|apply (Jd_bind _ f _ _ Jd_position Hf)].
      intros lo b hi _ (p & mid & (-> & -> & Hpre) & Hq & _ & _). apply Hq; auto.
    Qed.

    Lemma Jd_nest {A B} (body : PM A) (endm : M unit) (kk : A -> PM B) (p : N * N -> A -> N * N -> Prop)
          (qk : A -> N * N -> B -> N * N -> Prop) (Q : N * N -> B -> N * N -> Prop) :
      Jd body p -> T (liftR endm) -> (forall a, Jd (kk a) (qk a)) ->
      (forall lo lo1 a m1 m2 b hi, pos_le lo lo1 -> pos_le lo1 m1 -> pos_le m1 m2 -> pos_le m2 hi ->
                                   p lo1 a m1 -> qk a m2 b hi -> Q lo b hi) ->
      Jd (pbind enter_nesting (fun _ => pbind (attempt body) (fun r => pbind inc_depth (fun _ =>
            pbind (attempt (liftR endm)) (fun e => pbind (both r e) kk))))) Q.
    Proof.
      intros Hbody Hend Hkk HQ s Hi. rewrite pbind_unfold.
      pose proof (T_enter s Hi) as H0. destruct (enter_nesting s) as [[u|e] s1]; [|exact I]. destruct H0 as (Hi1 & L1 & _).
      rewrite pbind_unfold, attempt_unfold. specialize (Hbody s1 Hi1).
      destruct (body s1) as [[a|[e|pk]] s2]; try exact I.
      - destruct Hbody as (Hi2 & L2 & Hp). rewrite pbind_unfold.
        pose proof (T_inc s2 Hi2) as H3. destruct (inc_depth s2) as [[u3|e] s3]; [|exact I]. destruct H3 as (Hi3 & L3 & _).
        rewrite pbind_unfold, attempt_unfold. pose proof (Hend s3 Hi3) as H4.
        destruct (liftR endm s3) as [[u4|[e|pk]] s4].
        + destruct H4 as (Hi4 & L4 & _). cbn [both]. rewrite pbind_unfold. cbn [pret].
          specialize (Hkk a s4 Hi4). destruct (kk a s4) as [[b|e] s5]; [|exact I]. destruct Hkk as (Hi5 & L5 & Hq).
          split; [exact Hi5|]. split.
          * eapply pos_le_trans; [exact L1|]. eapply pos_le_trans; [exact L2|]. eapply pos_le_trans; [exact L3|].
            eapply pos_le_trans; [exact L4|exact L5].
          * eapply (HQ _ (rpos (rd s1)) a (rpos (rd s2)) (rpos (rd s4))); eauto. eapply pos_le_trans; eauto.
        + destruct e; rewrite ?pbind_unfold; cbn [both pfail]; exact I.
        + exact I.
      - destruct e; try exact I; rewrite pbind_unfold; destruct (inc_depth s2) as [[u9|e'] s3]; try exact I;
          rewrite pbind_unfold, attempt_unfold; destruct (liftR endm s3) as [[u'|[e'|pk]] s4]; try exact I;
          try (destruct e'; rewrite ?pbind_unfold; cbn [both pfail]; exact I); rewrite pbind_unfold; cbn [both pfail]; exact I.
    Qed.

    Lemma Jd_nest_quote {A B} (body : PM A) (kk : A -> PM B) (p : N * N -> A -> N * N -> Prop)
          (qk : A -> N * N -> B -> N * N -> Prop) (Q : N * N -> B -> N * N -> Prop) :
      Jd body p -> (forall a, Jd (kk a) (qk a)) ->
      (forall lo lo1 a m1 b hi, pos_le lo lo1 -> pos_le lo1 m1 -> pos_le m1 hi -> p lo1 a m1 -> qk a m1 b hi -> Q lo b hi) ->
      Jd (pbind enter_nesting (fun _ => pbind (attempt body) (fun r => pbind inc_depth (fun _ => pbind (lift r) kk)))) Q.
    Proof.
      intros Hbody Hkk HQ s Hi. rewrite pbind_unfold.
      pose proof (T_enter s Hi) as H0. destruct (enter_nesting s) as [[u|e] s1]; [|exact I]. destruct H0 as (Hi1 & L1 & _).
      rewrite pbind_unfold, attempt_unfold. specialize (Hbody s1 Hi1).
      destruct (body s1) as [[a|[e|pk]] s2]; try exact I.
      - destruct Hbody as (Hi2 & L2 & Hp). rewrite pbind_unfold.
        pose proof (T_inc s2 Hi2) as H3. pose proof (inc_depth_rd s2) as Hrd.
        destruct (inc_depth s2) as [[u3|e] s3]; [|exact I]. destruct H3 as (Hi3 & L3 & _).
        cbn [lift]. rewrite pbind_unfold. cbn [pret].
        specialize (Hkk a s3 Hi3). destruct (kk a s3) as [[b|e] s5]; [|exact I]. destruct Hkk as (Hi5 & L5 & Hq).
        split; [exact Hi5|]. split.
        + eapply pos_le_trans; [exact L1|]. eapply pos_le_trans; [exact L2|]. eapply pos_le_trans; [exact L3|exact L5].
        + cbn [snd] in Hrd. rewrite Hrd in *. eapply (HQ _ (rpos (rd s1)) a (rpos (rd s2))); eauto.
      - destruct e; try exact I; rewrite pbind_unfold; destruct (inc_depth s2) as [[u9|e'] s3]; try exact I;
          rewrite pbind_unfold; cbn [lift pfail]; exact I.
    Qed.

    (* ---- the three mutually recursive parsers ---- *)
    Definition qv (lo : N * N) (o : option datum) (hi : N * N) : Prop :=
      match o with Some d => dok lo hi d | None => True end.
    Definition ql (acc : list datum) (lo : N * N) (res : list datum * option datum) (hi : N * N) : Prop :=
      forall lo0, pos_le lo0 lo -> Forall (dok lo0 lo) acc ->
        Forall (dok lo0 hi) (fst res) /\ match snd res with Some t => dok lo0 hi t | None => True end.
    Definition qvec (acc : list datum) (lo : N * N) (res : list datum) (hi : N * N) : Prop :=
      forall lo0, pos_le lo0 lo -> Forall (dok lo0 lo) acc -> Forall (dok lo0 hi) res.

    Lemma Forall_dok_widen lo hi lo' hi' l : pos_le lo' lo -> pos_le hi hi' -> Forall (dok lo hi) l -> Forall (dok lo' hi') l.
    Proof. intros H1 H2. apply Forall_impl. intros d. apply dok_widen; assumption. Qed.

    Lemma mono_qv : mono_lo qv.
    Proof. intros lo lo' o hi H. destruct o; cbn [qv]; [apply dok_widen; [exact H|apply pos_le_refl]|auto]. Qed.
    Lemma mono_ql acc : mono_lo (ql acc).
    Proof.
      intros lo lo' res hi H Hq lo0 H0 Hacc. apply Hq; [eapply pos_le_trans; eauto|].
      eapply Forall_dok_widen; [apply pos_le_refl|exact H|exact Hacc].
    Qed.
    Lemma mono_qvec acc : mono_lo (qvec acc).
    Proof.
      intros lo lo' res hi H Hq lo0 H0 Hacc. apply Hq; [eapply pos_le_trans; eauto|].
      eapply Forall_dok_widen; [apply pos_le_refl|exact H|exact Hacc].
    Qed.

    (* a post relative to a fixed, earlier position [start] *)
    Definition from_start {A} (start : N * N) (q : N * N -> A -> N * N -> Prop) : N * N -> A -> N * N -> Prop :=
      fun lo a hi => pos_le start lo -> prefix_pos W (fst start) (snd start) -> q start a hi.
    Lemma mono_from_start {A} start (q : N * N -> A -> N * N -> Prop) : mono_lo (from_start start q).
    Proof. intros lo lo' a hi H Hq H1 H2. apply Hq; [|exact H2]. eapply pos_le_trans; [exact H1|exact H]. Qed.

    (* position read as the end of a primitive datum *)
    Lemma Jd_prim v start : Jd (pbind (liftR position) (fun e => pret (Some (prim_datum v start e)))) (from_start start qv).
    Proof.
      apply Jd_after_pos. intros e. apply Jd_ret. intros lo -> He Hs Hps. cbn [qv]. apply prim_dok.
      apply real_mk; auto; apply pos_le_refl.
    Qed.

    Theorem datums_spans fuel :
      Jd (next_datum fuel) qv /\
      (forall t acc, Jd (parse_list_meta fuel t acc) (ql acc)) /\
      (forall t acc, Jd (parse_vector_meta fuel t acc) (qvec acc)).
    Proof.
      induction fuel as [|f (IHv & IHl & IHvec)].
      - split; [|split]; intros; cbn [Parser.next_datum Parser.parse_list_meta Parser.parse_vector_meta]; apply Jd_fail.
      - split; [|split]; intros; cbn [Parser.next_datum Parser.parse_list_meta Parser.parse_vector_meta].
        + apply Jd_after; [apply T_ws|apply mono_qv|]. intros o. destruct o as [b|]; [|apply Jd_ret; intros; exact I].
          apply Jd_after_pos. intros start.
          eapply Jd_weaken with (p := from_start start qv).
          { intros lo a hi _ H -> Hp. apply H; [apply pos_le_refl|exact Hp]. }
          apply Jd_after; [apply T_token|apply mono_from_start|]. intros tok. cbv zeta.
          destruct tok; try apply Jd_prim.
          * (* list *)
            eapply (Jd_nest _ _ _ (ql []) (fun l m2 b hi => hi = m2 /\ prefix_pos W (fst m2) (snd m2) /\ b = Some (list_datum l start m2)));
              [apply IHl|apply T_end_seq| |].
            { intros l. apply Jd_after_pos. intros e. apply Jd_ret. intros lo -> He. auto. }
            intros lo lo1 l m1 m2 b0 hi L1 L2 L3 L4 Hp (-> & Hpm & ->) Hs Hps. cbn [qv].
            destruct (Hp lo1 (pos_le_refl _) (Forall_nil _)) as [Hels Htail]. destruct l as [ds tail]. cbn [fst snd] in *.
            assert (Hw1 : pos_le start lo1) by (eapply pos_le_trans; eauto).
            assert (Hw2 : pos_le m1 m2) by exact L3.
            apply list_datum_dok.
            -- eapply Forall_dok_widen; [exact Hw1|exact Hw2|exact Hels].
            -- destruct tail as [t|]; [eapply dok_widen; [exact Hw1|exact Hw2|exact Htail]|exact I].
            -- apply real_mk; auto; try apply pos_le_refl.
               eapply pos_le_trans; [exact Hw1|]. eapply pos_le_trans; [exact L2|exact L3].
          * (* quotation *)
            apply Jd_after_pos. intros token_end.
            eapply (Jd_nest_quote _ _ qv (fun o m1 b hi => match o with
                                                           | Some d => hi = m1 /\ b = Some (quotation_datum name d (mk_span start token_end))
                                                           | None => False end)); [apply IHv| |].
            { intros o. destruct o as [d|]; [apply Jd_ret; auto|apply Jd_err]. }
            intros lo lo1 o m1 b0 hi L1 L2 L3 Hp Hq -> Hpt Hs Hps. destruct o as [d|]; [|contradiction].
            destruct Hq as [-> ->]. cbn [qv] in *. apply quotation_dok; auto; try apply pos_le_refl.
            -- eapply dok_widen; [exact L1|apply pos_le_refl|exact Hp].
            -- eapply pos_le_trans; [exact L1|exact L2].
          * (* vector *)
            eapply (Jd_nest _ _ _ (qvec []) (fun els m2 b hi => hi = m2 /\ prefix_pos W (fst m2) (snd m2) /\
                       b = Some {| dvalue := Vector (map dvalue els); dinfo := SVec (mk_span start m2) (map dinfo els) |}));
              [apply IHvec|apply T_end_seq| |].
            { intros els. apply Jd_after_pos. intros e. apply Jd_ret. intros lo -> He. auto. }
            intros lo lo1 els m1 m2 b0 hi L1 L2 L3 L4 Hp (-> & Hpm & ->) Hs Hps. cbn [qv].
            pose proof (Hp lo1 (pos_le_refl _) (Forall_nil _)) as Hels.
            assert (Hw1 : pos_le start lo1) by (eapply pos_le_trans; eauto).
            apply vector_dok.
            -- eapply Forall_dok_widen; [exact Hw1|exact L3|exact Hels].
            -- apply real_mk; auto; try apply pos_le_refl.
               eapply pos_le_trans; [exact Hw1|]. eapply pos_le_trans; [exact L2|exact L3].
          * (* byte vector *)
            apply Jd_after; [apply T_byte_list|apply mono_from_start|]. intros bs. apply Jd_prim.
        + apply Jd_after; [apply T_ws|apply mono_ql|]. intros o. destruct o as [c|]; [|apply Jd_err].
          destruct (is_closer c).
          { destruct (negb (c =? t)); [apply Jd_err|]. apply Jd_ret. intros lo lo0 H0 Hacc. cbn [fst snd]. auto. }
          destruct (c =? 46).
          { apply Jd_after_pos. intros start.
            eapply Jd_weaken with (p := fun lo res hi => pos_le start lo -> prefix_pos W (fst start) (snd start) ->
                                           forall lo0, pos_le lo0 start -> Forall (dok lo0 start) acc ->
                                             Forall (dok lo0 hi) (fst res) /\ match snd res with Some t => dok lo0 hi t | None => True end).
            { intros lo res hi _ H -> Hp. exact (H (pos_le_refl _) Hp). }
            assert (Hmono : mono_lo (fun lo (res : list datum * option datum) hi => pos_le start lo -> prefix_pos W (fst start) (snd start) ->
                                           forall lo0, pos_le lo0 start -> Forall (dok lo0 start) acc ->
                                             Forall (dok lo0 hi) (fst res) /\ match snd res with Some t => dok lo0 hi t | None => True end)).
            { intros lo lo' res hi H Hq H1. apply Hq. eapply pos_le_trans; [exact H1|exact H]. }
            apply Jd_after; [apply T_eat_peek|exact Hmono|]. intros nx. destruct (lone_dot nx).
            - destruct acc as [|x acc'].
              + apply Jd_after; [apply T_peek|exact Hmono|]. intros o3. destruct o3; apply Jd_err.
              + eapply Jd_weaken; [|apply (Jd_bind _ _ qv (fun od lo res hi => match od with
                    | Some cdr => fst res = x :: acc' /\ snd res = Some cdr
                    | None => False end) IHv)].
                { intros lo res hi _ (od & mid & Hqv & Hk & L1 & L2) Hs Hps lo0 H0 Hacc.
                  destruct od as [cdr|]; [|contradiction]. destruct Hk as [E1 E2]. rewrite E1, E2. cbn [qv] in Hqv. split.
                  - eapply Forall_dok_widen; [apply pos_le_refl| |exact Hacc]. eapply pos_le_trans; [exact Hs|]. eapply pos_le_trans; eauto.
                  - eapply dok_widen; [|exact L2|exact Hqv]. eapply pos_le_trans; [exact H0|exact Hs]. }
                intros od. destruct od as [cdr|]; [|apply Jd_err].
                apply Jd_after; [apply T_ws| |].
                { intros lo lo' res hi _ H. exact H. }
                intros o2. destruct o2 as [c2|]; [|apply Jd_err]. destruct (c2 =? t); [|apply Jd_err].
                apply Jd_ret. intros lo. cbn [fst snd]. auto.
            - apply Jd_after; [apply T_symbol_suffix|exact Hmono|]. intros name.
              apply Jd_after_pos. intros e.
              eapply Jd_weaken; [|apply IHl].
              intros lo res hi L Hq -> He Hs Hps lo0 H0 Hacc. apply (Hq lo0).
              + eapply pos_le_trans; [exact H0|exact Hs].
              + apply Forall_app. split.
                * eapply Forall_dok_widen; [apply pos_le_refl|exact Hs|exact Hacc].
                * constructor; [|constructor]. apply prim_dok. apply real_mk; auto; try apply pos_le_refl. }
          eapply Jd_weaken; [|apply (Jd_bind _ _ qv (fun od lo res hi => match od with
                | Some d => ql (acc ++ [d]) lo res hi
                | None => False end) IHv)].
          { intros lo res hi _ (od & mid & Hqv & Hk & L1 & L2) lo0 H0 Hacc.
            destruct od as [d|]; [|contradiction]. cbn [qv] in Hqv. apply (Hk lo0); [eapply pos_le_trans; eauto|].
            apply Forall_app. split.
            - eapply Forall_dok_widen; [apply pos_le_refl|exact L1|exact Hacc].
            - constructor; [|constructor]. eapply dok_widen; [exact H0|apply pos_le_refl|exact Hqv]. }
          intros od. destruct od as [d|]; [apply IHl|apply Jd_err].
        + apply Jd_after; [apply T_ws|apply mono_qvec|]. intros o. destruct o as [c|]; [|apply Jd_err].
          destruct (is_closer c).
          { destruct (negb (c =? t)); [apply Jd_err|]. apply Jd_ret. intros lo lo0 H0 Hacc. exact Hacc. }
          eapply Jd_weaken; [|apply (Jd_bind _ _ qv (fun od lo res hi => match od with
                | Some d => qvec (acc ++ [d]) lo res hi
                | None => False end) IHv)].
          { intros lo res hi _ (od & mid & Hqv & Hk & L1 & L2) lo0 H0 Hacc.
            destruct od as [d|]; [|contradiction]. cbn [qv] in Hqv. apply (Hk lo0); [eapply pos_le_trans; eauto|].
            apply Forall_app. split.
            - eapply Forall_dok_widen; [apply pos_le_refl|exact L1|exact Hacc].
            - constructor; [|constructor]. eapply dok_widen; [exact H0|apply pos_le_refl|exact Hqv]. }
          intros od. destruct od as [d|]; [apply IHvec|apply Jd_err].
    Qed.

    (* ================= nesting and sibling order =================
       The elements a list or vector hands out lie one after another inside
       the span of the list or vector itself. *)
    Lemma Jd_and {A} (m : PM A) p q : Jd m p -> Jd m q -> Jd m (fun lo a hi => p lo a hi /\ q lo a hi).
    Proof.
      intros Hp Hq s Hi. specialize (Hp s Hi). specialize (Hq s Hi). destruct (m s) as [[a|e] s1]; [|exact I].
      destruct Hp as (A1 & A2 & A3). destruct Hq as (_ & _ & B3). auto.
    Qed.

    Definition root_start (i : span_info) : N * N := sp_start (info_span i).
    Definition root_end (i : span_info) : N * N := sp_end (info_span i).

    (* the root spans of [l] follow each other between lo and hi *)
    Fixpoint seqb (lo hi : N * N) (l : list span_info) : Prop :=
      match l with
      | [] => pos_le lo hi
      | i :: l' => pos_le lo (root_start i) /\ pos_le (root_start i) (root_end i) /\ seqb (root_end i) hi l'
      end.

    Lemma seqb_le lo hi l : seqb lo hi l -> pos_le lo hi.
    Proof.
      revert lo. induction l as [|i l IH]; intros lo; cbn [seqb]; [auto|]. intros (H1 & H2 & H3).
      eapply pos_le_trans; [exact H1|]. eapply pos_le_trans; [exact H2|]. apply IH. exact H3.
    Qed.
    Lemma seqb_widen lo hi lo' hi' l : pos_le lo' lo -> pos_le hi hi' -> seqb lo hi l -> seqb lo' hi' l.
    Proof.
      revert lo lo'. induction l as [|i l IH]; intros lo lo' H1 H2; cbn [seqb].
      - intros H. eapply pos_le_trans; [exact H1|]. eapply pos_le_trans; [exact H|exact H2].
      - intros (A & B & C). split; [eapply pos_le_trans; eauto|]. split; [exact B|]. eapply IH; [apply pos_le_refl|exact H2|exact C].
    Qed.
    Lemma seqb_app lo mid hi l1 l2 : seqb lo mid l1 -> seqb mid hi l2 -> seqb lo hi (l1 ++ l2).
    Proof.
      revert lo. induction l1 as [|i l1 IH]; intros lo; cbn [seqb app].
      - intros H1 H2. eapply seqb_widen; [exact H1|apply pos_le_refl|exact H2].
      - intros (A & B & C) H2. split; [exact A|]. split; [exact B|]. apply IH; assumption.
    Qed.
    Lemma seqb_snoc lo mid hi l i : seqb lo mid l -> pos_le mid (root_start i) -> pos_le (root_start i) (root_end i) ->
      pos_le (root_end i) hi -> seqb lo hi (l ++ [i]).
    Proof. intros H1 H2 H3 H4. eapply seqb_app; [exact H1|]. cbn [seqb]. auto. Qed.
    (* the last element may be replaced by what lies inside it, or dropped *)
    Lemma seqb_expand lo hi l i cs : seqb lo hi (l ++ [i]) -> seqb (root_start i) (root_end i) cs -> seqb lo hi (l ++ cs).
    Proof.
      revert lo. induction l as [|x l IH]; intros lo; cbn [seqb app].
      - intros (A & B & C) H. eapply seqb_widen; [exact A|exact C|exact H].
      - intros (A & B & C) H. split; [exact A|]. split; [exact B|]. apply IH; assumption.
    Qed.
    Lemma seqb_drop_last lo hi l i : seqb lo hi (l ++ [i]) -> seqb lo hi l.
    Proof.
      revert lo. induction l as [|x l IH]; intros lo; cbn [seqb app].
      - intros H. apply (seqb_le lo hi [i]). exact H.
      - intros (A & B & C). split; [exact A|]. split; [exact B|]. apply IH. exact C.
    Qed.

    (* what seqb says, element by element *)
    Lemma seqb_inside lo hi l i : seqb lo hi l -> In i l ->
      pos_le lo (root_start i) /\ pos_le (root_start i) (root_end i) /\ pos_le (root_end i) hi.
    Proof.
      revert lo. induction l as [|x l IH]; intros lo; cbn [seqb In]; [tauto|]. intros (A & B & C) [->|Hin].
      - repeat split; auto. apply (seqb_le _ _ _ C).
      - destruct (IH _ C Hin) as (P1 & P2 & P3). repeat split; auto.
        eapply pos_le_trans; [exact A|]. eapply pos_le_trans; [exact B|exact P1].
    Qed.
    Lemma seqb_adjacent lo hi l1 x y l2 : seqb lo hi (l1 ++ x :: y :: l2) -> pos_le (root_end x) (root_start y).
    Proof.
      revert lo. induction l1 as [|z l1 IH]; intros lo; cbn [seqb app].
      - intros (_ & _ & (A & _)). exact A.
      - intros (_ & _ & C). exact (IH _ C).
    Qed.

    (* what a list iterator can hand out after the first element: the cars of
       the chain and, when it carries a span of its own, the final tail *)
    Fixpoint elems_tail (i : span_info) : list span_info :=
      match i with
      | SCons _ a d => a :: elems_tail d
      | SPrim sp => if fst (sp_start sp) =? 0 then [] else [i]
      | SVec _ _ => [i]
      end.

    Fixpoint tight (i : span_info) : Prop :=
      match i with
      | SPrim _ => True
      | SCons sp a d => (fst (sp_start sp) = 0 \/ seqb (sp_start sp) (sp_end sp) (a :: elems_tail d)) /\ tight a /\ tight d
      | SVec sp l => seqb (sp_start sp) (sp_end sp) l /\
                     (fix all (l : list span_info) : Prop := match l with [] => True | x :: l' => tight x /\ all l' end) l
      end.
    Definition all_tight : list span_info -> Prop :=
      fix all (l : list span_info) : Prop := match l with [] => True | x :: l' => tight x /\ all l' end.

    Lemma elems_tail_chain ms tm : elems_tail (chain_meta ms tm) = ms ++ elems_tail tm.
    Proof. induction ms as [|m ms IH]; cbn [chain_meta elems_tail app]; [reflexivity|]. now rewrite IH. Qed.
    Lemma tight_chain ms tm : all_tight ms -> tight tm -> tight (chain_meta ms tm).
    Proof.
      induction ms as [|m ms IH]; cbn [chain_meta all_tight tight]; [auto|]. intros [Hm Hms] Ht.
      split; [left; reflexivity|]. split; [exact Hm|apply IH; assumption].
    Qed.
    Lemma all_tight_map ds : Forall (fun d => tight (dinfo d)) ds -> all_tight (map dinfo ds).
    Proof. induction 1 as [|d ds Hd _ IH]; cbn [map all_tight]; auto. Qed.

    Lemma prefix_line l c : prefix_pos W l c -> 1 <= l.
    Proof.
      intros (p & q & _ & E). assert (H : pos_le (1, 0) (pos_after p)) by exact (fold_advance_le p (1, 0)).
      rewrite <- E in H. unfold pos_le in H. cbn [fst snd] in H. lia.
    Qed.
    Lemma real_line lo hi sp : real lo hi sp -> (fst (sp_start sp) =? 0) = false.
    Proof. intros (A & _). apply prefix_line in A. lia. Qed.

    (* the elements of a tail, given that it is tight and has a real span *)
    Lemma tail_elems lo hi l t : real lo hi (info_span t) -> tight t -> seqb lo hi (l ++ [t]) -> seqb lo hi (l ++ elems_tail t).
    Proof.
      intros Hr Ht Hs. destruct t as [sp|sp a d|sp ms]; cbn [elems_tail info_span] in *.
      - rewrite (real_line lo hi sp Hr). exact Hs.
      - destruct Ht as ([H0|Hseq] & _ & _); [pose proof (real_line lo hi sp Hr); lia|].
        eapply seqb_expand; [exact Hs|exact Hseq].
      - exact Hs.
    Qed.

    Definition tail_infos (o : option datum) : list span_info := match o with Some t => [dinfo t] | None => [] end.

    Lemma list_datum_tight lo hi ds tail a b :
      Forall (fun d => tight (dinfo d)) ds -> (match tail with Some t => tight (dinfo t) /\ dok lo hi t | None => True end) ->
      seqb a b (map dinfo ds ++ tail_infos tail) -> tight (dinfo (list_datum (ds, tail) a b)).
    Proof.
      intros Hds Ht Hs. destruct ds as [|d1 ds]; [exact I|].
      inversion Hds as [|? ? H1 Hrest]; subst. unfold list_datum, list_meta. cbn [dinfo tight mk_span sp_start sp_end].
      split; [right|split; [exact H1|]].
      - rewrite elems_tail_chain. cbn [map app] in Hs.
        change (dinfo d1 :: map dinfo ds ++ elems_tail (match tail with Some t => dinfo t | None => null_meta end))
          with ((dinfo d1 :: map dinfo ds) ++ elems_tail (match tail with Some t => dinfo t | None => null_meta end)).
        destruct tail as [t|]; cbn [tail_infos] in Hs.
        + destruct Ht as [Htt [_ Hr]].
          apply (tail_elems a b (dinfo d1 :: map dinfo ds) (dinfo t)); auto.
          pose proof (seqb_le _ _ _ Hs) as Hab. destruct Hr as (R1 & R2 & R3 & R4 & R5).
          assert (Hmid : seqb a b ((dinfo d1 :: map dinfo ds) ++ [dinfo t])) by exact Hs.
          (* the root of t lies between a and b *)
          clear -Hmid R1 R2 R4. revert Hmid. generalize (dinfo d1 :: map dinfo ds). intros l. revert a.
          induction l as [|x l IH]; intros a; cbn [seqb app].
          * intros (A & B & C). repeat split; auto.
          * intros (A & B & C). destruct (IH _ C) as (Q1 & Q2 & Q3 & Q4 & Q5). repeat split; auto.
            eapply pos_le_trans; [exact A|]. eapply pos_le_trans; [exact B|exact Q3].
        + cbn [null_meta elems_tail span_empty sp_start fst]. rewrite app_nil_r in *. exact Hs.
      - apply tight_chain; [apply all_tight_map; exact Hrest|]. destruct tail as [t|]; [apply Ht|exact I].
    Qed.

    Lemma vector_tight els a b : Forall (fun d => tight (dinfo d)) els -> seqb a b (map dinfo els) ->
      tight (SVec (mk_span a b) (map dinfo els)).
    Proof. intros H Hs. cbn [tight mk_span sp_start sp_end]. split; [exact Hs|apply all_tight_map; exact H]. Qed.

    Lemma quotation_tight hi name quoted s0 s1 : dok s1 hi quoted -> tight (dinfo quoted) -> pos_le s0 s1 ->
      tight (dinfo (quotation_datum name quoted (mk_span s0 s1))).
    Proof.
      intros [_ (Q1 & Q2 & Q3 & Q4 & Q5)] Ht L. unfold quotation_datum. cbv zeta.
      set (qi := dinfo quoted) in *. set (qend := sp_end (info_span qi)) in *.
      cbn [dinfo tight mk_span sp_start sp_end elems_tail info_span root_start root_end].
      assert (Htail : forall lo, pos_le lo qend -> seqb lo qend (if fst qend =? 0 then [] else [SPrim (mk_span qend qend)])).
      { intros lo Hlo. destruct (fst qend =? 0); cbn [seqb root_start root_end info_span mk_span sp_start sp_end]; auto.
        repeat split; auto; apply pos_le_refl. }
      split; [right|split; [exact I|split; [right|split; [exact Ht|exact I]]]].
      - cbn [seqb root_start root_end info_span mk_span sp_start sp_end]. repeat split; try apply pos_le_refl; auto.
        apply Htail. apply pos_le_refl.
      - cbn [seqb root_start root_end]. repeat split; try apply pos_le_refl; auto. apply Htail. apply pos_le_refl.
    Qed.

    Definition qt (lo : N * N) (o : option datum) (hi : N * N) : Prop :=
      match o with Some d => tight (dinfo d) | None => True end.
    Definition qlt (acc : list datum) (lo : N * N) (res : list datum * option datum) (hi : N * N) : Prop :=
      forall lo0, seqb lo0 lo (map dinfo acc) -> Forall (fun d => tight (dinfo d)) acc ->
        seqb lo0 hi (map dinfo (fst res) ++ tail_infos (snd res)) /\ Forall (fun d => tight (dinfo d)) (fst res) /\
        match snd res with Some t => tight (dinfo t) /\ exists l h, dok l h t | None => True end.
    Definition qvect (acc : list datum) (lo : N * N) (res : list datum) (hi : N * N) : Prop :=
      forall lo0, seqb lo0 lo (map dinfo acc) -> Forall (fun d => tight (dinfo d)) acc ->
        seqb lo0 hi (map dinfo res) /\ Forall (fun d => tight (dinfo d)) res.

    Lemma mono_qt : mono_lo qt.
    Proof. intros lo lo' o hi _ H. exact H. Qed.
    Lemma mono_qlt acc : mono_lo (qlt acc).
    Proof. intros lo lo' res hi H Hq lo0 Hs Ht. apply Hq; [|exact Ht]. eapply seqb_widen; [apply pos_le_refl|exact H|exact Hs]. Qed.
    Lemma mono_qvect acc : mono_lo (qvect acc).
    Proof. intros lo lo' res hi H Hq lo0 Hs Ht. apply Hq; [|exact Ht]. eapply seqb_widen; [apply pos_le_refl|exact H|exact Hs]. Qed.

    Lemma Jd_prim_t v start : Jd (pbind (liftR position) (fun e => pret (Some (prim_datum v start e)))) (from_start start qt).
    Proof. apply Jd_after_pos. intros e. apply Jd_ret. intros lo -> He Hs Hps. exact I. Qed.

    Lemma map_snoc {A B} (f : A -> B) l x : map f (l ++ [x]) = map f l ++ [f x].
    Proof. rewrite map_app. reflexivity. Qed.

    (* one more element read by next_datum between mid0 and mid *)
    Lemma acc_step lo0 lo mid acc d : seqb lo0 lo (map dinfo acc) -> Forall (fun d => tight (dinfo d)) acc ->
      dok lo mid d -> tight (dinfo d) ->
      seqb lo0 mid (map dinfo (acc ++ [d])) /\ Forall (fun d => tight (dinfo d)) (acc ++ [d]).
    Proof.
      intros Hs Ht [_ (R1 & R2 & R3 & R4 & R5)] Htd. split.
      - rewrite map_snoc. eapply seqb_snoc; [exact Hs|exact R3|exact R4|exact R5].
      - apply Forall_app. split; [exact Ht|repeat constructor; exact Htd].
    Qed.

    Theorem datums_tight fuel :
      Jd (next_datum fuel) qt /\
      (forall t acc, Jd (parse_list_meta fuel t acc) (qlt acc)) /\
      (forall t acc, Jd (parse_vector_meta fuel t acc) (qvect acc)).
    Proof.
      induction fuel as [|f (IHv & IHl & IHvec)].
      - split; [|split]; intros; cbn [Parser.next_datum Parser.parse_list_meta Parser.parse_vector_meta]; apply Jd_fail.
      - pose proof (datums_spans f) as (Sv & Sl & Svec).
        assert (IHv2 := Jd_and _ _ _ Sv IHv).
        split; [|split]; intros; cbn [Parser.next_datum Parser.parse_list_meta Parser.parse_vector_meta].
        + apply Jd_after; [apply T_ws|apply mono_qt|]. intros o. destruct o as [b|]; [|apply Jd_ret; intros; exact I].
          apply Jd_after_pos. intros start.
          eapply Jd_weaken with (p := from_start start qt).
          { intros lo a hi _ H -> Hp. apply H; [apply pos_le_refl|exact Hp]. }
          apply Jd_after; [apply T_token|apply mono_from_start|]. intros tok. cbv zeta.
          destruct tok; try apply Jd_prim_t.
          * (* list *)
            eapply (Jd_nest _ _ _ (fun lo l hi => ql [] lo l hi /\ qlt [] lo l hi)
                      (fun l m2 b hi => hi = m2 /\ b = Some (list_datum l start m2)));
              [apply Jd_and; [apply Sl|apply IHl]|apply T_end_seq| |].
            { intros l. apply Jd_after_pos. intros e. apply Jd_ret. intros lo -> He. auto. }
            intros lo lo1 l m1 m2 b0 hi L1 L2 L3 L4 [Hp1 Hp2] (-> & ->) Hs Hps. cbn [qt].
            destruct (Hp1 lo1 (pos_le_refl _) (Forall_nil _)) as [Hels Htail].
            destruct (Hp2 lo1 (pos_le_refl _) (Forall_nil _)) as (Hseq & Hts & Htt). destruct l as [ds tail]. cbn [fst snd] in *.
            apply (list_datum_tight lo1 m1).
            -- exact Hts.
            -- destruct tail as [t|]; [split; [apply Htt|exact Htail]|exact I].
            -- eapply seqb_widen; [|exact L3|exact Hseq]. eapply pos_le_trans; eauto.
          * (* quotation *)
            apply Jd_after_pos. intros token_end.
            eapply (Jd_nest_quote _ _ (fun lo o hi => qv lo o hi /\ qt lo o hi)
                      (fun o m1 b hi => match o with
                                        | Some d => hi = m1 /\ b = Some (quotation_datum name d (mk_span start token_end))
                                        | None => False end)); [exact IHv2| |].
            { intros o. destruct o as [d|]; [apply Jd_ret; auto|apply Jd_err]. }
            intros lo lo1 o m1 b0 hi L1 L2 L3 [Hp1 Hp2] Hq -> Hpt Hs Hps. destruct o as [d|]; [|contradiction].
            destruct Hq as [-> ->]. cbn [qt qv] in *. apply (quotation_tight m1); auto.
            eapply dok_widen; [exact L1|apply pos_le_refl|exact Hp1].
          * (* vector *)
            eapply (Jd_nest _ _ _ (fun lo l hi => qvec [] lo l hi /\ qvect [] lo l hi)
                      (fun els m2 b hi => hi = m2 /\
                         b = Some {| dvalue := Vector (map dvalue els); dinfo := SVec (mk_span start m2) (map dinfo els) |}));
              [apply Jd_and; [apply Svec|apply IHvec]|apply T_end_seq| |].
            { intros els. apply Jd_after_pos. intros e. apply Jd_ret. intros lo -> He. auto. }
            intros lo lo1 els m1 m2 b0 hi L1 L2 L3 L4 [Hp1 Hp2] (-> & ->) Hs Hps. cbn [qt dinfo].
            destruct (Hp2 lo1 (pos_le_refl _) (Forall_nil _)) as (Hseq & Hts).
            apply vector_tight; [exact Hts|]. eapply seqb_widen; [|exact L3|exact Hseq]. eapply pos_le_trans; eauto.
          * (* byte vector *)
            apply Jd_after; [apply T_byte_list|apply mono_from_start|]. intros bs. apply Jd_prim_t.
        + apply Jd_after; [apply T_ws|apply mono_qlt|]. intros o. destruct o as [c|]; [|apply Jd_err].
          destruct (is_closer c).
          { destruct (negb (c =? t)); [apply Jd_err|]. apply Jd_ret. intros lo lo0 Hs Ht. cbn [fst snd tail_infos].
            rewrite app_nil_r. auto. }
          destruct (c =? 46).
          { apply Jd_after_pos. intros start.
            set (P := fun lo (res : list datum * option datum) hi => pos_le start lo -> prefix_pos W (fst start) (snd start) ->
                        forall lo0, seqb lo0 start (map dinfo acc) -> Forall (fun d => tight (dinfo d)) acc ->
                          seqb lo0 hi (map dinfo (fst res) ++ tail_infos (snd res)) /\ Forall (fun d => tight (dinfo d)) (fst res) /\
                          match snd res with Some t => tight (dinfo t) /\ exists l h, dok l h t | None => True end).
            eapply Jd_weaken with (p := P).
            { intros lo res hi _ H -> Hp. exact (H (pos_le_refl _) Hp). }
            assert (Hmono : mono_lo P).
            { intros lo lo' res hi H Hq H1. apply Hq. eapply pos_le_trans; [exact H1|exact H]. }
            apply Jd_after; [apply T_eat_peek|exact Hmono|]. intros nx. destruct (lone_dot nx).
            - destruct acc as [|x acc'].
              + apply Jd_after; [apply T_peek|exact Hmono|]. intros o3. destruct o3; apply Jd_err.
              + eapply Jd_weaken; [|apply (Jd_bind _ _ (fun lo o hi => qv lo o hi /\ qt lo o hi) (fun od lo res hi => match od with
                    | Some cdr => fst res = x :: acc' /\ snd res = Some cdr
                    | None => False end) IHv2)].
                { intros lo res hi _ (od & mid & [Hqv Hqt] & Hk & L1 & L2) Hs Hps lo0 Hseq Hacc.
                  destruct od as [cdr|]; [|contradiction]. destruct Hk as [E1 E2]. rewrite E1, E2. cbn [qv qt tail_infos] in *.
                  destruct Hqv as [Ha (R1 & R2 & R3 & R4 & R5)].
                  split; [|split; [exact Hacc|split; [exact Hqt|exists lo, mid; split; [exact Ha|repeat split; assumption]]]].
                  eapply seqb_snoc; [exact Hseq| | |].
                  - eapply pos_le_trans; [exact Hs|exact R3].
                  - exact R4.
                  - eapply pos_le_trans; [exact R5|exact L2]. }
                intros od. destruct od as [cdr|]; [|apply Jd_err].
                apply Jd_after; [apply T_ws| |].
                { intros lo lo' res hi _ H. exact H. }
                intros o2. destruct o2 as [c2|]; [|apply Jd_err]. destruct (c2 =? t); [|apply Jd_err].
                apply Jd_ret. intros lo. cbn [fst snd]. auto.
            - apply Jd_after; [apply T_symbol_suffix|exact Hmono|]. intros name.
              apply Jd_after_pos. intros e.
              eapply Jd_weaken; [|apply IHl].
              intros lo res hi L Hq -> He Hs Hps lo0 Hseq Hacc. apply (Hq lo0).
              + rewrite map_snoc. eapply seqb_snoc; [exact Hseq| | |]; cbn [prim_datum dinfo root_start root_end info_span mk_span sp_start sp_end].
                * apply pos_le_refl.
                * exact Hs.
                * apply pos_le_refl.
              + apply Forall_app. split; [exact Hacc|repeat constructor]. }
          eapply Jd_weaken; [|apply (Jd_bind _ _ (fun lo o hi => qv lo o hi /\ qt lo o hi) (fun od lo res hi => match od with
                | Some d => qlt (acc ++ [d]) lo res hi
                | None => False end) IHv2)].
          { intros lo res hi _ (od & mid & [Hqv Hqt] & Hk & L1 & L2) lo0 Hseq Hacc.
            destruct od as [d|]; [|contradiction]. cbn [qv qt] in *.
            destruct (acc_step lo0 lo mid acc d Hseq Hacc Hqv Hqt) as [A B]. apply (Hk lo0); assumption. }
          intros od. destruct od as [d|]; [apply IHl|apply Jd_err].
        + apply Jd_after; [apply T_ws|apply mono_qvect|]. intros o. destruct o as [c|]; [|apply Jd_err].
          destruct (is_closer c).
          { destruct (negb (c =? t)); [apply Jd_err|]. apply Jd_ret. intros lo lo0 Hs Ht. auto. }
          eapply Jd_weaken; [|apply (Jd_bind _ _ (fun lo o hi => qv lo o hi /\ qt lo o hi) (fun od lo res hi => match od with
                | Some d => qvect (acc ++ [d]) lo res hi
                | None => False end) IHv2)].
          { intros lo res hi _ (od & mid & [Hqv Hqt] & Hk & L1 & L2) lo0 Hseq Hacc.
            destruct od as [d|]; [|contradiction]. cbn [qv qt] in *.
            destruct (acc_step lo0 lo mid acc d Hseq Hacc Hqv Hqt) as [A B]. apply (Hk lo0); assumption. }
          intros od. destruct od as [d|]; [apply IHvec|apply Jd_err].
    Qed.

    (* ================= non-empty spans, strict progress =================
       Every span a datum hands out covers at least one byte: the token it
       starts with is consumed. (The leaf that ends a cons chain - the end
       marker, or the atom after a dot - is the one place not covered.) *)
    Fixpoint nef (tail : bool) (i : span_info) : Prop :=
      match i with
      | SPrim sp => if tail then True else pos_lt (sp_start sp) (sp_end sp)
      | SCons sp a d => (fst (sp_start sp) = 0 \/ pos_lt (sp_start sp) (sp_end sp)) /\ nef false a /\ nef true d
      | SVec sp l => pos_lt (sp_start sp) (sp_end sp) /\
                     (fix all (l : list span_info) : Prop := match l with [] => True | x :: l' => nef false x /\ all l' end) l
      end.
    Definition all_ne : list span_info -> Prop :=
      fix all (l : list span_info) : Prop := match l with [] => True | x :: l' => nef false x /\ all l' end.
    Lemma nef_tail_of i : nef false i -> nef true i.
    Proof. destruct i; cbn [nef]; auto. Qed.
    Lemma all_ne_map ds : Forall (fun d => nef false (dinfo d)) ds -> all_ne (map dinfo ds).
    Proof. induction 1 as [|d ds Hd _ IH]; cbn [map all_ne]; auto. Qed.
    Lemma ne_chain ms tm : all_ne ms -> nef true tm -> nef true (chain_meta ms tm).
    Proof.
      induction ms as [|m ms IH]; cbn [chain_meta all_ne nef]; [auto|]. intros [Hm Hms] Ht.
      split; [left; reflexivity|]. split; [exact Hm|apply IH; assumption].
    Qed.

    (* whitespace, the start position, the token: the position moves strictly past start *)
    Lemma Jd_ws_pos_token {B} f (K : N * N -> token -> PM (option B))
          (qk : N * N -> token -> N * N -> option B -> N * N -> Prop) (Q : N * N -> option B -> N * N -> Prop) :
      (forall start tok, Jd (K start tok) (qk start tok)) ->
      (forall lo hi, pos_le lo hi -> Q lo None hi) ->
      (forall lo start mid tok b hi, pos_le lo start -> prefix_pos W (fst start) (snd start) -> pos_lt start mid ->
                                     pos_le mid hi -> qk start tok mid b hi -> Q lo b hi) ->
      Jd (pbind (liftR (parse_whitespace f)) (fun o =>
            match o with
            | None => pret None
            | Some b => pbind (liftR position) (fun start => pbind (liftR (parse_token ro alpha fast std_parse f b)) (fun tok => K start tok))
            end)) Q.
    Proof.
      intros HK Hnone HQ s Hi. rewrite pbind_unfold.
      pose proof (T_ws f s Hi) as H1. pose proof (ws_at_byte f (rd s)) as Hat. unfold liftR in H1 |- *.
      destruct (parse_whitespace f (rd s)) as [[o|e] r1]; [|exact I]. destruct H1 as (Hi1 & L1 & _). cbn [rd] in Hi1, L1.
      destruct o as [b|].
      - rewrite pbind_unfold. unfold position at 1. cbn [fst snd rd depth].
        assert (Hps : prefix_pos W (fst (r_position r1)) (snd (r_position r1))) by (apply position_prefix; exact Hi1).
        rewrite pbind_unfold. cbn [rd depth].
        pose proof (T_token f b {| rd := r1; depth := depth s |} Hi1) as H2. unfold liftR in H2. cbn [rd depth] in H2.
        pose proof (token_strict ro alpha fast std_parse f b r1 Hat) as Hst.
        destruct (parse_token ro alpha fast std_parse f b r1) as [[tok|e] r2]; [|exact I]. destruct H2 as (Hi2 & L2 & _). cbn [rd] in Hi2, L2.
        specialize (HK (r_position r1) tok {| rd := r2; depth := depth s |} Hi2).
        destruct (K (r_position r1) tok {| rd := r2; depth := depth s |}) as [[b0|e] s3]; [|exact I]. destruct HK as (Hi3 & L3 & Hq).
        cbn [rd] in L3, Hq.
        split; [exact Hi3|]. split; [eapply pos_le_trans; [exact L1|]; eapply pos_le_trans; [exact L2|exact L3]|].
        eapply (HQ _ (r_position r1) (rpos r2) tok); eauto.
      - cbn [pret]. split; [exact Hi1|]. split; [exact L1|]. apply Hnone. exact L1.
    Qed.

    (* a judgement with a precondition on the reader, for the steps right after parse_whitespace *)
    Definition Jdp {A} (pre : reader -> Prop) (m : PM A) (post : N * N -> A -> N * N -> Prop) : Prop :=
      forall s, inv W (rd s) -> pre (rd s) ->
        match m s with
        | (POk a, s') => inv W (rd s') /\ pos_le (rpos (rd s)) (rpos (rd s')) /\ post (rpos (rd s)) a (rpos (rd s'))
        | (PErr _, _) => True
        end.
    Lemma Jdp_of_Jd {A} pre (m : PM A) q : Jd m q -> Jdp pre m q.
    Proof. intros H s Hi _. apply H. exact Hi. Qed.
    Lemma Jd_ws_cases {B} f (kn : PM B) (ks : N -> PM B) (Q : N * N -> B -> N * N -> Prop) :
      mono_lo Q -> Jd kn Q -> (forall c, Jdp (at_byte c) (ks c) Q) ->
      Jd (pbind (liftR (parse_whitespace f)) (fun o => match o with None => kn | Some c => ks c end)) Q.
    Proof.
      intros Hmono Hn Hs s Hi. rewrite pbind_unfold.
      pose proof (T_ws f s Hi) as H1. pose proof (ws_at_byte f (rd s)) as Hat. unfold liftR in *.
      destruct (parse_whitespace f (rd s)) as [[o|e] r1]; [|exact I]. destruct H1 as (Hi1 & L1 & _). cbn [rd] in *.
      set (s1 := {| rd := r1; depth := depth s |}) in *.
      destruct o as [c|].
      - specialize (Hs c s1 Hi1 Hat). destruct (ks c s1) as [[b|e] s2]; [|exact I]. destruct Hs as (Hi2 & L2 & Hq).
        split; [exact Hi2|]. split; [eapply pos_le_trans; eauto|]. eapply Hmono; [exact L1|exact Hq].
      - specialize (Hn s1 Hi1). destruct (kn s1) as [[b|e] s2]; [|exact I]. destruct Hn as (Hi2 & L2 & Hq).
        split; [exact Hi2|]. split; [eapply pos_le_trans; eauto|]. eapply Hmono; [exact L1|exact Hq].
    Qed.
    (* the start position, then the dispatching byte is eaten: strictly past start *)
    Lemma Jdp_pos_eat_peek {B} c (K : N * N -> option N -> PM B) (Q : N * N -> B -> N * N -> Prop) :
      (forall start nx, Jd (K start nx) (fun mid b hi => prefix_pos W (fst start) (snd start) -> pos_lt start mid -> Q start b hi)) ->
      Jdp (at_byte c) (pbind (liftR position) (fun start => pbind (liftR (eat_char ;;; peek)) (fun nx => K start nx))) Q.
    Proof.
      intros HK s Hi Hat. rewrite pbind_unfold. unfold liftR at 1, position at 1. cbn [fst snd rd].
      set (start := r_position (rd s)).
      assert (Hps : prefix_pos W (fst start) (snd start)) by (apply position_prefix; exact Hi).
      replace {| rd := rd s; depth := depth s |} with s by (destruct s; reflexivity).
      rewrite pbind_unfold. pose proof (T_eat_peek s Hi) as H1. unfold liftR in *.
      pose proof (rlt_eat c (rd s) Hat) as Hst. unfold bind in *. unfold eat_char in *.
      pose proof (mono_peek (r_discard (rd s))) as Hpk. unfold R, Rmono in Hpk.
      destruct (peek (r_discard (rd s))) as [[nx|e] r2]; cbn [fst snd] in *; [|exact I]. destruct H1 as (Hi2 & L2 & _). cbn [rd] in *.
      set (s2 := {| rd := r2; depth := depth s |}) in *.
      specialize (HK start nx s2 Hi2). destruct (K start nx s2) as [[b|e] s3]; [|exact I]. destruct HK as (Hi3 & L3 & Hq).
      split; [exact Hi3|]. split; [eapply pos_le_trans; eauto|]. apply Hq; [exact Hps|]. eapply pos_lt_le_trans; [exact Hst|exact Hpk].
    Qed.

    Definition qn (lo : N * N) (o : option datum) (hi : N * N) : Prop :=
      match o with Some d => nef false (dinfo d) | None => True end.
    (* what the continuation after the token establishes, relative to start *)
    Definition qkn (start : N * N) (tok : token) (mid : N * N) (o : option datum) (hi : N * N) : Prop :=
      match o with
      | Some d => forall (Hlt : pos_lt start mid), nef false (dinfo d)
      | None => True
      end.
    Definition qln (acc : list datum) (lo : N * N) (res : list datum * option datum) (hi : N * N) : Prop :=
      Forall (fun d => nef false (dinfo d)) acc ->
      Forall (fun d => nef false (dinfo d)) (fst res) /\ match snd res with Some t => nef false (dinfo t) | None => True end.
    Definition qvecn (acc : list datum) (lo : N * N) (res : list datum) (hi : N * N) : Prop :=
      Forall (fun d => nef false (dinfo d)) acc -> Forall (fun d => nef false (dinfo d)) res.

    Lemma mono_qln acc : mono_lo (qln acc).  Proof. intros lo lo' res hi _ H. exact H. Qed.
    Lemma mono_qvecn acc : mono_lo (qvecn acc).  Proof. intros lo lo' res hi _ H. exact H. Qed.

    Lemma list_datum_ne ds tail a b : pos_lt a b -> Forall (fun d => nef false (dinfo d)) ds ->
      (match tail with Some t => nef false (dinfo t) | None => True end) -> nef false (dinfo (list_datum (ds, tail) a b)).
    Proof.
      intros Hab Hds Ht. destruct ds as [|d1 ds]; [exact Hab|].
      inversion Hds as [|? ? H1 Hrest]; subst. unfold list_datum, list_meta. cbn [dinfo nef mk_span sp_start sp_end].
      split; [right; exact Hab|]. split; [exact H1|]. apply ne_chain; [apply all_ne_map; exact Hrest|].
      destruct tail as [t|]; [apply nef_tail_of; exact Ht|exact I].
    Qed.

    Theorem datums_nonempty fuel :
      Jd (next_datum fuel) qn /\
      (forall t acc, Jd (parse_list_meta fuel t acc) (qln acc)) /\
      (forall t acc, Jd (parse_vector_meta fuel t acc) (qvecn acc)).
    Proof.
      induction fuel as [|f (IHv & IHl & IHvec)].
      - split; [|split]; intros; cbn [Parser.next_datum Parser.parse_list_meta Parser.parse_vector_meta]; apply Jd_fail.
      - pose proof (datums_spans f) as (Sv & Sl & Svec).
        split; [|split]; intros; cbn [Parser.next_datum Parser.parse_list_meta Parser.parse_vector_meta].
        + eapply (Jd_ws_pos_token f _ (fun start tok mid o hi => pos_le mid hi /\ forall (Hlt : pos_lt start mid), qn mid o hi)).
          2:{ intros lo hi _. exact I. }
          2:{ intros lo start mid tok b0 hi L1 Hps Hlt L2 [_ Hq]. exact (Hq Hlt). }
          intros start tok. cbv zeta.
          assert (Hprim : forall v, Jd (pbind (liftR position) (fun e => pret (Some (prim_datum v start e))))
                                       (fun mid o hi => pos_le mid hi /\ forall (Hlt : pos_lt start mid), qn mid o hi)).
          { intros v. apply Jd_after_pos. intros e. apply Jd_ret. intros lo -> He. split; [apply pos_le_refl|]. intros Hlt. exact Hlt. }
          destruct tok; try apply Hprim.
          * (* list *)
            eapply (Jd_nest _ _ _ (qln []) (fun l m2 b hi => hi = m2 /\ b = Some (list_datum l start m2)));
              [apply IHl|apply T_end_seq| |].
            { intros l. apply Jd_after_pos. intros e. apply Jd_ret. intros lo -> He. auto. }
            intros lo lo1 l m1 m2 b0 hi L1 L2 L3 L4 Hp (-> & ->). split.
            { eapply pos_le_trans; [exact L1|]. eapply pos_le_trans; [exact L2|exact L3]. }
            intros Hlt. cbn [qn]. destruct (Hp (Forall_nil _)) as [Hels Htail]. destruct l as [ds tail]. cbn [fst snd] in *.
            apply list_datum_ne; auto. eapply pos_lt_le_trans; [exact Hlt|].
            eapply pos_le_trans; [exact L1|]. eapply pos_le_trans; [exact L2|exact L3].
          * (* quotation *)
            apply Jd_after_pos. intros token_end.
            eapply (Jd_nest_quote _ _ (fun lo o hi => qv lo o hi /\ qn lo o hi)
                      (fun o m1 b hi => match o with
                                        | Some d => hi = m1 /\ b = Some (quotation_datum name d (mk_span start token_end))
                                        | None => False end)); [apply Jd_and; [exact Sv|exact IHv]| |].
            { intros o. destruct o as [d|]; [apply Jd_ret; auto|apply Jd_err]. }
            intros lo lo1 o m1 b0 hi L1 L2 L3 [Hp1 Hp2] Hq -> Hpt. destruct o as [d|]; [|contradiction].
            destruct Hq as [-> ->]. split; [eapply pos_le_trans; [exact L1|exact L2]|]. intros Hlt. cbn [qn qv] in *.
            destruct Hp1 as [_ (R1 & R2 & R3 & R4 & R5)].
            unfold quotation_datum. cbv zeta. cbn [dinfo nef mk_span sp_start sp_end].
            assert (Hroot : pos_lt (sp_start (info_span (dinfo d))) (sp_end (info_span (dinfo d)))).
            { destruct (dinfo d) as [sp|sp a dd|sp l]; cbn [nef info_span] in *; [exact Hp2| |apply Hp2].
              destruct Hp2 as ([H0|H0] & _); [|exact H0]. apply prefix_line in R1. cbn [info_span] in R1. lia. }
            split; [right|split; [exact Hlt|split; [right; exact Hroot|split; [exact Hp2|exact I]]]].
            eapply pos_lt_le_trans; [exact Hlt|]. eapply pos_le_trans; [exact L1|].
            eapply pos_le_trans; [exact R3|exact R4].
          * (* vector *)
            eapply (Jd_nest _ _ _ (qvecn []) (fun els m2 b hi => hi = m2 /\
                       b = Some {| dvalue := Vector (map dvalue els); dinfo := SVec (mk_span start m2) (map dinfo els) |}));
              [apply IHvec|apply T_end_seq| |].
            { intros els. apply Jd_after_pos. intros e. apply Jd_ret. intros lo -> He. auto. }
            intros lo lo1 els m1 m2 b0 hi L1 L2 L3 L4 Hp (-> & ->). split.
            { eapply pos_le_trans; [exact L1|]. eapply pos_le_trans; [exact L2|exact L3]. }
            intros Hlt. cbn [qn dinfo nef mk_span sp_start sp_end]. split.
            -- eapply pos_lt_le_trans; [exact Hlt|]. eapply pos_le_trans; [exact L1|]. eapply pos_le_trans; [exact L2|exact L3].
            -- apply all_ne_map. apply Hp. constructor.
          * (* byte vector *)
            eapply Jd_weaken; [|apply (Jd_bind _ _ (fun _ _ _ => True) (fun _ mid o hi => pos_le mid hi /\ forall (Hlt : pos_lt start mid), qn mid o hi)
                                       (T_byte_list f close))].
            { intros lo o hi _ (bs & mid & _ & [Hle Hq] & L1 & L2). split; [eapply pos_le_trans; eauto|].
              intros Hlt. apply Hq. eapply pos_lt_le_trans; [exact Hlt|exact L1]. }
            intros bs. apply Hprim.
        + apply Jd_ws_cases; [apply mono_qln|apply Jd_err|]. intros c.
          destruct (is_closer c).
          { apply Jdp_of_Jd. destruct (negb (c =? t)); [apply Jd_err|]. apply Jd_ret. intros lo Hacc. cbn [fst snd]. auto. }
          destruct (c =? 46).
          { apply Jdp_pos_eat_peek. intros start nx. destruct (lone_dot nx).
            - destruct acc as [|x acc'].
              + apply Jd_after; [apply T_peek|intros lo lo' res hi Hle H Hp Hlt; apply H; [exact Hp|eapply pos_lt_le_trans; eauto]|]. intros o3. destruct o3; apply Jd_err.
              + eapply Jd_weaken; [|apply (Jd_bind _ _ qn (fun od lo res hi => match od with
                    | Some cdr => fst res = x :: acc' /\ snd res = Some cdr
                    | None => False end) IHv)].
                { intros lo res hi _ (od & mid & Hqn & Hk & L1 & L2) _ _ Hacc.
                  destruct od as [cdr|]; [|contradiction]. destruct Hk as [E1 E2]. rewrite E1, E2. cbn [qn] in Hqn. auto. }
                intros od. destruct od as [cdr|]; [|apply Jd_err].
                apply Jd_after; [apply T_ws| |].
                { intros lo lo' res hi _ H. exact H. }
                intros o2. destruct o2 as [c2|]; [|apply Jd_err]. destruct (c2 =? t); [|apply Jd_err].
                apply Jd_ret. intros lo. cbn [fst snd]. auto.
            - (* ".name": the datum's span starts at the dot, which has been eaten *)
              eapply Jd_weaken; [|apply (Jd_bind _ _ (fun _ _ _ => True)
                  (fun name mid res hi => forall start0, pos_lt start0 mid -> start0 = start ->
                     Forall (fun d => nef false (dinfo d)) acc ->
                     Forall (fun d => nef false (dinfo d)) (fst res) /\ match snd res with Some t => nef false (dinfo t) | None => True end)
                  (T_symbol_suffix f [46]))].
              { intros lo res hi _ (name & mid & _ & Hk & L1 & L2) Hps Hlt Hacc. apply (Hk start); auto.
                eapply pos_lt_le_trans; [exact Hlt|exact L1]. }
              intros name. apply Jd_after_pos. intros e.
              eapply Jd_weaken; [|apply IHl].
              intros lo res hi L Hq -> He start0 Hlt -> Hacc. apply Hq. apply Forall_app. split; [exact Hacc|].
              constructor; [|constructor]. cbn [prim_datum dinfo nef mk_span sp_start sp_end]. exact Hlt. }
          apply Jdp_of_Jd.
          eapply Jd_weaken; [|apply (Jd_bind _ _ qn (fun od lo res hi => match od with
                | Some d => qln (acc ++ [d]) lo res hi
                | None => False end) IHv)].
          { intros lo res hi _ (od & mid & Hqn & Hk & L1 & L2) Hacc.
            destruct od as [d|]; [|contradiction]. cbn [qn] in Hqn. apply Hk. apply Forall_app. split; [exact Hacc|repeat constructor; exact Hqn]. }
          intros od. destruct od as [d|]; [apply IHl|apply Jd_err].
        + apply Jd_after; [apply T_ws|apply mono_qvecn|]. intros o. destruct o as [c|]; [|apply Jd_err].
          destruct (is_closer c).
          { destruct (negb (c =? t)); [apply Jd_err|]. apply Jd_ret. intros lo Hacc. exact Hacc. }
          eapply Jd_weaken; [|apply (Jd_bind _ _ qn (fun od lo res hi => match od with
                | Some d => qvecn (acc ++ [d]) lo res hi
                | None => False end) IHv)].
          { intros lo res hi _ (od & mid & Hqn & Hk & L1 & L2) Hacc.
            destruct od as [d|]; [|contradiction]. cbn [qn] in Hqn. apply Hk. apply Forall_app. split; [exact Hacc|repeat constructor; exact Hqn]. }
          intros od. destruct od as [d|]; [apply IHvec|apply Jd_err].
    Qed.
  End Main.
End Spans.

(* the entry point, with bounds spelled out *)
Definition span_in_bounds (W : bytes) (sp : span) : Prop :=
  sp = span_empty \/
  (in_bounds W (fst (sp_start sp)) (snd (sp_start sp)) /\ in_bounds W (fst (sp_end sp)) (snd (sp_end sp)) /\
   pos_le (sp_start sp) (sp_end sp)).

Theorem datum_from_trait_spans ro alpha fast std_parse k inp d :
  datum_from_trait ro alpha fast std_parse k inp = POk d ->
  all_spans (span_in_bounds (bytes_in inp)) (dinfo d) /\
  real (bytes_in inp) (1, 0) (sp_end (info_span (dinfo d))) (info_span (dinfo d)).
Proof.
  intros E. unfold datum_from_trait in E. set (W := bytes_in inp). set (fuel := fuel_for inp) in *.
  pose proof (proj1 (datums_spans W ro alpha fast std_parse fuel) (init_state k inp) (inv_init W k inp eq_refl)) as H.
  unfold expect_datum in E. rewrite !pbind_unfold in E.
  destruct (next_datum ro alpha fast std_parse fuel (init_state k inp)) as [[o|e] s1]; [|cbn in E; discriminate].
  destruct H as (Hi & L & Hq). destruct o as [d0|].
  - cbn [pret] in E. rewrite pbind_unfold in E.
    destruct (expect_end_p fuel s1) as [[u|e] s2]; cbn [fst pret] in E; [|discriminate]. inversion E; subst d0.
    cbn [qv] in Hq. destruct Hq as [Ha Hr]. split.
    + eapply all_spans_impl; [|exact Ha]. intros sp [->|(A & B & C & D & F)]; [left; reflexivity|right].
      split; [apply prefix_pos_in_bounds; exact A|]. split; [apply prefix_pos_in_bounds; exact B|exact D].
    + destruct Hr as (A & B & C & D & F). repeat split; auto. apply pos_le_refl.
  - unfold liftR, peek_error in E. destruct (r_peek_position (rd s1)). cbn in E. discriminate.
Qed.

(* nesting and sibling order at the entry point *)
Theorem datum_from_trait_tight ro alpha fast std_parse k inp d :
  datum_from_trait ro alpha fast std_parse k inp = POk d -> tight (dinfo d).
Proof.
  intros E. unfold datum_from_trait in E. set (W := bytes_in inp). set (fuel := fuel_for inp) in *.
  pose proof (proj1 (datums_tight W ro alpha fast std_parse fuel) (init_state k inp) (inv_init W k inp eq_refl)) as H.
  unfold expect_datum in E. rewrite !pbind_unfold in E.
  destruct (next_datum ro alpha fast std_parse fuel (init_state k inp)) as [[o|e] s1]; [|cbn in E; discriminate].
  destruct H as (Hi & L & Hq). destruct o as [d0|].
  - cbn [pret] in E. rewrite pbind_unfold in E.
    destruct (expect_end_p fuel s1) as [[u|e] s2]; cbn [fst pret] in E; [|discriminate]. inversion E; subst d0. exact Hq.
  - unfold liftR, peek_error in E. destruct (r_peek_position (rd s1)). cbn in E. discriminate.
Qed.

(* every span handed out is non-empty, at the entry point *)
Theorem datum_from_trait_nonempty ro alpha fast std_parse k inp d :
  datum_from_trait ro alpha fast std_parse k inp = POk d -> nef false (dinfo d).
Proof.
  intros E. unfold datum_from_trait in E. set (W := bytes_in inp). set (fuel := fuel_for inp) in *.
  pose proof (proj1 (datums_nonempty W ro alpha fast std_parse fuel) (init_state k inp) (inv_init W k inp eq_refl)) as H.
  unfold expect_datum in E. rewrite !pbind_unfold in E.
  destruct (next_datum ro alpha fast std_parse fuel (init_state k inp)) as [[o|e] s1]; [|cbn in E; discriminate].
  destruct H as (Hi & L & Hq). destruct o as [d0|].
  - cbn [pret] in E. rewrite pbind_unfold in E.
    destruct (expect_end_p fuel s1) as [[u|e] s2]; cbn [fst pret] in E; [|discriminate]. inversion E; subst d0. exact Hq.
  - unfold liftR, peek_error in E. destruct (r_peek_position (rd s1)). cbn in E. discriminate.
Qed.

(* a call that returns a datum moves the reader position strictly forward *)
Theorem next_datum_progress W ro alpha fast std_parse fuel s : inv W (rd s) ->
  match next_datum ro alpha fast std_parse fuel s with
  | (POk (Some d), s') => inv W (rd s') /\ pos_lt (rpos (rd s)) (rpos (rd s'))
  | (POk None, s') => inv W (rd s')
  | (PErr _, _) => True
  end.
Proof.
  intros Hi.
  pose proof (proj1 (datums_nonempty W ro alpha fast std_parse fuel) s Hi) as Hn.
  pose proof (proj1 (datums_spans W ro alpha fast std_parse fuel) s Hi) as Hs.
  destruct (next_datum ro alpha fast std_parse fuel s) as [[[d|]|e] s1]; try exact I.
  - destruct Hn as (Hi1 & _ & Hne). destruct Hs as (_ & _ & [_ (R1 & R2 & R3 & R4 & R5)]). split; [exact Hi1|].
    cbn [qn] in Hne.
    assert (Hroot : pos_lt (sp_start (info_span (dinfo d))) (sp_end (info_span (dinfo d)))).
    { destruct (dinfo d) as [sp|sp a dd|sp l]; cbn [nef info_span] in *; [exact Hne| |apply Hne].
      destruct Hne as ([H0|H0] & _); [|exact H0]. exfalso. pose proof (fun a sp => prefix_line W a sp _ _ R1) as HH. cbn [info_span] in HH. specialize (HH alpha std_parse). lia. }
    eapply pos_le_lt_trans; [exact R3|]. eapply pos_lt_le_trans; [exact Hroot|exact R5].
  - destruct Hn as (Hi1 & _). exact Hi1.
Qed.
