(* C08: a token is read as a number only if the whole token is a numeric
   literal. Whatever the options, when the token dispatcher hands back a number,
   either (leading-digit symbols enabled, digit-initial token) the whole symbol
   token - scanned to its terminator - was accepted by the literal parser with
   nothing left over, or the literal parser's result was followed by the end
   of the input or a delimiter: text such as 1+ 12ab 1.5.6 never yields the
   number for its numeric prefix. *)
From Coq Require Import SpecFloat Lia ZifyBool ZifyNat ZifyN.
Require Import Base Value Float PrintOptions ParseOptions Utf8 Reader Scan Num NumberOps Parser.

Section NumberToken.
  Variable ro : parse_options.
  Variable alpha : N -> bool.
  Variable fast : bool.
  Variable std_parse : N -> Z -> f64.

  (* what follows the literal: the end of the input, or a delimiter (left in place) *)
  Definition ends (r1 r' : reader) : Prop :=
    peek r1 = (Ok None, r') \/ exists c, peek r1 = (Ok (Some c), r') /\ is_delimiter c = true.
  (* the literal parser accepted text up to r1 and the token ends there *)
  Definition literal_then_end (fuel : nat) (n : number) (r' : reader) : Prop :=
    exists rs r1 radix pos, parse_num_literal fast std_parse fuel radix pos rs = (Ok n, r1) /\ ends r1 r'.
  (* the whole symbol token is a literal *)
  Definition whole_symbol (fuel : nat) (r : reader) (n : number) (r' : reader) : Prop :=
    ro_digit ro = true /\ exists name, parse_symbol fuel r = (Ok name, r') /\ number_of_symbol fast std_parse fuel name = Some n.

  Definition Q (fuel : nat) (r0 : reader) (tok : token) (r' : reader) : Prop :=
    match tok with TNumber n => whole_symbol fuel r0 n r' \/ literal_then_end fuel n r' | _ => True end.
  Definition po {A} (m : M A) (P : A -> reader -> Prop) : Prop := forall r a r', m r = (Ok a, r') -> P a r'.

  Lemma po_ret {A} (a : A) (P : A -> reader -> Prop) : (forall r, P a r) -> po (ret a) P.
  Proof. intros H r a' r' E. inversion E; subst. apply H. Qed.
  Lemma po_bind {A B} (m : M A) (f : A -> M B) P : (forall a, po (f a) P) -> po (bind m f) P.
  Proof. intros H r b r' E. unfold bind in E. destruct (m r) as [[a|e] r1]; [|discriminate]. exact (H a r1 b r' E). Qed.
  Lemma po_err {A} c (P : A -> reader -> Prop) : po (error c) P /\ po (peek_error c) P.
  Proof.
    split; intros r a r' E; [unfold error in E; destruct (r_position r)|unfold peek_error in E; destruct (r_peek_position r)]; discriminate.
  Qed.
  Lemma po_fuel {A} (P : A -> reader -> Prop) : po out_of_fuel P.
  Proof. intros r a r' E. discriminate. Qed.

  Lemma num_token_ends fuel radix pos : po (parse_num_token fast std_parse fuel radix pos) (fun n r' => literal_then_end fuel n r').
  Proof.
    intros r n r' E. unfold parse_num_token, bind in E.
    destruct (parse_num_literal fast std_parse fuel radix pos r) as [[n1|e] r1] eqn:El; [|discriminate].
    destruct (peek r1) as [[[c|]|e] r2] eqn:Ep; try discriminate.
    - destruct (is_delimiter c) eqn:Ed.
      + inversion E; subst. exists r, r1, radix, pos. split; [exact El|]. right. exists c. split; [exact Ep|exact Ed].
      + unfold peek_error in E. destruct (r_peek_position r2). discriminate.
    - inversion E; subst. exists r, r1, radix, pos. split; [exact El|]. left. exact Ep.
  Qed.
  Lemma radix_literal_ends fuel radix : po (parse_radix_literal fast std_parse fuel radix) (fun n r' => literal_then_end fuel n r').
  Proof.
    unfold parse_radix_literal. apply po_bind. intros c.
    destruct (c =? 45); [apply po_bind; intros _; apply num_token_ends|].
    destruct (c =? 43); [apply po_bind; intros _; apply num_token_ends|apply num_token_ends].
  Qed.
  Lemma number_then_tok fuel r0 (m : M number) :
    po m (fun n r' => literal_then_end fuel n r') -> po (n <- m ;; ret (TNumber n)) (Q fuel r0).
  Proof.
    intros H r tok r' E. unfold bind in E. destruct (m r) as [[n|e] r1] eqn:Em; [|discriminate].
    inversion E; subst. cbn [Q]. right. exact (H r n r' Em).
  Qed.

  Lemma symbol_token_not_number name : match symbol_token ro name with TNumber _ => False | _ => True end.
  Proof.
    unfold symbol_token. destruct (ro_kw_postfix ro && (1 <? length name)%nat && ends_with_colon name); [exact I|].
    destruct ((match ro_nil ro with NsDefault => false | _ => true end) && beq_bytes name (s2b "nil")); [destruct (ro_nil ro); exact I|].
    destruct ((match ro_t ro with TsDefault => false | _ => true end) && beq_bytes name (s2b "t")); exact I.
  Qed.
  Lemma po_symbol_tok fuel r0 (m : M bytes) : po (name <- m ;; ret (symbol_token ro name)) (Q fuel r0).
  Proof.
    apply po_bind. intros name. apply po_ret. intros r. pose proof (symbol_token_not_number name) as H.
    unfold Q. destruct (symbol_token ro name); try exact I. contradiction.
  Qed.

  Ltac triv :=
    repeat first
      [ apply po_ret; intros ?; exact I
      | apply po_err
      | apply po_fuel
      | apply po_symbol_tok
      | apply number_then_tok; first [apply radix_literal_ends | apply num_token_ends]
      | apply po_bind; intros ?
      | match goal with
        | |- po (match ?x with _ => _ end) _ => destruct x
        | |- po (if ?x then _ else _) _ => destruct x
        end ].

  Ltac arm E := match type of E with ?m ?r = (Ok ?tok, ?r') => refine ((_ : po m (Q _ _)) r tok r' E) end.

  Theorem number_token_whole fuel b r tok r' :
    parse_token ro alpha fast std_parse fuel b r = (Ok tok, r') -> Q fuel r tok r'.
  Proof.
    intros E. unfold parse_token in E.
    destruct (b =? 35); [arm E; triv|].
    destruct ((b =? 45) || (b =? 43)); [arm E; triv|].
    destruct (is_digit b).
    { destruct (ro_digit ro) eqn:Ed; [|arm E; triv].
      unfold bind in E. destruct (parse_symbol fuel r) as [[name|e] r1] eqn:Es; [|discriminate].
      destruct (number_of_symbol fast std_parse fuel name) as [n|] eqn:En.
      - inversion E; subst. cbn [Q]. left. split; [exact Ed|]. exists name. split; [exact Es|exact En].
      - inversion E; subst. pose proof (symbol_token_not_number name) as H. unfold Q. destruct (symbol_token ro name); try exact I. contradiction. }
    destruct (b =? 34); [arm E; triv|].
    destruct (b =? 40); [arm E; triv|].
    destruct (b =? 91); [arm E; triv|].
    destruct (b =? 58); [arm E; triv|].
    destruct (is_ascii_alpha b); [arm E; triv|].
    destruct ((b =? 63) && _); [arm E; triv|].
    destruct (b =? 39); [arm E; triv|].
    destruct (b =? 96); [arm E; triv|].
    destruct (b =? 44); [arm E; triv|].
    destruct (127 <? b); [arm E; triv|].
    destruct (memb b SYMBOL_EXTENDED); [arm E; triv|].
    unfold peek_error in E. destruct (r_peek_position r). discriminate.
  Qed.
End NumberToken.
