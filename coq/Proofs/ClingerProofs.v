(* C05, the Clinger fast path: with a significand below 2^53 and a power of
   ten up to 10^22 both operands are exact doubles, so the single IEEE
   multiplication or division the parser performs returns the correctly rounded
   value of the literal. Stated against Flocq's real-number semantics. *)
From Coq Require Import ZArith Reals Lia Lra SpecFloat.
From Flocq Require Import Core BinarySingleNaN.
Require Import Base Value Float.

Local Open Scope Z_scope.

(* binary64; Flocq's PrimFloat.v has these equivalences too, but importing it
   would pull the primitive-float axioms of Coq.Floats into the library closure *)
Definition p53 : Z := 53.
Definition e1024 : Z := 1024.
Lemma Hprec : Prec_gt_0 p53.  Proof. reflexivity. Qed.
Lemma Hmax : Prec_lt_emax p53 e1024.  Proof. reflexivity. Qed.
Local Existing Instance Hprec.
Local Existing Instance Hmax.
Local Notation bfloat := (binary_float p53 e1024).
Local Notation fexp64 := (SpecFloat.fexp p53 e1024).
Local Notation rnd64 := (round radix2 fexp64 ZnearestE).

Lemma round_nearest_even_equiv s m l : round_nearest_even m l = choice_mode mode_NE s m l.
Proof.
  case l; [reflexivity|intro c]. case c; [ | reflexivity..].
  now simpl; unfold Round.cond_incr; case Z.even.
Qed.
Lemma binary_round_aux_equiv sx mx ex lx :
  SpecFloat.binary_round_aux p53 e1024 sx mx ex lx = binary_round_aux p53 e1024 mode_NE sx mx ex lx.
Proof.
  unfold SpecFloat.binary_round_aux, binary_round_aux.
  set (mrse' := shr_fexp _ _ _). case mrse'; intros mrs' e'; simpl.
  now rewrite (round_nearest_even_equiv sx).
Qed.
Lemma binary_round_equiv s m e :
  SpecFloat.binary_round p53 e1024 s m e = binary_round p53 e1024 mode_NE s m e.
Proof.
  unfold SpecFloat.binary_round, binary_round, shl_align_fexp.
  set (mez := shl_align _ _ _); case mez as [mz ez]. apply binary_round_aux_equiv.
Qed.
Lemma binary_normalize_equiv m e szero :
  SpecFloat.binary_normalize p53 e1024 m e szero = B2SF (binary_normalize p53 e1024 Hprec Hmax mode_NE m e szero).
Proof.
  case m as [ | p | p].
  - now simpl.
  - simpl; rewrite B2SF_SF2B; apply binary_round_equiv.
  - simpl; rewrite B2SF_SF2B; apply binary_round_equiv.
Qed.

Definition bnorm (z : Z) : bfloat := binary_normalize p53 e1024 Hprec Hmax mode_NE z 0 false.

Lemma f64_of_Z_B z : f64_of_Z z = B2SF (bnorm z).
Proof. unfold f64_of_Z, bnorm. apply binary_normalize_equiv. Qed.

Lemma SFmul_B (x y : bfloat) : SFmul p53 e1024 (B2SF x) (B2SF y) = B2SF (Bmult mode_NE x y).
Proof.
  destruct x as [sx|sx| |sx mx ex Bx]; destruct y as [sy|sy| |sy my ey By]; try reflexivity.
  simpl. rewrite B2SF_SF2B. apply binary_round_aux_equiv.
Qed.

Lemma SFdiv_B (x y : bfloat) : SFdiv p53 e1024 (B2SF x) (B2SF y) = B2SF (Bdiv mode_NE x y).
Proof.
  destruct x as [sx|sx| |sx mx ex Bx]; destruct y as [sy|sy| |sy my ey By]; try reflexivity.
  simpl. rewrite B2SF_SF2B.
  set (melz := SFdiv_core_binary _ _ _ _ _ _). destruct melz as [[mz ez] lz].
  apply binary_round_aux_equiv.
Qed.

Lemma fexp64_FLT e : fexp64 e = FLT_exp (-1074) 53 e.
Proof. reflexivity. Qed.

(* m * 2^e with |m| < 2^53 and e >= 0 small is a double *)
Lemma format_small m e : Z.abs m < 2 ^ 53 -> 0 <= e ->
  generic_format radix2 fexp64 (F2R (Defs.Float radix2 m e)).
Proof.
  intros Hm He. apply generic_format_FLT. exists (Defs.Float radix2 m e); [reflexivity|exact Hm|change (-1074 <= e); lia].
Qed.

Lemma bnorm_exact m e : Z.abs m < 2 ^ 53 -> 0 <= e <= 64 ->
  B2R (bnorm (m * 2 ^ e)) = F2R (Defs.Float radix2 m e) /\ is_finite (bnorm (m * 2 ^ e)) = true.
Proof.
  intros Hm He. unfold bnorm.
  pose proof (binary_normalize_correct p53 e1024 Hprec Hmax mode_NE (m * 2 ^ e) 0 false) as H.
  cbv zeta in H.
  assert (Hx : F2R (Defs.Float radix2 (m * 2 ^ e) 0) = F2R (Defs.Float radix2 m e)).
  { unfold F2R. simpl Fnum. simpl Fexp. rewrite mult_IZR. change 2 with (radix_val radix2) at 1.
    rewrite IZR_Zpower by lia. simpl bpow at 2. ring. }
  rewrite Hx in H.
  assert (Hfmt : generic_format radix2 fexp64 (F2R (Defs.Float radix2 m e))) by (apply format_small; lia).
  change (round_mode mode_NE) with ZnearestE in H.
  rewrite (round_generic radix2 fexp64 ZnearestE _ Hfmt) in H.
  rewrite Rlt_bool_true in H.
  - destruct H as (H1 & H2 & _). auto.
  - rewrite <- F2R_Zabs. unfold F2R. simpl Fnum. simpl Fexp.
    apply Rlt_le_trans with (IZR (2 ^ 53) * bpow radix2 e)%R.
    + apply Rmult_lt_compat_r; [apply bpow_gt_0|]. apply IZR_lt. exact Hm.
    + change (2 ^ 53) with (radix2 ^ 53). rewrite IZR_Zpower by lia. rewrite <- bpow_plus.
      apply bpow_le. unfold e1024. lia.
Qed.

Lemma five_pow_small e : 0 <= e <= 22 -> Z.abs (5 ^ e) < 2 ^ 53.
Proof.
  intros He. rewrite Z.abs_eq by (apply Z.pow_nonneg; lia).
  apply Z.le_lt_trans with (5 ^ 22); [apply Z.pow_le_mono_r; lia|reflexivity].
Qed.

Lemma ten_pow_split e : 0 <= e -> 10 ^ e = 5 ^ e * 2 ^ e.
Proof. intros He. change 10 with (5 * 2). apply Z.pow_mul_l. Qed.

(* 10^e, e <= 22, is a double *)
Lemma pow10_exact e : 0 <= e <= 22 ->
  B2R (bnorm (10 ^ e)) = IZR (10 ^ e) /\ is_finite (bnorm (10 ^ e)) = true.
Proof.
  intros He. rewrite ten_pow_split by lia.
  destruct (bnorm_exact (5 ^ e) e (five_pow_small e He) ltac:(lia)) as [H1 H2].
  split; [|exact H2]. rewrite H1. unfold F2R. simpl Fnum. simpl Fexp.
  rewrite mult_IZR. rewrite <- (IZR_Zpower radix2 e) by lia. reflexivity.
Qed.

Lemma int_exact m : Z.abs m < 2 ^ 53 -> B2R (bnorm m) = IZR m /\ is_finite (bnorm m) = true.
Proof.
  intros Hm. destruct (bnorm_exact m 0 Hm ltac:(lia)) as [H1 H2]. rewrite Z.mul_1_r in H1, H2.
  split; [|exact H2]. rewrite H1. unfold F2R. simpl. ring.
Qed.

Lemma round_bounded (x : R) k : (Rabs x <= bpow radix2 k)%R -> k < 1024 -> -1074 <= k ->
  (Rabs (rnd64 x) < bpow radix2 e1024)%R.
Proof.
  intros Hx Hk Hk'. apply Rle_lt_trans with (bpow radix2 k).
  - apply abs_round_le_generic; [apply FLT_exp_valid; reflexivity|apply valid_rnd_N| |exact Hx].
    apply generic_format_bpow. rewrite fexp64_FLT. unfold FLT_exp. lia.
  - apply bpow_lt. exact Hk.
Qed.

(* significand * 10^e, one multiplication *)
Theorem clinger_mul (sig : N) (e : N) : (Z.of_N sig < 2 ^ 53) -> (Z.of_N e <= 22) ->
  exists b : bfloat,
    f64_mul (f64_of_N sig) (pow10_f64 e) = B2SF b /\ is_finite b = true /\
    B2R b = rnd64 (IZR (Z.of_N sig) * IZR (10 ^ Z.of_N e)).
Proof.
  intros Hs He. unfold f64_mul, f64_of_N, pow10_f64. rewrite !f64_of_Z_B.
  change Value.prec with p53. change Value.emax with e1024. rewrite SFmul_B.
  destruct (int_exact (Z.of_N sig) ltac:(lia)) as [Hx Hfx].
  destruct (pow10_exact (Z.of_N e) ltac:(lia)) as [Hy Hfy].
  pose proof (Bmult_correct p53 e1024 Hprec Hmax mode_NE (bnorm (Z.of_N sig)) (bnorm (10 ^ Z.of_N e))) as H.
  rewrite Hx, Hy in H. change (round_mode mode_NE) with ZnearestE in H.
  rewrite Rlt_bool_true in H.
  - destruct H as (H1 & H2 & _). eexists. split; [reflexivity|]. rewrite H2, Hfx, Hfy. auto.
  - apply (round_bounded _ 127); [|lia|lia].
    rewrite <- mult_IZR, <- abs_IZR. change (bpow radix2 127) with (IZR (2 ^ 127)). apply IZR_le.
    rewrite Z.abs_eq by (apply Z.mul_nonneg_nonneg; [lia|apply Z.pow_nonneg; lia]).
    apply Z.le_trans with (2 ^ 53 * 10 ^ 22); [|vm_compute; discriminate].
    apply Z.mul_le_mono_nonneg; [lia|lia|apply Z.pow_nonneg; lia|apply Z.pow_le_mono_r; lia].
Qed.

(* significand / 10^e, one division *)
Theorem clinger_div (sig : N) (e : N) : (Z.of_N sig < 2 ^ 53) -> (Z.of_N e <= 22) ->
  exists b : bfloat,
    f64_div (f64_of_N sig) (pow10_f64 e) = B2SF b /\ is_finite b = true /\
    B2R b = rnd64 (IZR (Z.of_N sig) / IZR (10 ^ Z.of_N e)).
Proof.
  intros Hs He. unfold f64_div, f64_of_N, pow10_f64. rewrite !f64_of_Z_B.
  change Value.prec with p53. change Value.emax with e1024. rewrite SFdiv_B.
  destruct (int_exact (Z.of_N sig) ltac:(lia)) as [Hx Hfx].
  destruct (pow10_exact (Z.of_N e) ltac:(lia)) as [Hy Hfy].
  assert (Hpos : (1 <= IZR (10 ^ Z.of_N e))%R).
  { apply IZR_le. change 1 with (10 ^ 0). apply Z.pow_le_mono_r; lia. }
  pose proof (Bdiv_correct p53 e1024 Hprec Hmax mode_NE (bnorm (Z.of_N sig)) (bnorm (10 ^ Z.of_N e))) as H.
  rewrite Hx, Hy in H. specialize (H ltac:(lra)). change (round_mode mode_NE) with ZnearestE in H.
  rewrite Rlt_bool_true in H.
  - destruct H as (H1 & H2 & _). eexists. split; [reflexivity|]. rewrite H2, Hfx. auto.
  - apply (round_bounded _ 53); [|lia|lia].
    unfold Rdiv. rewrite Rabs_mult. rewrite (Rabs_pos_eq (/ _)) by (apply Rlt_le, Rinv_0_lt_compat; lra).
    apply Rle_trans with (Rabs (IZR (Z.of_N sig)) * 1)%R.
    + apply Rmult_le_compat_l; [apply Rabs_pos|]. rewrite <- Rinv_1. apply Rinv_le; lra.
    + rewrite Rmult_1_r, <- abs_IZR. change (bpow radix2 53) with (IZR (2 ^ 53)). apply IZR_le. lia.
Qed.

(* ---- the parser's f64_from_parts on the fast path ---- *)
Require Import Reader Num.

Lemma finite_not_infinite (b : bfloat) : is_finite b = true -> is_infinite_f64 (B2SF b) = false.
Proof. destruct b; try discriminate; reflexivity. Qed.

(* the value of significand * 10^exponent as a real *)
Definition dec_value (sig : N) (e : Z) : R :=
  if (0 <=? e)%Z then (IZR (Z.of_N sig) * IZR (10 ^ e))%R else (IZR (Z.of_N sig) / IZR (10 ^ (- e)))%R.

Theorem from_parts_fast std_parse pos sig e r : Z.of_N sig < 2 ^ 53 -> Z.abs e <= 22 ->
  exists b : bfloat,
    f64_from_parts true std_parse pos sig e r = (Ok (if pos then B2SF b else f64_neg (B2SF b)), r) /\
    is_finite b = true /\ B2R b = rnd64 (dec_value sig e).
Proof.
  intros Hs He. unfold f64_from_parts, dec_value. cbn [f64_from_parts_fast_loop].
  replace (Z.abs e <=? 308) with true by lia.
  destruct (0 <=? e) eqn:E0.
  - destruct (clinger_mul sig (Z.to_N e) Hs ltac:(lia)) as (b & Eb & Hf & Hv).
    rewrite Z2N.id in Hv by lia. exists b. rewrite Eb, (finite_not_infinite b Hf).
    unfold bind, ret. auto.
  - destruct (clinger_div sig (Z.to_N (- e)) Hs ltac:(lia)) as (b & Eb & Hf & Hv).
    rewrite Z2N.id in Hv by lia. exists b. rewrite Eb. unfold bind, ret. auto.
Qed.
