(* Decimal integer tokens read back as the integer they print. *)
From Coq Require Import SpecFloat ZifyBool ZifyNat ZifyN.
Require Import Base Value Float PrintOptions ParseOptions Utf8 Reader Scan Num NumberOps Parser.
Require Import Printer ReaderProofs ScanProofs TokenProofs.
Ltac Zify.zify_post_hook ::= Z.div_mod_to_equations.

(* value of a digit string continuing an accumulator *)
Definition dfold (acc : N) (ds : bytes) : N := fold_left (fun a c => a * 10 + (c - 48)) ds acc.
Definition all_digits (ds : bytes) : Prop := Forall (fun c => is_digit c = true) ds.

Lemma dfold_app acc a b : dfold acc (a ++ b) = dfold (dfold acc a) b.
Proof. unfold dfold. apply fold_left_app. Qed.

Lemma dfold_ge ds : forall acc, acc <= dfold acc ds.
Proof.
  induction ds as [|d ds IH]; intros acc; cbn [dfold fold_left]; [lia|].
  specialize (IH (acc * 10 + (d - 48))). unfold dfold in IH. lia.
Qed.

Lemma pos_size_nat_N p : N.of_nat (Pos.size_nat p) = Npos (Pos.size p).
Proof. induction p as [p IH|p IH|]; cbn [Pos.size_nat Pos.size]; try rewrite Nat2N.inj_succ, IH; try reflexivity; lia. Qed.

Lemma size_nat_bound n : n < 2 ^ N.of_nat (N.size_nat n).
Proof.
  destruct n as [|p]; [reflexivity|]. cbn [N.size_nat]. rewrite pos_size_nat_N.
  apply (N.size_gt (Npos p)).
Qed.

Lemma dec_digits_spec fuel : forall n acc, n < 2 ^ N.of_nat fuel ->
  exists ds, dec_digits_fuel (S fuel) n acc = ds ++ acc /\ ds <> [] /\ all_digits ds /\ dfold 0 ds = n /\
             (forall d ds', ds = d :: ds' -> ds' <> [] -> d <> 48).
Proof.
  induction fuel as [|f IH]; intros n acc Hn.
  - assert (n = 0) by (change (2 ^ N.of_nat 0) with 1 in Hn; lia). subst n. exists [48]. cbn. repeat split; try discriminate.
    + repeat constructor.
    + intros d ds' E Hne. inversion E; subst. contradiction.
  - cbn [dec_digits_fuel]. destruct (n <? 10) eqn:E10.
    + exists [48 + n mod 10]. repeat split; try discriminate.
      * constructor; [|constructor]. unfold is_digit, in_range. lia.
      * unfold dfold; cbn [fold_left]; lia.
      * intros d ds' E Hne. inversion E; subst. contradiction.
    + assert (Hq : n / 10 < 2 ^ N.of_nat f).
      { rewrite Nat2N.inj_succ, N.pow_succ_r' in Hn. lia. }
      destruct (IH (n / 10) ((48 + n mod 10) :: acc) Hq) as (ds & E & Hne & Hd & Hv & Hlz).
      exists (ds ++ [48 + n mod 10]). rewrite <- app_assoc. cbn [app]. repeat split.
      * exact E.
      * destruct ds; discriminate.
      * apply Forall_app. split; [exact Hd|]. constructor; [|constructor]. unfold is_digit, in_range. lia.
      * rewrite dfold_app, Hv. unfold dfold; cbn [fold_left]. lia.
      * intros d ds' E' Hne' Hd48. subst d. destruct ds as [|d0 ds0]; [contradiction|]. cbn [app] in E'. assert (E1 : d0 = 48) by congruence. subst d0.
        destruct ds0 as [|d1 ds1].
        -- unfold dfold in Hv; cbn [fold_left] in Hv. lia.
        -- apply (Hlz 48 (d1 :: ds1) eq_refl); [discriminate|reflexivity].
Qed.

Lemma dec_of_N_spec n :
  exists ds, dec_of_N n = ds /\ ds <> [] /\ all_digits ds /\ dfold 0 ds = n /\
             (forall d ds', ds = d :: ds' -> ds' <> [] -> d <> 48).
Proof.
  unfold dec_of_N. destruct (dec_digits_spec (N.size_nat n) n [] (size_nat_bound n)) as (ds & E & H).
  exists ds. rewrite E, app_nil_r. auto.
Qed.

Lemma overflow_N_false a b c : a * 10 + b <= c -> overflow_N a 10 b c = false.
Proof. unfold overflow_N. intros H. lia. Qed.

Lemma digit_val_digit letters c : is_digit c = true -> digit_val letters c = Some (c - 48).
Proof. unfold is_digit, digit_val. intros ->. reflexivity. Qed.

Lemma digit_val_delim c : c = 0 \/ delim_ok [c] -> digit_val false c = None.
Proof. intros [->|H]; [reflexivity|]. delim_cases H; reflexivity. Qed.

Section NumLit.
  Variable fast : bool.
  Variable std_parse : N -> Z -> f64.

  Definition int_result (pos : bool) (n : N) : number :=
    if pos then PosInt n
    else if 9223372036854775808 <? n then Float (f64_neg (f64_of_N n))
    else num_from_signed (- Z.of_N n).

  (* the tail of an integer that stops at end of input, a space or ')' *)
  Lemma num_tail_delim fuel r pos n rest : delim_ok rest -> at_bytes r rest ->
    exists r', parse_num_tail fast std_parse fuel 10 pos n r = (Ok (int_result pos n), r') /\
               at_bytes r' rest /\ rk r' = rk r.
  Proof.
    intros Hd Ha. unfold parse_num_tail. destruct rest as [|d rest].
    - step. change (0 =? 46) with false. change ((0 =? 101) || (0 =? 69)) with false. cbv iota.
      exists r0. unfold int_result, ret. destruct pos; [|destruct (9223372036854775808 <? n)]; repeat split; auto.
    - step. assert (E1 : (d =? 46) = false) by (delim_cases Hd; reflexivity).
      assert (E2 : ((d =? 101) || (d =? 69)) = false) by (delim_cases Hd; reflexivity). rewrite E1, E2.
      exists r0. unfold int_result, ret. destruct pos; [|destruct (9223372036854775808 <? n)]; repeat split; auto.
  Qed.

  Lemma num_loop_digits ds : forall fuel r pos res rest, (length ds < fuel)%nat -> all_digits ds -> delim_ok rest ->
    dfold res ds <= u64_MAX -> at_bytes r (ds ++ rest) ->
    exists r', num_literal_loop fast std_parse fuel 10 pos res r = (Ok (int_result pos (dfold res ds)), r') /\
               at_bytes r' rest /\ rk r' = rk r.
  Proof.
    induction ds as [|d ds IH]; intros fuel r pos res rest Hf Hd Hr Hmax Ha;
      (destruct fuel as [|f]; [cbn in Hf; lia|]); cbn [num_literal_loop]; change (10 <? 10) with false; cbn [app] in Ha.
    - assert (Hdv : digit_val false (match rest with [] => 0 | b :: _ => b end) = None).
      { apply digit_val_delim. destruct rest as [|b rest]; [auto|]. right; exact Hr. }
      destruct rest as [|b rest].
      + step. rewrite Hdv. destruct (num_tail_delim f r0 pos res [] Hr Ha0) as (r1 & E & Ha1 & Hk1).
        exists r1. cbn [dfold fold_left]. repeat split; auto; congruence.
      + step. rewrite Hdv. destruct (num_tail_delim f r0 pos res (b :: rest) Hr Ha0) as (r1 & E & Ha1 & Hk1).
        exists r1. cbn [dfold fold_left]. repeat split; auto; congruence.
    - inversion Hd as [|? ? Hdig Hd']; subst. step. rewrite (digit_val_digit false d Hdig).
      assert (E10 : (10 <=? d - 48) = false) by (unfold is_digit, in_range in Hdig; lia). rewrite E10.
      step. change (dfold res (d :: ds)) with (dfold (res * 10 + (d - 48)) ds) in *.
      pose proof (dfold_ge ds (res * 10 + (d - 48))) as Hge.
      rewrite overflow_N_false by lia.
      destruct (IH f r1 pos (res * 10 + (d - 48)) rest ltac:(cbn in Hf; lia) Hd' Hr Hmax Ha1) as (r2 & E & Ha2 & Hk2).
      exists r2. repeat split; auto; congruence.
  Qed.

  Lemma num_token_digits fuel r pos d ds rest : (length (d :: ds) < fuel)%nat -> all_digits (d :: ds) -> delim_ok rest ->
    dfold 0 (d :: ds) <= u64_MAX -> at_bytes r ((d :: ds) ++ rest) ->
    exists r', parse_num_token fast std_parse fuel 10 pos r = (Ok (int_result pos (dfold 0 (d :: ds))), r') /\
               at_bytes r' rest /\ rk r' = rk r.
  Proof.
    intros Hf Hd Hr Hmax Ha. unfold parse_num_token, parse_num_literal. cbn [app] in Ha.
    inversion Hd as [|? ? Hdig Hd']; subst.
    change (dfold 0 (d :: ds)) with (dfold (d - 48) ds) in *.
    assert (exists r1, (o <- next_char;;
      match o with
      | Some c => match digit_val true c with
          | Some first_digit => if 10 <=? first_digit then peek_error InvalidNumber
                                else num_literal_loop fast std_parse fuel 10 pos first_digit
          | None => peek_error InvalidNumber end
      | None => peek_error EofWhileParsingValue end) r = (Ok (int_result pos (dfold (d - 48) ds)), r1) /\
      at_bytes r1 rest /\ rk r1 = rk r) as (r1 & E1 & Ha1 & Hk1).
    { step. rewrite (digit_val_digit true d Hdig).
      assert (E10 : (10 <=? d - 48) = false) by (unfold is_digit, in_range in Hdig; lia). rewrite E10.
      destruct (num_loop_digits ds fuel r0 pos (d - 48) rest ltac:(cbn in Hf; lia) Hd' Hr Hmax Ha0) as (r1 & E & Ha1 & Hk1).
      exists r1. repeat split; auto; congruence. }
    rewrite (bind_ok _ _ _ _ _ E1).
    destruct rest as [|b rest].
    - step. exists r0. unfold ret. repeat split; auto; congruence.
    - step. assert (Ed : is_delimiter b = true) by (delim_cases Hr; reflexivity). rewrite Ed.
      exists r0. unfold ret. repeat split; auto; congruence.
  Qed.

End NumLit.

Section NumTokens.
  Variable alpha : N -> bool.
  Variable fast : bool.
  Variable std_parse : N -> Z -> f64.
  Local Notation ro := default_ro.
  Local Notation parse_token := (parse_token ro alpha fast std_parse).

  Lemma token_digit fuel c : is_digit c = true ->
    parse_token fuel c = (n <- parse_num_token fast std_parse fuel 10 true ;; ret (TNumber n)).
  Proof.
    intros H. unfold Parser.parse_token. pose proof H as H'. unfold is_digit, in_range in H'.
    replace (c =? 35) with false by lia. replace ((c =? 45) || (c =? 43)) with false by lia.
    rewrite H. reflexivity.
  Qed.

  Theorem tok_posint fuel r n rest : n <= u64_MAX -> (length (dec_of_N n) < fuel)%nat -> delim_ok rest ->
    at_bytes r (dec_of_N n ++ rest) ->
    exists c r', hd_error (dec_of_N n ++ rest) = Some c /\
      parse_token fuel c r = (Ok (TNumber (PosInt n)), r') /\ at_bytes r' rest /\ rk r' = rk r.
  Proof.
    intros Hn Hf Hr Ha. destruct (dec_of_N_spec n) as (ds & E & Hne & Hd & Hv & _). rewrite E in *.
    destruct ds as [|d ds]; [contradiction|]. exists d.
    pose proof (Forall_inv Hd) as Hdig. cbv beta in Hdig.
    destruct (num_token_digits fast std_parse fuel r true d ds rest Hf Hd Hr ltac:(rewrite Hv; exact Hn) Ha) as (r1 & E1 & Ha1 & Hk1).
    exists r1. split; [reflexivity|]. rewrite (token_digit fuel d Hdig), (bind_ok _ _ _ _ _ E1), Hv.
    unfold ret, int_result. auto.
  Qed.

  Theorem tok_negint fuel r i rest : (i64_min <= i < 0)%Z -> (S (length (dec_of_N (Z.to_N (- i)))) < fuel)%nat -> delim_ok rest ->
    at_bytes r (dec_of_Z i ++ rest) -> peeked r ->
    exists r', parse_token fuel 45 r = (Ok (TNumber (NegInt i)), r') /\ at_bytes r' rest /\ rk r' = rk r.
  Proof.
    intros Hi Hf Hr Ha Hp. destruct i as [|p|p]; try lia. cbn [dec_of_Z] in Ha.
    change (Z.to_N (- Z.neg p)) with (Npos p) in Hf.
    destruct (dec_of_N_spec (Npos p)) as (ds & E & Hne & Hd & Hv & Hlz). rewrite E in *.
    destruct ds as [|d ds]; [contradiction|]. pose proof (Forall_inv Hd) as Hdig. cbv beta in Hdig.
    rewrite (token_sign alpha fast std_parse fuel 45 (or_intror eq_refl)). unfold sign_arm. cbn [app] in Ha.
    step. step.
    assert (Hc : ((d =? 0) || is_delimiter d || is_sign_subsequent d || (d =? 46) || (127 <? d)) = false).
    { unfold is_digit, in_range in Hdig.
      destruct (N.eq_dec d 48) as [->|]; [reflexivity|]. destruct (N.eq_dec d 49) as [->|]; [reflexivity|].
      destruct (N.eq_dec d 50) as [->|]; [reflexivity|]. destruct (N.eq_dec d 51) as [->|]; [reflexivity|].
      destruct (N.eq_dec d 52) as [->|]; [reflexivity|]. destruct (N.eq_dec d 53) as [->|]; [reflexivity|].
      destruct (N.eq_dec d 54) as [->|]; [reflexivity|]. destruct (N.eq_dec d 55) as [->|]; [reflexivity|].
      destruct (N.eq_dec d 56) as [->|]; [reflexivity|]. destruct (N.eq_dec d 57) as [->|]; [reflexivity|]. lia. }
    rewrite Hc. change (45 =? 43) with false.
    assert (Hmax : dfold 0 (d :: ds) <= u64_MAX) by (rewrite Hv; unfold i64_min, u64_MAX in *; lia).
    destruct (num_token_digits fast std_parse (fuel) r1 false d ds rest ltac:(cbn in *; lia) Hd Hr Hmax Ha1) as (r2 & E2 & Ha2 & Hk2).
    rewrite (bind_ok _ _ _ _ _ E2). exists r2. unfold ret. rewrite Hv. unfold int_result.
    assert (E63 : (9223372036854775808 <? N.pos p) = false) by (unfold i64_min in Hi; lia). rewrite E63.
    repeat split; auto; congruence.
  Qed.

  (* any decimal digit string, leading zeros included *)
  Theorem tok_digits fuel r d ds rest : all_digits (d :: ds) -> dfold 0 (d :: ds) <= u64_MAX ->
    (length (d :: ds) < fuel)%nat -> delim_ok rest -> at_bytes r ((d :: ds) ++ rest) ->
    exists r', parse_token fuel d r = (Ok (TNumber (PosInt (dfold 0 (d :: ds)))), r') /\ at_bytes r' rest /\ rk r' = rk r.
  Proof.
    intros Hd Hmax Hf Hr Ha. pose proof (Forall_inv Hd) as Hdig. cbv beta in Hdig.
    destruct (num_token_digits fast std_parse fuel r true d ds rest Hf Hd Hr Hmax Ha) as (r1 & E1 & Ha1 & Hk1).
    exists r1. rewrite (token_digit fuel d Hdig), (bind_ok _ _ _ _ _ E1). unfold ret, int_result. auto.
  Qed.

  Lemma digit_not_symbolish d : is_digit d = true ->
    ((d =? 0) || is_delimiter d || is_sign_subsequent d || (d =? 46) || (127 <? d)) = false.
  Proof.
    intros Hdig. unfold is_digit, in_range in Hdig.
    destruct (N.eq_dec d 48) as [->|]; [reflexivity|]. destruct (N.eq_dec d 49) as [->|]; [reflexivity|].
    destruct (N.eq_dec d 50) as [->|]; [reflexivity|]. destruct (N.eq_dec d 51) as [->|]; [reflexivity|].
    destruct (N.eq_dec d 52) as [->|]; [reflexivity|]. destruct (N.eq_dec d 53) as [->|]; [reflexivity|].
    destruct (N.eq_dec d 54) as [->|]; [reflexivity|]. destruct (N.eq_dec d 55) as [->|]; [reflexivity|].
    destruct (N.eq_dec d 56) as [->|]; [reflexivity|]. destruct (N.eq_dec d 57) as [->|]; [reflexivity|]. lia.
  Qed.

  (* a sign, then digits: +n is n; -n is the integer -n down to -2^63 *)
  Theorem tok_signed_digits fuel r sg d ds rest : sg = 43 \/ sg = 45 ->
    all_digits (d :: ds) -> dfold 0 (d :: ds) <= u64_MAX ->
    (S (length (d :: ds)) < fuel)%nat -> delim_ok rest -> at_bytes r (sg :: (d :: ds) ++ rest) -> peeked r ->
    exists r', parse_token fuel sg r = (Ok (TNumber (int_result (sg =? 43) (dfold 0 (d :: ds)))), r') /\
               at_bytes r' rest /\ rk r' = rk r.
  Proof.
    intros Hsg Hd Hmax Hf Hr Ha Hp. pose proof (Forall_inv Hd) as Hdig. cbv beta in Hdig.
    rewrite (token_sign alpha fast std_parse fuel sg Hsg). unfold sign_arm. cbn [app] in Ha.
    step. step. rewrite (digit_not_symbolish d Hdig).
    destruct (num_token_digits fast std_parse fuel r1 (sg =? 43) d ds rest ltac:(cbn in *; lia) Hd Hr Hmax Ha1)
      as (r2 & E2 & Ha2 & Hk2).
    rewrite (bind_ok _ _ _ _ _ E2). exists r2. unfold ret. repeat split; auto; congruence.
  Qed.


End NumTokens.

Lemma int_result_neg n : n <= 9223372036854775808 -> int_result false n = num_from_signed (- Z.of_N n).
Proof. intros H. unfold int_result. replace (9223372036854775808 <? n) with false by lia. reflexivity. Qed.

