(* C08, the whole-input frame: two option sets that differ only in options the
   input does not exercise read the whole input identically. "Does not
   exercise" is a condition on the bytes of the input (a sound
   over-approximation): an option whose tokens begin with a given byte is not
   exercised when that byte does not occur ('#' for octothorpe keywords and
   Racket symbols, a digit for leading-digit symbols, the double quote for the string
   syntax, '[' for brackets, ':' for both colon keyword spellings, '?' for the
   character syntax), and the nil / t treatments are not exercised when the
   input has no 'n' / no 't'. The invariant is that the bytes still to be read
   all occur in the whole input W, and that a scanned symbol consists of bytes
   of W (plus the prefix it was started with). *)
From Coq Require Import SpecFloat Lia ZifyBool ZifyNat ZifyN.
Require Import Base Value Float PrintOptions ParseOptions Utf8 Reader Scan Num NumberOps Parser.
Require Import RelFramework SpanProofs FuelProofs CrossProofs FuelMono.

Section Frame.
  Variable W : bytes.
  Definition sub (r : reader) : Prop := forall b, In (EByte b) (rinput r) -> In b W.

  (* ---- the remaining bytes stay inside W: instance of the generic traversal ---- *)
  Definition Rsub (r : reader) (x : option perr) (r' : reader) : Prop := sub r -> sub r'.
  Lemma Rsub_ret r : Rsub r None r.  Proof. intros H; exact H. Qed.
  Lemma Rsub_seq r r1 x r2 : Rsub r None r1 -> Rsub r1 x r2 -> Rsub r x r2.
  Proof. unfold Rsub. auto. Qed.
  Lemma Rsub_fuel r : Rsub r (Some EFuel) r.  Proof. intros H; exact H. Qed.
  Lemma Rsub_rec1 r e r1 x r2 : Rsub r (Some e) r1 -> Rsub r1 x r2 -> Rsub r (Some e) r2.
  Proof. unfold Rsub. auto. Qed.
  Lemma Rsub_rec2 r e r1 e' r2 : Rsub r (Some e) r1 -> Rsub r1 (Some e') r2 -> Rsub r (Some e') r2.
  Proof. unfold Rsub. auto. Qed.

  Definition incl_in (l' l : list event) : Prop := forall e, In e l' -> In e l.
  Lemma sub_incl r r' : incl_in (rinput r') (rinput r) -> sub r -> sub r'.
  Proof. intros Hi Hs b Hb. apply Hs. apply Hi. exact Hb. Qed.
  Lemma skip_intr_incl l : incl_in (skip_intr l) l.
  Proof. induction l as [|[b| |e] l IH]; cbn [skip_intr]; intros x Hx; try exact Hx. right. apply IH. exact Hx. Qed.
  Lemma tl_incl e l : incl_in l (e :: l).
  Proof. intros x Hx. right. exact Hx. Qed.
  Lemma incl_trans' a b c : incl_in a b -> incl_in b c -> incl_in a c.
  Proof. unfold incl_in. auto. Qed.
  Lemma consume_input' r b l : rinput (consume r b l) = l.
  Proof. unfold consume. destruct (advance _ _ _). reflexivity. Qed.

  Lemma sub_peek : sat Rsub peek.
  Proof.
    intros r. unfold peek, r_peek, R, Rsub. destruct (rpending r).
    - destruct (rinput r) as [|[b| |e] l]; cbn [fst snd erase]; auto.
    - pose proof (skip_intr_incl (rinput r)) as Hi.
      destruct (skip_intr (rinput r)) as [|[b| |e] l] eqn:E; cbn [fst snd erase]; intros Hs; try exact Hs.
      + intros b Hb. destruct Hb.
      + apply (sub_incl r); [cbn [rinput]; exact Hi|exact Hs].
      + apply (sub_incl r); [cbn [rinput]; eapply incl_trans'; [apply tl_incl|exact Hi]|exact Hs].
  Qed.
  Lemma sub_next : sat Rsub next_char.
  Proof.
    intros r. unfold next_char, r_next, R, Rsub.
    assert (Hi : incl_in (if rpending r then rinput r else skip_intr (rinput r)) (rinput r)).
    { destruct (rpending r); [intros x Hx; exact Hx|apply skip_intr_incl]. }
    destruct (if rpending r then rinput r else skip_intr (rinput r)) as [|[b| |e] l]; cbn [fst snd erase]; intros Hs; try exact Hs.
    - intros b Hb. destruct Hb.
    - apply (sub_incl r); [rewrite consume_input'; eapply incl_trans'; [apply tl_incl|exact Hi]|exact Hs].
    - apply (sub_incl r); [cbn [rinput]; eapply incl_trans'; [apply tl_incl|exact Hi]|exact Hs].
  Qed.
  Lemma discard_sub r : sub r -> sub (r_discard r).
  Proof.
    intros Hs. unfold r_discard. destruct (rk r); try destruct (rpending r); try exact Hs;
      destruct (rinput r) as [|[b| |e] l] eqn:E; try exact Hs;
      (apply (sub_incl r); [rewrite consume_input', E; apply tl_incl|exact Hs]).
  Qed.
  Lemma sub_eat : sat Rsub eat_char.
  Proof. intros r. unfold eat_char, R, Rsub. cbn [fst snd]. apply discard_sub. Qed.
  Lemma sub_error A c : sat Rsub (@error A c).
  Proof. intros r. unfold error, R, Rsub. destruct (r_position r). cbn [fst snd]. auto. Qed.
  Lemma sub_peek_error A c : sat Rsub (@peek_error A c).
  Proof. intros r. unfold peek_error, R, Rsub. destruct (r_peek_position r). cbn [fst snd]. auto. Qed.
  Lemma sub_error_consume A c : sat Rsub (@error_consume A c).
  Proof. intros r. unfold error_consume, peek_error, R, Rsub. destruct (r_peek_position r). cbn [fst snd]. apply discard_sub. Qed.
  Lemma span_plain_incl l : forall acc, incl_in (snd (span_plain l acc)) l.
  Proof.
    induction l as [|[b| |e] l IH]; intros acc; cbn [span_plain snd]; try (intros x Hx; exact Hx).
    destruct ((b =? 92) || (b =? 34)); cbn [snd]; [intros x Hx; exact Hx|]. eapply incl_trans'; [apply IH|apply tl_incl].
  Qed.
  Lemma span_symbol_incl l : forall acc, incl_in (snd (span_symbol l acc)) l.
  Proof.
    induction l as [|[b| |e] l IH]; intros acc; cbn [span_symbol snd]; try (intros x Hx; exact Hx).
    destruct (is_symbol_terminator b); cbn [snd]; [intros x Hx; exact Hx|]. eapply incl_trans'; [apply IH|apply tl_incl].
  Qed.
  Lemma advance_over_input r bs rest : rinput (advance_over r bs rest) = rest.
  Proof. unfold advance_over. destruct (fold_left _ bs _). reflexivity. Qed.
  Lemma sub_take_run : sat Rsub take_run.
  Proof.
    intros r. unfold take_run, R, Rsub. pose proof (span_plain_incl (rinput r) []) as Hi.
    destruct (span_plain (rinput r) []) as [run rest]. cbn [snd] in Hi.
    destruct rest as [|[b| |e] rest']; cbn [fst snd]; intros Hs.
    - apply (sub_incl r); [rewrite advance_over_input; exact Hi|exact Hs].
    - apply (sub_incl r); [rewrite consume_input'; eapply incl_trans'; [apply tl_incl|exact Hi]|exact Hs].
    - apply (sub_incl r); [rewrite advance_over_input; exact Hi|exact Hs].
    - apply (sub_incl r); [rewrite advance_over_input; exact Hi|exact Hs].
  Qed.
  Lemma sub_take_symbol : sat Rsub take_symbol_run.
  Proof.
    intros r. unfold take_symbol_run, R, Rsub. pose proof (span_symbol_incl (rinput r) []) as Hi.
    destruct (span_symbol (rinput r) []) as [run rest]. cbn [fst snd] in *. intros Hs.
    apply (sub_incl r); [rewrite advance_over_input; exact Hi|exact Hs].
  Qed.

  (* ---- a scanned symbol is made of its prefix and of bytes of W ---- *)
  Definition from_w (scratch name : bytes) : Prop := forall b, In b name -> In b scratch \/ In b W.
  Lemma scan_io_from_w fuel : forall scratch r, sub r ->
    match scan_symbol_io fuel scratch r with (Ok name, _) => from_w scratch name | _ => True end.
  Proof.
    induction fuel as [|f IH]; intros scratch r Hs; [exact I|]. cbn [scan_symbol_io]. unfold bind at 1.
    pose proof (sub_peek r Hs) as Hs1. unfold R, Rsub, peek in *.
    pose proof (FuelProofs.peek_cases r) as Hc. destruct (r_peek r) as [[[ch|]|e] r1]; cbn [fst snd] in *; [| |exact I].
    - destruct Hc as [[Hp [l Hl]] _]. destruct (is_symbol_terminator ch).
      + destruct (beq_bytes scratch [46]); [unfold error; destruct (r_position r1); exact I|]. unfold ret. intros b Hb. left. exact Hb.
      + unfold bind, eat_char. cbn [fst snd]. specialize (IH (scratch ++ [ch]) (r_discard r1) (discard_sub r1 Hs1)).
        destruct (scan_symbol_io f (scratch ++ [ch]) (r_discard r1)) as [[name|e] r2]; [|exact I].
        intros b Hb. destruct (IH b Hb) as [H|H]; [|right; exact H].
        apply in_app_or in H. destruct H as [H|H]; [left; exact H|]. right. destruct H as [<-|[]]. apply Hs1. rewrite Hl. left. reflexivity.
    - destruct (is_truncated_symbol scratch); [unfold error; destruct (r_position r1); exact I|].
      destruct (beq_bytes scratch [46]); [unfold error; destruct (r_position r1); exact I|]. unfold ret. intros b Hb. left. exact Hb.
  Qed.
  Lemma span_symbol_from l : forall acc b, In b (fst (span_symbol l acc)) -> In b acc \/ In (EByte b) l.
  Proof.
    induction l as [|[c| |e] l IH]; intros acc b; cbn [span_symbol fst]; try (intros H; left; exact H).
    destruct (is_symbol_terminator c); cbn [fst]; [intros H; left; exact H|].
    intros H. destruct (IH _ _ H) as [H1|H1]; [|right; right; exact H1].
    apply in_app_or in H1. destruct H1 as [H1|[<-|[]]]; [left; exact H1|right; left; reflexivity].
  Qed.
  Lemma scan_slice_from_w scratch r : sub r ->
    match scan_symbol_slice scratch r with (Ok name, _) => from_w scratch name | _ => True end.
  Proof.
    intros Hs. unfold scan_symbol_slice. pose proof (span_symbol_from (rinput r) []) as Hf.
    destruct (span_symbol (rinput r) []) as [scanned rest]. cbn [fst] in Hf. cbv zeta.
    destruct (_ && _); [unfold error; destruct (r_position _); exact I|].
    destruct (beq_bytes _ _); [unfold error; destruct (r_position _); exact I|]. unfold ret.
    intros b Hb. apply in_app_or in Hb. destruct Hb as [Hb|Hb]; [left; exact Hb|]. destruct (Hf b Hb) as [[]|H]. right. apply Hs. exact H.
  Qed.
  Lemma symbol_rd_from_w fuel scratch r : sub r ->
    match parse_symbol_rd fuel scratch r with (Ok name, _) => from_w scratch name | _ => True end.
  Proof.
    intros Hs. unfold parse_symbol_rd. destruct (rk r); unfold bind.
    - pose proof (scan_slice_from_w scratch r Hs) as H. destruct (scan_symbol_slice scratch r) as [[x|e] r1]; [|exact I].
      pose proof (FuelMono.finish_str_same x r1) as Hf. destruct (finish_str x r1) as [[y|e] r2]; [|exact I]. destruct (Hf y r2 eq_refl) as [-> _]. exact H.
    - pose proof (scan_slice_from_w scratch r Hs) as H. destruct (scan_symbol_slice scratch r) as [[x|e] r1]; [|exact I].
      pose proof (FuelMono.finish_str_same x r1) as Hf. destruct (finish_str x r1) as [[y|e] r2]; [|exact I]. destruct (Hf y r2 eq_refl) as [-> _]. exact H.
    - pose proof (scan_io_from_w fuel scratch r Hs) as H. destruct (scan_symbol_io fuel scratch r) as [[x|e] r1]; [|exact I].
      pose proof (FuelMono.as_str_same x r1) as Hf. destruct (Scan.as_str x r1) as [[y|e] r2]; [|exact I]. destruct (Hf y r2 eq_refl) as [-> _]. exact H.
  Qed.
  Ltac sub_prims :=
    first [ exact Rsub_ret | exact Rsub_seq | exact Rsub_fuel | exact sub_peek | exact sub_next | exact sub_eat
          | exact sub_error | exact sub_peek_error | exact sub_error_consume | exact sub_take_run | exact sub_take_symbol
          | exact Rsub_rec1 | exact Rsub_rec2 ].

  Variable alpha : N -> bool.
  Variable fast : bool.
  Variable std_parse : N -> Z -> f64.

  Lemma sat_sub {A} (m : M A) r : sat Rsub m -> sub r -> sub (snd (m r)).
  Proof. intros H. apply (H r). Qed.
  Lemma subm_ws fuel : sat Rsub (parse_whitespace fuel).
  Proof. apply sat_parse_whitespace; sub_prims. Qed.
  Lemma subm_token ro fuel b : sat Rsub (parse_token ro alpha fast std_parse fuel b).
  Proof. apply sat_parse_token; sub_prims. Qed.
  Lemma subm_end_seq fuel close : sat Rsub (end_seq fuel close).
  Proof. apply sat_end_seq; sub_prims. Qed.
  Lemma subm_byte_list fuel close : sat Rsub (parse_byte_list fast std_parse fuel close).
  Proof. apply sat_parse_byte_list; sub_prims. Qed.
  Lemma subm_symbol_suffix fuel p : sat Rsub (parse_symbol_suffix fuel p).
  Proof. apply sat_parse_symbol_suffix; sub_prims. Qed.
  Lemma subm_peek_or_null : sat Rsub peek_or_null.
  Proof. apply sat_peek_or_null; sub_prims. Qed.
  Lemma subm_decode c : sat Rsub (decode_utf8_sequence_b c).
  Proof. apply sat_decode_utf8_sequence_b; sub_prims. Qed.

  Definition sub_values ro fuel :=
    psat_values Rsub Rsub_ret Rsub_seq Rsub_fuel sub_peek sub_next sub_eat sub_error sub_peek_error sub_error_consume
      sub_take_run sub_take_symbol fast std_parse ro alpha Rsub_rec1 Rsub_rec2 fuel.
  Definition sub_datums ro fuel :=
    psat_datums Rsub Rsub_ret Rsub_seq Rsub_fuel sub_peek sub_next sub_eat sub_error sub_peek_error sub_error_consume
      sub_take_run sub_take_symbol fast std_parse ro alpha Rsub_rec1 Rsub_rec2 fuel.

  (* ---- the frame condition ---- *)
  Variables ro1 ro2 : parse_options.
  Hypothesis F35 : In 35 W -> ro_kw_octo ro1 = ro_kw_octo ro2 /\ ro_racket ro1 = ro_racket ro2.
  Hypothesis Fdig : forall b, In b W -> is_digit b = true -> ro_digit ro1 = ro_digit ro2.
  Hypothesis F34 : In 34 W -> ro_string ro1 = ro_string ro2.
  Hypothesis F91 : In 91 W -> ro_brackets ro1 = ro_brackets ro2.
  Hypothesis F58 : In 58 W -> ro_kw_prefix ro1 = ro_kw_prefix ro2 /\ ro_kw_postfix ro1 = ro_kw_postfix ro2.
  Hypothesis F63 : In 63 W -> ro_char ro1 = ro_char ro2.
  Hypothesis F110 : In 110 W -> ro_nil ro1 = ro_nil ro2.
  Hypothesis F116 : In 116 W -> ro_t ro1 = ro_t ro2.

  Lemma beq_bytes_true a : forall b, beq_bytes a b = true -> a = b.
  Proof.
    induction a as [|x a IH]; intros [|y b]; cbn [beq_bytes]; try discriminate; [reflexivity|].
    intros H. apply andb_prop in H. destruct H as [H1 H2]. apply N.eqb_eq in H1. subst y. f_equal. apply IH. exact H2.
  Qed.
  Lemma ends_with_colon_in name : ends_with_colon name = true -> In 58 name.
  Proof.
    unfold ends_with_colon. destruct (rev name) as [|c l] eqn:E; [discriminate|]. destruct (c =? 58) eqn:Ec.
    - intros _. apply N.eqb_eq in Ec. subst c. apply in_rev. rewrite E. left. reflexivity.
    - destruct c; try discriminate. destruct p; try discriminate. repeat (destruct p; try discriminate).
  Qed.

  (* a name made of bytes of W and of a prefix free of ':', 'n', 't' reads the same under both option sets *)
  Lemma symbol_token_frame' scratch name : from_w scratch name ->
    (forall b, In b scratch -> In b W \/ (b <> 58 /\ b <> 110 /\ b <> 116)) ->
    symbol_token ro1 name = symbol_token ro2 name.
  Proof.
    intros Hf Hs.
    assert (Hin : forall b, (b = 58 \/ b = 110 \/ b = 116) -> In b name -> In b W).
    { intros b Hb Hn. destruct (Hf b Hn) as [H|H]; [|exact H]. destruct (Hs b H) as [H'|(A & B & C)]; [exact H'|]. destruct Hb as [->|[->| ->]]; contradiction. }
    unfold symbol_token.
    assert (E1 : ro_kw_postfix ro1 && (1 <? length name)%nat && ends_with_colon name = ro_kw_postfix ro2 && (1 <? length name)%nat && ends_with_colon name).
    { destruct (ends_with_colon name) eqn:Ec; [|rewrite !Bool.andb_false_r; reflexivity].
      destruct (F58 (Hin 58 (or_introl eq_refl) (ends_with_colon_in name Ec))) as [_ ->]. reflexivity. }
    rewrite E1. destruct (ro_kw_postfix ro2 && (1 <? length name)%nat && ends_with_colon name); [reflexivity|].
    destruct (beq_bytes name (s2b "nil")) eqn:En.
    { apply beq_bytes_true in En. subst name. rewrite (F110 (Hin 110 (or_intror (or_introl eq_refl)) ltac:(left; reflexivity))).
      change (beq_bytes (s2b "nil") (s2b "t")) with false. rewrite !Bool.andb_false_r. reflexivity. }
    rewrite !Bool.andb_false_r.
    destruct (beq_bytes name (s2b "t")) eqn:Et.
    { apply beq_bytes_true in Et. subst name. rewrite (F116 (Hin 116 (or_intror (or_intror eq_refl)) ltac:(left; reflexivity))). reflexivity. }
    rewrite !Bool.andb_false_r. reflexivity.
  Qed.
  Lemma symbol_value_frame' scratch name : from_w scratch name ->
    (forall b, In b scratch -> In b W \/ (b <> 58 /\ b <> 110 /\ b <> 116)) -> symbol_value ro1 name = symbol_value ro2 name.
  Proof. intros H1 H2. unfold symbol_value. rewrite (symbol_token_frame' scratch name H1 H2). reflexivity. Qed.
  Lemma take_bytes_from k : forall acc r, sub r -> (forall x, In x acc -> In x W) ->
    match take_bytes k acc r with (Ok bs, _) => forall x, In x bs -> In x W | _ => True end.
  Proof.
    induction k as [|k IH]; intros acc r Hs Ha; cbn [take_bytes]; [unfold ret; exact Ha|].
    unfold bind, next_char. pose proof (sub_next r Hs) as Hs1. unfold R, Rsub, next_char in Hs1.
    assert (Hhd : match r_next r with (Ok (Some c), _) => In c W | _ => True end).
    { unfold r_next. pose proof (skip_intr_incl (rinput r)) as Hi.
      destruct (rpending r).
      - destruct (rinput r) as [|[c| |e] l] eqn:E; try exact I. apply Hs. rewrite E. left. reflexivity.
      - destruct (skip_intr (rinput r)) as [|[c| |e] l] eqn:E; try exact I. apply Hs. apply Hi. left. reflexivity. }
    destruct (r_next r) as [[[c|]|e] r1]; cbn [fst snd] in *; try exact I; try (unfold error; destruct (r_position r1); exact I).
    apply IH; [exact Hs1|]. intros x Hx. apply in_app_or in Hx. destruct Hx as [Hx|[<-|[]]]; [apply Ha; exact Hx|exact Hhd].
  Qed.

  Lemma decode_from_w b r p r' : sub r -> In b W -> decode_utf8_sequence_b b r = (Ok p, r') -> forall x, In x (fst p) -> In x W.
  Proof.
    intros Hs Hb. unfold decode_utf8_sequence_b.
    destruct (in_range 192 223 b || in_range 224 247 b); [|unfold error; destruct (r_position r); intros E; discriminate E].
    unfold bind.
    set (k := if in_range 192 223 b then 1%nat else N.to_nat ((b - 192) / 16)).
    pose proof (take_bytes_from k [b] r Hs ltac:(intros x [<-|[]]; exact Hb)) as Ht.
    destruct (take_bytes k [b] r) as [[bs|e] r3]; [|intros E; discriminate E].
    destruct (utf8_valid bs); [unfold ret; intros E; inversion E; subst; exact Ht|unfold error; destruct (r_position r3); intros E; discriminate E].
  Qed.

  Local Notation ptok ro := (parse_token ro alpha fast std_parse).

  Lemma at_byte_in b r : sub r -> at_byte b r -> In b W.
  Proof. intros Hs [_ [l Hl]]. apply Hs. rewrite Hl. left. reflexivity. Qed.

  Ltac sym_arm Hs scr :=
    match goal with
    | |- context [parse_symbol_suffix ?f ?p ?r] =>
        let E := fresh "E" in
        pose proof (symbol_rd_from_w f p r Hs) as E; unfold parse_symbol_suffix in *;
        destruct (parse_symbol_rd f p r) as [[?name|?e] ?r3]; [|reflexivity]; unfold ret; f_equal;
        apply (symbol_token_frame' p); [exact E|scr]
    | |- context [parse_symbol ?f ?r] =>
        let E := fresh "E" in
        pose proof (symbol_rd_from_w f [] r Hs) as E; unfold parse_symbol in *;
        destruct (parse_symbol_rd f [] r) as [[?name|?e] ?r3]; [|reflexivity]
    end.

  Lemma bind_cong {A B} (m : M A) (f1 f2 : A -> M B) r :
    (forall a r', m r = (Ok a, r') -> f1 a r' = f2 a r') -> bind m f1 r = bind m f2 r.
  Proof. intros H. unfold bind. destruct (m r) as [[a|e] r']; [apply H; reflexivity|reflexivity]. Qed.

  Lemma symbol_arm fuel scratch r (k : token -> token) : sub r ->
    (forall b, In b scratch -> In b W \/ (b <> 58 /\ b <> 110 /\ b <> 116)) ->
    (name <- parse_symbol_rd fuel scratch ;; ret (symbol_token ro1 name)) r =
    (name <- parse_symbol_rd fuel scratch ;; ret (symbol_token ro2 name)) r.
  Proof.
    intros Hs Hsc. apply bind_cong. intros name r' E. pose proof (symbol_rd_from_w fuel scratch r Hs) as H. rewrite E in H.
    unfold ret. rewrite (symbol_token_frame' scratch name H Hsc). reflexivity.
  Qed.

  Theorem token_frame fuel b r : sub r -> at_byte b r -> ptok ro1 fuel b r = ptok ro2 fuel b r.
  Proof.
    intros Hs Hb. pose proof (at_byte_in b r Hs Hb) as HbW. unfold Parser.parse_token.
    destruct (b =? 35) eqn:E35.
    { apply N.eqb_eq in E35. subst b. destruct (F35 HbW) as [A B]. rewrite A, B. reflexivity. }
    destruct ((b =? 45) || (b =? 43)) eqn:Esign.
    { apply bind_cong. intros u r1 E1. unfold eat_char in E1. inversion E1; subst r1. pose proof (discard_sub r Hs) as Hs1.
      apply bind_cong. intros nx r2 E2. pose proof (sat_sub peek_or_null (r_discard r) subm_peek_or_null Hs1) as Hs2. rewrite E2 in Hs2. cbn [snd] in Hs2.
      destruct ((nx =? 0) || is_delimiter nx || is_sign_subsequent nx || (nx =? 46) || (127 <? nx)); [|reflexivity].
      unfold parse_symbol_suffix. apply (symbol_arm fuel [b] r2 (fun t => t) Hs2). intros x [<-|[]]. left. exact HbW. }
    destruct (is_digit b) eqn:Ed.
    { rewrite (Fdig b HbW Ed). destruct (ro_digit ro2); [|reflexivity].
      apply bind_cong. intros name r' E. pose proof (symbol_rd_from_w fuel [] r Hs) as H. unfold parse_symbol in E. rewrite E in H.
      destruct (number_of_symbol fast std_parse fuel name); [reflexivity|]. unfold ret.
      rewrite (symbol_token_frame' [] name H ltac:(intros x [])). reflexivity. }
    destruct (b =? 34) eqn:E34.
    { apply N.eqb_eq in E34. subst b. rewrite (F34 HbW). reflexivity. }
    destruct (b =? 40); [reflexivity|].
    destruct (b =? 91) eqn:E91.
    { apply N.eqb_eq in E91. subst b. rewrite (F91 HbW). reflexivity. }
    destruct (b =? 58) eqn:E58.
    { apply N.eqb_eq in E58. subst b. destruct (F58 HbW) as [A _]. rewrite A. reflexivity. }
    destruct (is_ascii_alpha b).
    { unfold parse_symbol. apply (symbol_arm fuel [] r (fun t => t) Hs). intros x []. }
    assert (E63 : (b =? 63) && match ro_char ro1 with ChrElisp => true | ChrR6RS => false end =
                  (b =? 63) && match ro_char ro2 with ChrElisp => true | ChrR6RS => false end).
    { destruct (b =? 63) eqn:E; [|reflexivity]. apply N.eqb_eq in E. subst b. rewrite (F63 HbW). reflexivity. }
    rewrite E63. destruct ((b =? 63) && match ro_char ro2 with ChrElisp => true | ChrR6RS => false end); [reflexivity|].
    destruct (b =? 39); [reflexivity|]. destruct (b =? 96); [reflexivity|]. destruct (b =? 44); [reflexivity|].
    destruct (127 <? b).
    { apply bind_cong. intros u r1 E1. unfold eat_char in E1. inversion E1; subst r1. pose proof (discard_sub r Hs) as Hs1.
      apply bind_cong. intros p r2 E2.
      pose proof (sat_sub (decode_utf8_sequence_b b) (r_discard r) (subm_decode b) Hs1) as Hs2. rewrite E2 in Hs2. cbn [snd] in Hs2.
      pose proof (decode_from_w b (r_discard r) p r2 Hs1 HbW E2) as Hp.
      destruct (negb (alpha (snd p))); [reflexivity|].
      unfold parse_symbol_suffix. apply (symbol_arm fuel (fst p) r2 (fun t => t) Hs2). intros x Hx. left. apply Hp. exact Hx. }
    destruct (memb b SYMBOL_EXTENDED).
    { unfold parse_symbol. apply (symbol_arm fuel [] r (fun t => t) Hs). intros x []. }
    reflexivity.
  Qed.
  (* ---- the parser proper ---- *)
  Definition pfr {A} (m1 m2 : PM A) : Prop := forall s, sub (rd s) -> m1 s = m2 s.
  Definition pfrat {A} (b : N) (m1 m2 : PM A) : Prop := forall s, sub (rd s) -> at_byte b (rd s) -> m1 s = m2 s.
  Definition psubm {A} (m : PM A) : Prop := forall s, sub (rd s) -> sub (rd (snd (m s))).

  Lemma pfr_refl {A} (m : PM A) : pfr m m.
  Proof. intros s _. reflexivity. Qed.
  Lemma pfrat_weaken {A} b (m1 m2 : PM A) : pfr m1 m2 -> pfrat b m1 m2.
  Proof. intros H s Hs _. apply H. exact Hs. Qed.
  Lemma pfr_bind {A B} (m1 m2 : PM A) (f1 f2 : A -> PM B) :
    psubm m1 -> pfr m1 m2 -> (forall a, pfr (f1 a) (f2 a)) -> pfr (pbind m1 f1) (pbind m2 f2).
  Proof.
    intros Hm He Hf s Hs. rewrite !pbind_unfold, <- (He s Hs). specialize (Hm s Hs).
    destruct (m1 s) as [[a|e] s1]; cbn [snd] in *; [apply Hf; exact Hm|reflexivity].
  Qed.
  Lemma psubm_same {A} (m : PM A) : (forall s, rd (snd (m s)) = rd s) -> psubm m.
  Proof. intros H s Hs. rewrite H. exact Hs. Qed.
  Lemma psubm_liftR {A} (m : M A) : sat Rsub m -> psubm (liftR m).
  Proof. intros H s Hs. unfold liftR. pose proof (H (rd s) Hs) as H1. destruct (m (rd s)) as [[a|e] r']; exact H1. Qed.
  Lemma psubm_psat {A} (m : PM A) : psat Rsub m -> psubm m.
  Proof. intros H s Hs. apply (H s Hs). Qed.
  Lemma psubm_attempt {A} (m : PM A) : psubm m -> psubm (attempt m).
  Proof. intros H s Hs. specialize (H s Hs). rewrite attempt_unfold. destruct (m s) as [[a|[e|k]] s1]; cbn [snd] in *; try exact H. destruct e; exact H. Qed.
  Lemma pfr_attempt {A} (m1 m2 : PM A) : pfr m1 m2 -> pfr (attempt m1) (attempt m2).
  Proof. intros H s Hs. rewrite !attempt_unfold, (H s Hs). reflexivity. Qed.
  Lemma psubm_enter : psubm enter_nesting.
  Proof. apply psubm_psat. apply psat_enter_nesting; sub_prims. Qed.
  Lemma psubm_inc : psubm inc_depth.
  Proof. apply psubm_psat. apply psat_inc_depth; sub_prims. Qed.
  Lemma psubm_both {A} (r : res A) (e : res unit) : psubm (both r e).
  Proof. apply psubm_same. intros s. destruct r; destruct e; reflexivity. Qed.
  Lemma psubm_lift {A} (r : res A) : psubm (lift r).
  Proof. apply psubm_same. intros s. destruct r; reflexivity. Qed.

  Lemma pfr_bind_ws {A} fuel (k1 k2 : option N -> PM A) :
    pfr (k1 None) (k2 None) -> (forall b, pfrat b (k1 (Some b)) (k2 (Some b))) ->
    pfr (pbind (liftR (parse_whitespace fuel)) k1) (pbind (liftR (parse_whitespace fuel)) k2).
  Proof.
    intros Hn Hsome s Hs. rewrite !pbind_unfold. unfold liftR.
    pose proof (subm_ws fuel (rd s) Hs) as Hs1. pose proof (ws_at_byte fuel (rd s)) as Hb.
    destruct (parse_whitespace fuel (rd s)) as [[[b|]|e] r1]; cbn [fst snd] in *; [| |reflexivity].
    - apply Hsome; [exact Hs1|exact Hb].
    - apply Hn. exact Hs1.
  Qed.
  Lemma pfrat_token {A} fuel b (k1 k2 : token -> PM A) : (forall tok, pfr (k1 tok) (k2 tok)) ->
    pfrat b (pbind (liftR (ptok ro1 fuel b)) k1) (pbind (liftR (ptok ro2 fuel b)) k2).
  Proof.
    intros Hk s Hs Hb. rewrite !pbind_unfold. unfold liftR. rewrite <- (token_frame fuel b (rd s) Hs Hb).
    pose proof (subm_token ro1 fuel b (rd s) Hs) as Hs1.
    destruct (ptok ro1 fuel b (rd s)) as [[tok|e] r1]; [|reflexivity]. apply Hk. exact Hs1.
  Qed.
  Lemma pfrat_position {A} b (k1 k2 : N * N -> PM A) :
    (forall p, pfrat b (k1 p) (k2 p)) -> pfrat b (pbind (liftR position) k1) (pbind (liftR position) k2).
  Proof.
    intros Hk s Hs Hb. rewrite !pbind_unfold. unfold liftR, position. destruct s as [r d]. cbn [rd depth] in *.
    apply (Hk _ {| rd := r; depth := d |}); assumption.
  Qed.
  Lemma pfr_nest_seq {A B} (body1 body2 : PM A) (endm : M unit) (k1 k2 : A -> PM B) :
    psubm body1 -> pfr body1 body2 -> sat Rsub endm -> (forall a, pfr (k1 a) (k2 a)) ->
    pfr (pbind (attempt body1) (fun r => pbind inc_depth (fun _ => pbind (attempt (liftR endm)) (fun e => pbind (both r e) k1))))
        (pbind (attempt body2) (fun r => pbind inc_depth (fun _ => pbind (attempt (liftR endm)) (fun e => pbind (both r e) k2)))).
  Proof.
    intros Hm He Hend Hk. apply pfr_bind; [apply psubm_attempt; exact Hm|apply pfr_attempt; exact He|]. intros r.
    apply pfr_bind; [apply psubm_inc|apply pfr_refl|]. intros _.
    apply pfr_bind; [apply psubm_attempt; apply psubm_liftR; exact Hend|apply pfr_refl|]. intros e.
    apply pfr_bind; [apply psubm_both|apply pfr_refl|exact Hk].
  Qed.
  Lemma pfr_nest_quote {A B} (body1 body2 : PM A) (k1 k2 : A -> PM B) :
    psubm body1 -> pfr body1 body2 -> (forall a, pfr (k1 a) (k2 a)) ->
    pfr (pbind (attempt body1) (fun r => pbind inc_depth (fun _ => pbind (lift r) k1)))
        (pbind (attempt body2) (fun r => pbind inc_depth (fun _ => pbind (lift r) k2))).
  Proof.
    intros Hm He Hk. apply pfr_bind; [apply psubm_attempt; exact Hm|apply pfr_attempt; exact He|]. intros r.
    apply pfr_bind; [apply psubm_inc|apply pfr_refl|]. intros _.
    apply pfr_bind; [apply psubm_lift|apply pfr_refl|exact Hk].
  Qed.

  (* a dot-initial symbol inside a list *)
  Lemma pfr_dot_symbol {A} fuel (k1 k2 : value -> PM A) : (forall v, pfr (k1 v) (k2 v)) ->
    pfr (pbind (liftR (parse_symbol_suffix fuel [46])) (fun name => k1 (symbol_value ro1 name)))
        (pbind (liftR (parse_symbol_suffix fuel [46])) (fun name => k2 (symbol_value ro2 name))).
  Proof.
    intros Hk s Hs. rewrite !pbind_unfold. unfold liftR.
    pose proof (subm_symbol_suffix fuel [46] (rd s) Hs) as Hs1. pose proof (symbol_rd_from_w fuel [46] (rd s) Hs) as Hf.
    unfold parse_symbol_suffix in *. destruct (parse_symbol_rd fuel [46] (rd s)) as [[name|e] r1]; [|reflexivity].
    rewrite (symbol_value_frame' [46] name Hf ltac:(intros x [<-|[]]; right; repeat split; discriminate)). apply Hk. exact Hs1.
  Qed.

  Local Notation nv ro := (next_value ro alpha fast std_parse).
  Local Notation pl ro := (parse_list ro alpha fast std_parse).
  Local Notation pv ro := (parse_vector ro alpha fast std_parse).

  Theorem frame_values fuel :
    pfr (nv ro1 fuel) (nv ro2 fuel) /\ (forall t acc, pfr (pl ro1 fuel t acc) (pl ro2 fuel t acc)) /\
    (forall t acc, pfr (pv ro1 fuel t acc) (pv ro2 fuel t acc)).
  Proof.
    induction fuel as [|f (IHv & IHl & IHvec)]; [repeat split; intros; apply pfr_refl|].
    destruct (sub_values ro1 f) as (Sv & Sl & Svec).
    split; [|split].
    - cbn [Parser.next_value]. apply pfr_bind_ws; [apply pfr_refl|]. intros b. apply pfrat_token. intros tok.
      destruct tok; try apply pfr_refl.
      + apply pfr_bind; [apply psubm_enter|apply pfr_refl|intros _].
        apply pfr_nest_seq; [apply psubm_psat; apply Sl|apply IHl|apply subm_end_seq|intros; apply pfr_refl].
      + apply pfr_bind; [apply psubm_enter|apply pfr_refl|intros _].
        apply pfr_nest_quote; [apply psubm_psat; exact Sv|exact IHv|intros; apply pfr_refl].
      + apply pfr_bind; [apply psubm_enter|apply pfr_refl|intros _].
        apply pfr_nest_seq; [apply psubm_psat; apply Svec|apply IHvec|apply subm_end_seq|intros; apply pfr_refl].
    - intros t acc. cbn [Parser.parse_list]. apply pfr_bind_ws; [apply pfr_refl|]. intros c. apply pfrat_weaken.
      destruct (is_closer c); [apply pfr_refl|].
      destruct (c =? 46).
      + apply pfr_bind; [apply psubm_liftR; apply sat_bind; [sub_prims|sub_prims|intros; sub_prims]|apply pfr_refl|]. intros nx.
        destruct (lone_dot nx).
        * destruct acc as [|a0 acc']; [apply pfr_refl|].
          apply pfr_bind; [apply psubm_psat; exact Sv|exact IHv|intros; apply pfr_refl].
        * apply (pfr_dot_symbol f (fun v => pl ro1 f t (acc ++ [v])) (fun v => pl ro2 f t (acc ++ [v]))). intros v. apply IHl.
      + apply pfr_bind; [apply psubm_psat; exact Sv|exact IHv|]. intros ov. destruct ov; [apply IHl|apply pfr_refl].
    - intros t acc. cbn [Parser.parse_vector]. apply pfr_bind_ws; [apply pfr_refl|]. intros c. apply pfrat_weaken.
      destruct (is_closer c); [apply pfr_refl|].
      apply pfr_bind; [apply psubm_psat; exact Sv|exact IHv|]. intros ov. destruct ov; [apply IHvec|apply pfr_refl].
  Qed.

  Lemma init_sub k (s : bytes) : s = W -> sub (rd (init_state k (bytes_events s))).
  Proof.
    intros ->. unfold init_state, mk_reader, sub. cbn [rd rinput]. intros b Hb. unfold bytes_events in Hb.
    apply in_map_iff in Hb. destruct Hb as (x & E & Hx). inversion E. subst. exact Hx.
  Qed.

  Theorem from_trait_frame k : from_trait ro1 alpha fast std_parse k (bytes_events W) = from_trait ro2 alpha fast std_parse k (bytes_events W).
  Proof.
    unfold from_trait. cbv zeta. f_equal.
    refine (pfr_bind _ _ _ _ _ _ _ (init_state k (bytes_events W)) (init_sub k W eq_refl)).
    - unfold expect_value. apply psubm_psat. apply psat_expect_value; sub_prims.
    - unfold expect_value. apply pfr_bind; [apply psubm_psat; apply (proj1 (sub_values ro1 _))|apply frame_values|intros; apply pfr_refl].
    - intros v. apply pfr_refl.
  Qed.
End Frame.
