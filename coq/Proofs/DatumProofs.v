(* C10: the location-tracking parser (next_datum, parse_list_meta,
   parse_vector_meta) computes the same values, errors and final states as
   the plain one (next_value, parse_list, parse_vector). *)
From Coq Require Import SpecFloat.
Require Import Base Value Float PrintOptions ParseOptions Utf8 Reader Scan Num NumberOps Parser.

Definition pmap {A B} (f : B -> A) (x : pres B * pstate) : pres A * pstate :=
  (match fst x with POk b => POk (f b) | PErr e => PErr e end, snd x).

(* m1 yields f of what m2 yields, error for error, in the same final state *)
Definition agree {A B} (f : B -> A) (m1 : PM A) (m2 : PM B) : Prop :=
  forall s, m1 s = pmap f (m2 s).

Lemma agree_ret {A B} (f : B -> A) b : agree f (pret (f b)) (pret b).
Proof. intros s; reflexivity. Qed.
Lemma agree_ret' {A B} (f : B -> A) a b : a = f b -> agree f (pret a) (pret b).
Proof. intros -> s; reflexivity. Qed.
Lemma agree_fail {A B} (f : B -> A) e : agree f (pfail e) (pfail e).
Proof. intros s; reflexivity. Qed.

Lemma agree_peek_error {A B} (f : B -> A) c :
  agree f (liftR (peek_error (A := A) c)) (liftR (peek_error (A := B) c)).
Proof.
  intros s. unfold liftR, peek_error, pmap. destruct (r_peek_position (rd s)) as [l cl]. reflexivity.
Qed.

Lemma agree_bind_same {A B C} (f : B -> A) (m : PM C) (k1 : C -> PM A) (k2 : C -> PM B) :
  (forall c, agree f (k1 c) (k2 c)) -> agree f (pbind m k1) (pbind m k2).
Proof.
  intros H s. unfold pbind. destruct (m s) as [[c|e] s']; [apply H|reflexivity].
Qed.

Lemma agree_bind_map {A B C D} (f : B -> A) (g : D -> C) (m1 : PM C) (m2 : PM D)
      (k1 : C -> PM A) (k2 : D -> PM B) :
  agree g m1 m2 -> (forall d, agree f (k1 (g d)) (k2 d)) -> agree f (pbind m1 k1) (pbind m2 k2).
Proof.
  intros Hm Hk s. unfold pbind. rewrite (Hm s). unfold pmap at 1.
  destruct (m2 s) as [[d|e] s']; cbn [fst snd]; [apply Hk|reflexivity].
Qed.

(* an extra position query on the datum side changes nothing *)
Lemma agree_position_r {A B} (f : B -> A) (k1 : PM A) (k2 : pos -> PM B) :
  (forall p, agree f k1 (k2 p)) -> agree f k1 (pbind (liftR position) k2).
Proof.
  intros H s. unfold pbind, liftR, position. cbn [fst snd].
  destruct s as [r d]; cbn [rd depth]. apply H.
Qed.

Definition res_map {A B} (g : B -> A) (r : res B) : res A :=
  match r with Ok b => Ok (g b) | Err e => Err e end.

Lemma agree_attempt {A B} (g : B -> A) (m1 : PM A) (m2 : PM B) :
  agree g m1 m2 -> agree (res_map g) (attempt m1) (attempt m2).
Proof.
  intros H s. unfold attempt. rewrite (H s). unfold pmap.
  destruct (m2 s) as [[b|[[c l cl|io|]|k]] s']; reflexivity.
Qed.

Lemma agree_attempt_same {A} (m : PM A) : agree (fun r : res A => r) (attempt m) (attempt m).
Proof. intros s. unfold pmap. destruct (attempt m s) as [[a|e] s']; reflexivity. Qed.

Lemma agree_lift {A B} (g : B -> A) (r : res B) : agree g (lift (res_map g r)) (lift r).
Proof. destruct r; intros s; reflexivity. Qed.

Lemma agree_both {A B} (g : B -> A) (r : res B) (e : res unit) :
  agree g (both (res_map g r) e) (both r e).
Proof. destruct r, e; intros s; reflexivity. Qed.

Section Agreement.
  Variable ro : parse_options.
  Variable alpha : N -> bool.
  Variable fast : bool.
  Variable std_parse : N -> Z -> f64.

  Local Notation next_value := (next_value ro alpha fast std_parse).
  Local Notation parse_list := (parse_list ro alpha fast std_parse).
  Local Notation parse_vector := (parse_vector ro alpha fast std_parse).
  Local Notation next_datum := (next_datum ro alpha fast std_parse).
  Local Notation parse_list_meta := (parse_list_meta ro alpha fast std_parse).
  Local Notation parse_vector_meta := (parse_vector_meta ro alpha fast std_parse).

  (* the value of what parse_list_meta collected, as Datum::cons / the Null case build it *)
  Definition list_value (l : list datum * option datum) : value :=
    match l with
    | ([], _) => Null
    | (ds, tl) => build (map dvalue ds) (match tl with Some t => dvalue t | None => Null end)
    end.

  Lemma list_datum_value l a b : dvalue (list_datum l a b) = list_value l.
  Proof. destruct l as [[|d ds] tl]; reflexivity. Qed.

  Lemma list_value_closed ds : build (map dvalue ds) Null = list_value (ds, None).
  Proof. destruct ds; reflexivity. Qed.
  Lemma list_value_dotted ds cdr : ds <> [] ->
    build (map dvalue ds) (dvalue cdr) = list_value (ds, Some cdr).
  Proof. destruct ds; [congruence|reflexivity]. Qed.

  Lemma map_snoc ds d : map dvalue ds ++ [dvalue d] = map dvalue (ds ++ [d]).
  Proof. now rewrite map_app. Qed.

  Ltac ag :=
    first
      [ apply agree_ret
      | apply agree_fail
      | apply agree_peek_error
      | apply agree_position_r; intros ?
      | apply agree_bind_same; intros ?
      | match goal with
        | |- agree _ (match ?x with _ => _ end) (match ?x with _ => _ end) => destruct x
        | |- agree _ (if ?x then _ else _) (if ?x then _ else _) => destruct x
        end ].

  Lemma agreement fuel :
    agree (option_map dvalue) (next_value fuel) (next_datum fuel) /\
    (forall t acc, agree list_value (parse_list fuel t (map dvalue acc)) (parse_list_meta fuel t acc)) /\
    (forall t acc, agree (map dvalue) (parse_vector fuel t (map dvalue acc)) (parse_vector_meta fuel t acc)).
  Proof.
    induction fuel as [|f (IHv & IHl & IHvec)].
    - split; [|split]; intros;
        cbn [Parser.next_value Parser.parse_list Parser.parse_vector
             Parser.next_datum Parser.parse_list_meta Parser.parse_vector_meta]; apply agree_fail.
    - split; [|split]; intros;
        cbn [Parser.next_value Parser.parse_list Parser.parse_vector
             Parser.next_datum Parser.parse_list_meta Parser.parse_vector_meta].
      + (* next_value / next_datum *)
        apply agree_bind_same; intros [peek_b|]; [|apply (agree_ret (option_map dvalue) None)].
        apply agree_position_r; intros start.
        apply agree_bind_same; intros tok.
        destruct tok;
          try (apply agree_position_r; intros e;
               match goal with |- agree _ (pret (Some ?v)) (pret (Some ?d)) =>
                 apply (agree_ret (option_map dvalue) (Some d)) end).
        * (* TListOpen *)
          apply agree_bind_same; intros _.
          apply (agree_bind_map _ (res_map list_value)); [apply agree_attempt; apply (IHl close [])|].
          intros r. apply agree_bind_same; intros _.
          apply agree_bind_same; intros e.
          apply (agree_bind_map _ list_value); [apply agree_both|].
          intros l. apply agree_position_r; intros e_pos.
          apply agree_ret'. cbn [option_map]. now rewrite list_datum_value.
        * (* TQuotation *)
          apply agree_position_r; intros token_end.
          apply agree_bind_same; intros _.
          apply (agree_bind_map _ (res_map (option_map dvalue))); [apply agree_attempt; apply IHv|].
          intros r. apply agree_bind_same; intros _.
          apply (agree_bind_map _ (option_map dvalue)); [apply agree_lift|].
          intros [d|]; [|apply agree_peek_error].
          apply agree_ret'. reflexivity.
        * (* TVecOpen *)
          apply agree_bind_same; intros _.
          apply (agree_bind_map _ (res_map (map dvalue))); [apply agree_attempt; apply (IHvec close [])|].
          intros r. apply agree_bind_same; intros _.
          apply agree_bind_same; intros e.
          apply (agree_bind_map _ (map dvalue)); [apply agree_both|].
          intros els. apply agree_position_r; intros e_pos.
          apply agree_ret'. reflexivity.
        * (* TByteVecOpen *)
          apply agree_bind_same; intros b.
          apply agree_position_r; intros e.
          apply agree_ret'. reflexivity.
      + (* parse_list / parse_list_meta *)
        apply agree_bind_same; intros [c|]; [|apply agree_peek_error].
        destruct (is_closer c).
        { destruct (negb (c =? t)); [apply agree_peek_error|].
          apply agree_ret'. apply list_value_closed. }
        destruct (c =? 46).
        { apply agree_position_r; intros start.
          apply agree_bind_same; intros nx.
          destruct (lone_dot nx).
          - destruct acc as [|a0 acc'].
            + cbn [map]. apply agree_bind_same; intros [x|]; apply agree_peek_error.
            + cbn [map].
              apply (agree_bind_map _ (option_map dvalue)); [apply IHv|].
              intros [cdr|]; [|apply agree_peek_error].
              cbn [option_map].
              apply agree_bind_same; intros [c2|]; [|apply agree_peek_error].
              destruct (c2 =? t); [|apply agree_peek_error].
              apply agree_ret'. apply (list_value_dotted (a0 :: acc')). discriminate.
          - apply agree_bind_same; intros name.
            apply agree_position_r; intros e.
            replace (map dvalue acc ++ [symbol_value ro name])
              with (map dvalue (acc ++ [prim_datum (symbol_value ro name) start e]))
              by (rewrite map_app; reflexivity).
            apply IHl. }
        apply (agree_bind_map _ (option_map dvalue)); [apply IHv|].
        intros [d|]; [|apply agree_peek_error].
        cbn [option_map]. rewrite map_snoc. apply IHl.
      + (* parse_vector / parse_vector_meta *)
        apply agree_bind_same; intros [c|]; [|apply agree_peek_error].
        destruct (is_closer c).
        { destruct (negb (c =? t)); [apply agree_peek_error|apply agree_ret]. }
        apply (agree_bind_map _ (option_map dvalue)); [apply IHv|].
        intros [d|]; [|apply agree_peek_error].
        cbn [option_map]. rewrite map_snoc. apply IHvec.
  Qed.

  (* iterating: item for item, error for error, same end *)
  Definition item_value (r : pres datum) : pres value :=
    match r with POk d => POk (dvalue d) | PErr e => PErr e end.

  Lemma iterate_agree fuel n s :
    iterate_values ro alpha fast std_parse fuel n s =
    map item_value (iterate_datums ro alpha fast std_parse fuel n s).
  Proof.
    revert s; induction n as [|n IH]; intros s; [reflexivity|].
    cbn [iterate_values iterate_datums].
    rewrite (proj1 (agreement fuel) s). unfold pmap.
    destruct (next_datum fuel s) as [[[d|]|e] s']; cbn [fst snd option_map map item_value];
      try reflexivity; now rewrite IH.
  Qed.
End Agreement.

Section Entry.
  Variable ro : parse_options.
  Variable alpha : N -> bool.
  Variable fast : bool.
  Variable std_parse : N -> Z -> f64.

  Lemma agree_expect fuel :
    agree dvalue (expect_value ro alpha fast std_parse fuel) (expect_datum ro alpha fast std_parse fuel).
  Proof.
    unfold expect_value, expect_datum.
    apply (agree_bind_map _ (option_map dvalue)); [apply agreement|].
    intros [d|]; [apply agree_ret|apply agree_peek_error].
  Qed.

  Lemma from_trait_agree k inp :
    from_trait ro alpha fast std_parse k inp =
    match datum_from_trait ro alpha fast std_parse k inp with
    | POk d => POk (dvalue d)
    | PErr e => PErr e
    end.
  Proof.
    unfold from_trait, datum_from_trait.
    assert (H : agree dvalue
                  (pbind (expect_value ro alpha fast std_parse (fuel_for inp))
                         (fun v => pbind (expect_end_p (fuel_for inp)) (fun _ => pret v)))
                  (pbind (expect_datum ro alpha fast std_parse (fuel_for inp))
                         (fun d => pbind (expect_end_p (fuel_for inp)) (fun _ => pret d)))).
    { apply (agree_bind_map _ dvalue); [apply agree_expect|].
      intros d. apply agree_bind_same; intros _. apply agree_ret. }
    rewrite (H (init_state k inp)). reflexivity.
  Qed.
End Entry.
