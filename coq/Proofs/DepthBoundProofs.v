(* C03: nothing nested more deeply than the budget is ever accepted. For every
   option set, input and source kind, a value returned by next_value from a
   parser whose remaining nesting budget is D needs fewer than D levels to be
   read (vdepth: lists, vectors and quotations; a dotted tail that is a list
   counts as written flat, the empty list costs nothing), and the budget is handed back. With the
   initial budget of 128 no accepted value nests more than 127 levels; input
   nested more deeply, through whatever mixture of constructs, is therefore
   never accepted (and by C03_from_trait_no_panic it does not panic either). *)
From Coq Require Import SpecFloat ZifyBool ZifyNat ZifyN.
Require Import Base Value Float PrintOptions ParseOptions Utf8 Reader Scan Num NumberOps Parser Depth.
Require Import RelFramework DepthProofs RoundtripProofs.

(* nesting of a value as the parser sees it: the empty list costs nothing *)
Fixpoint vdepth (v : value) : nat :=
  match v with
  | Cons a d => S (Nat.max (vdepth a) (vdepth_rest d))
  | Vector l => S (list_max (map vdepth l))
  | _ => 0
  end
with vdepth_rest (d : value) : nat :=
  match d with
  | Cons a d' => Nat.max (vdepth a) (vdepth_rest d')
  | Vector l => S (list_max (map vdepth l))
  | _ => 0
  end.

Section DepthBound.
  Variable ro : parse_options.
  Variable alpha : N -> bool.
  Variable fast : bool.
  Variable std_parse : N -> Z -> f64.
  Local Notation next_value := (next_value ro alpha fast std_parse).
  Local Notation parse_list := (parse_list ro alpha fast std_parse).
  Local Notation parse_vector := (parse_vector ro alpha fast std_parse).

  Definition Jn {A} (D : N) (m : PM A) (post : A -> Prop) : Prop :=
    forall s, depth s = D -> 1 <= D <= 128 ->
      match m s with (POk a, s') => post a /\ depth s' = D | (PErr _, _) => True end.

  Lemma Jn_bind {A B} D (m : PM A) (f : A -> PM B) p q : Jn D m p -> (forall a, p a -> Jn D (f a) q) -> Jn D (pbind m f) q.
  Proof.
    intros Hm Hf s Hd HD. rewrite pbind_unfold. specialize (Hm s Hd HD).
    destruct (m s) as [[a|e] s1]; [|exact I]. destruct Hm as (Hp & Hd1). apply (Hf a Hp s1 Hd1 HD).
  Qed.
  Lemma Jn_ret {A} D (a : A) (q : A -> Prop) : q a -> Jn D (pret a) q.
  Proof. intros H s Hd _. cbn. auto. Qed.
  Lemma Jn_assume {A} D (m : PM A) (q : A -> Prop) : (1 <= D <= 128 -> Jn D m q) -> Jn D m q.
  Proof. intros H s Hd HD. exact (H HD s Hd HD). Qed.
  Lemma Jn_fail {A} D e (q : A -> Prop) : Jn D (pfail e) q.
  Proof. intros s _ _. exact I. Qed.
  Lemma Jn_liftR {A} D (m : M A) : Jn D (liftR m) (fun _ => True).
  Proof. intros s Hd _. unfold liftR. destruct (m (rd s)) as [[a|e] r']; cbn; auto. Qed.
  Lemma Jn_err {A} D c (q : A -> Prop) : Jn D (liftR (peek_error (A := A) c)) q.
  Proof. intros s _ _. unfold liftR, peek_error. destruct (r_peek_position (rd s)). exact I. Qed.

  Lemma enter_at s D : depth s = D -> 1 <= D <= 128 ->
    (D = 1 /\ exists e, fst (enter_nesting s) = PErr e) \/
    (1 < D /\ enter_nesting s = (POk tt, {| rd := rd s; depth := D - 1 |})).
  Proof.
    intros Hd HD. destruct (enter_nesting_spec s ltac:(unfold depth_ok; lia)) as [[H1 (l & cl & E)]|[H1 E]].
    - left. split; [lia|]. rewrite E. eexists; reflexivity.
    - right. split; [lia|]. rewrite E, Hd. reflexivity.
  Qed.

  Lemma liftR_depth {A} (m : M A) s : depth (snd (liftR m s)) = depth s.
  Proof. unfold liftR. destruct (m (rd s)) as [[a|e] r']; reflexivity. Qed.

  (* enter; attempt body; inc_depth; attempt end_seq; both; kk *)
  Lemma Jn_nest {A B} D (body : PM A) (endm : M unit) (kk : A -> PM B) p q :
    Jn (D - 1) body p -> (forall a, p a -> 1 < D -> Jn D (kk a) q) ->
    Jn D (pbind enter_nesting (fun _ => pbind (attempt body) (fun r => pbind inc_depth (fun _ =>
           pbind (attempt (liftR endm)) (fun e => pbind (both r e) kk))))) q.
  Proof.
    intros Hbody Hkk s Hd HD. rewrite pbind_unfold.
    destruct (enter_at s D Hd HD) as [[_ (e & E)]|[HD1 E]].
    - destruct (enter_nesting s) as [[u|e'] s1]; cbn [fst] in E; [discriminate|exact I].
    - rewrite E. set (s1 := {| rd := rd s; depth := D - 1 |}).
      rewrite pbind_unfold, attempt_unfold.
      specialize (Hbody s1 eq_refl ltac:(lia)).
      destruct (body s1) as [[a|[e|pk]] s2]; try exact I.
      + destruct Hbody as (Hp & Hd2). rewrite pbind_unfold.
        rewrite (inc_depth_spec s2 ltac:(lia)). set (s3 := {| rd := rd s2; depth := depth s2 + 1 |}).
        rewrite pbind_unfold, attempt_unfold. pose proof (liftR_depth endm s3) as Hl.
        destruct (liftR endm s3) as [[u|[e|pk]] s4]; cbn [snd] in Hl.
        * cbn [both]. rewrite pbind_unfold. cbn [pret]. apply (Hkk a Hp HD1); [|lia]. rewrite Hl. subst s3. cbn [depth]. lia.
        * destruct e; rewrite ?pbind_unfold; cbn [both pfail]; exact I.
        * exact I.
      + destruct e; try exact I; rewrite pbind_unfold; destruct (inc_depth s2) as [[u|e'] s3]; try exact I;
          rewrite pbind_unfold, attempt_unfold; destruct (liftR endm s3) as [[u'|[e'|pk]] s4]; try exact I;
          try (destruct e'; rewrite ?pbind_unfold; cbn [both pfail]; exact I); rewrite pbind_unfold; cbn [both pfail]; exact I.
  Qed.

  Lemma Jn_nest_quote {A B} D (body : PM A) (kk : A -> PM B) p q :
    Jn (D - 1) body p -> (forall a, p a -> 1 < D -> Jn D (kk a) q) ->
    Jn D (pbind enter_nesting (fun _ => pbind (attempt body) (fun r => pbind inc_depth (fun _ => pbind (lift r) kk)))) q.
  Proof.
    intros Hbody Hkk s Hd HD. rewrite pbind_unfold.
    destruct (enter_at s D Hd HD) as [[_ (e & E)]|[HD1 E]].
    - destruct (enter_nesting s) as [[u|e'] s1]; cbn [fst] in E; [discriminate|exact I].
    - rewrite E. set (s1 := {| rd := rd s; depth := D - 1 |}).
      rewrite pbind_unfold, attempt_unfold.
      specialize (Hbody s1 eq_refl ltac:(lia)).
      destruct (body s1) as [[a|[e|pk]] s2]; try exact I.
      + destruct Hbody as (Hp & Hd2). rewrite pbind_unfold.
        rewrite (inc_depth_spec s2 ltac:(lia)). cbn [lift]. rewrite pbind_unfold. cbn [pret].
        apply (Hkk a Hp HD1); cbn [depth]; lia.
      + destruct e; try exact I; rewrite pbind_unfold; destruct (inc_depth s2) as [[u|e'] s3]; try exact I;
          rewrite pbind_unfold; cbn [lift pfail]; exact I.
  Qed.

  Definition dv (D : N) (v : value) : Prop := N.of_nat (vdepth v) < D.
  Definition opt_dv (D : N) (o : option value) : Prop := match o with Some v => dv D v | None => True end.
  Definition list_dv (D : N) (l : value) : Prop := N.of_nat (vdepth_rest l) < D.

  Lemma vdepth_rest_le d : (vdepth_rest d <= vdepth d)%nat.
  Proof. destruct d; cbn [vdepth vdepth_rest]; lia. Qed.
  Lemma vdepth_le_rest d : (vdepth d <= S (vdepth_rest d))%nat.
  Proof. destruct d; cbn [vdepth vdepth_rest]; lia. Qed.
  Lemma build_dv D acc tail : Forall (dv D) acc -> N.of_nat (vdepth_rest tail) < D -> N.of_nat (vdepth_rest (build acc tail)) < D.
  Proof. induction 1 as [|x acc Hx Hacc IH]; intros Hd; cbn [build]; [auto|]. specialize (IH Hd). unfold dv in Hx. cbn [vdepth_rest]. lia. Qed.
  Lemma vector_dv D els : 1 < D -> Forall (dv (D - 1)) els -> dv D (Vector els).
  Proof.
    intros HD H. unfold dv. cbn [vdepth].
    assert (N.of_nat (list_max (map vdepth els)) < D - 1 \/ els = []).
    { induction H as [|x l Hx Hl IH]; [right; reflexivity|]. left. unfold dv in Hx. cbn [map list_max].
      destruct IH as [IH| ->]; cbn [map list_max]; lia. }
    destruct H0 as [H0| ->]; cbn [map list_max]; lia.
  Qed.
  Lemma Forall_snoc'' {A} (P : A -> Prop) l x : Forall P l -> P x -> Forall P (l ++ [x]).
  Proof. intros Hl Hx. apply Forall_app. split; [exact Hl|repeat constructor; exact Hx]. Qed.
  Lemma symbol_value_depth name : vdepth (symbol_value ro name) = 0%nat.
  Proof. unfold symbol_value. destruct (symbol_token ro name); reflexivity. Qed.

  Theorem values_depth fuel :
    (forall D, Jn D (next_value fuel) (opt_dv D)) /\
    (forall D t acc, Forall (dv D) acc -> Jn D (parse_list fuel t acc) (list_dv D)) /\
    (forall D t acc, Forall (dv D) acc -> Jn D (parse_vector fuel t acc) (Forall (dv D))).
  Proof.
    induction fuel as [|f (IHv & IHl & IHvec)].
    - split; [|split]; intros; cbn [Parser.next_value Parser.parse_list Parser.parse_vector]; apply Jn_fail.
    - split; [|split]; intros; cbn [Parser.next_value Parser.parse_list Parser.parse_vector].
      + apply Jn_assume; intros HD0.
        apply (Jn_bind D _ _ (fun _ => True)); [apply Jn_liftR|]. intros o _. destruct o as [b|]; [|apply Jn_ret; exact I].
        apply (Jn_bind D _ _ (fun _ => True)); [apply Jn_liftR|]. intros tok _.
        destruct tok; try (apply Jn_ret; unfold opt_dv, dv; cbn [vdepth]; lia).
        * (* list *)
          apply (Jn_nest D _ _ _ (list_dv (D - 1)) (opt_dv D)); [apply IHl; constructor|].
          intros l Hl HD. apply Jn_ret. unfold opt_dv, dv, list_dv in *. pose proof (vdepth_le_rest l). lia.
        * (* quotation *)
          apply (Jn_nest_quote D _ _ (opt_dv (D - 1)) (opt_dv D)); [apply IHv|].
          intros o Ho HD. destruct o as [d|]; [|apply Jn_err]. apply Jn_ret. unfold opt_dv, dv in *.
          cbn [vlist build vdepth vdepth_rest]. lia.
        * (* vector *)
          apply (Jn_nest D _ _ _ (Forall (dv (D - 1))) (opt_dv D)); [apply IHvec; constructor|].
          intros els Hels HD. apply Jn_ret. apply vector_dv; assumption.
        * (* byte vector *)
          apply (Jn_bind D _ _ (fun _ => True)); [apply Jn_liftR|]. intros bs _. apply Jn_ret. unfold opt_dv, dv. cbn [vdepth]. lia.
      + apply Jn_assume; intros HD0.
        apply (Jn_bind D _ _ (fun _ => True)); [apply Jn_liftR|]. intros o _. destruct o as [c|]; [|apply Jn_err].
        destruct (is_closer c).
        { destruct (negb (c =? t)); [apply Jn_err|]. apply Jn_ret. apply (build_dv D acc Null H). cbn [vdepth_rest]. lia. }
        destruct (c =? 46).
        { apply (Jn_bind D _ _ (fun _ => True)); [apply Jn_liftR|]. intros nx _. destruct (lone_dot nx).
          - destruct acc as [|x acc'].
            + apply (Jn_bind D _ _ (fun _ => True)); [apply Jn_liftR|]. intros o3 _. destruct o3; apply Jn_err.
            + apply (Jn_bind D _ _ (opt_dv D)); [apply IHv|]. intros ov Hov. destruct ov as [cdr|]; [|apply Jn_err].
              apply (Jn_bind D _ _ (fun _ => True)); [apply Jn_liftR|]. intros o2 _.
              destruct o2 as [c2|]; [|apply Jn_err]. destruct (c2 =? t); [|apply Jn_err].
              apply Jn_ret. apply (build_dv D (x :: acc') cdr H). unfold opt_dv, dv in Hov. pose proof (vdepth_rest_le cdr). lia.
          - apply (Jn_bind D _ _ (fun _ => True)); [apply Jn_liftR|]. intros name _.
            apply IHl. apply Forall_snoc''; [exact H|]. unfold dv. pose proof (symbol_value_depth name). lia. }
        apply (Jn_bind D _ _ (opt_dv D)); [apply IHv|]. intros ov Hov.
        destruct ov as [v|]; [|apply Jn_err]. apply IHl. apply Forall_snoc''; assumption.
      + apply (Jn_bind D _ _ (fun _ => True)); [apply Jn_liftR|]. intros o _. destruct o as [c|]; [|apply Jn_err].
        destruct (is_closer c). { destruct (negb (c =? t)); [apply Jn_err|]. apply Jn_ret. assumption. }
        apply (Jn_bind D _ _ (opt_dv D)); [apply IHv|]. intros ov Hov.
        destruct ov as [v|]; [|apply Jn_err]. apply IHvec. apply Forall_snoc''; assumption.
  Qed.

  (* the entry point: no accepted value nests more than 127 levels *)
  Theorem from_trait_depth k inp v : from_trait ro alpha fast std_parse k inp = POk v -> (vdepth v <= 127)%nat.
  Proof.
    intros E. unfold from_trait in E. set (fuel := fuel_for inp) in *.
    pose proof (proj1 (values_depth fuel) 128 (init_state k inp) eq_refl ltac:(lia)) as H.
    unfold expect_value in E. rewrite !pbind_unfold in E.
    destruct (next_value fuel (init_state k inp)) as [[o|e] s1]; [|cbn in E; discriminate].
    destruct H as [Hq _]. destruct o as [v0|].
    - cbn [pret] in E. rewrite pbind_unfold in E.
      destruct (expect_end_p fuel s1) as [[u|e] s2]; cbn [fst pret] in E; [|discriminate]. inversion E; subst v0.
      unfold opt_dv, dv in Hq. lia.
    - unfold liftR, peek_error in E. destruct (r_peek_position (rd s1)). cbn in E. discriminate.
  Qed.
End DepthBound.
