(* C09: the macro's parser reads the documented spelling of a value, as Rust
   token trees, to code that evaluates to that value. *)
From Coq Require Import SpecFloat Lia.
Require Import Base Value Float NumberOps ListOps Macro.
Require Import RoundtripProofs.

Section Spelling.
  (* whether a name can be written as a Rust identifier: decided by the Rust
     lexer, an oracle here; the theorem holds whatever it answers *)
  Variable is_ident : bytes -> bool.

  (* a punctuation-only symbol written bare: one Punct token per character,
     joint except the last. Not the three that mean something else to the macro
     when they stand alone: "-" (a sign before a number), ":" (a keyword
     marker) and "." (the dot of a dotted list) - those are spelled #"...". *)
  Fixpoint punct_spell (s : bytes) : list tt :=
    match s with
    | [] => []
    | [c] => [Punct c Alone]
    | c :: s' => Punct c Joint :: punct_spell s'
    end.
  Definition bare_punct (s : bytes) : bool :=
    match s with
    | [] => false
    | [c] => ident_start_punct c && negb (c =? 45) && negb (c =? 58) && negb (c =? 46)
    | c :: s' => ident_start_punct c && forallb ident_cont_punct s'
    end.

  Definition spell_name (s : bytes) : list tt :=
    if is_ident s then [Ident s] else [Lit (LStr s s)].

  Definition float_sign (f : f64) : bool :=
    match f with S754_zero s | S754_infinity s | S754_finite s _ _ => s | S754_nan => false end.

  Definition spell_number (n : number) : list tt :=
    match n with
    | PosInt u => [Lit (LInt u)]
    | NegInt i => [Punct 45 Alone; Lit (LInt (Z.to_N (- i)))]
    | Float f => if float_sign f then [Punct 45 Alone; Lit (LFloat (f64_neg f))] else [Lit (LFloat f)]
    end.

  Definition spell_atom (v : value) : list tt :=
    match v with
    | Nil => [Punct 35 Alone; Ident (s2b "nil")]
    | Bool b => [Punct 35 Alone; Ident (if b then s2b "t" else s2b "f")]
    | Number n => spell_number n
    | Char c => [Lit (LChar c)]
    | String s => [Lit (LStr s s)]
    | Symbol s => if is_ident s then [Ident s] else if bare_punct s then punct_spell s else [Punct 35 Alone; Lit (LStr s s)]
    | Keyword s => Punct 35 Joint :: Punct 58 Alone :: spell_name s
    | _ => []
    end.

  Fixpoint spell (v : value) : list tt :=
    match v with
    | Null => [Group Paren []]
    | Cons a d => [Group Paren (spell a ++ spell_tail d)]
    | Vector l => [Punct 35 Alone;
                   Group Paren ((fix elems (l : list value) : list tt :=
                                   match l with [] => [] | x :: l' => spell x ++ elems l' end) l)]
    | _ => spell_atom v
    end
  with spell_tail (d : value) : list tt :=
    match d with
    | Null => []
    | Cons a d' => spell a ++ spell_tail d'
    | Vector l => Punct 46 Alone :: [Punct 35 Alone;
                   Group Paren ((fix elems (l : list value) : list tt :=
                                   match l with [] => [] | x :: l' => spell x ++ elems l' end) l)]
    | _ => Punct 46 Alone :: spell_atom d
    end.

  Lemma spell_tail_noncons d : is_cons d = false -> is_null d = false -> spell_tail d = Punct 46 Alone :: spell d.
  Proof. destruct d; try discriminate; reflexivity. Qed.

  Definition spell_elems : list value -> list tt :=
    fix elems (l : list value) : list tt := match l with [] => [] | x :: l' => spell x ++ elems l' end.

  (* the values the macro documents: no byte vectors; negative integers as a
     minus sign and a literal *)
  Fixpoint cok (v : value) : Prop :=
    match v with
    | Bytes _ => False
    | Number (NegInt i) => (i < 0)%Z
    | Cons a d => cok a /\ cok d
    | Vector l => (fix all (l : list value) : Prop := match l with [] => True | x :: l' => cok x /\ all l' end) l
    | _ => True
    end.
  Definition all_cok : list value -> Prop :=
    fix all (l : list value) : Prop := match l with [] => True | x :: l' => cok x /\ all l' end.

  Variable ev : tt -> value.

  Definition not_list (m : mvalue) : Prop := match m with MList _ | MImproper _ _ => False | _ => True end.

  Lemma tts_size_app a b : tts_size (a ++ b) = (tts_size a + tts_size b)%nat.
  Proof. unfold tts_size. induction a as [|x a IH]; cbn [app fold_right]; [reflexivity|]. rewrite IH. lia. Qed.

  Lemma SFopp_invol f : f64_neg (f64_neg f) = f.
  Proof. destruct f as [s|s| |s m e]; cbn; try reflexivity; destruct s; reflexivity. Qed.

  (* mparse on the spelling of v, whatever follows *)
  Definition PV (v : value) : Prop :=
    forall fuel rest, cok v -> (2 * tts_size (spell v) <= fuel)%nat ->
      exists m, mparse fuel (spell v ++ rest) = MOk (m, rest) /\ meval ev m = v /\
                (is_cons v = false -> is_null v = false -> not_list m).

  Lemma spell_size_pos v : cok v -> (1 <= tts_size (spell v))%nat.
  Proof.
    destruct v as [| |b|n|c|s|s|s|bs|a d|l]; cbn [spell spell_atom cok]; intros H; try (cbn; lia); try contradiction.
    - destruct n as [u|i|f]; cbn [spell_number]; [cbn; lia|cbn; lia|destruct (float_sign f); cbn; lia].
    - destruct (is_ident s); [cbn; lia|]. destruct (bare_punct s) eqn:Eb; [|cbn; lia].
      destruct s as [|c [|c2 s2]]; [discriminate|cbn; lia|cbn [punct_spell tts_size fold_right tt_size]; lia].
  Qed.

  Lemma mparse_lit f l rest : mparse (S f) (Lit l :: rest) = MOk (MLiteral l, rest).
  Proof. reflexivity. Qed.
  Lemma mparse_neg f l rest : is_numeric_lit l = true ->
    mparse (S f) (Punct 45 Alone :: Lit l :: rest) = MOk (MNegated l, rest).
  Proof. intros H. destruct l as [n|fl|raw cooked|c|b]; try discriminate; try reflexivity. cbn in H. subst b. reflexivity. Qed.
  Lemma mparse_ident f s rest : mparse (S f) (Ident s :: rest) = MOk (MSymbol s, rest).
  Proof. reflexivity. Qed.
  Lemma mparse_hash_str f s sp raw rest : mparse (S f) (Punct 35 sp :: Lit (LStr raw s) :: rest) = MOk (MSymbol raw, rest).
  Proof. reflexivity. Qed.
  Lemma mparse_hash_nil f sp rest : mparse (S f) (Punct 35 sp :: Ident (s2b "nil") :: rest) = MOk (MNil, rest).
  Proof. reflexivity. Qed.
  Lemma mparse_hash_t f sp rest : mparse (S f) (Punct 35 sp :: Ident (s2b "t") :: rest) = MOk (MBool true, rest).
  Proof. reflexivity. Qed.
  Lemma mparse_hash_f f sp rest : mparse (S f) (Punct 35 sp :: Ident (s2b "f") :: rest) = MOk (MBool false, rest).
  Proof. reflexivity. Qed.
  Lemma mparse_kw_ident f sp sp2 s rest : mparse (S f) (Punct 35 sp :: Punct 58 sp2 :: Ident s :: rest) = MOk (MKeyword s, rest).
  Proof. reflexivity. Qed.
  Lemma mparse_kw_str f sp sp2 raw s rest : mparse (S f) (Punct 35 sp :: Punct 58 sp2 :: Lit (LStr raw s) :: rest) = MOk (MKeyword raw, rest).
  Proof. reflexivity. Qed.

  (* a bare punctuation symbol *)
  Lemma parse_identifier_punct s : forall acc rest, s <> [] -> forallb ident_cont_punct s = true ->
    parse_identifier (punct_spell s ++ rest) acc = (acc ++ s, rest).
  Proof.
    induction s as [|c s IH]; intros acc rest Hne Hall; [contradiction|].
    cbn [forallb] in Hall. apply andb_prop in Hall. destruct Hall as [Hc Hs].
    destruct s as [|c2 s2].
    - cbn [punct_spell app parse_identifier]. rewrite Hc. reflexivity.
    - change (punct_spell (c :: c2 :: s2)) with (Punct c Joint :: punct_spell (c2 :: s2)). cbn [app parse_identifier]. rewrite Hc.
      rewrite (IH (acc ++ [c]) rest ltac:(discriminate) Hs). rewrite <- app_assoc. reflexivity.
  Qed.
  Lemma start_not_special c : ident_start_punct c = true -> (c =? 35) = false /\ (c =? 44) = false.
  Proof.
    unfold ident_start_punct, memb. cbn [s2b existsb]. intros H.
    repeat (apply orb_true_iff in H; destruct H as [H|H]; [apply N.eqb_eq in H; subst c; split; reflexivity|]). discriminate.
  Qed.
  Lemma mparse_punct f s rest : bare_punct s = true -> mparse (S f) (punct_spell s ++ rest) = MOk (MSymbol s, rest).
  Proof.
    intros Hb. destruct s as [|c [|c2 s2]]; [discriminate| |].
    - cbn [bare_punct] in Hb. repeat (apply andb_prop in Hb; destruct Hb as [Hb ?]).
      destruct (start_not_special c Hb) as [E35 E44].
      cbn [punct_spell app mparse]. rewrite E35, E44, Hb.
      destruct (c =? 45) eqn:E45; [discriminate|]. destruct (c =? 58) eqn:E58; [discriminate|]. reflexivity.
    - change (bare_punct (c :: c2 :: s2)) with (ident_start_punct c && forallb ident_cont_punct (c2 :: s2)) in Hb.
      apply andb_prop in Hb. destruct Hb as [Hc Hs]. destruct (start_not_special c Hc) as [E35 E44].
      change (punct_spell (c :: c2 :: s2)) with (Punct c Joint :: punct_spell (c2 :: s2)). cbn [app mparse]. rewrite E35, E44, Hc.
      rewrite (parse_identifier_punct (c2 :: s2) [c] rest ltac:(discriminate) Hs). reflexivity.
  Qed.

  Lemma PV_atom v : is_cons v = false -> is_null v = false -> (forall l, v <> Vector l) -> PV v.
  Proof.
    intros Hc Hn Hv fuel rest Hok Hf. pose proof (spell_size_pos v Hok) as Hpos.
    destruct fuel as [|f]; [lia|]. clear Hpos Hf.
    destruct v as [| |b|n|c|s|s|s|bs|a d|l]; try discriminate; try (exfalso; eapply Hv; reflexivity); cbn [cok] in Hok; try contradiction;
      cbn [spell spell_atom spell_number spell_name app].
    - rewrite mparse_hash_nil. eexists. repeat split; cbn; auto.
    - destruct b; [rewrite mparse_hash_t|rewrite mparse_hash_f]; eexists; repeat split; cbn; auto.
    - destruct n as [u|i|fl]; cbn [spell_number app].
      + rewrite mparse_lit. eexists. repeat split; cbn; auto.
      + rewrite mparse_neg by reflexivity. eexists. split; [reflexivity|]. split; [|cbn; auto]. cbn [meval value_of_neg_lit]. unfold num_from_signed.
        rewrite Z2N.id by lia. replace (- - i)%Z with i by lia. destruct (0 <=? i)%Z eqn:E; [lia|reflexivity].
      + destruct (float_sign fl) eqn:Es; cbn [app]; [rewrite mparse_neg by reflexivity|rewrite mparse_lit]; eexists; (split; [reflexivity|]); (split; [|cbn; auto]);
          cbn [meval value_of_neg_lit value_of_lit]; [now rewrite SFopp_invol|reflexivity].
    - rewrite mparse_lit. eexists. repeat split; cbn; auto.
    - rewrite mparse_lit. eexists. repeat split; cbn; auto.
    - destruct (is_ident s); cbn [app]; [rewrite mparse_ident; eexists; repeat split; cbn; auto|].
      destruct (bare_punct s) eqn:Eb; [rewrite (mparse_punct f s rest Eb)|cbn [app]; rewrite mparse_hash_str]; eexists; repeat split; cbn; auto.
    - unfold spell_name. destruct (is_ident s); cbn [app]; [rewrite mparse_kw_ident|rewrite mparse_kw_str]; eexists; repeat split; cbn; auto.
  Qed.

  (* ---- lists and vectors ---- *)
  Lemma mparse_group f inner rest :
    mparse (S f) (Group Paren inner :: rest) =
    match mparse_list f inner [] None with MOk v => MOk (v, rest) | MErr e => MErr e end.
  Proof. reflexivity. Qed.
  Lemma mparse_vec f sp inner rest :
    mparse (S f) (Punct 35 sp :: Group Paren inner :: rest) =
    match mparse_seq f inner with MOk els => MOk (MVector els, rest) | MErr e => MErr e end.
  Proof. reflexivity. Qed.

  Definition hd_ok (t : tt) : Prop :=
    match t with
    | Punct 35 _ => True
    | Punct 45 Alone => True
    | Punct c s => ident_start_punct c = true /\ (c = 46 -> s = Joint)
    | Lit _ | Ident _ | Group _ _ => True
    end.

  Lemma mparse_list_elem f t ts elements : hd_ok t ->
    mparse_list (S f) (t :: ts) elements None =
    match mparse f (t :: ts) with
    | MOk (v, rest) => mparse_list f rest (elements ++ [v]) None
    | MErr e => MErr e
    end.
  Proof.
    destruct t as [c s|l|i|d inner]; intros H; try reflexivity.
    destruct c as [|p]; [reflexivity|].
    do 7 (try (destruct p as [p|p|]; try reflexivity)).
    destruct s; [|reflexivity]. cbn [hd_ok] in H. destruct H as [_ H]. discriminate (H eq_refl).
  Qed.

  Lemma mparse_list_nil f elements : mparse_list (S f) [] elements None = MOk (MList elements).
  Proof. reflexivity. Qed.
  Lemma mparse_list_dot f ts elements :
    mparse_list (S f) (Punct 46 Alone :: ts) elements None =
    match mparse f ts with
    | MOk (v, rest) => mparse_list f rest elements (Some v)
    | MErr e => MErr e
    end.
  Proof. reflexivity. Qed.
  Lemma mparse_list_end_tail f elements m : not_list m ->
    mparse_list (S f) [] elements (Some m) = MOk (MImproper elements m).
  Proof. destruct m; cbn [not_list]; intros H; try contradiction; reflexivity. Qed.
  Lemma mparse_seq_cons f t ts :
    mparse_seq (S f) (t :: ts) =
    match mparse f (t :: ts) with
    | MOk (v, rest) => match mparse_seq f rest with MOk vs => MOk (v :: vs) | MErr e => MErr e end
    | MErr e => MErr e
    end.
  Proof. reflexivity. Qed.

  Lemma spell_head v : cok v -> exists t ts, spell v = t :: ts /\ hd_ok t.
  Proof.
    destruct v as [| |b|n|c|s|s|s|bs|a d|l]; cbn [spell spell_atom cok]; intros H; try contradiction;
      try (eexists; eexists; split; [reflexivity|exact I]).
    - destruct n as [u|i|f]; cbn [spell_number]; [| |destruct (float_sign f)]; eexists; eexists; split; try reflexivity; exact I.
    - destruct (is_ident s); [eexists; eexists; split; try reflexivity; exact I|].
      destruct (bare_punct s) eqn:Eb; [|eexists; eexists; split; try reflexivity; exact I].
      destruct s as [|c [|c2 s2]]; [discriminate| |].
      + cbn [bare_punct] in Eb. repeat (apply andb_prop in Eb; destruct Eb as [Eb ?]).
        exists (Punct c Alone), []. split; [reflexivity|].
        assert (Hne : c <> 46) by (intros ->; discriminate).
        destruct c as [|p]; [discriminate Eb|]. cbn [hd_ok].
        do 7 (try (destruct p as [p|p|]; try (split; [exact Eb|intros E46; try discriminate E46; try (exfalso; exact (Hne E46))]); try exact I)).
      + change (bare_punct (c :: c2 :: s2)) with (ident_start_punct c && forallb ident_cont_punct (c2 :: s2)) in Eb.
        apply andb_prop in Eb. destruct Eb as [Hc _].
        exists (Punct c Joint), (punct_spell (c2 :: s2)). split; [reflexivity|].
        destruct c as [|p]; [discriminate Hc|]. cbn [hd_ok].
        do 7 (try (destruct p as [p|p|]; try (split; [exact Hc|intros _; reflexivity]); try exact I)).
  Qed.

  Definition LT (d : value) : Prop :=
    forall fuel elements, cok d -> (2 * tts_size (spell_tail d) + 1 <= fuel)%nat ->
      exists m, mparse_list fuel (spell_tail d) elements None = MOk m /\
                meval ev m = build (map (meval ev) elements) d.

  Lemma LT_null : LT Null.
  Proof.
    intros fuel elements _ Hf. destruct fuel as [|f]; [lia|]. cbn [spell_tail]. rewrite mparse_list_nil.
    eexists. split; [reflexivity|]. reflexivity.
  Qed.

  Lemma LT_cons a d : PV a -> LT d -> LT (Cons a d).
  Proof.
    intros Ha Hd fuel elements [Hoka Hokd] Hf. destruct fuel as [|f]; [lia|].
    cbn [spell_tail] in *. rewrite tts_size_app in Hf. pose proof (spell_size_pos a Hoka) as Hpos.
    destruct (spell_head a Hoka) as (t & ts & E & Ht).
    assert (Em : mparse_list (S f) (spell a ++ spell_tail d) elements None =
                 match mparse f (spell a ++ spell_tail d) with
                 | MOk (v, rest) => mparse_list f rest (elements ++ [v]) None
                 | MErr e => MErr e
                 end) by (rewrite E; cbn [app]; apply mparse_list_elem; exact Ht).
    rewrite Em. destruct (Ha f (spell_tail d) Hoka ltac:(lia)) as (ma & E1 & Ev & _). rewrite E1.
    destruct (Hd f (elements ++ [ma]) Hokd ltac:(lia)) as (m & E2 & Ev2). exists m. split; [exact E2|].
    rewrite Ev2, map_app. cbn [map]. rewrite Ev. apply build_snoc.
  Qed.

  Lemma LT_dot d : PV d -> is_cons d = false -> is_null d = false -> LT d.
  Proof.
    intros Hd Hc Hn fuel elements Hok Hf. destruct fuel as [|f]; [lia|].
    rewrite (spell_tail_noncons d Hc Hn) in *. change (tts_size (Punct 46 Alone :: spell d)) with (S (tts_size (spell d))) in Hf.
    rewrite mparse_list_dot. destruct (Hd f [] Hok ltac:(lia)) as (md & E1 & Ev & Hnl). rewrite app_nil_r in E1. rewrite E1.
    destruct f as [|f']; [pose proof (spell_size_pos d Hok); lia|].
    rewrite (mparse_list_end_tail f' elements md (Hnl Hc Hn)). eexists. split; [reflexivity|].
    cbn [meval]. rewrite Ev. reflexivity.
  Qed.

  Lemma PV_list v : is_cons v = true \/ is_null v = true -> LT v -> PV v.
  Proof.
    intros Hshape HL fuel rest Hok Hf. destruct fuel as [|f]; [pose proof (spell_size_pos v Hok); lia|].
    assert (Es : spell v = [Group Paren (spell_tail v)]) by (destruct v; destruct Hshape as [H|H]; try discriminate H; reflexivity).
    rewrite Es in *. cbn [app]. rewrite mparse_group.
    change (tts_size [Group Paren (spell_tail v)]) with (S (tts_size (spell_tail v)) + 0)%nat in Hf.
    destruct (HL f [] Hok ltac:(lia)) as (m & E & Ev). rewrite E. exists m. split; [reflexivity|]. split; [exact Ev|].
    intros Hc Hn. destruct Hshape; congruence.
  Qed.

  Lemma SEQ l : Forall PV l -> forall fuel, all_cok l -> (2 * tts_size (spell_elems l) + 1 <= fuel)%nat ->
    exists ms, mparse_seq fuel (spell_elems l) = MOk ms /\ map (meval ev) ms = l.
  Proof.
    induction 1 as [|x l Hx _ IH]; intros fuel Hok Hf; (destruct fuel as [|f]; [lia|]).
    - exists []. split; reflexivity.
    - cbn [all_cok] in Hok. destruct Hok as [Hokx Hokl]. cbn [spell_elems] in *. rewrite tts_size_app in Hf.
      pose proof (spell_size_pos x Hokx) as Hpos. destruct (spell_head x Hokx) as (t & ts & E & _).
      assert (Em : mparse_seq (S f) (spell x ++ spell_elems l) =
                   match mparse f (spell x ++ spell_elems l) with
                   | MOk (v, rest) => match mparse_seq f rest with MOk vs => MOk (v :: vs) | MErr e => MErr e end
                   | MErr e => MErr e
                   end) by (rewrite E; cbn [app]; apply mparse_seq_cons).
      rewrite Em. destruct (Hx f (spell_elems l) Hokx ltac:(lia)) as (mx & E1 & Ev & _). rewrite E1.
      destruct (IH f Hokl ltac:(lia)) as (ms & E2 & Ev2). rewrite E2. exists (mx :: ms). split; [reflexivity|].
      cbn [map]. now rewrite Ev, Ev2.
  Qed.

  Lemma PV_vector l : Forall PV l -> PV (Vector l).
  Proof.
    intros Hl fuel rest Hok Hf. destruct fuel as [|f]; [cbn in Hf; lia|].
    change (spell (Vector l)) with [Punct 35 Alone; Group Paren (spell_elems l)] in *. cbn [app]. rewrite mparse_vec.
    change (tts_size [Punct 35 Alone; Group Paren (spell_elems l)]) with (S (S (tts_size (spell_elems l)) + 0))%nat in Hf.
    destruct (SEQ l Hl f Hok ltac:(lia)) as (ms & E & Ev). rewrite E. exists (MVector ms). split; [reflexivity|].
    split; [cbn [meval]; now rewrite Ev|]. intros _ _. exact I.
  Qed.

  Theorem macro_reads_spelling v : PV v /\ LT v.
  Proof.
    induction v as [| |b|n|c|s|s|s|bs|a d [IHa _] [_ IHd]|l H] using value_ind';
      try (split; [apply PV_atom; [reflexivity|reflexivity|intros; discriminate]
                  |apply LT_dot; [apply PV_atom; [reflexivity|reflexivity|intros; discriminate]|reflexivity|reflexivity]]).
    - split; [apply PV_list; [right; reflexivity|apply LT_null]|apply LT_null].
    - split; [apply PV_list; [left; reflexivity|]|]; apply LT_cons; assumption.
    - assert (Hl : Forall PV l) by (eapply Forall_impl; [|exact H]; intros x [Hx _]; exact Hx).
      split; [apply PV_vector; exact Hl|apply LT_dot; [apply PV_vector; exact Hl|reflexivity|reflexivity]].
  Qed.

  (* the whole macro: parse the token stream, evaluate the generated code *)
  Theorem macro_value v : cok v -> exists m, macro_parse (spell v) = MOk m /\ meval ev m = v.
  Proof.
    intros Hok. unfold macro_parse.
    destruct (proj1 (macro_reads_spelling v) (2 * tts_size (spell v) + 4)%nat [] Hok ltac:(lia)) as (m & E & Ev & _).
    rewrite app_nil_r in E. rewrite E. exists m. auto.
  Qed.

End Spelling.
