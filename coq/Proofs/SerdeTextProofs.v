(* C04, the text path: what the serializer produces for data of a float-free
   type whose field and variant names are plain identifiers lies in the class
   of values that C01's text round trip covers, and is nested no deeper than
   the type is. *)
From Coq Require Import SpecFloat ZifyBool ZifyNat ZifyN.
Require Import Base Value Float NumberOps ListOps Utf8 Num SerdeModel SerdeProofs.
Require Import Scan Depth ScanProofs Utf8Proofs TokenProofs CharStrProofs TextProofs RoundtripProofs.

(* ---- lists built by Value::list ---- *)
Lemma list_max_cons x l : list_max (x :: l) = Nat.max x (list_max l).
Proof. reflexivity. Qed.
Lemma list_max_nil : list_max [] = 0%nat.
Proof. reflexivity. Qed.
Lemma rdepth_rest_build vs : rdepth_rest (build vs Null) = list_max (map rdepth vs).
Proof. induction vs as [|x vs IH]; cbn [build rdepth_rest map]; rewrite ?list_max_cons, ?list_max_nil; [reflexivity|]. now rewrite IH. Qed.
Lemma rdepth_build vs : (rdepth (build vs Null) <= S (list_max (map rdepth vs)))%nat.
Proof.
  destruct vs as [|x vs]; cbn [build rdepth map]; rewrite ?list_max_cons, ?list_max_nil; [lia|].
  rewrite rdepth_rest_build. lia.
Qed.
Lemma rdepth_rest_le' d : (rdepth_rest d <= rdepth d)%nat.
Proof. destruct d; cbn [rdepth rdepth_rest]; lia. Qed.

Section Class.
  Variable alpha : N -> bool.
  Variable is_f32 : f64 -> bool.
  Local Notation ser := (ser is_f32).
  Local Notation ser_seq := (ser_seq is_f32).
  Local Notation ser_tuple := (ser_tuple is_f32).
  Local Notation ser_map := (ser_map is_f32).
  Local Notation ser_fields := (ser_fields is_f32).
  Local Notation ser_variant := (ser_variant is_f32).
  Local Notation ser_find := (ser_find is_f32).
  Local Notation rt_ok := (rt_ok alpha).
  Local Notation plain_symbol := (plain_symbol alpha).

  Lemma rt_ok_build vs : Forall rt_ok vs -> rt_ok (build vs Null).
  Proof. induction 1 as [|x vs Hx _ IH]; cbn [build RoundtripProofs.rt_ok]; [exact I|split; assumption]. Qed.
  Lemma rt_ok_vec vs : Forall rt_ok vs -> rt_ok (Vector vs).
  Proof. rewrite rt_ok_vector. induction 1 as [|x vs Hx _ IH]; cbn [all_rt_ok]; [exact I|split; assumption]. Qed.

  (* ---- the types: no floats, integers of at most 64 bits, names that the
     printer writes bare and the reader takes for symbols ---- *)
  Fixpoint text_ty (t : ty) : Prop :=
    match t with
    | TyF32 | TyF64 => False
    | TyInt _ bits => bits <= 64
    | TyOption t' | TySeq t' | TyNewtype t' => text_ty t'
    | TyTuple ts => (fix go (l : list ty) : Prop := match l with [] => True | x :: l' => text_ty x /\ go l' end) ts
    | TyMap k v => text_ty k /\ text_ty v
    | TyStruct fs =>
        (fix go (l : list (bytes * ty)) : Prop :=
           match l with [] => True | f :: l' => (plain_symbol (fst f) /\ text_ty (snd f)) /\ go l' end) fs
    | TyEnum vs =>
        (fix go (l : list (bytes * variant)) : Prop :=
           match l with [] => True | v :: l' => (plain_symbol (fst v) /\ text_var (snd v)) /\ go l' end) vs
    | _ => True
    end
  with text_var (v : variant) : Prop :=
    match v with
    | VUnit => True
    | VNewtype t => text_ty t
    | VTuple ts => (fix go (l : list ty) : Prop := match l with [] => True | x :: l' => text_ty x /\ go l' end) ts
    | VStruct fs =>
        (fix go (l : list (bytes * ty)) : Prop :=
           match l with [] => True | f :: l' => (plain_symbol (fst f) /\ text_ty (snd f)) /\ go l' end) fs
    end.

  (* ---- the data: what the Rust types char, String and u8 guarantee ---- *)
  Fixpoint text_data (d : data) : Prop :=
    match d with
    | DChar c => is_scalar c = true
    | DString s => utf8_valid s = true
    | DBytes b => octets_ok b
    | DSome x | DNewtype x => text_data x
    | DSeq l | DTuple l | DStruct l =>
        (fix go (l : list data) : Prop := match l with [] => True | x :: l' => text_data x /\ go l' end) l
    | DMap l =>
        (fix go (l : list (data * data)) : Prop :=
           match l with [] => True | e :: l' => (text_data (fst e) /\ text_data (snd e)) /\ go l' end) l
    | DEnum _ p => text_payload p
    | _ => True
    end
  with text_payload (p : payload) : Prop :=
    match p with
    | PUnit => True
    | PNewtype x => text_data x
    | PTuple l | PStruct l =>
        (fix go (l : list data) : Prop := match l with [] => True | x :: l' => text_data x /\ go l' end) l
    end.
  Definition all_text_data : list data -> Prop :=
    fix go (l : list data) : Prop := match l with [] => True | x :: l' => text_data x /\ go l' end.
  Definition all_text_entries : list (data * data) -> Prop :=
    fix go (l : list (data * data)) : Prop :=
      match l with [] => True | e :: l' => (text_data (fst e) /\ text_data (snd e)) /\ go l' end.
  Definition all_text_ty : list ty -> Prop :=
    fix go (l : list ty) : Prop := match l with [] => True | x :: l' => text_ty x /\ go l' end.
  Definition all_text_fields : list (bytes * ty) -> Prop :=
    fix go (l : list (bytes * ty)) : Prop :=
      match l with [] => True | f :: l' => (plain_symbol (fst f) /\ text_ty (snd f)) /\ go l' end.
  Definition all_text_vars : list (bytes * variant) -> Prop :=
    fix go (l : list (bytes * variant)) : Prop :=
      match l with [] => True | v :: l' => (plain_symbol (fst v) /\ text_var (snd v)) /\ go l' end.

  (* a sufficient condition on names that can be computed: Rust identifiers
     and their snake/kebab-case renamings (ASCII, a letter or '_' first, no
     whitespace, parenthesis, bracket or ';') *)
  Definition ident_b (s : bytes) : bool :=
    match s with
    | [] => false
    | c :: _ => (is_ascii_alpha c || (c =? 95)) && forallb (fun b => (b <? 128) && negb (Scan.is_symbol_terminator b)) s
    end.
  Lemma ident_plain s : ident_b s = true -> plain_symbol s.
  Proof.
    destruct s as [|c s']; [discriminate|]. unfold ident_b. intros H.
    apply andb_prop in H. destruct H as [Hc Hall].
    assert (Hf : Forall (fun b => b < 128 /\ Scan.is_symbol_terminator b = false) (c :: s')).
    { apply Forall_forall. intros b Hb. pose proof (proj1 (forallb_forall _ _) Hall b Hb) as Hx.
      apply andb_prop in Hx. destruct Hx as [H1 H2]. split; [lia|]. now destruct (Scan.is_symbol_terminator b). }
    unfold RoundtripProofs.plain_symbol. split; [|split].
    - unfold ScanProofs.no_terminator. eapply Forall_impl; [|exact Hf]. intros b [_ Hb]; exact Hb.
    - unfold ScanProofs.symbol_ok. split.
      + cbn [beq_bytes]. destruct (c =? 46) eqn:E; [|reflexivity]. apply N.eqb_eq in E. subst c. discriminate Hc.
      + apply Utf8Proofs.ascii_valid. unfold Utf8Proofs.all_ascii. eapply Forall_impl; [|exact Hf]. intros b [Hb _]; exact Hb.
    - left. apply orb_prop in Hc. destruct Hc as [Hc|Hc]; [left; exact Hc|].
      apply N.eqb_eq in Hc. subst c. right; left. cbn. tauto.
  Qed.

  Definition in_class (t : ty) : Prop :=
    text_ty t -> forall d v, text_data d -> ser t d = Some v -> rt_ok v.
  Definition in_class_var (var : variant) : Prop :=
    text_var var -> forall name p v, plain_symbol name -> text_payload p -> ser_variant name var p = Some v -> rt_ok v.

  Lemma int_in_class s bits z : bits <= 64 -> int_in_range s bits z = true -> rt_ok (ser_int s bits z).
  Proof.
    intros Hb Hr. unfold ser_int, int_in_range in *.
    assert (Hp63 : (2 ^ (Z.of_N bits - 1) <= 2 ^ 63)%Z).
    { destruct (N.eq_dec bits 0) as [->|Hn]; [cbn; lia|]. apply Z.pow_le_mono_r; lia. }
    assert (Hp64 : (2 ^ Z.of_N bits <= 2 ^ 64)%Z) by (apply Z.pow_le_mono_r; lia).
    change (2 ^ 63)%Z with 9223372036854775808%Z in Hp63.
    change (2 ^ 64)%Z with 18446744073709551616%Z in Hp64.
    destruct s; cbn [orb].
    - unfold num_from_signed. destruct (0 <=? z)%Z eqn:Ez; cbn [RoundtripProofs.rt_ok]; unfold u64_MAX, i64_min; lia.
    - destruct (negb (bits =? 64)) eqn:E64.
      + unfold num_from_signed. destruct (0 <=? z)%Z eqn:Ez; cbn [RoundtripProofs.rt_ok]; unfold u64_MAX, i64_min; lia.
      + unfold num_from_unsigned. cbn [RoundtripProofs.rt_ok]. unfold u64_MAX. lia.
  Qed.

  Lemma seq_in_class t l vs : in_class t -> text_ty t -> all_text_data l -> ser_seq t l = Some vs -> Forall rt_ok vs.
  Proof.
    intros Ht Hty. revert vs; induction l as [|x l IH]; intros vs Hd H; cbn [SerdeProofs.ser_seq] in H.
    - inversion H; constructor.
    - destruct (ser t x) as [v|] eqn:Ex; [|discriminate]. destruct (ser_seq t l) as [vs'|] eqn:El; [|discriminate].
      inversion H; subst. destruct Hd as [Hx Hl]. constructor; [exact (Ht Hty _ _ Hx Ex)|apply IH; auto].
  Qed.
  Lemma tuple_in_class ts l vs : Forall in_class ts -> all_text_ty ts -> all_text_data l ->
    ser_tuple ts l = Some vs -> Forall rt_ok vs.
  Proof.
    intros Hts. revert l vs; induction Hts as [|t ts Ht Hts IH]; intros [|x l] vs Hty Hd H;
      cbn [SerdeProofs.ser_tuple] in H; try discriminate.
    - inversion H; constructor.
    - destruct (ser t x) as [v|] eqn:Ex; [|discriminate]. destruct (ser_tuple ts l) as [vs'|] eqn:El; [|discriminate].
      inversion H; subst. destruct Hty as [Hty1 Hty2]. destruct Hd as [Hx Hl].
      constructor; [exact (Ht Hty1 _ _ Hx Ex)|eapply IH; eauto].
  Qed.
  Lemma map_in_class kt vt l vs : in_class kt -> in_class vt -> text_ty kt -> text_ty vt -> all_text_entries l ->
    ser_map kt vt l = Some vs -> Forall rt_ok vs.
  Proof.
    intros Hk Hv Htk Htv. revert vs; induction l as [|[k x] l IH]; intros vs Hd H; cbn [SerdeProofs.ser_map] in H.
    - inversion H; constructor.
    - destruct (ser kt k) as [kv|] eqn:Ek; [|discriminate]. destruct (ser vt x) as [xv|] eqn:Ex; [|discriminate].
      destruct (ser_map kt vt l) as [vs'|] eqn:El; [|discriminate]. inversion H; subst.
      destruct Hd as [[Hdk Hdx] Hl]. cbn [fst snd] in Hdk, Hdx.
      constructor; [|apply IH; auto]. cbn [RoundtripProofs.rt_ok]. split; [exact (Hk Htk _ _ Hdk Ek)|exact (Hv Htv _ _ Hdx Ex)].
  Qed.
  Lemma fields_in_class fs l vs : Forall (fun f => in_class (snd f)) fs -> all_text_fields fs -> all_text_data l ->
    ser_fields fs l = Some vs -> Forall rt_ok vs.
  Proof.
    intros Hfs. revert l vs; induction Hfs as [|[n t] fs Ht Hfs IH]; intros [|x l] vs Hty Hd H;
      cbn [SerdeProofs.ser_fields] in H; try discriminate.
    - inversion H; constructor.
    - destruct (ser t x) as [v|] eqn:Ex; [|discriminate]. destruct (ser_fields fs l) as [vs'|] eqn:El; [|discriminate].
      inversion H; subst. destruct Hty as [[Hn Hty1] Hty2]. destruct Hd as [Hx Hl]. cbn [fst snd] in *.
      constructor; [|eapply IH; eauto]. cbn [RoundtripProofs.rt_ok]. split; [exact Hn|exact (Ht Hty1 _ _ Hx Ex)].
  Qed.
  Lemma find_in_class vs name p v : Forall (fun x => in_class_var (snd x)) vs -> all_text_vars vs -> text_payload p ->
    ser_find name p vs = Some v -> rt_ok v.
  Proof.
    induction 1 as [|[n var] vs Hv Hvs IH]; intros Hty Hp H; cbn [SerdeProofs.ser_find] in H; [discriminate|].
    destruct Hty as [[Hn Hvar] Hty]. cbn [fst snd] in *.
    destruct (beq_bytes n name) eqn:E.
    - apply beq_bytes_eq in E. subst n. exact (Hv Hvar name p v Hn Hp H).
    - exact (IH Hty Hp H).
  Qed.

  Theorem ser_in_class : forall t, in_class t.
  Proof.
    apply (ty_ind' in_class in_class_var); unfold in_class; intros.
    - destruct d; try discriminate. inversion H1; exact I.
    - destruct d; try discriminate. cbn [SerdeModel.ser] in H1.
      destruct (int_in_range s b z) eqn:Er; [|discriminate]. inversion H1; subst. now apply int_in_class.
    - contradiction.
    - contradiction.
    - destruct d; try discriminate. inversion H1; subst. exact H0.
    - destruct d; try discriminate. inversion H1; subst. exact H0.
    - destruct d; try discriminate. inversion H1; subst. exact H0.
    - destruct d; try discriminate. inversion H1; exact I.
    - (* option *)
      destruct d; try discriminate; cbn [SerdeModel.ser] in H2.
      + inversion H2; exact I.
      + destruct (ser t d) as [w|] eqn:E; [|discriminate]. inversion H2; subst.
        cbn [RoundtripProofs.rt_ok]. split; [exact (H H0 d w H1 E)|exact I].
    - (* seq *)
      destruct d; try discriminate. rewrite ser_seq_eq in H2.
      destruct (ser_seq t l) as [vs|] eqn:E; [|discriminate]. inversion H2; subst.
      apply rt_ok_build. exact (seq_in_class t l vs H H0 H1 E).
    - (* tuple *)
      destruct d; try discriminate. rewrite ser_tuple_eq in H2.
      destruct (ser_tuple ts l) as [vs|] eqn:E; [|discriminate]. inversion H2; subst.
      apply rt_ok_vec. exact (tuple_in_class ts l vs H H0 H1 E).
    - (* map *)
      destruct d; try discriminate. rewrite ser_map_eq in H3.
      destruct (ser_map k v l) as [vs|] eqn:E; [|discriminate]. inversion H3; subst.
      destruct H1 as [Hk Hv]. apply rt_ok_build. exact (map_in_class k v l vs H H0 Hk Hv H2 E).
    - (* struct *)
      destruct d; try discriminate. rewrite ser_struct_eq in H2.
      destruct (ser_fields fs l) as [vs|] eqn:E; [|discriminate]. inversion H2; subst.
      apply rt_ok_build. exact (fields_in_class fs l vs H H0 H1 E).
    - (* newtype *)
      destruct d; try discriminate. cbn [SerdeModel.ser] in H2. exact (H H0 d v H1 H2).
    - (* enum *)
      destruct d; try discriminate. rewrite ser_enum_eq in H2.
      exact (find_in_class vs name p v H H0 H1 H2).
    - (* VUnit *)
      unfold in_class_var. intros _ name p v Hn Hp Hs. destruct p; try discriminate. inversion Hs; subst. exact Hn.
    - (* VNewtype *)
      unfold in_class_var. intros Hty name p v Hn Hp Hs. destruct p; try discriminate. cbn [SerdeProofs.ser_variant] in Hs.
      destruct (ser t d) as [w|] eqn:E; [|discriminate]. inversion Hs; subst.
      cbn [RoundtripProofs.rt_ok]. split; [exact Hn|exact (H Hty d w Hp E)].
    - (* VTuple *)
      unfold in_class_var. intros Hty name p v Hn Hp Hs. destruct p; try discriminate. cbn [SerdeProofs.ser_variant] in Hs.
      destruct (ser_tuple ts l) as [vs|] eqn:E; [|discriminate]. inversion Hs; subst.
      cbn [RoundtripProofs.rt_ok]. split; [exact Hn|]. apply rt_ok_build. exact (tuple_in_class ts l vs H Hty Hp E).
    - (* VStruct *)
      unfold in_class_var. intros Hty name p v Hn Hp Hs. destruct p; try discriminate. cbn [SerdeProofs.ser_variant] in Hs.
      destruct (ser_fields fs l) as [vs|] eqn:E; [|discriminate]. inversion Hs; subst.
      cbn [RoundtripProofs.rt_ok]. split; [exact Hn|]. apply rt_ok_build. exact (fields_in_class fs l vs H Hty Hp E).
  Qed.

End Class.

(* ---- nesting: a serialized value is no deeper than its type ---- *)
Section Shallow.
  Variable is_f32 : f64 -> bool.
  Local Notation ser := (ser is_f32).
  Local Notation ser_seq := (ser_seq is_f32).
  Local Notation ser_tuple := (ser_tuple is_f32).
  Local Notation ser_map := (ser_map is_f32).
  Local Notation ser_fields := (ser_fields is_f32).
  Local Notation ser_variant := (ser_variant is_f32).
  Local Notation ser_find := (ser_find is_f32).

  Fixpoint tdepth (t : ty) : nat :=
    match t with
    | TyOption t' | TySeq t' => S (tdepth t')
    | TyNewtype t' => tdepth t'
    | TyTuple ts => S (list_max (map tdepth ts))
    | TyMap k v => S (S (Nat.max (tdepth k) (tdepth v)))
    | TyStruct fs => S (S (list_max (map (fun f => tdepth (snd f)) fs)))
    | TyEnum vs => S (list_max (map (fun v => vdepth (snd v)) vs))
    | _ => 1
    end
  with vdepth (v : variant) : nat :=
    match v with
    | VUnit => 0
    | VNewtype t => tdepth t
    | VTuple ts => list_max (map tdepth ts)
    | VStruct fs => S (list_max (map (fun f => tdepth (snd f)) fs))
    end.

  Definition shallow (t : ty) : Prop := forall d v, ser t d = Some v -> (rdepth v <= tdepth t)%nat.
  Definition shallow_var (var : variant) : Prop :=
    forall name p v, ser_variant name var p = Some v -> (rdepth v <= S (vdepth var))%nat.

  Lemma seq_shallow t l vs : shallow t -> ser_seq t l = Some vs -> (list_max (map rdepth vs) <= tdepth t)%nat.
  Proof.
    intros Ht. revert vs; induction l as [|x l IH]; intros vs H; cbn [SerdeProofs.ser_seq] in H.
    - inversion H; cbn; lia.
    - destruct (ser t x) as [v|] eqn:Ex; [|discriminate]. destruct (ser_seq t l) as [vs'|] eqn:El; [|discriminate].
      inversion H; subst. cbn [map]; rewrite ?list_max_cons, ?list_max_nil. pose proof (Ht _ _ Ex). pose proof (IH _ eq_refl). lia.
  Qed.
  Lemma tuple_shallow ts l vs : Forall shallow ts -> ser_tuple ts l = Some vs ->
    (list_max (map rdepth vs) <= list_max (map tdepth ts))%nat.
  Proof.
    intros Hts. revert l vs; induction Hts as [|t ts Ht Hts IH]; intros [|x l] vs H;
      cbn [SerdeProofs.ser_tuple] in H; try discriminate.
    - inversion H; cbn; lia.
    - destruct (ser t x) as [v|] eqn:Ex; [|discriminate]. destruct (ser_tuple ts l) as [vs'|] eqn:El; [|discriminate].
      inversion H; subst. cbn [map]; rewrite ?list_max_cons, ?list_max_nil. pose proof (Ht _ _ Ex). pose proof (IH _ _ El). lia.
  Qed.
  Lemma map_shallow kt vt l vs : shallow kt -> shallow vt -> ser_map kt vt l = Some vs ->
    (list_max (map rdepth vs) <= S (Nat.max (tdepth kt) (tdepth vt)))%nat.
  Proof.
    intros Hk Hv. revert vs; induction l as [|[k x] l IH]; intros vs H; cbn [SerdeProofs.ser_map] in H.
    - inversion H; cbn; lia.
    - destruct (ser kt k) as [kv|] eqn:Ek; [|discriminate]. destruct (ser vt x) as [xv|] eqn:Ex; [|discriminate].
      destruct (ser_map kt vt l) as [vs'|] eqn:El; [|discriminate]. inversion H; subst.
      cbn [map rdepth]; rewrite ?list_max_cons, ?list_max_nil. pose proof (Hk _ _ Ek). pose proof (Hv _ _ Ex). pose proof (rdepth_rest_le' xv).
      pose proof (IH _ eq_refl). lia.
  Qed.
  Lemma fields_shallow fs l vs : Forall (fun f => shallow (snd f)) fs -> ser_fields fs l = Some vs ->
    (list_max (map rdepth vs) <= S (list_max (map (fun f => tdepth (snd f)) fs)))%nat.
  Proof.
    intros Hfs. revert l vs; induction Hfs as [|[n t] fs Ht Hfs IH]; intros [|x l] vs H;
      cbn [SerdeProofs.ser_fields] in H; try discriminate.
    - inversion H; cbn; lia.
    - destruct (ser t x) as [v|] eqn:Ex; [|discriminate]. destruct (ser_fields fs l) as [vs'|] eqn:El; [|discriminate].
      inversion H; subst. cbn [map rdepth snd] in *; rewrite ?list_max_cons, ?list_max_nil in *. pose proof (Ht _ _ Ex). pose proof (rdepth_rest_le' v).
      pose proof (IH _ _ El). lia.
  Qed.
  Lemma find_shallow vs name p v : Forall (fun x => shallow_var (snd x)) vs -> ser_find name p vs = Some v ->
    (rdepth v <= S (list_max (map (fun x => vdepth (snd x)) vs)))%nat.
  Proof.
    induction 1 as [|[n var] vs Hv Hvs IH]; intros H; cbn [SerdeProofs.ser_find] in H; [discriminate|].
    cbn [map snd] in *; rewrite ?list_max_cons, ?list_max_nil in *. destruct (beq_bytes n name).
    - pose proof (Hv _ _ _ H). lia.
    - pose proof (IH H). lia.
  Qed.

  Theorem ser_shallow : forall t, shallow t.
  Proof.
    apply (ty_ind' shallow shallow_var); unfold shallow; intros.
    - destruct d; try discriminate. inversion H; cbn; lia.
    - destruct d; try discriminate. cbn [SerdeModel.ser] in H.
      destruct (int_in_range s b z); [|discriminate]. inversion H; subst. unfold ser_int.
      destruct (s || negb (b =? 64)); cbn; lia.
    - destruct d; try discriminate. cbn [SerdeModel.ser] in H. destruct (is_f32 f); [|discriminate]. inversion H; cbn; lia.
    - destruct d; try discriminate. inversion H; cbn; lia.
    - destruct d; try discriminate. inversion H; cbn; lia.
    - destruct d; try discriminate. inversion H; cbn; lia.
    - destruct d; try discriminate. inversion H; cbn; lia.
    - destruct d; try discriminate. inversion H; cbn; lia.
    - (* option *)
      destruct d; try discriminate; cbn [SerdeModel.ser] in H0.
      + inversion H0; cbn [rdepth tdepth]; lia.
      + destruct (ser t d) as [w|] eqn:E; [|discriminate]. inversion H0; subst.
        cbn [rdepth rdepth_rest tdepth]. pose proof (H _ _ E). lia.
    - (* seq *)
      destruct d; try discriminate. rewrite ser_seq_eq in H0.
      destruct (ser_seq t l) as [vs|] eqn:E; [|discriminate]. inversion H0; subst.
      cbn [tdepth]. unfold value_list. pose proof (rdepth_build vs). pose proof (seq_shallow _ _ _ H E). lia.
    - (* tuple *)
      destruct d; try discriminate. rewrite ser_tuple_eq in H0.
      destruct (ser_tuple ts l) as [vs|] eqn:E; [|discriminate]. inversion H0; subst.
      cbn [tdepth rdepth]. pose proof (tuple_shallow _ _ _ H E). lia.
    - (* map *)
      destruct d; try discriminate. rewrite ser_map_eq in H1.
      destruct (ser_map k v l) as [vs|] eqn:E; [|discriminate]. inversion H1; subst.
      cbn [tdepth]. unfold value_list. pose proof (rdepth_build vs). pose proof (map_shallow _ _ _ _ H H0 E). lia.
    - (* struct *)
      destruct d; try discriminate. rewrite ser_struct_eq in H0.
      destruct (ser_fields fs l) as [vs|] eqn:E; [|discriminate]. inversion H0; subst.
      cbn [tdepth]. unfold value_list. pose proof (rdepth_build vs). pose proof (fields_shallow _ _ _ H E). lia.
    - (* newtype *)
      destruct d; try discriminate. cbn [SerdeModel.ser] in H0. cbn [tdepth]. exact (H _ _ H0).
    - (* enum *)
      destruct d; try discriminate. rewrite ser_enum_eq in H0. cbn [tdepth].
      exact (find_shallow _ _ _ _ H H0).
    - unfold shallow_var. intros name p v Hs. destruct p; try discriminate. inversion Hs; cbn; lia.
    - unfold shallow_var. intros name p v Hs. destruct p; try discriminate. cbn [SerdeProofs.ser_variant] in Hs.
      destruct (ser t d) as [w|] eqn:E; [|discriminate]. inversion Hs; subst.
      cbn [rdepth vdepth]. pose proof (H _ _ E). pose proof (rdepth_rest_le' w). lia.
    - unfold shallow_var. intros name p v Hs. destruct p; try discriminate. cbn [SerdeProofs.ser_variant] in Hs.
      destruct (ser_tuple ts l) as [vs|] eqn:E; [|discriminate]. inversion Hs; subst.
      cbn [rdepth vdepth]. unfold value_list. rewrite rdepth_rest_build. pose proof (tuple_shallow _ _ _ H E). lia.
    - unfold shallow_var. intros name p v Hs. destruct p; try discriminate. cbn [SerdeProofs.ser_variant] in Hs.
      destruct (ser_fields fs l) as [vs|] eqn:E; [|discriminate]. inversion Hs; subst.
      cbn [rdepth vdepth]. unfold value_list. rewrite rdepth_rest_build. pose proof (fields_shallow _ _ _ H E). lia.
  Qed.
End Shallow.
