(* C12: trivia between the octets of a byte vector. An octet layout spells the
   contents of "#u8( ... )" with explicit trivia before every octet; the
   octets are in the printer's decimal spelling. *)
From Coq Require Import SpecFloat Lia ZifyBool ZifyNat ZifyN.
Require Import Base Value Float PrintOptions Printer ParseOptions Utf8 Reader Scan Num NumberOps Parser.
Require Import ReaderProofs ScanProofs TextProofs TokenProofs NumTokenProofs CharStrProofs.

Definition olay := list (bytes * N).
Fixpoint olay_text (l : olay) : bytes :=
  match l with [] => [] | (t, o) :: l' => t ++ dec_of_N o ++ olay_text l' end.
(* trivia is trivia, an octet that is not the first is set off from its
   predecessor, and octets are octets *)
Fixpoint olay_ok (first : bool) (l : olay) : Prop :=
  match l with
  | [] => True
  | (t, o) :: l' => trivia t /\ (first = true \/ t <> []) /\ o < 256 /\ olay_ok false l'
  end.

Lemma trivia_delim' t d rest : trivia t -> delim_ok (d :: rest) -> delim_ok (t ++ d :: rest).
Proof.
  intros Ht Hd. destruct t as [|c t']; [exact Hd|].
  destruct (trivia_head_ws (c :: t') Ht ltac:(discriminate)) as (c0 & t0 & E & Hc). inversion E; subst c0 t0.
  cbn [app delim_ok]. destruct Hc as [Hc| ->]; [|reflexivity].
  unfold is_ws, memb in Hc. cbn [existsb] in Hc. unfold is_symbol_terminator, memb. cbn [existsb].
  repeat (apply orb_true_iff in Hc; destruct Hc as [Hc|Hc]; [apply N.eqb_eq in Hc; subst c; reflexivity|]). discriminate.
Qed.

Section BytesLayout.
  Variable fast : bool.
  Variable std_parse : N -> Z -> f64.

  Lemma olay_rest_delim l cp rest : olay_ok false l -> trivia cp -> delim_ok (olay_text l ++ cp ++ 41 :: rest).
  Proof.
    destruct l as [|[t o] l']; cbn [olay_ok olay_text app].
    - intros _ Hcp. apply trivia_delim'; [exact Hcp|reflexivity].
    - intros (Ht & [Hf|Hne] & _) _; [discriminate|]. rewrite <- app_assoc.
      destruct t as [|c t']; [contradiction|].
      destruct (trivia_head_ws (c :: t') Ht ltac:(discriminate)) as (c0 & t0 & E & Hc). inversion E; subst c0 t0.
      cbn [app delim_ok]. destruct Hc as [Hc| ->]; [|reflexivity].
      unfold is_ws, memb in Hc. cbn [existsb] in Hc. unfold is_symbol_terminator, memb. cbn [existsb].
      repeat (apply orb_true_iff in Hc; destruct Hc as [Hc|Hc]; [apply N.eqb_eq in Hc; subst c; reflexivity|]). discriminate.
  Qed.

  Lemma byte_list_loop_lay l : forall fuel r acc cp rest first, olay_ok first l -> trivia cp ->
    (length (olay_text l) + length cp + 8 < fuel)%nat ->
    at_bytes r (olay_text l ++ cp ++ 41 :: rest) ->
    exists r', byte_list_loop fast std_parse fuel 41 acc r = (Ok (acc ++ map snd l), r') /\ at_bytes r' rest /\ rk r' = rk r.
  Proof.
    induction l as [|[t o] l IH]; intros fuel r acc cp rest first Hok Hcp Hf Ha;
      (destruct fuel as [|f]; [lia|]); cbn [byte_list_loop]; cbn [olay_text olay_ok app map snd length] in *.
    - destruct (ws_trivia cp Hcp f r 41 rest ltac:(lia) Ha close_starts_datum) as (r1 & E1 & Ha1 & Hp1 & Hk1).
      rewrite (bind_ok _ _ _ _ _ E1). change (41 =? 41) with true. cbv iota. step.
      exists r0. unfold ret. rewrite app_nil_r. repeat split; auto; congruence.
    - destruct Hok as (Ht & Hsep & Ho & Hok').
      destruct (dec_of_N_spec o) as (ds & E & Hne & Hd & Hv & _). rewrite E in *.
      destruct ds as [|d ds]; [contradiction|]. pose proof (Forall_inv Hd) as Hdig. cbv beta in Hdig.
      rewrite !app_length in Hf. cbn [length] in Hf.
      rewrite <- !app_assoc in Ha. cbn [app] in Ha.
      destruct (ws_trivia t Ht f r d _ ltac:(lia) Ha (digit_starts_datum d Hdig)) as (r1 & E1 & Ha1 & Hp1 & Hk1).
      rewrite (bind_ok _ _ _ _ _ E1).
      replace (d =? 41) with false by (unfold is_digit, in_range in Hdig; lia).
      pose proof (olay_rest_delim l cp rest Hok' Hcp) as Hr.
      change (d :: ds ++ olay_text l ++ cp ++ 41 :: rest) with ((d :: ds) ++ olay_text l ++ cp ++ 41 :: rest) in Ha1.
      destruct (parse_number_digits fast std_parse f r1 d ds _ ltac:(cbn [length]; lia) Hd Hr
                  ltac:(rewrite Hv; unfold u64_MAX; lia) Ha1) as (r2 & E2 & Ha2 & Hk2).
      rewrite (bind_ok _ _ _ _ _ E2). rewrite Hv. cbn [num_as_u64]. replace (255 <? o) with false by lia.
      destruct (IH f r2 (acc ++ [o]) cp rest false Hok' Hcp ltac:(lia) Ha2) as (r3 & E3 & Ha3 & Hk3).
      exists r3. rewrite E3, <- app_assoc. repeat split; auto; congruence.
  Qed.

  (* "#u8", trivia, "(", the octets, trivia, ")" - after the token #u8 *)
  Lemma parse_byte_list_lay fuel r p0 l cp rest : trivia p0 -> olay_ok true l -> trivia cp ->
    (length p0 + length (olay_text l) + length cp + 10 < fuel)%nat ->
    at_bytes r (p0 ++ 40 :: olay_text l ++ cp ++ 41 :: rest) ->
    exists r', parse_byte_list fast std_parse fuel 41 r = (Ok (map snd l), r') /\ at_bytes r' rest /\ rk r' = rk r.
  Proof.
    intros Hp0 Hok Hcp Hf Ha. unfold parse_byte_list.
    destruct (ws_trivia p0 Hp0 fuel r 40 _ ltac:(lia) Ha ltac:(split; [reflexivity|discriminate])) as (r1 & E1 & Ha1 & Hp1 & Hk1).
    rewrite (bind_ok _ _ _ _ _ E1). change (40 =? 40) with true. cbv iota. step.
    destruct (byte_list_loop_lay l fuel r0 [] cp rest true Hok Hcp ltac:(lia) Ha0) as (r2 & E2 & Ha2 & Hk2).
    exists r2. rewrite E2. cbn [app]. repeat split; auto; congruence.
  Qed.
End BytesLayout.
