(* The nesting budget (remaining_depth) is restored by every call, never
   underflows, and bounds the recursion: C03 (history invariant, no panic). *)
From Coq Require Import SpecFloat ZifyBool.
Require Import Base Value Float PrintOptions ParseOptions Utf8 Reader Scan Num NumberOps Parser.

Definition no_panic {A} (r : pres A) : Prop := forall k, r <> PErr (XPanic k).
Definition depth_ok (s : pstate) : Prop := 1 <= depth s <= 128.
Definition out_of_fuel_p {A} (r : pres A) : Prop := r = PErr (XErr EFuel).

(* m does not panic and, unless the model ran out of fuel, hands the nesting
   budget back as it found it *)
Definition good {A} (m : PM A) : Prop :=
  forall s, depth_ok s ->
    no_panic (fst (m s)) /\ (~ out_of_fuel_p (fst (m s)) -> depth (snd (m s)) = depth s).

Lemma good_pret {A} (a : A) : good (pret a).
Proof. intros s H; split; [intros k; discriminate|reflexivity]. Qed.

Lemma good_pfail_x {A} (e : perr) : good (@pfail A (XErr e)).
Proof. intros s H; split; [intros k; discriminate|reflexivity]. Qed.

(* Reader-level actions cannot touch the budget and cannot panic: their error
   type has no panic constructor. *)
Lemma good_liftR {A} (m : M A) : good (liftR m).
Proof.
  intros s H. unfold liftR. destruct (m (rd s)) as [[a|e] rd']; cbn [fst snd depth];
    (split; [intros k; discriminate|reflexivity]).
Qed.

Lemma depth_ok_eq s s' : depth s' = depth s -> depth_ok s -> depth_ok s'.
Proof. unfold depth_ok; intros ->; auto. Qed.

Lemma good_bind {A B} (m : PM A) (f : A -> PM B) :
  good m -> (forall a, good (f a)) -> good (pbind m f).
Proof.
  intros Hm Hf s H. unfold pbind. destruct (Hm s H) as [Hp Hd].
  destruct (m s) as [[a|e] s'] eqn:E; cbn [fst snd] in *.
  - assert (Hd' : depth s' = depth s) by (apply Hd; discriminate).
    destruct (Hf a s' (depth_ok_eq _ _ Hd' H)) as [Hp' Hd2]. split; [exact Hp'|]. intros Hn. rewrite Hd2; auto.
  - split.
    + intros k Hk. apply (Hp k). inversion Hk. reflexivity.
    + intros Hn. apply Hd. intros Hk. apply Hn. unfold out_of_fuel_p in *. inversion Hk. reflexivity.
Qed.

Lemma pbind_eq {A B} (m : PM A) (f : A -> PM B) s r s' : m s = (r, s') ->
  pbind m f s = match r with POk a => f a s' | PErr e => (PErr e, s') end.
Proof. intros E. unfold pbind. now rewrite E. Qed.

Lemma good_attempt_bind {A B} (m : PM A) (f : res A -> PM B) :
  good m -> (forall r, r <> Err EFuel -> good (f r)) -> good (pbind (attempt m) f).
Proof.
  intros Hm Hf s H. destruct (Hm s H) as [Hp Hd].
  assert (Ha : attempt m s =
               match m s with
               | (POk a, s') => (POk (Ok a), s')
               | (PErr (XErr EFuel), s') => (PErr (XErr EFuel), s')
               | (PErr (XPanic k), s') => (PErr (XPanic k), s')
               | (PErr (XErr e), s') => (POk (Err e), s')
               end) by reflexivity.
  destruct (m s) as [[a|[e|k]] s'] eqn:E; cbn [fst snd] in *.
  - rewrite (pbind_eq _ _ _ _ _ Ha).
    assert (Hd' : depth s' = depth s) by (apply Hd; discriminate).
    destruct (Hf (Ok a) ltac:(discriminate) s' (depth_ok_eq _ _ Hd' H)) as [Hp' Hd2].
    split; [exact Hp'|]. intros Hn. rewrite Hd2; auto.
  - destruct e as [c l cl|io|].
    + rewrite (pbind_eq _ _ _ _ _ Ha).
      assert (Hd' : depth s' = depth s) by (apply Hd; discriminate).
      destruct (Hf (Err (ESyntax c l cl)) ltac:(discriminate) s' (depth_ok_eq _ _ Hd' H)) as [Hp' Hd2].
      split; [exact Hp'|]. intros Hn. rewrite Hd2; auto.
    + rewrite (pbind_eq _ _ _ _ _ Ha).
      assert (Hd' : depth s' = depth s) by (apply Hd; discriminate).
      destruct (Hf (Err (EIo io)) ltac:(discriminate) s' (depth_ok_eq _ _ Hd' H)) as [Hp' Hd2].
      split; [exact Hp'|]. intros Hn. rewrite Hd2; auto.
    + rewrite (pbind_eq _ _ _ _ _ Ha). cbn [fst snd].
      split; [intros k0; discriminate|intros Hn; exfalso; apply Hn; reflexivity].
  - exfalso. eapply Hp; reflexivity.
Qed.

Lemma good_lift {A} (r : res A) : good (lift r).
Proof. destruct r as [a|e]; [apply good_pret|apply good_pfail_x]. Qed.

Lemma good_both {A} (r : res A) (e : res unit) : good (both r e).
Proof.
  destruct r as [a|er]; destruct e as [u|ee]; cbn [both];
    first [apply good_pret | apply good_pfail_x].
Qed.

Lemma peek_error_eq {A} c r : exists l cl, peek_error (A := A) c r = (Err (ESyntax c l cl), r).
Proof. unfold peek_error. destruct (r_peek_position r) as [l cl]. now exists l, cl. Qed.

Lemma inc_depth_spec s : depth s < 255 ->
  inc_depth s = (POk tt, {| rd := rd s; depth := depth s + 1 |}).
Proof.
  intros H. unfold inc_depth, pbind, get_depth, set_depth, panic, pfail. cbn [fst snd depth rd].
  destruct (255 <=? depth s) eqn:E; [lia|reflexivity].
Qed.

Lemma enter_nesting_spec s : depth_ok s ->
  (depth s = 1 /\ exists l cl, enter_nesting s = (PErr (XErr (ESyntax RecursionLimitExceeded l cl)), s)) \/
  (1 < depth s /\ enter_nesting s = (POk tt, {| rd := rd s; depth := depth s - 1 |})).
Proof.
  unfold depth_ok. intros H. destruct s as [r d]. cbn [depth rd] in *.
  unfold enter_nesting, dec_depth, inc_depth, pbind, get_depth, set_depth, panic, pfail, pret, liftR.
  cbn [fst snd depth rd].
  destruct (d =? 0) eqn:E0; [lia|]. cbn [fst snd depth rd].
  destruct (d - 1 =? 0) eqn:E1; cbn [fst snd depth rd].
  - left. split; [lia|].
    destruct (255 <=? d - 1) eqn:E2; [lia|]. cbn [fst snd depth rd].
    destruct (peek_error_eq (A := unit) RecursionLimitExceeded r) as (l & cl & ->).
    exists l, cl. f_equal. f_equal. lia.
  - right. split; [lia|reflexivity].
Qed.

(* The nesting block: enter_nesting; attempt body one level down; inc_depth; k *)
Lemma good_nest {A B} (body : PM A) (k : res A -> PM B) :
  good body -> (forall r, r <> Err EFuel -> good (k r)) ->
  good (pbind enter_nesting (fun _ => pbind (attempt body) (fun r => pbind inc_depth (fun _ => k r)))).
Proof.
  intros Hbody Hk s H.
  destruct (enter_nesting_spec s H) as [[Hd1 (l & cl & He)]|[Hd1 He]]; rewrite (pbind_eq _ _ _ _ _ He).
  - cbn. split; [intros k0; discriminate|intros _; reflexivity].
  - set (s1 := {| rd := rd s; depth := depth s - 1 |}).
    assert (H1 : depth_ok s1) by (unfold depth_ok, s1 in *; cbn; lia).
    destruct (Hbody s1 H1) as [Hp Hd].
    assert (Hcont : forall r s2, r <> Err EFuel -> depth s2 = depth s - 1 ->
              no_panic (fst (pbind inc_depth (fun _ => k r) s2)) /\
              (~ out_of_fuel_p (fst (pbind inc_depth (fun _ => k r) s2)) ->
               depth (snd (pbind inc_depth (fun _ => k r) s2)) = depth s)).
    { intros r s2 Hr Hs2. unfold pbind. unfold depth_ok in H.
      rewrite inc_depth_spec by lia.
      set (s3 := {| rd := rd s2; depth := depth s2 + 1 |}).
      assert (H3 : depth_ok s3) by (unfold depth_ok, s3; cbn; lia).
      destruct (Hk r Hr s3 H3) as [Hp3 Hd3]. split; [exact Hp3|].
      intros Hn. rewrite (Hd3 Hn). unfold s3; cbn; lia. }
    assert (Ha : attempt body s1 =
                 match body s1 with
                 | (POk a, s') => (POk (Ok a), s')
                 | (PErr (XErr EFuel), s') => (PErr (XErr EFuel), s')
                 | (PErr (XPanic k), s') => (PErr (XPanic k), s')
                 | (PErr (XErr e), s') => (POk (Err e), s')
                 end) by reflexivity.
    destruct (body s1) as [[a|[e|k0]] s2] eqn:Eb; cbn [fst snd] in *.
    + rewrite (pbind_eq _ _ _ _ _ Ha). apply (Hcont (Ok a) s2); [discriminate|]. rewrite Hd by discriminate. reflexivity.
    + destruct e as [c l cl|io|].
      * rewrite (pbind_eq _ _ _ _ _ Ha). apply (Hcont (Err (ESyntax c l cl)) s2); [discriminate|]. rewrite Hd by discriminate. reflexivity.
      * rewrite (pbind_eq _ _ _ _ _ Ha). apply (Hcont (Err (EIo io)) s2); [discriminate|]. rewrite Hd by discriminate. reflexivity.
      * rewrite (pbind_eq _ _ _ _ _ Ha). cbn [fst snd].
        split; [intros k0; discriminate|intros Hn; exfalso; apply Hn; reflexivity].
    + exfalso. eapply Hp; reflexivity.
Qed.

Section Main.
  Variable ro : parse_options.
  Variable alpha : N -> bool.
  Variable fast : bool.
  Variable std_parse : N -> Z -> f64.

  Local Notation next_value := (next_value ro alpha fast std_parse).
  Local Notation parse_list := (parse_list ro alpha fast std_parse).
  Local Notation parse_vector := (parse_vector ro alpha fast std_parse).
  Local Notation next_datum := (next_datum ro alpha fast std_parse).
  Local Notation parse_list_meta := (parse_list_meta ro alpha fast std_parse).
  Local Notation parse_vector_meta := (parse_vector_meta ro alpha fast std_parse).

  Ltac good_step :=
    first
      [ apply good_pret | apply good_pfail_x | apply good_liftR | apply good_lift | apply good_both
      | apply good_nest; [|intros ? ?]
      | apply good_attempt_bind; [|intros ? ?]
      | apply good_bind; [|intros ?]
      | match goal with
        | |- good (match ?x with _ => _ end) => destruct x
        | |- good (if ?x then _ else _) => destruct x
        | |- good (let '(_, _) := ?x in _) => destruct x
        end
      | assumption ].

  Lemma good_values fuel :
    good (next_value fuel) /\
    (forall t acc, good (parse_list fuel t acc)) /\
    (forall t acc, good (parse_vector fuel t acc)).
  Proof.
    induction fuel as [|f (IHv & IHl & IHvec)].
    - split; [|split]; intros; cbn [Parser.next_value Parser.parse_list Parser.parse_vector]; apply good_pfail_x.
    - split; [|split]; intros; cbn [Parser.next_value Parser.parse_list Parser.parse_vector];
        repeat good_step; auto.
  Qed.

  Lemma good_datums fuel :
    good (next_datum fuel) /\
    (forall t acc, good (parse_list_meta fuel t acc)) /\
    (forall t acc, good (parse_vector_meta fuel t acc)).
  Proof.
    induction fuel as [|f (IHv & IHl & IHvec)].
    - split; [|split]; intros; cbn [Parser.next_datum Parser.parse_list_meta Parser.parse_vector_meta]; apply good_pfail_x.
    - split; [|split]; intros; cbn [Parser.next_datum Parser.parse_list_meta Parser.parse_vector_meta];
        repeat good_step; auto.
  Qed.
End Main.

Section History.
  Variable ro : parse_options.
  Variable alpha : N -> bool.
  Variable fast : bool.
  Variable std_parse : N -> Z -> f64.

  Definition call_ok (r : call_result) : Prop :=
    (forall k, r <> RErr (XPanic k)).
  Definition call_fuel (r : call_result) : Prop := r = RErr (XErr EFuel).

  Lemma good_expect_value fuel : good (expect_value ro alpha fast std_parse fuel).
  Proof.
    unfold expect_value. apply good_bind; [apply good_values|].
    intros [v|]; [apply good_pret|apply good_liftR].
  Qed.
  Lemma good_expect_datum fuel : good (expect_datum ro alpha fast std_parse fuel).
  Proof.
    unfold expect_datum. apply good_bind; [apply good_datums|].
    intros [v|]; [apply good_pret|apply good_liftR].
  Qed.

  (* one API call: no panic, and the budget is back at its value unless the
     model ran out of fuel *)
  Lemma run_call_good fuel c s : depth_ok s ->
    let '(r, s') := run_call ro alpha fast std_parse fuel c s in
    call_ok r /\ (~ call_fuel r -> depth s' = depth s).
  Proof.
    intros H. unfold run_call, call_ok, call_fuel.
    destruct c.
    - destruct (proj1 (good_values ro alpha fast std_parse fuel) s H) as [Hp Hd].
      destruct (next_value _ _ _ _ fuel s) as [[o|e] s']; cbn [fst snd] in *.
      + split; [intros k; discriminate|intros _; apply Hd; discriminate].
      + split; [intros k E; inversion E; subst; eapply Hp; reflexivity|].
        intros Hn. apply Hd. intros E. apply Hn. unfold out_of_fuel_p in E. inversion E. reflexivity.
    - destruct (proj1 (good_datums ro alpha fast std_parse fuel) s H) as [Hp Hd].
      destruct (next_datum _ _ _ _ fuel s) as [[o|e] s']; cbn [fst snd] in *.
      + split; [intros k; discriminate|intros _; apply Hd; discriminate].
      + split; [intros k E; inversion E; subst; eapply Hp; reflexivity|].
        intros Hn. apply Hd. intros E. apply Hn. unfold out_of_fuel_p in E. inversion E. reflexivity.
    - destruct (good_expect_value fuel s H) as [Hp Hd].
      destruct (expect_value _ _ _ _ fuel s) as [[o|e] s']; cbn [fst snd] in *.
      + split; [intros k; discriminate|intros _; apply Hd; discriminate].
      + split; [intros k E; inversion E; subst; eapply Hp; reflexivity|].
        intros Hn. apply Hd. intros E. apply Hn. unfold out_of_fuel_p in E. inversion E. reflexivity.
    - destruct (good_expect_datum fuel s H) as [Hp Hd].
      destruct (expect_datum _ _ _ _ fuel s) as [[o|e] s']; cbn [fst snd] in *.
      + split; [intros k; discriminate|intros _; apply Hd; discriminate].
      + split; [intros k E; inversion E; subst; eapply Hp; reflexivity|].
        intros Hn. apply Hd. intros E. apply Hn. unfold out_of_fuel_p in E. inversion E. reflexivity.
    - destruct (good_liftR (expect_end fuel) s H) as [Hp Hd]. unfold expect_end_p.
      destruct (liftR (expect_end fuel) s) as [[o|e] s']; cbn [fst snd] in *.
      + split; [intros k; discriminate|intros _; apply Hd; discriminate].
      + split; [intros k E; inversion E; subst; eapply Hp; reflexivity|].
        intros Hn. apply Hd. intros E. apply Hn. unfold out_of_fuel_p in E. inversion E. reflexivity.
  Qed.

  (* every history of API calls on one parser: as long as the model does not
     run out of fuel, no call panics (in particular remaining_depth never
     underflows) *)
  Lemma history_no_panic fuel cs s : depth_ok s ->
    Forall (fun r => ~ call_fuel r) (run_history ro alpha fast std_parse fuel cs s) ->
    Forall call_ok (run_history ro alpha fast std_parse fuel cs s).
  Proof.
    revert s; induction cs as [|c cs IH]; intros s H Hf; cbn [run_history] in *; [constructor|].
    pose proof (run_call_good fuel c s H) as Hc.
    destruct (run_call ro alpha fast std_parse fuel c s) as [r s'].
    destruct Hc as [Hok Hd]. inversion Hf as [|? ? Hr Hrest]; subst.
    constructor; [exact Hok|].
    apply IH; [|exact Hrest]. apply (depth_ok_eq s s'); [apply Hd; exact Hr|exact H].
  Qed.

  Lemma init_depth_ok k inp : depth_ok (init_state k inp).
  Proof. unfold depth_ok, init_state, initial_depth; cbn; lia. Qed.
End History.
