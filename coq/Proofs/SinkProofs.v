(* write_all over an adversarial sink: nothing lost, errors surface. *)
Require Import Base Printer Sink PrinterProofs.
From Coq Require Import ZifyBool ZifyNat ZifyN.
Local Open Scope nat_scope.

(* The outcome of sending [buf] with write_all after [d0] has been delivered. *)
Definition expected (s : sched) (d0 buf : bytes) : wres * bytes :=
  match limit s with
  | None => (WOk, d0 ++ buf)
  | Some lim =>
      if (N.of_nat (length d0 + length buf) <=? lim)%N then (WOk, d0 ++ buf)
      else ((if hard s then WErrHard else WErrZero),
            d0 ++ firstn (N.to_nat lim - length d0) buf)
  end.

Lemma firstn_add_skipn' {A} (n m : nat) (l : list A) :
  firstn (n + m) l = firstn n l ++ firstn m (skipn n l).
Proof.
  revert l; induction n as [|n IH]; intros l; [reflexivity|].
  destruct l as [|x l]; [cbn; now destruct m|].
  cbn [Nat.add firstn skipn app]. now rewrite IH.
Qed.

Lemma write_all_spec fuel s d0 buf :
  length buf < fuel ->
  (forall lim, limit s = Some lim -> (N.of_nat (length d0) <= lim)%N) ->
  write_all_fuel fuel s d0 buf = expected s d0 buf.
Proof.
  revert d0 buf; induction fuel as [|f IH]; intros d0 buf Hf Hlim; [lia|].
  destruct buf as [|b buf'].
  { unfold expected; cbn [write_all_fuel length]. rewrite Nat.add_0_r.
    destruct (limit s) as [lim|] eqn:El; [|now rewrite app_nil_r].
    specialize (Hlim lim eq_refl).
    destruct (N.of_nat (length d0) <=? lim)%N eqn:E; [now rewrite app_nil_r|lia]. }
  cbn [write_all_fuel].
  set (buf := b :: buf') in *.
  assert (Hlen : length buf = S (length buf')) by reflexivity.
  unfold limit_reached, accept_count, expected.
  destruct (limit s) as [lim|] eqn:El.
  - specialize (Hlim lim eq_refl).
    destruct (lim <=? N.of_nat (length d0))%N eqn:E1.
    + (* limit reached *)
      assert (lim = N.of_nat (length d0)) by lia. subst lim.
      destruct (N.of_nat (length d0 + length buf) <=? N.of_nat (length d0))%N eqn:E2; [lia|].
      replace (N.to_nat (N.of_nat (length d0)) - length d0) with 0 by lia.
      cbn [firstn]. now rewrite app_nil_r.
    + set (n := N.to_nat (N.min (N.min (N.of_nat (length buf)) (N.max 1 (cap s))) (lim - N.of_nat (length d0)))).
      assert (Hn : 1 <= n <= length buf) by (unfold n; lia).
      assert (Hnl : n <= N.to_nat lim - length d0) by (unfold n; lia).
      clearbody n.
      destruct n as [|n'] eqn:En; [lia|]. rewrite <- En in *. clear En n'.
      rewrite IH.
      * unfold expected. rewrite El. rewrite app_length, firstn_length, skipn_length.
        replace (Nat.min n (length buf)) with n by lia.
        replace (length d0 + n + (length buf - n)) with (length d0 + length buf) by lia.
        destruct (N.of_nat (length d0 + length buf) <=? lim)%N eqn:E3.
        -- now rewrite <- app_assoc, firstn_skipn.
        -- f_equal. rewrite <- app_assoc. f_equal.
           replace (N.to_nat lim - length d0) with (n + (N.to_nat lim - (length d0 + n))) by lia.
           now rewrite firstn_add_skipn' .
      * rewrite skipn_length. lia.
      * intros lim' Hl'. inversion Hl'; subst lim'. rewrite app_length, firstn_length. lia.
  - set (n := N.to_nat (N.min (N.of_nat (length buf)) (N.max 1 (cap s)))).
    assert (Hn : 1 <= n <= length buf) by (unfold n; lia).
    clearbody n.
    destruct n as [|n'] eqn:En; [lia|]. rewrite <- En in *. clear En n'.
    rewrite IH.
    + unfold expected. rewrite El. now rewrite <- app_assoc, firstn_skipn.
    + rewrite skipn_length. lia.
    + intros lim' Hl'. congruence.
Qed.

Lemma run_sink_spec s t : all_wall t -> forall d0,
  (forall lim, limit s = Some lim -> (N.of_nat (length d0) <= lim)%N) ->
  run_sink s d0 t = expected s d0 (flatten t).
Proof.
  induction 1 as [|[k buf] t Hk Ht IH]; intros d0 Hlim.
  - cbn [run_sink flatten map concat]. unfold expected.
    destruct (limit s) as [lim|] eqn:El; [|now rewrite app_nil_r].
    specialize (Hlim lim eq_refl). cbn [length]. rewrite Nat.add_0_r.
    destruct (N.of_nat (length d0) <=? lim)%N eqn:E; [now rewrite app_nil_r|lia].
  - cbn [fst] in Hk. subst k. cbn [run_sink].
    rewrite write_all_spec by (auto; lia).
    change (flatten ((WAll, buf) :: t)) with (buf ++ flatten t).
    unfold expected at 1. destruct (limit s) as [lim|] eqn:El.
    + specialize (Hlim lim eq_refl).
      destruct (N.of_nat (length d0 + length buf) <=? lim)%N eqn:E.
      * rewrite IH by (intros lim' Hl'; inversion Hl'; subst; rewrite app_length; lia).
        unfold expected. rewrite El. rewrite !app_length, Nat.add_assoc.
        destruct (N.of_nat (length d0 + length buf + length (flatten t)) <=? lim)%N eqn:E2;
          [now rewrite <- app_assoc|].
        f_equal. rewrite <- app_assoc. f_equal.
        replace (N.to_nat lim - length d0) with (length buf + (N.to_nat lim - (length d0 + length buf))) by lia.
        now rewrite firstn_app_2.
      * unfold expected. rewrite El. rewrite app_length, Nat.add_assoc.
        destruct (N.of_nat (length d0 + length buf + length (flatten t)) <=? lim)%N eqn:E2; [lia|].
        destruct (hard s); f_equal; f_equal; rewrite firstn_app;
          replace (N.to_nat lim - length d0 - length buf) with 0 by lia;
          cbn [firstn]; now rewrite app_nil_r.
    + rewrite IH by (intros lim' Hl'; congruence).
      unfold expected. rewrite El. now rewrite <- app_assoc.
Qed.

(* The four clauses of C07, for any emission trace made of write_all calls. *)
Theorem sink_delivery s t : all_wall t ->
  let '(r, d) := run_sink s [] t in
  (exists rest, flatten t = d ++ rest) /\
  (r = WOk -> d = flatten t) /\
  (forall lim, limit s = Some lim -> (lim < N.of_nat (length (flatten t)))%N ->
     r = (if hard s then WErrHard else WErrZero) /\ d = firstn (N.to_nat lim) (flatten t)) /\
  ((limit s = None \/ exists lim, limit s = Some lim /\ (N.of_nat (length (flatten t)) <= lim)%N) ->
     r = WOk /\ d = flatten t).
Proof.
  intros Ht. rewrite (run_sink_spec s t Ht []) by (intros; cbn [length]; lia).
  unfold expected. cbn [length Nat.add app].
  destruct (limit s) as [lim|] eqn:El; rewrite ?Nat.sub_0_r.
  - destruct (N.of_nat (length (flatten t)) <=? lim)%N eqn:E.
    + split; [exists []; now rewrite app_nil_r|].
      split; [reflexivity|].
      split; [intros lim' Hl' Hlt; inversion Hl'; subst; lia|].
      intros _; split; reflexivity.
    + split; [exists (skipn (N.to_nat lim) (flatten t)); now rewrite firstn_skipn|].
      split; [destruct (hard s); discriminate|].
      split; [intros lim' Hl' Hlt; inversion Hl'; subst; split; reflexivity|].
      intros [H|[lim' [H H']]]; [discriminate|inversion H; subst; lia].
  - split; [exists []; now rewrite app_nil_r|].
    split; [reflexivity|].
    split; [intros lim' Hl'; discriminate|].
    intros _; split; reflexivity.
Qed.

(* The model can express the failure the property rules out: a bare write
   loses bytes on a short-writing sink and still reports success. *)
Example write_once_loses_bytes :
  run_sink {| cap := 1%N; limit := None; hard := true |} [] [(WOnce, [49; 50; 51]%N)] = (WOk, [49]%N).
Proof. reflexivity. Qed.
