(* Fuel sufficiency (C03 totality, C12 termination): the fuel handed out by
   fuel_for is enough for every input, so the model's own "out of fuel"
   outcome never occurs and every theorem that excludes it by hypothesis
   applies unconditionally.

   The measure is the number of events still to be delivered, [rem]. Every
   loop of the model spends one unit of fuel per iteration and every iteration
   that continues consumes at least one event, so a loop entered with
   [rem r < fuel] cannot exhaust its fuel. The judgement [ok n m] says: from
   every reader with at most n events left, m does not run out of fuel and
   leaves no more events than it found. *)
From Coq Require Import SpecFloat Lia ZifyBool ZifyNat ZifyN.
Require Import Base Value Float PrintOptions ParseOptions Utf8 Reader Scan Num NumberOps Parser.
Require Import RelFramework SpanProofs.

Definition rem (r : reader) : nat := length (rinput r).

(* ---- events never come back: instance of the generic traversal ---- *)
Definition Rrem (r : reader) (x : option perr) (r' : reader) : Prop := (rem r' <= rem r)%nat.

Lemma Rrem_ret r : Rrem r None r.  Proof. unfold Rrem. lia. Qed.
Lemma Rrem_seq r r1 x r2 : Rrem r None r1 -> Rrem r1 x r2 -> Rrem r x r2.
Proof. unfold Rrem. lia. Qed.
Lemma Rrem_fuel r : Rrem r (Some EFuel) r.  Proof. unfold Rrem. lia. Qed.
Lemma Rrem_rec1 r e r1 x r2 : Rrem r (Some e) r1 -> Rrem r1 x r2 -> Rrem r (Some e) r2.
Proof. unfold Rrem. lia. Qed.
Lemma Rrem_rec2 r e r1 e' r2 : Rrem r (Some e) r1 -> Rrem r1 (Some e') r2 -> Rrem r (Some e') r2.
Proof. unfold Rrem. lia. Qed.

Lemma skip_intr_len l : (length (skip_intr l) <= length l)%nat.
Proof. induction l as [|[b| |e] l IH]; cbn [skip_intr length]; lia. Qed.

Lemma consume_rem r b l : rem (consume r b l) = length l.
Proof. unfold consume, rem. destruct (advance (rline r) (rcol r) b). reflexivity. Qed.

Lemma discard_rem r : (rem (r_discard r) <= rem r)%nat.
Proof.
  unfold r_discard. destruct (rk r); try destruct (rpending r); try lia;
    destruct (rinput r) as [|[b| |e] l] eqn:E; try lia; rewrite consume_rem; unfold rem; rewrite E; cbn [length]; lia.
Qed.

Lemma advance_over_rem r bs rest : rem (advance_over r bs rest) = length rest.
Proof. unfold advance_over, rem. destruct (fold_left _ bs (rline r, rcol r)). reflexivity. Qed.

Lemma span_plain_len l : forall acc, (length (snd (span_plain l acc)) <= length l)%nat.
Proof.
  induction l as [|[b| |e] l IH]; intros acc; cbn [span_plain snd length]; try lia.
  destruct ((b =? 92) || (b =? 34)); cbn [snd length]; [lia|]. specialize (IH (acc ++ [b])). lia.
Qed.
Lemma span_symbol_len l : forall acc, (length (snd (span_symbol l acc)) <= length l)%nat.
Proof.
  induction l as [|[b| |e] l IH]; intros acc; cbn [span_symbol snd length]; try lia.
  destruct (is_symbol_terminator b); cbn [snd length]; [lia|]. specialize (IH (acc ++ [b])). lia.
Qed.

Lemma rem_peek : sat Rrem peek.
Proof.
  intros r. unfold peek, r_peek, R, Rrem. destruct (rpending r).
  - destruct (rinput r) as [|[b| |e] l]; cbn [fst snd]; lia.
  - pose proof (skip_intr_len (rinput r)) as H. unfold rem at 2.
    destruct (skip_intr (rinput r)) as [|[b| |e] l]; cbn [fst snd rem rinput length] in *; unfold rem; cbn [rinput length]; lia.
Qed.
Lemma rem_next : sat Rrem next_char.
Proof.
  intros r. unfold next_char, r_next, R, Rrem.
  assert (H : (length (if rpending r then rinput r else skip_intr (rinput r)) <= rem r)%nat).
  { destruct (rpending r); [unfold rem; lia|apply skip_intr_len]. }
  destruct (if rpending r then rinput r else skip_intr (rinput r)) as [|[b| |e] l]; cbn [fst snd length] in *;
    rewrite ?consume_rem; unfold rem in *; cbn [rinput length]; lia.
Qed.
Lemma rem_eat : sat Rrem eat_char.
Proof. intros r. unfold eat_char, R, Rrem. cbn [fst snd]. apply discard_rem. Qed.
Lemma rem_error A c : sat Rrem (@error A c).
Proof. intros r. unfold error, R, Rrem. destruct (r_position r). cbn [fst snd]. lia. Qed.
Lemma rem_peek_error A c : sat Rrem (@peek_error A c).
Proof. intros r. unfold peek_error, R, Rrem. destruct (r_peek_position r). cbn [fst snd]. lia. Qed.
Lemma rem_error_consume A c : sat Rrem (@error_consume A c).
Proof. intros r. unfold error_consume, peek_error, R, Rrem. destruct (r_peek_position r). cbn [fst snd]. apply discard_rem. Qed.
Lemma rem_take_run : sat Rrem take_run.
Proof.
  intros r. unfold take_run, R, Rrem. pose proof (span_plain_len (rinput r) []) as H.
  destruct (span_plain (rinput r) []) as [run rest]. cbn [snd] in H.
  destruct rest as [|[b| |e] rest']; cbn [fst snd]; rewrite ?consume_rem, ?advance_over_rem; unfold rem; cbn [length] in *; lia.
Qed.
Lemma rem_take_symbol : sat Rrem take_symbol_run.
Proof.
  intros r. unfold take_symbol_run, R, Rrem. pose proof (span_symbol_len (rinput r) []) as H.
  destruct (span_symbol (rinput r) []) as [run rest]. cbn [fst snd] in *. rewrite advance_over_rem. unfold rem. lia.
Qed.

(* ---- strict progress in the measure ---- *)
Definition rem_lt (r r' : reader) : Prop := (rem r' < rem r)%nat.
Lemma rem_lt_then r r1 r2 : rem_lt r r1 -> Rrem r1 None r2 -> rem_lt r r2.
Proof. unfold rem_lt, Rrem. lia. Qed.

Lemma discard_at b r : at_byte b r -> S (rem (r_discard r)) = rem r.
Proof.
  intros [Hp [l Hl]]. unfold r_discard. rewrite Hp, Hl. destruct (rk r); rewrite consume_rem; unfold rem; rewrite Hl; reflexivity.
Qed.
Lemma rem_lt_eat b : strict rem_lt b eat_char.
Proof. intros r H. unfold eat_char, rem_lt. pose proof (discard_at b r H). lia. Qed.
Lemma rem_lt_next b : strict rem_lt b next_char.
Proof.
  intros r [Hp [l Hl]]. unfold next_char, r_next, rem_lt. rewrite Hp, Hl. rewrite consume_rem. unfold rem. rewrite Hl. cbn [length]. lia.
Qed.

Lemma rem_lt_symbol_rd b fuel scratch : is_symbol_terminator b = false -> strict rem_lt b (parse_symbol_rd fuel scratch).
Proof.
  intros Hb r [Hp [l Hl]]. unfold parse_symbol_rd.
  assert (Hio : match (x <- scan_symbol_io fuel scratch ;; Scan.as_str x) r with (Ok _, r') => rem_lt r r' | (Err _, _) => True end).
  { destruct fuel as [|f]; [exact I|]. cbn [scan_symbol_io].
    unfold bind at 1. unfold bind at 1. unfold peek, r_peek. rewrite Hp, Hl. rewrite Hb.
    unfold bind at 1. unfold eat_char. cbn [fst snd].
    assert (Hd : rem_lt r (r_discard r)) by (pose proof (rem_lt_eat b r (conj Hp (ex_intro _ l Hl))) as H; unfold eat_char in H; exact H).
    pose proof (sat_scan_symbol_io Rrem Rrem_ret Rrem_seq Rrem_fuel rem_peek rem_eat rem_error f (scratch ++ [b]) (r_discard r)) as Hs.
    unfold R, Rrem in Hs. destruct (scan_symbol_io f (scratch ++ [b]) (r_discard r)) as [[x|e] r1]; cbn [fst snd] in *; [|exact I].
    pose proof (sat_as_str Rrem Rrem_ret rem_error x r1) as Ha. unfold R, Rrem in Ha.
    destruct (Scan.as_str x r1) as [[y|e] r2]; cbn [fst snd] in *; [|exact I].
    unfold rem_lt in *. lia. }
  assert (Hsl : match (x <- scan_symbol_slice scratch ;; finish_str x) r with (Ok _, r') => rem_lt r r' | (Err _, _) => True end).
  { unfold bind at 1. unfold scan_symbol_slice. rewrite Hl. cbn [span_symbol]. rewrite Hb.
    pose proof (span_symbol_len l ([] ++ [b])) as Hlen.
    destruct (span_symbol l ([] ++ [b])) as [scanned rest] eqn:Es. cbn [snd] in Hlen.
    set (r1 := advance_over r scanned rest).
    assert (Hd : rem_lt r r1).
    { unfold rem_lt, r1. rewrite advance_over_rem. unfold rem. rewrite Hl. cbn [length]. lia. }
    destruct (_ && _); [unfold error; destruct (r_position r1); exact I|].
    destruct (beq_bytes _ _); [unfold error; destruct (r_position r1); exact I|]. unfold ret.
    pose proof (sat_finish_str Rrem Rrem_ret rem_error (scratch ++ scanned) r1) as Ha. unfold R, Rrem in Ha.
    destruct (finish_str (scratch ++ scanned) r1) as [[y|e] r2]; cbn [fst snd] in *; [|exact I].
    unfold rem_lt in *. lia. }
  destruct (rk r); [exact Hsl|exact Hsl|exact Hio].
Qed.

Theorem token_consumes ro alpha fast std_parse fuel b r : at_byte b r ->
  match parse_token ro alpha fast std_parse fuel b r with
  | (Ok _, r') => (rem r' < rem r)%nat
  | (Err _, _) => True
  end.
Proof.
  exact (strict_parse_token Rrem Rrem_ret Rrem_seq Rrem_fuel rem_peek rem_next rem_eat rem_error rem_peek_error
           rem_take_run rem_take_symbol fast std_parse ro alpha rem_lt rem_lt_then rem_lt_eat rem_lt_next rem_lt_symbol_rd fuel b r).
Qed.

(* ---- the no-exhaustion judgement ---- *)
Definition okc {A} (m : M A) (r : reader) : Prop :=
  fst (m r) <> Err EFuel /\ (rem (snd (m r)) <= rem r)%nat.
Definition ok {A} (n : nat) (m : M A) : Prop := forall r, (rem r <= n)%nat -> okc m r.
Definition okat {A} (b : N) (n : nat) (m : M A) : Prop := forall r, at_byte b r -> (rem r <= n)%nat -> okc m r.

Lemma ok_mono {A} n n' (m : M A) : (n <= n')%nat -> ok n' m -> ok n m.
Proof. intros H Hm r Hr. apply Hm. lia. Qed.
Lemma okat_weaken {A} b n (m : M A) : ok n m -> okat b n m.
Proof. intros H r _ Hr. apply H. exact Hr. Qed.

Lemma ok_ret {A} n (a : A) : ok n (ret a).
Proof. intros r _. split; [discriminate|cbn; lia]. Qed.
Lemma ok_error {A} n c : ok n (@error A c).
Proof. intros r _. unfold okc, error. destruct (r_position r). split; [discriminate|cbn; lia]. Qed.
Lemma ok_peek_error {A} n c : ok n (@peek_error A c).
Proof. intros r _. unfold okc, peek_error. destruct (r_peek_position r). split; [discriminate|cbn; lia]. Qed.
Lemma ok_error_consume {A} n c : ok n (@error_consume A c).
Proof.
  intros r _. unfold okc, error_consume, peek_error. destruct (r_peek_position r). split; [discriminate|cbn [snd]; apply discard_rem].
Qed.
Lemma ok_sat {A} n (m : M A) : sat Rrem m -> (forall r, fst (m r) <> Err EFuel) -> ok n m.
Proof. intros Hs Hf r _. split; [apply Hf|apply Hs]. Qed.

Lemma peek_not_fuel r : fst (r_peek r) <> Err EFuel.
Proof.
  unfold r_peek. destruct (rpending r); [destruct (rinput r) as [|[b| |e] l]; discriminate|].
  destruct (skip_intr (rinput r)) as [|[b| |e] l]; discriminate.
Qed.
Lemma next_not_fuel r : fst (r_next r) <> Err EFuel.
Proof.
  unfold r_next. destruct (if rpending r then rinput r else skip_intr (rinput r)) as [|[b| |e] l]; try discriminate.
Qed.
Lemma ok_peek n : ok n peek.
Proof. apply ok_sat; [apply rem_peek|apply peek_not_fuel]. Qed.
Lemma ok_next n : ok n next_char.
Proof. apply ok_sat; [apply rem_next|apply next_not_fuel]. Qed.
Lemma ok_eat n : ok n eat_char.
Proof. apply ok_sat; [apply rem_eat|intros r; discriminate]. Qed.
Lemma ok_position n : ok n position.
Proof. intros r _. split; [discriminate|cbn; lia]. Qed.

Lemma ok_bind {A B} n (m : M A) (f : A -> M B) : ok n m -> (forall a, ok n (f a)) -> ok n (bind m f).
Proof.
  intros Hm Hf r Hr. unfold okc, bind. destruct (Hm r Hr) as [H1 H2].
  destruct (m r) as [[a|e] r1]; cbn [fst snd] in *.
  - destruct (Hf a r1 ltac:(lia)) as [H3 H4]. split; [exact H3|lia].
  - split; [intros E; apply H1; inversion E; reflexivity|exact H2].
Qed.
Lemma okat_bind {A B} b n (m : M A) (f : A -> M B) : okat b n m -> (forall a, ok n (f a)) -> okat b n (bind m f).
Proof.
  intros Hm Hf r Hb Hr. unfold okc, bind. destruct (Hm r Hb Hr) as [H1 H2].
  destruct (m r) as [[a|e] r1]; cbn [fst snd] in *.
  - destruct (Hf a r1 ltac:(lia)) as [H3 H4]. split; [exact H3|lia].
  - split; [intros E; apply H1; inversion E; reflexivity|exact H2].
Qed.

(* peek: the reader afterwards stands on the byte it reports *)
Lemma peek_cases r :
  match r_peek r with
  | (Ok (Some b), r') => at_byte b r' /\ (rem r' <= rem r)%nat
  | (Ok None, r') => (rem r' <= rem r)%nat
  | (Err e, r') => e <> EFuel /\ (rem r' <= rem r)%nat
  end.
Proof.
  pose proof (rem_peek r) as Hm. unfold R, Rrem, peek in Hm. pose proof (peek_not_fuel r) as Hf.
  unfold r_peek in *. destruct (rpending r) eqn:Hp.
  - destruct (rinput r) as [|[b| |e] l] eqn:Hl; cbn [fst snd] in *; try lia.
    split; [|lia]. split; [exact Hp|exists l; exact Hl].
  - destruct (skip_intr (rinput r)) as [|[b| |e] l] eqn:Hl; cbn [fst snd] in *; try lia.
    + split; [|exact Hm]. split; [reflexivity|exists l; reflexivity].
    + split; [congruence|exact Hm].
Qed.

Lemma ok_bind_peek {A} n (k : option N -> M A) :
  ok n (k None) -> (forall b, okat b n (k (Some b))) -> ok n (bind peek k).
Proof.
  intros Hn Hs r Hr. unfold okc, bind, peek. pose proof (peek_cases r) as Hc.
  destruct (r_peek r) as [[[b|]|e] r1]; cbn [fst snd].
  - destruct Hc as [Hb Hle]. destruct (Hs b r1 Hb ltac:(lia)) as [H1 H2]. split; [exact H1|lia].
  - destruct (Hn r1 ltac:(lia)) as [H1 H2]. split; [exact H1|lia].
  - destruct Hc as [He Hle]. split; [congruence|exact Hle].
Qed.
Lemma ok_bind_peek_or_null {A} n (k : N -> M A) :
  ok n (k 0) -> (forall b, okat b n (k b)) -> ok n (bind peek_or_null k).
Proof.
  intros Hn Hs r Hr. unfold okc, peek_or_null, bind, peek, ret. pose proof (peek_cases r) as Hc.
  destruct (r_peek r) as [[[b|]|e] r1]; cbn [fst snd].
  - destruct Hc as [Hb Hle]. destruct (Hs b r1 Hb ltac:(lia)) as [H1 H2]. split; [exact H1|lia].
  - destruct (Hn r1 ltac:(lia)) as [H1 H2]. split; [exact H1|lia].
  - destruct Hc as [He Hle]. split; [congruence|exact Hle].
Qed.
(* on a pending byte, peek changes nothing *)
Lemma peek_at b r : at_byte b r -> r_peek r = (Ok (Some b), r).
Proof. intros [Hp [l Hl]]. unfold r_peek. rewrite Hp, Hl. reflexivity. Qed.
Lemma okat_bind_peek {A} b n (k : option N -> M A) : okat b n (k (Some b)) -> okat b n (bind peek k).
Proof. intros H r Hb Hr. unfold okc, bind, peek. rewrite (peek_at b r Hb). apply H; assumption. Qed.
Lemma okat_bind_peek_or_null {A} b n (k : N -> M A) : okat b n (k b) -> okat b n (bind peek_or_null k).
Proof. intros H r Hb Hr. unfold okc, bind. rewrite (peek_or_null_at b r Hb). apply H; assumption. Qed.

(* discarding the pending byte leaves one event fewer *)
Lemma okat_bind_eat {B} b n (m : M B) :
  (forall n', n = S n' -> ok n' m) -> okat b n (bind (A := unit) eat_char (fun _ => m)).
Proof.
  intros H r Hb Hr. unfold okc, bind, eat_char. pose proof (discard_at b r Hb) as Hd.
  destruct n as [|n']; [lia|]. destruct (H n' eq_refl (r_discard r) ltac:(lia)) as [H1 H2]. split; [exact H1|lia].
Qed.
Lemma okat_bind_next {A} b n (k : option N -> M A) :
  (forall n', n = S n' -> ok n' (k (Some b))) -> okat b n (bind next_char k).
Proof.
  intros H r [Hp [l Hl]] Hr. unfold okc, bind, next_char, r_next. rewrite Hp, Hl.
  assert (Hd : S (rem (consume r b l)) = rem r) by (rewrite consume_rem; unfold rem; rewrite Hl; reflexivity).
  destruct n as [|n']; [lia|]. destruct (H n' eq_refl (consume r b l) ltac:(lia)) as [H1 H2]. split; [exact H1|lia].
Qed.

(* next: a delivered byte is one event fewer *)
Lemma next_cases r :
  match r_next r with
  | (Ok (Some b), r') => (rem r' < rem r)%nat
  | (Ok None, r') => (rem r' <= rem r)%nat
  | (Err e, r') => e <> EFuel /\ (rem r' <= rem r)%nat
  end.
Proof.
  unfold r_next.
  assert (H : (length (if rpending r then rinput r else skip_intr (rinput r)) <= rem r)%nat).
  { destruct (rpending r); [unfold rem; lia|apply skip_intr_len]. }
  destruct (if rpending r then rinput r else skip_intr (rinput r)) as [|[b| |e] l]; cbn [fst snd length] in *;
    rewrite ?consume_rem; unfold rem in *; cbn [rinput length]; try lia. split; [discriminate|lia].
Qed.
Lemma ok_bind_next {A} n (k : option N -> M A) :
  ok n (k None) -> (forall c n', n = S n' -> ok n' (k (Some c))) -> ok n (bind next_char k).
Proof.
  intros Hn Hs r Hr. unfold okc, bind, next_char. pose proof (next_cases r) as Hc.
  destruct (r_next r) as [[[b|]|e] r1]; cbn [fst snd].
  - destruct n as [|n']; [lia|]. destruct (Hs b n' eq_refl r1 ltac:(lia)) as [H1 H2]. split; [exact H1|lia].
  - destruct (Hn r1 ltac:(lia)) as [H1 H2]. split; [exact H1|lia].
  - destruct Hc as [He Hle]. split; [congruence|exact Hle].
Qed.
Lemma ok_bind_next_or_eof {A} n (k : N -> M A) :
  (forall c n', n = S n' -> ok n' (k c)) -> ok n (bind next_or_eof k).
Proof.
  intros Hs. unfold next_or_eof.
  intros r Hr. unfold okc, bind, next_char. pose proof (next_cases r) as Hc.
  destruct (r_next r) as [[[b|]|e] r1]; cbn [fst snd].
  - unfold ret. destruct n as [|n']; [lia|]. destruct (Hs b n' eq_refl r1 ltac:(lia)) as [H1 H2]. split; [exact H1|lia].
  - unfold error. destruct (r_position r1). cbn [fst snd]. split; [discriminate|lia].
  - destruct Hc as [He Hle]. split; [congruence|exact Hle].
Qed.
Lemma ok_bind_next_or_eof_char {A} n (k : N -> M A) :
  (forall c n', n = S n' -> ok n' (k c)) -> ok n (bind next_or_eof_char k).
Proof.
  intros Hs. unfold next_or_eof_char.
  intros r Hr. unfold okc, bind, next_char. pose proof (next_cases r) as Hc.
  destruct (r_next r) as [[[b|]|e] r1]; cbn [fst snd].
  - unfold ret. destruct n as [|n']; [lia|]. destruct (Hs b n' eq_refl r1 ltac:(lia)) as [H1 H2]. split; [exact H1|lia].
  - unfold error. destruct (r_position r1). cbn [fst snd]. split; [discriminate|lia].
  - destruct Hc as [He Hle]. split; [congruence|exact Hle].
Qed.

(* SliceRead's bulk run: when it stops on a byte, that byte is consumed *)
Lemma ok_bind_take_run {A} n (k : bytes * option N -> M A) :
  (forall run, ok n (k (run, None))) -> (forall run b n', n = S n' -> ok n' (k (run, Some b))) ->
  ok n (bind take_run k).
Proof.
  intros Hn Hs r Hr. unfold okc, bind, take_run. pose proof (span_plain_len (rinput r) []) as Hl.
  destruct (span_plain (rinput r) []) as [run rest]. cbn [snd] in Hl.
  destruct rest as [|[b| |e] rest'].
  - destruct (Hn run (advance_over r run []) ltac:(rewrite advance_over_rem; cbn; lia)) as [H1 H2].
    split; [exact H1|]. rewrite advance_over_rem in H2. cbn [length] in *. unfold rem at 2. lia.
  - assert (Hd : (S (rem (consume (advance_over r run (EByte b :: rest')) b rest')) <= rem r)%nat)
      by (rewrite consume_rem; unfold rem; cbn [length] in Hl; lia).
    destruct n as [|n']; [lia|].
    destruct (Hs run b n' eq_refl (consume (advance_over r run (EByte b :: rest')) b rest') ltac:(lia)) as [H1 H2].
    split; [exact H1|lia].
  - destruct (Hn run (advance_over r run (EInterrupted :: rest')) ltac:(rewrite advance_over_rem; unfold rem in Hr; lia)) as [H1 H2].
    split; [exact H1|]. rewrite advance_over_rem in H2. unfold rem at 2. lia.
  - destruct (Hn run (advance_over r run (EFail e :: rest')) ltac:(rewrite advance_over_rem; unfold rem in Hr; lia)) as [H1 H2].
    split; [exact H1|]. rewrite advance_over_rem in H2. unfold rem at 2. lia.
Qed.
Lemma ok_take_symbol n : ok n take_symbol_run.
Proof. apply ok_sat; [apply rem_take_symbol|]. intros r. unfold take_symbol_run. destruct (span_symbol (rinput r) []). discriminate. Qed.

Lemma ok_ext {A} n (m m' : M A) : (forall r, m r = m' r) -> ok n m' -> ok n m.
Proof. intros E H r Hr. unfold okc. rewrite E. apply H. exact Hr. Qed.
Lemma ok_by_rk {A} n (m : M A) (f : src_kind -> M A) :
  (forall r, m r = f (rk r) r) -> (forall k, ok n (f k)) -> ok n m.
Proof. intros E H r Hr. unfold okc. rewrite E. apply (H (rk r)). exact Hr. Qed.

Create HintDb okdb.
#[export] Hint Extern 1 (_ < _)%nat => lia : okdb.
#[export] Hint Extern 1 (_ <= _)%nat => lia : okdb.

Ltac ok_step :=
  first
    [ apply ok_ret | apply ok_error | apply ok_peek_error | apply ok_error_consume
    | apply ok_peek | apply ok_next | apply ok_eat | apply ok_position | apply ok_take_symbol
    | solve [eauto 4 with okdb]
    | solve [apply okat_weaken; eauto 4 with okdb]
    | apply okat_bind_eat; intros ? ?
    | apply okat_bind_next; intros ? ?
    | apply okat_bind_peek
    | apply okat_bind_peek_or_null
    | apply ok_bind_peek; [|intros ?]
    | apply ok_bind_next_or_eof; intros ? ? ?
    | apply ok_bind_next_or_eof_char; intros ? ? ?
    | apply ok_bind_next; [|intros ? ? ?]
    | apply ok_bind_take_run; [intros ?|intros ? ? ? ?]
    | match goal with
      | |- ok _ (match ?x with _ => _ end) => destruct x
      | |- ok _ (if ?x then _ else _) => destruct x
      | |- ok _ (let '(_, _) := ?x in _) => destruct x
      | |- okat _ _ (match ?x with _ => _ end) => destruct x
      | |- okat _ _ (if ?x then _ else _) => destruct x
      | |- okat _ _ (let '(_, _) := ?x in _) => destruct x
      end
    | apply ok_bind; [|intros ?]
    | apply okat_weaken ].
Ltac ok_auto := repeat ok_step.

(* the tests applied to the byte 0 that peek_or_null reports at the end of input *)
Lemma is_digit_0 : is_digit 0 = false.  Proof. reflexivity. Qed.
Lemma digit_val_0 l : digit_val l 0 = None.
Proof. unfold digit_val. cbn. destruct l; reflexivity. Qed.
Ltac at_zero :=
  cbv beta; rewrite ?is_digit_0, ?digit_val_0;
  repeat match goal with
         | |- context [0 =? ?k] =>
             let v := eval vm_compute in (0 =? k) in
             match v with true => idtac | false => idtac end; change (0 =? k) with v
         end;
  cbn [orb andb negb]; cbv iota.
Ltac ok_pon := apply ok_bind_peek_or_null; [at_zero|intros ?].

(* ---- scanners ---- *)
Lemma ok_next_or_eof n : ok n next_or_eof.
Proof. unfold next_or_eof. ok_auto. Qed.
Lemma ok_next_or_eof_char n : ok n next_or_eof_char.
Proof. unfold next_or_eof_char. ok_auto. Qed.
Lemma ok_peek_or_null n : ok n peek_or_null.
Proof. unfold peek_or_null. apply ok_bind; [apply ok_peek|intros ?; apply ok_ret]. Qed.
Lemma ok_as_str n b : ok n (Scan.as_str b).
Proof. unfold Scan.as_str. ok_auto. Qed.
Lemma ok_finish_str n b : ok n (finish_str b).
Proof.
  apply (ok_by_rk _ _ (fun k => match k with SrcStr => ret b | _ => Scan.as_str b end));
    [intros r; unfold finish_str; destruct (rk r); reflexivity|].
  intros k; destruct k; first [apply ok_ret | apply ok_as_str].
Qed.
#[export] Hint Resolve ok_next_or_eof ok_next_or_eof_char ok_peek_or_null ok_as_str ok_finish_str : okdb.

Lemma ok_scan_symbol_io fuel : forall scratch n, (n < fuel)%nat -> ok n (scan_symbol_io fuel scratch).
Proof. induction fuel as [|f IH]; intros scratch n Hn; [lia|]. cbn [scan_symbol_io]. ok_auto. Qed.
Lemma ok_scan_symbol_slice scratch n : ok n (scan_symbol_slice scratch).
Proof. eapply ok_ext; [intros r; apply scan_symbol_slice_eq|]. cbv zeta. ok_auto. Qed.
Lemma ok_parse_symbol_rd fuel scratch n : (n < fuel)%nat -> ok n (parse_symbol_rd fuel scratch).
Proof.
  intros Hn.
  apply (ok_by_rk _ _ (fun k => match k with
                                | SrcIo => b <- scan_symbol_io fuel scratch ;; Scan.as_str b
                                | _ => b <- scan_symbol_slice scratch ;; finish_str b
                                end)); [intros r; unfold parse_symbol_rd; destruct (rk r); reflexivity|].
  pose proof ok_scan_symbol_io. pose proof ok_scan_symbol_slice.
  intros k; destruct k; ok_auto.
Qed.
#[export] Hint Resolve ok_parse_symbol_rd : okdb.

(* ---- strings ---- *)
Lemma ok_hex_escape_loop fuel : forall x n, (n < fuel)%nat -> ok n (hex_escape_loop fuel x).
Proof. induction fuel as [|f IH]; intros x n Hn; [lia|]. cbn [hex_escape_loop]. ok_auto. Qed.
Lemma ok_parse_r6rs_escape fuel n : (n < fuel)%nat -> ok n (parse_r6rs_escape fuel).
Proof. intros Hn. pose proof ok_hex_escape_loop. unfold parse_r6rs_escape, decode_r6rs_hex_escape. ok_auto. Qed.
#[export] Hint Resolve ok_parse_r6rs_escape : okdb.
Lemma ok_r6rs_str_io fuel : forall scratch n, (n < fuel)%nat -> ok n (r6rs_str_io fuel scratch).
Proof. induction fuel as [|f IH]; intros scratch n Hn; [lia|]. cbn [r6rs_str_io]. ok_auto. Qed.
Lemma ok_r6rs_str_slice fuel : forall scratch n, (n < fuel)%nat -> ok n (r6rs_str_slice fuel scratch).
Proof.
  induction fuel as [|f IH]; intros scratch n Hn; [lia|].
  eapply ok_ext; [intros r; apply r6rs_str_slice_eq|]. ok_auto.
Qed.
Lemma ok_parse_r6rs_str_rd fuel n : (n < fuel)%nat -> ok n (parse_r6rs_str_rd fuel).
Proof.
  intros Hn.
  apply (ok_by_rk _ _ (fun k => match k with
                                | SrcIo => b <- r6rs_str_io fuel [] ;; Scan.as_str b
                                | _ => b <- r6rs_str_slice fuel [] ;; finish_str b
                                end)); [intros r; unfold parse_r6rs_str_rd; destruct (rk r); reflexivity|].
  pose proof ok_r6rs_str_io. pose proof ok_r6rs_str_slice.
  intros k; destruct k; ok_auto.
Qed.
#[export] Hint Resolve ok_parse_r6rs_str_rd : okdb.

Lemma ok_elisp_hex_loop fuel : forall x n, (n < fuel)%nat -> ok n (elisp_hex_loop fuel x).
Proof. induction fuel as [|f IH]; intros x n Hn; [lia|]. cbn [elisp_hex_loop]. ok_auto. Qed.
Lemma ok_decode_elisp_uni_escape k : forall x n, ok n (decode_elisp_uni_escape k x).
Proof. induction k as [|k IH]; intros x n; cbn [decode_elisp_uni_escape]; ok_auto. Qed.
Lemma ok_elisp_octal_loop fuel : forall x n, (n < fuel)%nat -> ok n (elisp_octal_loop fuel x).
Proof. induction fuel as [|f IH]; intros x n Hn; [lia|]. cbn [elisp_octal_loop]. ok_auto. Qed.
Lemma ok_elisp_char_escape_of x n : ok n (elisp_char_escape_of x).
Proof. unfold elisp_char_escape_of. ok_auto. Qed.
Lemma ok_elisp_uni_escape_of x n : ok n (elisp_uni_escape_of x).
Proof. unfold elisp_uni_escape_of. ok_auto. Qed.
#[export] Hint Resolve ok_elisp_hex_loop ok_decode_elisp_uni_escape ok_elisp_octal_loop ok_elisp_char_escape_of ok_elisp_uni_escape_of : okdb.
Lemma ok_parse_elisp_escape fuel n : (n < fuel)%nat -> ok n (parse_elisp_escape fuel).
Proof.
  intros Hn. unfold parse_elisp_escape, decode_elisp_hex_escape, decode_elisp_octal_escape. ok_auto.
Qed.
#[export] Hint Resolve ok_parse_elisp_escape : okdb.
Lemma ok_elisp_finish fl scratch n : ok n (elisp_finish fl scratch).
Proof. unfold elisp_finish. ok_auto. Qed.
#[export] Hint Resolve ok_elisp_finish : okdb.
Lemma ok_elisp_str_io fuel : forall fl scratch n, (n < fuel)%nat -> ok n (elisp_str_io fuel fl scratch).
Proof. induction fuel as [|f IH]; intros fl scratch n Hn; [lia|]. cbn [elisp_str_io]. ok_auto. Qed.
Lemma ok_elisp_str_slice fuel : forall fl scratch n, (n < fuel)%nat -> ok n (elisp_str_slice fuel fl scratch).
Proof.
  induction fuel as [|f IH]; intros fl scratch n Hn; [lia|].
  eapply ok_ext; [intros r; apply elisp_str_slice_eq|]. cbv zeta. ok_auto.
Qed.
Lemma ok_parse_elisp_str_rd fuel n : (n < fuel)%nat -> ok n (parse_elisp_str_rd fuel).
Proof.
  intros Hn.
  apply (ok_by_rk _ _ (fun k => match k with
                                | SrcIo => elisp_str_io fuel {| seen_ub := false; seen_mb := false; seen_na := false |} []
                                | _ => elisp_str_slice fuel {| seen_ub := false; seen_mb := false; seen_na := false |} []
                                end)); [intros r; unfold parse_elisp_str_rd; cbv zeta; destruct (rk r); reflexivity|].
  pose proof ok_elisp_str_io. pose proof ok_elisp_str_slice.
  intros k; destruct k; ok_auto.
Qed.
#[export] Hint Resolve ok_parse_elisp_str_rd : okdb.

(* ---- characters ---- *)
Lemma ok_take_bytes k : forall acc n, ok n (take_bytes k acc).
Proof. induction k as [|k IH]; intros acc n; cbn [take_bytes]; ok_auto. Qed.
#[export] Hint Resolve ok_take_bytes : okdb.
Lemma ok_decode_utf8_sequence_b c n : ok n (decode_utf8_sequence_b c).
Proof. unfold decode_utf8_sequence_b. ok_auto. Qed.
#[export] Hint Resolve ok_decode_utf8_sequence_b : okdb.
Lemma ok_decode_utf8_sequence c n : ok n (decode_utf8_sequence c).
Proof. unfold decode_utf8_sequence. ok_auto. Qed.
#[export] Hint Resolve ok_decode_utf8_sequence : okdb.
Lemma ok_r6rs_char_hex_loop fuel : forall x first n, (n < fuel)%nat -> ok n (r6rs_char_hex_loop fuel x first).
Proof. induction fuel as [|f IH]; intros x first n Hn; [lia|]. cbn [r6rs_char_hex_loop]. ok_auto. Qed.
Lemma ok_char_name_loop fuel : forall scratch n, (n < fuel)%nat -> ok n (char_name_loop fuel scratch).
Proof. induction fuel as [|f IH]; intros scratch n Hn; [lia|]. cbn [char_name_loop]. ok_auto. Qed.
Lemma ok_open_ended_char x n : ok n (open_ended_char x).
Proof. unfold open_ended_char. ok_auto. Qed.
#[export] Hint Resolve ok_r6rs_char_hex_loop ok_char_name_loop ok_open_ended_char : okdb.
Lemma ok_parse_r6rs_char fuel n : (n < fuel)%nat -> ok n (parse_r6rs_char fuel).
Proof. intros Hn. unfold parse_r6rs_char. ok_auto. Qed.
#[export] Hint Resolve ok_parse_r6rs_char : okdb.
Lemma ok_as_char x n : ok n (Scan.as_char x).
Proof. unfold Scan.as_char. ok_auto. Qed.
#[export] Hint Resolve ok_as_char : okdb.
Lemma ok_decode_elisp_char_escape fuel n : (n < fuel)%nat -> ok n (decode_elisp_char_escape fuel).
Proof.
  intros Hn. unfold decode_elisp_char_escape, decode_elisp_hex_escape, decode_elisp_octal_escape. ok_auto.
Qed.
#[export] Hint Resolve ok_decode_elisp_char_escape : okdb.
Lemma ok_parse_elisp_char fuel n : (n < fuel)%nat -> ok n (parse_elisp_char fuel).
Proof. intros Hn. unfold parse_elisp_char. ok_auto. Qed.
#[export] Hint Resolve ok_parse_elisp_char : okdb.

(* ---- numbers ---- *)
Definition radix_ok' (radix : N) : Prop := radix = 2 \/ radix = 8 \/ radix = 10 \/ radix = 16.
Lemma overflow_false_le a radix b c : radix_ok' radix -> b < radix -> overflow_N a radix b c = false -> a * radix + b <= c.
Proof. intros [->|[->|[->| ->]]]; unfold overflow_N; intros Hb H; lia. Qed.
Lemma is_digit_val c : is_digit c = true -> c - 48 < 10.
Proof. unfold is_digit, in_range. lia. Qed.
Lemma digit_val_lt l c d : digit_val l c = Some d -> d < 16.
Proof.
  unfold digit_val, in_range. destruct ((48 <=? c) && (c <=? 57))%bool eqn:E1; [intros H; inversion H; lia|].
  destruct (l && ((97 <=? c) && (c <=? 102)))%bool eqn:E2; [intros H; inversion H; lia|].
  destruct (l && ((65 <=? c) && (c <=? 70)))%bool eqn:E3; [intros H; inversion H; lia|discriminate].
Qed.

Section NumFuel.
  Variable fast : bool.
  Variable std_parse : N -> Z -> f64.
  (* the one loop whose bound is a fact about f64 arithmetic (FloatFuel.v) *)
  Hypothesis Hfp : forall pos sig e n, sig <= u64_MAX -> ok n (f64_from_parts fast std_parse pos sig e).

  Lemma ok_skip_digits fuel : forall n, (n < fuel)%nat -> ok n (skip_digits fuel).
  Proof. induction fuel as [|f IH]; intros n Hn; [lia|]. cbn [skip_digits]. ok_pon; ok_auto. Qed.
  Hint Resolve ok_skip_digits : okdb.
  Lemma ok_parse_exponent_overflow fuel p s pe n : (n < fuel)%nat -> ok n (parse_exponent_overflow fuel p s pe).
  Proof. intros Hn. unfold parse_exponent_overflow. ok_auto. Qed.
  Hint Resolve ok_parse_exponent_overflow : okdb.
  Lemma ok_exponent_digits fuel : forall p s pe se e n, s <= u64_MAX -> (n < fuel)%nat ->
    ok n (exponent_digits fast std_parse fuel p s pe se e).
  Proof.
    induction fuel as [|f IH]; intros p s pe se e n Hs Hn; [lia|]. cbn [exponent_digits]. cbv zeta.
    ok_pon; ok_auto; apply Hfp; exact Hs.
  Qed.
  Lemma ok_parse_exponent fuel p s se n : s <= u64_MAX -> (n < fuel)%nat -> ok n (parse_exponent fast std_parse fuel p s se).
  Proof. intros Hs Hn. pose proof ok_exponent_digits. unfold parse_exponent. ok_auto. Qed.
  Hint Resolve ok_parse_exponent : okdb.

  Lemma ok_decimal_digits fuel : forall s e o n, (n < fuel)%nat -> ok n (decimal_digits fuel s e o).
  Proof. induction fuel as [|f IH]; intros s e o n Hn; [lia|]. cbn [decimal_digits]. cbv zeta. ok_pon; ok_auto. Qed.
  Lemma decimal_digits_sig fuel : forall s e o r a r', s <= u64_MAX ->
    decimal_digits fuel s e o r = (Ok a, r') -> fst (fst a) <= u64_MAX.
  Proof.
    induction fuel as [|f IH]; intros s e o r a r' Hs; cbn [decimal_digits]; [discriminate|].
    unfold bind at 1. destruct (peek_or_null r) as [[c|err] r1]; [|discriminate].
    destruct (is_digit c) eqn:Ed.
    - unfold bind at 1. unfold eat_char. cbv zeta. destruct (overflow_N s 10 (c - 48) u64_MAX) eqn:Eo.
      + unfold bind. destruct (skip_digits f (r_discard r1)) as [[u|err] r2]; [|discriminate].
        unfold ret. intros H. inversion H. subst. exact Hs.
      + apply IH. apply (overflow_false_le s 10 (c - 48) u64_MAX); [right; right; left; reflexivity|apply is_digit_val; exact Ed|exact Eo].
    - unfold ret. intros H. inversion H. subst. exact Hs.
  Qed.
  Lemma ok_parse_decimal fuel p s e n : s <= u64_MAX -> (n < fuel)%nat -> ok n (parse_decimal fast std_parse fuel p s e).
  Proof.
    intros Hs Hn. unfold parse_decimal. apply ok_bind; [apply ok_eat|intros _].
    intros r Hr. unfold okc, bind. pose proof (ok_decimal_digits fuel s e false n Hn r Hr) as [H1 H2].
    pose proof (decimal_digits_sig fuel s e false r) as Hsig.
    destruct (decimal_digits fuel s e false r) as [[[[sig ex] one]|err] r1]; cbn [fst snd] in *.
    - specialize (Hsig _ _ Hs eq_refl). cbn [fst] in Hsig.
      assert (Hk : ok n (if negb one
                         then o <- peek;; match o with Some _ => peek_error InvalidNumber | None => peek_error EofWhileParsingValue end
                         else c <- peek_or_null;; if (c =? 101) || (c =? 69) then parse_exponent fast std_parse fuel p sig ex
                                                  else f64_from_parts fast std_parse p sig ex)).
      { ok_auto; apply Hfp; exact Hsig. }
      destruct (Hk r1 ltac:(lia)) as [H3 H4]. split; [exact H3|eapply Nat.le_trans; [exact H4|exact H2]].
    - split; [intros E; apply H1; inversion E; reflexivity|exact H2].
  Qed.
  Hint Resolve ok_parse_decimal : okdb.

  Lemma ok_parse_long_integer fuel : forall radix p s e n, s <= u64_MAX -> (S n < fuel)%nat ->
    ok n (parse_long_integer fast std_parse fuel radix p s e).
  Proof.
    induction fuel as [|f IH]; intros radix p s e n Hs Hn; [lia|]. cbn [parse_long_integer]. cbv zeta.
    ok_pon; ok_auto; apply Hfp; exact Hs.
  Qed.
  Hint Resolve ok_parse_long_integer : okdb.
  Lemma ok_parse_num_tail fuel radix p s n : s <= u64_MAX -> (n < fuel)%nat -> ok n (parse_num_tail fast std_parse fuel radix p s).
  Proof. intros Hs Hn. unfold parse_num_tail. ok_auto. Qed.
  Hint Resolve ok_parse_num_tail : okdb.
  Lemma ok_num_literal_loop fuel : forall radix p s n, radix_ok' radix -> s <= u64_MAX -> (S n < fuel)%nat ->
    ok n (num_literal_loop fast std_parse fuel radix p s).
  Proof.
    induction fuel as [|f IH]; intros radix p s n Hr Hs Hn; [lia|]. cbn [num_literal_loop].
    ok_pon; [ok_auto|].
    destruct (digit_val (10 <? radix) b) as [digit|] eqn:Ed; [|ok_auto].
    destruct (radix <=? digit) eqn:El; [ok_auto|].
    apply okat_bind_eat; intros n' Hn'. destruct (overflow_N s radix digit u64_MAX) eqn:Eo; [ok_auto|].
    apply IH; [exact Hr| |lia]. apply (overflow_false_le s radix digit u64_MAX Hr ltac:(lia) Eo).
  Qed.
  Lemma ok_parse_num_literal fuel radix p n : radix_ok' radix -> (n < fuel)%nat -> ok n (parse_num_literal fast std_parse fuel radix p).
  Proof.
    intros Hr Hn. unfold parse_num_literal. apply ok_bind_next; [ok_auto|]. intros c n' Hn'.
    destruct (digit_val true c) as [d|] eqn:Ed; [|ok_auto]. destruct (radix <=? d) eqn:El; [ok_auto|].
    apply ok_num_literal_loop; [exact Hr| |lia].
    pose proof (digit_val_lt _ _ _ Ed). destruct Hr as [->|[->|[->| ->]]]; unfold u64_MAX; lia.
  Qed.
  Lemma ok_parse_num_token fuel radix p n : radix_ok' radix -> (n < fuel)%nat -> ok n (parse_num_token fast std_parse fuel radix p).
  Proof. intros Hr Hn. pose proof ok_parse_num_literal. unfold parse_num_token. ok_auto. Qed.
  Hint Resolve ok_parse_num_token : okdb.
  Lemma ok_parse_radix_literal fuel radix n : radix_ok' radix -> (n < fuel)%nat -> ok n (parse_radix_literal fast std_parse fuel radix).
  Proof. intros Hr Hn. unfold parse_radix_literal. ok_auto. Qed.
  Hint Resolve ok_parse_radix_literal : okdb.
  Lemma rok2 : radix_ok' 2.  Proof. left; reflexivity. Qed.
  Lemma rok8 : radix_ok' 8.  Proof. right; left; reflexivity. Qed.
  Lemma rok10 : radix_ok' 10.  Proof. right; right; left; reflexivity. Qed.
  Lemma rok16 : radix_ok' 16.  Proof. right; right; right; reflexivity. Qed.
  Hint Resolve rok2 rok8 rok10 rok16 : okdb.
  Lemma ok_parse_number fuel n : (n < fuel)%nat -> ok n (parse_number fast std_parse fuel).
  Proof. intros Hn. unfold parse_number. ok_auto. Qed.
  Hint Resolve ok_parse_number : okdb.
End NumFuel.

(* ---- steps that consume at least one event when they succeed ---- *)
Definition stricto {A} (n : nat) (m : M A) : Prop :=
  forall r, (rem r <= n)%nat -> match m r with (Ok _, r') => (rem r' < rem r)%nat | (Err _, _) => True end.

Lemma stricto_bind_l {A B} n (m : M A) (f : A -> M B) : stricto n m -> (forall a, ok n (f a)) -> stricto n (bind m f).
Proof.
  intros Hm Hf r Hr. unfold bind. specialize (Hm r Hr). destruct (m r) as [[a|e] r1]; [|exact I].
  destruct (Hf a r1 ltac:(lia)) as [_ H2]. destruct (f a r1) as [[b|e] r2]; cbn [fst snd] in *; [lia|exact I].
Qed.
Lemma stricto_bind_r {A B} n (m : M A) (f : A -> M B) : ok n m -> (forall a, stricto n (f a)) -> stricto n (bind m f).
Proof.
  intros Hm Hf r Hr. unfold bind. destruct (Hm r Hr) as [_ H2]. destruct (m r) as [[a|e] r1]; cbn [fst snd] in *; [|exact I].
  specialize (Hf a r1 ltac:(lia)). destruct (f a r1) as [[b|e] r2]; [lia|exact I].
Qed.
Lemma stricto_err {A} n c : stricto n (@peek_error A c).
Proof. intros r _. unfold peek_error. destruct (r_peek_position r). exact I. Qed.
Lemma ok_bind_strict {A B} n (m : M A) (f : A -> M B) :
  ok n m -> stricto n m -> (forall a n', n = S n' -> ok n' (f a)) -> ok n (bind m f).
Proof.
  intros Hm Hs Hf r Hr. unfold okc, bind. destruct (Hm r Hr) as [H1 H2]. specialize (Hs r Hr).
  destruct (m r) as [[a|e] r1]; cbn [fst snd] in *.
  - destruct n as [|n']; [lia|]. destruct (Hf a n' eq_refl r1 ltac:(lia)) as [H3 H4]. split; [exact H3|lia].
  - split; [intros E; apply H1; inversion E; reflexivity|exact H2].
Qed.

Section TokenFuel.
  Variable ro : parse_options.
  Variable alpha : N -> bool.
  Variable fast : bool.
  Variable std_parse : N -> Z -> f64.
  Hypothesis Hfp : forall pos sig e n, sig <= u64_MAX -> ok n (f64_from_parts fast std_parse pos sig e).

  Local Hint Resolve ok_skip_digits ok_parse_exponent_overflow ok_parse_exponent ok_parse_decimal ok_parse_long_integer
    ok_parse_num_tail ok_parse_num_token ok_parse_radix_literal ok_parse_number rok2 rok8 rok10 rok16 : okdb.

  (* a successful numeric literal has consumed its first digit *)
  Lemma strict_parse_num_literal fuel radix p n : radix_ok' radix -> (n < fuel)%nat ->
    stricto n (parse_num_literal fast std_parse fuel radix p).
  Proof.
    intros Hr Hn r Hrem. pose proof (ok_parse_num_literal fast std_parse Hfp fuel radix p n Hr Hn r Hrem) as [_ Hle].
    unfold parse_num_literal, bind, next_char in *. pose proof (next_cases r) as Hc.
    destruct (r_next r) as [[[c|]|e] r1]; cbn [fst snd] in *.
    - destruct (digit_val true c) as [d|]; [|unfold peek_error; destruct (r_peek_position r1); exact I].
      destruct (radix <=? d); [unfold peek_error; destruct (r_peek_position r1); exact I|].
      pose proof (sat_num_literal_loop Rrem Rrem_ret Rrem_seq Rrem_fuel rem_peek rem_next rem_eat rem_error rem_peek_error fast std_parse fuel radix p d r1) as Hs.
      unfold R, Rrem in Hs. destruct (num_literal_loop fast std_parse fuel radix p d r1) as [[x|e] r2]; cbn [fst snd] in *; [lia|exact I].
    - unfold peek_error. destruct (r_peek_position r1). exact I.
    - exact I.
  Qed.
  Lemma strict_parse_num_token fuel radix p n : radix_ok' radix -> (n < fuel)%nat ->
    stricto n (parse_num_token fast std_parse fuel radix p).
  Proof.
    intros Hr Hn. unfold parse_num_token. apply stricto_bind_l; [apply strict_parse_num_literal; assumption|]. intros a. ok_auto.
  Qed.
  Lemma strict_parse_radix_literal fuel radix n : radix_ok' radix -> (n < fuel)%nat ->
    stricto n (parse_radix_literal fast std_parse fuel radix).
  Proof.
    intros Hr Hn. unfold parse_radix_literal. apply stricto_bind_r; [auto with okdb|]. intros c.
    destruct (c =? 45); [apply stricto_bind_r; [apply ok_eat|intros _; apply strict_parse_num_token; assumption]|].
    destruct (c =? 43); [apply stricto_bind_r; [apply ok_eat|intros _; apply strict_parse_num_token; assumption]|].
    apply strict_parse_num_token; assumption.
  Qed.
  Lemma strict_parse_number fuel n : (n < fuel)%nat -> stricto n (parse_number fast std_parse fuel).
  Proof.
    intros Hn. unfold parse_number. apply stricto_bind_r; [auto with okdb|]. intros c.
    destruct (c =? 35); [|apply strict_parse_radix_literal; auto with okdb].
    apply stricto_bind_r; [apply ok_eat|intros _]. apply stricto_bind_r; [apply ok_next|intros o].
    destruct o as [x|]; [|apply stricto_err].
    repeat match goal with |- stricto _ (if ?c then _ else _) => destruct c end;
      first [apply strict_parse_radix_literal; auto with okdb | apply stricto_err].
  Qed.

  (* whitespace and comments *)
  Lemma skip_comment_cases fuel : forall n r, (n < fuel)%nat -> (rem r <= n)%nat ->
    match skip_comment fuel r with
    | (Ok true, r') => (rem r' < rem r)%nat
    | (Ok false, r') => (rem r' <= rem r)%nat
    | (Err e, r') => e <> EFuel /\ (rem r' <= rem r)%nat
    end.
  Proof.
    induction fuel as [|f IH]; intros n r Hn Hr; [lia|]. cbn [skip_comment]. unfold bind, next_char.
    pose proof (next_cases r) as Hc. destruct (r_next r) as [[[c|]|e] r1]; cbn [fst snd] in *.
    - destruct (c =? 10); [unfold ret; exact Hc|].
      destruct n as [|n']; [lia|]. specialize (IH n' r1 ltac:(lia) ltac:(lia)).
      destruct (skip_comment f r1) as [[[|]|e] r2]; [lia|lia|]. destruct IH as [He Hl]. split; [exact He|lia].
    - unfold ret. exact Hc.
    - exact Hc.
  Qed.

  Lemma ok_parse_whitespace fuel : forall n, (S n < fuel)%nat -> ok n (parse_whitespace fuel).
  Proof.
    induction fuel as [|f IH]; intros n Hn; [lia|]. cbn [parse_whitespace].
    apply ok_bind_peek; [ok_auto|]. intros c. destruct (c =? 59).
    - intros r Hb Hr. unfold okc, bind. pose proof (skip_comment_cases f n r ltac:(lia) Hr) as Hc.
      destruct (skip_comment f r) as [[[|]|e] r1]; cbn [fst snd].
      + destruct n as [|n']; [lia|]. destruct (IH n' ltac:(lia) r1 ltac:(lia)) as [H1 H2]. split; [exact H1|lia].
      + unfold ret. cbn [fst snd]. split; [discriminate|exact Hc].
      + destruct Hc as [He Hl]. split; [congruence|exact Hl].
    - destruct (memb c [32; 10; 9; 13; 12]); [|ok_auto].
      apply okat_bind_eat. intros n' Hn'. apply IH. lia.
  Qed.
  Hint Resolve ok_parse_whitespace : okdb.

  Lemma ok_parse_symbol fuel n : (n < fuel)%nat -> ok n (parse_symbol fuel).
  Proof. intros Hn. unfold parse_symbol. ok_auto. Qed.
  Lemma ok_parse_symbol_suffix fuel p n : (n < fuel)%nat -> ok n (parse_symbol_suffix fuel p).
  Proof. intros Hn. unfold parse_symbol_suffix. ok_auto. Qed.
  Hint Resolve ok_parse_symbol ok_parse_symbol_suffix : okdb.
  Lemma ok_expect_ident ident : forall n, ok n (expect_ident ident).
  Proof. induction ident as [|c ident IH]; intros n; cbn [expect_ident]; ok_auto. Qed.
  Hint Resolve ok_expect_ident : okdb.

  Lemma ok_parse_token fuel b n : (n < fuel)%nat -> ok n (parse_token ro alpha fast std_parse fuel b).
  Proof.
    intros Hn. unfold parse_token. fold (@error_consume token ExpectedSomeValue). ok_auto.
  Qed.
  Lemma ok_end_seq fuel close n : (S n < fuel)%nat -> ok n (end_seq fuel close).
  Proof. intros Hn. unfold end_seq. ok_auto. Qed.
  Lemma ok_expect_end fuel n : (S n < fuel)%nat -> ok n (expect_end fuel).
  Proof. intros Hn. unfold expect_end. ok_auto. Qed.

  Lemma ok_byte_list_loop fuel : forall close acc n, (S (S n) < fuel)%nat -> ok n (byte_list_loop fast std_parse fuel close acc).
  Proof.
    induction fuel as [|f IH]; intros close acc n Hn; [lia|]. cbn [byte_list_loop].
    apply ok_bind; [apply ok_parse_whitespace; lia|]. intros o. destruct o as [c|]; [|ok_auto].
    destruct (c =? close); [ok_auto|].
    apply ok_bind_strict; [apply ok_parse_number; [exact Hfp|lia]|apply strict_parse_number; lia|].
    intros num n' Hn'. destruct (num_as_u64 num) as [u|]; [|ok_auto]. destruct (255 <? u); [ok_auto|]. apply IH. lia.
  Qed.
  Lemma ok_parse_byte_list fuel close n : (S (S n) < fuel)%nat -> ok n (parse_byte_list fast std_parse fuel close).
  Proof.
    intros Hn. pose proof ok_byte_list_loop. unfold parse_byte_list.
    apply ok_bind; [apply ok_parse_whitespace; lia|]. intros o. ok_auto.
  Qed.
End TokenFuel.

(* ---- the parser proper ---- *)
Definition pokc {A} (m : PM A) (s : pstate) : Prop :=
  fst (m s) <> PErr (XErr EFuel) /\ (rem (rd (snd (m s))) <= rem (rd s))%nat.
Definition pok {A} (n : nat) (m : PM A) : Prop := forall s, (rem (rd s) <= n)%nat -> pokc m s.
(* an item, when one is returned, has consumed input *)
Definition item_strict {A} (m : PM (option A)) (s : pstate) : Prop :=
  match m s with (POk (Some _), s') => (rem (rd s') < rem (rd s))%nat | _ => True end.
Definition pokv {A} (n : nat) (m : PM (option A)) : Prop :=
  forall s, (rem (rd s) <= n)%nat -> pokc m s /\ item_strict m s.

Lemma pok_mono {A} n n' (m : PM A) : (n <= n')%nat -> pok n' m -> pok n m.
Proof. intros H Hm s Hs. apply Hm. lia. Qed.
Lemma pok_pret {A} n (a : A) : pok n (pret a).
Proof. intros s _. split; [discriminate|cbn; lia]. Qed.
Lemma pok_panic {A} n k : pok n (@panic A k).
Proof. intros s _. split; [discriminate|cbn; lia]. Qed.
Lemma pok_liftR {A} n (m : M A) : ok n m -> pok n (liftR m).
Proof.
  intros H s Hs. destruct (H (rd s) Hs) as [H1 H2]. unfold pokc, liftR.
  destruct (m (rd s)) as [[a|e] r']; cbn [fst snd rd] in *; split; try discriminate; try exact H2.
  intros E. apply H1. inversion E. reflexivity.
Qed.
Lemma pok_bind {A B} n (m : PM A) (f : A -> PM B) : pok n m -> (forall a, pok n (f a)) -> pok n (pbind m f).
Proof.
  intros Hm Hf s Hs. unfold pokc. rewrite pbind_unfold. destruct (Hm s Hs) as [H1 H2].
  destruct (m s) as [[a|e] s1]; cbn [fst snd] in *.
  - destruct (Hf a s1 ltac:(lia)) as [H3 H4]. split; [exact H3|lia].
  - split; [intros E; apply H1; inversion E; reflexivity|exact H2].
Qed.
Lemma pok_get_depth n : pok n get_depth.
Proof. intros s _. split; [discriminate|cbn; lia]. Qed.
Lemma pok_set_depth n d : pok n (set_depth d).
Proof. intros s _. split; [discriminate|cbn; lia]. Qed.
Lemma pok_dec_depth n : pok n dec_depth.
Proof. unfold dec_depth. apply pok_bind; [apply pok_get_depth|]. intros d. destruct (d =? 0); [apply pok_panic|apply pok_set_depth]. Qed.
Lemma pok_inc_depth n : pok n inc_depth.
Proof. unfold inc_depth. apply pok_bind; [apply pok_get_depth|]. intros d. destruct (255 <=? d); [apply pok_panic|apply pok_set_depth]. Qed.
Lemma pok_enter_nesting n : pok n enter_nesting.
Proof.
  unfold enter_nesting. apply pok_bind; [apply pok_dec_depth|]. intros _. apply pok_bind; [apply pok_get_depth|]. intros d.
  destruct (d =? 0); [|apply pok_pret]. apply pok_bind; [apply pok_inc_depth|]. intros _. apply pok_liftR. apply ok_peek_error.
Qed.
(* attempt body; inc_depth; attempt end_seq; both; k *)
Lemma pok_nest_seq {A B} n (body : PM A) (endm : M unit) (k : A -> PM B) :
  pok n body -> ok n endm -> (forall a, pok n (k a)) ->
  pok n (pbind (attempt body) (fun r =>
         pbind inc_depth (fun _ =>
         pbind (attempt (liftR endm)) (fun e =>
         pbind (both r e) k)))).
Proof.
  intros Hbody Hend Hk s Hs. unfold pokc. rewrite pbind_unfold, attempt_unfold.
  destruct (Hbody s Hs) as [Hb1 Hb2].
  assert (Hrest : forall (r : res A) s2, r <> Err EFuel -> (rem (rd s2) <= rem (rd s))%nat ->
            let m := pbind inc_depth (fun _ => pbind (attempt (liftR endm)) (fun e => pbind (both r e) k)) in
            fst (m s2) <> PErr (XErr EFuel) /\ (rem (rd (snd (m s2))) <= rem (rd s))%nat).
  { intros r s2 Hr Hle m. unfold m. rewrite pbind_unfold. destruct (pok_inc_depth n s2 ltac:(lia)) as [Hi1 Hi2].
    destruct (inc_depth s2) as [[u|e] s3]; cbn [fst snd] in *; [|split; [intros E; apply Hi1; inversion E; reflexivity|lia]].
    rewrite pbind_unfold, attempt_unfold. destruct (pok_liftR n endm Hend s3 ltac:(lia)) as [He1 He2].
    destruct (liftR endm s3) as [[u'|[e1|pk]] s4]; cbn [fst snd] in *.
    - rewrite pbind_unfold. destruct r as [a|e0]; cbn [both pret pfail fst snd].
      + destruct (Hk a s4 ltac:(lia)) as [H3 H4]. split; [exact H3|lia].
      + split; [intros E; apply Hr; inversion E; reflexivity|lia].
    - destruct e1 as [c l cl|io|]; [| |exfalso; apply He1; reflexivity];
        rewrite pbind_unfold; destruct r as [a|e0]; cbn [both pret pfail fst snd];
          (split; [first [discriminate | intros E; apply Hr; inversion E; reflexivity]|lia]).
    - split; [discriminate|lia]. }
  destruct (body s) as [[a|[e|pk]] s2]; cbn [fst snd] in *.
  - apply Hrest; [discriminate|exact Hb2].
  - destruct e as [c l cl|io|]; [| |exfalso; apply Hb1; reflexivity]; (apply Hrest; [discriminate|exact Hb2]).
  - split; [discriminate|exact Hb2].
Qed.

(* attempt body; inc_depth; lift; k  (quotations) *)
Lemma pok_nest_quote {A B} n (body : PM A) (k : A -> PM B) :
  pok n body -> (forall a, pok n (k a)) ->
  pok n (pbind (attempt body) (fun r => pbind inc_depth (fun _ => pbind (lift r) k))).
Proof.
  intros Hbody Hk s Hs. unfold pokc. rewrite pbind_unfold, attempt_unfold.
  destruct (Hbody s Hs) as [Hb1 Hb2].
  assert (Hrest : forall (r : res A) s2, r <> Err EFuel -> (rem (rd s2) <= rem (rd s))%nat ->
            let m := pbind inc_depth (fun _ => pbind (lift r) k) in
            fst (m s2) <> PErr (XErr EFuel) /\ (rem (rd (snd (m s2))) <= rem (rd s))%nat).
  { intros r s2 Hr Hle m. unfold m. rewrite pbind_unfold. destruct (pok_inc_depth n s2 ltac:(lia)) as [Hi1 Hi2].
    destruct (inc_depth s2) as [[u|e] s3]; cbn [fst snd] in *; [|split; [intros E; apply Hi1; inversion E; reflexivity|lia]].
    rewrite pbind_unfold. destruct r as [a|e0]; cbn [lift pret pfail fst snd].
    - destruct (Hk a s3 ltac:(lia)) as [H3 H4]. split; [exact H3|lia].
    - split; [intros E; apply Hr; inversion E; reflexivity|lia]. }
  destruct (body s) as [[a|[e|pk]] s2]; cbn [fst snd] in *.
  - apply Hrest; [discriminate|exact Hb2].
  - destruct e as [c l cl|io|]; [| |exfalso; apply Hb1; reflexivity]; (apply Hrest; [discriminate|exact Hb2]).
  - split; [discriminate|exact Hb2].
Qed.

(* a reader-level step that consumes on success, then the rest with one event fewer *)
Lemma pok_bind_strict {A B} n (m : M A) (f : A -> PM B) :
  ok n m -> stricto n m -> (forall a n', n = S n' -> pok n' (f a)) -> pok n (pbind (liftR m) f).
Proof.
  intros Hm Hs Hf s Hr. unfold pokc. rewrite pbind_unfold. unfold liftR.
  destruct (Hm (rd s) Hr) as [H1 H2]. specialize (Hs (rd s) Hr).
  destruct (m (rd s)) as [[a|e] r1]; cbn [fst snd] in *.
  - destruct n as [|n']; [lia|].
    destruct (Hf a n' eq_refl {| rd := r1; depth := depth s |} ltac:(cbn [rd]; lia)) as [H3 H4]. cbn [rd] in H4. split; [exact H3|lia].
  - split; [intros E; apply H1; inversion E; reflexivity|exact H2].
Qed.
(* an item: a value consumed input, the end of input did not have to *)
Lemma pok_bind_item {A B} n (m : PM (option A)) (f : option A -> PM B) :
  pokv n m -> pok n (f None) -> (forall a n', n = S n' -> pok n' (f (Some a))) -> pok n (pbind m f).
Proof.
  intros Hm Hn Hf s Hr. unfold pokc. rewrite pbind_unfold. destruct (Hm s Hr) as [[H1 H2] H3]. unfold item_strict in H3.
  destruct (m s) as [[[a|]|e] s1]; cbn [fst snd] in *.
  - destruct n as [|n']; [lia|]. destruct (Hf a n' eq_refl s1 ltac:(lia)) as [H4 H5]. split; [exact H4|lia].
  - destruct (Hn s1 ltac:(lia)) as [H4 H5]. split; [exact H4|lia].
  - split; [intros E; apply H1; inversion E; reflexivity|exact H2].
Qed.

Section ParserFuel.
  Variable ro : parse_options.
  Variable alpha : N -> bool.
  Variable fast : bool.
  Variable std_parse : N -> Z -> f64.
  Hypothesis Hfp : forall pos sig e n, sig <= u64_MAX -> ok n (f64_from_parts fast std_parse pos sig e).

  Local Notation next_value := (next_value ro alpha fast std_parse).
  Local Notation parse_list := (parse_list ro alpha fast std_parse).
  Local Notation parse_vector := (parse_vector ro alpha fast std_parse).
  Local Notation next_datum := (next_datum ro alpha fast std_parse).
  Local Notation parse_list_meta := (parse_list_meta ro alpha fast std_parse).
  Local Notation parse_vector_meta := (parse_vector_meta ro alpha fast std_parse).
  Local Notation parse_token := (parse_token ro alpha fast std_parse).

  (* whitespace, then something on the byte it stopped at *)
  Definition pokat {A} (b : N) (n : nat) (m : PM A) : Prop :=
    forall s, at_byte b (rd s) -> (rem (rd s) <= n)%nat -> pokc m s.
  Lemma pokat_weaken {A} b n (m : PM A) : pok n m -> pokat b n m.
  Proof. intros H s _ Hs. apply H. exact Hs. Qed.

  Lemma pok_bind_ws {A} fuel n (k : option N -> PM A) : (S n < fuel)%nat ->
    pok n (k None) -> (forall b, pokat b n (k (Some b))) -> pok n (pbind (liftR (parse_whitespace fuel)) k).
  Proof.
    intros Hn Hnone Hsome s Hs. unfold pokc. rewrite pbind_unfold. unfold liftR.
    destruct (ok_parse_whitespace alpha fast std_parse Hfp fuel n Hn (rd s) Hs) as [H1 H2]. pose proof (ws_at_byte fuel (rd s)) as Hb.
    destruct (parse_whitespace fuel (rd s)) as [[[b|]|e] r1]; cbn [fst snd] in *.
    - destruct (Hsome b {| rd := r1; depth := depth s |} Hb ltac:(cbn [rd]; lia)) as [H3 H4]. cbn [rd] in H4. split; [exact H3|lia].
    - destruct (Hnone {| rd := r1; depth := depth s |} ltac:(cbn [rd]; lia)) as [H3 H4]. cbn [rd] in H4. split; [exact H3|lia].
    - split; [intros E; apply H1; inversion E; reflexivity|exact H2].
  Qed.

  (* the token dispatched on the pending byte consumes it *)
  Lemma pokat_bind_token {A} fuel b n (k : token -> PM A) : (n < fuel)%nat ->
    (forall tok n', n = S n' -> pok n' (k tok)) -> pokat b n (pbind (liftR (parse_token fuel b)) k).
  Proof.
    intros Hn Hk s Hb Hs. unfold pokc. rewrite pbind_unfold. unfold liftR.
    destruct (ok_parse_token ro alpha fast std_parse Hfp fuel b n Hn (rd s) Hs) as [H1 H2].
    pose proof (token_consumes ro alpha fast std_parse fuel b (rd s) Hb) as Hc.
    destruct (parse_token fuel b (rd s)) as [[tok|e] r1]; cbn [fst snd] in *.
    - destruct n as [|n']; [lia|].
      destruct (Hk tok n' eq_refl {| rd := r1; depth := depth s |} ltac:(cbn [rd]; lia)) as [H3 H4]. cbn [rd] in H4. split; [exact H3|lia].
    - split; [intros E; apply H1; inversion E; reflexivity|exact H2].
  Qed.
  Lemma pokat_bind_position {A} b n (k : N * N -> PM A) :
    (forall p, pokat b n (k p)) -> pokat b n (pbind (liftR position) k).
  Proof. intros Hk s Hb Hs. unfold pokc. rewrite pbind_unfold. unfold liftR, position. destruct s as [r d]. apply (Hk _ {| rd := r; depth := d |} Hb Hs). Qed.
  (* eat_char ;;; peek on the pending byte *)
  Lemma pokat_bind_eat_peek {A} b n (k : option N -> PM A) :
    (forall nx n', n = S n' -> pok n' (k nx)) -> pokat b n (pbind (liftR (eat_char ;;; peek)) k).
  Proof.
    intros Hk s Hb Hs. unfold pokc. rewrite pbind_unfold. unfold liftR.
    change ((eat_char ;;; peek) (rd s)) with (r_peek (r_discard (rd s))).
    pose proof (discard_at b (rd s) Hb) as Hd. pose proof (peek_cases (r_discard (rd s))) as Hc.
    destruct (r_peek (r_discard (rd s))) as [[o|e] r1]; cbn [fst snd].
    - assert (Hle : (rem r1 <= rem (r_discard (rd s)))%nat) by (destruct o; [apply Hc|exact Hc]).
      destruct n as [|n']; [lia|].
      destruct (Hk o n' eq_refl {| rd := r1; depth := depth s |} ltac:(cbn [rd]; lia)) as [H3 H4]. cbn [rd] in H4. split; [exact H3|eapply Nat.le_trans; [exact H4|lia]].
    - destruct Hc as [He Hle]. split; [congruence|cbn [rd]; lia].
  Qed.

  Lemma pok_err {A} n c : pok n (liftR (@peek_error A c)).
  Proof. apply pok_liftR. apply ok_peek_error. Qed.

  (* item strictness of a next_value / next_datum shaped computation *)
  Lemma pokv_shape {A} fuel n (pre : PM (option A)) (K : N -> PM (option A)) : (S n < fuel)%nat ->
    (forall b s, at_byte b (rd s) -> (rem (rd s) <= n)%nat ->
       pokc (K b) s /\ match K b s with (POk _, s') => (rem (rd s') < rem (rd s))%nat | _ => True end) ->
    pokv n (pbind (liftR (parse_whitespace fuel)) (fun o => match o with None => pret None | Some b => K b end)).
  Proof.
    intros Hn HK s Hs. unfold pokc, item_strict. rewrite pbind_unfold. unfold liftR.
    destruct (ok_parse_whitespace alpha fast std_parse Hfp fuel n Hn (rd s) Hs) as [H1 H2]. pose proof (ws_at_byte fuel (rd s)) as Hb.
    destruct (parse_whitespace fuel (rd s)) as [[[b|]|e] r1]; cbn [fst snd] in *.
    - destruct (HK b {| rd := r1; depth := depth s |} Hb ltac:(cbn [rd]; lia)) as [[H3 H4] H5]. cbn [rd] in *.
      destruct (K b {| rd := r1; depth := depth s |}) as [[[a|]|e] s2]; cbn [fst snd] in *; (split; [split; [exact H3|lia]|]); try exact I. lia.
    - unfold pret. cbn [fst snd rd]. split; [split; [discriminate|lia]|exact I].
    - split; [split; [intros E; apply H1; inversion E; reflexivity|exact H2]|exact I].
  Qed.
  (* token, then a continuation that never gives input back *)
  Lemma token_then {A} fuel b n (k : token -> PM A) s : (n < fuel)%nat -> at_byte b (rd s) -> (rem (rd s) <= n)%nat ->
    (forall tok n', n = S n' -> pok n' (k tok)) ->
    pokc (pbind (liftR (parse_token fuel b)) k) s /\
    match pbind (liftR (parse_token fuel b)) k s with (POk _, s') => (rem (rd s') < rem (rd s))%nat | _ => True end.
  Proof.
    intros Hn Hb Hs Hk. unfold pokc. rewrite pbind_unfold. unfold liftR.
    destruct (ok_parse_token ro alpha fast std_parse Hfp fuel b n Hn (rd s) Hs) as [H1 H2].
    pose proof (token_consumes ro alpha fast std_parse fuel b (rd s) Hb) as Hc.
    destruct (parse_token fuel b (rd s)) as [[tok|e] r1]; cbn [fst snd] in *.
    - destruct n as [|n']; [lia|].
      destruct (Hk tok n' eq_refl {| rd := r1; depth := depth s |} ltac:(cbn [rd]; lia)) as [H3 H4]. cbn [rd] in H4.
      split; [split; [exact H3|lia]|].
      destruct (k tok {| rd := r1; depth := depth s |}) as [[a|e] s2]; cbn [fst snd] in *; [lia|exact I].
    - split; [split; [intros E; apply H1; inversion E; reflexivity|exact H2]|exact I].
  Qed.

  Theorem fuel_values fuel :
    (forall n, (2 * n + 3 <= fuel)%nat -> pokv n (next_value fuel)) /\
    (forall n t acc, (2 * n + 4 <= fuel)%nat -> pok n (parse_list fuel t acc)) /\
    (forall n t acc, (2 * n + 4 <= fuel)%nat -> pok n (parse_vector fuel t acc)).
  Proof.
    induction fuel as [|f (IHv & IHl & IHvec)]; [repeat split; intros; lia|].
    split; [|split].
    - intros n Hn. cbn [Parser.next_value].
      apply (pokv_shape f n (pret None)); [lia|]. intros b s Hb Hs.
      apply (token_then f b n _ s ltac:(lia) Hb Hs). intros tok n' Hn'.
      destruct tok; try apply pok_pret.
      + (* list *)
        apply pok_bind; [apply pok_enter_nesting|intros _].
        apply pok_nest_seq; [apply IHl; lia|apply (ok_end_seq alpha fast std_parse Hfp); lia|intros l; apply pok_pret].
      + (* quotation *)
        apply pok_bind; [apply pok_enter_nesting|intros _].
        apply pok_nest_quote; [intros s1 Hs1; apply (IHv n' ltac:(lia) s1 Hs1)|].
        intros o. destruct o; [apply pok_pret|apply pok_err].
      + (* vector *)
        apply pok_bind; [apply pok_enter_nesting|intros _].
        apply pok_nest_seq; [apply IHvec; lia|apply (ok_end_seq alpha fast std_parse Hfp); lia|intros l; apply pok_pret].
      + (* byte vector *)
        apply pok_bind; [apply pok_liftR; apply (ok_parse_byte_list alpha fast std_parse Hfp); lia|intros; apply pok_pret].
    - intros n t acc Hn. cbn [Parser.parse_list].
      apply pok_bind_ws; [lia|apply pok_err|]. intros c.
      destruct (is_closer c). { apply pokat_weaken. destruct (negb (c =? t)); [apply pok_err|apply pok_pret]. }
      destruct (c =? 46).
      + apply pokat_bind_eat_peek. intros nx n' Hn'. destruct (lone_dot nx).
        * destruct acc as [|a0 acc'].
          -- apply pok_bind; [apply pok_liftR; apply ok_peek|]. intros o3. destruct o3; apply pok_err.
          -- apply pok_bind_item; [apply IHv; lia|apply pok_err|]. intros cdr n'' Hn''.
             apply pok_bind; [apply pok_liftR; apply (ok_parse_whitespace alpha fast std_parse Hfp); lia|]. intros o2.
             destruct o2 as [c2|]; [destruct (c2 =? t); [apply pok_pret|apply pok_err]|apply pok_err].
        * apply pok_bind; [apply pok_liftR; apply ok_parse_symbol_suffix; lia|]. intros name. apply IHl. lia.
      + apply pokat_weaken. apply pok_bind_item; [apply IHv; lia|apply pok_err|]. intros v n' Hn'. apply IHl. lia.
    - intros n t acc Hn. cbn [Parser.parse_vector].
      apply pok_bind_ws; [lia|apply pok_err|]. intros c.
      destruct (is_closer c). { apply pokat_weaken. destruct (negb (c =? t)); [apply pok_err|apply pok_pret]. }
      apply pokat_weaken. apply pok_bind_item; [apply IHv; lia|apply pok_err|]. intros v n' Hn'. apply IHvec. lia.
  Qed.

  Lemma pok_position_then {A} n (k : N * N -> PM A) : (forall p, pok n (k p)) -> pok n (pbind (liftR position) k).
  Proof. intros Hk. apply pok_bind; [apply pok_liftR; apply ok_position|exact Hk]. Qed.

  Lemma position_token_then {A} fuel b n (k : N * N -> token -> PM A) s : (n < fuel)%nat -> at_byte b (rd s) -> (rem (rd s) <= n)%nat ->
    (forall p tok n', n = S n' -> pok n' (k p tok)) ->
    let m := pbind (liftR position) (fun p => pbind (liftR (parse_token fuel b)) (k p)) in
    pokc m s /\ match m s with (POk _, s') => (rem (rd s') < rem (rd s))%nat | _ => True end.
  Proof.
    intros Hn Hb Hs Hk m. unfold m. destruct s as [r d]. unfold pokc. rewrite pbind_unfold. unfold liftR at 1 3 5, position. cbn [rd depth].
    apply (token_then fuel b n (k (r_position r)) {| rd := r; depth := d |} Hn Hb Hs). intros tok n' Hn'. apply Hk. exact Hn'.
  Qed.

  Theorem fuel_datums fuel :
    (forall n, (2 * n + 3 <= fuel)%nat -> pokv n (next_datum fuel)) /\
    (forall n t acc, (2 * n + 4 <= fuel)%nat -> pok n (parse_list_meta fuel t acc)) /\
    (forall n t acc, (2 * n + 4 <= fuel)%nat -> pok n (parse_vector_meta fuel t acc)).
  Proof.
    induction fuel as [|f (IHv & IHl & IHvec)]; [repeat split; intros; lia|].
    split; [|split].
    - intros n Hn. cbn [Parser.next_datum].
      apply (pokv_shape f n (pret None)); [lia|]. intros b s Hb Hs.
      apply (position_token_then f b n _ s ltac:(lia) Hb Hs). intros start tok n' Hn'. cbv zeta.
      destruct tok; try (apply pok_position_then; intros; apply pok_pret).
      + (* list *)
        apply pok_bind; [apply pok_enter_nesting|intros _].
        apply pok_nest_seq; [apply IHl; lia|apply (ok_end_seq alpha fast std_parse Hfp); lia|].
        intros l. apply pok_position_then. intros; apply pok_pret.
      + (* quotation *)
        apply pok_position_then. intros token_end.
        apply pok_bind; [apply pok_enter_nesting|intros _].
        apply pok_nest_quote; [intros s1 Hs1; apply (IHv n' ltac:(lia) s1 Hs1)|].
        intros o. destruct o; [apply pok_pret|apply pok_err].
      + (* vector *)
        apply pok_bind; [apply pok_enter_nesting|intros _].
        apply pok_nest_seq; [apply IHvec; lia|apply (ok_end_seq alpha fast std_parse Hfp); lia|].
        intros l. apply pok_position_then. intros; apply pok_pret.
      + (* byte vector *)
        apply pok_bind; [apply pok_liftR; apply (ok_parse_byte_list alpha fast std_parse Hfp); lia|].
        intros. apply pok_position_then. intros; apply pok_pret.
    - intros n t acc Hn. cbn [Parser.parse_list_meta].
      apply pok_bind_ws; [lia|apply pok_err|]. intros c.
      destruct (is_closer c). { apply pokat_weaken. destruct (negb (c =? t)); [apply pok_err|apply pok_pret]. }
      destruct (c =? 46).
      + apply pokat_bind_position. intros start. apply pokat_bind_eat_peek. intros nx n' Hn'. destruct (lone_dot nx).
        * destruct acc as [|a0 acc'].
          -- apply pok_bind; [apply pok_liftR; apply ok_peek|]. intros o3. destruct o3; apply pok_err.
          -- apply pok_bind_item; [apply IHv; lia|apply pok_err|]. intros cdr n'' Hn''.
             apply pok_bind; [apply pok_liftR; apply (ok_parse_whitespace alpha fast std_parse Hfp); lia|]. intros o2.
             destruct o2 as [c2|]; [destruct (c2 =? t); [apply pok_pret|apply pok_err]|apply pok_err].
        * apply pok_bind; [apply pok_liftR; apply ok_parse_symbol_suffix; lia|]. intros name.
          apply pok_position_then. intros e. apply IHl. lia.
      + apply pokat_weaken. apply pok_bind_item; [apply IHv; lia|apply pok_err|]. intros v n' Hn'. apply IHl. lia.
    - intros n t acc Hn. cbn [Parser.parse_vector_meta].
      apply pok_bind_ws; [lia|apply pok_err|]. intros c.
      destruct (is_closer c). { apply pokat_weaken. destruct (negb (c =? t)); [apply pok_err|apply pok_pret]. }
      apply pokat_weaken. apply pok_bind_item; [apply IHv; lia|apply pok_err|]. intros v n' Hn'. apply IHvec. lia.
  Qed.

  (* ---- entry points, histories, iterators: fuel_for is enough ---- *)
  Definition not_fuel {A} (r : pres A) : Prop := r <> PErr (XErr EFuel).

  Lemma pok_expect_value fuel n : (2 * n + 3 <= fuel)%nat -> pok n (expect_value ro alpha fast std_parse fuel).
  Proof.
    intros Hn. unfold expect_value. apply pok_bind; [intros s Hs; apply (proj1 (fuel_values fuel) n Hn s Hs)|].
    intros o. destruct o; [apply pok_pret|apply pok_err].
  Qed.
  Lemma pok_expect_datum fuel n : (2 * n + 3 <= fuel)%nat -> pok n (expect_datum ro alpha fast std_parse fuel).
  Proof.
    intros Hn. unfold expect_datum. apply pok_bind; [intros s Hs; apply (proj1 (fuel_datums fuel) n Hn s Hs)|].
    intros o. destruct o; [apply pok_pret|apply pok_err].
  Qed.
  Lemma pok_expect_end fuel n : (S n < fuel)%nat -> pok n (expect_end_p fuel).
  Proof. intros Hn. unfold expect_end_p. apply pok_liftR. apply (ok_expect_end alpha fast std_parse Hfp). exact Hn. Qed.

  Lemma fuel_for_enough inp : (2 * length inp + 3 <= fuel_for inp)%nat /\ (S (length inp) < fuel_for inp)%nat.
  Proof. unfold fuel_for. lia. Qed.

  Theorem from_trait_fuel k inp : not_fuel (from_trait ro alpha fast std_parse k inp).
  Proof.
    unfold from_trait, not_fuel. cbv zeta. destruct (fuel_for_enough inp) as [H1 H2].
    refine (proj1 (pok_bind (length inp) _ _ (pok_expect_value _ _ H1) _ (init_state k inp) _)).
    - intros v. apply pok_bind; [apply pok_expect_end; exact H2|intros; apply pok_pret].
    - unfold init_state, mk_reader, rem. cbn [rd rinput]. lia.
  Qed.
  Theorem datum_from_trait_fuel k inp : not_fuel (datum_from_trait ro alpha fast std_parse k inp).
  Proof.
    unfold datum_from_trait, not_fuel. cbv zeta. destruct (fuel_for_enough inp) as [H1 H2].
    refine (proj1 (pok_bind (length inp) _ _ (pok_expect_datum _ _ H1) _ (init_state k inp) _)).
    - intros v. apply pok_bind; [apply pok_expect_end; exact H2|intros; apply pok_pret].
    - unfold init_state, mk_reader, rem. cbn [rd rinput]. lia.
  Qed.

  (* any history of API calls on one parser *)
  Definition call_not_fuel (r : call_result) : Prop := r <> RErr (XErr EFuel).
  Lemma run_call_fuel fuel n c s : (2 * n + 3 <= fuel)%nat -> (rem (rd s) <= n)%nat ->
    call_not_fuel (fst (run_call ro alpha fast std_parse fuel c s)) /\
    (rem (rd (snd (run_call ro alpha fast std_parse fuel c s))) <= rem (rd s))%nat.
  Proof.
    intros Hn Hs. unfold run_call, call_not_fuel. destruct c.
    - destruct (proj1 (proj1 (fuel_values fuel) n Hn s Hs)) as [H1 H2].
      destruct (Parser.next_value ro alpha fast std_parse fuel s) as [[o|e] s1]; cbn [fst snd] in *; split; try discriminate; try exact H2.
      intros E. apply H1. inversion E. reflexivity.
    - destruct (proj1 (proj1 (fuel_datums fuel) n Hn s Hs)) as [H1 H2].
      destruct (Parser.next_datum ro alpha fast std_parse fuel s) as [[o|e] s1]; cbn [fst snd] in *; split; try discriminate; try exact H2.
      intros E. apply H1. inversion E. reflexivity.
    - destruct (pok_expect_value fuel n Hn s Hs) as [H1 H2].
      destruct (expect_value ro alpha fast std_parse fuel s) as [[o|e] s1]; cbn [fst snd] in *; split; try discriminate; try exact H2.
      intros E. apply H1. inversion E. reflexivity.
    - destruct (pok_expect_datum fuel n Hn s Hs) as [H1 H2].
      destruct (expect_datum ro alpha fast std_parse fuel s) as [[o|e] s1]; cbn [fst snd] in *; split; try discriminate; try exact H2.
      intros E. apply H1. inversion E. reflexivity.
    - destruct (pok_expect_end fuel n ltac:(lia) s Hs) as [H1 H2].
      destruct (expect_end_p fuel s) as [[o|e] s1]; cbn [fst snd] in *; split; try discriminate; try exact H2.
      intros E. apply H1. inversion E. reflexivity.
  Qed.
  Theorem history_fuel fuel n cs : forall s, (2 * n + 3 <= fuel)%nat -> (rem (rd s) <= n)%nat ->
    Forall call_not_fuel (run_history ro alpha fast std_parse fuel cs s).
  Proof.
    induction cs as [|c cs IH]; intros s Hn Hs; cbn [run_history]; [constructor|].
    pose proof (run_call_fuel fuel n c s Hn Hs) as [H1 H2].
    destruct (run_call ro alpha fast std_parse fuel c s) as [r s1]. cbn [fst snd] in *.
    constructor; [exact H1|apply IH; [exact Hn|lia]].
  Qed.
  Theorem iterate_values_fuel fuel n k : forall s, (2 * n + 3 <= fuel)%nat -> (rem (rd s) <= n)%nat ->
    Forall not_fuel (iterate_values ro alpha fast std_parse fuel k s).
  Proof.
    induction k as [|k IH]; intros s Hn Hs; cbn [iterate_values]; [constructor|].
    destruct (proj1 (proj1 (fuel_values fuel) n Hn s Hs)) as [H1 H2].
    destruct (Parser.next_value ro alpha fast std_parse fuel s) as [[[v|]|e] s1]; cbn [fst snd] in *; [| constructor |].
    - constructor; [discriminate|apply IH; [exact Hn|lia]].
    - constructor; [intros E; apply H1; inversion E; reflexivity|apply IH; [exact Hn|lia]].
  Qed.
  Theorem iterate_datums_fuel fuel n k : forall s, (2 * n + 3 <= fuel)%nat -> (rem (rd s) <= n)%nat ->
    Forall not_fuel (iterate_datums ro alpha fast std_parse fuel k s).
  Proof.
    induction k as [|k IH]; intros s Hn Hs; cbn [iterate_datums]; [constructor|].
    destruct (proj1 (proj1 (fuel_datums fuel) n Hn s Hs)) as [H1 H2].
    destruct (Parser.next_datum ro alpha fast std_parse fuel s) as [[[v|]|e] s1]; cbn [fst snd] in *; [| constructor |].
    - constructor; [discriminate|apply IH; [exact Hn|lia]].
    - constructor; [intros E; apply H1; inversion E; reflexivity|apply IH; [exact Hn|lia]].
  Qed.

  (* successful items are paid for in input: an iteration cannot return more
     values than there are events left *)
  Definition is_okb {A} (r : pres A) : bool := match r with POk _ => true | PErr _ => false end.
  Theorem iterate_values_count fuel n k : forall s, (2 * n + 3 <= fuel)%nat -> (rem (rd s) <= n)%nat ->
    (length (filter is_okb (iterate_values ro alpha fast std_parse fuel k s)) <= rem (rd s))%nat.
  Proof.
    induction k as [|k IH]; intros s Hn Hs; cbn [iterate_values]; [cbn; lia|].
    destruct (proj1 (fuel_values fuel) n Hn s Hs) as [[H1 H2] H3]. unfold item_strict in H3.
    destruct (Parser.next_value ro alpha fast std_parse fuel s) as [[[v|]|e] s1]; cbn [fst snd filter is_okb length] in *; [|lia|].
    - specialize (IH s1 Hn ltac:(lia)). lia.
    - specialize (IH s1 Hn ltac:(lia)). lia.
  Qed.
  Theorem iterate_datums_count fuel n k : forall s, (2 * n + 3 <= fuel)%nat -> (rem (rd s) <= n)%nat ->
    (length (filter is_okb (iterate_datums ro alpha fast std_parse fuel k s)) <= rem (rd s))%nat.
  Proof.
    induction k as [|k IH]; intros s Hn Hs; cbn [iterate_datums]; [cbn; lia|].
    destruct (proj1 (fuel_datums fuel) n Hn s Hs) as [[H1 H2] H3]. unfold item_strict in H3.
    destruct (Parser.next_datum ro alpha fast std_parse fuel s) as [[[v|]|e] s1]; cbn [fst snd filter is_okb length] in *; [|lia|].
    - specialize (IH s1 Hn ltac:(lia)). lia.
    - specialize (IH s1 Hn ltac:(lia)). lia.
  Qed.
End ParserFuel.
