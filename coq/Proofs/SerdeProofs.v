(* C04 / C14 / C18: the Serde round trip through S-expression values. *)
From Coq Require Import SpecFloat ZifyBool.
Require Import Base Value Float NumberOps ListOps SerdeModel NumberProofs ListProofs.

Lemma beq_bytes_refl a : beq_bytes a a = true.
Proof. induction a as [|x a IH]; cbn; [reflexivity|]. now rewrite N.eqb_refl, IH. Qed.
Lemma beq_bytes_eq a b : beq_bytes a b = true -> a = b.
Proof.
  revert b; induction a as [|x a IH]; intros [|y b]; cbn; try discriminate; [reflexivity|].
  intros H. apply andb_prop in H. destruct H as [H1 H2]. apply N.eqb_eq in H1. subst. f_equal. now apply IH.
Qed.

(* ---- an induction principle that reaches through the nested lists ---- *)
Section ty_ind'.
  Variable P : ty -> Prop.
  Variable Q : variant -> Prop.
  Hypothesis HBool : P TyBool.
  Hypothesis HInt : forall s b, P (TyInt s b).
  Hypothesis HF32 : P TyF32.
  Hypothesis HF64 : P TyF64.
  Hypothesis HChar : P TyChar.
  Hypothesis HString : P TyString.
  Hypothesis HByteBuf : P TyByteBuf.
  Hypothesis HUnit : P TyUnit.
  Hypothesis HOption : forall t, P t -> P (TyOption t).
  Hypothesis HSeq : forall t, P t -> P (TySeq t).
  Hypothesis HTuple : forall ts, Forall P ts -> P (TyTuple ts).
  Hypothesis HMap : forall k v, P k -> P v -> P (TyMap k v).
  Hypothesis HStruct : forall fs, Forall (fun f => P (snd f)) fs -> P (TyStruct fs).
  Hypothesis HNewtype : forall t, P t -> P (TyNewtype t).
  Hypothesis HEnum : forall vs, Forall (fun v => Q (snd v)) vs -> P (TyEnum vs).
  Hypothesis HVUnit : Q VUnit.
  Hypothesis HVNewtype : forall t, P t -> Q (VNewtype t).
  Hypothesis HVTuple : forall ts, Forall P ts -> Q (VTuple ts).
  Hypothesis HVStruct : forall fs, Forall (fun f => P (snd f)) fs -> Q (VStruct fs).

  Fixpoint ty_ind' (t : ty) : P t :=
    match t with
    | TyBool => HBool
    | TyInt s b => HInt s b
    | TyF32 => HF32
    | TyF64 => HF64
    | TyChar => HChar
    | TyString => HString
    | TyByteBuf => HByteBuf
    | TyUnit => HUnit
    | TyOption t' => HOption t' (ty_ind' t')
    | TySeq t' => HSeq t' (ty_ind' t')
    | TyTuple ts =>
        HTuple ts ((fix go (l : list ty) : Forall P l :=
                      match l with [] => Forall_nil _ | x :: l' => Forall_cons x (ty_ind' x) (go l') end) ts)
    | TyMap k v => HMap k v (ty_ind' k) (ty_ind' v)
    | TyStruct fs =>
        HStruct fs ((fix go (l : list (bytes * ty)) : Forall (fun f => P (snd f)) l :=
                       match l with
                       | [] => Forall_nil _
                       | x :: l' => Forall_cons (P := fun f => P (snd f)) x (ty_ind' (snd x)) (go l')
                       end) fs)
    | TyNewtype t' => HNewtype t' (ty_ind' t')
    | TyEnum vs =>
        HEnum vs ((fix go (l : list (bytes * variant)) : Forall (fun v => Q (snd v)) l :=
                     match l with
                     | [] => Forall_nil _
                     | x :: l' => Forall_cons (P := fun v => Q (snd v)) x (variant_ind' (snd x)) (go l')
                     end) vs)
    end
  with variant_ind' (v : variant) : Q v :=
    match v with
    | VUnit => HVUnit
    | VNewtype t => HVNewtype t (ty_ind' t)
    | VTuple ts =>
        HVTuple ts ((fix go (l : list ty) : Forall P l :=
                       match l with [] => Forall_nil _ | x :: l' => Forall_cons x (ty_ind' x) (go l') end) ts)
    | VStruct fs =>
        HVStruct fs ((fix go (l : list (bytes * ty)) : Forall (fun f => P (snd f)) l :=
                        match l with
                        | [] => Forall_nil _
                        | x :: l' => Forall_cons (P := fun f => P (snd f)) x (ty_ind' (snd x)) (go l')
                        end) fs)
    end.
End ty_ind'.

Section Roundtrip.
  Variable cast_f32 : f64 -> f64.
  Variable is_f32 : f64 -> bool.
  (* std: casting to f32 a value that already is an f32 changes nothing *)
  Hypothesis cast_id : forall f, is_f32 f = true -> cast_f32 f = f.

  Local Notation ser := (ser is_f32).
  Local Notation de := (de cast_f32).

  (* named copies of the loops nested in [ser] and [de], in the same shape
     (same captured parameters) so that they are convertible with them *)
  Definition ser_seq (t : ty) : list data -> option (list value) :=
    fix go (l : list data) : option (list value) :=
      match l with
      | [] => Some []
      | x :: l' => match ser t x, go l' with Some v, Some vs => Some (v :: vs) | _, _ => None end
      end.
  Definition ser_tuple : list ty -> list data -> option (list value) :=
    fix go (ts : list ty) (l : list data) : option (list value) :=
      match ts, l with
      | [], [] => Some []
      | t1 :: ts', x :: l' => match ser t1 x, go ts' l' with Some v, Some vs => Some (v :: vs) | _, _ => None end
      | _, _ => None
      end.
  Definition ser_map (kt vt : ty) : list (data * data) -> option (list value) :=
    fix go (l : list (data * data)) : option (list value) :=
      match l with
      | [] => Some []
      | (k, x) :: l' =>
          match ser kt k, ser vt x, go l' with
          | Some kv, Some xv, Some vs => Some (Cons kv xv :: vs)
          | _, _, _ => None
          end
      end.
  Definition ser_fields : list (bytes * ty) -> list data -> option (list value) :=
    fix go (fs : list (bytes * ty)) (l : list data) : option (list value) :=
      match fs, l with
      | [], [] => Some []
      | (name, t1) :: fs', x :: l' =>
          match ser t1 x, go fs' l' with
          | Some v, Some vs => Some (Cons (Symbol name) v :: vs)
          | _, _ => None
          end
      | _, _ => None
      end.

  Definition de_seq (t : ty) : list value -> sres (list data) :=
    fix go (l : list value) : sres (list data) :=
      match l with
      | [] => SOk []
      | x :: l' => sbind (de t x) (fun d => sbind (go l') (fun r => SOk (d :: r)))
      end.
  Definition de_tuple : list ty -> list value -> sres (list data) :=
    fix go (ts : list ty) (l : list value) : sres (list data) :=
      match ts, l with
      | [], _ => SOk []
      | t1 :: ts', x :: l' => sbind (de t1 x) (fun d => sbind (go ts' l') (fun r => SOk (d :: r)))
      | _ :: _, [] => SErr SData
      end.
  Definition de_map (kt vt : ty) : list (value * value) -> sres (list (data * data)) :=
    fix go (l : list (value * value)) : sres (list (data * data)) :=
      match l with
      | [] => SOk []
      | (k, x) :: l' =>
          sbind (de kt k) (fun dk => sbind (de vt x) (fun dx =>
          sbind (go l') (fun r => SOk ((dk, dx) :: r))))
      end.
  Definition de_fields (es : list (value * value)) : list (bytes * ty) -> sres (list data) :=
    fix go (fs : list (bytes * ty)) : sres (list data) :=
      match fs with
      | [] => SOk []
      | (name, t1) :: fs' =>
          sbind (match entries_for name es with
                 | [] => match t1 with TyOption _ => SOk DNone | _ => SErr SData end
                 | [x] => de t1 x
                 | _ => SErr SData
                 end) (fun d => sbind (go fs') (fun r => SOk (d :: r)))
      end.

  Lemma ser_seq_eq t l :
    ser (TySeq t) (DSeq l) = match ser_seq t l with Some vs => Some (value_list vs) | None => None end.
  Proof. reflexivity. Qed.
  Lemma ser_tuple_eq ts l :
    ser (TyTuple ts) (DTuple l) = match ser_tuple ts l with Some vs => Some (Vector vs) | None => None end.
  Proof. reflexivity. Qed.
  Lemma ser_map_eq kt vt l :
    ser (TyMap kt vt) (DMap l) = match ser_map kt vt l with Some vs => Some (value_list vs) | None => None end.
  Proof. reflexivity. Qed.
  Lemma ser_struct_eq fs l :
    ser (TyStruct fs) (DStruct l) = match ser_fields fs l with Some vs => Some (value_list vs) | None => None end.
  Proof. reflexivity. Qed.

  Lemma de_seq_eq t v :
    de (TySeq t) v = sbind (seq_access true v) (fun els => sbind (de_seq t els) (fun ds => SOk (DSeq ds))).
  Proof. reflexivity. Qed.
  Lemma de_tuple_eq ts v :
    de (TyTuple ts) v = sbind (tuple_access (length ts) v) (fun els => sbind (de_tuple ts els) (fun ds => SOk (DTuple ds))).
  Proof. reflexivity. Qed.
  Lemma de_map_eq kt vt v :
    de (TyMap kt vt) v = sbind (map_access v) (fun es => sbind (de_map kt vt es) (fun ds => SOk (DMap ds))).
  Proof. reflexivity. Qed.
  Lemma de_struct_eq fs v :
    de (TyStruct fs) v =
    sbind (map_access v) (fun es =>
      if forallb key_is_symbol es then sbind (de_fields es fs) (fun ds => SOk (DStruct ds)) else SErr SData).
  Proof. reflexivity. Qed.

  (* ---- access lemmas: what the serializer builds is walked back exactly ---- *)
  Lemma list_elems_build v vs : list_elems v (build vs Null) = SOk (v :: vs).
  Proof.
    revert v; induction vs as [|w ws IH]; intros v; cbn [build list_elems]; [reflexivity|].
    now rewrite IH.
  Qed.
  Lemma seq_access_list vs : seq_access true (value_list vs) = SOk vs.
  Proof. destruct vs as [|v vs]; [reflexivity|]. unfold value_list. cbn [build seq_access]. apply list_elems_build. Qed.

  Definition entry_of (e : value) : option (value * value) :=
    match e with Cons k x => Some (k, x) | _ => None end.
  Fixpoint entries_of (l : list value) : option (list (value * value)) :=
    match l with
    | [] => Some []
    | e :: l' => match entry_of e, entries_of l' with Some p, Some r => Some (p :: r) | _, _ => None end
    end.
  Lemma map_entries_build e es r : entries_of (e :: es) = Some r -> map_entries e (build es Null) = SOk r.
  Proof.
    revert e r; induction es as [|e2 es IH]; intros e r H.
    - cbn in H. destruct e; try discriminate. inversion H; subst. reflexivity.
    - cbn [entries_of] in H. destruct (entry_of e) as [p|] eqn:Ee; [|discriminate].
      destruct (entry_of e2) as [p2|] eqn:Ee2; [|discriminate].
      destruct (entries_of es) as [r2|] eqn:Er; [|discriminate]. inversion H; subst.
      destruct e; try discriminate. cbn in Ee. inversion Ee; subst.
      cbn [build map_entries]. rewrite (IH e2 (p2 :: r2)); [reflexivity|].
      cbn [entries_of]. now rewrite Ee2, Er.
  Qed.
  Lemma map_access_list l r : entries_of l = Some r -> map_access (value_list l) = SOk r.
  Proof.
    destruct l as [|e es]; intros H; [cbn in H; inversion H; reflexivity|].
    unfold value_list. cbn [build map_access]. now apply map_entries_build.
  Qed.

  (* ---- the round trip, one layer at a time ---- *)
  Definition rt (t : ty) : Prop := forall d v, ser t d = Some v -> de t v = SOk d.

  Lemma rt_seq t l vs : rt t -> ser_seq t l = Some vs -> de_seq t vs = SOk l.
  Proof.
    intros Ht. revert vs; induction l as [|x l IH]; intros vs H; cbn [ser_seq] in H.
    - inversion H; reflexivity.
    - destruct (ser t x) as [v|] eqn:Ex; [|discriminate].
      destruct (ser_seq t l) as [vs'|] eqn:El; [|discriminate]. inversion H; subst.
      cbn [de_seq]. rewrite (Ht _ _ Ex). cbn [sbind]. now rewrite (IH _ eq_refl).
  Qed.

  Lemma ser_tuple_length ts l vs : ser_tuple ts l = Some vs -> length vs = length ts.
  Proof.
    revert l vs; induction ts as [|t ts IH]; intros [|x l] vs H; cbn [ser_tuple] in H; try discriminate.
    - inversion H; reflexivity.
    - destruct (ser t x); [|discriminate]. destruct (ser_tuple ts l) eqn:E; [|discriminate].
      inversion H; subst. cbn. f_equal. eapply IH; eauto.
  Qed.
  Lemma rt_tuple ts l vs : Forall rt ts -> ser_tuple ts l = Some vs -> de_tuple ts vs = SOk l.
  Proof.
    intros Hts. revert l vs; induction Hts as [|t ts Ht Hts IH]; intros [|x l] vs H; cbn [ser_tuple] in H; try discriminate.
    - inversion H; reflexivity.
    - destruct (ser t x) as [v|] eqn:Ex; [|discriminate].
      destruct (ser_tuple ts l) as [vs'|] eqn:El; [|discriminate]. inversion H; subst.
      cbn [de_tuple]. rewrite (Ht _ _ Ex). cbn [sbind]. now rewrite (IH _ _ El).
  Qed.

  Lemma rt_map kt vt l vs : rt kt -> rt vt -> ser_map kt vt l = Some vs ->
    exists es, entries_of vs = Some es /\ de_map kt vt es = SOk l.
  Proof.
    intros Hk Hv. revert vs; induction l as [|[k x] l IH]; intros vs H; cbn [ser_map] in H.
    - inversion H; subst. exists []. split; reflexivity.
    - destruct (ser kt k) as [kv|] eqn:Ek; [|discriminate].
      destruct (ser vt x) as [xv|] eqn:Ex; [|discriminate].
      destruct (ser_map kt vt l) as [vs'|] eqn:El; [|discriminate]. inversion H; subst.
      destruct (IH _ eq_refl) as (es & He & Hd).
      exists ((kv, xv) :: es). split.
      + cbn [entries_of entry_of]. now rewrite He.
      + cbn [de_map]. rewrite (Hk _ _ Ek), (Hv _ _ Ex). cbn [sbind]. now rewrite Hd.
  Qed.

  (* struct fields: names must be distinct *)
  Definition names (fs : list (bytes * ty)) : list bytes := map fst fs.

  Lemma ser_fields_entries fs l vs : ser_fields fs l = Some vs ->
    exists es, entries_of vs = Some es /\ forallb key_is_symbol es = true /\
               map fst es = map (fun n => Symbol n) (names fs) /\ length es = length fs.
  Proof.
    revert l vs; induction fs as [|[n t] fs IH]; intros [|x l] vs H; cbn [ser_fields] in H; try discriminate.
    - inversion H; subst. exists []. repeat split.
    - destruct (ser t x) as [v|] eqn:Ex; [|discriminate].
      destruct (ser_fields fs l) as [vs'|] eqn:El; [|discriminate]. inversion H; subst.
      destruct (IH _ _ El) as (es & He & Hs & Hn & Hl).
      exists ((Symbol n, v) :: es). cbn [entries_of entry_of]. rewrite He. repeat split.
      + cbn. exact Hs.
      + cbn. now rewrite Hn.
      + cbn. now rewrite Hl.
  Qed.

  Lemma entries_for_absent n es : ~ In (Symbol n) (map fst es) -> entries_for n es = [].
  Proof.
    induction es as [|[k x] es IH]; intros H; [reflexivity|].
    cbn [entries_for]. cbn in H.
    destruct k; try (apply IH; intros Hi; apply H; right; exact Hi).
    destruct (beq_bytes s n) eqn:E.
    - apply beq_bytes_eq in E. subst. exfalso. apply H. left. reflexivity.
    - apply IH. intros Hi. apply H. right. exact Hi.
  Qed.

  Lemma rt_fields_aux fs l vs es_all :
    Forall (fun f => rt (snd f)) fs -> ser_fields fs l = Some vs ->
    (forall n t x v, In (n, t) fs -> ser t x = Some v -> In (Cons (Symbol n) v) vs ->
                     entries_for n es_all = [v]) ->
    NoDup (names fs) ->
    de_fields es_all fs = SOk l.
  Proof.
    intros Hfs. revert l vs; induction Hfs as [|[n t] fs Ht Hfs IH]; intros [|x l] vs H Hlook Hnd;
      cbn [ser_fields] in H; try discriminate.
    - inversion H; reflexivity.
    - destruct (ser t x) as [v|] eqn:Ex; [|discriminate].
      destruct (ser_fields fs l) as [vs'|] eqn:El; [|discriminate]. inversion H; subst.
      cbn [de_fields]. rewrite (Hlook n t x v (or_introl eq_refl) Ex (or_introl eq_refl)).
      cbn [snd] in Ht. rewrite (Ht _ _ Ex). cbn [sbind].
      rewrite (IH l vs' El); [reflexivity| |inversion Hnd; assumption].
      intros n' t' x' v' Hin Hs Hv. apply (Hlook n' t' x' v'); [right; exact Hin|exact Hs|right; exact Hv].
  Qed.

  Lemma entries_for_self fs l vs es :
    ser_fields fs l = Some vs -> entries_of vs = Some es -> NoDup (names fs) ->
    forall n t x v, In (n, t) fs -> ser t x = Some v -> In (Cons (Symbol n) v) vs -> entries_for n es = [v].
  Proof.
    revert l vs es; induction fs as [|[n1 t1] fs IH]; intros [|x1 l] vs es H He Hnd n t x v Hin Hs Hv;
      cbn [ser_fields] in H; try discriminate; [inversion Hin|].
    destruct (ser t1 x1) as [v1|] eqn:Ex; [|discriminate].
    destruct (ser_fields fs l) as [vs'|] eqn:El; [|discriminate]. inversion H; subst.
    cbn [entries_of entry_of] in He. destruct (entries_of vs') as [es'|] eqn:Ee; [|discriminate]. inversion He; subst.
    inversion Hnd as [|? ? Hnotin Hnd']; subst.
    destruct (ser_fields_entries _ _ _ El) as (es2 & He2 & _ & Hn2 & _).
    rewrite Ee in He2. inversion He2; subst es2.
    cbn [entries_for].
    destruct Hv as [Hv|Hv].
    - (* the head entry *)
      inversion Hv; subst. rewrite beq_bytes_refl.
      rewrite entries_for_absent; [reflexivity|].
      rewrite Hn2. intros Hi. apply in_map_iff in Hi. destruct Hi as (m & Hm & Hin'). inversion Hm; subst.
      apply Hnotin. exact Hin'.
    - (* a later entry: its name differs from the head's *)
      assert (Hne : beq_bytes n1 n = false).
      { destruct (beq_bytes n1 n) eqn:E; [|reflexivity]. apply beq_bytes_eq in E. subst. exfalso.
        apply Hnotin.
        (* Cons (Symbol n) v in vs' means n is one of the names of fs *)
        clear - El Hv. revert l vs' El Hv. induction fs as [|[m tm] fs IHf]; intros [|y l] vs' El Hv;
          cbn [ser_fields] in El; try discriminate; [inversion El; subst; inversion Hv|].
        destruct (ser tm y); [|discriminate]. destruct (ser_fields fs l) eqn:E2; [|discriminate].
        inversion El; subst. destruct Hv as [Hv|Hv]; [inversion Hv; left; reflexivity|right; eapply IHf; eauto]. }
      rewrite Hne.
      destruct Hin as [Hin|Hin].
      + inversion Hin; subst. rewrite beq_bytes_refl in Hne. discriminate.
      + eapply IH; eauto.
  Qed.

  Lemma rt_fields fs l vs : Forall (fun f => rt (snd f)) fs -> NoDup (names fs) ->
    ser_fields fs l = Some vs ->
    exists es, entries_of vs = Some es /\ forallb key_is_symbol es = true /\ de_fields es fs = SOk l.
  Proof.
    intros Hfs Hnd H. destruct (ser_fields_entries _ _ _ H) as (es & He & Hs & _ & _).
    exists es. split; [exact He|]. split; [exact Hs|].
    eapply rt_fields_aux; eauto. eapply entries_for_self; eauto.
  Qed.

  (* ---- enums ---- *)
  Definition ser_variant (name : bytes) (var : variant) (p : payload) : option value :=
    match var, p with
    | VUnit, PUnit => Some (Symbol name)
    | VNewtype t', PNewtype x =>
        match ser t' x with Some v => Some (Cons (Symbol name) v) | None => None end
    | VTuple ts, PTuple l =>
        match ser_tuple ts l with
        | Some vs => Some (Cons (Symbol name) (value_list vs))
        | None => None
        end
    | VStruct fields, PStruct l =>
        match ser_fields fields l with
        | Some vs => Some (Cons (Symbol name) (value_list vs))
        | None => None
        end
    | _, _ => None
    end.
  Definition ser_find (name : bytes) (p : payload) : list (bytes * variant) -> option value :=
    fix find (vs : list (bytes * variant)) : option value :=
      match vs with
      | [] => None
      | (n, var) :: vs' => if beq_bytes n name then ser_variant name var p else find vs'
      end.
  Lemma ser_enum_eq vs name p : ser (TyEnum vs) (DEnum name p) = ser_find name p vs.
  Proof. reflexivity. Qed.

  Definition de_unit_find (name : bytes) : list (bytes * variant) -> sres data :=
    fix find (vs : list (bytes * variant)) : sres data :=
      match vs with
      | [] => SErr SData
      | (n, var) :: vs' =>
          if beq_bytes n name then
            match var with VUnit => SOk (DEnum name PUnit) | _ => SErr SData end
          else find vs'
      end.
  Definition de_variant (name : bytes) (rest : value) (var : variant) : sres data :=
    match var with
    | VUnit => SOk (DEnum name PUnit)
    | VNewtype t' => sbind (de t' rest) (fun d => SOk (DEnum name (PNewtype d)))
    | VTuple ts =>
        sbind (seq_access true rest) (fun els =>
        sbind (de_tuple ts els) (fun ds => SOk (DEnum name (PTuple ds))))
    | VStruct fields =>
        sbind (map_access rest) (fun es =>
        if forallb key_is_symbol es then
          sbind (de_fields es fields) (fun ds => SOk (DEnum name (PStruct ds)))
        else SErr SData)
    end.
  Definition de_cons_find (name : bytes) (rest : value) : list (bytes * variant) -> sres data :=
    fix find (vs : list (bytes * variant)) : sres data :=
      match vs with
      | [] => SErr SData
      | (n, var) :: vs' => if beq_bytes n name then de_variant name rest var else find vs'
      end.
  Lemma de_enum_symbol vs name : de (TyEnum vs) (Symbol name) = de_unit_find name vs.
  Proof. reflexivity. Qed.
  Lemma de_enum_cons vs name rest : de (TyEnum vs) (Cons (Symbol name) rest) = de_cons_find name rest vs.
  Proof. reflexivity. Qed.

  (* what a variant serializes to is read back by the same variant *)
  Definition rt_var (var : variant) : Prop :=
    forall name p v, ser_variant name var p = Some v ->
      (var = VUnit /\ p = PUnit /\ v = Symbol name) \/
      (var <> VUnit /\ exists rest, v = Cons (Symbol name) rest /\ de_variant name rest var = SOk (DEnum name p)).

  Lemma rt_find vs name p v : Forall (fun x => rt_var (snd x)) vs ->
    ser_find name p vs = Some v -> de (TyEnum vs) v = SOk (DEnum name p).
  Proof.
    intros Hvs H.
    assert (Hcase : (v = Symbol name /\ de_unit_find name vs = SOk (DEnum name p)) \/
                    (exists rest, v = Cons (Symbol name) rest /\ de_cons_find name rest vs = SOk (DEnum name p))).
    { induction Hvs as [|[n var] vs Hv Hvs IH]; cbn [ser_find] in H; [discriminate|].
      cbn [de_unit_find de_cons_find]. destruct (beq_bytes n name) eqn:E.
      - cbn [snd] in Hv. destruct (Hv name p v H) as [(-> & -> & ->)|(Hne & rest & -> & Hd)].
        + left. split; reflexivity.
        + right. exists rest. split; [reflexivity|exact Hd].
      - destruct (IH H) as [(-> & Hd)|(rest & -> & Hd)].
        + left. split; [reflexivity|exact Hd].
        + right. exists rest. split; [reflexivity|exact Hd]. }
    destruct Hcase as [(-> & Hd)|(rest & -> & Hd)].
    - now rewrite de_enum_symbol.
    - now rewrite de_enum_cons.
  Qed.

  (* ---- well-formed types: field names of every struct (variant) are distinct ---- *)
  Fixpoint wf_ty (t : ty) : Prop :=
    match t with
    | TyOption t' | TySeq t' | TyNewtype t' => wf_ty t'
    | TyTuple ts => (fix go (l : list ty) : Prop := match l with [] => True | x :: l' => wf_ty x /\ go l' end) ts
    | TyMap k v => wf_ty k /\ wf_ty v
    | TyStruct fs =>
        NoDup (names fs) /\
        (fix go (l : list (bytes * ty)) : Prop := match l with [] => True | f :: l' => wf_ty (snd f) /\ go l' end) fs
    | TyEnum vs =>
        (fix go (l : list (bytes * variant)) : Prop := match l with [] => True | v :: l' => wf_var (snd v) /\ go l' end) vs
    | _ => True
    end
  with wf_var (v : variant) : Prop :=
    match v with
    | VUnit => True
    | VNewtype t => wf_ty t
    | VTuple ts => (fix go (l : list ty) : Prop := match l with [] => True | x :: l' => wf_ty x /\ go l' end) ts
    | VStruct fs =>
        NoDup (names fs) /\
        (fix go (l : list (bytes * ty)) : Prop := match l with [] => True | f :: l' => wf_ty (snd f) /\ go l' end) fs
    end.

  Lemma forall_tys (R : ty -> Prop) ts :
    Forall (fun t => wf_ty t -> R t) ts ->
    (fix go (l : list ty) : Prop := match l with [] => True | x :: l' => wf_ty x /\ go l' end) ts ->
    Forall R ts.
  Proof. induction 1 as [|t ts Ht Hts IH]; intros Hw; [constructor|]. destruct Hw as [H1 H2]. constructor; auto. Qed.
  Lemma forall_fields (R : ty -> Prop) fs :
    Forall (fun f => wf_ty (snd f) -> R (snd f)) fs ->
    (fix go (l : list (bytes * ty)) : Prop := match l with [] => True | f :: l' => wf_ty (snd f) /\ go l' end) fs ->
    Forall (fun f => R (snd f)) fs.
  Proof. induction 1 as [|t ts Ht Hts IH]; intros Hw; [constructor|]. destruct Hw as [H1 H2]. constructor; auto. Qed.
  Lemma forall_vars (R : variant -> Prop) vs :
    Forall (fun v => wf_var (snd v) -> R (snd v)) vs ->
    (fix go (l : list (bytes * variant)) : Prop := match l with [] => True | v :: l' => wf_var (snd v) /\ go l' end) vs ->
    Forall (fun v => R (snd v)) vs.
  Proof. induction 1 as [|t ts Ht Hts IH]; intros Hw; [constructor|]. destruct Hw as [H1 H2]. constructor; auto. Qed.

  Lemma int_rt s bits z : int_in_range s bits z = true ->
    de (TyInt s bits) (ser_int s bits z) = SOk (DInt z).
  Proof.
    intros Hr. unfold ser_int. cbn [SerdeModel.de].
    destruct (s || negb (bits =? 64)) eqn:E.
    - unfold num_from_signed. destruct (0 <=? z)%Z eqn:Ez; cbn [de_int].
      + rewrite Z2N.id by lia. now rewrite Hr.
      + now rewrite Hr.
    - unfold num_from_unsigned. cbn [de_int].
      assert (s = false) by (destruct s; [discriminate|reflexivity]). subst s.
      unfold int_in_range in Hr. rewrite Z2N.id by lia. unfold int_in_range. now rewrite Hr.
  Qed.

  Theorem roundtrip : forall t, wf_ty t -> rt t.
  Proof.
    apply (ty_ind' (fun t => wf_ty t -> rt t) (fun var => wf_var var -> rt_var var));
      unfold rt; intros.
    - (* bool *) destruct d; try discriminate. inversion H0; reflexivity.
    - (* int *) destruct d; try discriminate. cbn [SerdeModel.ser] in H0.
      destruct (int_in_range s b z) eqn:Er; [|discriminate]. inversion H0; subst. now apply int_rt.
    - (* f32 *) destruct d; try discriminate. cbn [SerdeModel.ser] in H0.
      destruct (is_f32 f) eqn:Ef; [|discriminate]. inversion H0; subst. cbn. now rewrite cast_id.
    - destruct d; try discriminate. inversion H0; reflexivity.
    - destruct d; try discriminate. inversion H0; reflexivity.
    - destruct d; try discriminate. inversion H0; reflexivity.
    - destruct d; try discriminate. inversion H0; reflexivity.
    - destruct d; try discriminate. inversion H0; reflexivity.
    - (* option *)
      destruct d; try discriminate; cbn [SerdeModel.ser] in H1.
      + inversion H1; reflexivity.
      + destruct (SerdeModel.ser is_f32 t d) as [w|] eqn:E; [|discriminate]. inversion H1; subst.
        cbn [SerdeModel.de]. now rewrite (H H0 _ _ E).
    - (* seq *)
      destruct d; try discriminate. rewrite ser_seq_eq in H1.
      destruct (ser_seq t l) as [vs|] eqn:E; [|discriminate]. inversion H1; subst.
      rewrite de_seq_eq, seq_access_list. cbn [sbind]. now rewrite (rt_seq t l vs (H H0) E).
    - (* tuple *)
      destruct d; try discriminate. rewrite ser_tuple_eq in H1.
      destruct (ser_tuple ts l) as [vs|] eqn:E; [|discriminate]. inversion H1; subst.
      rewrite de_tuple_eq. cbn [tuple_access]. rewrite <- (ser_tuple_length _ _ _ E), firstn_all. cbn [sbind].
      now rewrite (rt_tuple ts l vs (forall_tys _ _ H H0) E).
    - (* map *)
      destruct d; try discriminate. rewrite ser_map_eq in H2.
      destruct (ser_map k v l) as [vs|] eqn:E; [|discriminate]. inversion H2; subst.
      destruct H1 as [Hk Hv].
      destruct (rt_map k v l vs (H Hk) (H0 Hv) E) as (es & He & Hd).
      rewrite de_map_eq, (map_access_list _ _ He). cbn [sbind]. now rewrite Hd.
    - (* struct *)
      destruct d; try discriminate. rewrite ser_struct_eq in H1.
      destruct (ser_fields fs l) as [vs|] eqn:E; [|discriminate]. inversion H1; subst.
      destruct H0 as [Hnd Hw].
      destruct (rt_fields fs l vs (forall_fields _ _ H Hw) Hnd E) as (es & He & Hs & Hd).
      rewrite de_struct_eq, (map_access_list _ _ He). cbn [sbind]. rewrite Hs. now rewrite Hd.
    - (* newtype *)
      destruct d; try discriminate. cbn [SerdeModel.ser] in H1. cbn [SerdeModel.de].
      now rewrite (H H0 _ _ H1).
    - (* enum *)
      destruct d; try discriminate. rewrite ser_enum_eq in H1.
      apply (rt_find vs name p v); [|exact H1].
      apply (forall_vars rt_var vs H H0).
    - (* VUnit *)
      unfold rt_var. intros name p v Hs. destruct p; try discriminate. inversion Hs; subst. left. repeat split.
    - (* VNewtype *)
      unfold rt_var. intros name p v Hs. destruct p; try discriminate. cbn [ser_variant] in Hs.
      destruct (SerdeModel.ser is_f32 t d) as [w|] eqn:E; [|discriminate]. inversion Hs; subst.
      right. split; [discriminate|]. exists w. split; [reflexivity|].
      cbn [de_variant]. now rewrite (H H0 _ _ E).
    - (* VTuple *)
      unfold rt_var. intros name p v Hs. destruct p; try discriminate. cbn [ser_variant] in Hs.
      destruct (ser_tuple ts l) as [vs|] eqn:E; [|discriminate]. inversion Hs; subst.
      right. split; [discriminate|]. exists (value_list vs). split; [reflexivity|].
      cbn [de_variant]. rewrite seq_access_list. cbn [sbind].
      now rewrite (rt_tuple ts l vs (forall_tys _ _ H H0) E).
    - (* VStruct *)
      unfold rt_var. intros name p v Hs. destruct p; try discriminate. cbn [ser_variant] in Hs.
      destruct (ser_fields fs l) as [vs|] eqn:E; [|discriminate]. inversion Hs; subst.
      destruct H0 as [Hnd Hw].
      destruct (rt_fields fs l vs (forall_fields _ _ H Hw) Hnd E) as (es & He & Hsym & Hd).
      right. split; [discriminate|]. exists (value_list vs). split; [reflexivity|].
      cbn [de_variant]. rewrite (map_access_list _ _ He). cbn [sbind]. rewrite Hsym. now rewrite Hd.
  Qed.


  (* ---- whatever [de] returns is a value of the type: [ser] accepts it ---- *)
  Hypothesis cast_is_f32 : forall f, is_f32 (cast_f32 f) = true.

  Definition typed (t : ty) : Prop := forall v d, de t v = SOk d -> exists v', ser t d = Some v'.

  Ltac sb H x E := match type of H with sbind ?m _ = _ => destruct m as [x|[]] eqn:E; cbn [sbind] in H; [|discriminate] end.

  Lemma typed_seq t vs ds : typed t -> de_seq t vs = SOk ds -> exists vs', ser_seq t ds = Some vs'.
  Proof.
    intros Ht. revert ds; induction vs as [|x vs IH]; intros ds H; cbn [de_seq] in H.
    - inversion H; subst. exists []. reflexivity.
    - sb H d E1. sb H r E2. inversion H; subst.
      destruct (Ht _ _ E1) as [v' Hv]. destruct (IH _ eq_refl) as [vs' Hvs].
      exists (v' :: vs'). cbn [ser_seq]. now rewrite Hv, Hvs.
  Qed.
  Lemma typed_tuple ts els ds : Forall typed ts -> de_tuple ts els = SOk ds -> exists vs', ser_tuple ts ds = Some vs'.
  Proof.
    intros Hts. revert els ds; induction Hts as [|t ts Ht Hts IH]; intros els ds H; cbn [de_tuple] in H.
    - inversion H; subst. exists []. reflexivity.
    - destruct els as [|x els]; [discriminate|]. sb H d E1. sb H r E2. inversion H; subst.
      destruct (Ht _ _ E1) as [v' Hv]. destruct (IH _ _ E2) as [vs' Hvs].
      exists (v' :: vs'). cbn [ser_tuple]. now rewrite Hv, Hvs.
  Qed.
  Lemma typed_map kt vt es ds : typed kt -> typed vt -> de_map kt vt es = SOk ds -> exists vs', ser_map kt vt ds = Some vs'.
  Proof.
    intros Hk Hv. revert ds; induction es as [|[k x] es IH]; intros ds H; cbn [de_map] in H.
    - inversion H; subst. exists []. reflexivity.
    - sb H dk E1. sb H dx E2. sb H r E3. inversion H; subst.
      destruct (Hk _ _ E1) as [kv Hkv]. destruct (Hv _ _ E2) as [xv Hxv]. destruct (IH _ eq_refl) as [vs' Hvs].
      exists (Cons kv xv :: vs'). cbn [ser_map]. now rewrite Hkv, Hxv, Hvs.
  Qed.
  Lemma typed_fields es fs ds : Forall (fun f => typed (snd f)) fs -> de_fields es fs = SOk ds ->
    exists vs', ser_fields fs ds = Some vs'.
  Proof.
    intros Hfs. revert ds; induction Hfs as [|[n t] fs Ht Hfs IH]; intros ds H; cbn [de_fields] in H.
    - inversion H; subst. exists []. reflexivity.
    - sb H d E1. sb H r E2. inversion H; subst.
      destruct (IH _ eq_refl) as [vs' Hvs].
      assert (Hd : exists v', ser t d = Some v').
      { destruct (entries_for n es) as [|x [|y rest]]; try discriminate.
        - destruct t; try discriminate. inversion E1; subst. exists Null. reflexivity.
        - exact (Ht _ _ E1). }
      destruct Hd as [v' Hv]. exists (Cons (Symbol n) v' :: vs'). cbn [ser_fields]. now rewrite Hv, Hvs.
  Qed.

  Definition typed_var (var : variant) : Prop :=
    forall name rest d, de_variant name rest var = SOk d ->
      exists p, d = DEnum name p /\ exists v', ser_variant name var p = Some v'.

  Lemma typed_unit_find vs s d : de_unit_find s vs = SOk d ->
    d = DEnum s PUnit /\ ser_find s PUnit vs = Some (Symbol s).
  Proof.
    induction vs as [|[n var] vs IH]; intros H; cbn [de_unit_find] in H; [discriminate|].
    cbn [ser_find]. destruct (beq_bytes n s) eqn:E.
    - destruct var; try discriminate. inversion H; subst. split; reflexivity.
    - apply IH; exact H.
  Qed.
  Lemma typed_cons_find vs s rest d : Forall (fun x => typed_var (snd x)) vs ->
    de_cons_find s rest vs = SOk d -> exists p v', d = DEnum s p /\ ser_find s p vs = Some v'.
  Proof.
    induction 1 as [|[n var] vs Hv Hvs IH]; intros H; cbn [de_cons_find] in H; [discriminate|].
    cbn [ser_find]. destruct (beq_bytes n s) eqn:E.
    - cbn [snd] in Hv. destruct (Hv _ _ _ H) as (p & -> & v' & Hs). exists p, v'. split; [reflexivity|exact Hs].
    - apply IH; exact H.
  Qed.

  Lemma typed_find vs v d : Forall (fun x => typed_var (snd x)) vs ->
    de (TyEnum vs) v = SOk d -> exists v', ser (TyEnum vs) d = Some v'.
  Proof.
    intros Hvs H.
    destruct v; try discriminate.
    - rewrite de_enum_symbol in H. destruct (typed_unit_find _ _ _ H) as [-> Hs].
      exists (Symbol s). now rewrite ser_enum_eq.
    - destruct v1; try discriminate. rewrite de_enum_cons in H.
      destruct (typed_cons_find _ _ _ _ Hvs H) as (p & v' & -> & Hs).
      exists v'. now rewrite ser_enum_eq.
  Qed.

  Theorem de_typed : forall t, typed t.
  Proof.
    apply (ty_ind' typed typed_var); unfold typed; intros.
    - destruct v; try discriminate. inversion H; subst. eexists; reflexivity.
    - (* int *) destruct v; try discriminate. cbn [SerdeModel.de] in H.
      destruct n as [u|i|f]; cbn [de_int] in H; try discriminate.
      + destruct (int_in_range s b (Z.of_N u)) eqn:E; [|discriminate]. inversion H; subst.
        cbn [SerdeModel.ser]. rewrite E. eexists; reflexivity.
      + destruct (int_in_range s b i) eqn:E; [|discriminate]. inversion H; subst.
        cbn [SerdeModel.ser]. rewrite E. eexists; reflexivity.
    - destruct v; try discriminate. inversion H; subst. cbn [SerdeModel.ser]. rewrite cast_is_f32. eexists; reflexivity.
    - destruct v; try discriminate. inversion H; subst. eexists; reflexivity.
    - destruct v; try discriminate. inversion H; subst. eexists; reflexivity.
    - destruct v; try discriminate. inversion H; subst. eexists; reflexivity.
    - destruct v; try discriminate. inversion H; subst. eexists; reflexivity.
    - destruct v; try discriminate; inversion H; subst; eexists; reflexivity.
    - (* option *)
      destruct v; try discriminate; cbn [SerdeModel.de] in H0.
      + inversion H0; subst. eexists; reflexivity.
      + destruct v2; try discriminate. sb H0 x E. inversion H0; subst.
        destruct (H _ _ E) as [w Hw]. cbn [SerdeModel.ser]. rewrite Hw. eexists; reflexivity.
    - (* seq *)
      rewrite de_seq_eq in H0. sb H0 els E1. sb H0 ds E2. inversion H0; subst.
      destruct (typed_seq _ _ _ H E2) as [vs' Hvs]. rewrite ser_seq_eq, Hvs. eexists; reflexivity.
    - (* tuple *)
      rewrite de_tuple_eq in H0. sb H0 els E1. sb H0 ds E2. inversion H0; subst.
      destruct (typed_tuple _ _ _ H E2) as [vs' Hvs]. rewrite ser_tuple_eq, Hvs. eexists; reflexivity.
    - (* map *)
      rewrite de_map_eq in H1. sb H1 es E1. sb H1 ds E2. inversion H1; subst.
      destruct (typed_map _ _ _ _ H H0 E2) as [vs' Hvs]. rewrite ser_map_eq, Hvs. eexists; reflexivity.
    - (* struct *)
      rewrite de_struct_eq in H0. sb H0 es E1. destruct (forallb key_is_symbol es); [|discriminate].
      sb H0 ds E2. inversion H0; subst.
      destruct (typed_fields _ _ _ H E2) as [vs' Hvs]. rewrite ser_struct_eq, Hvs. eexists; reflexivity.
    - (* newtype *)
      cbn [SerdeModel.de] in H0. sb H0 x E. inversion H0; subst.
      destruct (H _ _ E) as [w Hw]. cbn [SerdeModel.ser]. rewrite Hw. eexists; reflexivity.
    - (* enum *) eapply typed_find; eauto.
    - (* VUnit *)
      unfold typed_var. intros name rest d Hd. cbn [de_variant] in Hd. inversion Hd; subst.
      exists PUnit. split; [reflexivity|]. eexists; reflexivity.
    - unfold typed_var. intros name rest d Hd. cbn [de_variant] in Hd. sb Hd x E. inversion Hd; subst.
      destruct (H _ _ E) as [w Hw]. exists (PNewtype x). split; [reflexivity|]. cbn [ser_variant]. rewrite Hw. eexists; reflexivity.
    - unfold typed_var. intros name rest d Hd. cbn [de_variant] in Hd. sb Hd els E1. sb Hd ds E2. inversion Hd; subst.
      destruct (typed_tuple _ _ _ H E2) as [vs' Hvs]. exists (PTuple ds). split; [reflexivity|].
      cbn [ser_variant]. rewrite Hvs. eexists; reflexivity.
    - unfold typed_var. intros name rest d Hd. cbn [de_variant] in Hd. sb Hd es E1.
      destruct (forallb key_is_symbol es); [|discriminate]. sb Hd ds E2. inversion Hd; subst.
      destruct (typed_fields _ _ _ H E2) as [vs' Hvs]. exists (PStruct ds). split; [reflexivity|].
      cbn [ser_variant]. rewrite Hvs. eexists; reflexivity.
  Qed.

  (* C18: accepted alternative encodings are normalised, not misread *)
  Theorem normalise t v d : wf_ty t -> de t v = SOk d ->
    exists v', ser t d = Some v' /\ de t v' = SOk d.
  Proof.
    intros Hw H. destruct (de_typed t v d H) as [v' Hv']. exists v'. split; [exact Hv'|].
    exact (roundtrip t Hw d v' Hv').
  Qed.


  (* ---- C14: the documented shapes ---- *)
  Lemma int_value_ser s bits z : int_in_range s bits z = true -> (bits <= 64)%N ->
    int_value (ser_int s bits z) = Some z.
  Proof.
    intros Hr Hb. unfold ser_int. destruct (s || negb (bits =? 64)) eqn:E.
    - cbn [int_value]. unfold num_from_signed. destruct (0 <=? z)%Z eqn:Ez; cbn; [f_equal; lia|reflexivity].
    - assert (s = false) by (destruct s; [discriminate|reflexivity]). subst.
      unfold int_in_range in Hr. cbn. f_equal. lia.
  Qed.

  Lemma is_list_value_list vs : is_list (value_list vs) = true.
  Proof. unfold value_list. rewrite ListProofs.is_list_build; reflexivity. Qed.

  Lemma shapes :
    ser TyUnit DUnit = Some Null /\
    (forall t, ser (TyOption t) DNone = Some Null) /\
    (forall t x, ser (TyOption t) (DSome x) = option_map (fun v => vlist [v]) (ser t x)) /\
    (forall t l, ser (TySeq t) (DSeq l) = option_map value_list (ser_seq t l)) /\
    (forall ts l, ser (TyTuple ts) (DTuple l) = option_map Vector (ser_tuple ts l)) /\
    (forall kt vt l, ser (TyMap kt vt) (DMap l) = option_map value_list (ser_map kt vt l)) /\
    (forall fs l, ser (TyStruct fs) (DStruct l) = option_map value_list (ser_fields fs l)) /\
    (forall t x, ser (TyNewtype t) (DNewtype x) = ser t x) /\
    (forall b, ser TyByteBuf (DBytes b) = Some (Bytes b)) /\
    (forall c, ser TyChar (DChar c) = Some (Char c)) /\
    (forall s, ser TyString (DString s) = Some (String s)) /\
    (forall b, ser TyBool (DBool b) = Some (Bool b)).
  Proof.
    repeat split; intros; try reflexivity;
      rewrite ?ser_seq_eq, ?ser_tuple_eq, ?ser_map_eq, ?ser_struct_eq; cbn [SerdeModel.ser];
      match goal with |- context [match ?x with _ => _ end] => destruct x end; reflexivity.
  Qed.

  (* entries of maps and structs are (key . value) cells, struct keys are symbols *)
  Lemma map_entries_shape kt vt l vs : ser_map kt vt l = Some vs ->
    Forall2 (fun e kv => exists k v, ser kt (fst kv) = Some k /\ ser vt (snd kv) = Some v /\ e = Cons k v) vs l.
  Proof.
    revert vs; induction l as [|[k x] l IH]; intros vs H; cbn [ser_map] in H.
    - inversion H; constructor.
    - destruct (ser kt k) as [kv|] eqn:Ek; [|discriminate]. destruct (ser vt x) as [xv|] eqn:Ex; [|discriminate].
      destruct (ser_map kt vt l) as [vs'|] eqn:El; [|discriminate]. inversion H; subst.
      constructor; [exists kv, xv; auto|apply IH; reflexivity].
  Qed.
  Lemma struct_entries_shape fs l vs : ser_fields fs l = Some vs ->
    Forall2 (fun e f => exists v, e = Cons (Symbol (fst f)) v) vs fs.
  Proof.
    revert l vs; induction fs as [|[n t] fs IH]; intros [|x l] vs H; cbn [ser_fields] in H; try discriminate.
    - inversion H; constructor.
    - destruct (ser t x) as [v|]; [|discriminate]. destruct (ser_fields fs l) as [vs'|] eqn:El; [|discriminate].
      inversion H; subst. constructor; [exists v; reflexivity|eapply IH; eauto].
  Qed.

  Lemma variant_shapes name :
    ser_variant name VUnit PUnit = Some (Symbol name) /\
    (forall t x, ser_variant name (VNewtype t) (PNewtype x) = option_map (fun v => Cons (Symbol name) v) (ser t x)) /\
    (forall ts l, ser_variant name (VTuple ts) (PTuple l) =
                  option_map (fun vs => vlist (Symbol name :: vs)) (ser_tuple ts l)) /\
    (forall fs l, ser_variant name (VStruct fs) (PStruct l) =
                  option_map (fun vs => vlist (Symbol name :: vs)) (ser_fields fs l)).
  Proof.
    repeat split; intros; cbn [ser_variant]; try reflexivity;
      match goal with |- context [match ?x with _ => _ end] => destruct x end; reflexivity.
  Qed.

  (* deserialization accepts a vector for a sequence and a proper list for a
     tuple, and rejects improper lists and other kinds there *)
  Lemma accept_alternatives :
    (forall t vs, de (TySeq t) (Vector vs) = de (TySeq t) (value_list vs)) /\
    (forall ts vs, length vs = length ts -> vs <> [] -> de (TyTuple ts) (value_list vs) = de (TyTuple ts) (Vector vs)).
  Proof.
    split; intros.
    - rewrite !de_seq_eq, seq_access_list. reflexivity.
    - rewrite !de_tuple_eq. destruct vs as [|v vs]; [congruence|].
      unfold value_list. cbn [build tuple_access]. rewrite list_elems_build. cbn [sbind]. rewrite <- H.
      change (S (length vs)) with (length (v :: vs)). now rewrite firstn_all.
  Qed.

  Definition improper_or_wrong (v : value) : Prop :=
    match v with
    | Null | Vector _ => False
    | Cons a d => exists e, list_elems a d = SErr e
    | _ => True
    end.
  Lemma reject_seq t v : improper_or_wrong v -> de (TySeq t) v = SErr SData.
  Proof.
    intros H. rewrite de_seq_eq. destruct v; cbn [seq_access improper_or_wrong] in *; try contradiction; try reflexivity.
    destruct H as [[] ->]. reflexivity.
  Qed.
  Lemma list_elems_improper a xs t : is_cons t = false -> is_null t = false -> list_elems a (build xs t) = SErr SData.
  Proof.
    revert a; induction xs as [|x xs IH]; intros a Hc Hn; cbn [build list_elems].
    - destruct t; try discriminate; reflexivity.
    - now rewrite IH.
  Qed.

  (* a tuple rejects every improper list, whatever its length *)
  Lemma reject_tuple ts v : improper_or_wrong v -> de (TyTuple ts) v = SErr SData.
  Proof.
    intros H. rewrite de_tuple_eq. destruct v; cbn [tuple_access improper_or_wrong] in *; try contradiction; try reflexivity.
    destruct H as [[] ->]. reflexivity.
  Qed.

End Roundtrip.
