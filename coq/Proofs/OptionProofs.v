(* C08: each parser option governs exactly the tokens it names. Statements
   hold for every option set (no fixed dialect). *)
From Coq Require Import SpecFloat ZifyBool ZifyNat ZifyN.
Require Import Base Value Float PrintOptions ParseOptions Utf8 Reader Scan Num NumberOps Parser.
Require Import ReaderProofs ScanProofs TokenProofs DepthProofs RoundtripProofs.

Section Options.
  Variable alpha : N -> bool.
  Variable fast : bool.
  Variable std_parse : N -> Z -> f64.
  Local Notation parse_token ro := (parse_token ro alpha fast std_parse).
  Local Notation next_value ro := (next_value ro alpha fast std_parse).

  (* ---- what a scanned symbol name becomes ---- *)
  Lemma symbol_token_nil ro :
    symbol_token ro (s2b "nil") =
    match ro_nil ro with NsDefault => TSymbol (s2b "nil") | NsEmptyList => TNull | NsSpecial => TNil end.
  Proof.
    unfold symbol_token. change (ends_with_colon (s2b "nil")) with false. rewrite Bool.andb_false_r.
    destruct (ro_nil ro); reflexivity || (destruct (ro_t ro); reflexivity).
  Qed.

  Lemma symbol_token_t ro :
    symbol_token ro (s2b "t") =
    match ro_t ro with TsTrue => TBool true | TsDefault => TSymbol (s2b "t") end.
  Proof.
    unfold symbol_token. change (ends_with_colon (s2b "t")) with false. rewrite Bool.andb_false_r.
    change (beq_bytes (s2b "t") (s2b "nil")) with false. rewrite Bool.andb_false_r.
    destruct (ro_t ro); reflexivity.
  Qed.

  Lemma symbol_token_postfix ro name : ro_kw_postfix ro = true -> (1 < length name)%nat -> ends_with_colon name = true ->
    symbol_token ro name = TKeyword (removelast name).
  Proof. intros H1 H2 H3. unfold symbol_token. rewrite H1, H3. replace (1 <? length name)%nat with true by lia. reflexivity. Qed.

  Lemma symbol_token_plain ro name :
    ro_kw_postfix ro = false \/ ends_with_colon name = false \/ (length name <= 1)%nat ->
    beq_bytes name (s2b "nil") = false -> beq_bytes name (s2b "t") = false ->
    symbol_token ro name = TSymbol name.
  Proof.
    intros H Hn Ht. unfold symbol_token. rewrite Hn, Ht, !Bool.andb_false_r.
    replace (ro_kw_postfix ro && (1 <? length name)%nat && ends_with_colon name) with false; [reflexivity|].
    destruct H as [->|[->|H]]; [reflexivity|apply eq_sym, Bool.andb_false_r|].
    replace (1 <? length name)%nat with false by lia. now rewrite Bool.andb_false_r.
  Qed.

  (* the only options symbol_token looks at *)
  Lemma symbol_token_frame ro1 ro2 name :
    ro_kw_postfix ro1 = ro_kw_postfix ro2 -> ro_nil ro1 = ro_nil ro2 -> ro_t ro1 = ro_t ro2 ->
    symbol_token ro1 name = symbol_token ro2 name.
  Proof. intros H1 H2 H3. unfold symbol_token. rewrite H1, H2, H3. reflexivity. Qed.

  (* ---- dispatch on the first byte of a token ---- *)
  Lemma token_colon_any ro fuel :
    parse_token ro fuel 58 =
    if ro_kw_prefix ro then eat_char ;;; s <- parse_symbol fuel ;; ret (TKeyword s)
    else s <- parse_symbol fuel ;; ret (TSymbol s).
  Proof. reflexivity. Qed.

  Lemma token_bracket_any ro fuel :
    parse_token ro fuel 91 =
    (eat_char ;;; match ro_brackets ro with BrVector => ret (TVecOpen 93) | BrList => ret (TListOpen 93) end).
  Proof. reflexivity. Qed.

  Lemma token_paren_any ro fuel : parse_token ro fuel 40 = (eat_char ;;; ret (TListOpen 41)).
  Proof. reflexivity. Qed.

  Lemma token_question_any ro fuel :
    parse_token ro fuel 63 =
    match ro_char ro with
    | ChrElisp => eat_char ;;; c <- parse_elisp_char fuel ;; ret (TChar c)
    | ChrR6RS => name <- parse_symbol fuel ;; ret (symbol_token ro name)
    end.
  Proof. unfold Parser.parse_token. destruct (ro_char ro); reflexivity. Qed.

  Lemma token_digit_any ro fuel b : is_digit b = true ->
    parse_token ro fuel b =
    if ro_digit ro then
      symbol <- parse_symbol fuel ;;
      match number_of_symbol fast std_parse fuel symbol with
      | Some n => ret (TNumber n)
      | None => ret (symbol_token ro symbol)
      end
    else n <- parse_num_token fast std_parse fuel 10 true ;; ret (TNumber n).
  Proof.
    intros H. unfold Parser.parse_token. pose proof H as H'. unfold is_digit, in_range in H'.
    replace (b =? 35) with false by lia. replace ((b =? 45) || (b =? 43)) with false by lia.
    rewrite H. reflexivity.
  Qed.

  Lemma token_string_any ro fuel :
    parse_token ro fuel 34 =
    (eat_char ;;;
     match ro_string ro with
     | StrR6RS => s <- parse_r6rs_str_rd fuel ;; ret (TString s)
     | StrElisp => e <- parse_elisp_str_rd fuel ;;
                   match e with ElMultibyte s => ret (TString s) | ElUnibyte b => ret (TBytes b) end
     end).
  Proof. reflexivity. Qed.

  (* the quote shorthands do not depend on any option *)
  Lemma token_quote_any ro fuel : parse_token ro fuel 39 = (eat_char ;;; ret (TQuotation (s2b "quote"))).
  Proof. reflexivity. Qed.
  Lemma token_quasiquote_any ro fuel : parse_token ro fuel 96 = (eat_char ;;; ret (TQuotation (s2b "quasiquote"))).
  Proof. reflexivity. Qed.
  Lemma token_unquote_any ro fuel :
    parse_token ro fuel 44 =
    (eat_char ;;; nx <- peek_or_null ;;
     if nx =? 64 then eat_char ;;; ret (TQuotation (s2b "unquote-splicing")) else ret (TQuotation (s2b "unquote"))).
  Proof. reflexivity. Qed.

  (* ---- '#' tokens governed by options ---- *)
  Lemma hash_keyword ro fuel r name rest : (length name < fuel)%nat ->
    no_terminator name -> at_terminator rest -> symbol_ok name ->
    at_bytes r (s2b "#:" ++ name ++ rest) -> peeked r ->
    if ro_kw_octo ro then
      exists r', parse_token ro fuel 35 r = (Ok (TKeyword name), r') /\ at_bytes r' rest
    else exists l cl r', parse_token ro fuel 35 r = (Err (ESyntax ExpectedSomeIdent l cl), r').
  Proof.
    intros Hf Hn Ht Hok Ha Hp.
    change (s2b "#:" ++ name ++ rest) with (35 :: 58 :: name ++ rest) in Ha.
    unfold Parser.parse_token. change (35 =? 35) with true. cbv iota.
    step. step. cbv beta iota.
    change (58 =? 116) with false. change (58 =? 102) with false. change (58 =? 110) with false.
    change (58 =? 40) with false. change (58 =? 58) with true. cbv iota.
    destruct (ro_kw_octo ro); cbn [andb].
    - unfold parse_symbol.
      destruct (parse_symbol_spec name fuel [] rest r1 Hf Hn Ht Ha1 Hok) as (r2 & E & Ha2 & Hk2 & _).
      rewrite (bind_ok _ _ _ _ _ E). exists r2. unfold ret. cbn [app]. auto.
    - change (58 =? 118) with false. change (58 =? 117) with false. change (58 =? 98) with false.
      change (58 =? 111) with false. change (58 =? 100) with false. change (58 =? 120) with false.
      change (58 =? 92) with false. change (58 =? 37) with false. cbn [andb]. cbv iota.
      unfold peek_error. destruct (r_peek_position r1) as [l cl]. exists l, cl, r1. reflexivity.
  Qed.

  Lemma hash_racket ro fuel r name rest : (length name < fuel)%nat ->
    no_terminator name -> at_terminator rest -> symbol_ok (s2b "#%" ++ name) ->
    at_bytes r (s2b "#%" ++ name ++ rest) -> peeked r ->
    if ro_racket ro then
      exists r', parse_token ro fuel 35 r = (Ok (TSymbol (s2b "#%" ++ name)), r') /\ at_bytes r' rest
    else exists l cl r', parse_token ro fuel 35 r = (Err (ESyntax ExpectedSomeIdent l cl), r').
  Proof.
    intros Hf Hn Ht Hok Ha Hp.
    change (s2b "#%" ++ name ++ rest) with (35 :: 37 :: name ++ rest) in Ha.
    unfold Parser.parse_token. change (35 =? 35) with true. cbv iota.
    step. step. cbv beta iota.
    change (37 =? 116) with false. change (37 =? 102) with false. change (37 =? 110) with false.
    change (37 =? 40) with false. change (37 =? 58) with false.
    change (37 =? 118) with false. change (37 =? 117) with false. change (37 =? 98) with false.
    change (37 =? 111) with false. change (37 =? 100) with false. change (37 =? 120) with false.
    change (37 =? 92) with false. change (37 =? 37) with true. cbn [andb]. cbv iota.
    destruct (ro_racket ro).
    - unfold parse_symbol_suffix.
      destruct (parse_symbol_spec name fuel (s2b "#%") rest r1 Hf Hn Ht Ha1 Hok) as (r2 & E & Ha2 & Hk2 & _).
      rewrite (bind_ok _ _ _ _ _ E). exists r2. unfold ret. auto.
    - unfold peek_error. destruct (r_peek_position r1) as [l cl]. exists l, cl, r1. reflexivity.
  Qed.

  (* ---- frame: a token's reading depends only on the options that govern
     its first byte ---- *)
  Definition symbolish (b : N) : bool :=
    (b =? 45) || (b =? 43) || is_digit b || is_ascii_alpha b || (b =? 63) || (127 <? b) || memb b SYMBOL_EXTENDED.

  Theorem parse_token_frame ro1 ro2 fuel b r :
    (b = 35 -> ro_kw_octo ro1 = ro_kw_octo ro2 /\ ro_racket ro1 = ro_racket ro2) ->
    (is_digit b = true -> ro_digit ro1 = ro_digit ro2) ->
    (b = 34 -> ro_string ro1 = ro_string ro2) ->
    (b = 91 -> ro_brackets ro1 = ro_brackets ro2) ->
    (b = 58 -> ro_kw_prefix ro1 = ro_kw_prefix ro2) ->
    (b = 63 -> ro_char ro1 = ro_char ro2) ->
    (symbolish b = true -> ro_kw_postfix ro1 = ro_kw_postfix ro2 /\ ro_nil ro1 = ro_nil ro2 /\ ro_t ro1 = ro_t ro2) ->
    parse_token ro1 fuel b r = parse_token ro2 fuel b r.
  Proof.
    intros H35 Hdig H34 H91 H58 H63 Hsym.
    assert (Hst : symbolish b = true -> forall name, symbol_token ro1 name = symbol_token ro2 name).
    { intros Hs name. destruct (Hsym Hs) as (A & B & C). apply symbol_token_frame; assumption. }
    unfold Parser.parse_token.
    destruct (b =? 35) eqn:E35.
    { assert (b = 35) by lia. destruct (H35 H) as [-> ->]. reflexivity. }
    destruct ((b =? 45) || (b =? 43)) eqn:Esign.
    { assert (Hs : symbolish b = true) by (unfold symbolish; rewrite Esign; reflexivity).
      unfold bind. destruct (eat_char r) as [[u|e] r1]; [|reflexivity].
      destruct (peek_or_null r1) as [[nx|e] r2]; [|reflexivity].
      destruct ((nx =? 0) || is_delimiter nx || is_sign_subsequent nx || (nx =? 46) || (127 <? nx)); [|reflexivity].
      destruct (parse_symbol_suffix fuel [b] r2) as [[name|e] r3]; [|reflexivity].
      unfold ret. now rewrite (Hst Hs name). }
    destruct (is_digit b) eqn:Ed.
    { assert (Hs : symbolish b = true) by (unfold symbolish; rewrite Ed, !Bool.orb_true_r; reflexivity).
      rewrite (Hdig eq_refl). destruct (ro_digit ro2); [|reflexivity].
      unfold bind. destruct (parse_symbol fuel r) as [[symbol|e] r1]; [|reflexivity].
      destruct (number_of_symbol fast std_parse fuel symbol); [reflexivity|]. unfold ret. now rewrite (Hst Hs symbol). }
    destruct (b =? 34) eqn:E34.
    { assert (b = 34) by lia. rewrite (H34 H). reflexivity. }
    destruct (b =? 40) eqn:E40; [reflexivity|].
    destruct (b =? 91) eqn:E91.
    { assert (b = 91) by lia. rewrite (H91 H). reflexivity. }
    destruct (b =? 58) eqn:E58.
    { assert (b = 58) by lia. rewrite (H58 H). reflexivity. }
    destruct (is_ascii_alpha b) eqn:Ea.
    { assert (Hs : symbolish b = true) by (unfold symbolish; rewrite Ea, !Bool.orb_true_r; reflexivity).
      unfold bind. destruct (parse_symbol fuel r) as [[name|e] r1]; [|reflexivity]. unfold ret. now rewrite (Hst Hs name). }
    destruct (b =? 63) eqn:E63.
    { assert (b = 63) by lia. rewrite (H63 H).
      assert (Hs : symbolish b = true) by (subst b; reflexivity).
      destruct (ro_char ro2); cbn [andb].
      - change (63 =? 39) with false. subst b. cbn.
        unfold bind. destruct (parse_symbol fuel r) as [[name|e] r1]; [|reflexivity]. unfold ret. now rewrite (Hst Hs name).
      - reflexivity. }
    cbn [andb].
    destruct (b =? 39); [reflexivity|]. destruct (b =? 96); [reflexivity|]. destruct (b =? 44); [reflexivity|].
    destruct (127 <? b) eqn:Ehi.
    { assert (Hs : symbolish b = true) by (unfold symbolish; rewrite Ehi, !Bool.orb_true_r; reflexivity).
      unfold bind. destruct (eat_char r) as [[u|e] r1]; [|reflexivity].
      destruct (decode_utf8_sequence_b b r1) as [[p|e] r2]; [|reflexivity].
      destruct (negb (alpha (snd p))); [reflexivity|].
      destruct (parse_symbol_suffix fuel (fst p) r2) as [[name|e] r3]; [|reflexivity]. unfold ret. now rewrite (Hst Hs name). }
    destruct (memb b SYMBOL_EXTENDED) eqn:Eext; [|reflexivity].
    assert (Hs : symbolish b = true) by (unfold symbolish; rewrite Eext, !Bool.orb_true_r; reflexivity).
    unfold bind. destruct (parse_symbol fuel r) as [[name|e] r1]; [|reflexivity]. unfold ret. now rewrite (Hst Hs name).
  Qed.

  (* ---- quote shorthands expand to two-element lists, under every option set ---- *)
  Definition quotation_cont ro (f : nat) (name : bytes) : PM (option value) :=
    pbind enter_nesting (fun _ =>
    pbind (attempt (next_value ro f)) (fun r =>
    pbind inc_depth (fun _ =>
    pbind (lift r) (fun o =>
    match o with
    | Some d => pret (Some (vlist [Symbol name; d]))
    | None => liftR (peek_error EofWhileParsingList)
    end)))).

  Lemma next_value_quotation ro f b r D r0 r1 name :
    parse_whitespace f r = (Ok (Some b), r0) ->
    parse_token ro f b r0 = (Ok (TQuotation name), r1) ->
    next_value ro (S f) (mkp r D) = quotation_cont ro f name (mkp r1 D).
  Proof.
    intros E0 E1. cbn [Parser.next_value].
    rewrite (pbind_eq _ _ _ _ _ (liftR_ok _ r D _ _ E0)).
    rewrite (pbind_eq _ _ _ _ _ (liftR_ok _ r0 D _ _ E1)). reflexivity.
  Qed.

  Lemma quotation_expands ro f name r1 D d r' : 1 < D <= 128 ->
    next_value ro f (mkp r1 (D - 1)) = (POk (Some d), mkp r' (D - 1)) ->
    quotation_cont ro f name (mkp r1 D) = (POk (Some (vlist [Symbol name; d])), mkp r' D).
  Proof.
    intros HD E. unfold quotation_cont.
    rewrite (pbind_eq _ _ _ _ _ (enter_ok r1 D HD)).
    rewrite (pbind_eq _ _ _ _ _ (attempt_ok _ _ _ _ E)).
    rewrite (pbind_eq _ _ _ _ _ (inc_ok r' (D - 1) ltac:(lia))).
    replace (D - 1 + 1) with D by lia. reflexivity.
  Qed.

  (* 'x  `x  ,x  ,@x *)
  Definition shorthand (text name : bytes) : Prop :=
    (text = [39] /\ name = s2b "quote") \/ (text = [96] /\ name = s2b "quasiquote") \/
    (text = [44; 64] /\ name = s2b "unquote-splicing").

  Theorem quote_shorthand_reads ro f r D text name rest : shorthand text name -> (2 <= f)%nat -> 1 < D <= 128 ->
    at_bytes r (text ++ rest) ->
    exists r1, at_bytes r1 rest /\ rk r1 = rk r /\
      forall d r', next_value ro f (mkp r1 (D - 1)) = (POk (Some d), mkp r' (D - 1)) ->
                   next_value ro (S f) (mkp r D) = (POk (Some (vlist [Symbol name; d])), mkp r' D).
  Proof.
    intros Hsh Hf HD Ha.
    destruct Hsh as [[-> ->]|[[-> ->]|[-> ->]]]; cbn [app] in Ha.
    - destruct (ws_here f r 39 rest ltac:(lia) Ha ltac:(split; [reflexivity|discriminate])) as (r0 & E0 & Ha0 & Hp0 & Hk0).
      destruct (m_eat r0 39 rest Ha0 Hp0) as (r1 & E1 & Ha1 & Hk1).
      exists r1. split; [assumption|]. split; [congruence|]. intros d r' E.
      assert (Et : parse_token ro f 39 r0 = (Ok (TQuotation (s2b "quote")), r1))
        by (rewrite token_quote_any, (bind_ok _ _ _ _ _ E1); reflexivity).
      rewrite (next_value_quotation ro f 39 r D r0 r1 _ E0 Et). apply quotation_expands; assumption.
    - destruct (ws_here f r 96 rest ltac:(lia) Ha ltac:(split; [reflexivity|discriminate])) as (r0 & E0 & Ha0 & Hp0 & Hk0).
      destruct (m_eat r0 96 rest Ha0 Hp0) as (r1 & E1 & Ha1 & Hk1).
      exists r1. split; [assumption|]. split; [congruence|]. intros d r' E.
      assert (Et : parse_token ro f 96 r0 = (Ok (TQuotation (s2b "quasiquote")), r1))
        by (rewrite token_quasiquote_any, (bind_ok _ _ _ _ _ E1); reflexivity).
      rewrite (next_value_quotation ro f 96 r D r0 r1 _ E0 Et). apply quotation_expands; assumption.
    - destruct (ws_here f r 44 (64 :: rest) ltac:(lia) Ha ltac:(split; [reflexivity|discriminate])) as (r0 & E0 & Ha0 & Hp0 & Hk0).
      destruct (m_eat r0 44 _ Ha0 Hp0) as (r1 & E1 & Ha1 & Hk1).
      destruct (m_peek_or_null_cons r1 64 rest Ha1) as (r2 & E2 & Ha2 & Hp2 & Hk2).
      destruct (m_eat r2 64 rest Ha2 Hp2) as (r3 & E3 & Ha3 & Hk3).
      exists r3. split; [assumption|]. split; [congruence|]. intros d r' E.
      assert (Et : parse_token ro f 44 r0 = (Ok (TQuotation (s2b "unquote-splicing")), r3)).
      { rewrite token_unquote_any, (bind_ok _ _ _ _ _ E1), (bind_ok _ _ _ _ _ E2). change (64 =? 64) with true. cbv iota.
        rewrite (bind_ok _ _ _ _ _ E3). reflexivity. }
      rewrite (next_value_quotation ro f 44 r D r0 r3 _ E0 Et). apply quotation_expands; assumption.
  Qed.

  (* ,x with x not starting with @ *)
  Theorem unquote_reads ro f r D c rest : c <> 64 -> (2 <= f)%nat -> 1 < D <= 128 ->
    at_bytes r (44 :: c :: rest) ->
    exists r1, at_bytes r1 (c :: rest) /\ rk r1 = rk r /\
      forall d r', next_value ro f (mkp r1 (D - 1)) = (POk (Some d), mkp r' (D - 1)) ->
                   next_value ro (S f) (mkp r D) = (POk (Some (vlist [Symbol (s2b "unquote"); d])), mkp r' D).
  Proof.
    intros Hc Hf HD Ha.
    destruct (ws_here f r 44 (c :: rest) ltac:(lia) Ha ltac:(split; [reflexivity|discriminate])) as (r0 & E0 & Ha0 & Hp0 & Hk0).
    destruct (m_eat r0 44 _ Ha0 Hp0) as (r1 & E1 & Ha1 & Hk1).
    destruct (m_peek_or_null_cons r1 c rest Ha1) as (r2 & E2 & Ha2 & Hp2 & Hk2).
    exists r2. split; [assumption|]. split; [congruence|]. intros d r' E.
    assert (Et : parse_token ro f 44 r0 = (Ok (TQuotation (s2b "unquote")), r2)).
    { rewrite token_unquote_any, (bind_ok _ _ _ _ _ E1), (bind_ok _ _ _ _ _ E2).
      replace (c =? 64) with false by lia. reflexivity. }
    rewrite (next_value_quotation ro f 44 r D r0 r2 _ E0 Et). apply quotation_expands; assumption.
  Qed.

End Options.
