(* C06: io::ErrorKind::Interrupted results interleaved anywhere in a stream are
   invisible: the parser returns the same values, the same errors at the same
   positions, and ends in the same state as on the stream without them. An
   instance of the two-run traversal (SimFramework). *)
From Coq Require Import SpecFloat ZifyBool ZifyNat ZifyN.
Require Import Base Value Float PrintOptions ParseOptions Utf8 Reader Scan Num NumberOps Parser.
Require Import RelFramework SimFramework.

(* the stream without its Interrupted results *)
Fixpoint strip (l : list event) : list event :=
  match l with
  | [] => []
  | EInterrupted :: l' => strip l'
  | e :: l' => e :: strip l'
  end.

Lemma strip_skip l : strip (skip_intr l) = strip l.
Proof. induction l as [|[b| |e] l IH]; cbn [skip_intr strip]; auto. Qed.
Lemma skip_intr_head l : match skip_intr l with EInterrupted :: _ => False | _ => True end.
Proof. induction l as [|[b| |e] l IH]; cbn [skip_intr]; auto. Qed.

(* after skipping, two strip-equal streams are both exhausted or start with the same event *)
Lemma skip_intr_strip l1 l2 : strip l1 = strip l2 ->
  (skip_intr l1 = [] /\ skip_intr l2 = []) \/
  exists e t1 t2, skip_intr l1 = e :: t1 /\ skip_intr l2 = e :: t2 /\ e <> EInterrupted /\ strip t1 = strip t2.
Proof.
  intros H. rewrite <- (strip_skip l1), <- (strip_skip l2) in H.
  pose proof (skip_intr_head l1) as H1. pose proof (skip_intr_head l2) as H2.
  destruct (skip_intr l1) as [|e1 t1]; destruct (skip_intr l2) as [|e2 t2].
  - left. auto.
  - destruct e2; cbn [strip] in H; try discriminate; contradiction.
  - destruct e1; cbn [strip] in H; try discriminate; contradiction.
  - right. destruct e1 as [b1| |f1]; try contradiction; destruct e2 as [b2| |f2]; try contradiction; cbn [strip] in H;
      inversion H; subst; eexists _, t1, t2; repeat split; auto; discriminate.
Qed.

(* two stream readers that differ only in Interrupted results not yet passed;
   any other two readers are related only to themselves *)
Definition irel (r1 r2 : reader) : Prop :=
  (rk r1 = SrcIo /\ rk r2 = SrcIo /\ rline r1 = rline r2 /\ rcol r1 = rcol r2 /\ rpending r1 = rpending r2 /\
   if rpending r1 then exists b l1 l2, rinput r1 = EByte b :: l1 /\ rinput r2 = EByte b :: l2 /\ strip l1 = strip l2
   else strip (rinput r1) = strip (rinput r2))
  \/ (rk r1 <> SrcIo /\ r1 = r2).

Lemma irel_rk r1 r2 : irel r1 r2 -> rk r1 = rk r2.
Proof. intros [(A & B & _)|[_ ->]]; congruence. Qed.

Lemma irel_io r1 r2 : irel r1 r2 -> (rk r1 = SrcIo <-> rk r2 = SrcIo).
Proof. intros H. rewrite (irel_rk r1 r2 H). tauto. Qed.

Lemma irel_same r : rk r <> SrcIo -> irel r r.
Proof. intros H. right. auto. Qed.

(* a primitive that keeps the kind is trivially fine on identical readers *)
Lemma same_out {A} (m : M A) r : rk r <> SrcIo -> rk (snd (m r)) = rk r -> out2 irel r (m r) (m r).
Proof. intros H Hk. split; [reflexivity|]. split; [right; split; [congruence|reflexivity]|exact Hk]. Qed.

Lemma consume_irel r1 r2 b l1 l2 : rk r1 = SrcIo -> rk r2 = SrcIo -> rline r1 = rline r2 -> rcol r1 = rcol r2 ->
  strip l1 = strip l2 -> irel (consume r1 b l1) (consume r2 b l2).
Proof.
  intros K1 K2 L C S. left. unfold consume. rewrite L, C. destruct (advance (rline r2) (rcol r2) b) as [ln cl]. cbn. auto 10.
Qed.
Lemma consume_rk r b l : rk (consume r b l) = rk r.
Proof. unfold consume. destruct (advance (rline r) (rcol r) b). reflexivity. Qed.

Lemma isim_peek : sim irel peek.
Proof.
  intros r1 r2 [(K1 & K2 & L & C & P & H)|[K ->]].
  - unfold peek, r_peek, out2. rewrite <- P. destruct (rpending r1) eqn:Ep.
    + destruct H as (b & l1 & l2 & E1 & E2 & S). rewrite E1, E2. cbn [fst snd].
      split; [reflexivity|]. split; [|reflexivity]. left. rewrite Ep, <- P. repeat split; auto. exists b, l1, l2. auto.
    + destruct (skip_intr_strip _ _ H) as [[E1 E2]|(e & t1 & t2 & E1 & E2 & Hne & S)]; rewrite E1, E2.
      * cbn. split; [reflexivity|]. split; [|first [reflexivity|exact K1]]. left. cbn. auto 10.
      * destruct e as [b| |f]; [| contradiction |]; cbn [fst snd].
        -- split; [reflexivity|]. split; [|first [reflexivity|exact K1]]. left. cbn. repeat split; auto. exists b, t1, t2. auto.
        -- split; [reflexivity|]. split; [|first [reflexivity|exact K1]]. left. cbn. auto 10.
  - apply same_out; [exact K|]. unfold peek, r_peek. destruct (rpending r2).
    + destruct (rinput r2) as [|[b| |e] l]; reflexivity.
    + destruct (skip_intr (rinput r2)) as [|[b| |e] l]; reflexivity.
Qed.

Lemma isim_next : sim irel next_char.
Proof.
  intros r1 r2 [(K1 & K2 & L & C & P & H)|[K ->]].
  - unfold next_char, r_next, out2. rewrite <- P. destruct (rpending r1) eqn:Ep.
    + destruct H as (b & l1 & l2 & E1 & E2 & S). rewrite E1, E2. cbn [fst snd].
      split; [reflexivity|]. split; [apply consume_irel; auto|rewrite consume_rk; reflexivity].
    + destruct (skip_intr_strip _ _ H) as [[E1 E2]|(e & t1 & t2 & E1 & E2 & Hne & S)]; rewrite E1, E2.
      * cbn. split; [reflexivity|]. split; [|first [reflexivity|exact K1]]. left. cbn. auto 10.
      * destruct e as [b| |f]; [| contradiction |]; cbn [fst snd].
        -- split; [reflexivity|]. split; [apply consume_irel; auto|rewrite consume_rk; reflexivity].
        -- split; [reflexivity|]. split; [|first [reflexivity|exact K1]]. left. cbn. auto 10.
  - apply same_out; [exact K|]. unfold next_char, r_next.
    destruct (if rpending r2 then rinput r2 else skip_intr (rinput r2)) as [|[b| |e] l]; try reflexivity. apply consume_rk.
Qed.

Lemma discard_irel r1 r2 : irel r1 r2 -> irel (r_discard r1) (r_discard r2) /\ rk (r_discard r1) = rk r1.
Proof.
  intros [(K1 & K2 & L & C & P & H)|[K ->]].
  - unfold r_discard. rewrite K1, K2, <- P. destruct (rpending r1) eqn:Ep.
    + destruct H as (b & l1 & l2 & E1 & E2 & S). rewrite E1, E2. split; [apply consume_irel; auto|rewrite consume_rk; exact K1].
    + split; [|first [reflexivity|exact K1]]. left. rewrite Ep. auto 10.
  - split; [right; split; [|reflexivity]|].
    + unfold r_discard. destruct (rk r2) eqn:Ek; try contradiction; destruct (rinput r2) as [|[b| |e] l]; rewrite ?consume_rk; congruence.
    + unfold r_discard. destruct (rk r2) eqn:Ek; try (destruct (rpending r2)); destruct (rinput r2) as [|[b| |e] l]; rewrite ?consume_rk; congruence.
Qed.
Lemma isim_eat : sim irel eat_char.
Proof. intros r1 r2 H. unfold eat_char, out2. cbn [fst snd]. destruct (discard_irel r1 r2 H) as [A B]. auto. Qed.

Lemma irel_position r1 r2 : irel r1 r2 -> r_position r1 = r_position r2.
Proof. intros [(K1 & K2 & L & C & _)|[_ ->]]; [unfold r_position; congruence|reflexivity]. Qed.
Lemma irel_peek_position r1 r2 : irel r1 r2 -> r_peek_position r1 = r_peek_position r2.
Proof.
  intros [(K1 & K2 & L & C & P & H)|[_ ->]]; [|reflexivity]. unfold r_peek_position. rewrite K1, K2, <- P.
  destruct (rpending r1); [|congruence]. destruct H as (b & l1 & l2 & E1 & E2 & _). rewrite E1, E2. congruence.
Qed.
Lemma isim_error A c : sim irel (@error A c).
Proof.
  intros r1 r2 H. unfold error, out2. rewrite (irel_position r1 r2 H). destruct (r_position r2). cbn [fst snd]. auto.
Qed.
Lemma isim_peek_error A c : sim irel (@peek_error A c).
Proof.
  intros r1 r2 H. unfold peek_error, out2. rewrite (irel_peek_position r1 r2 H). destruct (r_peek_position r2). cbn [fst snd]. auto.
Qed.
Lemma isim_error_consume A c : sim irel (@error_consume A c).
Proof.
  intros r1 r2 H. unfold error_consume, peek_error, out2. rewrite (irel_peek_position r1 r2 H). destruct (r_peek_position r2).
  cbn [fst snd]. destruct (discard_irel r1 r2 H) as [A1 B1]. auto.
Qed.
Lemma isimS_take_run : simS irel take_run.
Proof.
  intros r1 r2 [(K1 & _)|[K ->]] Hio; [contradiction|]. apply same_out; [exact K|].
  unfold take_run. destruct (span_plain (rinput r2) []) as [run rest].
  destruct rest as [|[b| |e] rest']; cbn [snd]; rewrite ?consume_rk; unfold advance_over; destruct (fold_left _ _ _); reflexivity.
Qed.
Lemma isimS_take_symbol : simS irel take_symbol_run.
Proof.
  intros r1 r2 [(K1 & _)|[K ->]] Hio; [contradiction|]. apply same_out; [exact K|].
  unfold take_symbol_run. destruct (span_symbol (rinput r2) []) as [run rest]. cbn [snd].
  unfold advance_over; destruct (fold_left _ _ _); reflexivity.
Qed.

Section Invisible.
  Variable ro : parse_options.
  Variable alpha : N -> bool.
  Variable fast : bool.
  Variable std_parse : N -> Z -> f64.

  Lemma isim_symbol_rd fuel scratch : sim irel (parse_symbol_rd fuel scratch).
  Proof. exact (sim_parse_symbol_rd_same irel irel_io isim_peek isim_eat isim_error isimS_take_symbol fuel scratch irel_rk). Qed.
  Lemma isim_r6rs_str_rd fuel : sim irel (parse_r6rs_str_rd fuel).
  Proof. exact (sim_parse_r6rs_str_rd_same irel irel_io isim_next isim_error isimS_take_run fuel irel_rk). Qed.

  Definition iprel := prel irel.

  Lemma init_related inp1 inp2 : strip inp1 = strip inp2 -> iprel (init_state SrcIo inp1) (init_state SrcIo inp2).
  Proof. intros H. split; [|reflexivity]. left. cbn. auto 10. Qed.

  (* one call *)
  Theorem next_value_interrupts fuel s1 s2 : iprel s1 s2 ->
    fst (next_value ro alpha fast std_parse fuel s1) = fst (next_value ro alpha fast std_parse fuel s2) /\
    iprel (snd (next_value ro alpha fast std_parse fuel s1)) (snd (next_value ro alpha fast std_parse fuel s2)).
  Proof.
    exact (proj1 (psim_values irel irel_io isim_peek isim_next isim_eat isim_error isim_peek_error isim_error_consume
                    isimS_take_run isim_symbol_rd isim_r6rs_str_rd fast std_parse ro alpha fuel) s1 s2).
  Qed.
  Theorem next_datum_interrupts fuel s1 s2 : iprel s1 s2 ->
    fst (next_datum ro alpha fast std_parse fuel s1) = fst (next_datum ro alpha fast std_parse fuel s2) /\
    iprel (snd (next_datum ro alpha fast std_parse fuel s1)) (snd (next_datum ro alpha fast std_parse fuel s2)).
  Proof.
    exact (proj1 (psim_datums irel irel_io isim_peek isim_next isim_eat isim_error isim_peek_error isim_error_consume
                    isimS_take_run isim_symbol_rd isim_r6rs_str_rd fast std_parse ro alpha fuel) s1 s2).
  Qed.

  (* a whole iteration *)
  Theorem iterate_values_interrupts fuel n : forall s1 s2, iprel s1 s2 ->
    iterate_values ro alpha fast std_parse fuel n s1 = iterate_values ro alpha fast std_parse fuel n s2.
  Proof.
    induction n as [|n IH]; intros s1 s2 H; cbn [iterate_values]; [reflexivity|].
    destruct (next_value_interrupts fuel s1 s2 H) as [E Hr].
    destruct (next_value ro alpha fast std_parse fuel s1) as [[[v|]|e] s1'];
      destruct (next_value ro alpha fast std_parse fuel s2) as [[[v2|]|e2] s2']; cbn [fst snd] in *; try discriminate;
      inversion E; subst; try reflexivity; f_equal; apply IH; exact Hr.
  Qed.

  (* the single-shot entry point, with the same step budget on both sides
     (from_trait k inp is this with fuel_for inp) *)
  Definition from_trait_with (fuel : nat) (k : src_kind) (inp : list event) : pres value :=
    fst ((pbind (expect_value ro alpha fast std_parse fuel) (fun v => pbind (expect_end_p fuel) (fun _ => pret v))) (init_state k inp)).
  Lemma from_trait_is inp k : from_trait ro alpha fast std_parse k inp = from_trait_with (fuel_for inp) k inp.
  Proof. reflexivity. Qed.

  Theorem from_trait_interrupts fuel inp1 inp2 : strip inp1 = strip inp2 ->
    from_trait_with fuel SrcIo inp1 = from_trait_with fuel SrcIo inp2.
  Proof.
    intros H. unfold from_trait_with.
    assert (Hs : psim irel (pbind (expect_value ro alpha fast std_parse fuel) (fun v => pbind (expect_end_p fuel) (fun _ => pret v)))).
    { apply psim_bind; [apply (psim_expect_value irel irel_io isim_peek isim_next isim_eat isim_error isim_peek_error
                                 isim_error_consume isimS_take_run isim_symbol_rd isim_r6rs_str_rd)|].
      intros v. apply psim_bind; [apply (psim_expect_end irel isim_peek isim_next isim_eat isim_peek_error)|].
      intros _. apply psim_pret. }
    exact (proj1 (Hs _ _ (init_related inp1 inp2 H))).
  Qed.
End Invisible.
