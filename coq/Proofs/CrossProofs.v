(* C06 / C11: a byte slice and an io::Read stream of the same bytes are read
   alike. SliceRead and IoRead share peek / next but differ in three ways: the
   symbol and string scanners (bulk scans over the slice against a byte-at-a-
   time loop on fuel), discard (IoRead only drops a byte it has peeked) and the
   position attached to a peek_error when nothing is pending. The judgement
   below runs one piece of the model on a slice reader and on a stream reader
   that stand at the same place of the same bytes and shows: unless the stream
   run exhausts its fuel (excluded by C03_total at the entry points), both
   return the same value or errors with the same code, and end at the same
   place again. Discards are only ever justified on a pending byte, which the
   judgement tracks the way the fuel judgement does. *)
From Coq Require Import SpecFloat Lia ZifyBool ZifyNat ZifyN.
Require Import Base Value Float PrintOptions ParseOptions Utf8 Reader Scan Num NumberOps Parser.
Require Import RelFramework SpanProofs FuelProofs.

Definition isb (e : event) : Prop := match e with EByte _ => True | _ => False end.
Definition allb (l : list event) : Prop := Forall isb l.
Lemma allb_tl e l : allb (e :: l) -> allb l.
Proof. intros H. inversion H. assumption. Qed.
Lemma allb_skip l : allb l -> skip_intr l = l.
Proof. destruct l as [|[b| |e] l]; intros H; try reflexivity; inversion H as [|? ? H1 H2]; destruct H1. Qed.

(* the slice reader r1 and the stream reader r2 stand at the same place *)
Definition rel (r1 r2 : reader) : Prop :=
  rk r1 = SrcSlice /\ rk r2 = SrcIo /\ rline r1 = rline r2 /\ rcol r1 = rcol r2 /\
  rinput r1 = rinput r2 /\ allb (rinput r2).

(* same error up to the position attached to it; the fuel artefact is never "the same" *)
Definition rerr (e1 e2 : perr) : Prop :=
  match e1, e2 with
  | ESyntax c1 _ _, ESyntax c2 _ _ => c1 = c2
  | EIo a, EIo b => a = b
  | _, _ => False
  end.
Definition rres {A} (x1 x2 : res A) : Prop :=
  match x1, x2 with
  | Ok a, Ok b => a = b
  | Err e1, Err e2 => rerr e1 e2
  | _, _ => False
  end.

Definition xc {A} (m : M A) (r1 r2 : reader) : Prop :=
  fst (m r2) = Err EFuel \/ (rres (fst (m r1)) (fst (m r2)) /\ rel (snd (m r1)) (snd (m r2))).
Definition xs {A} (m : M A) : Prop := forall r1 r2, rel r1 r2 -> xc m r1 r2.
Definition xsat {A} (b : N) (m : M A) : Prop := forall r1 r2, rel r1 r2 -> at_byte b r2 -> xc m r1 r2.

Lemma xsat_weaken {A} b (m : M A) : xs m -> xsat b m.
Proof. intros H r1 r2 Hr _. apply H. exact Hr. Qed.

Lemma xs_ret {A} (a : A) : xs (ret a).
Proof. intros r1 r2 H. right. split; [reflexivity|exact H]. Qed.
Lemma xs_fuel {A} : xs (@out_of_fuel A).
Proof. intros r1 r2 H. left. reflexivity. Qed.
Lemma xs_error {A} c : xs (@error A c).
Proof.
  intros r1 r2 H. right. unfold error, r_position. cbn [fst snd]. split; [reflexivity|exact H].
Qed.
Lemma xs_peek_error {A} c : xs (@peek_error A c).
Proof.
  intros r1 r2 H. right. unfold peek_error. destruct (r_peek_position r1), (r_peek_position r2). cbn [fst snd].
  split; [reflexivity|exact H].
Qed.
Lemma xs_position : xs position.
Proof.
  intros r1 r2 H. right. unfold position, r_position. cbn [fst snd]. pose proof H as (_ & _ & Hl & Hc & _). rewrite Hl, Hc.
  split; [reflexivity|exact H].
Qed.

Lemma xs_bind {A B} (m : M A) (f : A -> M B) : xs m -> (forall a, xs (f a)) -> xs (bind m f).
Proof.
  intros Hm Hf r1 r2 H. unfold xc, bind. destruct (Hm r1 r2 H) as [E|[E Hr]].
  - left. destruct (m r2) as [[a|e] r2']; cbn [fst] in E; [discriminate|]. inversion E. reflexivity.
  - destruct (m r1) as [[a1|e1] r1']; destruct (m r2) as [[a2|e2] r2']; cbn [fst snd rres] in *; try contradiction.
    + subst a2. apply Hf. exact Hr.
    + right. split; [exact E|exact Hr].
Qed.
Lemma xsat_bind {A B} b (m : M A) (f : A -> M B) : xsat b m -> (forall a, xs (f a)) -> xsat b (bind m f).
Proof.
  intros Hm Hf r1 r2 H Hb. unfold xc, bind. destruct (Hm r1 r2 H Hb) as [E|[E Hr]].
  - left. destruct (m r2) as [[a|e] r2']; cbn [fst] in E; [discriminate|]. inversion E. reflexivity.
  - destruct (m r1) as [[a1|e1] r1']; destruct (m r2) as [[a2|e2] r2']; cbn [fst snd rres] in *; try contradiction.
    + subst a2. apply Hf. exact Hr.
    + right. split; [exact E|exact Hr].
Qed.

(* ---- the primitives ---- *)
Lemma rel_consume r1 r2 b l : rel r1 r2 -> rinput r2 = EByte b :: l -> rel (consume r1 b l) (consume r2 b l).
Proof.
  intros (K1 & K2 & Hl & Hc & Hi & Ha) E. unfold consume. rewrite Hl, Hc. destruct (advance (rline r2) (rcol r2) b).
  repeat split; cbn; auto. rewrite E in Ha. apply allb_tl in Ha. exact Ha.
Qed.
Lemma rel_set_pending r1 r2 p1 p2 : rel r1 r2 ->
  rel {| rk := rk r1; rline := rline r1; rcol := rcol r1; rpending := p1; rinput := rinput r1 |}
      {| rk := rk r2; rline := rline r2; rcol := rcol r2; rpending := p2; rinput := rinput r2 |}.
Proof. intros (K1 & K2 & Hl & Hc & Hi & Ha). repeat split; cbn; auto. Qed.

(* peek: both see the same byte; afterwards the stream reader has it pending *)
Lemma peek_cross r1 r2 : rel r1 r2 ->
  match rinput r2 with
  | EByte b :: l => exists r1' r2', r_peek r1 = (Ok (Some b), r1') /\ r_peek r2 = (Ok (Some b), r2') /\ rel r1' r2' /\ at_byte b r2'
  | _ => exists r1' r2', r_peek r1 = (Ok None, r1') /\ r_peek r2 = (Ok None, r2') /\ rel r1' r2'
  end.
Proof.
  intros H. pose proof H as (K1 & K2 & Hl & Hc & Hi & Ha). unfold r_peek. rewrite Hi.
  destruct (rinput r2) as [|[b| |e] l] eqn:E.
  - exists (if rpending r1 then r1 else {| rk := rk r1; rline := rline r1; rcol := rcol r1; rpending := false; rinput := [] |}),
           (if rpending r2 then r2 else {| rk := rk r2; rline := rline r2; rcol := rcol r2; rpending := false; rinput := [] |}).
    split; [destruct (rpending r1); reflexivity|]. split; [destruct (rpending r2); reflexivity|].
    destruct (rpending r1), (rpending r2); repeat split; cbn; auto; try (rewrite Hi, E; reflexivity); try (rewrite E; reflexivity);
      try (rewrite E; constructor); try constructor.
  - exists (if rpending r1 then r1 else {| rk := rk r1; rline := rline r1; rcol := rcol r1; rpending := true; rinput := EByte b :: l |}),
           (if rpending r2 then r2 else {| rk := rk r2; rline := rline r2; rcol := rcol r2; rpending := true; rinput := EByte b :: l |}).
    split; [destruct (rpending r1); reflexivity|]. split; [destruct (rpending r2); reflexivity|].
    split.
    + destruct (rpending r1), (rpending r2); repeat split; cbn; auto; try (rewrite Hi, E; reflexivity); try (rewrite E; reflexivity);
        try (rewrite E; exact Ha); try exact Ha.
    + destruct (rpending r2) eqn:Ep; (split; [cbn; auto|exists l; cbn; auto]).
  - exfalso. inversion Ha as [|? ? H1 H2]. destruct H1.
  - exfalso. inversion Ha as [|? ? H1 H2]. destruct H1.
Qed.

Lemma xs_bind_peek {A} (k : option N -> M A) :
  xs (k None) -> (forall b, xsat b (k (Some b))) -> xs (bind peek k).
Proof.
  intros Hn Hs r1 r2 H. unfold xc, bind, peek. pose proof (peek_cross r1 r2 H) as Hc.
  destruct (rinput r2) as [|[b| |e] l].
  - destruct Hc as (r1' & r2' & E1 & E2 & Hr). rewrite E1, E2. apply Hn. exact Hr.
  - destruct Hc as (r1' & r2' & E1 & E2 & Hr & Hb). rewrite E1, E2. apply Hs; assumption.
  - destruct Hc as (r1' & r2' & E1 & E2 & Hr). rewrite E1, E2. apply Hn. exact Hr.
  - destruct Hc as (r1' & r2' & E1 & E2 & Hr). rewrite E1, E2. apply Hn. exact Hr.
Qed.
Lemma xs_bind_peek_or_null {A} (k : N -> M A) :
  xs (k 0) -> (forall b, xsat b (k b)) -> xs (bind peek_or_null k).
Proof.
  intros Hn Hs r1 r2 H. unfold xc, peek_or_null, bind, peek, ret. pose proof (peek_cross r1 r2 H) as Hc.
  destruct (rinput r2) as [|[b| |e] l].
  - destruct Hc as (r1' & r2' & E1 & E2 & Hr). rewrite E1, E2. apply Hn. exact Hr.
  - destruct Hc as (r1' & r2' & E1 & E2 & Hr & Hb). rewrite E1, E2. apply Hs; assumption.
  - destruct Hc as (r1' & r2' & E1 & E2 & Hr). rewrite E1, E2. apply Hn. exact Hr.
  - destruct Hc as (r1' & r2' & E1 & E2 & Hr). rewrite E1, E2. apply Hn. exact Hr.
Qed.
Lemma xs_peek : xs peek.
Proof.
  intros r1 r2 H. pose proof (xs_bind_peek (fun o => ret o) (xs_ret None) (fun b => xsat_weaken b _ (xs_ret (Some b))) r1 r2 H) as Hx.
  unfold xc, bind, ret in *. destruct (peek r1) as [[a1|e1] r1']; destruct (peek r2) as [[a2|e2] r2']; exact Hx.
Qed.
Lemma xs_peek_or_null : xs peek_or_null.
Proof. unfold peek_or_null. apply xs_bind; [apply xs_peek|intros; apply xs_ret]. Qed.

(* on a pending byte the stream's peek changes nothing, and the slice sees the same byte *)
Lemma peek_at_cross b r1 r2 : rel r1 r2 -> at_byte b r2 ->
  exists r1', r_peek r1 = (Ok (Some b), r1') /\ r_peek r2 = (Ok (Some b), r2) /\ rel r1' r2.
Proof.
  intros H Hb. pose proof (peek_at b r2 Hb) as E2. pose proof (peek_cross r1 r2 H) as Hc.
  destruct Hb as [Hp [l Hl]]. rewrite Hl in Hc. destruct Hc as (r1' & r2' & E1 & E2' & Hr & _).
  rewrite E2 in E2'. inversion E2'; subst r2'. exists r1'. auto.
Qed.
Lemma xsat_bind_peek {A} b (k : option N -> M A) : xsat b (k (Some b)) -> xsat b (bind peek k).
Proof.
  intros Hk r1 r2 H Hb. unfold xc, bind, peek. destruct (peek_at_cross b r1 r2 H Hb) as (r1' & E1 & E2 & Hr).
  rewrite E1, E2. apply Hk; assumption.
Qed.
Lemma xsat_bind_peek_or_null {A} b (k : N -> M A) : xsat b (k b) -> xsat b (bind peek_or_null k).
Proof.
  intros Hk r1 r2 H Hb. unfold xc, peek_or_null, bind, peek, ret. destruct (peek_at_cross b r1 r2 H Hb) as (r1' & E1 & E2 & Hr).
  rewrite E1, E2. apply Hk; assumption.
Qed.

(* discarding the pending byte: the slice drops the same byte *)
Lemma discard_cross b r1 r2 : rel r1 r2 -> at_byte b r2 -> rel (r_discard r1) (r_discard r2).
Proof.
  intros H [Hp [l Hl]]. pose proof H as (K1 & K2 & _ & _ & Hi & _). unfold r_discard. rewrite K1, K2, Hp, Hi, Hl.
  apply rel_consume; assumption.
Qed.
Lemma xsat_bind_eat {B} b (m : M B) : xs m -> xsat b (bind (A := unit) eat_char (fun _ => m)).
Proof. intros Hm r1 r2 H Hb. unfold xc, bind, eat_char. apply Hm. apply (discard_cross b); assumption. Qed.
Lemma xsat_eat b : xsat b eat_char.
Proof. intros r1 r2 H Hb. right. unfold eat_char. cbn [fst snd]. split; [reflexivity|apply (discard_cross b); assumption]. Qed.
Lemma xsat_error_consume {A} b c : xsat b (@error_consume A c).
Proof.
  intros r1 r2 H Hb. right. unfold error_consume, peek_error. destruct (r_peek_position r1), (r_peek_position r2). cbn [fst snd].
  split; [reflexivity|apply (discard_cross b); assumption].
Qed.

(* next *)
Lemma next_cross r1 r2 : rel r1 r2 ->
  match rinput r2 with
  | EByte b :: l => r_next r1 = (Ok (Some b), consume r1 b l) /\ r_next r2 = (Ok (Some b), consume r2 b l)
  | _ => exists r1' r2', r_next r1 = (Ok None, r1') /\ r_next r2 = (Ok None, r2') /\ rel r1' r2'
  end.
Proof.
  intros H. pose proof H as (K1 & K2 & Hl & Hc & Hi & Ha). unfold r_next. rewrite Hi.
  destruct (rinput r2) as [|[b| |e] l] eqn:E.
  - destruct (rpending r1), (rpending r2); cbn [skip_intr]; eexists; eexists; (split; [reflexivity|split; [reflexivity|]]);
      repeat split; cbn; auto; constructor.
  - destruct (rpending r1), (rpending r2); cbn [skip_intr]; split; reflexivity.
  - exfalso. inversion Ha as [|? ? H1 H2]. destruct H1.
  - exfalso. inversion Ha as [|? ? H1 H2]. destruct H1.
Qed.
Lemma xs_bind_next {A} (k : option N -> M A) : xs (k None) -> (forall c, xs (k (Some c))) -> xs (bind next_char k).
Proof.
  intros Hn Hs r1 r2 H. unfold xc, bind, next_char. pose proof (next_cross r1 r2 H) as Hc.
  destruct (rinput r2) as [|[b| |e] l] eqn:E.
  - destruct Hc as (r1' & r2' & E1 & E2 & Hr). rewrite E1, E2. apply Hn. exact Hr.
  - destruct Hc as [E1 E2]. rewrite E1, E2. apply Hs. apply rel_consume; assumption.
  - destruct Hc as (r1' & r2' & E1 & E2 & Hr). rewrite E1, E2. apply Hn. exact Hr.
  - destruct Hc as (r1' & r2' & E1 & E2 & Hr). rewrite E1, E2. apply Hn. exact Hr.
Qed.
Lemma xs_next : xs next_char.
Proof.
  intros r1 r2 H. pose proof (xs_bind_next (fun o => ret o) (xs_ret None) (fun c => xs_ret (Some c)) r1 r2 H) as Hx.
  unfold xc, bind, ret in *. destruct (next_char r1) as [[a1|e1] r1']; destruct (next_char r2) as [[a2|e2] r2']; exact Hx.
Qed.

Lemma xs_ext {A} (m m' : M A) : (forall r, m r = m' r) -> xs m' -> xs m.
Proof. intros E H r1 r2 Hr. unfold xc. rewrite !E. apply H. exact Hr. Qed.

Create HintDb xdb.
Ltac xs_step :=
  first
    [ apply xs_ret | apply xs_fuel | apply xs_error | apply xs_peek_error
    | apply xs_peek | apply xs_next | apply xs_peek_or_null | apply xs_position
    | solve [eauto 3 with xdb]
    | apply xsat_error_consume
    | apply xsat_bind_eat
    | apply xsat_eat
    | apply xsat_bind_peek
    | apply xsat_bind_peek_or_null
    | apply xs_bind_peek; [|intros ?]
    | apply xs_bind_peek_or_null; [at_zero|intros ?]
    | apply xs_bind_next; [|intros ?]
    | match goal with
      | |- xs (match ?x with _ => _ end) => destruct x
      | |- xs (if ?x then _ else _) => destruct x
      | |- xs (let '(_, _) := ?x in _) => destruct x
      | |- xsat _ (match ?x with _ => _ end) => destruct x
      | |- xsat _ (if ?x then _ else _) => destruct x
      | |- xsat _ (let '(_, _) := ?x in _) => destruct x
      end
    | apply xs_bind; [|intros ?]
    | apply xsat_bind; [|intros ?]
    | apply xsat_weaken ].
Ltac xs_auto := repeat xs_step.
Ltac xs_pon := apply xs_bind_peek_or_null; [at_zero|intros ?].

(* ---- scanners that are the same code for both sources ---- *)
Lemma xs_next_or_eof : xs next_or_eof.
Proof. unfold next_or_eof. xs_auto. Qed.
Lemma xs_next_or_eof_char : xs next_or_eof_char.
Proof. unfold next_or_eof_char. xs_auto. Qed.
Lemma xs_as_str b : xs (Scan.as_str b).
Proof. unfold Scan.as_str. xs_auto. Qed.
#[export] Hint Resolve xs_next_or_eof xs_next_or_eof_char xs_as_str : xdb.

Lemma xs_hex_escape_loop fuel : forall x, xs (hex_escape_loop fuel x).
Proof. induction fuel as [|f IH]; intros x; cbn [hex_escape_loop]; xs_auto. Qed.
Lemma xs_parse_r6rs_escape fuel : xs (parse_r6rs_escape fuel).
Proof. pose proof xs_hex_escape_loop. unfold parse_r6rs_escape, decode_r6rs_hex_escape. xs_auto. Qed.
#[export] Hint Resolve xs_parse_r6rs_escape : xdb.
Lemma xs_elisp_hex_loop fuel : forall x, xs (elisp_hex_loop fuel x).
Proof. induction fuel as [|f IH]; intros x; cbn [elisp_hex_loop]; xs_auto. Qed.
Lemma xs_decode_elisp_uni_escape k : forall x, xs (decode_elisp_uni_escape k x).
Proof. induction k as [|k IH]; intros x; cbn [decode_elisp_uni_escape]; xs_auto. Qed.
Lemma xs_elisp_octal_loop fuel : forall x, xs (elisp_octal_loop fuel x).
Proof. induction fuel as [|f IH]; intros x; cbn [elisp_octal_loop]; xs_auto. Qed.
Lemma xs_elisp_char_escape_of x : xs (elisp_char_escape_of x).
Proof. unfold elisp_char_escape_of. xs_auto. Qed.
Lemma xs_elisp_uni_escape_of x : xs (elisp_uni_escape_of x).
Proof. unfold elisp_uni_escape_of. xs_auto. Qed.
#[export] Hint Resolve xs_elisp_hex_loop xs_decode_elisp_uni_escape xs_elisp_octal_loop xs_elisp_char_escape_of xs_elisp_uni_escape_of : xdb.
Lemma xs_parse_elisp_escape fuel : xs (parse_elisp_escape fuel).
Proof. unfold parse_elisp_escape, decode_elisp_hex_escape, decode_elisp_octal_escape. xs_auto. Qed.
#[export] Hint Resolve xs_parse_elisp_escape : xdb.
Lemma xs_elisp_finish fl scratch : xs (elisp_finish fl scratch).
Proof. unfold elisp_finish. xs_auto. Qed.
#[export] Hint Resolve xs_elisp_finish : xdb.

Lemma xs_take_bytes k : forall acc, xs (take_bytes k acc).
Proof. induction k as [|k IH]; intros acc; cbn [take_bytes]; xs_auto. Qed.
#[export] Hint Resolve xs_take_bytes : xdb.
Lemma xs_decode_utf8_sequence_b c : xs (decode_utf8_sequence_b c).
Proof. unfold decode_utf8_sequence_b. xs_auto. Qed.
#[export] Hint Resolve xs_decode_utf8_sequence_b : xdb.
Lemma xs_decode_utf8_sequence c : xs (decode_utf8_sequence c).
Proof. unfold decode_utf8_sequence. xs_auto. Qed.
#[export] Hint Resolve xs_decode_utf8_sequence : xdb.
Lemma xs_r6rs_char_hex_loop fuel : forall x first, xs (r6rs_char_hex_loop fuel x first).
Proof. induction fuel as [|f IH]; intros x first; cbn [r6rs_char_hex_loop]; xs_auto. Qed.
Lemma xs_char_name_loop fuel : forall scratch, xs (char_name_loop fuel scratch).
Proof. induction fuel as [|f IH]; intros scratch; cbn [char_name_loop]; xs_auto. Qed.
Lemma xs_open_ended_char x : xs (open_ended_char x).
Proof. unfold open_ended_char. xs_auto. Qed.
#[export] Hint Resolve xs_r6rs_char_hex_loop xs_char_name_loop xs_open_ended_char : xdb.
Lemma xs_parse_r6rs_char fuel : xs (parse_r6rs_char fuel).
Proof. unfold parse_r6rs_char. xs_auto. Qed.
#[export] Hint Resolve xs_parse_r6rs_char : xdb.
Lemma xs_as_char x : xs (Scan.as_char x).
Proof. unfold Scan.as_char. xs_auto. Qed.
#[export] Hint Resolve xs_as_char : xdb.
Lemma xs_decode_elisp_char_escape fuel : xs (decode_elisp_char_escape fuel).
Proof. unfold decode_elisp_char_escape, decode_elisp_hex_escape, decode_elisp_octal_escape. xs_auto. Qed.
#[export] Hint Resolve xs_decode_elisp_char_escape : xdb.
Lemma xs_parse_elisp_char fuel : xs (parse_elisp_char fuel).
Proof. unfold parse_elisp_char. xs_auto. Qed.
#[export] Hint Resolve xs_parse_elisp_char : xdb.

(* ---- symbols: the bulk scan against the byte-at-a-time loop ---- *)
Definition same_place (r r' : reader) : Prop :=
  rk r' = rk r /\ rline r' = rline r /\ rcol r' = rcol r /\ rinput r' = rinput r.
Lemma rel_same_place_r r1 r2 r2' : rel r1 r2 -> same_place r2 r2' -> rel r1 r2'.
Proof. intros (K1 & K2 & Hl & Hc & Hi & Ha) (S1 & S2 & S3 & S4). repeat split; try congruence. Qed.
Lemma rel_same_place_l r1 r1' r2 : rel r1 r2 -> same_place r1 r1' -> rel r1' r2.
Proof. intros (K1 & K2 & Hl & Hc & Hi & Ha) (S1 & S2 & S3 & S4). repeat split; try congruence. Qed.

Lemma peek_io_byte r b l : allb (rinput r) -> rinput r = EByte b :: l ->
  exists r', r_peek r = (Ok (Some b), r') /\ same_place r r' /\ rpending r' = true.
Proof.
  intros Ha E. unfold r_peek. destruct (rpending r) eqn:Ep.
  - rewrite E. exists r. repeat split; auto.
  - rewrite (allb_skip _ Ha), E. eexists. split; [reflexivity|]. repeat split; cbn; auto.
Qed.
Lemma peek_io_nil r : rinput r = [] -> exists r', r_peek r = (Ok None, r') /\ same_place r r'.
Proof.
  intros E. unfold r_peek. destruct (rpending r) eqn:Ep; rewrite E; cbn [skip_intr].
  - exists r. repeat split; auto.
  - eexists. split; [reflexivity|]. repeat split; cbn; auto.
Qed.
Lemma consume_same_place r r' b l : same_place r r' -> consume r' b l = consume r b l.
Proof. intros (S1 & S2 & S3 & S4). unfold consume. rewrite S1, S2, S3. reflexivity. Qed.
Lemma discard_pending_io r b l : rk r = SrcIo -> rpending r = true -> rinput r = EByte b :: l -> r_discard r = consume r b l.
Proof. intros K P E. unfold r_discard. rewrite K, P, E. reflexivity. Qed.

Lemma span_symbol_split l : forall acc, span_symbol l acc = (acc ++ fst (span_symbol l []), snd (span_symbol l [])).
Proof.
  induction l as [|[b| |e] l IH]; intros acc; cbn [span_symbol fst snd]; try (rewrite app_nil_r; reflexivity).
  destruct (is_symbol_terminator b); [cbn [fst snd]; rewrite app_nil_r; reflexivity|].
  rewrite (IH (acc ++ [b])), (IH ([] ++ [b])). cbn [fst snd]. rewrite <- app_assoc. reflexivity.
Qed.

Lemma advance_over_cons r b bs l' rest : rinput r = EByte b :: l' ->
  advance_over r (b :: bs) rest = advance_over (consume r b l') bs rest.
Proof.
  intros E. unfold advance_over, consume. cbn [fold_left fst snd].
  destruct (advance (rline r) (rcol r) b) as [ln cl]. cbn [rline rcol rk]. reflexivity.
Qed.

Lemma slice_symbol_step scratch r ch l' : rinput r = EByte ch :: l' -> is_symbol_terminator ch = false ->
  scan_symbol_slice scratch r = scan_symbol_slice (scratch ++ [ch]) (consume r ch l').
Proof.
  intros E Ht. unfold scan_symbol_slice. rewrite E. cbn [span_symbol]. rewrite Ht.
  rewrite (span_symbol_split l' ([] ++ [ch])). cbn [app].
  assert (Ec : rinput (consume r ch l') = l') by (unfold consume; destruct (advance _ _ _); reflexivity).
  rewrite Ec. destruct (span_symbol l' []) as [m rest]. cbn [fst snd].
  rewrite (advance_over_cons r ch m l' rest E). rewrite <- app_assoc. cbn [app]. reflexivity.
Qed.

Lemma advance_over_nil r rest : rinput r = rest -> same_place r (advance_over r [] rest).
Proof. intros E. unfold advance_over. cbn [fold_left]. repeat split; cbn; auto. Qed.

Lemma scan_symbol_io_unfold f scratch r :
  scan_symbol_io (S f) scratch r =
  match r_peek r with
  | (Ok (Some ch), r') =>
      if is_symbol_terminator ch then (if beq_bytes scratch [46] then error InvalidSymbol else ret scratch) r'
      else scan_symbol_io f (scratch ++ [ch]) (r_discard r')
  | (Ok None, r') =>
      (if is_truncated_symbol scratch then error EofWhileParsingValue
       else if beq_bytes scratch [46] then error InvalidSymbol else ret scratch) r'
  | (Err e, r') => (Err e, r')
  end.
Proof.
  cbn [scan_symbol_io]. unfold bind, peek, eat_char. destruct (r_peek r) as [[[ch|]|e] r']; try reflexivity.
  destruct (is_symbol_terminator ch); reflexivity.
Qed.
Lemma rr_error {A} c r1 r2 : rel r1 r2 ->
  rres (fst (@error A c r1)) (fst (@error A c r2)) /\ rel (snd (@error A c r1)) (snd (@error A c r2)).
Proof. intros H. unfold error, r_position. cbn [fst snd]. split; [reflexivity|exact H]. Qed.

Lemma symbol_cross fuel : forall scratch r1 r2, rel r1 r2 ->
  fst (scan_symbol_io fuel scratch r2) = Err EFuel \/
  (rres (fst (scan_symbol_slice scratch r1)) (fst (scan_symbol_io fuel scratch r2)) /\
   rel (snd (scan_symbol_slice scratch r1)) (snd (scan_symbol_io fuel scratch r2))).
Proof.
  induction fuel as [|f IH]; intros scratch r1 r2 H; [left; reflexivity|].
  pose proof H as (K1 & K2 & Hl & Hc & Hi & Ha). rewrite scan_symbol_io_unfold.
  destruct (rinput r2) as [|[ch| |e] l'] eqn:E.
  - (* end of input *)
    destruct (peek_io_nil r2 E) as (r2' & Ep & Hs). rewrite Ep. right.
    unfold scan_symbol_slice. rewrite Hi. cbn [span_symbol]. rewrite app_nil_r. cbn [andb].
    assert (Hr : rel (advance_over r1 [] []) r2').
    { eapply rel_same_place_l; [eapply rel_same_place_r; [exact H|exact Hs]|apply advance_over_nil; congruence]. }
    destruct (is_truncated_symbol scratch); [apply rr_error; exact Hr|].
    destruct (beq_bytes scratch [46]); [apply rr_error; exact Hr|]. split; [reflexivity|exact Hr].
  - destruct (peek_io_byte r2 ch l' ltac:(rewrite E; exact Ha) E) as (r2' & Ep & Hs & Hp). rewrite Ep.
    destruct (is_symbol_terminator ch) eqn:Et.
    + right. unfold scan_symbol_slice. rewrite Hi. cbn [span_symbol]. rewrite Et, app_nil_r. cbn [andb].
      assert (Hr : rel (advance_over r1 [] (EByte ch :: l')) r2').
      { eapply rel_same_place_l; [eapply rel_same_place_r; [exact H|exact Hs]|apply advance_over_nil; congruence]. }
      destruct (beq_bytes scratch [46]); [apply rr_error; exact Hr|]. split; [reflexivity|exact Hr].
    + destruct Hs as (S1 & S2 & S3 & S4).
      rewrite (discard_pending_io r2' ch l' ltac:(congruence) Hp ltac:(congruence)).
      rewrite (consume_same_place r2 r2' ch l' (conj S1 (conj S2 (conj S3 S4)))).
      rewrite (slice_symbol_step scratch r1 ch l' ltac:(congruence) Et).
      apply IH. apply rel_consume; assumption.
  - exfalso. inversion Ha as [|? ? H1 H2]. destruct H1.
  - exfalso. inversion Ha as [|? ? H1 H2]. destruct H1.
Qed.

Lemma xc_then {A B} (m1 m2 : M A) (f : A -> M B) r1 r2 :
  (fst (m2 r2) = Err EFuel \/ (rres (fst (m1 r1)) (fst (m2 r2)) /\ rel (snd (m1 r1)) (snd (m2 r2)))) ->
  (forall a, xs (f a)) ->
  fst (bind m2 f r2) = Err EFuel \/ (rres (fst (bind m1 f r1)) (fst (bind m2 f r2)) /\ rel (snd (bind m1 f r1)) (snd (bind m2 f r2))).
Proof.
  intros [E|[E Hr]] Hf; unfold bind.
  - left. destruct (m2 r2) as [[a|e] r2']; cbn [fst] in E; [discriminate|]. inversion E. reflexivity.
  - destruct (m1 r1) as [[a1|e1] r1']; destruct (m2 r2) as [[a2|e2] r2']; cbn [fst snd rres] in *; try contradiction.
    + subst a2. apply Hf. exact Hr.
    + right. split; [exact E|exact Hr].
Qed.

Lemma xs_finish_str b : xs (finish_str b).
Proof.
  intros r1 r2 H. unfold xc, finish_str. pose proof H as (K1 & K2 & _). rewrite K1, K2. apply (xs_as_str b). exact H.
Qed.
Lemma xs_parse_symbol_rd fuel scratch : xs (parse_symbol_rd fuel scratch).
Proof.
  intros r1 r2 H. unfold xc, parse_symbol_rd. pose proof H as (K1 & K2 & _). rewrite K1, K2.
  pose proof (xc_then (scan_symbol_slice scratch) (scan_symbol_io fuel scratch) Scan.as_str r1 r2 (symbol_cross fuel scratch r1 r2 H) xs_as_str) as Hx.
  destruct Hx as [E|[E Hr]]; [left; exact E|right].
  (* on the slice, finish_str is as_str *)
  assert (Ef : (b <- scan_symbol_slice scratch;; finish_str b) r1 = (b <- scan_symbol_slice scratch;; Scan.as_str b) r1).
  { unfold bind. assert (Hk : rk (snd (scan_symbol_slice scratch r1)) = SrcSlice).
    { unfold scan_symbol_slice. destruct (span_symbol (rinput r1) []) as [sc rest]. cbv zeta.
      destruct (_ && _); [unfold error; destruct (r_position _); cbn; unfold advance_over; destruct (fold_left _ _ _); exact K1|].
      destruct (beq_bytes _ _); [unfold error; destruct (r_position _); cbn; unfold advance_over; destruct (fold_left _ _ _); exact K1|].
      unfold ret. cbn. unfold advance_over. destruct (fold_left _ _ _). exact K1. }
    destruct (scan_symbol_slice scratch r1) as [[b|e] r1']; [|reflexivity]. cbn [snd] in Hk. unfold finish_str. rewrite Hk. reflexivity. }
  rewrite Ef. split; assumption.
Qed.
#[export] Hint Resolve xs_parse_symbol_rd xs_finish_str : xdb.

(* ---- two programs: the slice runs m1, the stream runs m2 ---- *)
Definition xc2 {A} (m1 m2 : M A) (r1 r2 : reader) : Prop :=
  fst (m2 r2) = Err EFuel \/ (rres (fst (m1 r1)) (fst (m2 r2)) /\ rel (snd (m1 r1)) (snd (m2 r2))).
Definition xs2 {A} (m1 m2 : M A) : Prop := forall r1 r2, rel r1 r2 -> xc2 m1 m2 r1 r2.
Lemma xs2_of_xs {A} (m : M A) : xs m -> xs2 m m.
Proof. intros H. exact H. Qed.
Lemma xs2_bind {A B} (m1 m2 : M A) (f1 f2 : A -> M B) :
  xs2 m1 m2 -> (forall a, xs2 (f1 a) (f2 a)) -> xs2 (bind m1 f1) (bind m2 f2).
Proof.
  intros Hm Hf r1 r2 H. unfold xc2, bind. destruct (Hm r1 r2 H) as [E|[E Hr]].
  - left. destruct (m2 r2) as [[a|e] r2']; cbn [fst] in E; [discriminate|]. inversion E. reflexivity.
  - destruct (m1 r1) as [[a1|e1] r1']; destruct (m2 r2) as [[a2|e2] r2']; cbn [fst snd rres] in *; try contradiction.
    + subst a2. apply Hf. exact Hr.
    + right. split; [exact E|exact Hr].
Qed.

(* less fuel only ever adds the fuel error *)
Definition um {A} (mi ms : M A) : Prop := forall r, fst (mi r) = Err EFuel \/ mi r = ms r.
Lemma um_refl {A} (m : M A) : um m m.
Proof. intros r. right. reflexivity. Qed.
Lemma um_fuel {A} (m : M A) : um out_of_fuel m.
Proof. intros r. left. reflexivity. Qed.
Lemma um_bind {A B} (mi ms : M A) (fi fs : A -> M B) : um mi ms -> (forall a, um (fi a) (fs a)) -> um (bind mi fi) (bind ms fs).
Proof.
  intros Hm Hf r. unfold bind. destruct (Hm r) as [E|E].
  - left. destruct (mi r) as [[a|e] r']; cbn [fst] in E; [discriminate|]. inversion E. reflexivity.
  - rewrite E. destruct (ms r) as [[a|e] r']; [apply Hf|right; reflexivity].
Qed.
Ltac um_step :=
  first
    [ match goal with |- um ?a ?b => constr_eq a b; apply um_refl end | apply um_fuel | assumption | solve [auto]
    | apply um_bind; [|intros ?]
    | match goal with
      | |- um (if ?c then _ else _) (if ?c then _ else _) => destruct c
      | |- um (match ?x with _ => _ end) (match ?x with _ => _ end) => destruct x
      end ].
Ltac um_auto := repeat um_step.
Lemma xs2_um {A} (mi ms : M A) : xs ms -> um mi ms -> xs2 ms mi.
Proof.
  intros Hx Hu r1 r2 H. unfold xc2. destruct (Hu r2) as [E|E]; [left; exact E|]. rewrite E. apply Hx. exact H.
Qed.

Lemma um_hex_escape_loop fi : forall fs x, (fi <= fs)%nat -> um (hex_escape_loop fi x) (hex_escape_loop fs x).
Proof.
  induction fi as [|fi IH]; intros fs x Hf; [apply um_fuel|]. destruct fs as [|fs]; [lia|]. cbn [hex_escape_loop].
  assert (H' : forall y, um (hex_escape_loop fi y) (hex_escape_loop fs y)) by (intros; apply IH; lia). um_auto.
Qed.
Lemma um_parse_r6rs_escape fi fs : (fi <= fs)%nat -> um (parse_r6rs_escape fi) (parse_r6rs_escape fs).
Proof.
  intros Hf. unfold parse_r6rs_escape, decode_r6rs_hex_escape. pose proof (um_hex_escape_loop fi fs 0 Hf). um_auto.
Qed.
Lemma um_elisp_hex_loop fi : forall fs x, (fi <= fs)%nat -> um (elisp_hex_loop fi x) (elisp_hex_loop fs x).
Proof.
  induction fi as [|fi IH]; intros fs x Hf; [apply um_fuel|]. destruct fs as [|fs]; [lia|]. cbn [elisp_hex_loop].
  assert (H' : forall y, um (elisp_hex_loop fi y) (elisp_hex_loop fs y)) by (intros; apply IH; lia). um_auto.
Qed.
Lemma um_elisp_octal_loop fi : forall fs x, (fi <= fs)%nat -> um (elisp_octal_loop fi x) (elisp_octal_loop fs x).
Proof.
  induction fi as [|fi IH]; intros fs x Hf; [apply um_fuel|]. destruct fs as [|fs]; [lia|]. cbn [elisp_octal_loop].
  assert (H' : forall y, um (elisp_octal_loop fi y) (elisp_octal_loop fs y)) by (intros; apply IH; lia). um_auto.
Qed.
Lemma um_parse_elisp_escape fi fs : (fi <= fs)%nat -> um (parse_elisp_escape fi) (parse_elisp_escape fs).
Proof.
  intros Hf. unfold parse_elisp_escape, decode_elisp_hex_escape, decode_elisp_octal_escape.
  pose proof (fun x => um_elisp_hex_loop fi fs x Hf). pose proof (fun x => um_elisp_octal_loop fi fs x Hf). um_auto.
Qed.

(* ---- strings ---- *)
Lemma span_plain_split l : forall acc, span_plain l acc = (acc ++ fst (span_plain l []), snd (span_plain l [])).
Proof.
  induction l as [|[b| |e] l IH]; intros acc; cbn [span_plain fst snd]; try (rewrite app_nil_r; reflexivity).
  destruct ((b =? 92) || (b =? 34)); [cbn [fst snd]; rewrite app_nil_r; reflexivity|].
  rewrite (IH (acc ++ [b])), (IH ([] ++ [b])). cbn [fst snd]. rewrite <- app_assoc. reflexivity.
Qed.
Lemma consume_input r b l : rinput (consume r b l) = l.
Proof. unfold consume. destruct (advance _ _ _). reflexivity. Qed.

Lemma slice_r6rs_step f scratch r ch l' : rinput r = EByte ch :: l' -> (ch =? 92) || (ch =? 34) = false ->
  r6rs_str_slice (S f) scratch r = r6rs_str_slice (S f) (scratch ++ [ch]) (consume r ch l').
Proof.
  intros E Ht. cbn [r6rs_str_slice]. rewrite E. cbn [span_plain]. rewrite Ht.
  rewrite (span_plain_split l' ([] ++ [ch])). cbn [app]. rewrite consume_input.
  destruct (span_plain l' []) as [m rest]. cbn [fst snd].
  rewrite (advance_over_cons r ch m l' rest E).
  destruct rest as [|[b| |e] rest']; try reflexivity.
  replace (scratch ++ ch :: m) with ((scratch ++ [ch]) ++ m) by (rewrite <- app_assoc; reflexivity).
  destruct (b =? 34); [reflexivity|].
  unfold bind. destruct (parse_r6rs_escape f _) as [[e|er] r']; [|reflexivity].
  rewrite <- (app_assoc scratch [ch] (m ++ e)). reflexivity.
Qed.

Lemma next_io_byte r b l : allb (rinput r) -> rinput r = EByte b :: l -> r_next r = (Ok (Some b), consume r b l).
Proof. intros Ha E. unfold r_next. destruct (rpending r); [rewrite E; reflexivity|rewrite (allb_skip _ Ha), E; reflexivity]. Qed.
Lemma next_io_nil r : rinput r = [] -> exists r', r_next r = (Ok None, r') /\ same_place r r'.
Proof.
  intros E. unfold r_next. destruct (rpending r); rewrite E; cbn [skip_intr]; eexists; (split; [reflexivity|]); repeat split; cbn; auto.
Qed.

Lemma r6rs_str_io_unfold f scratch r :
  r6rs_str_io (S f) scratch r =
  match r_next r with
  | (Ok (Some ch), r') =>
      if ch =? 34 then (Ok scratch, r')
      else if ch =? 92 then (e <- parse_r6rs_escape f ;; r6rs_str_io f (scratch ++ e)) r'
      else r6rs_str_io f (scratch ++ [ch]) r'
  | (Ok None, r') => error EofWhileParsingString r'
  | (Err e, r') => (Err e, r')
  end.
Proof.
  cbn [r6rs_str_io]. unfold next_or_eof, next_char. unfold bind at 1. unfold bind at 1.
  destruct (r_next r) as [[[ch|]|e] r']; try reflexivity. unfold ret. destruct (ch =? 34); [reflexivity|]. destruct (ch =? 92); reflexivity.
Qed.

Lemma r6rs_cross fi : forall fs scratch r1 r2, rel r1 r2 -> (fi <= fs)%nat ->
  xc2 (r6rs_str_slice fs scratch) (r6rs_str_io fi scratch) r1 r2.
Proof.
  induction fi as [|fi IH]; intros fs scratch r1 r2 H Hf; [left; reflexivity|]. destruct fs as [|fs]; [lia|].
  pose proof H as (K1 & K2 & Hl & Hc & Hi & Ha). unfold xc2. rewrite r6rs_str_io_unfold.
  destruct (rinput r2) as [|[ch| |e] l'] eqn:E.
  - destruct (next_io_nil r2 E) as (r2' & En & Hs). rewrite En. right.
    cbn [r6rs_str_slice]. rewrite Hi. cbn [span_plain].
    apply rr_error. eapply rel_same_place_l; [eapply rel_same_place_r; [exact H|exact Hs]|apply advance_over_nil; congruence].
  - rewrite (next_io_byte r2 ch l' ltac:(rewrite E; exact Ha) E).
    destruct (ch =? 34) eqn:E34.
    { right. cbn [r6rs_str_slice]. rewrite Hi. cbn [span_plain]. rewrite E34, Bool.orb_true_r. rewrite ?E34. rewrite app_nil_r. unfold ret. cbn [fst snd].
      split; [exact eq_refl|]. apply rel_consume; [|exact E].
      eapply rel_same_place_l; [exact H|apply advance_over_nil; congruence]. }
    destruct (ch =? 92) eqn:E92.
    { cbn [r6rs_str_slice]. rewrite Hi. cbn [span_plain]. rewrite E92. cbn [orb]. rewrite ?E34.
      assert (Hr : rel (consume (advance_over r1 [] (EByte ch :: l')) ch l') (consume r2 ch l')).
      { apply rel_consume; [|exact E]. eapply rel_same_place_l; [exact H|apply advance_over_nil; congruence]. }
      refine (xs2_bind _ _ _ _ (xs2_um _ _ (xs_parse_r6rs_escape fs) (um_parse_r6rs_escape fi fs ltac:(lia))) _ _ _ Hr).
      intros e r1' r2' Hr'. cbn [app]. apply IH; [exact Hr'|lia]. }
    rewrite (slice_r6rs_step fs scratch r1 ch l' ltac:(congruence) ltac:(rewrite E92, E34; reflexivity)).
    apply IH; [apply rel_consume; assumption|lia].
  - exfalso. inversion Ha as [|? ? H1 H2]. destruct H1.
  - exfalso. inversion Ha as [|? ? H1 H2]. destruct H1.
Qed.


Lemma xs2_finish (m1 m2 : M bytes) : xs2 m1 m2 -> xs2 (b <- m1 ;; finish_str b) (b <- m2 ;; Scan.as_str b).
Proof.
  intros H. apply xs2_bind; [exact H|]. intros b r1 r2 Hr. unfold xc2, finish_str. pose proof Hr as (K1 & _). rewrite K1.
  apply (xs_as_str b). exact Hr.
Qed.
Lemma xs_parse_r6rs_str_rd fuel : xs (parse_r6rs_str_rd fuel).
Proof.
  intros r1 r2 H. unfold xc, parse_r6rs_str_rd. pose proof H as (K1 & K2 & _). rewrite K1, K2.
  apply (xs2_finish _ _ (fun r1 r2 Hr => r6rs_cross fuel fuel [] r1 r2 Hr (le_n _))). exact H.
Qed.
#[export] Hint Resolve xs_parse_r6rs_str_rd : xdb.

(* Emacs Lisp strings *)
Definition fl_na (fl : elisp_flags) : elisp_flags := {| seen_ub := seen_ub fl; seen_mb := seen_mb fl; seen_na := true |}.

Lemma slice_elisp_step f fl scratch r ch l' : rinput r = EByte ch :: l' -> (ch =? 92) || (ch =? 34) = false ->
  elisp_str_slice (S f) fl scratch r =
  elisp_str_slice (S f) (if 127 <? ch then fl_na fl else fl) (scratch ++ [ch]) (consume r ch l').
Proof.
  intros E Ht. cbn [elisp_str_slice]. rewrite E. cbn [span_plain]. rewrite Ht.
  rewrite (span_plain_split l' ([] ++ [ch])). cbn [app]. rewrite consume_input.
  destruct (span_plain l' []) as [m rest]. cbn [fst snd].
  rewrite (advance_over_cons r ch m l' rest E). cbn [existsb]. unfold fl_na.
  destruct rest as [|[b| |e] rest']; try reflexivity.
  replace (scratch ++ ch :: m) with ((scratch ++ [ch]) ++ m) by (rewrite <- app_assoc; reflexivity).
  destruct (b =? 34).
  { destruct (127 <? ch); destruct (existsb (fun b0 : N => 127 <? b0) m); reflexivity. }
  unfold bind. destruct (parse_elisp_escape f _) as [[x|er] r']; [|reflexivity].
  rewrite <- (app_assoc scratch [ch] (m ++ fst x)).
  destruct (127 <? ch); destruct (existsb (fun b0 : N => 127 <? b0) m); reflexivity.
Qed.

Lemma elisp_str_io_unfold f fl scratch r :
  elisp_str_io (S f) fl scratch r =
  match r_next r with
  | (Ok (Some ch), r') =>
      if ch =? 34 then elisp_finish fl scratch r'
      else if ch =? 92 then (x <- parse_elisp_escape f ;; elisp_str_io f (note_escape fl (snd x)) (scratch ++ fst x)) r'
      else elisp_str_io f (if 127 <? ch then fl_na fl else fl) (scratch ++ [ch]) r'
  | (Ok None, r') => error EofWhileParsingString r'
  | (Err e, r') => (Err e, r')
  end.
Proof.
  cbn [elisp_str_io]. unfold next_or_eof, next_char. unfold bind at 1. unfold bind at 1.
  destruct (r_next r) as [[[ch|]|e] r']; try reflexivity. unfold ret. destruct (ch =? 34); [reflexivity|]. destruct (ch =? 92); reflexivity.
Qed.

Lemma elisp_cross fi : forall fs fl scratch r1 r2, rel r1 r2 -> (fi <= fs)%nat ->
  xc2 (elisp_str_slice fs fl scratch) (elisp_str_io fi fl scratch) r1 r2.
Proof.
  induction fi as [|fi IH]; intros fs fl scratch r1 r2 H Hf; [left; reflexivity|]. destruct fs as [|fs]; [lia|].
  pose proof H as (K1 & K2 & Hl & Hc & Hi & Ha). unfold xc2. rewrite elisp_str_io_unfold.
  destruct (rinput r2) as [|[ch| |e] l'] eqn:E.
  - destruct (next_io_nil r2 E) as (r2' & En & Hs). rewrite En. right.
    cbn [elisp_str_slice]. rewrite Hi. cbn [span_plain].
    apply rr_error. eapply rel_same_place_l; [eapply rel_same_place_r; [exact H|exact Hs]|apply advance_over_nil; congruence].
  - rewrite (next_io_byte r2 ch l' ltac:(rewrite E; exact Ha) E).
    assert (Hr : rel (consume (advance_over r1 [] (EByte ch :: l')) ch l') (consume r2 ch l')).
    { apply rel_consume; [|exact E]. eapply rel_same_place_l; [exact H|apply advance_over_nil; congruence]. }
    destruct (ch =? 34) eqn:E34.
    { cbn [elisp_str_slice]. rewrite Hi. cbn [span_plain]. rewrite E34, Bool.orb_true_r. rewrite ?E34. cbn [existsb]. rewrite app_nil_r.
      apply (xs_elisp_finish fl scratch). exact Hr. }
    destruct (ch =? 92) eqn:E92.
    { cbn [elisp_str_slice]. rewrite Hi. cbn [span_plain]. rewrite E92. cbn [orb]. rewrite ?E34. cbn [existsb].
      refine (xs2_bind _ _ _ _ (xs2_um _ _ (xs_parse_elisp_escape fs) (um_parse_elisp_escape fi fs ltac:(lia))) _ _ _ Hr).
      intros x r1' r2' Hr'. cbn [app]. apply IH; [exact Hr'|lia]. }
    rewrite (slice_elisp_step fs fl scratch r1 ch l' ltac:(congruence) ltac:(rewrite E92, E34; reflexivity)).
    apply IH; [apply rel_consume; assumption|lia].
  - exfalso. inversion Ha as [|? ? H1 H2]. destruct H1.
  - exfalso. inversion Ha as [|? ? H1 H2]. destruct H1.
Qed.
Lemma xs_parse_elisp_str_rd fuel : xs (parse_elisp_str_rd fuel).
Proof.
  intros r1 r2 H. unfold xc, parse_elisp_str_rd. cbv zeta. pose proof H as (K1 & K2 & _). rewrite K1, K2.
  apply (elisp_cross fuel fuel _ [] r1 r2 H (le_n _)).
Qed.
#[export] Hint Resolve xs_parse_elisp_str_rd : xdb.

(* ---- numbers: the same code on both sides ---- *)
Section NumCross.
  Variable fast : bool.
  Variable std_parse : N -> Z -> f64.

  Lemma xs_fast_loop fuel : forall f e, xs (f64_from_parts_fast_loop fuel f e).
  Proof. induction fuel as [|k IH]; intros f e; cbn [f64_from_parts_fast_loop]; xs_auto. Qed.
  Lemma xs_f64_from_parts pos sig e : xs (f64_from_parts fast std_parse pos sig e).
  Proof. pose proof xs_fast_loop. unfold f64_from_parts. cbv zeta. xs_auto. Qed.
  Hint Resolve xs_f64_from_parts : xdb.
  Lemma xs_skip_digits fuel : xs (skip_digits fuel).
  Proof. induction fuel as [|f IH]; cbn [skip_digits]; [apply xs_fuel|]. xs_pon; xs_auto. Qed.
  Hint Resolve xs_skip_digits : xdb.
  Lemma xs_parse_exponent_overflow fuel p s pe : xs (parse_exponent_overflow fuel p s pe).
  Proof. unfold parse_exponent_overflow. xs_auto. Qed.
  Hint Resolve xs_parse_exponent_overflow : xdb.
  Lemma xs_exponent_digits fuel : forall p s pe se e, xs (exponent_digits fast std_parse fuel p s pe se e).
  Proof. induction fuel as [|f IH]; intros p s pe se e; cbn [exponent_digits]; cbv zeta; [apply xs_fuel|]. xs_pon; xs_auto. Qed.
  Hint Resolve xs_exponent_digits : xdb.
  Lemma xsat_parse_exponent fuel p s se b : xsat b (parse_exponent fast std_parse fuel p s se).
  Proof.
    unfold parse_exponent. apply xsat_bind_eat. xs_pon.
    - apply xs_bind; [apply xs_ret|intros pe]. xs_auto.
    - apply xsat_bind; [|intros pe; xs_auto]. xs_auto.
  Qed.
  Hint Resolve xsat_parse_exponent : xdb.
  Lemma xs_decimal_digits fuel : forall s e o, xs (decimal_digits fuel s e o).
  Proof. induction fuel as [|f IH]; intros s e o; cbn [decimal_digits]; cbv zeta; [apply xs_fuel|]. xs_pon; xs_auto. Qed.
  Hint Resolve xs_decimal_digits : xdb.
  Lemma xsat_parse_decimal fuel p s e b : xsat b (parse_decimal fast std_parse fuel p s e).
  Proof. unfold parse_decimal. apply xsat_bind_eat. apply xs_bind; [apply xs_decimal_digits|]. intros [[sig ex] one]. xs_auto. Qed.
  Hint Resolve xsat_parse_decimal : xdb.
  Lemma xs_parse_long_integer fuel : forall radix p s e, xs (parse_long_integer fast std_parse fuel radix p s e).
  Proof. induction fuel as [|f IH]; intros radix p s e; cbn [parse_long_integer]; cbv zeta; [apply xs_fuel|]. xs_pon; xs_auto. Qed.
  Hint Resolve xs_parse_long_integer : xdb.
  Lemma xs_parse_num_tail fuel radix p s : xs (parse_num_tail fast std_parse fuel radix p s).
  Proof. unfold parse_num_tail. xs_pon; xs_auto. Qed.
  Hint Resolve xs_parse_num_tail : xdb.
  Lemma xs_num_literal_loop fuel : forall radix p s, xs (num_literal_loop fast std_parse fuel radix p s).
  Proof. induction fuel as [|f IH]; intros radix p s; cbn [num_literal_loop]; [apply xs_fuel|]. xs_pon; xs_auto. Qed.
  Hint Resolve xs_num_literal_loop : xdb.
  Lemma xs_parse_num_literal fuel radix p : xs (parse_num_literal fast std_parse fuel radix p).
  Proof. unfold parse_num_literal. xs_auto. Qed.
  Hint Resolve xs_parse_num_literal : xdb.
End NumCross.
#[export] Hint Resolve xs_f64_from_parts xs_skip_digits xs_parse_exponent_overflow xs_exponent_digits xsat_parse_exponent
  xs_decimal_digits xsat_parse_decimal xs_parse_long_integer xs_parse_num_tail xs_num_literal_loop xs_parse_num_literal : xdb.

(* ---- tokens ---- *)
Section TokenCross.
  Variable ro : parse_options.
  Variable alpha : N -> bool.
  Variable fast : bool.
  Variable std_parse : N -> Z -> f64.

  Lemma xs_parse_num_token fuel radix p : xs (parse_num_token fast std_parse fuel radix p).
  Proof. unfold parse_num_token. xs_auto. Qed.
  Hint Resolve xs_parse_num_token : xdb.
  Lemma xs_parse_radix_literal fuel radix : xs (parse_radix_literal fast std_parse fuel radix).
  Proof. unfold parse_radix_literal. xs_pon; xs_auto. Qed.
  Hint Resolve xs_parse_radix_literal : xdb.
  Lemma xs_parse_number fuel : xs (parse_number fast std_parse fuel).
  Proof. unfold parse_number. xs_pon; xs_auto. Qed.
  Hint Resolve xs_parse_number : xdb.

  Lemma xs_skip_comment fuel : xs (skip_comment fuel).
  Proof. induction fuel as [|f IH]; cbn [skip_comment]; xs_auto. Qed.
  Hint Resolve xs_skip_comment : xdb.
  Lemma xs_parse_whitespace fuel : xs (parse_whitespace fuel).
  Proof. induction fuel as [|f IH]; cbn [parse_whitespace]; xs_auto. Qed.
  Hint Resolve xs_parse_whitespace : xdb.
  Lemma xs_parse_symbol fuel : xs (parse_symbol fuel).
  Proof. unfold parse_symbol. xs_auto. Qed.
  Lemma xs_parse_symbol_suffix fuel p : xs (parse_symbol_suffix fuel p).
  Proof. unfold parse_symbol_suffix. xs_auto. Qed.
  Hint Resolve xs_parse_symbol xs_parse_symbol_suffix : xdb.
  Lemma xs_expect_ident ident : xs (expect_ident ident).
  Proof. induction ident as [|c ident IH]; cbn [expect_ident]; xs_auto. Qed.
  Hint Resolve xs_expect_ident : xdb.

  Lemma xsat_parse_token fuel b : xsat b (parse_token ro alpha fast std_parse fuel b).
  Proof. unfold parse_token. fold (@error_consume token ExpectedSomeValue). xs_auto. Qed.

  (* whitespace stops on a pending byte: the steps right after it may discard *)
  Lemma xs_bind_ws {A} fuel (k : option N -> M A) :
    xs (k None) -> (forall b, xsat b (k (Some b))) -> xs (bind (parse_whitespace fuel) k).
  Proof.
    intros Hn Hs r1 r2 H. unfold xc, bind. pose proof (ws_at_byte fuel r2) as Hb.
    destruct (xs_parse_whitespace fuel r1 r2 H) as [E|[E Hr]].
    - left. destruct (parse_whitespace fuel r2) as [[a|e] r2']; cbn [fst] in E; [discriminate|]. inversion E. reflexivity.
    - destruct (parse_whitespace fuel r1) as [[a1|e1] r1']; destruct (parse_whitespace fuel r2) as [[a2|e2] r2']; cbn [fst snd rres] in *; try contradiction.
      + subst a2. destruct a1 as [b|]; [apply Hs; assumption|apply Hn; exact Hr].
      + right. split; [exact E|exact Hr].
  Qed.
  Lemma xs_end_seq fuel close : xs (end_seq fuel close).
  Proof. unfold end_seq. apply xs_bind_ws; [xs_auto|intros b; xs_auto]. Qed.
  Lemma xs_expect_end fuel : xs (expect_end fuel).
  Proof. unfold expect_end. xs_auto. Qed.
  Lemma xs_byte_list_loop fuel : forall close acc, xs (byte_list_loop fast std_parse fuel close acc).
  Proof.
    induction fuel as [|f IH]; intros close acc; cbn [byte_list_loop]; [apply xs_fuel|].
    apply xs_bind_ws; [xs_auto|intros b; xs_auto].
  Qed.
  Lemma xs_parse_byte_list fuel close : xs (parse_byte_list fast std_parse fuel close).
  Proof. pose proof xs_byte_list_loop. unfold parse_byte_list. apply xs_bind_ws; [xs_auto|intros b; xs_auto]. Qed.
End TokenCross.

(* ---- the parser proper ---- *)
Definition prel (s1 s2 : pstate) : Prop := rel (rd s1) (rd s2) /\ depth s1 = depth s2.
Definition rpres {A} (RA : A -> A -> Prop) (x1 x2 : pres A) : Prop :=
  match x1, x2 with
  | POk a, POk b => RA a b
  | PErr (XErr e1), PErr (XErr e2) => rerr e1 e2
  | PErr (XPanic k1), PErr (XPanic k2) => k1 = k2
  | _, _ => False
  end.
Definition pxc {A} (RA : A -> A -> Prop) (m1 m2 : PM A) (s1 s2 : pstate) : Prop :=
  fst (m2 s2) = PErr (XErr EFuel) \/ (rpres RA (fst (m1 s1)) (fst (m2 s2)) /\ prel (snd (m1 s1)) (snd (m2 s2))).
Definition pxsR {A} (RA : A -> A -> Prop) (m1 m2 : PM A) : Prop := forall s1 s2, prel s1 s2 -> pxc RA m1 m2 s1 s2.
Definition pxs {A} (m : PM A) : Prop := pxsR eq m m.
Definition pxsat {A} (b : N) (m : PM A) : Prop := forall s1 s2, prel s1 s2 -> at_byte b (rd s2) -> pxc eq m m s1 s2.

Lemma pxsat_weaken {A} b (m : PM A) : pxs m -> pxsat b m.
Proof. intros H s1 s2 Hs _. apply H. exact Hs. Qed.
Lemma pxs_pret {A} (a : A) : pxs (pret a).
Proof. intros s1 s2 H. right. split; [reflexivity|exact H]. Qed.
Lemma pxs_panic {A} k : pxs (@panic A k).
Proof. intros s1 s2 H. right. split; [reflexivity|exact H]. Qed.
Lemma pxs_fuel {A} : pxs (@pfail A (XErr EFuel)).
Proof. intros s1 s2 H. left. reflexivity. Qed.

Lemma pxs_liftR {A} (m : M A) : xs m -> pxs (liftR m).
Proof.
  intros Hm s1 s2 [Hr Hd]. unfold pxc, liftR. destruct (Hm (rd s1) (rd s2) Hr) as [E|[E Hr']].
  - left. destruct (m (rd s2)) as [[a|e] r2']; cbn [fst] in *; [discriminate|]. inversion E. reflexivity.
  - right. destruct (m (rd s1)) as [[a1|e1] r1']; destruct (m (rd s2)) as [[a2|e2] r2']; cbn [fst snd rres rpres] in *; try contradiction;
      (split; [exact E|split; [exact Hr'|exact Hd]]).
Qed.
Lemma pxsat_liftR {A} b (m : M A) : xsat b m -> pxsat b (liftR m).
Proof.
  intros Hm s1 s2 [Hr Hd] Hb. unfold pxc, liftR. destruct (Hm (rd s1) (rd s2) Hr Hb) as [E|[E Hr']].
  - left. destruct (m (rd s2)) as [[a|e] r2']; cbn [fst] in *; [discriminate|]. inversion E. reflexivity.
  - right. destruct (m (rd s1)) as [[a1|e1] r1']; destruct (m (rd s2)) as [[a2|e2] r2']; cbn [fst snd rres rpres] in *; try contradiction;
      (split; [exact E|split; [exact Hr'|exact Hd]]).
Qed.

(* sequencing, with a relation on what is handed on *)
Lemma pxc_bindR {A B} (RA : A -> A -> Prop) (RB : B -> B -> Prop) (m1 m2 : PM A) (f1 f2 : A -> PM B) s1 s2 :
  pxc RA m1 m2 s1 s2 -> (forall a1 a2, RA a1 a2 -> pxsR RB (f1 a1) (f2 a2)) -> pxc RB (pbind m1 f1) (pbind m2 f2) s1 s2.
Proof.
  intros Hm Hf. unfold pxc. rewrite !pbind_unfold. destruct Hm as [E|[E Hr]].
  - left. destruct (m2 s2) as [[a|e] s2']; cbn [fst] in *; [discriminate|]. inversion E. reflexivity.
  - destruct (m1 s1) as [[a1|[e1|k1]] s1']; destruct (m2 s2) as [[a2|[e2|k2]] s2']; cbn [fst snd rpres] in *; try contradiction.
    + apply (Hf a1 a2 E). exact Hr.
    + right. split; [exact E|exact Hr].
    + right. split; [exact E|exact Hr].
Qed.
Lemma pxs_bindR {A B} (RA : A -> A -> Prop) (RB : B -> B -> Prop) (m1 m2 : PM A) (f1 f2 : A -> PM B) :
  pxsR RA m1 m2 -> (forall a1 a2, RA a1 a2 -> pxsR RB (f1 a1) (f2 a2)) -> pxsR RB (pbind m1 f1) (pbind m2 f2).
Proof. intros Hm Hf s1 s2 H. apply (pxc_bindR RA RB); [apply Hm; exact H|exact Hf]. Qed.
Lemma pxs_bind {A B} (m : PM A) (f : A -> PM B) : pxs m -> (forall a, pxs (f a)) -> pxs (pbind m f).
Proof. intros Hm Hf. apply (pxs_bindR eq eq); [exact Hm|]. intros a1 a2 ->. apply Hf. Qed.
Lemma pxsat_bind {A B} b (m : PM A) (f : A -> PM B) : pxsat b m -> (forall a, pxs (f a)) -> pxsat b (pbind m f).
Proof. intros Hm Hf s1 s2 H Hb. apply (pxc_bindR eq eq); [apply Hm; assumption|]. intros a1 a2 ->. apply Hf. Qed.

Lemma pxs_get_depth : pxs get_depth.
Proof. intros s1 s2 [Hr Hd]. right. unfold get_depth. cbn [fst snd rpres]. split; [exact Hd|split; assumption]. Qed.
Lemma pxs_set_depth d : pxs (set_depth d).
Proof. intros s1 s2 [Hr Hd]. right. unfold set_depth. cbn [fst snd rpres rd depth]. split; [reflexivity|split; [exact Hr|reflexivity]]. Qed.
Lemma pxs_dec_depth : pxs dec_depth.
Proof. unfold dec_depth. apply pxs_bind; [apply pxs_get_depth|]. intros d. destruct (d =? 0); [apply pxs_panic|apply pxs_set_depth]. Qed.
Lemma pxs_inc_depth : pxs inc_depth.
Proof. unfold inc_depth. apply pxs_bind; [apply pxs_get_depth|]. intros d. destruct (255 <=? d); [apply pxs_panic|apply pxs_set_depth]. Qed.
Lemma pxs_err {A} c : pxs (liftR (@peek_error A c)).
Proof. apply pxs_liftR. apply xs_peek_error. Qed.
Lemma pxs_enter_nesting : pxs enter_nesting.
Proof.
  unfold enter_nesting. apply pxs_bind; [apply pxs_dec_depth|]. intros _. apply pxs_bind; [apply pxs_get_depth|]. intros d.
  destruct (d =? 0); [|apply pxs_pret]. apply pxs_bind; [apply pxs_inc_depth|]. intros _. apply pxs_err.
Qed.

(* error recovery: what attempt hands on is the same value or errors with the same code *)
Lemma pxs_attempt {A} (m : PM A) : pxs m -> pxsR rres (attempt m) (attempt m).
Proof.
  intros Hm s1 s2 H. unfold pxc. rewrite !attempt_unfold. destruct (Hm s1 s2 H) as [E|[E Hr]].
  - left. destruct (m s2) as [[a|[e|k]] s2']; cbn [fst] in *; try discriminate. inversion E. reflexivity.
  - destruct (m s1) as [[a1|[e1|k1]] s1']; destruct (m s2) as [[a2|[e2|k2]] s2']; cbn [fst snd rpres] in *; try contradiction.
    + right. split; [exact E|exact Hr].
    + destruct e1 as [c1 l1 cl1|io1|]; destruct e2 as [c2 l2 cl2|io2|]; cbn [rerr] in E; try contradiction;
        right; cbn [fst snd rpres rres rerr]; (split; [exact E|exact Hr]).
    + right. split; [exact E|exact Hr].
Qed.
Lemma pxs_both {A} (r1 r2 : res A) (e1 e2 : res unit) : rres r1 r2 -> rres e1 e2 -> pxsR eq (both r1 e1) (both r2 e2).
Proof.
  intros Hr He s1 s2 H. right.
  destruct r1 as [a1|x1]; destruct r2 as [a2|x2]; cbn [rres] in Hr; try contradiction;
    destruct e1 as [u1|y1]; destruct e2 as [u2|y2]; cbn [rres] in He; try contradiction;
      cbn [both pret pfail fst snd rpres]; (split; [assumption|exact H]).
Qed.
Lemma pxs_lift {A} (r1 r2 : res A) : rres r1 r2 -> pxsR eq (lift r1) (lift r2).
Proof.
  intros Hr s1 s2 H. right. destruct r1 as [a1|x1]; destruct r2 as [a2|x2]; cbn [rres] in Hr; try contradiction;
    cbn [lift pret pfail fst snd rpres]; (split; [assumption|exact H]).
Qed.

Lemma pxs_nest_seq {A B} (body : PM A) (endm : M unit) (k : A -> PM B) :
  pxs body -> xs endm -> (forall a, pxs (k a)) ->
  pxs (pbind (attempt body) (fun r =>
       pbind inc_depth (fun _ =>
       pbind (attempt (liftR endm)) (fun e =>
       pbind (both r e) k)))).
Proof.
  intros Hb He Hk. apply (pxs_bindR rres eq); [apply pxs_attempt; exact Hb|]. intros r1 r2 Hr.
  apply (pxs_bindR eq eq); [apply pxs_inc_depth|]. intros u1 u2 _.
  apply (pxs_bindR rres eq); [apply pxs_attempt; apply pxs_liftR; exact He|]. intros e1 e2 Hee.
  apply (pxs_bindR eq eq); [apply pxs_both; assumption|]. intros a1 a2 ->. apply Hk.
Qed.
Lemma pxs_nest_quote {A B} (body : PM A) (k : A -> PM B) :
  pxs body -> (forall a, pxs (k a)) ->
  pxs (pbind (attempt body) (fun r => pbind inc_depth (fun _ => pbind (lift r) k))).
Proof.
  intros Hb Hk. apply (pxs_bindR rres eq); [apply pxs_attempt; exact Hb|]. intros r1 r2 Hr.
  apply (pxs_bindR eq eq); [apply pxs_inc_depth|]. intros u1 u2 _.
  apply (pxs_bindR eq eq); [apply pxs_lift; exact Hr|]. intros a1 a2 ->. apply Hk.
Qed.

Lemma pxs_bind_ws {A} fuel (k : option N -> PM A) :
  pxs (k None) -> (forall b, pxsat b (k (Some b))) -> pxs (pbind (liftR (parse_whitespace fuel)) k).
Proof.
  intros Hn Hs s1 s2 H. unfold pxc. rewrite !pbind_unfold. unfold liftR. destruct H as [Hr Hd].
  pose proof (ws_at_byte fuel (rd s2)) as Hb.
  destruct (xs_parse_whitespace fuel (rd s1) (rd s2) Hr) as [E|[E Hr']].
  - left. destruct (parse_whitespace fuel (rd s2)) as [[a|e] r2']; cbn [fst] in *; [discriminate|]. inversion E. reflexivity.
  - destruct (parse_whitespace fuel (rd s1)) as [[a1|e1] r1']; destruct (parse_whitespace fuel (rd s2)) as [[a2|e2] r2']; cbn [fst snd rres] in *; try contradiction.
    + subst a2. destruct a1 as [b|].
      * apply Hs; [split; [exact Hr'|exact Hd]|exact Hb].
      * apply Hn. split; [exact Hr'|exact Hd].
    + right. cbn [fst snd rpres]. split; [exact E|split; [exact Hr'|exact Hd]].
Qed.
Lemma pxsat_bind_position {A} b (k : N * N -> PM A) : (forall p, pxsat b (k p)) -> pxsat b (pbind (liftR position) k).
Proof.
  intros Hk s1 s2 H Hb. unfold pxc. rewrite !pbind_unfold. unfold liftR, position, r_position.
  pose proof H as [(K1 & K2 & Hl & Hc & Hi & Ha) Hd]. rewrite Hl, Hc.
  destruct s1 as [r1 d1], s2 as [r2 d2]. cbn [rd depth] in *. apply (Hk (rline r2, rcol r2)); assumption.
Qed.
Lemma pxs_position_then {A} (k : N * N -> PM A) : (forall p, pxs (k p)) -> pxs (pbind (liftR position) k).
Proof. intros Hk. apply pxs_bind; [apply pxs_liftR; apply xs_position|exact Hk]. Qed.

Section ParserCross.
  Variable ro : parse_options.
  Variable alpha : N -> bool.
  Variable fast : bool.
  Variable std_parse : N -> Z -> f64.

  Local Notation next_value := (next_value ro alpha fast std_parse).
  Local Notation parse_list := (parse_list ro alpha fast std_parse).
  Local Notation parse_vector := (parse_vector ro alpha fast std_parse).
  Local Notation next_datum := (next_datum ro alpha fast std_parse).
  Local Notation parse_list_meta := (parse_list_meta ro alpha fast std_parse).
  Local Notation parse_vector_meta := (parse_vector_meta ro alpha fast std_parse).
  Local Notation parse_token := (parse_token ro alpha fast std_parse).

  Lemma pxsat_token {A} fuel b (k : token -> PM A) : (forall tok, pxs (k tok)) -> pxsat b (pbind (liftR (parse_token fuel b)) k).
  Proof. intros Hk. apply pxsat_bind; [apply pxsat_liftR; apply xsat_parse_token|exact Hk]. Qed.
  Lemma pxsat_eat_peek {A} b (k : option N -> PM A) : (forall nx, pxs (k nx)) -> pxsat b (pbind (liftR (eat_char ;;; peek)) k).
  Proof. intros Hk. apply pxsat_bind; [apply pxsat_liftR; apply xsat_bind_eat; apply xs_peek|exact Hk]. Qed.

  Theorem cross_values fuel :
    pxs (next_value fuel) /\ (forall t acc, pxs (parse_list fuel t acc)) /\ (forall t acc, pxs (parse_vector fuel t acc)).
  Proof.
    induction fuel as [|f (IHv & IHl & IHvec)]; [repeat split; intros; apply pxs_fuel|].
    split; [|split].
    - cbn [Parser.next_value]. apply pxs_bind_ws; [apply pxs_pret|]. intros b. apply pxsat_token. intros tok.
      destruct tok; try apply pxs_pret.
      + apply pxs_bind; [apply pxs_enter_nesting|intros _].
        apply pxs_nest_seq; [apply IHl|apply xs_end_seq|intros l; apply pxs_pret].
      + apply pxs_bind; [apply pxs_enter_nesting|intros _].
        apply pxs_nest_quote; [exact IHv|]. intros o. destruct o; [apply pxs_pret|apply pxs_err].
      + apply pxs_bind; [apply pxs_enter_nesting|intros _].
        apply pxs_nest_seq; [apply IHvec|apply xs_end_seq|intros l; apply pxs_pret].
      + apply pxs_bind; [apply pxs_liftR; apply xs_parse_byte_list|intros; apply pxs_pret].
    - intros t acc. cbn [Parser.parse_list]. apply pxs_bind_ws; [apply pxs_err|]. intros c.
      destruct (is_closer c). { apply pxsat_weaken. destruct (negb (c =? t)); [apply pxs_err|apply pxs_pret]. }
      destruct (c =? 46).
      + apply pxsat_eat_peek. intros nx. destruct (lone_dot nx).
        * destruct acc as [|a0 acc'].
          -- apply pxs_bind; [apply pxs_liftR; apply xs_peek|]. intros o3. destruct o3; apply pxs_err.
          -- apply pxs_bind; [exact IHv|]. intros ov. destruct ov as [cdr|]; [|apply pxs_err].
             apply pxs_bind; [apply pxs_liftR; apply xs_parse_whitespace|]. intros o2.
             destruct o2 as [c2|]; [destruct (c2 =? t); [apply pxs_pret|apply pxs_err]|apply pxs_err].
        * apply pxs_bind; [apply pxs_liftR; apply xs_parse_symbol_suffix|]. intros name. apply IHl.
      + apply pxsat_weaken. apply pxs_bind; [exact IHv|]. intros ov. destruct ov; [apply IHl|apply pxs_err].
    - intros t acc. cbn [Parser.parse_vector]. apply pxs_bind_ws; [apply pxs_err|]. intros c.
      destruct (is_closer c). { apply pxsat_weaken. destruct (negb (c =? t)); [apply pxs_err|apply pxs_pret]. }
      apply pxsat_weaken. apply pxs_bind; [exact IHv|]. intros ov. destruct ov; [apply IHvec|apply pxs_err].
  Qed.

  Theorem cross_datums fuel :
    pxs (next_datum fuel) /\ (forall t acc, pxs (parse_list_meta fuel t acc)) /\ (forall t acc, pxs (parse_vector_meta fuel t acc)).
  Proof.
    induction fuel as [|f (IHv & IHl & IHvec)]; [repeat split; intros; apply pxs_fuel|].
    split; [|split].
    - cbn [Parser.next_datum]. apply pxs_bind_ws; [apply pxs_pret|]. intros b.
      apply pxsat_bind_position. intros start. apply pxsat_token. intros tok. cbv zeta.
      destruct tok; try (apply pxs_position_then; intros; apply pxs_pret).
      + apply pxs_bind; [apply pxs_enter_nesting|intros _].
        apply pxs_nest_seq; [apply IHl|apply xs_end_seq|]. intros l. apply pxs_position_then. intros; apply pxs_pret.
      + apply pxs_position_then. intros token_end. apply pxs_bind; [apply pxs_enter_nesting|intros _].
        apply pxs_nest_quote; [exact IHv|]. intros o. destruct o; [apply pxs_pret|apply pxs_err].
      + apply pxs_bind; [apply pxs_enter_nesting|intros _].
        apply pxs_nest_seq; [apply IHvec|apply xs_end_seq|]. intros l. apply pxs_position_then. intros; apply pxs_pret.
      + apply pxs_bind; [apply pxs_liftR; apply xs_parse_byte_list|]. intros. apply pxs_position_then. intros; apply pxs_pret.
    - intros t acc. cbn [Parser.parse_list_meta]. apply pxs_bind_ws; [apply pxs_err|]. intros c.
      destruct (is_closer c). { apply pxsat_weaken. destruct (negb (c =? t)); [apply pxs_err|apply pxs_pret]. }
      destruct (c =? 46).
      + apply pxsat_bind_position. intros start. apply pxsat_eat_peek. intros nx. destruct (lone_dot nx).
        * destruct acc as [|a0 acc'].
          -- apply pxs_bind; [apply pxs_liftR; apply xs_peek|]. intros o3. destruct o3; apply pxs_err.
          -- apply pxs_bind; [exact IHv|]. intros ov. destruct ov as [cdr|]; [|apply pxs_err].
             apply pxs_bind; [apply pxs_liftR; apply xs_parse_whitespace|]. intros o2.
             destruct o2 as [c2|]; [destruct (c2 =? t); [apply pxs_pret|apply pxs_err]|apply pxs_err].
        * apply pxs_bind; [apply pxs_liftR; apply xs_parse_symbol_suffix|]. intros name.
          apply pxs_position_then. intros e. apply IHl.
      + apply pxsat_weaken. apply pxs_bind; [exact IHv|]. intros ov. destruct ov; [apply IHl|apply pxs_err].
    - intros t acc. cbn [Parser.parse_vector_meta]. apply pxs_bind_ws; [apply pxs_err|]. intros c.
      destruct (is_closer c). { apply pxsat_weaken. destruct (negb (c =? t)); [apply pxs_err|apply pxs_pret]. }
      apply pxsat_weaken. apply pxs_bind; [exact IHv|]. intros ov. destruct ov; [apply IHvec|apply pxs_err].
  Qed.

  Lemma pxs_expect_value fuel : pxs (expect_value ro alpha fast std_parse fuel).
  Proof. unfold expect_value. apply pxs_bind; [apply cross_values|]. intros o. destruct o; [apply pxs_pret|apply pxs_err]. Qed.
  Lemma pxs_expect_datum fuel : pxs (expect_datum ro alpha fast std_parse fuel).
  Proof. unfold expect_datum. apply pxs_bind; [apply cross_datums|]. intros o. destruct o; [apply pxs_pret|apply pxs_err]. Qed.
  Lemma pxs_expect_end fuel : pxs (expect_end_p fuel).
  Proof. unfold expect_end_p. apply pxs_liftR. apply xs_expect_end. Qed.

  (* the two initial states *)
  Lemma init_prel (s : bytes) : prel (init_state SrcSlice (bytes_events s)) (init_state SrcIo (bytes_events s)).
  Proof.
    unfold prel, init_state, mk_reader, rel. cbn [rd depth rk rline rcol rinput]. repeat split.
    unfold allb, bytes_events. induction s as [|b s IH]; cbn [map]; constructor; [exact I|exact IH].
  Qed.

  Theorem from_trait_cross (s : bytes) :
    from_trait ro alpha fast std_parse SrcIo (bytes_events s) = PErr (XErr EFuel) \/
    rpres eq (from_trait ro alpha fast std_parse SrcSlice (bytes_events s)) (from_trait ro alpha fast std_parse SrcIo (bytes_events s)).
  Proof.
    unfold from_trait. cbv zeta.
    assert (H : pxs (pbind (expect_value ro alpha fast std_parse (fuel_for (bytes_events s)))
                       (fun v => pbind (expect_end_p (fuel_for (bytes_events s))) (fun _ => pret v)))).
    { apply pxs_bind; [apply pxs_expect_value|]. intros v. apply pxs_bind; [apply pxs_expect_end|intros; apply pxs_pret]. }
    destruct (H _ _ (init_prel s)) as [E|[E _]]; [left; exact E|right; exact E].
  Qed.
  Theorem datum_from_trait_cross (s : bytes) :
    datum_from_trait ro alpha fast std_parse SrcIo (bytes_events s) = PErr (XErr EFuel) \/
    rpres eq (datum_from_trait ro alpha fast std_parse SrcSlice (bytes_events s)) (datum_from_trait ro alpha fast std_parse SrcIo (bytes_events s)).
  Proof.
    unfold datum_from_trait. cbv zeta.
    assert (H : pxs (pbind (expect_datum ro alpha fast std_parse (fuel_for (bytes_events s)))
                       (fun v => pbind (expect_end_p (fuel_for (bytes_events s))) (fun _ => pret v)))).
    { apply pxs_bind; [apply pxs_expect_datum|]. intros v. apply pxs_bind; [apply pxs_expect_end|intros; apply pxs_pret]. }
    destruct (H _ _ (init_prel s)) as [E|[E _]]; [left; exact E|right; exact E].
  Qed.
End ParserCross.
