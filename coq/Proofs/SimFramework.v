(* The two-run companion of RelFramework: any relation between two readers that
   the reader primitives preserve while returning equal results is preserved,
   with equal results, by every scanner, number routine and token function, and
   by next_value / next_datum with their list and vector loops. Because the two
   runs return the same result at every step they take the same branches, so
   the error-recovery structure needs no special laws here. Instance: a stream
   with io::ErrorKind::Interrupted results interleaved anywhere reads exactly
   like the stream without them (C06). *)
From Coq Require Import SpecFloat.
Require Import Base Value Float PrintOptions ParseOptions Utf8 Reader Scan Num NumberOps Parser.
Require Import RelFramework.

Section SimM.
  Variable rel : reader -> reader -> Prop.
  Definition out2 {A} (r1 : reader) (x1 x2 : res A * reader) : Prop :=
    fst x1 = fst x2 /\ rel (snd x1) (snd x2) /\ rk (snd x1) = rk r1.
  Definition sim {A} (m : M A) : Prop := forall r1 r2, rel r1 r2 -> out2 r1 (m r1) (m r2).
  (* the same for readers that are not streams: SliceRead's bulk scans are only ever run on those *)
  Definition simS {A} (m : M A) : Prop := forall r1 r2, rel r1 r2 -> rk r1 <> SrcIo -> out2 r1 (m r1) (m r2).
  (* the two readers are both streams or both slices (a &str and the &[u8] of
     the same bytes may be related: StrSliceProofs) *)
  Hypothesis rel_io : forall r1 r2, rel r1 r2 -> (rk r1 = SrcIo <-> rk r2 = SrcIo).
  Definition same_kind : Prop := forall r1 r2, rel r1 r2 -> rk r1 = rk r2.
  Hypothesis sim_peek : sim peek.
  Hypothesis sim_next : sim next_char.
  Hypothesis sim_eat : sim eat_char.
  Hypothesis sim_error : forall A c, sim (@error A c).
  Hypothesis sim_peek_error : forall A c, sim (@peek_error A c).
  Hypothesis sim_error_consume : forall A c, sim (@error_consume A c).
  Hypothesis simS_take_run : simS take_run.
  Hypothesis simS_take_symbol : simS take_symbol_run.

  Lemma sim_ret {A} (a : A) : sim (ret a).
  Proof. intros r1 r2 H. split; [reflexivity|split; [exact H|reflexivity]]. Qed.

  Lemma sim_bind {A B} (m : M A) (f : A -> M B) : sim m -> (forall a, sim (f a)) -> sim (bind m f).
  Proof.
    intros Hm Hf r1 r2 H. unfold bind, out2. destruct (Hm r1 r2 H) as (E & Hr & Hk).
    destruct (m r1) as [[a|e] r1']; destruct (m r2) as [[a2|e2] r2']; cbn [fst snd] in *; try discriminate.
    - inversion E; subst a2. destruct (Hf a r1' r2' Hr) as (E2 & Hr2 & Hk2). repeat split; auto. congruence.
    - inversion E; subst e2. repeat split; auto.
  Qed.

  Lemma sim_out_of_fuel {A} : sim (@out_of_fuel A).
  Proof. intros r1 r2 H. split; [reflexivity|split; [exact H|reflexivity]]. Qed.

  Lemma sim_ext {A} (m m' : M A) : (forall r, m r = m' r) -> sim m' -> sim m.
  Proof. intros E H r1 r2 Hr. unfold out2. rewrite !E. apply H. exact Hr. Qed.

  Lemma sim_by_rk {A} (m : M A) (f : src_kind -> M A) : same_kind ->
    (forall r, m r = f (rk r) r) -> (forall k, sim (f k)) -> sim m.
  Proof. intros rel_rk E H r1 r2 Hr. unfold out2. rewrite !E. rewrite <- (rel_rk r1 r2 Hr). apply (H (rk r1)). exact Hr. Qed.

  Lemma simS_of_sim {A} (m : M A) : sim m -> simS m.
  Proof. intros H r1 r2 Hr _. apply H. exact Hr. Qed.
  Lemma simS_bind {A B} (m : M A) (f : A -> M B) : simS m -> (forall a, simS (f a)) -> simS (bind m f).
  Proof.
    intros Hm Hf r1 r2 H Hio. unfold bind, out2. destruct (Hm r1 r2 H Hio) as (E & Hr & Hk).
    destruct (m r1) as [[a|e] r1']; destruct (m r2) as [[a2|e2] r2']; cbn [fst snd] in *; try discriminate.
    - inversion E; subst a2. destruct (Hf a r1' r2' Hr ltac:(congruence)) as (E2 & Hr2 & Hk2). repeat split; auto. congruence.
    - inversion E; subst e2. repeat split; auto.
  Qed.
  Lemma simS_ext {A} (m m' : M A) : (forall r, m r = m' r) -> simS m' -> simS m.
  Proof. intros E H r1 r2 Hr Hio. unfold out2. rewrite !E. apply H; assumption. Qed.
  (* a Read method with a stream version and a slice version *)
  Lemma sim_by_kind {A} (m fio fsl : M A) :
    (forall r, m r = match rk r with SrcIo => fio r | _ => fsl r end) -> sim fio -> simS fsl -> sim m.
  Proof.
    intros E Hio Hsl r1 r2 Hr. rewrite !E. pose proof (rel_io r1 r2 Hr) as [Hk1 Hk2].
    destruct (rk r1) eqn:E1; destruct (rk r2) eqn:E2;
      try (discriminate (Hk1 eq_refl)); try (discriminate (Hk2 eq_refl));
      first [apply Hio; exact Hr | apply Hsl; [exact Hr|congruence]].
  Qed.

  Ltac sim_step :=
    first
      [ apply sim_ret | apply sim_out_of_fuel | apply sim_peek | apply sim_next | apply sim_eat
      | apply sim_error | apply sim_peek_error | apply sim_error_consume
      | assumption
      | apply sim_bind; [|intros ?]
      | match goal with
        | |- sim (match ?x with _ => _ end) => destruct x
        | |- sim (if ?x then _ else _) => destruct x
        | |- sim (let '(_, _) := ?x in _) => destruct x
        end ].
  Ltac sim_auto := repeat sim_step.

  Lemma sim_peek_or_null : sim peek_or_null.
  Proof. unfold peek_or_null. sim_auto. Qed.
  Lemma sim_next_or_eof : sim next_or_eof.
  Proof. unfold next_or_eof. sim_auto. Qed.
  Lemma sim_next_or_eof_char : sim next_or_eof_char.
  Proof. unfold next_or_eof_char. sim_auto. Qed.
  Lemma sim_as_str (b : bytes) : sim (Scan.as_str b).
  Proof. unfold Scan.as_str. sim_auto. Qed.
  (* the one place where a &str and a byte slice are treated differently *)
  Lemma sim_finish_str_same b : same_kind -> sim (finish_str b).
  Proof.
    intros rel_rk.
    apply (sim_by_rk _ (fun k => match k with SrcStr => ret b | _ => Scan.as_str b end) rel_rk);
      [intros r; unfold finish_str; destruct (rk r); reflexivity|].
    intros k; destruct k; first [apply sim_ret | apply sim_as_str].
  Qed.
  Hint Resolve sim_peek_or_null sim_next_or_eof sim_next_or_eof_char sim_as_str : sim.
  Ltac sim_auto' := repeat first [solve [auto with sim] | sim_step].
  Ltac simS_step :=
    first
      [ apply simS_take_run | apply simS_take_symbol | assumption | solve [auto]
      | apply simS_of_sim; solve [sim_auto']
      | apply simS_bind; [|intros ?]
      | match goal with
        | |- simS (match ?x with _ => _ end) => destruct x
        | |- simS (if ?x then _ else _) => destruct x
        | |- simS (let '(_, _) := ?x in _) => destruct x
        end ].
  Ltac simS_auto := repeat simS_step.

  (* ---- symbols ---- *)
  Lemma sim_scan_symbol_io fuel : forall scratch, sim (scan_symbol_io fuel scratch).
  Proof. induction fuel as [|f IH]; intros scratch; cbn [scan_symbol_io]; sim_auto'. Qed.
  Lemma sim_scan_symbol_slice scratch : simS (scan_symbol_slice scratch).
  Proof. eapply simS_ext; [intros r; apply scan_symbol_slice_eq|]. cbv zeta. simS_auto. Qed.
  Lemma sim_parse_symbol_rd_same fuel scratch : same_kind -> sim (parse_symbol_rd fuel scratch).
  Proof.
    intros rel_rk. pose proof (fun b => sim_finish_str_same b rel_rk) as Hfin.
    apply (sim_by_kind _ (b <- scan_symbol_io fuel scratch ;; Scan.as_str b) (b <- scan_symbol_slice scratch ;; finish_str b));
      [intros r; unfold parse_symbol_rd; destruct (rk r); reflexivity| |].
    - pose proof sim_scan_symbol_io. sim_auto'.
    - pose proof sim_scan_symbol_slice. simS_auto.
  Qed.
  (* between readers of different kinds this needs the input to be a str: a hypothesis here *)
  Hypothesis sim_parse_symbol_rd : forall fuel scratch, sim (parse_symbol_rd fuel scratch).
  Hint Resolve sim_parse_symbol_rd : sim.

  (* ---- strings ---- *)
  Lemma sim_hex_escape_loop fuel : forall n, sim (hex_escape_loop fuel n).
  Proof. induction fuel as [|f IH]; intros n; cbn [hex_escape_loop]; sim_auto'. Qed.
  Lemma sim_parse_r6rs_escape fuel : sim (parse_r6rs_escape fuel).
  Proof. pose proof sim_hex_escape_loop. unfold parse_r6rs_escape, decode_r6rs_hex_escape. sim_auto'. Qed.
  Hint Resolve sim_parse_r6rs_escape : sim.
  Lemma sim_r6rs_str_io fuel : forall scratch, sim (r6rs_str_io fuel scratch).
  Proof. induction fuel as [|f IH]; intros scratch; cbn [r6rs_str_io]; sim_auto'. Qed.
  Lemma sim_r6rs_str_slice fuel : forall scratch, simS (r6rs_str_slice fuel scratch).
  Proof.
    induction fuel as [|f IH]; intros scratch; [cbn [r6rs_str_slice]; simS_auto|].
    eapply simS_ext; [intros r; apply r6rs_str_slice_eq|]. simS_auto.
  Qed.
  Lemma sim_parse_r6rs_str_rd_same fuel : same_kind -> sim (parse_r6rs_str_rd fuel).
  Proof.
    intros rel_rk. pose proof (fun b => sim_finish_str_same b rel_rk) as Hfin.
    apply (sim_by_kind _ (b <- r6rs_str_io fuel [] ;; Scan.as_str b) (b <- r6rs_str_slice fuel [] ;; finish_str b));
      [intros r; unfold parse_r6rs_str_rd; destruct (rk r); reflexivity| |].
    - pose proof sim_r6rs_str_io. sim_auto'.
    - pose proof sim_r6rs_str_slice. simS_auto.
  Qed.
  Hypothesis sim_parse_r6rs_str_rd : forall fuel, sim (parse_r6rs_str_rd fuel).
  Hint Resolve sim_parse_r6rs_str_rd : sim.

  Lemma sim_elisp_hex_loop fuel : forall n, sim (elisp_hex_loop fuel n).
  Proof. induction fuel as [|f IH]; intros n; cbn [elisp_hex_loop]; sim_auto'. Qed.
  Lemma sim_decode_elisp_uni_escape k : forall n, sim (decode_elisp_uni_escape k n).
  Proof. induction k as [|k IH]; intros n; cbn [decode_elisp_uni_escape]; sim_auto'. Qed.
  Lemma sim_elisp_octal_loop fuel : forall n, sim (elisp_octal_loop fuel n).
  Proof. induction fuel as [|f IH]; intros n; cbn [elisp_octal_loop]; sim_auto'. Qed.
  Lemma sim_elisp_char_escape_of n : sim (elisp_char_escape_of n).
  Proof. unfold elisp_char_escape_of. sim_auto'. Qed.
  Lemma sim_elisp_uni_escape_of n : sim (elisp_uni_escape_of n).
  Proof. unfold elisp_uni_escape_of. sim_auto'. Qed.
  Lemma sim_parse_elisp_escape fuel : sim (parse_elisp_escape fuel).
  Proof.
    pose proof sim_elisp_hex_loop. pose proof sim_decode_elisp_uni_escape. pose proof sim_elisp_octal_loop.
    pose proof sim_elisp_char_escape_of. pose proof sim_elisp_uni_escape_of.
    unfold parse_elisp_escape, decode_elisp_hex_escape, decode_elisp_octal_escape. sim_auto'.
  Qed.
  Hint Resolve sim_parse_elisp_escape : sim.
  Lemma sim_elisp_finish fl scratch : sim (elisp_finish fl scratch).
  Proof. unfold elisp_finish. sim_auto'. Qed.
  Hint Resolve sim_elisp_finish : sim.
  Lemma sim_elisp_str_io fuel : forall fl scratch, sim (elisp_str_io fuel fl scratch).
  Proof. induction fuel as [|f IH]; intros fl scratch; cbn [elisp_str_io]; sim_auto'. Qed.
  Lemma sim_elisp_str_slice fuel : forall fl scratch, simS (elisp_str_slice fuel fl scratch).
  Proof.
    induction fuel as [|f IH]; intros fl scratch; [cbn [elisp_str_slice]; simS_auto|].
    eapply simS_ext; [intros r; apply elisp_str_slice_eq|]. cbv zeta. simS_auto.
  Qed.
  Lemma sim_parse_elisp_str_rd fuel : sim (parse_elisp_str_rd fuel).
  Proof.
    apply (sim_by_kind _ (elisp_str_io fuel {| seen_ub := false; seen_mb := false; seen_na := false |} [])
                         (elisp_str_slice fuel {| seen_ub := false; seen_mb := false; seen_na := false |} []));
      [intros r; unfold parse_elisp_str_rd; cbv zeta; destruct (rk r); reflexivity| |].
    - apply sim_elisp_str_io.
    - apply sim_elisp_str_slice.
  Qed.
  Hint Resolve sim_parse_elisp_str_rd : sim.

  (* ---- characters ---- *)
  Lemma sim_take_bytes k : forall acc, sim (take_bytes k acc).
  Proof. induction k as [|k IH]; intros acc; cbn [take_bytes]; sim_auto'. Qed.
  Lemma sim_decode_utf8_sequence_b c : sim (decode_utf8_sequence_b c).
  Proof. pose proof sim_take_bytes. unfold decode_utf8_sequence_b. sim_auto'. Qed.
  Hint Resolve sim_decode_utf8_sequence_b : sim.
  Lemma sim_decode_utf8_sequence c : sim (decode_utf8_sequence c).
  Proof. unfold decode_utf8_sequence. sim_auto'. Qed.
  Hint Resolve sim_decode_utf8_sequence : sim.
  Lemma sim_r6rs_char_hex_loop fuel : forall n first, sim (r6rs_char_hex_loop fuel n first).
  Proof. induction fuel as [|f IH]; intros n first; cbn [r6rs_char_hex_loop]; sim_auto'. Qed.
  Lemma sim_char_name_loop fuel : forall scratch, sim (char_name_loop fuel scratch).
  Proof. induction fuel as [|f IH]; intros scratch; cbn [char_name_loop]; sim_auto'. Qed.
  Lemma sim_open_ended_char n : sim (open_ended_char n).
  Proof. unfold open_ended_char. sim_auto'. Qed.
  Hint Resolve sim_open_ended_char : sim.
  Lemma sim_parse_r6rs_char fuel : sim (parse_r6rs_char fuel).
  Proof. pose proof sim_r6rs_char_hex_loop. pose proof sim_char_name_loop. unfold parse_r6rs_char. sim_auto'. Qed.
  Hint Resolve sim_parse_r6rs_char : sim.
  Lemma sim_as_char (n : N) : sim (Scan.as_char n).
  Proof. unfold Scan.as_char. sim_auto'. Qed.
  Hint Resolve sim_as_char : sim.
  Lemma sim_decode_elisp_char_escape fuel : sim (decode_elisp_char_escape fuel).
  Proof.
    pose proof sim_elisp_hex_loop. pose proof sim_decode_elisp_uni_escape. pose proof sim_elisp_octal_loop.
    unfold decode_elisp_char_escape, decode_elisp_hex_escape, decode_elisp_octal_escape. sim_auto'.
  Qed.
  Hint Resolve sim_decode_elisp_char_escape : sim.
  Lemma sim_parse_elisp_char fuel : sim (parse_elisp_char fuel).
  Proof. unfold parse_elisp_char. sim_auto'. Qed.
  Hint Resolve sim_parse_elisp_char : sim.

  (* ---- numbers ---- *)
  Variable fast : bool.
  Variable std_parse : N -> Z -> f64.
  Lemma sim_fast_loop fuel : forall f e, sim (f64_from_parts_fast_loop fuel f e).
  Proof. induction fuel as [|k IH]; intros f e; cbn [f64_from_parts_fast_loop]; sim_auto'. Qed.
  Lemma sim_f64_from_parts pos sig e : sim (f64_from_parts fast std_parse pos sig e).
  Proof. pose proof sim_fast_loop. unfold f64_from_parts. cbv zeta. sim_auto'. Qed.
  Hint Resolve sim_f64_from_parts : sim.
  Lemma sim_skip_digits fuel : sim (skip_digits fuel).
  Proof. induction fuel as [|f IH]; cbn [skip_digits]; sim_auto'. Qed.
  Hint Resolve sim_skip_digits : sim.
  Lemma sim_parse_exponent_overflow fuel p s pe : sim (parse_exponent_overflow fuel p s pe).
  Proof. unfold parse_exponent_overflow. sim_auto'. Qed.
  Hint Resolve sim_parse_exponent_overflow : sim.
  Lemma sim_exponent_digits fuel : forall p s pe se e, sim (exponent_digits fast std_parse fuel p s pe se e).
  Proof. induction fuel as [|f IH]; intros p s pe se e; cbn [exponent_digits]; cbv zeta; sim_auto'. Qed.
  Lemma sim_parse_exponent fuel p s se : sim (parse_exponent fast std_parse fuel p s se).
  Proof. pose proof sim_exponent_digits. unfold parse_exponent. sim_auto'. Qed.
  Hint Resolve sim_parse_exponent : sim.
  Lemma sim_decimal_digits fuel : forall s e o, sim (decimal_digits fuel s e o).
  Proof. induction fuel as [|f IH]; intros s e o; cbn [decimal_digits]; cbv zeta; sim_auto'. Qed.
  Lemma sim_parse_decimal fuel p s e : sim (parse_decimal fast std_parse fuel p s e).
  Proof. pose proof sim_decimal_digits. unfold parse_decimal. sim_auto'. Qed.
  Hint Resolve sim_parse_decimal : sim.
  Lemma sim_parse_long_integer fuel : forall radix p s e, sim (parse_long_integer fast std_parse fuel radix p s e).
  Proof. induction fuel as [|f IH]; intros radix p s e; cbn [parse_long_integer]; cbv zeta; sim_auto'. Qed.
  Hint Resolve sim_parse_long_integer : sim.
  Lemma sim_parse_num_tail fuel radix p s : sim (parse_num_tail fast std_parse fuel radix p s).
  Proof. unfold parse_num_tail. sim_auto'. Qed.
  Hint Resolve sim_parse_num_tail : sim.
  Lemma sim_num_literal_loop fuel : forall radix p s, sim (num_literal_loop fast std_parse fuel radix p s).
  Proof. induction fuel as [|f IH]; intros radix p s; cbn [num_literal_loop]; sim_auto'. Qed.
  Lemma sim_parse_num_literal fuel radix p : sim (parse_num_literal fast std_parse fuel radix p).
  Proof. pose proof sim_num_literal_loop. unfold parse_num_literal. sim_auto'. Qed.
  Hint Resolve sim_parse_num_literal : sim.

  (* ---- tokens ---- *)
  Variable ro : parse_options.
  Variable alpha : N -> bool.
  Lemma sim_skip_comment fuel : sim (skip_comment fuel).
  Proof. induction fuel as [|f IH]; cbn [skip_comment]; sim_auto'. Qed.
  Hint Resolve sim_skip_comment : sim.
  Lemma sim_parse_whitespace fuel : sim (parse_whitespace fuel).
  Proof. induction fuel as [|f IH]; cbn [parse_whitespace]; sim_auto'. Qed.
  Hint Resolve sim_parse_whitespace : sim.
  Lemma sim_parse_symbol fuel : sim (parse_symbol fuel).
  Proof. unfold parse_symbol. sim_auto'. Qed.
  Lemma sim_parse_symbol_suffix fuel p : sim (parse_symbol_suffix fuel p).
  Proof. unfold parse_symbol_suffix. sim_auto'. Qed.
  Hint Resolve sim_parse_symbol sim_parse_symbol_suffix : sim.
  Lemma sim_expect_ident ident : sim (expect_ident ident).
  Proof. induction ident as [|c ident IH]; cbn [expect_ident]; sim_auto'. Qed.
  Hint Resolve sim_expect_ident : sim.
  Lemma sim_parse_num_token fuel radix p : sim (parse_num_token fast std_parse fuel radix p).
  Proof. unfold parse_num_token. sim_auto'. Qed.
  Hint Resolve sim_parse_num_token : sim.
  Lemma sim_parse_radix_literal fuel radix : sim (parse_radix_literal fast std_parse fuel radix).
  Proof. unfold parse_radix_literal. sim_auto'. Qed.
  Hint Resolve sim_parse_radix_literal : sim.
  Lemma sim_parse_number fuel : sim (parse_number fast std_parse fuel).
  Proof. unfold parse_number. sim_auto'. Qed.
  Hint Resolve sim_parse_number : sim.
  Lemma sim_parse_token fuel b : sim (parse_token ro alpha fast std_parse fuel b).
  Proof.
    unfold parse_token. fold (@error_consume token ExpectedSomeValue). sim_auto'.
  Qed.
  Lemma sim_end_seq fuel close : sim (end_seq fuel close).
  Proof. unfold end_seq. sim_auto'. Qed.
  Lemma sim_expect_end fuel : sim (expect_end fuel).
  Proof. unfold expect_end. sim_auto'. Qed.
  Lemma sim_byte_list_loop fuel : forall close acc, sim (byte_list_loop fast std_parse fuel close acc).
  Proof. induction fuel as [|f IH]; intros close acc; cbn [byte_list_loop]; sim_auto'. Qed.
  Lemma sim_parse_byte_list fuel close : sim (parse_byte_list fast std_parse fuel close).
  Proof. pose proof sim_byte_list_loop. unfold parse_byte_list. sim_auto'. Qed.



  Lemma sim_position : sim position.
  Proof. intros r1 r2 H. unfold position, out2. cbn [fst snd]. split; [|split; [exact H|reflexivity]]. pose proof (sim_error token ExpectedSomeValue r1 r2 H) as [E _].
    unfold error in E. destruct (r_position r1), (r_position r2). cbn [fst] in E. inversion E. reflexivity. Qed.

  (* ---- the parser proper ---- *)
  Definition prel (s1 s2 : pstate) : Prop := rel (rd s1) (rd s2) /\ depth s1 = depth s2.
  Definition psim {A} (m : PM A) : Prop :=
    forall s1 s2, prel s1 s2 -> fst (m s1) = fst (m s2) /\ prel (snd (m s1)) (snd (m s2)).

  Lemma psim_pret {A} (a : A) : psim (pret a).
  Proof. intros s1 s2 H. split; [reflexivity|exact H]. Qed.
  Lemma psim_pfail {A} e : psim (@pfail A e).
  Proof. intros s1 s2 H. split; [reflexivity|exact H]. Qed.
  Lemma psim_panic {A} k : psim (@panic A k).
  Proof. intros s1 s2 H. split; [reflexivity|exact H]. Qed.
  Lemma psim_liftR {A} (m : M A) : sim m -> psim (liftR m).
  Proof.
    intros Hm s1 s2 [Hr Hd]. unfold liftR. destruct (Hm (rd s1) (rd s2) Hr) as (E & Hr' & _).
    destruct (m (rd s1)) as [[a|e] r1']; destruct (m (rd s2)) as [[a2|e2] r2']; cbn [fst snd] in *; try discriminate;
      inversion E; subst; (split; [reflexivity|split; [exact Hr'|exact Hd]]).
  Qed.
  Lemma psim_bind {A B} (m : PM A) (f : A -> PM B) : psim m -> (forall a, psim (f a)) -> psim (pbind m f).
  Proof.
    intros Hm Hf s1 s2 H. unfold pbind. destruct (Hm s1 s2 H) as [E Hr].
    destruct (m s1) as [[a|e] s1']; destruct (m s2) as [[a2|e2] s2']; cbn [fst snd] in *; try discriminate.
    - inversion E; subst a2. apply Hf. exact Hr.
    - inversion E; subst e2. split; [reflexivity|exact Hr].
  Qed.
  Lemma psim_get_depth : psim get_depth.
  Proof. intros s1 s2 [Hr Hd]. unfold get_depth. cbn [fst snd]. rewrite Hd. split; [reflexivity|split; assumption]. Qed.
  Lemma psim_set_depth d : psim (set_depth d).
  Proof. intros s1 s2 [Hr Hd]. unfold set_depth. cbn [fst snd rd depth]. split; [reflexivity|split; [exact Hr|reflexivity]]. Qed.
  Lemma psim_attempt {A} (m : PM A) : psim m -> psim (attempt m).
  Proof.
    intros Hm s1 s2 H. unfold attempt. destruct (Hm s1 s2 H) as [E Hr].
    destruct (m s1) as [[a|[e|k]] s1']; destruct (m s2) as [[a2|[e2|k2]] s2']; cbn [fst snd] in *; try discriminate;
      inversion E; subst; try (split; [reflexivity|exact Hr]).
    destruct e2; (split; [reflexivity|exact Hr]).
  Qed.
  Lemma psim_both {A} (r : res A) (e : res unit) : psim (both r e).
  Proof. destruct r; destruct e; cbn [both]; first [apply psim_pret|apply psim_pfail]. Qed.
  Lemma psim_lift {A} (r : res A) : psim (lift r).
  Proof. destruct r; cbn [lift]; first [apply psim_pret|apply psim_pfail]. Qed.

  Ltac psim_step :=
    first
      [ apply psim_pret | apply psim_pfail | apply psim_panic | apply psim_get_depth | apply psim_set_depth
      | apply psim_both | apply psim_lift
      | assumption
      | apply psim_liftR; solve [auto with sim | apply sim_position | apply sim_peek_error | apply sim_peek
                                 | apply sim_parse_token | apply sim_end_seq | apply sim_parse_byte_list | apply sim_expect_end
                                 | apply sim_bind; [apply sim_eat|intros ?; apply sim_peek] ]
      | apply psim_attempt
      | apply psim_bind; [|intros ?]
      | match goal with
        | |- psim (match ?x with _ => _ end) => destruct x
        | |- psim (if ?x then _ else _) => destruct x
        | |- psim (let '(_, _) := ?x in _) => destruct x
        end ].
  Ltac psim_auto := repeat psim_step.

  Lemma psim_dec_depth : psim dec_depth.
  Proof. unfold dec_depth. psim_auto. Qed.
  Lemma psim_inc_depth : psim inc_depth.
  Proof. unfold inc_depth. psim_auto. Qed.
  Lemma psim_enter_nesting : psim enter_nesting.
  Proof. pose proof psim_dec_depth. pose proof psim_inc_depth. unfold enter_nesting. psim_auto. Qed.

  Local Notation next_value := (next_value ro alpha fast std_parse).
  Local Notation parse_list := (parse_list ro alpha fast std_parse).
  Local Notation parse_vector := (parse_vector ro alpha fast std_parse).
  Local Notation next_datum := (next_datum ro alpha fast std_parse).
  Local Notation parse_list_meta := (parse_list_meta ro alpha fast std_parse).
  Local Notation parse_vector_meta := (parse_vector_meta ro alpha fast std_parse).

  Theorem psim_values fuel :
    psim (next_value fuel) /\ (forall t acc, psim (parse_list fuel t acc)) /\ (forall t acc, psim (parse_vector fuel t acc)).
  Proof.
    pose proof psim_enter_nesting. pose proof psim_inc_depth.
    induction fuel as [|f (IHv & IHl & IHvec)].
    - split; [|split]; intros; cbn [Parser.next_value Parser.parse_list Parser.parse_vector]; apply psim_pfail.
    - split; [|split]; intros; cbn [Parser.next_value Parser.parse_list Parser.parse_vector]; psim_auto; auto.
  Qed.

  Theorem psim_datums fuel :
    psim (next_datum fuel) /\ (forall t acc, psim (parse_list_meta fuel t acc)) /\
    (forall t acc, psim (parse_vector_meta fuel t acc)).
  Proof.
    pose proof psim_enter_nesting. pose proof psim_inc_depth.
    induction fuel as [|f (IHv & IHl & IHvec)].
    - split; [|split]; intros; cbn [Parser.next_datum Parser.parse_list_meta Parser.parse_vector_meta]; apply psim_pfail.
    - split; [|split]; intros; cbn [Parser.next_datum Parser.parse_list_meta Parser.parse_vector_meta]; cbv zeta; psim_auto; auto.
  Qed.

  Theorem psim_expect_value fuel : psim (expect_value ro alpha fast std_parse fuel).
  Proof. pose proof (proj1 (psim_values fuel)). unfold expect_value. psim_auto. Qed.
  Theorem psim_expect_datum fuel : psim (expect_datum ro alpha fast std_parse fuel).
  Proof. pose proof (proj1 (psim_datums fuel)). unfold expect_datum. psim_auto. Qed.
  Theorem psim_expect_end fuel : psim (expect_end_p fuel).
  Proof. unfold expect_end_p. psim_auto. Qed.
End SimM.
