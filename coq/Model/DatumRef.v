(* datum.rs: Ref, the accessors that walk a value and its span information in
   lockstep (list_iter with its ListCursor state machine, vector_iter, as_pair).
   The unreachable!() / expect() in as_pair and ListIter::next are an explicit
   Panic outcome. *)
Require Import Base Value Parser ListOps.

Inductive outcome (A : Type) := Val (a : A) | Panic.
Arguments Val {A} a.
Arguments Panic {A}.

(* Ref { value, info } *)
Definition dref := (value * span_info)%type.
Definition datum_ref (d : datum) : dref := (dvalue d, dinfo d).
Definition ref_span (r : dref) : span := info_span (snd r).
Definition ref_value (r : dref) : value := fst r.

(* ListCursor *)
Inductive ref_cursor :=
| RCons (a d : value) (ia id : span_info)
| RDot (v : value) (i : span_info)
| RRest (v : value) (i : span_info)
| RExhausted.

(* Ref::list_iter *)
Definition ref_list_iter (r : dref) : option ref_cursor :=
  match r with
  | (Cons a d, SCons _ ia id) => Some (RCons a d ia id)
  | (Null, _) => Some RExhausted
  | _ => None
  end.

(* ListIter::next *)
Definition ref_list_next (c : ref_cursor) : outcome (option dref * ref_cursor) :=
  match c with
  | RCons a d ia id =>
      match id with
      | SCons _ ia' id' =>
          match d with
          | Cons a' d' => Val (Some (a, ia), RCons a' d' ia' id')
          | _ => Panic                                   (* .expect("badly shaped list span information") *)
          end
      | SPrim _ => if is_null d then Val (Some (a, ia), RExhausted) else Val (Some (a, ia), RDot d id)
      | SVec _ _ => Val (Some (a, ia), RDot d id)
      end
  | RDot v i => Val (None, RRest v i)
  | RRest v i => Val (Some (v, i), RExhausted)
  | RExhausted => Val (None, RExhausted)
  end.

(* ListIter::peek, is_empty *)
Definition ref_list_peek (c : ref_cursor) : option dref :=
  match c with
  | RCons a _ ia _ => Some (a, ia)
  | RDot _ _ => None
  | RRest v i => Some (v, i)
  | RExhausted => None
  end.
Definition ref_list_is_empty (c : ref_cursor) : bool := match c with RExhausted => true | _ => false end.

(* calling next() [steps] times *)
Fixpoint ref_drain (steps : nat) (c : ref_cursor) : outcome (list (option dref)) :=
  match steps with
  | O => Val []
  | S k =>
      match ref_list_next c with
      | Panic => Panic
      | Val (o, c') => match ref_drain k c' with Panic => Panic | Val l => Val (o :: l) end
      end
  end.

(* Ref::vector_iter: elements zipped with their span information *)
Definition ref_vector_iter (r : dref) : option (list dref) :=
  match r with
  | (Vector els, SVec _ ms) => Some (combine els ms)
  | _ => None
  end.

(* Ref::as_pair *)
Definition ref_as_pair (r : dref) : outcome (option (dref * dref)) :=
  match fst r with
  | Cons a d =>
      match snd r with
      | SCons _ ia id => Val (Some ((a, ia), (d, id)))
      | _ => Panic                                       (* unreachable!("badly shaped pair span information") *)
      end
  | _ => Val None
  end.
