(* C16: a cost model of call depth. Operations that walk a list are written in
   the recursion shape of the Rust code: a loop over the cdr chain does not add
   a frame per element; recursion into a car or a vector element does.
   [walk_depth] is the shape shared by Printer::print, the iterative
   Clone / PartialEq / Drop of Cons and SpanInfo, the traversals of cons.rs and
   the Serde collectors; [derived_depth] is the shape of a derived
   (field-by-field recursive) implementation. *)
Require Import Base Value.

Fixpoint list_max (l : list nat) : nat :=
  match l with [] => 0%nat | x :: l' => Nat.max x (list_max l') end.

(* frames in use while visiting [v] with a loop along cdr chains: this call,
   plus the deepest recursive call, made for each car and for a tail that is
   neither a cons nor the empty list *)
Fixpoint walk_depth (v : value) : nat :=
  match v with
  | Cons a d => S (Nat.max (walk_depth a) (walk_rest d))
  | Vector l => S (list_max (map walk_depth l))
  | _ => 1%nat
  end
with walk_rest (d : value) : nat :=
  match d with
  | Cons a d' => Nat.max (walk_depth a) (walk_rest d')
  | Null => 0%nat
  | Vector l => S (list_max (map walk_depth l))
  | _ => 1%nat
  end.

(* frames in use by a derived, structurally recursive implementation:
   one call per field, hence one frame per cdr *)
Fixpoint derived_depth (v : value) : nat :=
  match v with
  | Cons a d => S (Nat.max (derived_depth a) (derived_depth d))
  | Vector l => S (list_max (map derived_depth l))
  | _ => 1%nat
  end.

(* nesting depth: 0 for atoms; a list or vector nests one deeper than its
   deepest element (a non-empty tail counts as an element); following a cdr
   does not nest *)
Fixpoint nesting (v : value) : nat :=
  match v with
  | Cons a d => S (Nat.max (nesting a) (nesting_rest d))
  | Vector l => S (list_max (map nesting l))
  | _ => 0%nat
  end
with nesting_rest (d : value) : nat :=
  match d with
  | Cons a d' => Nat.max (nesting a) (nesting_rest d')
  | Vector l => S (list_max (map nesting l))
  | _ => 0%nat
  end.
