(* serde-lexpr: Serializer (value/ser.rs) and Deserializer (value/de.rs) over a
   universe of Rust types. What serde_derive and the std visitors do between
   the Serializer/Deserializer calls (field matching, integer range checks,
   tuple arity, Option) is part of [ser]/[de] and is an assumption about Serde
   validated by the correspondence check. *)
From Coq Require Import SpecFloat.
Require Import Base Value Float NumberOps ListOps.

Inductive ty :=
| TyBool
| TyInt (signed : bool) (bits : N)     (* i8..i64, u8..u64 *)
| TyF32 | TyF64
| TyChar | TyString
| TyByteBuf                            (* serde_bytes::ByteBuf *)
| TyUnit                               (* () and unit structs *)
| TyOption (t : ty)
| TySeq (t : ty)                       (* Vec<T>, sets *)
| TyTuple (ts : list ty)               (* tuples and tuple structs, arity >= 1 *)
| TyMap (k v : ty)
| TyStruct (fields : list (bytes * ty))
| TyNewtype (t : ty)                   (* newtype struct *)
| TyEnum (variants : list (bytes * variant))
with variant :=
| VUnit
| VNewtype (t : ty)
| VTuple (ts : list ty)
| VStruct (fields : list (bytes * ty)).

Inductive data :=
| DBool (b : bool)
| DInt (z : Z)
| DF32 (f : f64)                      (* an f32, carried as the f64 of the same value *)
| DF64 (f : f64)
| DChar (c : N)
| DString (s : bytes)
| DBytes (b : bytes)
| DUnit
| DNone
| DSome (d : data)
| DSeq (l : list data)
| DTuple (l : list data)
| DMap (l : list (data * data))
| DStruct (l : list data)             (* field values in declaration order *)
| DNewtype (d : data)
| DEnum (name : bytes) (p : payload)
with payload :=
| PUnit
| PNewtype (d : data)
| PTuple (l : list data)
| PStruct (l : list data).

(* The only error the value deserializer produces is a Message error, category
   Data. There is no panic constructor: the one `expect` in value/de.rs
   (MapAccess::next_value_seed after the end) is unreachable under the visitor
   protocol Serde's own visitors follow, which [de] has built in. *)
Inductive serr := SData.
Inductive sres (A : Type) := SOk (a : A) | SErr (e : serr).
Arguments SOk {A} a.
Arguments SErr {A} e.

Definition int_in_range (signed : bool) (bits : N) (z : Z) : bool :=
  if signed then ((- 2 ^ (Z.of_N bits - 1) <=? z) && (z <? 2 ^ (Z.of_N bits - 1)))%Z
  else ((0 <=? z) && (z <? 2 ^ Z.of_N bits))%Z.

(* serialize_i8..i32/u8..u32 widen to i64; i64 and u64 go through Number::from *)
Definition ser_int (signed : bool) (bits : N) (z : Z) : value :=
  if signed || negb (bits =? 64) then Number (num_from_signed z)
  else Number (num_from_unsigned (Z.to_N z)).

Section Serde.
  (* `x as f32` for an f64, and "is exactly an f32": std; assumed only to be
     the identity on values that already are f32 values *)
  Variable cast_f32 : f64 -> f64.
  Variable is_f32 : f64 -> bool.

  (* ---------- Serializer ---------- *)
  Fixpoint ser (t : ty) (d : data) {struct t} : option value :=
    match t, d with
    | TyBool, DBool b => Some (Bool b)
    | TyInt s bits, DInt z => if int_in_range s bits z then Some (ser_int s bits z) else None
    | TyF32, DF32 f => if is_f32 f then Some (Number (Float f)) else None
    | TyF64, DF64 f => Some (Number (Float f))
    | TyChar, DChar c => Some (Char c)
    | TyString, DString s => Some (String s)
    | TyByteBuf, DBytes b => Some (Bytes b)
    | TyUnit, DUnit => Some Null
    | TyOption _, DNone => Some Null
    | TyOption t', DSome x => match ser t' x with Some v => Some (Cons v Null) | None => None end
    | TySeq t', DSeq l =>
        (* SerializeList: items pushed, end = Value::list *)
        match (fix go (l : list data) : option (list value) :=
                 match l with
                 | [] => Some []
                 | x :: l' => match ser t' x, go l' with Some v, Some vs => Some (v :: vs) | _, _ => None end
                 end) l with
        | Some vs => Some (value_list vs)
        | None => None
        end
    | TyTuple ts, DTuple l =>
        (* SerializeVector: end = Value::Vector *)
        match (fix go (ts : list ty) (l : list data) : option (list value) :=
                 match ts, l with
                 | [], [] => Some []
                 | t1 :: ts', x :: l' => match ser t1 x, go ts' l' with Some v, Some vs => Some (v :: vs) | _, _ => None end
                 | _, _ => None
                 end) ts l with
        | Some vs => Some (Vector vs)
        | None => None
        end
    | TyMap kt vt, DMap l =>
        (* SerializeMap: serialize_entry pushes (key . value); end = Value::list *)
        match (fix go (l : list (data * data)) : option (list value) :=
                 match l with
                 | [] => Some []
                 | (k, x) :: l' =>
                     match ser kt k, ser vt x, go l' with
                     | Some kv, Some xv, Some vs => Some (Cons kv xv :: vs)
                     | _, _, _ => None
                     end
                 end) l with
        | Some vs => Some (value_list vs)
        | None => None
        end
    | TyStruct fields, DStruct l =>
        match (fix go (fs : list (bytes * ty)) (l : list data) : option (list value) :=
                 match fs, l with
                 | [], [] => Some []
                 | (name, t1) :: fs', x :: l' =>
                     match ser t1 x, go fs' l' with
                     | Some v, Some vs => Some (Cons (Symbol name) v :: vs)
                     | _, _ => None
                     end
                 | _, _ => None
                 end) fields l with
        | Some vs => Some (value_list vs)
        | None => None
        end
    | TyNewtype t', DNewtype x => ser t' x
    | TyEnum variants, DEnum name p =>
        (fix find (vs : list (bytes * variant)) : option value :=
           match vs with
           | [] => None
           | (n, var) :: vs' =>
               if beq_bytes n name then
                 match var, p with
                 | VUnit, PUnit => Some (Symbol name)
                 | VNewtype t', PNewtype x =>
                     match ser t' x with Some v => Some (Cons (Symbol name) v) | None => None end
                 | VTuple ts, PTuple l =>
                     match (fix go (ts : list ty) (l : list data) : option (list value) :=
                              match ts, l with
                              | [], [] => Some []
                              | t1 :: ts', x :: l' => match ser t1 x, go ts' l' with Some v, Some vs => Some (v :: vs) | _, _ => None end
                              | _, _ => None
                              end) ts l with
                     | Some vs => Some (Cons (Symbol name) (value_list vs))
                     | None => None
                     end
                 | VStruct fields, PStruct l =>
                     match (fix go (fs : list (bytes * ty)) (l : list data) : option (list value) :=
                              match fs, l with
                              | [], [] => Some []
                              | (fname, t1) :: fs', x :: l' =>
                                  match ser t1 x, go fs' l' with
                                  | Some v, Some vs => Some (Cons (Symbol fname) v :: vs)
                                  | _, _ => None
                                  end
                              | _, _ => None
                              end) fields l with
                     | Some vs => Some (Cons (Symbol name) (value_list vs))
                     | None => None
                     end
                 | _, _ => None
                 end
               else find vs'
           end) variants
    | _, _ => None
    end.

  (* ---------- Deserializer ---------- *)

  (* visit_number + the std integer / float visitors *)
  Definition de_int (signed : bool) (bits : N) (n : number) : sres data :=
    match n with
    | PosInt u => if int_in_range signed bits (Z.of_N u) then SOk (DInt (Z.of_N u)) else SErr SData
    | NegInt i => if int_in_range signed bits i then SOk (DInt i) else SErr SData
    | Float _ => SErr SData
    end.
  Definition de_f64 (n : number) : f64 :=
    match n with
    | PosInt u => f64_of_N u
    | NegInt i => f64_of_Z i
    | Float f => f
    end.

  Definition sbind {A B} (r : sres A) (f : A -> sres B) : sres B :=
    match r with SOk a => f a | SErr e => SErr e end.

  (* SeqAccess over a value: the elements a visitor can pull, or the error
     the walk hits (ListAccess: improper tail; VecAccess: none) *)
  Fixpoint list_elems (a d : value) : sres (list value) :=
    match d with
    | Cons a' d' => sbind (list_elems a' d') (fun r => SOk (a :: r))
    | Null => SOk [a]
    | _ => SErr SData
    end.

  (* deserialize_seq's choice of access *)
  Definition seq_access (allow_null : bool) (v : value) : sres (list value) :=
    match v with
    | Null => if allow_null then SOk [] else SErr SData
    | Vector l => SOk l
    | Cons a d => list_elems a d
    | _ => SErr SData
    end.

  (* A tuple visitor pulls exactly n elements. ListAccess::new checks that the
     list is proper before the visitor starts, so an improper list is rejected
     whatever its length; elements beyond the arity are not looked at. *)
  Definition tuple_access (n : nat) (v : value) : sres (list value) :=
    match v with
    | Vector l => SOk (firstn n l)
    | Cons a d => sbind (list_elems a d) (fun l => SOk (firstn n l))
    | _ => SErr SData
    end.

  (* MapAccess: each cell's car must be a pair; the cdr chain must be proper *)
  Fixpoint map_entries (a d : value) : sres (list (value * value)) :=
    match a with
    | Cons k x =>
        match d with
        | Cons a' d' => sbind (map_entries a' d') (fun r => SOk ((k, x) :: r))
        | Null => SOk [(k, x)]
        | _ => SErr SData
        end
    | _ => SErr SData
    end.
  Definition map_access (v : value) : sres (list (value * value)) :=
    match v with
    | Null => SOk []
    | Cons a d => map_entries a d
    | _ => SErr SData
    end.

  (* keys of struct entries go through deserialize_identifier: symbols only *)
  Definition key_is_symbol (e : value * value) : bool :=
    match fst e with Symbol _ => true | _ => false end.
  (* the values of the entries whose key is the symbol [name] *)
  Fixpoint entries_for (name : bytes) (es : list (value * value)) : list value :=
    match es with
    | [] => []
    | (Symbol n, x) :: es' => if beq_bytes n name then x :: entries_for name es' else entries_for name es'
    | _ :: es' => entries_for name es'
    end.

  Fixpoint de (t : ty) (v : value) {struct t} : sres data :=
    match t with
    | TyBool => match v with Bool b => SOk (DBool b) | _ => SErr SData end
    | TyInt s bits => match v with Number n => de_int s bits n | _ => SErr SData end
    | TyF32 => match v with Number n => SOk (DF32 (cast_f32 (de_f64 n))) | _ => SErr SData end
    | TyF64 => match v with Number n => SOk (DF64 (de_f64 n)) | _ => SErr SData end
    | TyChar => match v with Char c => SOk (DChar c) | _ => SErr SData end
    | TyString => match v with String s => SOk (DString s) | _ => SErr SData end
    | TyByteBuf => match v with Bytes b => SOk (DBytes b) | _ => SErr SData end
    | TyUnit => match v with Nil | Null => SOk DUnit | _ => SErr SData end
    | TyOption t' =>
        match v with
        | Null => SOk DNone
        | Cons a Null => sbind (de t' a) (fun x => SOk (DSome x))
        | _ => SErr SData
        end
    | TySeq t' =>
        sbind (seq_access true v) (fun els =>
        sbind ((fix go (l : list value) : sres (list data) :=
                  match l with
                  | [] => SOk []
                  | x :: l' => sbind (de t' x) (fun d => sbind (go l') (fun r => SOk (d :: r)))
                  end) els) (fun ds => SOk (DSeq ds)))
    | TyTuple ts =>
        sbind (tuple_access (length ts) v) (fun els =>
        sbind ((fix go (ts : list ty) (l : list value) : sres (list data) :=
                  match ts, l with
                  | [], _ => SOk []
                  | t1 :: ts', x :: l' => sbind (de t1 x) (fun d => sbind (go ts' l') (fun r => SOk (d :: r)))
                  | _ :: _, [] => SErr SData          (* invalid length *)
                  end) ts els) (fun ds => SOk (DTuple ds)))
    | TyMap kt vt =>
        sbind (map_access v) (fun es =>
        sbind ((fix go (l : list (value * value)) : sres (list (data * data)) :=
                  match l with
                  | [] => SOk []
                  | (k, x) :: l' =>
                      sbind (de kt k) (fun dk => sbind (de vt x) (fun dx =>
                      sbind (go l') (fun r => SOk ((dk, dx) :: r))))
                  end) es) (fun ds => SOk (DMap ds)))
    | TyStruct fields =>
        (* deserialize_struct = deserialize_map; the derived visitor matches
           keys against field names: unknown keys are skipped, a duplicate or
           a missing non-Option field is an error *)
        sbind (map_access v) (fun es =>
        if forallb key_is_symbol es then
          sbind ((fix go (fs : list (bytes * ty)) : sres (list data) :=
                    match fs with
                    | [] => SOk []
                    | (name, t1) :: fs' =>
                        sbind (match entries_for name es with
                               | [] => match t1 with TyOption _ => SOk DNone | _ => SErr SData end
                               | [x] => de t1 x
                               | _ => SErr SData
                               end) (fun d => sbind (go fs') (fun r => SOk (d :: r)))
                    end) fields) (fun ds => SOk (DStruct ds))
        else SErr SData)
    | TyNewtype t' => sbind (de t' v) (fun d => SOk (DNewtype d))
    | TyEnum variants =>
        match v with
        | Symbol name =>
            (fix find (vs : list (bytes * variant)) : sres data :=
               match vs with
               | [] => SErr SData
               | (n, var) :: vs' =>
                   if beq_bytes n name then
                     match var with VUnit => SOk (DEnum name PUnit) | _ => SErr SData end
                   else find vs'
               end) variants
        | Cons (Symbol name) rest =>
            (fix find (vs : list (bytes * variant)) : sres data :=
               match vs with
               | [] => SErr SData
               | (n, var) :: vs' =>
                   if beq_bytes n name then
                     match var with
                     | VUnit => SOk (DEnum name PUnit)
                     | VNewtype t' => sbind (de t' rest) (fun d => SOk (DEnum name (PNewtype d)))
                     | VTuple ts =>
                         (* tuple_variant: deserialize_seq, then the tuple visitor *)
                         sbind (seq_access true rest) (fun els =>
                         sbind ((fix go (ts : list ty) (l : list value) : sres (list data) :=
                                   match ts, l with
                                   | [], _ => SOk []
                                   | t1 :: ts', x :: l' => sbind (de t1 x) (fun d => sbind (go ts' l') (fun r => SOk (d :: r)))
                                   | _ :: _, [] => SErr SData
                                   end) ts els) (fun ds => SOk (DEnum name (PTuple ds))))
                     | VStruct fields =>
                         sbind (map_access rest) (fun es =>
                         if forallb key_is_symbol es then
                           sbind ((fix go (fs : list (bytes * ty)) : sres (list data) :=
                                     match fs with
                                     | [] => SOk []
                                     | (fname, t1) :: fs' =>
                                         sbind (match entries_for fname es with
                                                | [] => match t1 with TyOption _ => SOk DNone | _ => SErr SData end
                                                | [x] => de t1 x
                                                | _ => SErr SData
                                                end) (fun d => sbind (go fs') (fun r => SOk (d :: r)))
                                     end) fields) (fun ds => SOk (DEnum name (PStruct ds)))
                         else SErr SData)
                     end
                   else find vs'
               end) variants
        | _ => SErr SData
        end
    end.
End Serde.
