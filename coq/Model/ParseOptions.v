(* lexpr::parse::Options (parse/mod.rs) *)
Require Import Base PrintOptions.

Inductive nil_symbol := NsEmptyList | NsDefault | NsSpecial.
Inductive t_symbol := TsTrue | TsDefault.
Inductive brackets := BrList | BrVector.

Record parse_options := {
  ro_kw_prefix : bool;
  ro_kw_postfix : bool;
  ro_kw_octo : bool;
  ro_nil : nil_symbol;
  ro_t : t_symbol;
  ro_brackets : brackets;
  ro_string : string_syntax;
  ro_char : char_syntax;
  ro_racket : bool;
  ro_digit : bool;
}.

(* Options::new *)
Definition new_ro : parse_options :=
  {| ro_kw_prefix := false; ro_kw_postfix := false; ro_kw_octo := false;
     ro_nil := NsDefault; ro_t := TsDefault; ro_brackets := BrList;
     ro_string := StrR6RS; ro_char := ChrR6RS; ro_racket := false; ro_digit := false |}.

(* Options::default *)
Definition default_ro : parse_options :=
  {| ro_kw_prefix := false; ro_kw_postfix := false; ro_kw_octo := true;
     ro_nil := NsDefault; ro_t := TsDefault; ro_brackets := BrList;
     ro_string := StrR6RS; ro_char := ChrR6RS; ro_racket := false; ro_digit := false |}.

(* Options::elisp *)
Definition elisp_ro : parse_options :=
  {| ro_kw_prefix := true; ro_kw_postfix := false; ro_kw_octo := false;
     ro_nil := NsEmptyList; ro_t := TsDefault; ro_brackets := BrVector;
     ro_string := StrElisp; ro_char := ChrElisp; ro_racket := false; ro_digit := true |}.

Definition all_ro : list parse_options :=
  flat_map (fun a => flat_map (fun b => flat_map (fun c => flat_map (fun n => flat_map (fun t =>
  flat_map (fun br => flat_map (fun s => flat_map (fun ch => flat_map (fun r => map (fun d =>
    {| ro_kw_prefix := a; ro_kw_postfix := b; ro_kw_octo := c; ro_nil := n; ro_t := t;
       ro_brackets := br; ro_string := s; ro_char := ch; ro_racket := r; ro_digit := d |})
    [false; true]) [false; true]) [ChrR6RS; ChrElisp]) [StrR6RS; StrElisp]) [BrList; BrVector])
    [TsTrue; TsDefault]) [NsEmptyList; NsDefault; NsSpecial]) [false; true]) [false; true]) [false; true].
