(* UTF-8 as std implements it: str::from_utf8 validity (Unicode table 3-7),
   decoding of the first scalar, char::from_u32, char::encode_utf8. *)
Require Import Base.

Definition is_cont (b : N) : bool := in_range 128 191 b.

(* char::from_u32 *)
Definition is_scalar (n : N) : bool := (n <? 55296) || ((57344 <=? n) && (n <=? 1114111)).

(* Length of a well-formed sequence at the head of [l], 0 when ill-formed. *)
Definition utf8_head_len (l : bytes) : nat :=
  match l with
  | [] => 0
  | b0 :: r =>
      if b0 <? 128 then 1
      else if in_range 194 223 b0 then
        match r with b1 :: _ => if is_cont b1 then 2 else 0 | _ => 0 end
      else if b0 =? 224 then
        match r with b1 :: b2 :: _ => if in_range 160 191 b1 && is_cont b2 then 3 else 0 | _ => 0 end
      else if in_range 225 236 b0 || in_range 238 239 b0 then
        match r with b1 :: b2 :: _ => if is_cont b1 && is_cont b2 then 3 else 0 | _ => 0 end
      else if b0 =? 237 then
        match r with b1 :: b2 :: _ => if in_range 128 159 b1 && is_cont b2 then 3 else 0 | _ => 0 end
      else if b0 =? 240 then
        match r with b1 :: b2 :: b3 :: _ => if in_range 144 191 b1 && is_cont b2 && is_cont b3 then 4 else 0 | _ => 0 end
      else if in_range 241 243 b0 then
        match r with b1 :: b2 :: b3 :: _ => if is_cont b1 && is_cont b2 && is_cont b3 then 4 else 0 | _ => 0 end
      else if b0 =? 244 then
        match r with b1 :: b2 :: b3 :: _ => if in_range 128 143 b1 && is_cont b2 && is_cont b3 then 4 else 0 | _ => 0 end
      else 0
  end.

(* str::from_utf8(l).is_ok() *)
Fixpoint utf8_valid_fuel (fuel : nat) (l : bytes) : bool :=
  match l with
  | [] => true
  | _ =>
      match fuel with
      | O => false
      | S f =>
          match utf8_head_len l with
          | O => false
          | n => utf8_valid_fuel f (skipn n l)
          end
      end
  end.
Definition utf8_valid (l : bytes) : bool := utf8_valid_fuel (length l) l.

(* The scalar encoded by a well-formed sequence of the given length. *)
Definition utf8_decode_head (l : bytes) : N :=
  match l with
  | [b0] => b0
  | [b0; b1] => (b0 - 192) * 64 + (b1 - 128)
  | [b0; b1; b2] => (b0 - 224) * 4096 + (b1 - 128) * 64 + (b2 - 128)
  | [b0; b1; b2; b3] => (b0 - 240) * 262144 + (b1 - 128) * 4096 + (b2 - 128) * 64 + (b3 - 128)
  | _ => 0
  end.

(* char::encode_utf8 *)
Definition utf8_encode (c : N) : bytes :=
  if c <? 128 then [c]
  else if c <? 2048 then [192 + c / 64; 128 + c mod 64]
  else if c <? 65536 then [224 + c / 4096; 128 + (c / 64) mod 64; 128 + c mod 64]
  else [240 + c / 262144; 128 + (c / 4096) mod 64; 128 + (c / 64) mod 64; 128 + c mod 64].

(* Utf8Error::error_len() == None: the input ends inside a sequence that is
   well-formed so far ("unexpected end of input"). [r] is what is left after
   the longest well-formed prefix. *)
Definition incomplete_tail (r : bytes) : bool :=
  match r with
  | [b0] => in_range 194 244 b0
  | [b0; b1] =>
      (b0 =? 224) && in_range 160 191 b1
      || (in_range 225 236 b0 || in_range 238 239 b0) && is_cont b1
      || (b0 =? 237) && in_range 128 159 b1
      || (b0 =? 240) && in_range 144 191 b1
      || in_range 241 243 b0 && is_cont b1
      || (b0 =? 244) && in_range 128 143 b1
  | [b0; b1; b2] =>
      ((b0 =? 240) && in_range 144 191 b1
       || in_range 241 243 b0 && is_cont b1
       || (b0 =? 244) && in_range 128 143 b1) && is_cont b2
  | _ => false
  end.

Fixpoint utf8_truncated_fuel (fuel : nat) (l : bytes) : bool :=
  match l with
  | [] => false
  | _ =>
      match fuel with
      | O => false
      | S f =>
          match utf8_head_len l with
          | O => incomplete_tail l
          | n => utf8_truncated_fuel f (skipn n l)
          end
      end
  end.
(* matches!(str::from_utf8(l), Err(e) if e.error_len().is_none()) *)
Definition utf8_truncated (l : bytes) : bool := utf8_truncated_fuel (length l) l.
