(* lexpr::Number and lexpr::Value accessors, conversions and comparisons
   (number.rs, value/mod.rs, value/from.rs, value/partial_eq.rs). *)
From Coq Require Import SpecFloat.
Require Import Base Value Float.

Definition i64_max : Z := 9223372036854775807.
Definition i64_min : Z := -9223372036854775808.
Definition u64_max : N := 18446744073709551615.

(* ---- Number ---- *)
Definition num_is_i64 (n : number) : bool :=
  match n with
  | PosInt v => (Z.of_N v <=? i64_max)%Z
  | NegInt _ => true
  | Float _ => false
  end.
Definition num_is_u64 (n : number) : bool :=
  match n with PosInt _ => true | _ => false end.
Definition num_is_f64 (n : number) : bool :=
  match n with Float _ => true | _ => false end.

Definition num_as_i64 (n : number) : option Z :=
  match n with
  | PosInt v => if (Z.of_N v <=? i64_max)%Z then Some (Z.of_N v) else None
  | NegInt i => Some i
  | Float _ => None
  end.
Definition num_as_u64 (n : number) : option N :=
  match n with PosInt v => Some v | _ => None end.
Definition num_as_f64 (n : number) : option f64 :=
  match n with
  | PosInt v => Some (f64_of_N v)
  | NegInt i => Some (f64_of_Z i)
  | Float f => Some f
  end.

Definition num_from_f64 (f : f64) : option number :=
  if is_finite_f64 f then Some (Float f) else None.

(* From<u8|u16|u32|u64> *)
Definition num_from_unsigned (u : N) : number := PosInt u.
(* From<i8|i16|i32|i64> *)
Definition num_from_signed (i : Z) : number :=
  if (0 <=? i)%Z then PosInt (Z.to_N i) else NegInt i.

(* f32 values as spec_float at precision 24, emax 128; f64::from(f32) is exact *)
Definition f32_of_bits (b : N) : spec_float :=
  let s := negb (b / 2147483648 =? 0) in
  let e := (b / 8388608) mod 256 in
  let m := b mod 8388608 in
  if e =? 0 then
    match m with N0 => S754_zero s | Npos p => S754_finite s p (-149) end
  else if e =? 255 then (if m =? 0 then S754_infinity s else S754_nan)
  else match m + 8388608 with
       | N0 => S754_zero s
       | Npos p => S754_finite s p (Z.of_N e - 150)
       end.

Definition f64_of_f32 (x : spec_float) : f64 :=
  match x with
  | S754_finite s m e => binary_normalize prec emax (if s then Zneg m else Zpos m) e s
  | other => other
  end.

Definition num_from_f32 (x : spec_float) : number := Float (f64_of_f32 x).
Definition num_from_f64' (f : f64) : number := Float f.

(* ---- Value accessors ---- *)
Definition as_str (v : value) : option bytes := match v with String s => Some s | _ => None end.
Definition as_symbol (v : value) : option bytes := match v with Symbol s => Some s | _ => None end.
Definition as_keyword (v : value) : option bytes := match v with Keyword s => Some s | _ => None end.
Definition as_name (v : value) : option bytes :=
  match v with Symbol s => Some s | Keyword s => Some s | String s => Some s | _ => None end.
Definition as_bytes (v : value) : option bytes := match v with Bytes b => Some b | _ => None end.
Definition as_number (v : value) : option number := match v with Number n => Some n | _ => None end.
Definition as_bool (v : value) : option bool := match v with Bool b => Some b | _ => None end.
Definition as_char (v : value) : option N := match v with Char c => Some c | _ => None end.
Definition as_nil (v : value) : option unit := match v with Nil => Some tt | _ => None end.
Definition as_null (v : value) : option unit := match v with Null => Some tt | _ => None end.
Definition as_cons (v : value) : option (value * value) := match v with Cons a d => Some (a, d) | _ => None end.
Definition as_pair := as_cons.
Definition as_slice (v : value) : option (list value) := match v with Vector l => Some l | _ => None end.

Definition isSome {A} (o : option A) : bool := match o with Some _ => true | None => false end.

Definition is_string v := isSome (as_str v).
Definition is_symbol v := isSome (as_symbol v).
Definition is_keyword v := isSome (as_keyword v).
Definition is_bytes v := isSome (as_bytes v).
Definition is_number v := isSome (as_number v).
Definition is_boolean v := isSome (as_bool v).
Definition is_char v := isSome (as_char v).
Definition is_nil v := isSome (as_nil v).
Definition is_null_v v := isSome (as_null v).
Definition is_cons_v (v : value) : bool := match v with Cons _ _ => true | _ => false end.
Definition is_vector (v : value) : bool := match v with Vector _ => true | _ => false end.

Definition is_i64 (v : value) : bool := match as_number v with Some n => num_is_i64 n | None => false end.
Definition is_u64 (v : value) : bool := match as_number v with Some n => num_is_u64 n | None => false end.
Definition is_f64 (v : value) : bool := match as_number v with Some n => num_is_f64 n | None => false end.
Definition obind {A B} (o : option A) (f : A -> option B) : option B :=
  match o with Some a => f a | None => None end.
Definition as_i64 (v : value) : option Z := obind (as_number v) num_as_i64.
Definition as_u64 (v : value) : option N := obind (as_number v) num_as_u64.
Definition as_f64 (v : value) : option f64 := obind (as_number v) num_as_f64.

(* ---- partial_eq.rs ---- *)
Definition eq_i64 (v : value) (other : Z) : bool :=
  match as_i64 v with Some i => (i =? other)%Z | None => false end.
Definition eq_u64 (v : value) (other : N) : bool :=
  match as_u64 v with Some i => i =? other | None => false end.
Definition eq_f64 (v : value) (other : f64) : bool :=
  match as_f64 v with Some i => f64_eqb i other | None => false end.
Definition eq_bool (v : value) (other : bool) : bool :=
  match as_bool v with Some i => Bool.eqb i other | None => false end.
Definition eq_str (v : value) (other : bytes) : bool :=
  match as_str v with Some i => beq_bytes i other | None => false end.

(* The primitive operand of a comparison, as the macro instantiates it. *)
Inductive prim :=
| PSigned (bits : N) (i : Z)        (* i8 i16 i32 i64 -> i64::from *)
| PUnsigned (bits : N) (u : N)      (* u8 u16 u32 u64 -> u64::from *)
| PF32 (x : spec_float)             (* f64::from *)
| PF64 (f : f64)
| PBool (b : bool)
| PStr (s : bytes).                 (* str, &str, String *)

Definition value_eq_prim (v : value) (p : prim) : bool :=
  match p with
  | PSigned _ i => eq_i64 v i
  | PUnsigned _ u => eq_u64 v u
  | PF32 x => eq_f64 v (f64_of_f32 x)
  | PF64 f => eq_f64 v f
  | PBool b => eq_bool v b
  | PStr s => eq_str v s
  end.
(* impl PartialEq<Value> for $ty: the same helper with the operands swapped *)
Definition prim_eq_value (p : prim) (v : value) : bool := value_eq_prim v p.

Definition value_from_prim (p : prim) : value :=
  match p with
  | PSigned _ i => Number (num_from_signed i)
  | PUnsigned _ u => Number (num_from_unsigned u)
  | PF32 x => Number (num_from_f32 x)
  | PF64 f => Number (num_from_f64' f)
  | PBool b => Bool b
  | PStr s => String s
  end.

Definition signed_in_range (bits : N) (i : Z) : bool :=
  ((- 2 ^ (Z.of_N bits - 1) <=? i) && (i <? 2 ^ (Z.of_N bits - 1)))%Z.
Definition unsigned_in_range (bits : N) (u : N) : bool := u <? 2 ^ bits.

Inductive kind := KNil | KNull | KBool | KNumber | KChar | KString | KSymbol | KKeyword | KBytes | KCons | KVector.
Definition kind_of (v : value) : kind :=
  match v with
  | Nil => KNil | Null => KNull | Bool _ => KBool | Number _ => KNumber | Char _ => KChar
  | String _ => KString | Symbol _ => KSymbol | Keyword _ => KKeyword | Bytes _ => KBytes
  | Cons _ _ => KCons | Vector _ => KVector
  end.
Definition kind_predicates (v : value) : list bool :=
  [is_nil v; is_null_v v; is_boolean v; is_number v; is_char v; is_string v; is_symbol v;
   is_keyword v; is_bytes v; is_cons_v v; is_vector v].
