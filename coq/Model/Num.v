(* Number parsing (parse/mod.rs: parse_number ... f64_from_parts). u64 is N
   with the explicit overflow! guard; the i32 exponent is Z with saturation
   written out. *)
From Coq Require Import SpecFloat.
Require Import Base Value Float Reader NumberOps.

Definition u64_MAX : N := 18446744073709551615.
Definition i32_MAX : Z := 2147483647.
Definition i32_MIN : Z := -2147483648.

(* overflow!(a * radix + b, c) *)
Definition overflow_N (a radix b c : N) : bool :=
  (c / radix <=? a) && ((c / radix <? a) || (c mod radix <? b)).
Definition overflow_Z (a radix b c : Z) : bool :=
  ((c / radix <=? a) && ((c / radix <? a) || (c mod radix <? b)))%Z.

Definition sat_i32 (z : Z) : Z :=
  if (z <? i32_MIN)%Z then i32_MIN else if (i32_MAX <? z)%Z then i32_MAX else z.

(* digit value of a byte in the integer loops: 0-9 always, a-f/A-F when [letters] *)
Definition digit_val (letters : bool) (c : N) : option N :=
  if in_range 48 57 c then Some (c - 48)
  else if letters && in_range 97 102 c then Some (c - 87)
  else if letters && in_range 65 70 c then Some (c - 55)
  else None.

Section Num.
  (* cargo feature fast-float-parsing *)
  Variable fast : bool.
  (* str::parse::<f64>() on "<significand>e<exponent>": std, assumed correctly
     rounded; supplied as an oracle for the build without fast-float-parsing *)
  Variable std_parse : N -> Z -> f64.

  (* f64_from_parts, feature fast-float-parsing *)
  Fixpoint f64_from_parts_fast_loop (fuel : nat) (f : f64) (exponent : Z) : M f64 :=
    match fuel with
    | O => out_of_fuel
    | S k =>
        if (Z.abs exponent <=? 308)%Z then
          (if (0 <=? exponent)%Z then
             let f' := f64_mul f (pow10_f64 (Z.to_N exponent)) in
             if is_infinite_f64 f' then error NumberOutOfRange else ret f'
           else ret (f64_div f (pow10_f64 (Z.to_N (- exponent)))))
        else if f64_eqb f (S754_zero false) then ret f
        else if (0 <=? exponent)%Z then error NumberOutOfRange
        else f64_from_parts_fast_loop k (f64_div f (pow10_f64 308)) (sat_i32 (exponent + 308))
    end.

  Definition f64_from_parts (pos : bool) (significand : N) (exponent : Z) : M f64 :=
    if fast then
      f <- f64_from_parts_fast_loop 8 (f64_of_N significand) exponent ;;
      ret (if pos then f else f64_neg f)
    else
      let f := std_parse significand exponent in
      if is_infinite_f64 f then error NumberOutOfRange
      else ret (if pos then f else f64_mul f (f64_of_Z (-1))).

  (* skip the remaining digits *)
  Fixpoint skip_digits (fuel : nat) : M unit :=
    match fuel with
    | O => out_of_fuel
    | S f =>
        c <- peek_or_null ;;
        if is_digit c then eat_char ;;; skip_digits f else ret tt
    end.

  (* parse_exponent_overflow *)
  Definition parse_exponent_overflow (fuel : nat) (positive : bool) (significand : N) (positive_exp : bool) : M f64 :=
    if negb (significand =? 0) && positive_exp then error NumberOutOfRange
    else skip_digits fuel ;;; ret (S754_zero (negb positive)).

  Fixpoint exponent_digits (fuel : nat) (positive : bool) (significand : N) (positive_exp : bool)
           (starting_exp : Z) (exp : Z) : M f64 :=
    match fuel with
    | O => out_of_fuel
    | S f =>
        c <- peek_or_null ;;
        if is_digit c then
          eat_char ;;;
          let digit := Z.of_N (c - 48) in
          if overflow_Z exp 10 digit i32_MAX then
            parse_exponent_overflow f positive significand positive_exp
          else exponent_digits f positive significand positive_exp starting_exp (exp * 10 + digit)
        else
          let final_exp := if positive_exp then sat_i32 (starting_exp + exp) else sat_i32 (starting_exp - exp) in
          f64_from_parts positive significand final_exp
    end.

  (* parse_exponent *)
  Definition parse_exponent (fuel : nat) (positive : bool) (significand : N) (starting_exp : Z) : M f64 :=
    eat_char ;;;
    c <- peek_or_null ;;
    positive_exp <- (if c =? 43 then eat_char ;;; ret true
                     else if c =? 45 then eat_char ;;; ret false
                     else ret true) ;;
    o <- next_char ;;
    match o with
    | Some d =>
        if is_digit d then
          exponent_digits fuel positive significand positive_exp starting_exp (Z.of_N (d - 48))
        else error InvalidNumber
    | None => error EofWhileParsingValue
    end.

  (* the digit loop of parse_decimal *)
  Fixpoint decimal_digits (fuel : nat) (significand : N) (exponent : Z) (at_least_one : bool)
    : M (N * Z * bool) :=
    match fuel with
    | O => out_of_fuel
    | S f =>
        c <- peek_or_null ;;
        if is_digit c then
          eat_char ;;;
          let digit := c - 48 in
          if overflow_N significand 10 digit u64_MAX then
            skip_digits f ;;; ret (significand, exponent, true)
          else decimal_digits f (significand * 10 + digit) (exponent - 1) true
        else ret (significand, exponent, at_least_one)
    end.

  (* parse_decimal *)
  Definition parse_decimal (fuel : nat) (pos : bool) (significand : N) (exponent : Z) : M f64 :=
    eat_char ;;;
    r <- decimal_digits fuel significand exponent false ;;
    let '(sig, ex, one) := r in
    if negb one then
      o <- peek ;;
      match o with
      | Some _ => peek_error InvalidNumber
      | None => peek_error EofWhileParsingValue
      end
    else
      c <- peek_or_null ;;
      if (c =? 101) || (c =? 69) then parse_exponent fuel pos sig ex
      else f64_from_parts pos sig ex.

  (* significand * radix^exponent for the power-of-two radixes: exact scaling *)
  Definition scale_pow2_radix (significand : N) (radix : N) (exponent : Z) : f64 :=
    f64_mul (f64_of_N significand) (f64_of_Z (Z.of_N radix ^ exponent)).

  (* parse_long_integer *)
  Fixpoint parse_long_integer (fuel : nat) (radix : N) (pos : bool) (significand : N) (exponent : Z)
    : M f64 :=
    match fuel with
    | O => out_of_fuel
    | S f =>
        c <- peek_or_null ;;
        match digit_val (10 <? radix) c with
        | Some digit =>
            if radix <=? digit then peek_error InvalidNumber
            else eat_char ;;; parse_long_integer f radix pos significand (exponent + 1)
        | None =>
            if c =? 46 then
              (if negb (radix =? 10) then peek_error InvalidNumber
               else parse_decimal f pos significand exponent)
            else if (c =? 101) || (c =? 69) then
              (if negb (radix =? 10) then peek_error InvalidNumber
               else parse_exponent f pos significand exponent)
            else if negb (radix =? 10) then
              let fl := scale_pow2_radix significand radix exponent in
              if is_infinite_f64 fl then error NumberOutOfRange
              else ret (if pos then fl else f64_neg fl)
            else f64_from_parts pos significand exponent
        end
    end.

  (* parse_num_tail *)
  Definition parse_num_tail (fuel : nat) (radix : N) (pos : bool) (significand : N) : M number :=
    c <- peek_or_null ;;
    if c =? 46 then
      (if negb (radix =? 10) then peek_error InvalidNumber
       else f <- parse_decimal fuel pos significand 0 ;; ret (Float f))
    else if (c =? 101) || (c =? 69) then
      (if negb (radix =? 10) then peek_error InvalidNumber
       else f <- parse_exponent fuel pos significand 0 ;; ret (Float f))
    else if pos then ret (PosInt significand)
    else
      (* (significand as i64).wrapping_neg(): positive exactly when significand > 2^63 *)
      if 9223372036854775808 <? significand then ret (Float (f64_neg (f64_of_N significand)))
      else ret (num_from_signed (- Z.of_N significand)).

  Fixpoint num_literal_loop (fuel : nat) (radix : N) (pos : bool) (res : N) : M number :=
    match fuel with
    | O => out_of_fuel
    | S f =>
        c <- peek_or_null ;;
        match digit_val (10 <? radix) c with
        | None => parse_num_tail f radix pos res
        | Some digit =>
            if radix <=? digit then peek_error InvalidNumber
            else
              eat_char ;;;
              if overflow_N res radix digit u64_MAX then
                fl <- parse_long_integer f radix pos res 1 ;; ret (Float fl)
              else num_literal_loop f radix pos (res * radix + digit)
        end
    end.

  (* parse_num_literal *)
  Definition parse_num_literal (fuel : nat) (radix : N) (pos : bool) : M number :=
    o <- next_char ;;
    match o with
    | None => peek_error EofWhileParsingValue
    | Some c =>
        match digit_val true c with
        | None => peek_error InvalidNumber
        | Some first_digit =>
            if radix <=? first_digit then peek_error InvalidNumber
            else num_literal_loop fuel radix pos first_digit
        end
    end.
End Num.
