(* List construction, traversal, conversion and indexing
   (value/mod.rs, cons.rs, value/index.rs). Loops over the cdr chain are
   structural recursion on the cdr; iterators are explicit state machines. *)
Require Import Base Value NumberOps.

(* Value::list / Value::append / Value::cons / Value::vector *)
Definition value_append (xs : list value) (t : value) : value := build xs t.
Definition value_list (xs : list value) : value := build xs Null.

(* Cons::to_vec, Cons::to_ref_vec: for pair in self.iter() { push car; if !cdr.is_cons() return } *)
Fixpoint cons_to_vec (a d : value) : list value * value :=
  match d with
  | Cons a' d' => let '(xs, t) := cons_to_vec a' d' in (a :: xs, t)
  | _ => ([a], d)
  end.

(* IntoIter: yields (car, None) while the cdr is a cons, then (car, Some cdr) *)
Fixpoint into_iter_items (a d : value) : list (value * option value) :=
  match d with
  | Cons a' d' => (a, None) :: into_iter_items a' d'
  | _ => [(a, Some d)]
  end.

(* Cons::into_vec: for (item, rest) in self.into_iter() { push; if let Some(rest) return } *)
Fixpoint into_vec_loop (items : list (value * option value)) (acc : list value)
  : option (list value * value) :=
  match items with
  | [] => None                      (* unreachable!() *)
  | (x, None) :: rest => into_vec_loop rest (acc ++ [x])
  | (x, Some t) :: _ => Some (acc ++ [x], t)
  end.
Definition cons_into_vec (a d : value) : option (list value * value) :=
  into_vec_loop (into_iter_items a d) [].

(* Iter: the cells visited *)
Fixpoint iter_cells (a d : value) : list (value * value) :=
  (a, d) :: match d with Cons a' d' => iter_cells a' d' | _ => [] end.

(* Value::to_vec / Value::to_ref_vec *)
Definition value_to_vec (v : value) : option (list value) :=
  match v with
  | Null => Some []
  | Cons a d => let '(xs, t) := cons_to_vec a d in if is_null t then Some xs else None
  | _ => None
  end.

(* ListIter (cons.rs) *)
Inductive list_cursor :=
| LCons (a d : value)
| LDot (v : value)
| LRest (v : value)
| LExhausted.

Definition list_iter_next (c : list_cursor) : option value * list_cursor :=
  match c with
  | LCons a d =>
      (Some a, match d with
               | Cons a' d' => LCons a' d'
               | Null => LExhausted
               | cdr => LDot cdr
               end)
  | LDot v => (None, LRest v)
  | LRest v => (Some v, LExhausted)
  | LExhausted => (None, LExhausted)
  end.

Fixpoint drain (steps : nat) (c : list_cursor) : list (option value) :=
  match steps with
  | O => []
  | S k => let '(o, c') := list_iter_next c in o :: drain k c'
  end.

(* Value::list_iter *)
Definition value_list_iter (v : value) : option list_cursor :=
  match v with
  | Cons a d => Some (LCons a d)
  | Null => Some LExhausted
  | _ => None
  end.

(* Index for usize *)
Fixpoint cons_get (a d : value) (i : N) : option value :=
  if i =? 0 then Some a
  else match d with
       | Cons a' d' => cons_get a' d' (i - 1)
       | _ => None
       end.

Fixpoint nth_N {A} (l : list A) (i : N) : option A :=
  match l with
  | [] => None
  | x :: l' => if i =? 0 then Some x else nth_N l' (i - 1)
  end.

Definition get_usize (v : value) (i : N) : option value :=
  match v with
  | Vector l => nth_N l i
  | Cons a d => cons_get a d i
  | _ => None
  end.

(* match_pair_name / match_pair_key over pair.iter().find_map *)
Definition match_pair_name (name : bytes) (car : value) : option value :=
  match car with
  | Cons k v => match as_name k with
                | Some n => if beq_bytes n name then Some v else None
                | None => None
                end
  | _ => None
  end.

Definition match_pair_key (key : value) (car : value) : option value :=
  match car with
  | Cons k v => if value_eqb k key then Some v else None
  | _ => None
  end.

Fixpoint find_map_cells (f : value -> option value) (a d : value) : option value :=
  match f a with
  | Some r => Some r
  | None => match d with
            | Cons a' d' => find_map_cells f a' d'
            | _ => None
            end
  end.

Definition get_str (v : value) (name : bytes) : option value :=
  match v with Cons a d => find_map_cells (match_pair_name name) a d | _ => None end.
Definition get_value (v : value) (key : value) : option value :=
  match v with Cons a d => find_map_cells (match_pair_key key) a d | _ => None end.

(* ops::Index: unwrap_or(&NIL) *)
Definition index_or_nil (o : option value) : value := match o with Some v => v | None => Nil end.

(* Value::is_list / is_dotted_list *)
Fixpoint all_cells (p : value -> bool) (d : value) : bool :=
  p d && match d with Cons _ d' => all_cells p d' | _ => true end.

Definition is_list (v : value) : bool :=
  match v with
  | Null => true
  | Cons _ d => all_cells (fun c => match c with Null | Cons _ _ => true | _ => false end) d
  | _ => false
  end.
Definition is_dotted_list (v : value) : bool :=
  match v with
  | Null => false
  | Cons _ d => all_cells (fun c => negb (is_null c)) d
  | _ => true
  end.
