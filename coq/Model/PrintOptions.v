(* lexpr::print::Options and the syntax enums (print.rs, syntax.rs) *)
Require Import Base.

Inductive keyword_syntax := KwColonPrefix | KwColonPostfix | KwOctothorpe.
Inductive nil_syntax := NilSymbolS | NilToken | NilEmptyList | NilFalse.
Inductive bool_syntax := BoolToken | BoolSymbol.
Inductive vector_syntax := VecOctothorpe | VecBrackets.
Inductive bytes_syntax := BytesR6RS | BytesR7RS | BytesElisp.
Inductive string_syntax := StrR6RS | StrElisp.
Inductive char_syntax := ChrR6RS | ChrElisp.

Record print_options := {
  po_keyword : keyword_syntax;
  po_nil : nil_syntax;
  po_bool : bool_syntax;
  po_vector : vector_syntax;
  po_bytes : bytes_syntax;
  po_string : string_syntax;
  po_char : char_syntax;
}.

Definition default_po : print_options :=
  {| po_keyword := KwOctothorpe; po_nil := NilToken; po_bool := BoolToken;
     po_vector := VecOctothorpe; po_bytes := BytesR7RS; po_string := StrR6RS;
     po_char := ChrR6RS |}.

Definition elisp_po : print_options :=
  {| po_keyword := KwColonPrefix; po_nil := NilSymbolS; po_bool := BoolSymbol;
     po_vector := VecBrackets; po_bytes := BytesElisp; po_string := StrElisp;
     po_char := ChrElisp |}.

Definition all_po : list print_options :=
  flat_map (fun k => flat_map (fun n => flat_map (fun b => flat_map (fun v =>
  flat_map (fun by_ => flat_map (fun s => map (fun c =>
    {| po_keyword := k; po_nil := n; po_bool := b; po_vector := v;
       po_bytes := by_; po_string := s; po_char := c |})
    [ChrR6RS; ChrElisp]) [StrR6RS; StrElisp]) [BytesR6RS; BytesR7RS; BytesElisp])
    [VecOctothorpe; VecBrackets]) [BoolToken; BoolSymbol])
    [NilSymbolS; NilToken; NilEmptyList; NilFalse])
    [KwColonPrefix; KwColonPostfix; KwOctothorpe].
