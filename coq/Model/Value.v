(* lexpr::Value, lexpr::Number (lexpr/src/value/mod.rs, number.rs) *)
From Coq Require Import SpecFloat.
Require Import Base.

(* f64 is SpecFloat.spec_float at precision 53, emax 1024. *)
Definition f64 := spec_float.
Definition prec := 53%Z.
Definition emax := 1024%Z.

Inductive number :=
| PosInt (n : N)          (* u64 *)
| NegInt (z : Z)          (* i64, negative when built through the public API *)
| Float (f : f64).

Inductive value :=
| Nil
| Null
| Bool (b : bool)
| Number (n : number)
| Char (c : N)            (* Unicode scalar value *)
| String (s : bytes)      (* Box<str>: UTF-8 bytes *)
| Symbol (s : bytes)
| Keyword (s : bytes)
| Bytes (b : bytes)
| Cons (a d : value)
| Vector (l : list value).

(* Induction principle that reaches into vectors. *)
Section value_ind'.
  Variable P : value -> Prop.
  Hypothesis HNil : P Nil.
  Hypothesis HNull : P Null.
  Hypothesis HBool : forall b, P (Bool b).
  Hypothesis HNumber : forall n, P (Number n).
  Hypothesis HChar : forall c, P (Char c).
  Hypothesis HString : forall s, P (String s).
  Hypothesis HSymbol : forall s, P (Symbol s).
  Hypothesis HKeyword : forall s, P (Keyword s).
  Hypothesis HBytes : forall b, P (Bytes b).
  Hypothesis HCons : forall a d, P a -> P d -> P (Cons a d).
  Hypothesis HVector : forall l, Forall P l -> P (Vector l).

  Fixpoint value_ind' (v : value) : P v :=
    match v with
    | Nil => HNil
    | Null => HNull
    | Bool b => HBool b
    | Number n => HNumber n
    | Char c => HChar c
    | String s => HString s
    | Symbol s => HSymbol s
    | Keyword s => HKeyword s
    | Bytes b => HBytes b
    | Cons a d => HCons a d (value_ind' a) (value_ind' d)
    | Vector l =>
        HVector l ((fix go (l : list value) : Forall P l :=
                      match l with
                      | [] => Forall_nil P
                      | x :: xs => Forall_cons x (value_ind' x) (go xs)
                      end) l)
    end.
End value_ind'.

Definition is_cons (v : value) : bool := match v with Cons _ _ => true | _ => false end.
Definition is_null (v : value) : bool := match v with Null => true | _ => false end.

(* Value::append (value/mod.rs): build the chain xs ++ tail. The Rust code
   grows the list through a cursor; the result is this fold. *)
Fixpoint build (xs : list value) (t : value) : value :=
  match xs with
  | [] => t
  | x :: xs' => Cons x (build xs' t)
  end.
Definition vlist (xs : list value) : value := build xs Null.

(* f64 equality (IEEE ==) as derived PartialEq uses it. *)
Definition f64_eqb (a b : f64) : bool :=
  match SFcompare a b with Some Eq => true | _ => false end.

Definition number_eqb (a b : number) : bool :=
  match a, b with
  | PosInt x, PosInt y => x =? y
  | NegInt x, NegInt y => (x =? y)%Z
  | Float x, Float y => f64_eqb x y
  | _, _ => false
  end.

Fixpoint value_eqb (a b : value) {struct a} : bool :=
  match a, b with
  | Nil, Nil => true
  | Null, Null => true
  | Bool x, Bool y => Bool.eqb x y
  | Number x, Number y => number_eqb x y
  | Char x, Char y => x =? y
  | String x, String y => beq_bytes x y
  | Symbol x, Symbol y => beq_bytes x y
  | Keyword x, Keyword y => beq_bytes x y
  | Bytes x, Bytes y => beq_bytes x y
  | Cons a1 d1, Cons a2 d2 => value_eqb a1 a2 && value_eqb d1 d2
  | Vector l1, Vector l2 =>
      (fix go (l1 l2 : list value) : bool :=
         match l1, l2 with
         | [], [] => true
         | x :: l1', y :: l2' => value_eqb x y && go l1' l2'
         | _, _ => false
         end) l1 l2
  | _, _ => false
  end.
