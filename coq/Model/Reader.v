(* The three input sources (parse/read.rs: StrRead, SliceRead, IoRead with
   io::Bytes and LineColIterator), positions, errors, and the state monad the
   parser is written in. *)
Require Import Base.

Inductive src_kind := SrcStr | SrcSlice | SrcIo.

(* What the underlying io::Read delivers, one entry per byte requested by
   io::Bytes: a byte, an Interrupted error (retried by io::Bytes), or a hard
   error. For &str and &[u8] input every event is a byte. *)
Inductive event := EByte (b : N) | EInterrupted | EFail (e : N).

Record reader := {
  rk : src_kind;
  rline : N;              (* position of the bytes consumed so far ...      *)
  rcol : N;               (* ... not counting a byte that is only peeked    *)
  rpending : bool;        (* IoRead.ch holds the byte at the head of rinput *)
  rinput : list event;
}.

Definition mk_reader (k : src_kind) (inp : list event) : reader :=
  {| rk := k; rline := 1; rcol := 0; rpending := false; rinput := inp |}.

Definition bytes_events (s : bytes) : list event := map EByte s.

(* io::Bytes::next retries on Interrupted *)
Fixpoint skip_intr (l : list event) : list event :=
  match l with
  | EInterrupted :: l' => skip_intr l'
  | _ => l
  end.

Definition advance (line col : N) (b : N) : N * N :=
  if b =? 10 then (line + 1, 0) else (line, col + 1).

Inductive errcode :=
| EofWhileParsingList | EofWhileParsingVector | EofWhileParsingString | EofWhileParsingValue
| EofWhileParsingCharacterConstant
| ExpectedSomeIdent | MismatchedParenthesis | ExpectedSomeValue | ExpectedVector | ExpectedOctet
| InvalidEscape | InvalidNumber | InvalidSymbol | NumberOutOfRange | InvalidUnicodeCodePoint
| InvalidCharacterConstant | TrailingCharacters | RecursionLimitExceeded.

Inductive category := CatIo | CatSyntax | CatEof.

(* Error::classify *)
Definition classify_code (c : errcode) : category :=
  match c with
  | EofWhileParsingList | EofWhileParsingString | EofWhileParsingVector | EofWhileParsingValue
  | EofWhileParsingCharacterConstant => CatEof
  | _ => CatSyntax
  end.

(* Errors of reader-level code (scanners, numbers, tokens). There is no panic
   constructor at this level: that code has no unwrap/expect/unreachable! that
   the model needs, so it cannot panic by construction. *)
Inductive perr :=
| ESyntax (c : errcode) (line col : N)
| EIo (e : N)
| EFuel.                    (* model artefact: fuel exhausted *)

Definition classify (e : perr) : option category :=
  match e with
  | ESyntax c _ _ => Some (classify_code c)
  | EIo _ => Some CatIo
  | EFuel => None
  end.

Inductive res (A : Type) := Ok (a : A) | Err (e : perr).
Arguments Ok {A} a.
Arguments Err {A} e.

(* ---- Read::{peek, next, discard, position, peek_position} ---- *)

Definition r_peek (r : reader) : res (option N) * reader :=
  if rpending r then
    match rinput r with
    | EByte b :: _ => (Ok (Some b), r)
    | _ => (Ok None, r)          (* not reachable: pending implies a byte at the head *)
    end
  else
    match skip_intr (rinput r) with
    | [] => (Ok None, {| rk := rk r; rline := rline r; rcol := rcol r; rpending := false; rinput := [] |})
    | EFail e :: l' =>
        (Err (EIo e), {| rk := rk r; rline := rline r; rcol := rcol r; rpending := false; rinput := l' |})
    | EByte b :: l' =>
        (Ok (Some b), {| rk := rk r; rline := rline r; rcol := rcol r; rpending := true; rinput := EByte b :: l' |})
    | EInterrupted :: l' =>       (* not reachable after skip_intr *)
        (Ok None, r)
    end.

Definition consume (r : reader) (b : N) (l' : list event) : reader :=
  let '(ln, cl) := advance (rline r) (rcol r) b in
  {| rk := rk r; rline := ln; rcol := cl; rpending := false; rinput := l' |}.

Definition r_next (r : reader) : res (option N) * reader :=
  match (if rpending r then rinput r else skip_intr (rinput r)) with
  | [] => (Ok None, {| rk := rk r; rline := rline r; rcol := rcol r; rpending := false; rinput := [] |})
  | EFail e :: l' =>
      (Err (EIo e), {| rk := rk r; rline := rline r; rcol := rcol r; rpending := false; rinput := l' |})
  | EByte b :: l' => (Ok (Some b), consume r b l')
  | EInterrupted :: l' => (Ok None, r)
  end.

(* Only valid after a successful peek. SliceRead bumps its index; IoRead clears ch. *)
Definition r_discard (r : reader) : reader :=
  match rk r with
  | SrcIo =>
      if rpending r then
        match rinput r with EByte b :: l' => consume r b l' | _ => r end
      else r
  | _ =>
      match rinput r with EByte b :: l' => consume r b l' | _ => r end
  end.

(* Position of the most recent next(): the bytes consumed so far. *)
Definition r_position (r : reader) : N * N := (rline r, rcol r).

(* Position of the most recent peek(): SliceRead reports the position after
   the next byte (capped at the end); IoRead the counters of its iterator,
   which include a pending peeked byte. *)
Definition r_peek_position (r : reader) : N * N :=
  match rk r with
  | SrcIo =>
      if rpending r then
        match rinput r with EByte b :: _ => advance (rline r) (rcol r) b | _ => (rline r, rcol r) end
      else (rline r, rcol r)
  | _ =>
      match rinput r with EByte b :: _ => advance (rline r) (rcol r) b | _ => (rline r, rcol r) end
  end.

(* ---- the reader-level state monad ---- *)
(* Everything below the nesting structure (scanners, numbers, tokens) only
   touches the reader; the parser proper adds the nesting budget on top
   (Parser.v). *)

Definition M (A : Type) := reader -> res A * reader.

Definition ret {A} (a : A) : M A := fun s => (Ok a, s).
Definition fail {A} (e : perr) : M A := fun s => (Err e, s).
Definition bind {A B} (m : M A) (f : A -> M B) : M B :=
  fun s => match m s with
           | (Ok a, s') => f a s'
           | (Err e, s') => (Err e, s')
           end.
Notation "x <- m ;; k" := (bind m (fun x => k)) (at level 61, m at next level, right associativity).
Notation "m ;;; k" := (bind m (fun _ => k)) (at level 61, right associativity).

Definition peek : M (option N) := r_peek.
Definition next_char : M (option N) := r_next.
Definition eat_char : M unit := fun s => (Ok tt, r_discard s).
Definition peek_or_null : M N :=
  o <- peek ;; ret (match o with Some b => b | None => 0 end).

(* Parser::error / Parser::peek_error / read::error *)
Definition error {A} (c : errcode) : M A :=
  fun s => let '(l, cl) := r_position s in (Err (ESyntax c l cl), s).
Definition peek_error {A} (c : errcode) : M A :=
  fun s => let '(l, cl) := r_peek_position s in (Err (ESyntax c l cl), s).
Definition position : M (N * N) := fun s => (Ok (r_position s), s).

Definition out_of_fuel {A} : M A := fail EFuel.
