(* The parser proper (parse/mod.rs): whitespace, tokens, next_value with
   parse_list / parse_vector / parse_byte_list, end_seq, expect_*, from_trait,
   the iterators; and the location-tracking duplicate next_datum with
   parse_list_meta / parse_vector_meta (datum.rs for the span structure). *)
From Coq Require Import SpecFloat.
Require Import Base Value Float PrintOptions ParseOptions Utf8 Reader Scan Num NumberOps.

Inductive token :=
| TNull | TNil | TBool (b : bool) | TChar (c : N) | TNumber (n : number)
| TSymbol (s : bytes) | TKeyword (s : bytes) | TString (s : bytes) | TBytes (b : bytes)
| TListOpen (close : N) | TQuotation (name : bytes) | TVecOpen (close : N) | TByteVecOpen (close : N).

(* parse/mod.rs is_delimiter *)
Definition is_delimiter (c : N) : bool := is_ascii_whitespace c || memb c [124; 40; 41; 91; 93; 34; 59].
(* is_sign_subsequent *)
Definition is_sign_subsequent (c : N) : bool :=
  is_ascii_alpha c || memb c (s2b "!$%&*/:<=>?@^_~-+@").
Definition SYMBOL_EXTENDED : bytes := s2b "!$%&*./:<=>?@^_~".

Definition initial_depth : N := 128.

(* spans and datums (datum.rs) *)
Definition pos := (N * N)%type.
Record span := { sp_start : pos; sp_end : pos }.
Definition span_empty : span := {| sp_start := (0, 0); sp_end := (0, 0) |}.
Inductive span_info :=
| SPrim (sp : span)
| SCons (sp : span) (car cdr : span_info)
| SVec (sp : span) (l : list span_info).
Definition info_span (i : span_info) : span :=
  match i with SPrim s => s | SCons s _ _ => s | SVec s _ => s end.
Record datum := { dvalue : value; dinfo : span_info }.

Section Parser.
  Variable ro : parse_options.
  Variable alpha : N -> bool.              (* char::is_alphabetic *)
  Variable fast : bool.                    (* feature fast-float-parsing *)
  Variable std_parse : N -> Z -> f64.      (* str::parse::<f64> *)

  (* parse_whitespace *)
  Fixpoint skip_comment (fuel : nat) : M bool :=   (* true: newline found; false: end of input *)
    match fuel with
    | O => out_of_fuel
    | S f =>
        o <- next_char ;;
        match o with
        | Some c => if c =? 10 then ret true else skip_comment f
        | None => ret false
        end
    end.

  Fixpoint parse_whitespace (fuel : nat) : M (option N) :=
    match fuel with
    | O => out_of_fuel
    | S f =>
        o <- peek ;;
        match o with
        | Some c =>
            if c =? 59 then
              more <- skip_comment f ;;
              (if more then parse_whitespace f else ret None)
            else if memb c [32; 10; 9; 13; 12] then eat_char ;;; parse_whitespace f
            else ret (Some c)
        | None => ret None
        end
    end.

  (* parse_symbol / parse_symbol_suffix / parse_symbol_scratch_suffix *)
  Definition parse_symbol (fuel : nat) : M bytes := parse_symbol_rd fuel [].
  Definition parse_symbol_suffix (fuel : nat) (prefix : bytes) : M bytes := parse_symbol_rd fuel prefix.

  Definition ends_with_colon (name : bytes) : bool :=
    match rev name with 58 :: _ => true | _ => false end.

  (* symbol_token *)
  Definition symbol_token (name : bytes) : token :=
    if ro_kw_postfix ro && (1 <? length name)%nat && ends_with_colon name then
      TKeyword (removelast name)
    else if (match ro_nil ro with NsDefault => false | _ => true end) && beq_bytes name (s2b "nil") then
      match ro_nil ro with
      | NsEmptyList => TNull
      | NsSpecial => TNil
      | NsDefault => TSymbol name
      end
    else if (match ro_t ro with TsDefault => false | _ => true end) && beq_bytes name (s2b "t") then
      TBool true
    else TSymbol name.

  (* symbol_value *)
  Definition symbol_value (name : bytes) : value :=
    match symbol_token name with
    | TKeyword k => Keyword k
    | TSymbol s => Symbol s
    | TNull => Null
    | TNil => Nil
    | TBool b => Bool b
    | _ => Nil
    end.

  (* expect_ident *)
  Fixpoint expect_ident (ident : bytes) : M unit :=
    match ident with
    | [] => ret tt
    | c :: rest =>
        o <- next_char ;;
        match o with
        | Some b => if b =? c then expect_ident rest else error ExpectedSomeIdent
        | None => error EofWhileParsingValue
        end
    end.

  (* parse_num_token *)
  Definition parse_num_token (fuel : nat) (radix : N) (pos_ : bool) : M number :=
    n <- parse_num_literal fast std_parse fuel radix pos_ ;;
    o <- peek ;;
    match o with
    | Some c => if is_delimiter c then ret n else peek_error InvalidNumber
    | None => ret n
    end.

  (* parse_radix_literal *)
  Definition parse_radix_literal (fuel : nat) (radix : N) : M number :=
    c <- peek_or_null ;;
    if c =? 45 then eat_char ;;; parse_num_token fuel radix false
    else if c =? 43 then eat_char ;;; parse_num_token fuel radix true
    else parse_num_token fuel radix true.

  (* parse_number *)
  Definition parse_number (fuel : nat) : M number :=
    c <- peek_or_null ;;
    if c =? 35 then
      eat_char ;;;
      o <- next_char ;;
      match o with
      | Some x =>
          if x =? 98 then parse_radix_literal fuel 2
          else if x =? 111 then parse_radix_literal fuel 8
          else if x =? 100 then parse_radix_literal fuel 10
          else if x =? 120 then parse_radix_literal fuel 16
          else peek_error InvalidNumber
      | None => peek_error EofWhileParsingValue
      end
    else parse_radix_literal fuel 10.

  (* The digit-initial arm with leading_digit_symbols: the symbol text is fed
     to a fresh slice parser; a number only if all of it is consumed. *)
  Definition number_of_symbol (fuel : nat) (symbol : bytes) : option number :=
    let s0 := mk_reader SrcSlice (bytes_events symbol) in
    match parse_num_literal fast std_parse fuel 10 true s0 with
    | (Ok n, s1) => match r_peek s1 with
                    | (Ok None, _) => Some n
                    | _ => None
                    end
    | _ => None
    end.

  (* parse_token *)
  Definition parse_token (fuel : nat) (peek_b : N) : M token :=
    if peek_b =? 35 then                                   (* # *)
      eat_char ;;;
      o <- next_char ;;
      match o with
      | None => peek_error EofWhileParsingValue
      | Some c =>
          if c =? 116 then ret (TBool true)
          else if c =? 102 then ret (TBool false)
          else if c =? 110 then expect_ident (s2b "il") ;;; ret TNil
          else if c =? 40 then ret (TVecOpen 41)
          else if (c =? 58) && ro_kw_octo ro then s <- parse_symbol fuel ;; ret (TKeyword s)
          else if c =? 118 then expect_ident (s2b "u8") ;;; ret (TByteVecOpen 41)
          else if c =? 117 then expect_ident (s2b "8") ;;; ret (TByteVecOpen 41)
          else if c =? 98 then n <- parse_radix_literal fuel 2 ;; ret (TNumber n)
          else if c =? 111 then n <- parse_radix_literal fuel 8 ;; ret (TNumber n)
          else if c =? 100 then n <- parse_radix_literal fuel 10 ;; ret (TNumber n)
          else if c =? 120 then n <- parse_radix_literal fuel 16 ;; ret (TNumber n)
          else if c =? 92 then ch <- parse_r6rs_char fuel ;; ret (TChar ch)
          else if (c =? 37) && ro_racket ro then s <- parse_symbol_suffix fuel (s2b "#%") ;; ret (TSymbol s)
          else peek_error ExpectedSomeIdent
      end
    else if (peek_b =? 45) || (peek_b =? 43) then          (* - + *)
      eat_char ;;;
      nx <- peek_or_null ;;
      if (nx =? 0) || is_delimiter nx || is_sign_subsequent nx || (nx =? 46) || (127 <? nx) then
        name <- parse_symbol_suffix fuel [peek_b] ;; ret (symbol_token name)
      else n <- parse_num_token fuel 10 (peek_b =? 43) ;; ret (TNumber n)
    else if is_digit peek_b then
      if ro_digit ro then
        symbol <- parse_symbol fuel ;;
        match number_of_symbol fuel symbol with
        | Some n => ret (TNumber n)
        | None => ret (symbol_token symbol)
        end
      else n <- parse_num_token fuel 10 true ;; ret (TNumber n)
    else if peek_b =? 34 then                              (* string *)
      eat_char ;;;
      match ro_string ro with
      | StrR6RS => s <- parse_r6rs_str_rd fuel ;; ret (TString s)
      | StrElisp =>
          e <- parse_elisp_str_rd fuel ;;
          match e with
          | ElMultibyte s => ret (TString s)
          | ElUnibyte b => ret (TBytes b)
          end
      end
    else if peek_b =? 40 then eat_char ;;; ret (TListOpen 41)
    else if peek_b =? 91 then
      eat_char ;;;
      match ro_brackets ro with
      | BrVector => ret (TVecOpen 93)
      | BrList => ret (TListOpen 93)
      end
    else if peek_b =? 58 then
      if ro_kw_prefix ro then eat_char ;;; s <- parse_symbol fuel ;; ret (TKeyword s)
      else s <- parse_symbol fuel ;; ret (TSymbol s)
    else if is_ascii_alpha peek_b then
      name <- parse_symbol fuel ;; ret (symbol_token name)
    else if (peek_b =? 63) && (match ro_char ro with ChrElisp => true | ChrR6RS => false end) then
      eat_char ;;; c <- parse_elisp_char fuel ;; ret (TChar c)
    else if peek_b =? 39 then eat_char ;;; ret (TQuotation (s2b "quote"))
    else if peek_b =? 96 then eat_char ;;; ret (TQuotation (s2b "quasiquote"))
    else if peek_b =? 44 then
      eat_char ;;;
      nx <- peek_or_null ;;
      if nx =? 64 then eat_char ;;; ret (TQuotation (s2b "unquote-splicing"))
      else ret (TQuotation (s2b "unquote"))
    else if 127 <? peek_b then
      eat_char ;;;
      r <- decode_utf8_sequence_b peek_b ;;
      if negb (alpha (snd r)) then peek_error ExpectedSomeValue
      else name <- parse_symbol_suffix fuel (fst r) ;; ret (symbol_token name)
    else if memb peek_b SYMBOL_EXTENDED then
      name <- parse_symbol fuel ;; ret (symbol_token name)
    else
      (fun s => let '(r, s') := peek_error (A := token) ExpectedSomeValue s in
                (r, r_discard s')).

  (* end_seq *)
  Definition end_seq (fuel : nat) (close : N) : M unit :=
    o <- parse_whitespace fuel ;;
    match o with
    | Some b => if b =? close then eat_char else peek_error TrailingCharacters
    | None => peek_error EofWhileParsingList
    end.

  (* expect_end *)
  Definition expect_end (fuel : nat) : M unit :=
    o <- parse_whitespace fuel ;;
    match o with
    | Some _ => peek_error TrailingCharacters
    | None => ret tt
    end.

  (* parse_byte_list *)
  Fixpoint byte_list_loop (fuel : nat) (close : N) (acc : bytes) : M bytes :=
    match fuel with
    | O => out_of_fuel
    | S f =>
        o <- parse_whitespace f ;;
        match o with
        | Some c =>
            if c =? close then eat_char ;;; ret acc
            else
              n <- parse_number f ;;
              match num_as_u64 n with
              | None => peek_error ExpectedOctet
              | Some u => if 255 <? u then peek_error ExpectedOctet else byte_list_loop f close (acc ++ [u])
              end
        | None => peek_error EofWhileParsingList
        end
    end.

  Definition parse_byte_list (fuel : nat) (close : N) : M bytes :=
    o <- parse_whitespace fuel ;;
    match o with
    | Some c => if c =? 40 then eat_char ;;; byte_list_loop fuel close []
                else peek_error ExpectedVector
    | None => peek_error EofWhileParsingList
    end.

  Definition is_closer (c : N) : bool := (c =? 41) || (c =? 93).

  (* ends_symbol on the byte after a dot inside a list: the dot stands alone when
     the symbol scanner would stop there *)
  Definition lone_dot (o : option N) : bool :=
    match o with None => true | Some c => is_symbol_terminator c end.

  (* ---- the parser state: reader + remaining_depth ---- *)
  Record pstate := { rd : reader; depth : N }.

  (* errors of the parser proper: a reader-level error, or a panic site
     (unwrap/expect/unreachable!/arithmetic overflow in a debug build) *)
  Inductive xerr := XErr (e : perr) | XPanic (site : N).
  Inductive pres (A : Type) := POk (a : A) | PErr (e : xerr).
  Arguments POk {A} a.
  Arguments PErr {A} e.

  Definition PM (A : Type) := pstate -> pres A * pstate.
  Definition pret {A} (a : A) : PM A := fun s => (POk a, s).
  Definition pfail {A} (e : xerr) : PM A := fun s => (PErr e, s).
  Definition pbind {A B} (m : PM A) (f : A -> PM B) : PM B :=
    fun s => match m s with
             | (POk a, s') => f a s'
             | (PErr e, s') => (PErr e, s')
             end.
  (* a reader-level action inside the parser *)
  Definition liftR {A} (m : M A) : PM A :=
    fun s => match m (rd s) with
             | (Ok a, rd') => (POk a, {| rd := rd'; depth := depth s |})
             | (Err e, rd') => (PErr (XErr e), {| rd := rd'; depth := depth s |})
             end.
  Definition get_depth : PM N := fun s => (POk (depth s), s).
  Definition set_depth (d : N) : PM unit := fun s => (POk tt, {| rd := rd s; depth := d |}).
  Definition panic {A} (site : N) : PM A := pfail (XPanic site).

  (* run m, handing back its result instead of propagating a parse error;
     model artefacts (fuel, panic) still propagate *)
  Definition attempt {A} (m : PM A) : PM (res A) :=
    fun s => match m s with
             | (POk a, s') => (POk (Ok a), s')
             | (PErr (XErr EFuel), s') => (PErr (XErr EFuel), s')
             | (PErr (XPanic k), s') => (PErr (XPanic k), s')
             | (PErr (XErr e), s') => (POk (Err e), s')
             end.
  Definition lift {A} (r : res A) : PM A :=
    match r with Ok a => pret a | Err e => pfail (XErr e) end.

  (* self.remaining_depth -= 1 (u8: a debug build panics on underflow) *)
  Definition dec_depth : PM unit :=
    pbind get_depth (fun d => if d =? 0 then panic 1 else set_depth (d - 1)).
  Definition inc_depth : PM unit :=
    pbind get_depth (fun d => if 255 <=? d then panic 2 else set_depth (d + 1)).
  (* the nesting prologue shared by lists, vectors and quotations *)
  Definition enter_nesting : PM unit :=
    pbind dec_depth (fun _ =>
    pbind get_depth (fun d =>
    if d =? 0 then pbind inc_depth (fun _ => liftR (peek_error RecursionLimitExceeded)) else pret tt)).

  (* combine (ret, end_seq) as the match on the tuple does *)
  Definition both {A} (ret_ : res A) (endr : res unit) : PM A :=
    match ret_, endr with
    | Ok a, Ok _ => pret a
    | Err e, _ => pfail (XErr e)
    | _, Err e => pfail (XErr e)
    end.

  Notation "x <-- m ;; k" := (pbind m (fun x => k)) (at level 61, m at next level, right associativity).
  Notation "m ;;;; k" := (pbind m (fun _ => k)) (at level 61, right associativity).

  (* next_value, parse_list, parse_vector *)
  Fixpoint next_value (fuel : nat) : PM (option value) :=
    match fuel with
    | O => pfail (XErr EFuel)
    | S f =>
        o <-- liftR (parse_whitespace f) ;;
        match o with
        | None => pret None
        | Some peek_b =>
            tok <-- liftR (parse_token f peek_b) ;;
            match tok with
            | TNil => pret (Some Nil)
            | TNull => pret (Some Null)
            | TChar c => pret (Some (Char c))
            | TBool b => pret (Some (Bool b))
            | TNumber n => pret (Some (Number n))
            | TSymbol s => pret (Some (Symbol s))
            | TKeyword s => pret (Some (Keyword s))
            | TString s => pret (Some (String s))
            | TBytes b => pret (Some (Bytes b))
            | TByteVecOpen close => b <-- liftR (parse_byte_list f close) ;; pret (Some (Bytes b))
            | TVecOpen close =>
                enter_nesting ;;;;
                r <-- attempt (parse_vector f close []) ;;
                inc_depth ;;;;
                e <-- attempt (liftR (end_seq f close)) ;;
                els <-- both r e ;;
                pret (Some (Vector els))
            | TListOpen close =>
                enter_nesting ;;;;
                r <-- attempt (parse_list f close []) ;;
                inc_depth ;;;;
                e <-- attempt (liftR (end_seq f close)) ;;
                l <-- both r e ;;
                pret (Some l)
            | TQuotation name =>
                enter_nesting ;;;;
                r <-- attempt (next_value f) ;;
                inc_depth ;;;;
                o <-- lift r ;;
                match o with
                | Some d => pret (Some (vlist [Symbol name; d]))
                | None => liftR (peek_error EofWhileParsingList)
                end
            end
        end
    end
  with parse_list (fuel : nat) (terminator : N) (acc : list value) : PM value :=
    match fuel with
    | O => pfail (XErr EFuel)
    | S f =>
        o <-- liftR (parse_whitespace f) ;;
        match o with
        | None => liftR (peek_error EofWhileParsingList)
        | Some c =>
            if is_closer c then
              (if negb (c =? terminator) then liftR (peek_error MismatchedParenthesis)
               else pret (build acc Null))
            else if c =? 46 then
              nx <-- liftR (eat_char ;;; peek) ;;
              if lone_dot nx then
                match acc with
                | [] =>
                    o3 <-- liftR peek ;;
                    match o3 with
                    | Some _ => liftR (peek_error ExpectedSomeValue)
                    | None => liftR (peek_error EofWhileParsingList)
                    end
                | _ =>
                    ov <-- next_value f ;;
                    match ov with
                    | None => liftR (peek_error EofWhileParsingValue)
                    | Some cdr =>
                        o2 <-- liftR (parse_whitespace f) ;;
                        match o2 with
                        | Some c2 => if c2 =? terminator then pret (build acc cdr)
                                     else liftR (peek_error TrailingCharacters)
                        | None => liftR (peek_error EofWhileParsingList)
                        end
                    end
                end
              else
                name <-- liftR (parse_symbol_suffix f [46]) ;;
                parse_list f terminator (acc ++ [symbol_value name])
            else
              ov <-- next_value f ;;
              match ov with
              | None => liftR (peek_error EofWhileParsingValue)
              | Some v => parse_list f terminator (acc ++ [v])
              end
        end
    end
  with parse_vector (fuel : nat) (terminator : N) (acc : list value) : PM (list value) :=
    match fuel with
    | O => pfail (XErr EFuel)
    | S f =>
        o <-- liftR (parse_whitespace f) ;;
        match o with
        | None => liftR (peek_error EofWhileParsingVector)
        | Some c =>
            if is_closer c then
              (if negb (c =? terminator) then liftR (peek_error MismatchedParenthesis) else pret acc)
            else
              ov <-- next_value f ;;
              match ov with
              | None => liftR (peek_error EofWhileParsingValue)
              | Some v => parse_vector f terminator (acc ++ [v])
              end
        end
    end.

  (* expect_value *)
  Definition expect_value (fuel : nat) : PM value :=
    o <-- next_value fuel ;;
    match o with Some v => pret v | None => liftR (peek_error EofWhileParsingValue) end.

  (* ---- the location-tracking duplicate ---- *)

  Definition mk_span (a b : pos) : span := {| sp_start := a; sp_end := b |}.
  Definition prim_datum (v : value) (a b : pos) : datum :=
    {| dvalue := v; dinfo := SPrim (mk_span a b) |}.

  (* the [SpanInfo; 2] chain parse_list_meta builds for elements and tail *)
  Fixpoint chain_meta (ms : list span_info) (tail_meta : span_info) : span_info :=
    match ms with
    | [] => tail_meta
    | m :: ms' => SCons span_empty m (chain_meta ms' tail_meta)
    end.
  Definition list_meta (m1 : span_info) (ms : list span_info) (tail_meta : span_info)
    : span_info * span_info := (m1, chain_meta ms tail_meta).

  Definition null_meta : span_info := SPrim span_empty.

  (* Datum::quotation *)
  Definition quotation_datum (name : bytes) (quoted : datum) (quote_span : span) : datum :=
    let qi := dinfo quoted in
    let qend := sp_end (info_span qi) in
    {| dvalue := vlist [Symbol name; dvalue quoted];
       dinfo := SCons (mk_span (sp_start quote_span) qend)
                      (SPrim quote_span)
                      (SCons (info_span qi) qi (SPrim (mk_span qend qend))) |}.

  (* Datum::cons / the Null case, from what parse_list_meta collected *)
  Definition list_datum (l : list datum * option datum) (start e_pos : pos) : datum :=
    match l with
    | ([], _) => prim_datum Null start e_pos
    | (d1 :: ds, tail) =>
        let tail_meta := match tail with Some t => dinfo t | None => null_meta end in
        let tail_val := match tail with Some t => dvalue t | None => Null end in
        let '(m0, m1) := list_meta (dinfo d1) (map dinfo ds) tail_meta in
        {| dvalue := build (map dvalue (d1 :: ds)) tail_val;
           dinfo := SCons (mk_span start e_pos) m0 m1 |}
    end.

  Fixpoint next_datum (fuel : nat) : PM (option datum) :=
    match fuel with
    | O => pfail (XErr EFuel)
    | S f =>
        o <-- liftR (parse_whitespace f) ;;
        match o with
        | None => pret None
        | Some peek_b =>
            start <-- liftR position ;;
            tok <-- liftR (parse_token f peek_b) ;;
            let prim v := (e <-- liftR position ;; pret (Some (prim_datum v start e))) in
            match tok with
            | TNil => prim Nil
            | TNull => prim Null
            | TChar c => prim (Char c)
            | TBool b => prim (Bool b)
            | TNumber n => prim (Number n)
            | TSymbol s => prim (Symbol s)
            | TKeyword s => prim (Keyword s)
            | TString s => prim (String s)
            | TBytes b => prim (Bytes b)
            | TByteVecOpen close => b <-- liftR (parse_byte_list f close) ;; prim (Bytes b)
            | TVecOpen close =>
                enter_nesting ;;;;
                r <-- attempt (parse_vector_meta f close []) ;;
                inc_depth ;;;;
                e <-- attempt (liftR (end_seq f close)) ;;
                els <-- both r e ;;
                e_pos <-- liftR position ;;
                pret (Some {| dvalue := Vector (map dvalue els);
                              dinfo := SVec (mk_span start e_pos) (map dinfo els) |})
            | TListOpen close =>
                enter_nesting ;;;;
                r <-- attempt (parse_list_meta f close []) ;;
                inc_depth ;;;;
                e <-- attempt (liftR (end_seq f close)) ;;
                l <-- both r e ;;
                e_pos <-- liftR position ;;
                pret (Some (list_datum l start e_pos))
            | TQuotation name =>
                token_end <-- liftR position ;;
                enter_nesting ;;;;
                r <-- attempt (next_datum f) ;;
                inc_depth ;;;;
                o <-- lift r ;;
                match o with
                | Some d => pret (Some (quotation_datum name d (mk_span start token_end)))
                | None => liftR (peek_error EofWhileParsingList)
                end
            end
        end
    end
  with parse_list_meta (fuel : nat) (terminator : N) (acc : list datum)
       : PM (list datum * option datum) :=
    match fuel with
    | O => pfail (XErr EFuel)
    | S f =>
        o <-- liftR (parse_whitespace f) ;;
        match o with
        | None => liftR (peek_error EofWhileParsingList)
        | Some c =>
            if is_closer c then
              (if negb (c =? terminator) then liftR (peek_error MismatchedParenthesis)
               else pret (acc, None))
            else if c =? 46 then
              start <-- liftR position ;;
              nx <-- liftR (eat_char ;;; peek) ;;
              if lone_dot nx then
                match acc with
                | [] =>
                    o3 <-- liftR peek ;;
                    match o3 with
                    | Some _ => liftR (peek_error ExpectedSomeValue)
                    | None => liftR (peek_error EofWhileParsingList)
                    end
                | _ =>
                    od <-- next_datum f ;;
                    match od with
                    | None => liftR (peek_error EofWhileParsingValue)
                    | Some cdr =>
                        o2 <-- liftR (parse_whitespace f) ;;
                        match o2 with
                        | Some c2 => if c2 =? terminator then pret (acc, Some cdr)
                                     else liftR (peek_error TrailingCharacters)
                        | None => liftR (peek_error EofWhileParsingList)
                        end
                    end
                end
              else
                name <-- liftR (parse_symbol_suffix f [46]) ;;
                e <-- liftR position ;;
                parse_list_meta f terminator (acc ++ [prim_datum (symbol_value name) start e])
            else
              od <-- next_datum f ;;
              match od with
              | None => liftR (peek_error EofWhileParsingValue)
              | Some d => parse_list_meta f terminator (acc ++ [d])
              end
        end
    end
  with parse_vector_meta (fuel : nat) (terminator : N) (acc : list datum) : PM (list datum) :=
    match fuel with
    | O => pfail (XErr EFuel)
    | S f =>
        o <-- liftR (parse_whitespace f) ;;
        match o with
        | None => liftR (peek_error EofWhileParsingVector)
        | Some c =>
            if is_closer c then
              (if negb (c =? terminator) then liftR (peek_error MismatchedParenthesis) else pret acc)
            else
              od <-- next_datum f ;;
              match od with
              | None => liftR (peek_error EofWhileParsingValue)
              | Some d => parse_vector_meta f terminator (acc ++ [d])
              end
        end
    end.

  Definition expect_datum (fuel : nat) : PM datum :=
    o <-- next_datum fuel ;;
    match o with Some d => pret d | None => liftR (peek_error EofWhileParsingValue) end.

  Definition expect_end_p (fuel : nat) : PM unit := liftR (expect_end fuel).

  (* ---- entry points ---- *)

  Definition init_state (k : src_kind) (inp : list event) : pstate :=
    {| rd := mk_reader k inp; depth := initial_depth |}.

  (* enough fuel for any input: every loop iteration and every recursive
     call either consumes a byte or is one of a bounded number of steps
     between two consumptions *)
  Definition fuel_for (inp : list event) : nat := (3 * length inp + 600)%nat.

  (* from_trait: expect_value then expect_end *)
  Definition from_trait (k : src_kind) (inp : list event) : pres value :=
    let fuel := fuel_for inp in
    fst ((v <-- expect_value fuel ;; expect_end_p fuel ;;;; pret v) (init_state k inp)).

  (* datum::from_trait *)
  Definition datum_from_trait (k : src_kind) (inp : list event) : pres datum :=
    let fuel := fuel_for inp in
    fst ((d <-- expect_datum fuel ;; expect_end_p fuel ;;;; pret d) (init_state k inp)).

  (* One call of the public API on a parser, as used in call histories. *)
  Inductive call := CallNextValue | CallNextDatum | CallExpectValue | CallExpectDatum | CallExpectEnd.
  Inductive call_result :=
  | RValue (o : option value) | RDatum (o : option datum) | RUnit | RErr (e : xerr).

  Definition run_call (fuel : nat) (c : call) (s : pstate) : call_result * pstate :=
    match c with
    | CallNextValue => match next_value fuel s with (POk o, s') => (RValue o, s') | (PErr e, s') => (RErr e, s') end
    | CallNextDatum => match next_datum fuel s with (POk o, s') => (RDatum o, s') | (PErr e, s') => (RErr e, s') end
    | CallExpectValue => match expect_value fuel s with (POk v, s') => (RValue (Some v), s') | (PErr e, s') => (RErr e, s') end
    | CallExpectDatum => match expect_datum fuel s with (POk d, s') => (RDatum (Some d), s') | (PErr e, s') => (RErr e, s') end
    | CallExpectEnd => match expect_end_p fuel s with (POk _, s') => (RUnit, s') | (PErr e, s') => (RErr e, s') end
    end.

  Fixpoint run_history (fuel : nat) (cs : list call) (s : pstate) : list call_result :=
    match cs with
    | [] => []
    | c :: cs' => let '(r, s') := run_call fuel c s in r :: run_history fuel cs' s'
    end.

  (* value_iter / datum_iter / Iterator for Parser: next() = next_value().transpose();
     collected up to [n] items or the end *)
  Fixpoint iterate_values (fuel : nat) (n : nat) (s : pstate) : list (pres value) :=
    match n with
    | O => []
    | S k =>
        match next_value fuel s with
        | (POk None, _) => []
        | (POk (Some v), s') => POk v :: iterate_values fuel k s'
        | (PErr e, s') => PErr e :: iterate_values fuel k s'
        end
    end.
  Fixpoint iterate_datums (fuel : nat) (n : nat) (s : pstate) : list (pres datum) :=
    match n with
    | O => []
    | S k =>
        match next_datum fuel s with
        | (POk None, _) => []
        | (POk (Some d), s') => POk d :: iterate_datums fuel k s'
        | (PErr e, s') => PErr e :: iterate_datums fuel k s'
        end
    end.
End Parser.
Arguments POk {A} a.
Arguments PErr {A} e.
