(* The scanners of parse/read.rs: symbols, R6RS and Emacs Lisp strings with
   their escapes, character constants, UTF-8 sequences. The slice-based and
   the byte-at-a-time variants are separate definitions, as in the code. *)
Require Import Base Utf8 Reader.

(* symbol terminators (parse_symbol_bytes, both variants); None = end of input *)
Definition is_symbol_terminator (c : N) : bool := memb c [32; 10; 9; 13; 12; 41; 93; 40; 91; 59].

(* read.rs DELIMITER *)
Definition is_delimiter_chr (c : N) : bool := memb c [40; 41; 91; 93; 34; 59; 35; 32; 10; 9; 13; 12].

(* HEX table / decode_hex_val, decode_octal_val *)
Definition decode_hex_val (c : N) : option N :=
  if in_range 48 57 c then Some (c - 48)
  else if in_range 65 70 c then Some (c - 55)
  else if in_range 97 102 c then Some (c - 87)
  else None.
Definition decode_octal_val (c : N) : option N :=
  if in_range 48 55 c then Some (c - 48) else None.

Definition cp_limit : N := 16777216.   (* 1 << 24 *)

Definition next_or_eof : M N :=
  o <- next_char ;; match o with Some b => ret b | None => error EofWhileParsingString end.
Definition next_or_eof_char : M N :=
  o <- next_char ;; match o with Some b => ret b | None => error EofWhileParsingCharacterConstant end.

(* as_str: str::from_utf8 or InvalidUnicodeCodePoint *)
Definition as_str (b : bytes) : M bytes :=
  if utf8_valid b then ret b else error InvalidUnicodeCodePoint.

(* The conversion applied to a scanned symbol / R6RS string: StrRead skips the
   check (from_utf8_unchecked), SliceRead and IoRead validate. *)
Definition finish_str (b : bytes) : M bytes :=
  fun s => match rk s with
           | SrcStr => ret b s
           | _ => as_str b s
           end.

(* ---- symbols ---- *)

(* is_truncated_symbol: at the end of input, a lone `.` or a cut multi-byte
   character may still become a symbol *)
Definition is_truncated_symbol (b : bytes) : bool := beq_bytes b [46] || utf8_truncated b.

(* IoRead::parse_symbol_bytes: peek / discard one byte at a time *)
Fixpoint scan_symbol_io (fuel : nat) (scratch : bytes) : M bytes :=
  match fuel with
  | O => out_of_fuel
  | S f =>
      o <- peek ;;
      match o with
      | Some ch =>
          if is_symbol_terminator ch then
            (if beq_bytes scratch [46] then error InvalidSymbol else ret scratch)
          else eat_char ;;; scan_symbol_io f (scratch ++ [ch])
      | None =>
          if is_truncated_symbol scratch then error EofWhileParsingValue
          else if beq_bytes scratch [46] then error InvalidSymbol else ret scratch
      end
  end.

(* SliceRead::parse_symbol_bytes: advance the index over the slice, then take
   slice[start..index] (borrowed, or appended to the scratch prefix) *)
Fixpoint span_symbol (l : list event) (acc : bytes) : bytes * list event :=
  match l with
  | EByte b :: l' => if is_symbol_terminator b then (acc, l) else span_symbol l' (acc ++ [b])
  | _ => (acc, l)
  end.

Definition advance_over (r : reader) (bs : bytes) (rest : list event) : reader :=
  let '(ln, cl) := fold_left (fun p b => advance (fst p) (snd p) b) bs (rline r, rcol r) in
  {| rk := rk r; rline := ln; rcol := cl; rpending := false; rinput := rest |}.

Definition scan_symbol_slice (scratch : bytes) : M bytes :=
  fun s =>
    let '(scanned, rest) := span_symbol (rinput s) [] in
    let s' := advance_over s scanned rest in
    let whole := scratch ++ scanned in
    let at_eof := match rest with [] => true | _ => false end in
    if at_eof && is_truncated_symbol whole then error EofWhileParsingValue s'
    else if beq_bytes whole [46] then error InvalidSymbol s' else ret whole s'.

(* Read::parse_symbol *)
Definition parse_symbol_rd (fuel : nat) (scratch : bytes) : M bytes :=
  fun s => match rk s with
           | SrcIo => (b <- scan_symbol_io fuel scratch ;; as_str b) s
           | _ => (b <- scan_symbol_slice scratch ;; finish_str b) s
           end.

(* ---- R6RS strings ---- *)

Fixpoint hex_escape_loop (fuel : nat) (n : N) : M N :=
  match fuel with
  | O => out_of_fuel
  | S f =>
      c <- next_or_eof ;;
      if c =? 59 then ret n
      else match decode_hex_val c with
           | None => error EofWhileParsingString
           | Some v => if cp_limit <=? n then error InvalidUnicodeCodePoint
                       else hex_escape_loop f (n * 16 + v)
           end
  end.
(* decode_r6rs_hex_escape *)
Definition decode_r6rs_hex_escape (fuel : nat) : M N := hex_escape_loop fuel 0.

(* parse_r6rs_escape: what is appended to the scratch space *)
Definition parse_r6rs_escape (fuel : nat) : M bytes :=
  ch <- next_or_eof ;;
  if ch =? 34 then ret [34]
  else if ch =? 92 then ret [92]
  else if ch =? 97 then ret [7]
  else if ch =? 98 then ret [8]
  else if ch =? 102 then ret [12]
  else if ch =? 110 then ret [10]
  else if ch =? 114 then ret [13]
  else if ch =? 116 then ret [9]
  else if ch =? 118 then ret [11]
  else if ch =? 124 then ret [124]
  else if ch =? 120 then
    n <- decode_r6rs_hex_escape fuel ;;
    (if is_scalar n then ret (utf8_encode n) else error InvalidUnicodeCodePoint)
  else error InvalidEscape.

(* IoRead::parse_r6rs_str_bytes *)
Fixpoint r6rs_str_io (fuel : nat) (scratch : bytes) : M bytes :=
  match fuel with
  | O => out_of_fuel
  | S f =>
      ch <- next_or_eof ;;
      if ch =? 34 then ret scratch
      else if ch =? 92 then e <- parse_r6rs_escape f ;; r6rs_str_io f (scratch ++ e)
      else r6rs_str_io f (scratch ++ [ch])
  end.

(* SliceRead: run of bytes that need no escape *)
Fixpoint span_plain (l : list event) (acc : bytes) : bytes * list event :=
  match l with
  | EByte b :: l' => if (b =? 92) || (b =? 34) then (acc, l) else span_plain l' (acc ++ [b])
  | _ => (acc, l)
  end.

(* SliceRead::parse_r6rs_str_bytes *)
Fixpoint r6rs_str_slice (fuel : nat) (scratch : bytes) : M bytes :=
  match fuel with
  | O => out_of_fuel
  | S f =>
      fun s =>
        let '(run, rest) := span_plain (rinput s) [] in
        let s1 := advance_over s run rest in
        match rest with
        | EByte b :: rest' =>
            let s2 := consume s1 b rest' in
            if b =? 34 then ret (scratch ++ run) s2
            else (e <- parse_r6rs_escape f ;; r6rs_str_slice f (scratch ++ run ++ e)) s2
        | _ => error EofWhileParsingString s1
        end
  end.

(* Read::parse_r6rs_str *)
Definition parse_r6rs_str_rd (fuel : nat) : M bytes :=
  fun s => match rk s with
           | SrcIo => (b <- r6rs_str_io fuel [] ;; as_str b) s
           | _ => (b <- r6rs_str_slice fuel [] ;; finish_str b) s
           end.

(* ---- Emacs Lisp strings ---- *)

Inductive elisp_escape := EscUnibyte | EscMultibyte | EscIndeterminate.
Inductive elisp_str := ElUnibyte (b : bytes) | ElMultibyte (s : bytes).

(* decode_elisp_hex_escape *)
Fixpoint elisp_hex_loop (fuel : nat) (n : N) : M N :=
  match fuel with
  | O => out_of_fuel
  | S f =>
      o <- peek ;;
      match o with
      | Some c =>
          match decode_hex_val c with
          | None => ret n
          | Some v => eat_char ;;;
                      (if cp_limit <=? n then error InvalidUnicodeCodePoint
                       else elisp_hex_loop f (n * 16 + v))
          end
      | None => ret n
      end
  end.
Definition decode_elisp_hex_escape (fuel : nat) : M N := elisp_hex_loop fuel 0.

(* decode_elisp_uni_escape *)
Fixpoint decode_elisp_uni_escape (count : nat) (n : N) : M N :=
  match count with
  | O => ret n
  | S k =>
      c <- next_or_eof ;;
      match decode_hex_val c with
      | None => error InvalidEscape
      | Some v => if cp_limit <=? n then error InvalidUnicodeCodePoint
                  else decode_elisp_uni_escape k (n * 16 + v)
      end
  end.

(* decode_elisp_octal_escape *)
Fixpoint elisp_octal_loop (fuel : nat) (n : N) : M N :=
  match fuel with
  | O => out_of_fuel
  | S f =>
      o <- peek ;;
      match o with
      | Some c =>
          match decode_octal_val c with
          | None => ret n
          | Some v => eat_char ;;;
                      (if cp_limit <=? n then error InvalidUnicodeCodePoint
                       else elisp_octal_loop f (n * 8 + v))
          end
      | None => ret n
      end
  end.
Definition decode_elisp_octal_escape (fuel : nat) (initial : N) : M N :=
  elisp_octal_loop fuel (initial - 48).

(* parse_elisp_char_escape / parse_elisp_uni_char_escape *)
Definition elisp_char_escape_of (n : N) : M (bytes * elisp_escape) :=
  if is_scalar n then
    (if 255 <? n then ret (utf8_encode n, EscMultibyte) else ret ([n], EscUnibyte))
  else error InvalidUnicodeCodePoint.
Definition elisp_uni_escape_of (n : N) : M (bytes * elisp_escape) :=
  if is_scalar n then ret (utf8_encode n, EscMultibyte) else error InvalidUnicodeCodePoint.

Definition to_ascii_lowercase (c : N) : N := if is_ascii_upper c then c + 32 else c.

(* parse_elisp_escape: bytes appended to the scratch space and the escape class *)
Definition parse_elisp_escape (fuel : nat) : M (bytes * elisp_escape) :=
  ch <- next_or_eof ;;
  if ch =? 34 then ret ([34], EscIndeterminate)
  else if ch =? 92 then ret ([92], EscIndeterminate)
  else if ch =? 32 then ret ([], EscIndeterminate)
  else if ch =? 97 then ret ([7], EscIndeterminate)
  else if ch =? 98 then ret ([8], EscIndeterminate)
  else if ch =? 116 then ret ([9], EscIndeterminate)
  else if ch =? 110 then ret ([10], EscIndeterminate)
  else if ch =? 118 then ret ([11], EscIndeterminate)
  else if ch =? 102 then ret ([12], EscIndeterminate)
  else if ch =? 114 then ret ([13], EscIndeterminate)
  else if ch =? 101 then ret ([27], EscIndeterminate)
  else if ch =? 115 then ret ([32], EscIndeterminate)
  else if ch =? 100 then ret ([127], EscIndeterminate)
  else if ch =? 94 then
    c <- next_or_eof ;;
    let c := to_ascii_lowercase c in
    (if is_ascii_lower c then ret ([c - 97], EscIndeterminate) else error InvalidEscape)
  else if ch =? 78 then
    c1 <- next_or_eof ;;
    (if negb (c1 =? 123) then error InvalidEscape
     else
       c2 <- next_or_eof ;;
       (if negb (c2 =? 85) then error InvalidEscape
        else
          c3 <- next_or_eof ;;
          (if negb (c3 =? 43) then error InvalidEscape
           else
             n <- decode_elisp_hex_escape fuel ;;
             r <- elisp_uni_escape_of n ;;
             c4 <- next_or_eof ;;
             (if negb (c4 =? 125) then error InvalidEscape else ret r))))
  else if ch =? 117 then n <- decode_elisp_uni_escape 4 0 ;; elisp_uni_escape_of n
  else if ch =? 85 then n <- decode_elisp_uni_escape 8 0 ;; elisp_uni_escape_of n
  else if ch =? 120 then n <- decode_elisp_hex_escape fuel ;; elisp_char_escape_of n
  else if in_range 48 55 ch then n <- decode_elisp_octal_escape fuel ch ;; elisp_char_escape_of n
  else ret ([ch], EscIndeterminate).

Record elisp_flags := { seen_ub : bool; seen_mb : bool; seen_na : bool }.

Definition note_escape (fl : elisp_flags) (e : elisp_escape) : elisp_flags :=
  match e with
  | EscUnibyte => {| seen_ub := true; seen_mb := seen_mb fl; seen_na := seen_na fl |}
  | EscMultibyte => {| seen_ub := seen_ub fl; seen_mb := true; seen_na := seen_na fl |}
  | EscIndeterminate => fl
  end.

Definition elisp_finish (fl : elisp_flags) (scratch : bytes) : M elisp_str :=
  if seen_ub fl && negb (seen_mb fl || seen_na fl) then ret (ElUnibyte scratch)
  else b <- as_str scratch ;; ret (ElMultibyte b).

(* IoRead::parse_elisp_str *)
Fixpoint elisp_str_io (fuel : nat) (fl : elisp_flags) (scratch : bytes) : M elisp_str :=
  match fuel with
  | O => out_of_fuel
  | S f =>
      ch <- next_or_eof ;;
      if ch =? 34 then elisp_finish fl scratch
      else if ch =? 92 then
        r <- parse_elisp_escape f ;;
        elisp_str_io f (note_escape fl (snd r)) (scratch ++ fst r)
      else
        elisp_str_io f
          (if 127 <? ch then {| seen_ub := seen_ub fl; seen_mb := seen_mb fl; seen_na := true |} else fl)
          (scratch ++ [ch])
  end.

(* SliceRead::parse_elisp_str_bytes *)
Fixpoint elisp_str_slice (fuel : nat) (fl : elisp_flags) (scratch : bytes) : M elisp_str :=
  match fuel with
  | O => out_of_fuel
  | S f =>
      fun s =>
        let '(run, rest) := span_plain (rinput s) [] in
        let s1 := advance_over s run rest in
        let fl1 := if existsb (fun b => 127 <? b) run
                   then {| seen_ub := seen_ub fl; seen_mb := seen_mb fl; seen_na := true |} else fl in
        match rest with
        | EByte b :: rest' =>
            let s2 := consume s1 b rest' in
            if b =? 34 then elisp_finish fl1 (scratch ++ run) s2
            else (r <- parse_elisp_escape f ;;
                  elisp_str_slice f (note_escape fl1 (snd r)) (scratch ++ run ++ fst r)) s2
        | _ => error EofWhileParsingString s1
        end
  end.

(* Read::parse_elisp_str (StrRead validates too: escapes may produce any byte) *)
Definition parse_elisp_str_rd (fuel : nat) : M elisp_str :=
  let fl0 := {| seen_ub := false; seen_mb := false; seen_na := false |} in
  fun s => match rk s with
           | SrcIo => elisp_str_io fuel fl0 [] s
           | _ => elisp_str_slice fuel fl0 [] s
           end.

(* ---- characters ---- *)

(* decode_utf8_sequence *)
Fixpoint take_bytes (k : nat) (acc : bytes) : M bytes :=
  match k with
  | O => ret acc
  | S k' =>
      o <- next_char ;;
      match o with
      | Some c => take_bytes k' (acc ++ [c])
      | None => error EofWhileParsingValue
      end
  end.

(* returns the bytes left in the scratch space and the decoded scalar *)
Definition decode_utf8_sequence_b (initial : N) : M (bytes * N) :=
  if in_range 192 223 initial || in_range 224 247 initial then
    let len := if in_range 192 223 initial then 1%nat else N.to_nat ((initial - 192) / 16) in
    b <- take_bytes len [initial] ;;
    (if utf8_valid b then ret (b, utf8_decode_head b) else error InvalidUnicodeCodePoint)
  else error InvalidUnicodeCodePoint.

Definition decode_utf8_sequence (initial : N) : M N :=
  r <- decode_utf8_sequence_b initial ;; ret (snd r).

(* decode_r6rs_char_hex_escape *)
Fixpoint r6rs_char_hex_loop (fuel : nat) (n : N) (first : bool) : M (option N) :=
  match fuel with
  | O => out_of_fuel
  | S f =>
      o <- peek ;;
      match o with
      | Some c =>
          if is_delimiter_chr c then ret (if first then None else Some n)
          else
            eat_char ;;;
            match decode_hex_val c with
            | None => error EofWhileParsingCharacterConstant
            | Some v => if cp_limit <=? n then error InvalidUnicodeCodePoint
                        else r6rs_char_hex_loop f (n * 16 + v) false
            end
      | None => ret (if first then None else Some n)
      end
  end.

Definition CHAR_NAMES : list (bytes * N) :=
  [(s2b "nul", 0); (s2b "alarm", 7); (s2b "backspace", 8); (s2b "tab", 9); (s2b "linefeed", 10);
   (s2b "newline", 10); (s2b "vtab", 11); (s2b "page", 12); (s2b "return", 13); (s2b "esc", 27);
   (s2b "space", 32); (s2b "delete", 127)].

Fixpoint lookup_name (name : bytes) (l : list (bytes * N)) : option N :=
  match l with
  | [] => None
  | (k, v) :: l' => if beq_bytes k name then Some v else lookup_name name l'
  end.

Fixpoint char_name_loop (fuel : nat) (scratch : bytes) : M bytes :=
  match fuel with
  | O => out_of_fuel
  | S f =>
      o <- peek ;;
      match o with
      | Some c => if is_delimiter_chr c then ret scratch
                  else eat_char ;;; char_name_loop f (scratch ++ [c])
      | None => ret scratch
      end
  end.

(* open_ended_char: the value of an escape with an arbitrary number of digits;
   a surrogate at the end of input may still grow into a scalar value *)
Definition is_surrogate (n : N) : bool := (55296 <=? n) && (n <=? 57343).
Definition open_ended_char (n : N) : M N :=
  if is_scalar n then ret n
  else if is_surrogate n then
    o <- peek ;;
    match o with
    | None => error EofWhileParsingCharacterConstant
    | Some _ => error InvalidUnicodeCodePoint
    end
  else error InvalidUnicodeCodePoint.

(* parse_r6rs_char *)
Definition parse_r6rs_char (fuel : nat) : M N :=
  initial <- next_or_eof_char ;;
  if initial =? 120 then
    o <- r6rs_char_hex_loop fuel 0 true ;;
    match o with
    | Some n => open_ended_char n
    | None => ret 120
    end
  else if 127 <? initial then decode_utf8_sequence initial
  else
    o <- peek ;;
    match o with
    | None => ret initial
    | Some nx =>
        if is_delimiter_chr nx then ret initial
        else
          eat_char ;;;
          name <- char_name_loop fuel [initial; nx] ;;
          match lookup_name name CHAR_NAMES with
          | Some c => ret c
          | None =>
              o2 <- peek ;;
              match o2 with
              | None => if existsb (fun kv => starts_with name (fst kv)) CHAR_NAMES
                        then error EofWhileParsingCharacterConstant
                        else error InvalidCharacterConstant
              | Some _ => error InvalidCharacterConstant
              end
          end
    end.

Definition as_char (n : N) : M N :=
  if is_scalar n then ret n else error InvalidUnicodeCodePoint.

(* decode_elisp_char_escape *)
Definition decode_elisp_char_escape (fuel : nat) : M N :=
  ch <- next_or_eof_char ;;
  if ch =? 97 then ret 7
  else if ch =? 98 then ret 8
  else if ch =? 116 then ret 9
  else if ch =? 110 then ret 10
  else if ch =? 118 then ret 11
  else if ch =? 102 then ret 12
  else if ch =? 114 then ret 13
  else if ch =? 101 then ret 27
  else if ch =? 115 then ret 32
  else if ch =? 92 then ret 92
  else if ch =? 100 then ret 127
  else if ch =? 94 then
    c <- next_or_eof_char ;;
    let c := to_ascii_lowercase c in
    (if is_ascii_lower c then ret (c - 97) else error InvalidEscape)
  else if ch =? 78 then
    c1 <- next_or_eof_char ;;
    (if negb (c1 =? 123) then error InvalidEscape
     else
       c2 <- next_or_eof_char ;;
       (if negb (c2 =? 85) then error InvalidEscape
        else
          c3 <- next_or_eof_char ;;
          (if negb (c3 =? 43) then error InvalidEscape
           else
             n <- decode_elisp_hex_escape fuel ;;
             c4 <- next_or_eof ;;
             (if negb (c4 =? 125) then error InvalidEscape
              else if is_scalar n then ret n else error InvalidEscape))))
  else if ch =? 117 then n <- decode_elisp_uni_escape 4 0 ;; as_char n
  else if ch =? 85 then n <- decode_elisp_uni_escape 8 0 ;; as_char n
  else if ch =? 120 then n <- decode_elisp_hex_escape fuel ;; open_ended_char n
  else if in_range 48 55 ch then n <- decode_elisp_octal_escape fuel ch ;; open_ended_char n
  else if 127 <? ch then decode_utf8_sequence ch
  else ret ch.

(* parse_elisp_char *)
Definition parse_elisp_char (fuel : nat) : M N :=
  o <- next_char ;;
  match o with
  | None => error EofWhileParsingCharacterConstant
  | Some initial =>
      if 127 <? initial then decode_utf8_sequence initial
      else if memb initial [40; 41; 91; 93; 59] then error InvalidCharacterConstant
      else if initial =? 92 then decode_elisp_char_escape fuel
      else ret initial
  end.
