(* lexpr::print (lexpr/src/print.rs): Formatter default methods,
   CustomizedFormatter, Printer::print and the string/char writers.
   Output is an emission trace: one chunk per call on the io::Write sink. *)
Require Import Base Value PrintOptions.

Inductive wkind := WAll | WOnce.      (* write_all(buf) | write(buf) once, count dropped *)
Definition chunk := (wkind * bytes)%type.
Definition trace := list chunk.

Definition wall (b : bytes) : trace := [(WAll, b)].
Definition flatten (t : trace) : bytes := concat (map snd t).

(* CharEscape *)
Inductive char_escape :=
| EQuote | EReverseSolidus | EAlert | EBackspace | ELineFeed | ECarriageReturn | ETab
| EAsciiControl (b : N).

(* ESCAPE table + CharEscape::from_escape_table *)
Definition escape_of (b : N) : option char_escape :=
  if b =? 7 then Some EAlert
  else if b =? 8 then Some EBackspace
  else if b =? 9 then Some ETab
  else if b =? 10 then Some ELineFeed
  else if b =? 13 then Some ECarriageReturn
  else if b =? 34 then Some EQuote
  else if b =? 92 then Some EReverseSolidus
  else if (b <? 32) || (b =? 127) then Some (EAsciiControl b)
  else None.

Definition simple_escape_bytes (e : char_escape) : option bytes :=
  match e with
  | EQuote => Some [92; 34]
  | EReverseSolidus => Some [92; 92]
  | EAlert => Some [92; 97]
  | EBackspace => Some [92; 98]
  | ELineFeed => Some [92; 110]
  | ECarriageReturn => Some [92; 114]
  | ETab => Some [92; 116]
  | EAsciiControl _ => None
  end.

(* write_r6rs_char_escape *)
Definition write_r6rs_char_escape (e : char_escape) : trace :=
  match e with
  | EAsciiControl b =>
      wall [92; 120; hex_digit_upper (b / 16); hex_digit_upper (b mod 16); 59]
  | _ => match simple_escape_bytes e with Some s => wall s | None => [] end
  end.

(* write_elisp_char_escape *)
Definition write_elisp_char_escape (e : char_escape) : trace :=
  match e with
  | EAsciiControl b =>
      wall [92; 117; 48; 48; hex_digit_upper (b / 16); hex_digit_upper (b mod 16)]
  | _ => match simple_escape_bytes e with Some s => wall s | None => [] end
  end.

(* write_scheme_char; the write!() goes through fmt::Write, which reaches the
   sink as write_all calls for the literal piece and the digits. *)
Definition write_scheme_char (c : N) : trace :=
  if (32 <=? c) && (c <? 127) then wall [35; 92; c]
  else wall [35; 92; 120] ++ wall (hex_of_N c).

Definition ELISP_ESCAPE_CHARS : bytes := s2b "()[]\;|'`#.,".

Definition write_elisp_char (c : N) : trace :=
  if (32 <=? c) && (c <? 127) then
    if memb c ELISP_ESCAPE_CHARS then wall [63; 92; c] else wall [63; c]
  else wall [63; 92; 120] ++ wall (hex_of_N c).

Inductive vector_type := VGeneric | VByte.

(* The methods of trait Formatter that Printer::print and its helpers call. *)
Record formatter := {
  write_nil : trace;
  write_null : trace;
  write_bool : bool -> trace;
  write_number : number -> trace;
  write_char : N -> trace;
  begin_string : trace;
  end_string : trace;
  write_string_fragment : bytes -> trace;
  write_char_escape : char_escape -> trace;
  write_symbol : bytes -> trace;
  write_keyword : bytes -> trace;
  write_bytes : bytes -> trace;
  begin_list : trace;
  end_list : trace;
  begin_seq_element : bool -> trace;
  end_seq_element : trace;
  begin_vector : vector_type -> trace;
  end_vector : trace;
  write_dot : trace;
}.

Section WithRyu.
  (* ryu::Buffer::format: not repo code, supplied as an oracle. *)
  Variable ryu : f64 -> bytes.

  (* itoa for i64 *)
  Definition dec_of_Z (z : Z) : bytes :=
    match z with
    | Z0 => [48]
    | Zpos p => dec_of_N (Npos p)
    | Zneg p => 45 :: dec_of_N (Npos p)
    end.

  (* Formatter::write_number (default method, not overridden) *)
  Definition d_write_number (n : number) : trace :=
    match n with
    | PosInt u => wall (dec_of_N u)
    | NegInt i => wall (dec_of_Z i)
    | Float f => wall (ryu f)
    end.

  Definition d_begin_seq_element (first : bool) : trace :=
    if first then [] else wall [32].

  (* write_scheme_vector for byte vectors with the octet closure *)
  Fixpoint octets (bse : bool -> trace) (ese : trace) (first : bool) (l : bytes) : trace :=
    match l with
    | [] => []
    | o :: l' => bse first ++ wall (dec_of_N o) ++ ese ++ octets bse ese false l'
    end.

  Definition d_begin_vector (k : vector_type) : trace :=
    match k with VGeneric => wall (s2b "#(") | VByte => wall (s2b "#u8(") end.

  (* DefaultFormatter: every trait default *)
  Definition default_fmt : formatter := {|
    write_nil := wall (s2b "#nil");
    write_null := wall (s2b "()");
    write_bool := fun b => wall (if b then s2b "#t" else s2b "#f");
    write_number := d_write_number;
    write_char := write_scheme_char;
    begin_string := wall [34];
    end_string := wall [34];
    write_string_fragment := fun s => wall s;
    write_char_escape := write_r6rs_char_escape;
    write_symbol := fun s => wall s;
    write_keyword := fun s => wall (s2b "#:") ++ wall s;
    write_bytes := fun bs =>
      d_begin_vector VByte ++ octets d_begin_seq_element [] true bs ++ wall [41];
    begin_list := wall [40];
    end_list := wall [41];
    begin_seq_element := d_begin_seq_element;
    end_seq_element := [];
    begin_vector := d_begin_vector;
    end_vector := wall [41];
    write_dot := wall [46];
  |}.

  (* CustomizedFormatter *)
  Definition c_write_bool (po : print_options) (b : bool) : trace :=
    match po_bool po with
    | BoolSymbol => wall (if b then s2b "t" else s2b "nil")
    | BoolToken => wall (if b then s2b "#t" else s2b "#f")
    end.

  Definition c_write_nil (po : print_options) : trace :=
    match po_nil po with
    | NilEmptyList => wall (s2b "()")
    | NilSymbolS => wall (s2b "nil")
    | NilToken => wall (s2b "#nil")
    | NilFalse => c_write_bool po false
    end.

  Definition c_write_keyword (po : print_options) (s : bytes) : trace :=
    match po_keyword po with
    | KwColonPostfix => wall s ++ wall [58]
    | KwColonPrefix => wall [58] ++ wall s
    | KwOctothorpe => wall (s2b "#:") ++ wall s
    end.

  (* begin_vector under VecOctothorpe with VByte and BytesElisp panics; print
     never reaches it (write_bytes does not call begin_vector any more). *)
  Definition c_begin_vector (po : print_options) (k : vector_type) : trace :=
    match po_vector po with
    | VecBrackets => wall [91]
    | VecOctothorpe =>
        match k with
        | VGeneric => wall (s2b "#(")
        | VByte => match po_bytes po with
                   | BytesR6RS => wall (s2b "#vu8(")
                   | _ => wall (s2b "#u8(")
                   end
        end
    end.

  Definition c_end_vector (po : print_options) : trace :=
    match po_vector po with VecBrackets => wall [93] | VecOctothorpe => wall [41] end.

  Definition octal_digit (n : N) : N := 48 + n.

  Fixpoint elisp_octets (l : bytes) : trace :=
    match l with
    | [] => []
    | o :: l' =>
        wall [92] ++ wall [octal_digit ((o / 64) mod 8)] ++ wall [octal_digit ((o / 8) mod 8)]
          ++ wall [octal_digit (o mod 8)] ++ elisp_octets l'
    end.

  Definition c_write_bytes (po : print_options) (bs : bytes) : trace :=
    match po_bytes po with
    | BytesElisp => wall [34] ++ elisp_octets bs ++ wall [34]
    | BytesR6RS => wall (s2b "#vu8(") ++ octets d_begin_seq_element [] true bs ++ wall [41]
    | BytesR7RS => wall (s2b "#u8(") ++ octets d_begin_seq_element [] true bs ++ wall [41]
    end.

  Definition custom_fmt (po : print_options) : formatter := {|
    write_nil := c_write_nil po;
    write_null := wall (s2b "()");
    write_bool := c_write_bool po;
    write_number := d_write_number;
    write_char := fun c => match po_char po with
                           | ChrR6RS => write_scheme_char c
                           | ChrElisp => write_elisp_char c
                           end;
    begin_string := wall [34];
    end_string := wall [34];
    write_string_fragment := fun s => wall s;
    write_char_escape := fun e => match po_string po with
                                  | StrR6RS => write_r6rs_char_escape e
                                  | StrElisp => write_elisp_char_escape e
                                  end;
    write_symbol := fun s => wall s;
    write_keyword := c_write_keyword po;
    write_bytes := c_write_bytes po;
    begin_list := wall [40];
    end_list := wall [41];
    begin_seq_element := d_begin_seq_element;
    end_seq_element := [];
    begin_vector := c_begin_vector po;
    end_vector := c_end_vector po;
    write_dot := wall [46];
  |}.

  (* format_escaped_str_contents: [frag] is the pending unescaped run, reversed *)
  Fixpoint esc_contents (F : formatter) (frag : bytes) (s : bytes) : trace :=
    match s with
    | [] => match frag with [] => [] | _ => write_string_fragment F (rev frag) end
    | b :: s' =>
        match escape_of b with
        | None => esc_contents F (b :: frag) s'
        | Some e =>
            (match frag with [] => [] | _ => write_string_fragment F (rev frag) end)
              ++ write_char_escape F e ++ esc_contents F [] s'
        end
    end.

  Definition format_escaped_str (F : formatter) (s : bytes) : trace :=
    begin_string F ++ esc_contents F [] s ++ end_string F.

  Definition print_atom (F : formatter) (v : value) : trace :=
    match v with
    | Nil => write_nil F
    | Null => write_null F
    | Bool b => write_bool F b
    | Number n => write_number F n
    | Char c => write_char F c
    | Symbol s => write_symbol F s
    | Keyword s => write_keyword F s
    | String s => format_escaped_str F s
    | Bytes b => write_bytes F b
    | Cons _ _ => []
    | Vector _ => []
    end.

  (* Printer::print. [print_tail d] is what the loop over the cells emits for
     the cdr chain [d] after the first element has been written. *)
  Section Print.
    Variable F : formatter.

    Definition dot_seq : trace :=
      begin_seq_element F false ++ write_dot F ++ end_seq_element F.

    Fixpoint print (v : value) : trace :=
      match v with
      | Cons a d =>
          begin_list F ++ begin_seq_element F true ++ print a ++ end_seq_element F
            ++ print_tail d ++ end_list F
      | Vector l =>
          begin_vector F VGeneric
            ++ (fix elems (first : bool) (l : list value) : trace :=
                  match l with
                  | [] => []
                  | x :: l' => begin_seq_element F first ++ print x ++ end_seq_element F
                               ++ elems false l'
                  end) true l
            ++ end_vector F
      | _ => print_atom F v
      end
    with print_tail (d : value) : trace :=
      match d with
      | Null => []
      | Cons a d' =>
          begin_seq_element F false ++ print a ++ end_seq_element F ++ print_tail d'
      | Vector l =>
          dot_seq ++ begin_seq_element F false
            ++ (begin_vector F VGeneric
                  ++ (fix elems (first : bool) (l : list value) : trace :=
                        match l with
                        | [] => []
                        | x :: l' => begin_seq_element F first ++ print x ++ end_seq_element F
                                     ++ elems false l'
                        end) true l
                  ++ end_vector F)
            ++ end_seq_element F
      | _ => dot_seq ++ begin_seq_element F false ++ print_atom F d ++ end_seq_element F
      end.
  End Print.

  (* Entry points: to_writer / to_vec / to_string / Display use DefaultFormatter,
     the *_custom variants use CustomizedFormatter. *)
  Definition trace0 (v : value) : trace := print default_fmt v.
  Definition trace_custom (po : print_options) (v : value) : trace := print (custom_fmt po) v.
  Definition print0 (v : value) : bytes := flatten (trace0 v).
  Definition print_custom (po : print_options) (v : value) : bytes := flatten (trace_custom po v).
End WithRyu.
