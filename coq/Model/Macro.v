(* lexpr-macros: the sexp! parser over Rust token trees (parser.rs) and the
   meaning of the code the generator emits (generator.rs). *)
From Coq Require Import SpecFloat.
Require Import Base Value Float NumberOps ListOps.

Inductive spacing := Alone | Joint.
Inductive delim := Paren | Brace | Bracket | NoDelim.

(* a Rust literal token, as far as the macro and Value::from care *)
Inductive lit :=
| LInt (n : N)                       (* unsuffixed integer literal *)
| LFloat (f : f64)
| LStr (raw cooked : bytes)          (* source text between the quotes / its value *)
| LChar (c : N)
| LOther (numeric : bool).        (* any other literal; whether its text starts with a digit *)

Inductive tt :=
| Punct (c : N) (s : spacing)
| Lit (l : lit)
| Ident (s : bytes)
| Group (d : delim) (ts : list tt).

(* lexpr_macros::value::Value *)
Inductive mvalue :=
| MNil
| MLiteral (l : lit)
| MNegated (l : lit)
| MBool (b : bool)
| MSymbol (s : bytes)
| MKeyword (s : bytes)
| MUnquoted (t : tt)
| MList (l : list mvalue)
| MImproper (l : list mvalue) (rest : mvalue)
| MVector (l : list mvalue).

Inductive merr :=
| ExpectedStringLiteral | UnexpectedToken | UnexpectedChar (c : N) | UnexpectedDelimiter | UnexpectedEnd
| MFuel.
Inductive mres (A : Type) := MOk (a : A) | MErr (e : merr).
Arguments MOk {A} a.
Arguments MErr {A} e.

(* the punctuation characters that may start / continue an identifier *)
Definition ident_start_punct (c : N) : bool := memb c (s2b "!$%&*+-./:<=>?@^_~").
Definition ident_cont_punct (c : N) : bool := memb c (s2b "!$%&*+-./:<=>?@^~").

(* is_numeric_literal: the literal's text starts with a digit *)
Definition is_numeric_lit (l : lit) : bool :=
  match l with LInt _ | LFloat _ => true | LOther b => b | _ => false end.

(* string_literal *)
Definition string_literal (l : lit) : mres bytes :=
  match l with LStr raw _ => MOk raw | _ => MErr ExpectedStringLiteral end.

(* parse_identifier: consumes tokens, returns the identifier and the rest *)
Fixpoint parse_identifier (ts : list tt) (acc : bytes) : bytes * list tt :=
  match ts with
  | Punct c s :: ts' =>
      if ident_cont_punct c then
        match s with
        | Joint => parse_identifier ts' (acc ++ [c])
        | Alone => (acc ++ [c], ts')
        end
      else (acc, ts)
  | Ident part :: ts' => (acc ++ part, ts')
  | _ => (acc, ts)
  end.

(* Parser::parse and parse_octothorpe, parse_list, parse_vector.
   Fuel: groups nest; each call consumes at least one token. *)
Fixpoint mparse (fuel : nat) (ts : list tt) : mres (mvalue * list tt) :=
  match fuel with
  | O => MErr MFuel
  | S f =>
      match ts with
      | [] => MErr UnexpectedEnd
      | Punct c s :: ts' =>
          if c =? 35 then                                   (* # *)
            match ts' with
            | [] => MErr UnexpectedEnd
            | Punct c2 _ :: ts2 =>
                if c2 =? 58 then
                  match ts2 with
                  | Lit l :: ts3 =>
                      match string_literal l with MOk name => MOk (MKeyword name, ts3) | MErr e => MErr e end
                  | _ :: _ => let '(name, rest) := parse_identifier ts2 [] in MOk (MKeyword name, rest)
                  | [] => MErr UnexpectedEnd
                  end
                else MErr (UnexpectedChar c2)
            | Lit l :: ts2 =>
                match string_literal l with MOk name => MOk (MSymbol name, ts2) | MErr e => MErr e end
            | Ident name :: ts2 =>
                if beq_bytes name (s2b "t") then MOk (MBool true, ts2)
                else if beq_bytes name (s2b "f") then MOk (MBool false, ts2)
                else if beq_bytes name (s2b "nil") then MOk (MNil, ts2)
                else MErr UnexpectedToken
            | Group d inner :: ts2 =>
                match d with
                | Paren =>
                    match mparse_seq f inner with
                    | MOk els => MOk (MVector els, ts2)
                    | MErr e => MErr e
                    end
                | _ => MErr UnexpectedDelimiter
                end
            end
          else if c =? 44 then                              (* , *)
            match ts' with
            | t :: ts2 => MOk (MUnquoted t, ts2)
            | [] => MErr UnexpectedEnd
            end
          else if ident_start_punct c then
            match s with
            | Joint => let '(name, rest) := parse_identifier ts' [c] in MOk (MSymbol name, rest)
            | Alone =>
                if c =? 45 then
                  match ts' with
                  | Lit l :: ts2 => if is_numeric_lit l then MOk (MNegated l, ts2) else MOk (MSymbol [c], ts')
                  | _ => MOk (MSymbol [c], ts')
                  end
                else if c =? 58 then
                  match ts' with
                  | Lit l :: ts2 =>
                      match string_literal l with MOk name => MOk (MKeyword name, ts2) | MErr e => MErr e end
                  | Ident name :: ts2 => MOk (MKeyword name, ts2)
                  | _ => MOk (MSymbol [c], ts')
                  end
                else MOk (MSymbol [c], ts')
            end
          else MErr (UnexpectedChar c)
      | Lit l :: ts' => MOk (MLiteral l, ts')
      | Ident name :: ts' => MOk (MSymbol name, ts')
      | Group d inner :: ts' =>
          match d with
          | Paren =>
              match mparse_list f inner [] None with
              | MOk v => MOk (v, ts')
              | MErr e => MErr e
              end
          | _ => MErr UnexpectedDelimiter
          end
      end
  end
(* parse_vector: all elements *)
with mparse_seq (fuel : nat) (ts : list tt) : mres (list mvalue) :=
  match fuel with
  | O => MErr MFuel
  | S f =>
      match ts with
      | [] => MOk []
      | _ =>
          match mparse f ts with
          | MOk (v, rest) =>
              match mparse_seq f rest with MOk vs => MOk (v :: vs) | MErr e => MErr e end
          | MErr e => MErr e
          end
      end
  end
(* parse_list: a lone dot introduces the tail *)
with mparse_list (fuel : nat) (ts : list tt) (elements : list mvalue) (tail : option mvalue) : mres mvalue :=
  match fuel with
  | O => MErr MFuel
  | S f =>
      match ts with
      | [] =>
          match tail with
          | Some (MList rest_list) => MOk (MList (elements ++ rest_list))
          | Some (MImproper rest_list rest) => MOk (MImproper (elements ++ rest_list) rest)
          | Some rest => MOk (MImproper elements rest)
          | None => MOk (MList elements)
          end
      | Punct 46 Alone :: ts' =>
          match tail with
          | Some _ => MErr (UnexpectedChar 46)
          | None =>
              match mparse f ts' with
              | MOk (v, rest) => mparse_list f rest elements (Some v)
              | MErr e => MErr e
              end
          end
      | _ =>
          match mparse f ts with
          | MOk (v, rest) => mparse_list f rest (elements ++ [v]) tail
          | MErr e => MErr e
          end
      end
  end.

Fixpoint tt_size (t : tt) : nat :=
  match t with
  | Group _ ts => S (fold_right (fun x acc => tt_size x + acc)%nat 0%nat ts)
  | _ => 1%nat
  end.
Definition tts_size (ts : list tt) : nat := fold_right (fun x acc => tt_size x + acc)%nat 0%nat ts.

(* parser::parse: one value from the whole stream (trailing tokens are ignored) *)
Definition macro_parse (ts : list tt) : mres mvalue :=
  match mparse (2 * tts_size ts + 4) ts with
  | MOk (v, _) => MOk v
  | MErr e => MErr e
  end.

(* ---- what the generated code evaluates to ---- *)
Section Eval.
  (* Value::from(<expr>) for an unquoted Rust expression: not macro code *)
  Variable eval_unquoted : tt -> value.

  (* Value::from(literal): integer literals default to i32 *)
  Definition value_of_lit (l : lit) : value :=
    match l with
    | LInt n => Number (PosInt n)
    | LFloat f => Number (Float f)
    | LStr _ cooked => String cooked
    | LChar c => Char c
    | LOther _ => Nil
    end.
  Definition value_of_neg_lit (l : lit) : value :=
    match l with
    | LInt n => Number (num_from_signed (- Z.of_N n))
    | LFloat f => Number (Float (f64_neg f))
    | _ => Nil
    end.

  Fixpoint meval (m : mvalue) : value :=
    match m with
    | MNil => Nil
    | MLiteral l => value_of_lit l
    | MNegated l => value_of_neg_lit l
    | MBool b => Bool b
    | MSymbol s => Symbol s
    | MKeyword s => Keyword s
    | MUnquoted t => eval_unquoted t
    | MList l => value_list (map meval l)        (* Value::Null when empty, else Value::list *)
    | MImproper l rest => value_append (map meval l) (meval rest)
    | MVector l => Vector (map meval l)
    end.
End Eval.
