(* Base definitions shared by the whole model: bytes, byte strings, outcomes. *)
From Coq Require Export List NArith ZArith Bool Lia.
From Coq Require String Ascii.
Export String.StringSyntax.
Delimit Scope string_scope with string.
Export ListNotations.
Open Scope N_scope.

(* Bytes and code points are [N]; a text is a [list N] of bytes (< 256). *)
Definition byte := N.
Definition bytes := list N.

Definition s2b (s : String.string) : bytes :=
  map Ascii.N_of_ascii (String.list_ascii_of_string s).
Arguments s2b s%string.

Definition is_byte (b : N) : bool := b <? 256.

Fixpoint beq_bytes (a b : bytes) : bool :=
  match a, b with
  | [], [] => true
  | x :: a', y :: b' => (x =? y) && beq_bytes a' b'
  | _, _ => false
  end.

Definition memb (x : N) (l : list N) : bool := existsb (N.eqb x) l.

Definition in_range (lo hi x : N) : bool := (lo <=? x) && (x <=? hi).

Definition is_digit (c : N) : bool := in_range 48 57 c.
Definition is_ascii_lower (c : N) : bool := in_range 97 122 c.
Definition is_ascii_upper (c : N) : bool := in_range 65 90 c.
Definition is_ascii_alpha (c : N) : bool := is_ascii_lower c || is_ascii_upper c.

(* u8::is_ascii_whitespace: space, \t, \n, \x0C, \r *)
Definition is_ascii_whitespace (c : N) : bool := memb c [32; 9; 10; 12; 13].

Fixpoint starts_with (pre l : bytes) : bool :=
  match pre, l with
  | [], _ => true
  | x :: p', y :: l' => (x =? y) && starts_with p' l'
  | _ :: _, [] => false
  end.

Definition hex_digit_upper (n : N) : N := if n <? 10 then 48 + n else 55 + n.
Definition hex_digit_lower (n : N) : N := if n <? 10 then 48 + n else 87 + n.

(* Decimal rendering of a natural number, as itoa does. *)
Fixpoint dec_digits_fuel (fuel : nat) (n : N) (acc : bytes) : bytes :=
  match fuel with
  | O => acc
  | S f => let acc' := (48 + n mod 10) :: acc in
           if n <? 10 then acc' else dec_digits_fuel f (n / 10) acc'
  end.
Definition dec_of_N (n : N) : bytes := dec_digits_fuel (S (N.size_nat n)) n [].

(* Lower-case hexadecimal rendering, as {:x} does. *)
Fixpoint hex_digits_fuel (fuel : nat) (n : N) (acc : bytes) : bytes :=
  match fuel with
  | O => acc
  | S f => let acc' := hex_digit_lower (n mod 16) :: acc in
           if n <? 16 then acc' else hex_digits_fuel f (n / 16) acc'
  end.
Definition hex_of_N (n : N) : bytes := hex_digits_fuel (S (N.size_nat n)) n [].
