(* io::Write::write_all (std) driving an adversarial sink. *)
Require Import Base Printer.

(* What one call of sink.write(buf) does. The sinks of the harness are
   functions of the number of bytes accepted so far:
     - every call accepts at most [cap] bytes (cap >= 1),
     - once [limit] bytes have been accepted in total, a call with a non-empty
       buffer fails hard ([hard] = true) or accepts 0 bytes ([hard] = false). *)
Record sched := { cap : N; limit : option N; hard : bool }.

Inductive wres := WOk | WErrHard | WErrZero.

Definition accept_count (s : sched) (accepted : N) (len : N) : N :=
  let k := N.min len (N.max 1 (cap s)) in
  match limit s with
  | Some lim => N.min k (lim - accepted)
  | None => k
  end.

Definition limit_reached (s : sched) (accepted : N) : bool :=
  match limit s with Some lim => lim <=? accepted | None => false end.

(* std's write_all: loop { match write(buf) { Ok(0) => Err(WriteZero),
   Ok(n) => buf = &buf[n..], Err(Interrupted) => continue, Err(e) => Err(e) } }
   Fuel: every iteration accepts at least one byte or stops. *)
Fixpoint write_all_fuel (fuel : nat) (s : sched) (delivered : bytes) (buf : bytes)
  : wres * bytes :=
  match buf with
  | [] => (WOk, delivered)
  | _ =>
      match fuel with
      | O => (WErrZero, delivered)
      | S f =>
          let acc := N.of_nat (length delivered) in
          if limit_reached s acc then
            ((if hard s then WErrHard else WErrZero), delivered)
          else
            let n := N.to_nat (accept_count s acc (N.of_nat (length buf))) in
            match n with
            | O => (WErrZero, delivered)
            | _ => write_all_fuel f s (delivered ++ firstn n buf) (skipn n buf)
            end
      end
  end.

(* A bare write(buf).map(drop): one call, the count is discarded. *)
Definition write_once (s : sched) (delivered : bytes) (buf : bytes) : wres * bytes :=
  match buf with
  | [] => (WOk, delivered)
  | _ =>
      let acc := N.of_nat (length delivered) in
      if limit_reached s acc then
        ((if hard s then WErrHard else WOk), delivered)
      else
        let n := N.to_nat (accept_count s acc (N.of_nat (length buf))) in
        (WOk, delivered ++ firstn n buf)
  end.

Fixpoint run_sink (s : sched) (delivered : bytes) (t : trace) : wres * bytes :=
  match t with
  | [] => (WOk, delivered)
  | (k, buf) :: t' =>
      let '(r, d) := match k with
                     | WAll => write_all_fuel (S (length buf)) s delivered buf
                     | WOnce => write_once s delivered buf
                     end in
      match r with
      | WOk => run_sink s d t'
      | _ => (r, d)
      end
  end.
