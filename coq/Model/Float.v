(* f64 as SpecFloat.spec_float (prec 53, emax 1024): bit patterns, conversions
   and the arithmetic the parser uses. Everything here computes. *)
From Coq Require Import SpecFloat.
Require Import Base Value.

Definition emin := (3 - emax - prec)%Z.          (* -1074 *)

(* IEEE-754 binary64 interchange format *)
Definition f64_of_bits (b : N) : f64 :=
  let s := negb (b / 9223372036854775808 =? 0) in
  let e := (b / 4503599627370496) mod 2048 in
  let m := b mod 4503599627370496 in
  if e =? 0 then
    match m with
    | N0 => S754_zero s
    | Npos p => S754_finite s p (-1074)
    end
  else if e =? 2047 then
    (if m =? 0 then S754_infinity s else S754_nan)
  else
    match m + 4503599627370496 with
    | N0 => S754_zero s
    | Npos p => S754_finite s p (Z.of_N e - 1075)
    end.

Definition bits_of_f64 (f : f64) : N :=
  match f with
  | S754_zero s => if s then 9223372036854775808 else 0
  | S754_infinity s => (if s then 9223372036854775808 else 0) + 2047 * 4503599627370496
  | S754_nan => 2047 * 4503599627370496 + 2251799813685248
  | S754_finite s m e =>
      let sb := if s then 9223372036854775808 else 0 in
      if (4503599627370496 <=? Npos m) then
        sb + Z.to_N (e + 1075) * 4503599627370496 + (Npos m - 4503599627370496)
      else sb + Npos m
  end.

Definition is_finite_f64 (f : f64) : bool :=
  match f with S754_zero _ | S754_finite _ _ _ => true | _ => false end.
Definition is_infinite_f64 (f : f64) : bool :=
  match f with S754_infinity _ => true | _ => false end.

(* u64 as f64 / i64 as f64: round to nearest even *)
Definition f64_of_Z (z : Z) : f64 := binary_normalize prec emax z 0 false.
Definition f64_of_N (n : N) : f64 := f64_of_Z (Z.of_N n).

Definition f64_mul (a b : f64) : f64 := SFmul prec emax a b.
Definition f64_div (a b : f64) : f64 := SFdiv prec emax a b.
Definition f64_neg (a : f64) : f64 := SFopp a.

(* The literal 1e<k> as rustc rounds it: the double nearest to 10^k. *)
Definition pow10_f64 (k : N) : f64 := f64_of_Z (10 ^ Z.of_N k).

(* Correctly rounded significand * 10^exponent: what str::parse::<f64> returns
   for "<significand>e<exponent>" (std documents correct rounding). Used as the
   oracle for the build without fast-float-parsing. Exponents beyond the range
   where the result can be anything but 0 / infinity are clamped so that the
   power of ten stays small. *)
Definition dec_to_f64 (sig : N) (exp : Z) : f64 :=
  match sig with
  | N0 => S754_zero false
  | Npos p =>
      if (310 <? exp)%Z then S754_infinity false
      else if (exp <? -345)%Z then S754_zero false
      else if (0 <=? exp)%Z then f64_of_Z (Zpos p * 10 ^ exp)
      else match (10 ^ (- exp))%Z with
           | Zpos d => SFdiv prec emax (S754_finite false p 0) (S754_finite false d 0)
           | _ => S754_nan
           end
  end.
