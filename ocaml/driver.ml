(* Reads one case per line, runs the extracted model, prints one canonical
   observation per line. *)
open Model
type string = Stdlib.String.t
open Codec

let read_sched (t : toks) : sched =
  let cap = n_of_dec (next t) in
  let lim = next t in
  let hard = next t = "1" in
  { cap; limit = (if lim = "-" then None else Some (n_of_dec lim)); hard }

let show_wres = function WOk -> "ok" | WErrHard -> "hard" | WErrZero -> "zero"

let run_case (line : string) : string =
  let t = toks_of_line line in
  match next t with
  | "print0" ->
      let v = read_value t in
      hex_of_bytes (print0 ryu v)
  | "printc" ->
      let po = read_po t in
      let v = read_value t in
      hex_of_bytes (print_custom ryu po v)
  | "sink" ->
      let po = read_po t in
      let s = read_sched t in
      let v = read_value t in
      let (r, d) = run_sink s [] (trace_custom ryu po v) in
      show_wres r ^ " " ^ hex_of_bytes d
  | "sink0" ->
      let s = read_sched t in
      let v = read_value t in
      let (r, d) = run_sink s [] (trace0 ryu v) in
      show_wres r ^ " " ^ hex_of_bytes d
  | op -> "?unknown-op " ^ op

let () =
  let ic = if Array.length Sys.argv > 1 then open_in Sys.argv.(1) else stdin in
  let oc = if Array.length Sys.argv > 2 then open_out Sys.argv.(2) else stdout in
  (try
     while true do
       let line = input_line ic in
       let out = (try run_case line with e -> "!exn " ^ Printexc.to_string e) in
       output_string oc out; output_char oc '\n'
     done
   with End_of_file -> ());
  close_out oc
