(* Reads one case per line, runs the extracted model, prints one canonical
   observation per line. *)
open Model
type string = Stdlib.String.t
open Codec

let read_sched (t : toks) : sched =
  let cap = n_of_dec (next t) in
  let lim = next t in
  let hard = next t = "1" in
  { cap; limit = (if lim = "-" then None else Some (n_of_dec lim)); hard }

let show_wres = function WOk -> "ok" | WErrHard -> "hard" | WErrZero -> "zero"

let opt f = function None -> "-" | Some x -> f x
let b01 b = if b then "1" else "0"
let f64_hex f = let h = hex_of_n (bits_of_f64 f) in String.make (16 - String.length h) '0' ^ h

let show_acc (v : value) : string =
  String.concat " " [
    "k=" ^ String.concat "" (List.map b01 (kind_predicates v));
    "str=" ^ opt hex_of_bytes (as_str v);
    "sym=" ^ opt hex_of_bytes (as_symbol v);
    "kw=" ^ opt hex_of_bytes (as_keyword v);
    "name=" ^ opt hex_of_bytes (as_name v);
    "bytes=" ^ opt hex_of_bytes (as_bytes v);
    "bool=" ^ opt b01 (as_bool v);
    "char=" ^ opt hex_of_n (as_char v);
    "i64=" ^ opt dec_of_z (as_i64 v);
    "u64=" ^ opt dec_of_n (as_u64 v);
    "f64=" ^ opt f64_hex (as_f64 v);
    "is=" ^ b01 (is_i64 v) ^ b01 (is_u64 v) ^ b01 (is_f64 v) ]

let show_list (l : value list) : string =
  "[" ^ String.concat " | " (List.map string_of_value l) ^ "]"
let show_ov = function None -> "-" | Some v -> "S " ^ string_of_value v

let show_lst (v : value) (idx : n list) : string =
  let ncells = match v with Cons (a, d) -> List.length (iter_cells a d) | _ -> 0 in
  let pair_s = function (xs, t) -> show_list xs ^ " . " ^ string_of_value t in
  String.concat " ; " [
    "tv=" ^ (match v with Cons (a, d) -> pair_s (cons_to_vec a d) | _ -> "-");
    "iv=" ^ (match v with Cons (a, d) -> (match cons_into_vec a d with Some p -> pair_s p | None -> "!") | _ -> "-");
    "vtv=" ^ (match value_to_vec v with Some l -> show_list l | None -> "-");
    "cells=" ^ string_of_int ncells;
    "li=" ^ (match value_list_iter v with
             | Some c -> String.concat " , " (List.map show_ov (drain (nat_of_int (ncells + 4)) c))
             | None -> "-");
    "ii=" ^ (match v with
             | Cons (a, d) -> String.concat " , " (List.map (fun (x, o) -> string_of_value x ^ " / " ^ show_ov o) (into_iter_items a d))
             | _ -> "-");
    "isl=" ^ b01 (is_list v) ^ b01 (is_dotted_list v);
    "get=" ^ String.concat " , " (List.map (fun i -> show_ov (get_usize v i) ^ " / " ^ string_of_value (index_or_nil (get_usize v i))) idx) ]

(* ---- parser ops ---- *)
let alpha_ranges : (int * int) array ref = ref [||]
let load_alpha () =
  match Sys.getenv_opt "LEXPR_ALPHA" with
  | None -> ()
  | Some path ->
      let ic = open_in path in
      let l = ref [] in
      (try while true do
         let line = input_line ic in
         match String.split_on_char ' ' line with
         | [a; b] -> l := (int_of_string a, int_of_string b) :: !l
         | _ -> ()
       done with End_of_file -> ());
      close_in ic;
      alpha_ranges := Array.of_list (List.rev !l)
let alpha (c : n) : bool =
  let x = int_of_n c in
  let a = !alpha_ranges in
  let lo = ref 0 and hi = ref (Array.length a - 1) and found = ref false in
  while not !found && !lo <= !hi do
    let mid = (!lo + !hi) / 2 in
    let (s, e) = a.(mid) in
    if x < s then hi := mid - 1 else if x > e then lo := mid + 1 else found := true
  done;
  !found
let fast_float = match Sys.getenv_opt "LEXPR_FAST" with Some "0" -> false | _ -> true

let read_ro (t : toks) : parse_options =
  let s = next t in
  let d i = Char.code s.[i] - 48 in
  { ro_kw_prefix = d 0 land 1 <> 0; ro_kw_postfix = d 0 land 2 <> 0; ro_kw_octo = d 0 land 4 <> 0;
    ro_nil = (match d 1 with 0 -> NsEmptyList | 1 -> NsDefault | _ -> NsSpecial);
    ro_t = (match d 2 with 0 -> TsTrue | _ -> TsDefault);
    ro_brackets = (match d 3 with 0 -> BrList | _ -> BrVector);
    ro_string = (match d 4 with 0 -> StrR6RS | _ -> StrElisp);
    ro_char = (match d 5 with 0 -> ChrR6RS | _ -> ChrElisp);
    ro_racket = d 6 = 1; ro_digit = d 7 = 1 }

let read_src (t : toks) : src_kind =
  match next t with "str" -> SrcStr | "slice" -> SrcSlice | _ -> SrcIo

(* events: b<hex> | i | f<id>, or a bare hex string for pure bytes *)
let read_events (t : toks) : event list =
  let acc = ref [] in
  while has_more t do
    let s = next t in
    (match s.[0] with
     | 'b' -> List.iter (fun b -> acc := EByte b :: !acc) (bytes_of_hex (String.sub s 1 (String.length s - 1)))
     | 'i' -> acc := EInterrupted :: !acc
     | 'f' -> acc := EFail (n_of_dec (String.sub s 1 (String.length s - 1))) :: !acc
     | '-' -> ()
     | _ -> failwith "bad event")
  done;
  List.rev !acc

let code_name = function
  | EofWhileParsingList -> "EofWhileParsingList" | EofWhileParsingVector -> "EofWhileParsingVector"
  | EofWhileParsingString -> "EofWhileParsingString" | EofWhileParsingValue -> "EofWhileParsingValue"
  | EofWhileParsingCharacterConstant -> "EofWhileParsingCharacterConstant"
  | ExpectedSomeIdent -> "ExpectedSomeIdent" | MismatchedParenthesis -> "MismatchedParenthesis"
  | ExpectedSomeValue -> "ExpectedSomeValue" | ExpectedVector -> "ExpectedVector"
  | ExpectedOctet -> "ExpectedOctet" | InvalidEscape -> "InvalidEscape" | InvalidNumber -> "InvalidNumber"
  | InvalidSymbol -> "InvalidSymbol" | NumberOutOfRange -> "NumberOutOfRange"
  | InvalidUnicodeCodePoint -> "InvalidUnicodeCodePoint"
  | InvalidCharacterConstant -> "InvalidCharacterConstant" | TrailingCharacters -> "TrailingCharacters"
  | RecursionLimitExceeded -> "RecursionLimitExceeded"

let show_err = function
  | ESyntax (c, l, cl) -> Printf.sprintf "err %s %s %s" (code_name c) (dec_of_n l) (dec_of_n cl)
  | EIo e -> "io " ^ dec_of_n e
  | EFuel -> "fuel"
let show_xerr = function
  | XErr e -> show_err e
  | XPanic k -> "panic " ^ dec_of_n k

let show_span (s : span) : string =
  let (l1, c1) = s.sp_start and (l2, c2) = s.sp_end in
  Printf.sprintf "%s:%s-%s:%s" (dec_of_n l1) (dec_of_n c1) (dec_of_n l2) (dec_of_n c2)

(* the span tree as it is observable through Ref::{span, as_pair, vector_iter} *)
let rec show_info (b : Buffer.t) (v : value) (i : span_info) : unit =
  match v, i with
  | Cons (a, d), SCons (s, ia, id) ->
      (* iterate along the cdr chain to keep the recursion shallow *)
      Buffer.add_string b ("c(" ^ show_span s ^ " ");
      show_info b a ia; Buffer.add_char b ' ';
      show_info b d id; Buffer.add_char b ')'
  | Cons (_, _), _ -> Buffer.add_string b "BADSHAPE"
  | Vector l, SVec (s, il) ->
      Buffer.add_string b (Printf.sprintf "v(%s %d" (show_span s) (List.length l));
      (try List.iter2 (fun x ix -> Buffer.add_char b ' '; show_info b x ix) l il
       with Invalid_argument _ -> Buffer.add_string b " BADSHAPE");
      Buffer.add_char b ')'
  | Vector _, _ -> Buffer.add_string b "BADSHAPE"
  | _, _ -> Buffer.add_string b ("p(" ^ show_span (info_span i) ^ ")")

let show_datum (d : datum) : string =
  let b = Buffer.create 64 in
  show_value b d.dvalue; Buffer.add_string b " @ "; show_info b d.dvalue d.dinfo; Buffer.contents b

let show_vres = function POk v -> "ok " ^ string_of_value v | PErr e -> show_xerr e
let show_dres = function POk d -> "ok " ^ show_datum d | PErr e -> show_xerr e

(* ---- Ref accessors: the transcript of a full walk with list_iter (peek,
   is_empty, next), vector_iter and as_pair ---- *)
exception Ref_panic
let rec walk_ref (b : Buffer.t) (r : dref) : unit =
  Buffer.add_string b ("{" ^ show_span (ref_span r));
  Buffer.add_string b " L:";
  (match ref_list_iter r with
   | None -> Buffer.add_char b '-'
   | Some c ->
       Buffer.add_char b '[';
       let cur = ref c in
       let fin = ref false in
       while not !fin do
         let pk = ref_list_peek !cur in
         let emp = ref_list_is_empty !cur in
         Buffer.add_char b (match pk with Some _ -> 'p' | None -> '-');
         Buffer.add_char b (if emp then 'e' else 'n');
         (match ref_list_next !cur with
          | Panic -> raise Ref_panic
          | Val (o, c') ->
              cur := c';
              (match o with
               | Some x -> walk_ref b x
               | None -> Buffer.add_char b '_'; if ref_list_is_empty c' then fin := true))
       done;
       Buffer.add_char b ']');
  Buffer.add_string b " V:";
  (match ref_vector_iter r with
   | None -> Buffer.add_char b '-'
   | Some items -> Buffer.add_char b '['; List.iter (walk_ref b) items; Buffer.add_char b ']');
  Buffer.add_string b " P:";
  (match ref_as_pair r with
   | Panic -> raise Ref_panic
   | Val None -> Buffer.add_char b '-'
   | Val (Some (ra, rd)) -> Buffer.add_string b ("(" ^ show_span (ref_span ra) ^ "," ^ show_span (ref_span rd) ^ ")"));
  Buffer.add_char b '}'

let show_refwalk = function
  | POk d -> (let b = Buffer.create 64 in try walk_ref b (datum_ref d); "ok " ^ Buffer.contents b with Ref_panic -> "PANIC")
  | PErr e -> show_xerr e

let read_calls (s : string) : call list =
  List.init (String.length s) (fun i -> match s.[i] with
    | 'v' -> CallNextValue | 'd' -> CallNextDatum | 'V' -> CallExpectValue
    | 'D' -> CallExpectDatum | _ -> CallExpectEnd)

let show_call_result = function
  | RValue None -> "v -"
  | RValue (Some v) -> "v " ^ string_of_value v
  | RDatum None -> "d -"
  | RDatum (Some d) -> "d " ^ show_datum d
  | RUnit -> "u"
  | RErr e -> show_xerr e

let std_parse (sg : n) (e : z) : f64 = dec_to_f64 sg e

(* ---- serde ops ---- *)
type nty = NB | NI of bool * int | NF32 | NF64 | NC | NS | NBy | NU | NO of nty | NSeq of nty | NSet of nty
         | NT of nty list | NM of nty * nty | NR of (n list * nty) list | NN of nty | NE of (n list * nvar) list
and nvar = NVU | NVN of nty | NVT of nty list | NVS of (n list * nty) list

let num_suffix s k = int_of_string (String.sub s k (String.length s - k))
let rec read_nty (t : toks) : nty =
  let s = next t in
  match s with
  | "b" -> NB | "f32" -> NF32 | "f64" -> NF64 | "c" -> NC | "s" -> NS | "B" -> NBy | "U" -> NU
  | "O" -> NO (read_nty t) | "S" -> NSeq (read_nty t) | "H" -> NSet (read_nty t) | "N" -> NN (read_nty t)
  | "M" -> let k = read_nty t in let v = read_nty t in NM (k, v)
  | _ ->
    (match s.[0] with
     | 'i' -> NI (true, num_suffix s 1)
     | 'u' -> NI (false, num_suffix s 1)
     | 'T' -> NT (List.init (num_suffix s 1) (fun _ -> read_nty t))
     | 'R' -> NR (List.init (num_suffix s 1) (fun _ -> let nm = bytes_of_hex (next t) in let ty = read_nty t in (nm, ty)))
     | 'E' -> NE (List.init (num_suffix s 1) (fun _ -> let nm = bytes_of_hex (next t) in let v = read_nvar t in (nm, v)))
     | _ -> failwith ("bad ty " ^ s))
and read_nvar (t : toks) : nvar =
  let s = next t in
  if s = "vu" then NVU else if s = "vn" then NVN (read_nty t)
  else if String.sub s 0 2 = "vt" then NVT (List.init (num_suffix s 2) (fun _ -> read_nty t))
  else NVS (List.init (num_suffix s 2) (fun _ -> let nm = bytes_of_hex (next t) in let ty = read_nty t in (nm, ty)))

let rec model_ty (n : nty) : ty =
  match n with
  | NB -> TyBool | NI (s, b) -> TyInt (s, n_of_int b) | NF32 -> TyF32 | NF64 -> TyF64 | NC -> TyChar | NS -> TyString
  | NBy -> TyByteBuf | NU -> TyUnit | NO x -> TyOption (model_ty x) | NSeq x | NSet x -> TySeq (model_ty x)
  | NT l -> TyTuple (List.map model_ty l) | NM (k, v) -> TyMap (model_ty k, model_ty v)
  | NR fs -> TyStruct (List.map (fun (nm, x) -> (nm, model_ty x)) fs) | NN x -> TyNewtype (model_ty x)
  | NE vs -> TyEnum (List.map (fun (nm, v) -> (nm, model_var v)) vs)
and model_var = function
  | NVU -> VUnit | NVN x -> VNewtype (model_ty x) | NVT l -> VTuple (List.map model_ty l)
  | NVS fs -> VStruct (List.map (fun (nm, x) -> (nm, model_ty x)) fs)

let rec read_data (t : toks) : data =
  let s = next t in
  match s.[0] with
  | 'b' -> DBool (s = "b1")
  | 'i' -> DInt (z_of_dec (String.sub s 1 (String.length s - 1)))
  | 'f' -> DF64 (f64_of_bits (n_of_hex (String.sub s 1 16)))
  | 'c' -> DChar (n_of_hex (String.sub s 1 (String.length s - 1)))
  | 's' -> DString (bytes_of_hex (after_colon s))
  | 'B' -> DBytes (bytes_of_hex (after_colon s))
  | 'U' -> DUnit
  | '-' -> DNone
  | '+' -> DSome (read_data t)
  | 'L' -> DSeq (List.init (num_suffix s 1) (fun _ -> read_data t))
  | 'T' -> DTuple (List.init (num_suffix s 1) (fun _ -> read_data t))
  | 'M' -> DMap (List.init (num_suffix s 1) (fun _ -> let k = read_data t in let v = read_data t in (k, v)))
  | 'R' -> DStruct (List.init (num_suffix s 1) (fun _ -> read_data t))
  | 'N' -> DNewtype (read_data t)
  | 'E' ->
      let nm = bytes_of_hex (after_colon s) in
      let p = next t in
      let pl = if p = "pu" then PUnit else if p = "pn" then PNewtype (read_data t)
        else if String.sub p 0 2 = "pt" then PTuple (List.init (num_suffix p 2) (fun _ -> read_data t))
        else PStruct (List.init (num_suffix p 2) (fun _ -> read_data t)) in
      DEnum (nm, pl)
  | _ -> failwith ("bad data " ^ s)

(* the data of type f32 is read as DF64 by read_data; retag by type *)
let rec retag (n : nty) (d : data) : data =
  match n, d with
  | NF32, DF64 f -> DF32 f
  | NO x, DSome y -> DSome (retag x y)
  | (NSeq x | NSet x), DSeq l -> DSeq (List.map (retag x) l)
  | NT ts, DTuple l -> (try DTuple (List.map2 retag ts l) with Invalid_argument _ -> d)
  | NM (k, v), DMap l -> DMap (List.map (fun (a, b) -> (retag k a, retag v b)) l)
  | NR fs, DStruct l -> (try DStruct (List.map2 (fun (_, x) y -> retag x y) fs l) with Invalid_argument _ -> d)
  | NN x, DNewtype y -> DNewtype (retag x y)
  | NE vs, DEnum (nm, p) ->
      (match List.find_opt (fun (k, _) -> beq_bytes k nm) vs, p with
       | Some (_, NVN x), PNewtype y -> DEnum (nm, PNewtype (retag x y))
       | Some (_, NVT ts), PTuple l -> (try DEnum (nm, PTuple (List.map2 retag ts l)) with Invalid_argument _ -> d)
       | Some (_, NVS fs), PStruct l -> (try DEnum (nm, PStruct (List.map2 (fun (_, x) y -> retag x y) fs l)) with Invalid_argument _ -> d)
       | _ -> d)
  | _ -> d

(* canonical text of data; sets and maps sorted (maps: last entry per key wins) when [norm] *)
let rec show_data (norm : bool) (n : nty) (d : data) : string =
  let cat l = String.concat "" (List.map (fun x -> " " ^ x) l) in
  match n, d with
  | _, DBool b -> if b then "b1" else "b0"
  | _, DInt z -> "i" ^ dec_of_z z
  | _, DF32 f | _, DF64 f -> "f" ^ f64_hex f
  | _, DChar c -> "c" ^ hex_of_n c
  | _, DString s -> "s:" ^ hex_of_bytes s
  | _, DBytes s -> "B:" ^ hex_of_bytes s
  | _, DUnit -> "U"
  | _, DNone -> "-"
  | NO x, DSome y -> "+ " ^ show_data norm x y
  | NSeq x, DSeq l -> Printf.sprintf "L%d%s" (List.length l) (cat (List.map (show_data norm x) l))
  | NSet x, DSeq l ->
      let items = List.map (show_data norm x) l in
      let items = if norm then List.sort_uniq compare items else items in
      Printf.sprintf "L%d%s" (List.length items) (cat items)
  | NT ts, DTuple l -> Printf.sprintf "T%d%s" (List.length l) (cat (List.map2 (show_data norm) ts l))
  | NM (k, v), DMap l ->
      let items = List.map (fun (a, b) -> (show_data norm k a, show_data norm v b)) l in
      let items = if norm then begin
          let tbl = Hashtbl.create 16 in
          List.iter (fun (a, b) -> Hashtbl.replace tbl a b) items;
          List.sort compare (Hashtbl.fold (fun a b acc -> (a, b) :: acc) tbl [])
        end else items in
      Printf.sprintf "M%d%s" (List.length items) (cat (List.map (fun (a, b) -> a ^ " " ^ b) items))
  | NR fs, DStruct l -> Printf.sprintf "R%d%s" (List.length l) (cat (List.map2 (fun (_, x) y -> show_data norm x y) fs l))
  | NN x, DNewtype y -> "N " ^ show_data norm x y
  | NE vs, DEnum (nm, p) ->
      let var = match List.find_opt (fun (k, _) -> beq_bytes k nm) vs with Some (_, v) -> v | None -> NVU in
      "E:" ^ hex_of_bytes nm ^ " " ^
      (match var, p with
       | _, PUnit -> "pu"
       | NVN x, PNewtype y -> "pn " ^ show_data norm x y
       | NVT ts, PTuple l -> Printf.sprintf "pt%d%s" (List.length l) (cat (List.map2 (show_data norm) ts l))
       | NVS fs, PStruct l -> Printf.sprintf "ps%d%s" (List.length l) (cat (List.map2 (fun (_, x) y -> show_data norm x y) fs l))
       | _ -> "?payload")
  | _ -> "?data"

(* `x as f32` *)
let cast_f32 (f : f64) : f64 =
  let bits = Int64.of_string ("0x" ^ f64_hex f) in
  let x = Int64.float_of_bits bits in
  let y = Int32.float_of_bits (Int32.bits_of_float x) in
  let h = Printf.sprintf "%016Lx" (Int64.bits_of_float y) in
  f64_of_bits (n_of_hex h)

(* ---- macro ops ---- *)
let read_lit (s : string) : lit =
  match s.[1] with
  | 'i' -> LInt (n_of_dec (String.sub s 2 (String.length s - 2)))
  | 'f' -> LFloat (f64_of_bits (n_of_hex (String.sub s 2 16)))
  | 's' ->
      (match String.split_on_char ':' s with
       | [_; raw; cooked] -> LStr (bytes_of_hex raw, bytes_of_hex cooked)
       | _ -> LOther false)
  | 'c' -> LChar (n_of_hex (String.sub s 2 (String.length s - 2)))
  | _ -> LOther (String.length s > 2 && s.[2] = 'n')
let rec read_tt (t : toks) : tt =
  let s = next t in
  match s.[0] with
  | 'P' ->
      let n = String.length s in
      Punct (n_of_hex (String.sub s 1 (n - 2)), (if s.[n - 1] = 'j' then Joint else Alone))
  | 'L' -> Lit (read_lit s)
  | 'I' -> Ident (bytes_of_hex (after_colon s))
  | 'G' ->
      let d = (match s.[1] with 'p' -> Paren | 'b' -> Brace | 'k' -> Bracket | _ -> NoDelim) in
      let n = int_of_string (String.sub s 2 (String.length s - 2)) in
      Group (d, List.init n (fun _ -> read_tt t))
  | _ -> failwith ("bad token " ^ s)
let show_lit = function
  | LInt n -> "Li" ^ dec_of_n n
  | LFloat f -> "Lf" ^ f64_hex f
  | LStr (raw, cooked) -> "Ls:" ^ hex_of_bytes raw ^ ":" ^ hex_of_bytes cooked
  | LChar c -> "Lc" ^ hex_of_n c
  | LOther b -> if b then "Lon" else "Lo"
let rec show_tt = function
  | Punct (c, s) -> "P" ^ hex_of_n c ^ (match s with Joint -> "j" | Alone -> "a")
  | Lit l -> show_lit l
  | Ident s -> "I:" ^ hex_of_bytes s
  | Group (d, ts) ->
      Printf.sprintf "G%c%d%s" (match d with Paren -> 'p' | Brace -> 'b' | Bracket -> 'k' | NoDelim -> 'n')
        (List.length ts) (String.concat "" (List.map (fun x -> " " ^ show_tt x) ts))
let rec show_mvalue = function
  | MNil -> "nil"
  | MLiteral l -> "lit " ^ show_lit l
  | MNegated l -> "neg " ^ show_lit l
  | MBool b -> if b then "true" else "false"
  | MSymbol s -> "sym:" ^ hex_of_bytes s
  | MKeyword s -> "kw:" ^ hex_of_bytes s
  | MUnquoted t -> "unq " ^ show_tt t
  | MList l -> Printf.sprintf "list%d%s" (List.length l) (String.concat "" (List.map (fun x -> " " ^ show_mvalue x) l))
  | MImproper (l, r) -> Printf.sprintf "improper%d%s %s" (List.length l) (String.concat "" (List.map (fun x -> " " ^ show_mvalue x) l)) (show_mvalue r)
  | MVector l -> Printf.sprintf "vec%d%s" (List.length l) (String.concat "" (List.map (fun x -> " " ^ show_mvalue x) l))

let read_prim (t : toks) : prim =
  let s = next t in
  let i = String.index s ':' in
  let tag = String.sub s 0 i and arg = String.sub s (i + 1) (String.length s - i - 1) in
  if tag = "str" then PStr (bytes_of_hex arg) else
  match tag.[0] with
  | 's' -> PSigned (n_of_dec (String.sub tag 1 (String.length tag - 1)), z_of_dec arg)
  | 'u' -> PUnsigned (n_of_dec (String.sub tag 1 (String.length tag - 1)), n_of_dec arg)
  | 'f' -> if tag = "f32" then PF32 (f32_of_bits (n_of_hex arg)) else PF64 (f64_of_bits (n_of_hex arg))
  | 'b' -> PBool (arg = "1")
  | _ -> PStr (bytes_of_hex arg)

let run_case (line : string) : string =
  let t = toks_of_line line in
  match next t with
  | "print0" ->
      let v = read_value t in
      hex_of_bytes (print0 ryu v)
  | "printc" ->
      let po = read_po t in
      let v = read_value t in
      hex_of_bytes (print_custom ryu po v)
  | "sink" ->
      let po = read_po t in
      let s = read_sched t in
      let v = read_value t in
      let (r, d) = run_sink s [] (trace_custom ryu po v) in
      show_wres r ^ " " ^ hex_of_bytes d
  | "sink0" ->
      let s = read_sched t in
      let v = read_value t in
      let (r, d) = run_sink s [] (trace0 ryu v) in
      show_wres r ^ " " ^ hex_of_bytes d
  | "acc" -> show_acc (read_value t)
  | "from" ->
      let p = read_prim t in
      let v = value_from_prim p in
      string_of_value v ^ " " ^ show_acc v
  | "cmp" ->
      let p = read_prim t in
      let v = read_value t in
      b01 (value_eq_prim v p) ^ b01 (prim_eq_value p v)
  | "lst" ->
      let v = read_value t in
      let k = int_of_string (next t) in
      let idx = List.init k (fun _ -> n_of_dec (next t)) in
      show_lst v idx
  | "build" ->
      (* build <n> e1..en tail : Value::append *)
      let n = int_of_string (next t) in
      let xs = List.init n (fun _ -> read_value t) in
      let tl = read_value t in
      string_of_value (value_append xs tl)
  | "agets" ->
      let name = bytes_of_hex (next t) in
      let v = read_value t in
      show_ov (get_str v name) ^ " / " ^ string_of_value (index_or_nil (get_str v name))
  | "agetv" ->
      let key = read_value t in
      let v = read_value t in
      show_ov (get_value v key) ^ " / " ^ string_of_value (index_or_nil (get_value v key))
  | "parse" ->
      let k = read_src t in
      let ro = read_ro t in
      let ev = read_events t in
      show_vres (from_trait ro alpha fast_float std_parse k ev)
  | "datum" ->
      let k = read_src t in
      let ro = read_ro t in
      let ev = read_events t in
      show_dres (datum_from_trait ro alpha fast_float std_parse k ev)
  | "refwalk" ->
      let k = read_src t in
      let ro = read_ro t in
      let ev = read_events t in
      show_refwalk (datum_from_trait ro alpha fast_float std_parse k ev)
  | "iter" ->
      (* iter <src> <ro> <v|d> <cap> <events> *)
      let k = read_src t in
      let ro = read_ro t in
      let mode = next t in
      let cap = int_of_string (next t) in
      let ev = read_events t in
      let st = init_state k ev in
      let fuel = fuel_for ev in
      if mode = "v" then
        String.concat " ;; " (List.map show_vres (iterate_values ro alpha fast_float std_parse fuel (nat_of_int cap) st))
      else
        String.concat " ;; " (List.map show_dres (iterate_datums ro alpha fast_float std_parse fuel (nat_of_int cap) st))
  | "hist" ->
      (* hist <src> <ro> <calls> <events> *)
      let k = read_src t in
      let ro = read_ro t in
      let calls = read_calls (next t) in
      let ev = read_events t in
      let st = init_state k ev in
      String.concat " ;; " (List.map show_call_result (run_history ro alpha fast_float std_parse (fuel_for ev) calls st))
  | "ser" ->
      let n = read_nty t in
      ignore (next t);
      let d = retag n (read_data t) in
      (match ser (fun f -> f64_hex (cast_f32 f) = f64_hex f) (model_ty n) d with Some v -> string_of_value v | None -> "illtyped")
  | "de" ->
      let n = read_nty t in
      ignore (next t);
      let v = read_value t in
      (match de cast_f32 (model_ty n) v with
       | SOk d -> "ok " ^ show_data true n d
       | SErr -> "err data")
  | "macro" ->
      let ts = ref [] in
      while has_more t do ts := read_tt t :: !ts done;
      (match macro_parse (List.rev !ts) with
       | MOk v -> "ok " ^ show_mvalue v
       | MErr ExpectedStringLiteral -> "err ExpectedStringLiteral"
       | MErr UnexpectedToken -> "err UnexpectedToken"
       | MErr (UnexpectedChar c) -> "err UnexpectedChar " ^ hex_of_n c
       | MErr UnexpectedDelimiter -> "err UnexpectedDelimiter"
       | MErr UnexpectedEnd -> "err UnexpectedEnd"
       | MErr MFuel -> "fuel")
  | "fromf64" ->
      let f = f64_of_bits (n_of_hex (next t)) in
      (match num_from_f64 f with None -> "-" | Some n -> string_of_value (Number n))
  | op -> "?unknown-op " ^ op

let () =
  load_alpha ();
  let ic = if Array.length Sys.argv > 1 then open_in Sys.argv.(1) else stdin in
  let oc = if Array.length Sys.argv > 2 then open_out Sys.argv.(2) else stdout in
  (try
     while true do
       let line = input_line ic in
       let out = (try run_case line with e -> "!exn " ^ Printexc.to_string e) in
       output_string oc out; output_char oc '\n'
     done
   with End_of_file -> ());
  close_out oc
