(* Reads one case per line, runs the extracted model, prints one canonical
   observation per line. *)
open Model
type string = Stdlib.String.t
open Codec

let read_sched (t : toks) : sched =
  let cap = n_of_dec (next t) in
  let lim = next t in
  let hard = next t = "1" in
  { cap; limit = (if lim = "-" then None else Some (n_of_dec lim)); hard }

let show_wres = function WOk -> "ok" | WErrHard -> "hard" | WErrZero -> "zero"

let opt f = function None -> "-" | Some x -> f x
let b01 b = if b then "1" else "0"
let f64_hex f = let h = hex_of_n (bits_of_f64 f) in String.make (16 - String.length h) '0' ^ h

let show_acc (v : value) : string =
  String.concat " " [
    "k=" ^ String.concat "" (List.map b01 (kind_predicates v));
    "str=" ^ opt hex_of_bytes (as_str v);
    "sym=" ^ opt hex_of_bytes (as_symbol v);
    "kw=" ^ opt hex_of_bytes (as_keyword v);
    "name=" ^ opt hex_of_bytes (as_name v);
    "bytes=" ^ opt hex_of_bytes (as_bytes v);
    "bool=" ^ opt b01 (as_bool v);
    "char=" ^ opt hex_of_n (as_char v);
    "i64=" ^ opt dec_of_z (as_i64 v);
    "u64=" ^ opt dec_of_n (as_u64 v);
    "f64=" ^ opt f64_hex (as_f64 v);
    "is=" ^ b01 (is_i64 v) ^ b01 (is_u64 v) ^ b01 (is_f64 v) ]

let show_list (l : value list) : string =
  "[" ^ String.concat " | " (List.map string_of_value l) ^ "]"
let show_ov = function None -> "-" | Some v -> "S " ^ string_of_value v

let show_lst (v : value) (idx : n list) : string =
  let ncells = match v with Cons (a, d) -> List.length (iter_cells a d) | _ -> 0 in
  let pair_s = function (xs, t) -> show_list xs ^ " . " ^ string_of_value t in
  String.concat " ; " [
    "tv=" ^ (match v with Cons (a, d) -> pair_s (cons_to_vec a d) | _ -> "-");
    "iv=" ^ (match v with Cons (a, d) -> (match cons_into_vec a d with Some p -> pair_s p | None -> "!") | _ -> "-");
    "vtv=" ^ (match value_to_vec v with Some l -> show_list l | None -> "-");
    "cells=" ^ string_of_int ncells;
    "li=" ^ (match value_list_iter v with
             | Some c -> String.concat " , " (List.map show_ov (drain (nat_of_int (ncells + 4)) c))
             | None -> "-");
    "ii=" ^ (match v with
             | Cons (a, d) -> String.concat " , " (List.map (fun (x, o) -> string_of_value x ^ " / " ^ show_ov o) (into_iter_items a d))
             | _ -> "-");
    "isl=" ^ b01 (is_list v) ^ b01 (is_dotted_list v);
    "get=" ^ String.concat " , " (List.map (fun i -> show_ov (get_usize v i) ^ " / " ^ string_of_value (index_or_nil (get_usize v i))) idx) ]

let read_prim (t : toks) : prim =
  let s = next t in
  let i = String.index s ':' in
  let tag = String.sub s 0 i and arg = String.sub s (i + 1) (String.length s - i - 1) in
  if tag = "str" then PStr (bytes_of_hex arg) else
  match tag.[0] with
  | 's' -> PSigned (n_of_dec (String.sub tag 1 (String.length tag - 1)), z_of_dec arg)
  | 'u' -> PUnsigned (n_of_dec (String.sub tag 1 (String.length tag - 1)), n_of_dec arg)
  | 'f' -> if tag = "f32" then PF32 (f32_of_bits (n_of_hex arg)) else PF64 (f64_of_bits (n_of_hex arg))
  | 'b' -> PBool (arg = "1")
  | _ -> PStr (bytes_of_hex arg)

let run_case (line : string) : string =
  let t = toks_of_line line in
  match next t with
  | "print0" ->
      let v = read_value t in
      hex_of_bytes (print0 ryu v)
  | "printc" ->
      let po = read_po t in
      let v = read_value t in
      hex_of_bytes (print_custom ryu po v)
  | "sink" ->
      let po = read_po t in
      let s = read_sched t in
      let v = read_value t in
      let (r, d) = run_sink s [] (trace_custom ryu po v) in
      show_wres r ^ " " ^ hex_of_bytes d
  | "sink0" ->
      let s = read_sched t in
      let v = read_value t in
      let (r, d) = run_sink s [] (trace0 ryu v) in
      show_wres r ^ " " ^ hex_of_bytes d
  | "acc" -> show_acc (read_value t)
  | "from" ->
      let p = read_prim t in
      let v = value_from_prim p in
      string_of_value v ^ " " ^ show_acc v
  | "cmp" ->
      let p = read_prim t in
      let v = read_value t in
      b01 (value_eq_prim v p) ^ b01 (prim_eq_value p v)
  | "lst" ->
      let v = read_value t in
      let k = int_of_string (next t) in
      let idx = List.init k (fun _ -> n_of_dec (next t)) in
      show_lst v idx
  | "build" ->
      (* build <n> e1..en tail : Value::append *)
      let n = int_of_string (next t) in
      let xs = List.init n (fun _ -> read_value t) in
      let tl = read_value t in
      string_of_value (value_append xs tl)
  | "agets" ->
      let name = bytes_of_hex (next t) in
      let v = read_value t in
      show_ov (get_str v name) ^ " / " ^ string_of_value (index_or_nil (get_str v name))
  | "agetv" ->
      let key = read_value t in
      let v = read_value t in
      show_ov (get_value v key) ^ " / " ^ string_of_value (index_or_nil (get_value v key))
  | "fromf64" ->
      let f = f64_of_bits (n_of_hex (next t)) in
      (match num_from_f64 f with None -> "-" | Some n -> string_of_value (Number n))
  | op -> "?unknown-op " ^ op

let () =
  let ic = if Array.length Sys.argv > 1 then open_in Sys.argv.(1) else stdin in
  let oc = if Array.length Sys.argv > 2 then open_out Sys.argv.(2) else stdout in
  (try
     while true do
       let line = input_line ic in
       let out = (try run_case line with e -> "!exn " ^ Printexc.to_string e) in
       output_string oc out; output_char oc '\n'
     done
   with End_of_file -> ());
  close_out oc
