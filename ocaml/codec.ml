(* Parsing of case files and printing of canonical observations. *)
open Model
type string = Stdlib.String.t

let rec n_of_int (i : int) : n =
  if i = 0 then N0 else Npos (pos_of_int i)
and pos_of_int (i : int) : positive =
  if i = 1 then XH
  else if i land 1 = 0 then XO (pos_of_int (i lsr 1))
  else XI (pos_of_int (i lsr 1))

let rec int_of_pos = function
  | XH -> 1
  | XO p -> 2 * int_of_pos p
  | XI p -> 2 * int_of_pos p + 1
let int_of_n = function N0 -> 0 | Npos p -> int_of_pos p

let rec nat_of_int i = if i = 0 then O else S (nat_of_int (i - 1))

(* big naturals through decimal strings *)
let n_ten = n_of_int 10
let n_of_dec (s : string) : n =
  let r = ref N0 in
  String.iter (fun c -> r := N.add (N.mul !r n_ten) (n_of_int (Char.code c - 48))) s;
  !r
let string_of_bytes (b : n list) : string =
  let buf = Buffer.create 16 in
  List.iter (fun x -> Buffer.add_char buf (Char.chr (int_of_n x land 255))) b;
  Buffer.contents buf
let dec_of_n (x : n) : string = string_of_bytes (dec_of_N x)
let z_of_dec (s : string) : z =
  if String.length s > 0 && s.[0] = '-' then
    (match n_of_dec (String.sub s 1 (String.length s - 1)) with N0 -> Z0 | Npos p -> Zneg p)
  else (match n_of_dec s with N0 -> Z0 | Npos p -> Zpos p)
let dec_of_z = function
  | Z0 -> "0"
  | Zpos p -> dec_of_n (Npos p)
  | Zneg p -> "-" ^ dec_of_n (Npos p)

let hexval c =
  match c with
  | '0' .. '9' -> Char.code c - 48
  | 'a' .. 'f' -> Char.code c - 87
  | 'A' .. 'F' -> Char.code c - 55
  | _ -> failwith "bad hex"
let bytes_of_hex (s : string) : n list =
  let l = String.length s / 2 in
  List.init l (fun i -> n_of_int (16 * hexval s.[2 * i] + hexval s.[2 * i + 1]))
let hex_of_bytes (b : n list) : string =
  let buf = Buffer.create 32 in
  List.iter (fun x -> Buffer.add_string buf (Printf.sprintf "%02x" (int_of_n x))) b;
  Buffer.contents buf
let n_of_hex (s : string) : n =
  let r = ref N0 in
  let n16 = n_of_int 16 in
  String.iter (fun c -> r := N.add (N.mul !r n16) (n_of_int (hexval c))) s;
  !r
let hex_of_n (x : n) : string = string_of_bytes (hex_of_N x)

(* ryu oracle: bits -> text, filled while values are decoded *)
let ryu_table : (string, n list) Hashtbl.t = Hashtbl.create 64
let ryu (f : f64) : n list =
  let k = hex_of_n (bits_of_f64 f) in
  match Hashtbl.find_opt ryu_table k with
  | Some t -> t
  | None -> bytes_of_hex "3f3f3f"   (* "???": float without oracle text *)

(* token streams *)
type toks = { a : string array; mutable i : int }
let toks_of_line (l : string) : toks =
  { a = Array.of_list (List.filter (fun s -> s <> "") (String.split_on_char ' ' l)); i = 0 }
let next t = let s = t.a.(t.i) in t.i <- t.i + 1; s
let has_more t = t.i < Array.length t.a
let after_colon s = String.sub s 2 (String.length s - 2)

let rec read_value (t : toks) : value =
  let s = next t in
  match s.[0] with
  | 'N' -> Nil
  | 'U' -> Null
  | 'T' -> Bool true
  | 'F' -> Bool false
  | 'I' ->
      if s.[1] = '+' then Number (PosInt (n_of_dec (after_colon s)))
      else Number (NegInt (z_of_dec ("-" ^ after_colon s)))
  | 'D' ->
      (* D<16 hex bits>[:<hex of ryu text>] *)
      let bits = String.sub s 1 16 in
      let f = f64_of_bits (n_of_hex bits) in
      if String.length s > 17 then begin
        let txt = bytes_of_hex (String.sub s 18 (String.length s - 18)) in
        Hashtbl.replace ryu_table (hex_of_n (bits_of_f64 f)) txt
      end;
      Number (Float f)
  | 'C' -> Char (n_of_hex (String.sub s 1 (String.length s - 1)))
  | 'S' -> String0 (bytes_of_hex (after_colon s))
  | 'Y' -> Symbol (bytes_of_hex (after_colon s))
  | 'K' -> Keyword (bytes_of_hex (after_colon s))
  | 'B' -> Bytes (bytes_of_hex (after_colon s))
  | 'P' -> let a = read_value t in let d = read_value t in Cons (a, d)
  | 'L' ->
      (* L<n> e1 .. en tail : a chain of n cells, iteratively (long lists) *)
      let n = int_of_string (String.sub s 1 (String.length s - 1)) in
      let elems = Array.init n (fun _ -> read_value t) in
      let tail = read_value t in
      let r = ref tail in
      for k = n - 1 downto 0 do r := Cons (elems.(k), !r) done;
      !r
  | 'V' ->
      let n = int_of_string (String.sub s 1 (String.length s - 1)) in
      let l = List.init n (fun _ -> read_value t) in
      Vector l
  | _ -> failwith ("bad value token " ^ s)

let rec show_value (b : Buffer.t) (v : value) : unit =
  match v with
  | Nil -> Buffer.add_string b "N"
  | Null -> Buffer.add_string b "U"
  | Bool true -> Buffer.add_string b "T"
  | Bool false -> Buffer.add_string b "F"
  | Number (PosInt n) -> Buffer.add_string b ("I+" ^ dec_of_n n)
  | Number (NegInt z) ->
      (match z with
       | Zneg p -> Buffer.add_string b ("I-" ^ dec_of_n (Npos p))
       | _ -> Buffer.add_string b ("I-?" ^ dec_of_z z))
  | Number (Float f) ->
      let h = hex_of_n (bits_of_f64 f) in
      Buffer.add_string b ("D" ^ String.make (16 - String.length h) '0' ^ h)
  | Char c -> Buffer.add_string b ("C" ^ hex_of_n c)
  | String0 s -> Buffer.add_string b ("S:" ^ hex_of_bytes s)
  | Symbol s -> Buffer.add_string b ("Y:" ^ hex_of_bytes s)
  | Keyword s -> Buffer.add_string b ("K:" ^ hex_of_bytes s)
  | Bytes s -> Buffer.add_string b ("B:" ^ hex_of_bytes s)
  | Cons (_, _) ->
      (* print chains as L<n> ... tail, iteratively *)
      let rec collect acc v = match v with
        | Cons (a, d) -> collect (a :: acc) d
        | t -> (List.rev acc, t) in
      let (elems, tail) = collect [] v in
      Buffer.add_string b (Printf.sprintf "L%d" (List.length elems));
      List.iter (fun e -> Buffer.add_char b ' '; show_value b e) elems;
      Buffer.add_char b ' ';
      show_value b tail
  | Vector l ->
      Buffer.add_string b (Printf.sprintf "V%d" (List.length l));
      List.iter (fun e -> Buffer.add_char b ' '; show_value b e) l
let string_of_value v = let b = Buffer.create 64 in show_value b v; Buffer.contents b

(* print options: seven digits k n b v y s c *)
let read_po (t : toks) : print_options =
  let s = next t in
  let d i = Char.code s.[i] - 48 in
  { po_keyword = (match d 0 with 0 -> KwColonPrefix | 1 -> KwColonPostfix | _ -> KwOctothorpe);
    po_nil = (match d 1 with 0 -> NilSymbolS | 1 -> NilToken | 2 -> NilEmptyList | _ -> NilFalse);
    po_bool = (match d 2 with 0 -> BoolToken | _ -> BoolSymbol);
    po_vector = (match d 3 with 0 -> VecOctothorpe | _ -> VecBrackets);
    po_bytes = (match d 4 with 0 -> BytesR6RS | 1 -> BytesR7RS | _ -> BytesElisp);
    po_string = (match d 5 with 0 -> StrR6RS | _ -> StrElisp);
    po_char = (match d 6 with 0 -> ChrR6RS | _ -> ChrElisp) }
